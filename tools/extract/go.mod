module verif/extract

go 1.23
