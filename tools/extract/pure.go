package main

// Translator for small pure Go functions (DESIGN 5.2, "regenerated definitions").
//
// For a fixed list of leaf predicates of /repo (byte and rune classes of the lexer, isFullChange,
// shouldIncludeDiagnostic) the Go source is translated, on every run, into Lean definitions in
// HL/Generated/Pure.lean.  HL/Generated/Expect/Pure.lean proves each of them equal to the
// hand-written model definition FOR ALL ARGUMENTS, by tactics that only look at what the
// function computes (exhaustive evaluation over the 256 bytes, linear arithmetic over code
// points), so that a rewrite of the Go function that keeps its meaning (switch <-> chain of ||,
// reordered tests, a helper call) keeps the proofs, and a change of meaning breaks them.
//
// Supported Go: functions whose body is a sequence of `if` / `switch` / `return` statements over
// their parameters; expressions built from parameters, integer / character / string literals,
// true / false, == != < <= > >=, && || !, parentheses, selector chains on struct parameters and
// calls of other functions of the list.  No loops, no assignments, no arithmetic (so Go's
// fixed-width integers and Lean's Nat agree: only comparisons are made).
//
// Parameter types: byte rune int uint32 ... -> Nat, bool -> Bool, string -> String; a parameter
// of any other (struct) type p becomes two accessors `p_n : String → Nat` and `p_b : String → Bool`
// applied to the selector path ("Start.Line"), so the translation does not depend on the order in
// which the source mentions the fields.

import (
	"fmt"
	"go/ast"
	"go/token"
	"sort"
	"strconv"
	"strings"
)

type pureTarget struct {
	Pkg, Name string
}

var pureTargets = []pureTarget{
	{"parser", "isWhitespace"}, {"parser", "isDigit"}, {"parser", "isLetter"}, {"parser", "isAccountStart"},
	{"parser", "isCurrencySymbol"}, {"parser", "isAccountTerminator"},
	{"server", "isFullChange"}, {"server", "shouldIncludeDiagnostic"},
}

type pureKind int

const (
	kNat pureKind = iota
	kBool
	kStr
	kStruct
)

type pureFn struct {
	name   string
	params []string
	kinds  map[string]pureKind
	recv   string
	known  map[string]bool // names of translated functions (callable)
}

type pureErr struct{ msg string }

func pfail(format string, a ...any) { panic(pureErr{fmt.Sprintf(format, a...)}) }

func kindOfType(e ast.Expr) pureKind {
	if id, ok := e.(*ast.Ident); ok {
		switch id.Name {
		case "byte", "rune", "int", "int8", "int16", "int32", "int64", "uint", "uint8", "uint16", "uint32", "uint64":
			return kNat
		case "bool":
			return kBool
		case "string":
			return kStr
		}
	}
	return kStruct
}

// selector chain rooted at an identifier: returns root and dotted path
func selPath(e ast.Expr) (string, string, bool) {
	var parts []string
	for {
		switch x := e.(type) {
		case *ast.SelectorExpr:
			parts = append([]string{x.Sel.Name}, parts...)
			e = x.X
		case *ast.Ident:
			return x.Name, strings.Join(parts, "."), true
		default:
			return "", "", false
		}
	}
}

// value expression (Nat or String); want tells how a struct selector is to be read
func (f *pureFn) val(e ast.Expr) (string, pureKind) {
	switch x := e.(type) {
	case *ast.ParenExpr:
		return f.val(x.X)
	case *ast.BasicLit:
		switch x.Kind {
		case token.INT:
			n, err := strconv.ParseInt(x.Value, 0, 64)
			if err != nil || n < 0 {
				pfail("integer literal %s", x.Value)
			}
			return strconv.FormatInt(n, 10), kNat
		case token.CHAR:
			s, err := strconv.Unquote(x.Value)
			if err != nil {
				pfail("char literal %s", x.Value)
			}
			r := []rune(s)
			return strconv.Itoa(int(r[0])), kNat
		case token.STRING:
			s, err := strconv.Unquote(x.Value)
			if err != nil {
				pfail("string literal %s", x.Value)
			}
			return strconv.Quote(s), kStr
		}
	case *ast.Ident:
		if k, ok := f.kinds[x.Name]; ok && (k == kNat || k == kStr) {
			return x.Name, k
		}
	case *ast.SelectorExpr:
		if root, path, ok := selPath(x); ok && f.kinds[root] == kStruct && path != "" {
			return fmt.Sprintf("(%s_n %s)", root, strconv.Quote(path)), kNat
		}
	}
	pfail("unsupported value expression %T", e)
	return "", kNat
}

// boolean expression
func (f *pureFn) cond(e ast.Expr) string {
	switch x := e.(type) {
	case *ast.ParenExpr:
		return "(" + f.cond(x.X) + ")"
	case *ast.Ident:
		if x.Name == "true" || x.Name == "false" {
			return x.Name
		}
		if f.kinds[x.Name] == kBool {
			return x.Name
		}
	case *ast.UnaryExpr:
		if x.Op == token.NOT {
			return "(!" + f.cond(x.X) + ")"
		}
	case *ast.SelectorExpr:
		if root, path, ok := selPath(x); ok && f.kinds[root] == kStruct && path != "" {
			return fmt.Sprintf("(%s_b %s)", root, strconv.Quote(path))
		}
	case *ast.CallExpr:
		name := ""
		switch fn := x.Fun.(type) {
		case *ast.Ident:
			name = fn.Name
		case *ast.SelectorExpr:
			if id, ok := fn.X.(*ast.Ident); ok && id.Name == f.recv {
				name = fn.Sel.Name
			}
		}
		if name != "" && f.known[name] {
			args := []string{}
			for _, a := range x.Args {
				v, _ := f.val(a)
				args = append(args, v)
			}
			return "(" + name + " " + strings.Join(args, " ") + ")"
		}
	case *ast.BinaryExpr:
		switch x.Op {
		case token.LAND:
			return "(" + f.cond(x.X) + " && " + f.cond(x.Y) + ")"
		case token.LOR:
			return "(" + f.cond(x.X) + " || " + f.cond(x.Y) + ")"
		case token.EQL, token.NEQ, token.LSS, token.LEQ, token.GTR, token.GEQ:
			if z, ok := f.zeroCompare(x); ok {
				return z
			}
			a, ka := f.val(x.X)
			b, kb := f.val(x.Y)
			if ka != kb {
				pfail("comparison of different kinds")
			}
			switch x.Op {
			case token.EQL:
				return "(" + a + " == " + b + ")"
			case token.NEQ:
				return "(" + a + " != " + b + ")"
			}
			if ka != kNat {
				pfail("ordering of strings")
			}
			op := map[token.Token]string{token.LSS: "<", token.LEQ: "≤", token.GTR: ">", token.GEQ: "≥"}[x.Op]
			return "(decide (" + a + " " + op + " " + b + "))"
		}
	}
	pfail("unsupported boolean expression %T", e)
	return ""
}

// `if c then a else b` on Bool, written with && || ! only (plain Boolean algebra for the proofs)
func ite(c, a, b string) string {
	return "((" + c + " && " + a + ") || ((!" + c + ") && " + b + "))"
}

// integer leaves of the struct types whose zero value a predicate may be compared with
var zeroLeaves = map[string][]string{
	"protocol.Range":    {"Start.Line", "Start.Character", "End.Line", "End.Character"},
	"protocol.Position": {"Line", "Character"},
}

// `p == T{}` / `p != T{}` (or with a selector chain on p) for a struct parameter p and the empty
// composite literal of a known struct type: every integer leaf is zero.
func (f *pureFn) zeroCompare(x *ast.BinaryExpr) (string, bool) {
	if x.Op != token.EQL && x.Op != token.NEQ {
		return "", false
	}
	side, lit := x.X, x.Y
	if _, ok := side.(*ast.CompositeLit); ok {
		side, lit = lit, side
	}
	cl, ok := lit.(*ast.CompositeLit)
	if !ok || len(cl.Elts) != 0 {
		return "", false
	}
	root, path, ok := selPath(side)
	if !ok || f.kinds[root] != kStruct {
		return "", false
	}
	tname := ""
	switch t := cl.Type.(type) {
	case *ast.SelectorExpr:
		if id, ok := t.X.(*ast.Ident); ok {
			tname = id.Name + "." + t.Sel.Name
		}
	case *ast.Ident:
		tname = t.Name
	}
	leaves, ok := zeroLeaves[tname]
	if !ok {
		pfail("comparison with the zero value of %s", tname)
	}
	var parts []string
	for _, l := range leaves {
		full := l
		if path != "" {
			full = path + "." + l
		}
		parts = append(parts, fmt.Sprintf("((%s_n %s) == 0)", root, strconv.Quote(full)))
	}
	out := "(" + strings.Join(parts, " && ") + ")"
	if x.Op == token.NEQ {
		out = "(!" + out + ")"
	}
	return out, true
}

// a statement list as one Bool expression; rest is what follows an `if` / `switch` that does not return
func (f *pureFn) block(stmts []ast.Stmt) string {
	if len(stmts) == 0 {
		pfail("control reaches the end of a block without return")
	}
	st, rest := stmts[0], stmts[1:]
	switch x := st.(type) {
	case *ast.ReturnStmt:
		if len(x.Results) != 1 {
			pfail("return with %d results", len(x.Results))
		}
		return f.cond(x.Results[0])
	case *ast.IfStmt:
		if x.Init != nil {
			pfail("if with init statement")
		}
		then := f.block(x.Body.List)
		var els string
		switch e := x.Else.(type) {
		case nil:
			els = f.block(rest)
		case *ast.BlockStmt:
			els = f.block(e.List)
		case *ast.IfStmt:
			els = f.block(append([]ast.Stmt{e}, rest...))
		default:
			pfail("else %T", x.Else)
		}
		return ite(f.cond(x.Cond), then, els)
	case *ast.SwitchStmt:
		if x.Init != nil {
			pfail("switch with init statement")
		}
		var clauses []*ast.CaseClause
		var def *ast.CaseClause
		for _, c := range x.Body.List {
			cc := c.(*ast.CaseClause)
			if cc.List == nil {
				def = cc
			} else {
				clauses = append(clauses, cc)
			}
			for _, s := range cc.Body {
				if bs, ok := s.(*ast.BranchStmt); ok && bs.Tok == token.FALLTHROUGH {
					pfail("fallthrough")
				}
			}
		}
		out := ""
		if def != nil {
			out = f.block(def.Body)
		} else {
			out = f.block(rest)
		}
		for i := len(clauses) - 1; i >= 0; i-- {
			cc := clauses[i]
			var alts []string
			for _, e := range cc.List {
				if x.Tag != nil {
					a, ka := f.val(x.Tag)
					b, kb := f.val(e)
					if ka != kb {
						pfail("switch case of another kind")
					}
					alts = append(alts, "("+a+" == "+b+")")
				} else {
					alts = append(alts, f.cond(e))
				}
			}
			out = ite("("+strings.Join(alts, " || ")+")", f.block(cc.Body), out)
		}
		return out
	}
	pfail("unsupported statement %T", st)
	return ""
}

func translatePure(fd *ast.FuncDecl, known map[string]bool) (def string, err error) {
	defer func() {
		if r := recover(); r != nil {
			if pe, ok := r.(pureErr); ok {
				err = fmt.Errorf("%s", pe.msg)
				return
			}
			panic(r)
		}
	}()
	f := &pureFn{name: fd.Name.Name, kinds: map[string]pureKind{}, known: known}
	if fd.Recv != nil && len(fd.Recv.List) == 1 && len(fd.Recv.List[0].Names) == 1 {
		f.recv = fd.Recv.List[0].Names[0].Name
	}
	var sig []string
	for _, p := range fd.Type.Params.List {
		k := kindOfType(p.Type)
		for _, n := range p.Names {
			f.kinds[n.Name] = k
			switch k {
			case kNat:
				sig = append(sig, "("+n.Name+" : Nat)")
			case kBool:
				sig = append(sig, "("+n.Name+" : Bool)")
			case kStr:
				sig = append(sig, "("+n.Name+" : String)")
			default:
				sig = append(sig, "("+n.Name+"_n : String → Nat) ("+n.Name+"_b : String → Bool)")
			}
		}
	}
	if fd.Type.Results == nil || len(fd.Type.Results.List) != 1 || kindOfType(fd.Type.Results.List[0].Type) != kBool {
		pfail("result type is not bool")
	}
	body := f.block(fd.Body.List)
	return fmt.Sprintf("def %s %s : Bool :=\n  %s\n", f.name, strings.Join(sig, " "), body), nil
}

// genPure writes HL/Generated/Pure.lean.
func genPure(pkgs map[string]map[string]*ast.File) string {
	var b strings.Builder
	b.WriteString("/- GENERATED by tools/extract (pure.go) from /repo's working tree on every run. Do not edit.\n")
	b.WriteString("   Go predicates translated statement by statement; HL/Generated/Expect/Pure.lean proves each\n")
	b.WriteString("   equal to the model's definition for all arguments. -/\n")
	b.WriteString("namespace HL.Generated.Pure\n\n")
	known := map[string]bool{}
	var failed []string
	for _, t := range pureTargets {
		fd := findFunc(pkgs[t.Pkg], t.Name)
		if fd == nil || fd.Body == nil {
			failed = append(failed, t.Pkg+"."+t.Name+": not found")
			continue
		}
		def, err := translatePure(fd, known)
		if err != nil {
			failed = append(failed, t.Pkg+"."+t.Name+": "+err.Error())
			continue
		}
		fmt.Fprintf(&b, "/-- %s.%s -/\n%s\n", t.Pkg, t.Name, def)
		known[t.Name] = true
	}
	sort.Strings(failed)
	fmt.Fprintf(&b, "/-- functions of the list that could not be translated (their expectations then fail to build, naming them) -/\ndef untranslated : List String := %s\n\n", leanStrList(failed))
	b.WriteString("end HL.Generated.Pure\n")
	return b.String()
}
