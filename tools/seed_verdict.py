#!/usr/bin/env python3
"""tools/seed_verdict.py <seed dir name> <verdict text>: records the coordinator's validation in
seeded/<name>/meta.json (then run tools/seed_results.py)."""
import json, sys, os
ROOT = os.path.dirname(os.path.dirname(os.path.abspath(__file__)))
p = os.path.join(ROOT, "seeded", sys.argv[1], "meta.json")
m = json.load(open(p))
m["coordinator_validation"] = {
    "confirmed": "builds; full existing suite green with the change; demonstration fails with the change and passes without it (tools/validate_seed.sh)",
    "check_verdict": sys.argv[2]}
json.dump(m, open(p, "w"), indent=1, ensure_ascii=False)
