#!/bin/bash
# tools/validate_seed.sh <dir under /tmp/seed, e.g. C01> <property ids to check...>
# Confirms a seeded change (builds, suite green, demo fails with / passes without), then runs
# the named checks against /repo with the change applied and reverts it.
set -u
export GOFLAGS=-mod=mod GOPROXY=off
S=$1; shift
W=/tmp/seed/$S; O=/tmp/seed/$S-out
DEMO=$(cd $W && git status --short | grep zz_seed | awk '{print $2}' | head -1)
DEMOCMD=$(python3 -c "import json;print(json.load(open('$O/meta.json'))['demo_cmd'])")
cd $W && git checkout -q -- . && git apply $O/patch.diff || { echo "PATCH DOES NOT APPLY"; exit 1; }
go build ./... || { echo "BUILD FAILS"; exit 1; }
mv $DEMO /tmp/seed/$S.demo.go
SUITE=$(go test -vet=off -count=1 ./... 2>&1 | grep -v "^ok\|no test files" | head -5)
mv /tmp/seed/$S.demo.go $DEMO
echo "suite-with-change: ${SUITE:-green}"
bash -c "$DEMOCMD" >/tmp/seed/$S.with.log 2>&1; echo "demo-with-change rc=$? (expect !=0)"
git checkout -q -- . ; bash -c "$DEMOCMD" >/tmp/seed/$S.without.log 2>&1; echo "demo-without-change rc=$? (expect 0)"
git apply $O/patch.diff
R=${VS_REPO:-/repo}
if [ "$R" != /repo ]; then git -C $R checkout -q -- . ; git -C $R pull -q; export VERIF_REPO=$R; fi
PATCH=$O/patch.diff; [ -f $O/patch.rebased.diff ] && PATCH=$O/patch.rebased.diff
git -C $R apply $PATCH || { echo "does not apply to $R"; exit 1; }
cd /verif
for P in "$@"; do
  ./check $P > /tmp/seed/$S.check.$P.log 2>&1; echo "check $P rc=$? $(grep -c VIOLATION /tmp/seed/$S.check.$P.log) violation line(s): $(grep VIOLATION /tmp/seed/$S.check.$P.log | head -1 | cut -c1-160)"
done
git -C $R checkout -q -- .
git -C /verif checkout -q -- lean/HL/Generated evidence 2>/dev/null
mkdir -p /verif/seeded/$S && cp $O/* /verif/seeded/$S/
