#!/bin/bash
# run_lane.sh <lane letter>: for each refactor diff of the lane, apply to the lane's repo clone and run all quick checks from the lane's verif worktree
export GOFLAGS=-mod=mod GOPROXY=off
L=$1
V=/tmp/w/lane$L; R=/tmp/w/lane$L-repo
cd $V
for i in 1 2 3 4 5 6; do
  P=/tmp/refac2/$L-out/refactor-$i.diff
  [ -f $P ] || continue
  git -C $R checkout -q -- . ; git -C $R clean -qfd ; git -C $R apply $P || { echo "refactor $L-$i does not apply"; continue; }
  VERIF_REPO=$R ./check all --tier quick > /tmp/refac2/$L-$i.check.log 2>&1
  echo "refactor $L-$i rc=$? violations: $(grep -c VIOLATION /tmp/refac2/$L-$i.check.log) $(grep VIOLATION /tmp/refac2/$L-$i.check.log | cut -c1-150 | tr '\n' ';')"
  git -C $R checkout -q -- . ; git -C $R clean -qfd
  git -C $V checkout -q -- evidence lean/HL/Generated 2>/dev/null
done
