#!/bin/bash
# tools/mkbuilder.sh <name>: scratch worktree of /verif (branch w-<name>) at /tmp/w/<name> with
# warm build output, plus a scratch clone of /repo at /tmp/w/<name>-repo (VERIF_REPO).
set -eu
N=$1
mkdir -p /tmp/w
git -C /verif worktree add -q -B w-$N /tmp/w/$N HEAD
cp -r /verif/lean/.lake /tmp/w/$N/lean/.lake
[ -d /verif/.build ] && cp -r /verif/.build /tmp/w/$N/.build
cp /verif/harness/go.sum /tmp/w/$N/harness/go.sum 2>/dev/null || true
rm -rf /tmp/w/$N-repo && git clone -q /repo /tmp/w/$N-repo
echo "/tmp/w/$N (branch w-$N), repo clone /tmp/w/$N-repo"
