#!/bin/sh
# tools/mkwork.sh <name>: scratch worktree of /verif (branch w-<name>) and clone of /repo under /tmp/w/<name>
set -e
n=$1
mkdir -p /tmp/w/$n
git -C /verif worktree add -q /tmp/w/$n/verif -b w-$n
git clone -q /repo /tmp/w/$n/repo
echo /tmp/w/$n
