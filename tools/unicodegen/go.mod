module unicodegen

go 1.24
