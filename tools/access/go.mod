module github.com/juev/hledger-lsp/verifaccess

go 1.24
