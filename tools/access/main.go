// Command access is the C14 translator (DESIGN 5.2 / 7.C14): it reads the Go source of the
// repository under verification and regenerates lean/HL/Generated/Access.lean, the table of
// every access to shared state together with the locks held, the roles (threads) that can
// execute it, whether it is atomic (sync.Map / sync primitives) and whether its object is
// still function-local (fresh).  The Lean side proves the lockset discipline sound over an
// abstract transition system and decides it on this table.
//
//	go run ./tools/access -repo /repo -out lean/HL/Generated/Access.lean
//
// Standard library only (go/parser, go/types with the source importer); no network.
//
// What the translator does, and its limits (all of this is trusted, see DESIGN 7.C14):
//   - packages: internal/server, internal/workspace, internal/include, internal/cli and
//     whatever they import from the same module; files with build constraints that are off
//     by default (the verif hooks) and tests are skipped.
//   - tracked locations: fields of the structs in trackedStructs and package-level variables
//     of the four packages.  A field and the map/slice it points to are one location
//     (m[k] = v, delete(m, k), append-assign are writes of the field).
//   - locks held: a structured walk of each function body; X.Lock()/RLock() adds, a
//     non-deferred X.Unlock()/RUnlock() removes, a deferred unlock keeps the lock to the end
//     of the function, branches that return do not leak into the code after them; function
//     literals are analysed inline at the place they are written.  Locks are identified by
//     the mutex field ("Workspace.mu"), i.e. per type, which is exact while each of these
//     structs has one instance (the table lists where they are constructed).
//   - call graph: static calls and method calls resolved by go/types; interface calls go to
//     every type of the module that implements the interface; a function used as a value
//     counts as called there.  Contexts (role, locks held on entry) are propagated from the
//     entry points: init = NewServer, SetClient, Initialize; main = every other exported
//     method of *Server; publish / refresh = the targets of the two kinds of go statement.
//     The "...Locked" helpers get their locks from their callers' contexts, not their name.
//   - fresh: the object is a local variable initialised from a composite literal, new, make
//     or a constructor (a function all of whose returns are such values) and not yet stored,
//     sent, captured or passed to something that stores it; or a parameter of an unexported
//     function all of whose call sites pass such a value.
//   - memory reachable from shared fields (backing arrays, maps, pointees; references that
//     leave the lock region they were loaded in): alias.go, which emits the `escapes` table,
//     `externalUses`, `funcValueUses` and `astWriters` into the same file.
package main

import (
	"bytes"
	"flag"
	"fmt"
	"go/ast"
	"go/build"
	"go/importer"
	"go/parser"
	"go/token"
	"go/types"
	"os"
	"path/filepath"
	"sort"
	"strings"
)

var trackedStructs = map[string]bool{
	"server.Server": true, "workspace.Workspace": true, "include.Loader": true, "cli.Client": true,
	"server.semanticTokensCache": true, "server.cachedSemanticTokens": true,
	"include.ResolvedJournal": true, "workspace.WorkspaceIndex": true,
}
var trackedPkgDirs = []string{"internal/server", "internal/workspace", "internal/include", "internal/cli"}
var initEntries = map[string]bool{"server.NewServer": true, "server.Server.SetClient": true, "server.Server.Initialize": true}
var goRoles = map[string]string{"server.Server.publishDiagnostics": "publish", "server.Server.publishDiagnosticsVersion": "publish",
	"server.Server.refreshConfiguration": "refresh"}

// ownedStructs: struct types of which ONE instance is owned by (only reachable through) a field of
// another tracked struct, while all other instances are built privately and never written after
// they are published.  Accesses are split into two locations: "T.f" when the object may be
// the owned instance, "TDoc.f" when it cannot be (see wsFlow below).
var ownedStructs = map[string]string{"include.ResolvedJournal": "Workspace.resolved"}

const (
	modeShared = 1
	modeExcl   = 2
)

type held map[string]int

func (h held) copy() held {
	c := held{}
	for k, v := range h {
		c[k] = v
	}
	return c
}
func union(a, b held) held {
	c := a.copy()
	for k, v := range b {
		if v > c[k] {
			c[k] = v
		}
	}
	return c
}
func intersect(a, b held) held {
	c := held{}
	for k, v := range a {
		if w, ok := b[k]; ok {
			if w < v {
				v = w
			}
			c[k] = v
		}
	}
	return c
}
func (h held) String() string {
	var ks []string
	for k := range h {
		ks = append(ks, k)
	}
	sort.Strings(ks)
	var sb strings.Builder
	for _, k := range ks {
		fmt.Fprintf(&sb, "%s/%d;", k, h[k])
	}
	return sb.String()
}

type pkgInfo struct {
	path, dir, name string
	files           []*ast.File
	tpkg            *types.Package
	info            *types.Info
	tracked         bool
}

type world struct {
	fset         *token.FileSet
	mod          string
	repo         string
	pkgs         map[string]*pkgInfo
	order        []*pkgInfo
	ext          types.ImporterFrom
	typeErrs     []string
	fakes        map[string]*types.Package
	funcs        map[*types.Func]*funcInfo
	fieldOf      map[*types.Var]string // field object -> "Struct.field" for every named struct of the module
	tracked      map[*types.Var]bool   // field belongs to a tracked struct
	named        []*types.Named        // every named type of the module (interface dispatch)
	unsup        []string
	returnsOwned map[*types.Func]bool
}

func (w *world) Import(path string) (*types.Package, error) { return w.ImportFrom(path, w.repo, 0) }

func (w *world) ImportFrom(path, dir string, mode types.ImportMode) (*types.Package, error) {
	if path == w.mod || strings.HasPrefix(path, w.mod+"/") {
		p, err := w.load(path)
		if err != nil {
			return nil, err
		}
		return p.tpkg, nil
	}
	if path == "unsafe" {
		return types.Unsafe, nil
	}
	if p, ok := w.fakes[path]; ok {
		return p, nil
	}
	p, err := w.ext.ImportFrom(path, w.repo, 0)
	if err == nil {
		return p, nil
	}
	w.typeErrs = append(w.typeErrs, fmt.Sprintf("import %s: %v", path, err))
	name := path[strings.LastIndex(path, "/")+1:]
	fp := types.NewPackage(path, name)
	fp.MarkComplete()
	w.fakes[path] = fp
	return fp, nil
}

func (w *world) load(path string) (*pkgInfo, error) {
	if p, ok := w.pkgs[path]; ok {
		if p.tpkg == nil {
			return nil, fmt.Errorf("import cycle through %s", path)
		}
		return p, nil
	}
	dir := filepath.Join(w.repo, strings.TrimPrefix(strings.TrimPrefix(path, w.mod), "/"))
	p := &pkgInfo{path: path, dir: dir}
	w.pkgs[path] = p
	ents, err := os.ReadDir(dir)
	if err != nil {
		return nil, err
	}
	for _, e := range ents {
		n := e.Name()
		if e.IsDir() || !strings.HasSuffix(n, ".go") || strings.HasSuffix(n, "_test.go") {
			continue
		}
		if ok, err := build.Default.MatchFile(dir, n); err != nil || !ok {
			continue
		}
		f, err := parser.ParseFile(w.fset, filepath.Join(dir, n), nil, parser.SkipObjectResolution)
		if err != nil {
			return nil, err
		}
		p.files = append(p.files, f)
	}
	if len(p.files) == 0 {
		return nil, fmt.Errorf("no Go files in %s", dir)
	}
	p.name = p.files[0].Name.Name
	p.info = &types.Info{
		Types: map[ast.Expr]types.TypeAndValue{}, Defs: map[*ast.Ident]types.Object{},
		Uses: map[*ast.Ident]types.Object{}, Selections: map[*ast.SelectorExpr]*types.Selection{},
		Implicits: map[ast.Node]types.Object{},
	}
	conf := types.Config{Importer: w, Error: func(err error) { w.typeErrs = append(w.typeErrs, err.Error()) }}
	tp, _ := conf.Check(path, w.fset, p.files, p.info)
	p.tpkg = tp
	w.order = append(w.order, p)
	return p, nil
}

// ---------------------------------------------------------------- per-function facts

type accessSite struct {
	owned     bool   // field of an ownedStructs type
	ownAlways bool   // the base expression may denote the owned instance in every context
	ownIfCtx  bool   // ... only when the enclosing function was handed the owned instance
	method    string // for atomic accesses: the sync method called (Load, Store, Delete, Range, ...)
	loc       string
	write     bool
	atomic    bool
	root      *types.Var // local variable / parameter the access goes through directly (x.f), or nil
	held      held
	pos       token.Pos
}

type argRef struct {
	v *types.Var // the argument is this local variable / parameter (nil: something else)
}

type callSite struct {
	ownAlways bool // some argument / the receiver may be the owned instance
	ownIfCtx  bool // ... when the caller itself was handed it
	callee    *types.Func
	held      held
	pos       token.Pos
	isGo      bool
	args      []argRef // index 0 = receiver, 1.. = parameters
}

type acqSite struct {
	lock string
	mode int
	held held
	pos  token.Pos
}

type litSite struct {
	strct string
	pos   token.Pos
}

type funcInfo struct {
	obj        *types.Func
	key        string
	decl       *ast.FuncDecl
	p          *pkgInfo
	accesses   []accessSite
	calls      []callSite
	acqs       []acqSite
	lits       []litSite
	parent     map[ast.Node]ast.Node
	params     []*types.Var // index 0 = receiver (may be nil)
	cands      map[*types.Var]bool
	ownLocals  map[*types.Var]bool // locals that may hold the owned instance
	ownDerived map[*types.Var]bool // parameters of an owned type and locals assigned from them
	isCtor     int                 // 0 unknown, 1 yes, 2 no, 3 in progress
	heldAt     map[ast.Node]held   // locks taken inside this function that are held at a statement / expression (alias.go)
}

func funcKey(f *types.Func) string {
	pk := ""
	if f.Pkg() != nil {
		pk = f.Pkg().Name()
	}
	sig, _ := f.Type().(*types.Signature)
	if sig != nil && sig.Recv() != nil {
		t := sig.Recv().Type()
		if pt, ok := t.(*types.Pointer); ok {
			t = pt.Elem()
		}
		if n, ok := t.(*types.Named); ok {
			return pk + "." + n.Obj().Name() + "." + f.Name()
		}
	}
	return pk + "." + f.Name()
}

func (w *world) pos(p token.Pos) string {
	ps := w.fset.Position(p)
	return fmt.Sprintf("%s:%d", filepath.Base(ps.Filename), ps.Line)
}

func deref(t types.Type) types.Type {
	if t == nil {
		return nil
	}
	if p, ok := t.Underlying().(*types.Pointer); ok {
		return p.Elem()
	}
	return t
}

func isPointer(t types.Type) bool {
	if t == nil {
		return false
	}
	_, ok := t.Underlying().(*types.Pointer)
	return ok
}

// syncKind: "mutex" for sync.Mutex / sync.RWMutex, "atomic" for every other type of package
// sync or sync/atomic (Map, Once, WaitGroup, atomic.*), "" otherwise.
func syncKind(t types.Type) string {
	t = deref(t)
	n, ok := t.(*types.Named)
	if !ok || n.Obj().Pkg() == nil {
		return ""
	}
	switch n.Obj().Pkg().Path() {
	case "sync":
		if n.Obj().Name() == "Mutex" || n.Obj().Name() == "RWMutex" {
			return "mutex"
		}
		return "atomic"
	case "sync/atomic":
		return "atomic"
	}
	return ""
}

type fnAnalyzer struct {
	w  *world
	fi *funcInfo
}

func (a *fnAnalyzer) info() *types.Info { return a.fi.p.info }

func (a *fnAnalyzer) typeOf(e ast.Expr) types.Type {
	if tv, ok := a.info().Types[e]; ok {
		return tv.Type
	}
	if id, ok := e.(*ast.Ident); ok {
		if o := a.info().Uses[id]; o != nil {
			return o.Type()
		}
	}
	return nil
}

// lockName gives "Struct.field" (or "pkg.var") for the mutex expression x in x.Lock().
func (a *fnAnalyzer) lockName(x ast.Expr) string {
	for {
		if p, ok := x.(*ast.ParenExpr); ok {
			x = p.X
			continue
		}
		break
	}
	switch e := x.(type) {
	case *ast.SelectorExpr:
		if sel := a.info().Selections[e]; sel != nil && sel.Kind() == types.FieldVal {
			if v, ok := sel.Obj().(*types.Var); ok {
				if n, ok := a.w.fieldOf[v]; ok {
					return n
				}
			}
		}
		if v, ok := a.info().Uses[e.Sel].(*types.Var); ok && v.Pkg() != nil && v.Parent() == v.Pkg().Scope() {
			return v.Pkg().Name() + "." + v.Name()
		}
	case *ast.Ident:
		if v, ok := a.info().Uses[e].(*types.Var); ok && v.Pkg() != nil && v.Parent() == v.Pkg().Scope() {
			return v.Pkg().Name() + "." + v.Name()
		}
	}
	return ""
}

// lockOp recognises X.Lock() / RLock() / Unlock() / RUnlock() on a sync mutex.
func (a *fnAnalyzer) lockOp(e ast.Expr) (lock string, op string, ok bool) {
	c, isCall := e.(*ast.CallExpr)
	if !isCall {
		return
	}
	s, isSel := c.Fun.(*ast.SelectorExpr)
	if !isSel {
		return
	}
	switch s.Sel.Name {
	case "Lock", "RLock", "Unlock", "RUnlock", "TryLock", "TryRLock":
	default:
		return
	}
	if syncKind(a.typeOf(s.X)) != "mutex" {
		return
	}
	name := a.lockName(s.X)
	if name == "" {
		a.w.unsup = append(a.w.unsup, "lock expression not a field or package variable at "+a.w.pos(e.Pos()))
		return "", "", false
	}
	if strings.HasPrefix(s.Sel.Name, "Try") {
		a.w.unsup = append(a.w.unsup, "TryLock at "+a.w.pos(e.Pos()))
		return "", "", false
	}
	return name, s.Sel.Name, true
}

func (a *fnAnalyzer) stmts(list []ast.Stmt, h held) (held, bool) {
	for _, s := range list {
		var term bool
		h, term = a.stmt(s, h)
		if term {
			return h, true
		}
	}
	return h, false
}

func merge(outs []held, base held) held {
	if len(outs) == 0 {
		return base
	}
	r := outs[0]
	for _, o := range outs[1:] {
		r = intersect(r, o)
	}
	return r
}

func (a *fnAnalyzer) stmt(s ast.Stmt, h held) (held, bool) {
	if s != nil && a.fi.heldAt != nil {
		a.fi.heldAt[s] = h
	}
	switch s := s.(type) {
	case nil:
		return h, false
	case *ast.ExprStmt:
		if lock, op, ok := a.lockOp(s.X); ok {
			switch op {
			case "Lock", "RLock":
				m := modeExcl
				if op == "RLock" {
					m = modeShared
				}
				a.fi.acqs = append(a.fi.acqs, acqSite{lock, m, h.copy(), s.Pos()})
				h = h.copy()
				h[lock] = m
			default:
				h = h.copy()
				delete(h, lock)
			}
			return h, false
		}
		a.node(s.X, h)
		if c, ok := s.X.(*ast.CallExpr); ok {
			if id, ok := c.Fun.(*ast.Ident); ok && id.Name == "panic" {
				return h, true
			}
		}
		return h, false
	case *ast.DeferStmt:
		if _, op, ok := a.lockOp(s.Call); ok {
			if op == "Lock" || op == "RLock" {
				a.w.unsup = append(a.w.unsup, "deferred Lock at "+a.w.pos(s.Pos()))
			}
			return h, false // deferred unlock: held until the function returns
		}
		a.node(s.Call, h)
		return h, false
	case *ast.GoStmt:
		a.call(s.Call, h, true)
		for _, x := range s.Call.Args {
			a.node(x, h)
		}
		if sel, ok := s.Call.Fun.(*ast.SelectorExpr); ok {
			a.node(sel.X, h)
		}
		if _, ok := s.Call.Fun.(*ast.FuncLit); ok {
			a.w.unsup = append(a.w.unsup, "go func literal at "+a.w.pos(s.Pos()))
		}
		return h, false
	case *ast.ReturnStmt:
		for _, x := range s.Results {
			a.node(x, h)
		}
		return h, true
	case *ast.BlockStmt:
		return a.stmts(s.List, h)
	case *ast.IfStmt:
		h, _ = a.stmt(s.Init, h)
		a.node(s.Cond, h)
		var outs []held
		if o, t := a.stmts(s.Body.List, h.copy()); !t {
			outs = append(outs, o)
		}
		if s.Else != nil {
			if o, t := a.stmt(s.Else, h.copy()); !t {
				outs = append(outs, o)
			}
		} else {
			outs = append(outs, h)
		}
		if len(outs) == 0 {
			return h, true
		}
		return merge(outs, h), false
	case *ast.ForStmt:
		h, _ = a.stmt(s.Init, h)
		if s.Cond != nil {
			a.node(s.Cond, h)
		}
		a.stmts(s.Body.List, h.copy())
		a.stmt(s.Post, h.copy())
		return h, false
	case *ast.RangeStmt:
		a.node(s.X, h)
		if s.Tok == token.ASSIGN {
			if s.Key != nil {
				a.node(s.Key, h)
			}
			if s.Value != nil {
				a.node(s.Value, h)
			}
		}
		a.stmts(s.Body.List, h.copy())
		return h, false
	case *ast.SwitchStmt:
		h, _ = a.stmt(s.Init, h)
		if s.Tag != nil {
			a.node(s.Tag, h)
		}
		return a.clauses(s.Body, h)
	case *ast.TypeSwitchStmt:
		h, _ = a.stmt(s.Init, h)
		a.stmt(s.Assign, h)
		return a.clauses(s.Body, h)
	case *ast.SelectStmt:
		return a.clauses(s.Body, h)
	case *ast.LabeledStmt:
		return a.stmt(s.Stmt, h)
	case *ast.BranchStmt:
		return h, true
	default:
		a.node(s, h)
		return h, false
	}
}

func (a *fnAnalyzer) clauses(body *ast.BlockStmt, h held) (held, bool) {
	outs := []held{}
	hasDefault := false
	for _, c := range body.List {
		switch c := c.(type) {
		case *ast.CaseClause:
			if c.List == nil {
				hasDefault = true
			}
			for _, x := range c.List {
				a.node(x, h)
			}
			if o, t := a.stmts(c.Body, h.copy()); !t {
				outs = append(outs, o)
			}
		case *ast.CommClause:
			if c.Comm == nil {
				hasDefault = true
			}
			hc, _ := a.stmt(c.Comm, h.copy())
			if o, t := a.stmts(c.Body, hc); !t {
				outs = append(outs, o)
			}
		}
	}
	if !hasDefault {
		outs = append(outs, h)
	}
	if len(outs) == 0 {
		return h, true
	}
	return merge(outs, h), false
}

// node records the accesses, calls and function values below n (statements without control
// flow, and expressions); function literals are walked as code at this point.
func (a *fnAnalyzer) node(n ast.Node, h held) {
	if n == nil {
		return
	}
	ast.Inspect(n, func(x ast.Node) bool {
		if x != nil && a.fi.heldAt != nil {
			a.fi.heldAt[x] = h
		}
		switch x := x.(type) {
		case *ast.FuncLit:
			a.stmts(x.Body.List, h.copy())
			return false
		case *ast.CallExpr:
			if _, _, ok := a.lockOp(x); ok {
				a.w.unsup = append(a.w.unsup, "lock operation inside an expression at "+a.w.pos(x.Pos()))
			}
			a.call(x, h, false)
		case *ast.CompositeLit:
			a.compositeLit(x)
		case *ast.SelectorExpr:
			a.selector(x, h)
		case *ast.Ident:
			a.ident(x, h)
		}
		return true
	})
}

func (a *fnAnalyzer) compositeLit(x *ast.CompositeLit) {
	t := deref(a.typeOf(x))
	if n, ok := t.(*types.Named); ok && n.Obj().Pkg() != nil {
		k := n.Obj().Pkg().Name() + "." + n.Obj().Name()
		if trackedStructs[k] {
			a.fi.lits = append(a.fi.lits, litSite{n.Obj().Name(), x.Pos()})
		}
	}
}

func (a *fnAnalyzer) localVar(e ast.Expr) *types.Var {
	for {
		switch p := e.(type) {
		case *ast.ParenExpr:
			e = p.X
			continue
		case *ast.StarExpr:
			e = p.X
			continue
		}
		break
	}
	id, ok := e.(*ast.Ident)
	if !ok {
		return nil
	}
	v, ok := a.info().Uses[id].(*types.Var)
	if !ok || v.IsField() || v.Pkg() == nil || v.Parent() == v.Pkg().Scope() {
		return nil
	}
	return v
}

func (a *fnAnalyzer) selector(x *ast.SelectorExpr, h held) {
	sel := a.info().Selections[x]
	if sel == nil {
		return // qualified identifier: handled by ident on x.Sel
	}
	if sel.Kind() != types.FieldVal {
		// method value not in call position = the function is used as a value
		if f, ok := sel.Obj().(*types.Func); ok {
			if c, ok := a.fi.parent[x].(*ast.CallExpr); !ok || c.Fun != x {
				a.fi.calls = append(a.fi.calls, callSite{callee: f, held: h.copy(), pos: x.Pos()})
			}
		}
		return
	}
	v, ok := sel.Obj().(*types.Var)
	if !ok || !a.w.tracked[v] {
		return
	}
	kind := a.classify(x)
	if kind == "lock" {
		return
	}
	method := ""
	if p, ok := a.fi.parent[x].(*ast.SelectorExpr); ok && p.X == ast.Expr(x) && kind == "atomic" {
		method = p.Sel.Name
	}
	owned, oa, oc := false, false, false
	if a.w.isOwnedType(a.typeOf(x.X)) {
		owned = true
		oa, oc = a.w.ownExpr(a.fi, x.X)
	}
	a.fi.accesses = append(a.fi.accesses, accessSite{
		owned: owned, ownAlways: oa, ownIfCtx: oc,
		method: method,
		loc:    a.w.fieldOf[v], write: kind == "write" || kind == "atomic", atomic: kind == "atomic",
		root: a.localVar(x.X), held: h.copy(), pos: x.Pos(),
	})
}

func (a *fnAnalyzer) ident(id *ast.Ident, h held) {
	o := a.info().Uses[id]
	switch o := o.(type) {
	case *types.Var:
		if o.IsField() || o.Pkg() == nil || o.Parent() != o.Pkg().Scope() {
			return
		}
		pi := a.w.pkgs[o.Pkg().Path()]
		if pi == nil || !pi.tracked {
			return
		}
		var e ast.Expr = id
		if p, ok := a.fi.parent[id].(*ast.SelectorExpr); ok && p.Sel == id {
			e = p
		}
		kind := a.classify(e)
		if kind == "lock" {
			return
		}
		a.fi.accesses = append(a.fi.accesses, accessSite{
			loc: o.Pkg().Name() + "." + o.Name(), write: kind == "write" || kind == "atomic", atomic: kind == "atomic",
			held: h.copy(), pos: id.Pos(),
		})
	case *types.Func:
		// a function used as a value (not the Fun of a call)
		var e ast.Expr = id
		if p, ok := a.fi.parent[id].(*ast.SelectorExpr); ok && p.Sel == id {
			if a.info().Selections[p] != nil {
				return // method selection: handled in selector
			}
			e = p
		}
		if c, ok := a.fi.parent[e].(*ast.CallExpr); ok && c.Fun == e {
			return
		}
		a.fi.calls = append(a.fi.calls, callSite{callee: o, held: h.copy(), pos: id.Pos()})
	}
}

// classify decides how the memory denoted by e (a tracked field or package variable) is used:
// "read", "write", "atomic" (method of a sync type) or "lock" (mutex operation).
func (a *fnAnalyzer) classify(e ast.Expr) string {
	cur := ast.Node(e)
	for {
		p := a.fi.parent[cur]
		switch p := p.(type) {
		case *ast.ParenExpr:
			cur = p
			continue
		case *ast.SelectorExpr:
			if p.X != cur {
				return "read"
			}
			curT := a.typeOf(cur.(ast.Expr))
			sel := a.info().Selections[p]
			if sel == nil {
				return "read"
			}
			if sel.Kind() == types.FieldVal {
				if isPointer(curT) {
					return "read" // pointer load; the field behind it is its own location
				}
				cur = p
				continue
			}
			switch syncKind(curT) {
			case "mutex":
				return "lock"
			case "atomic":
				return "atomic"
			}
			if isPointer(curT) {
				return "read"
			}
			if f, ok := sel.Obj().(*types.Func); ok {
				if sig, ok := f.Type().(*types.Signature); ok && sig.Recv() != nil && isPointer(sig.Recv().Type()) {
					return "write" // pointer-receiver method on a value field: may modify it
				}
			}
			return "read"
		case *ast.IndexExpr:
			if p.X != cur {
				return "read"
			}
			t := a.typeOf(cur.(ast.Expr))
			if t != nil {
				switch deref(t).Underlying().(type) {
				case *types.Map, *types.Slice, *types.Array:
					cur = p
					continue
				}
			}
			return "read"
		case *ast.StarExpr:
			return "read"
		case *ast.UnaryExpr:
			if p.Op == token.AND {
				return "write" // address taken: assume the worst
			}
			return "read"
		case *ast.AssignStmt:
			for _, l := range p.Lhs {
				if l == cur {
					return "write"
				}
			}
			return "read"
		case *ast.IncDecStmt:
			return "write"
		case *ast.RangeStmt:
			if p.Key == cur || p.Value == cur {
				return "write"
			}
			return "read"
		case *ast.CallExpr:
			if len(p.Args) > 0 && p.Args[0] == cur {
				switch f := p.Fun.(type) {
				case *ast.Ident:
					if _, isBuiltin := a.info().Uses[f].(*types.Builtin); isBuiltin {
						switch f.Name {
						case "delete", "clear", "copy":
							return "write"
						}
					}
				case *ast.SelectorExpr:
					if fn, ok := a.info().Uses[f.Sel].(*types.Func); ok && fn.Pkg() != nil {
						if fn.Pkg().Path() == "maps" && (fn.Name() == "Copy" || fn.Name() == "DeleteFunc" || fn.Name() == "Insert") {
							return "write"
						}
						if fn.Pkg().Path() == "sort" || (fn.Pkg().Path() == "slices" && strings.HasPrefix(fn.Name(), "Sort")) {
							return "write"
						}
					}
				}
			}
			return "read"
		default:
			return "read"
		}
	}
}

func (a *fnAnalyzer) call(c *ast.CallExpr, h held, isGo bool) {
	var recv ast.Expr
	var callees []*types.Func
	switch f := c.Fun.(type) {
	case *ast.Ident:
		if fn, ok := a.info().Uses[f].(*types.Func); ok {
			callees = append(callees, fn)
		}
	case *ast.SelectorExpr:
		if sel := a.info().Selections[f]; sel != nil {
			if sel.Kind() == types.MethodVal {
				fn := sel.Obj().(*types.Func)
				if types.IsInterface(sel.Recv()) {
					callees = a.w.implementers(sel.Recv(), fn.Name())
				} else {
					callees = append(callees, fn)
					recv = f.X
				}
			}
		} else if fn, ok := a.info().Uses[f.Sel].(*types.Func); ok {
			callees = append(callees, fn)
		}
	}
	for _, fn := range callees {
		cs := callSite{callee: fn, held: h.copy(), pos: c.Pos(), isGo: isGo}
		exprs := append([]ast.Expr{}, c.Args...)
		if recv != nil {
			exprs = append(exprs, recv)
		}
		for _, x := range exprs {
			if a.w.isOwnedType(a.typeOf(x)) {
				oa, oc := a.w.ownExpr(a.fi, x)
				cs.ownAlways = cs.ownAlways || oa
				cs.ownIfCtx = cs.ownIfCtx || oc
			}
		}
		var rv *types.Var
		if recv != nil {
			rv = a.localVar(recv)
		}
		cs.args = append(cs.args, argRef{rv})
		for _, x := range c.Args {
			var v *types.Var
			if _, isStar := x.(*ast.StarExpr); !isStar {
				v = a.localVar(x)
			}
			cs.args = append(cs.args, argRef{v})
		}
		a.fi.calls = append(a.fi.calls, cs)
	}
}

func (w *world) implementers(iface types.Type, method string) []*types.Func {
	it, ok := iface.Underlying().(*types.Interface)
	if !ok {
		return nil
	}
	var out []*types.Func
	for _, n := range w.named {
		if types.IsInterface(n) {
			continue
		}
		for _, t := range []types.Type{n, types.NewPointer(n)} {
			if types.Implements(t, it) {
				o, _, _ := types.LookupFieldOrMethod(t, true, n.Obj().Pkg(), method)
				if f, ok := o.(*types.Func); ok {
					out = append(out, f)
				}
				break
			}
		}
	}
	return out
}

// ---------------------------------------------------------------- owned instances

func (w *world) isOwnedType(t types.Type) bool {
	n, ok := deref(t).(*types.Named)
	if !ok || n.Obj().Pkg() == nil {
		return false
	}
	_, ok = ownedStructs[n.Obj().Pkg().Name()+"."+n.Obj().Name()]
	return ok
}

// ownExpr: may e denote the owned instance (always / when the function was handed it)?
func (w *world) ownExpr(fi *funcInfo, e ast.Expr) (always, ifCtx bool) {
	info := fi.p.info
	for {
		switch p := e.(type) {
		case *ast.ParenExpr:
			e = p.X
			continue
		case *ast.StarExpr:
			e = p.X
			continue
		case *ast.UnaryExpr:
			if p.Op == token.AND {
				e = p.X
				continue
			}
		}
		break
	}
	switch x := e.(type) {
	case *ast.SelectorExpr:
		if sel := info.Selections[x]; sel != nil && sel.Kind() == types.FieldVal {
			if v, ok := sel.Obj().(*types.Var); ok {
				for _, owner := range ownedStructs {
					if w.fieldOf[v] == owner {
						return true, false
					}
				}
			}
			return false, false // some other field: objects stored elsewhere are never the owned one (checked: ownStore)
		}
	case *ast.CallExpr:
		var fn *types.Func
		switch f := x.Fun.(type) {
		case *ast.Ident:
			fn, _ = info.Uses[f].(*types.Func)
		case *ast.SelectorExpr:
			if sel := info.Selections[f]; sel != nil {
				fn, _ = sel.Obj().(*types.Func)
			} else {
				fn, _ = info.Uses[f.Sel].(*types.Func)
			}
		}
		if fn != nil && w.returnsOwned[fn] {
			return true, false
		}
		return false, false
	case *ast.Ident:
		if v, ok := info.Uses[x].(*types.Var); ok {
			return fi.ownLocals[v], fi.ownDerived[v]
		}
		if v, ok := info.Defs[x].(*types.Var); ok {
			return fi.ownLocals[v], fi.ownDerived[v]
		}
	}
	return false, false
}

// ownFlow computes, to a fixpoint, which functions may return the owned instance and which
// local variables may hold it (flow-insensitively), and reports places where it is stored
// anywhere but in its owner field.
func (w *world) ownFlow(fis []*funcInfo) {
	w.returnsOwned = map[*types.Func]bool{}
	for _, fi := range fis {
		fi.ownLocals = map[*types.Var]bool{}
		fi.ownDerived = map[*types.Var]bool{}
		for _, pv := range fi.params {
			if pv != nil && w.isOwnedType(pv.Type()) {
				fi.ownDerived[pv] = true
			}
		}
	}
	for changed := true; changed; {
		changed = false
		for _, fi := range fis {
			info := fi.p.info
			assign := func(lhs, rhs ast.Expr) {
				if !w.isOwnedType(fi.p.info.TypeOf(rhs)) {
					return
				}
				oa, oc := w.ownExpr(fi, rhs)
				if !oa && !oc {
					return
				}
				if id, ok := lhs.(*ast.Ident); ok {
					var v *types.Var
					if d, ok := info.Defs[id].(*types.Var); ok {
						v = d
					} else if u, ok := info.Uses[id].(*types.Var); ok {
						v = u
					}
					if v != nil && v.Pkg() != nil && v.Parent() != v.Pkg().Scope() {
						if oa && !fi.ownLocals[v] {
							fi.ownLocals[v] = true
							changed = true
						}
						if oc && !fi.ownDerived[v] {
							fi.ownDerived[v] = true
							changed = true
						}
						return
					}
				}
				// stored into a field, map, slice or package variable
				if sel, ok := lhs.(*ast.SelectorExpr); ok {
					if s := info.Selections[sel]; s != nil {
						if v, ok := s.Obj().(*types.Var); ok {
							for _, owner := range ownedStructs {
								if w.fieldOf[v] == owner {
									return
								}
							}
						}
					}
				}
				msg := "owned object stored outside its owner field at " + w.pos(lhs.Pos())
				for _, u := range w.unsup {
					if u == msg {
						return
					}
				}
				w.unsup = append(w.unsup, msg)
			}
			ast.Inspect(fi.decl.Body, func(n ast.Node) bool {
				switch n := n.(type) {
				case *ast.AssignStmt:
					if len(n.Lhs) == len(n.Rhs) {
						for i := range n.Lhs {
							assign(n.Lhs[i], n.Rhs[i])
						}
					}
				case *ast.ValueSpec:
					if len(n.Names) == len(n.Values) {
						for i := range n.Names {
							assign(n.Names[i], n.Values[i])
						}
					}
				case *ast.ReturnStmt:
					for _, r := range n.Results {
						if !w.isOwnedType(info.TypeOf(r)) {
							continue
						}
						if oa, _ := w.ownExpr(fi, r); oa && !w.returnsOwned[fi.obj] {
							w.returnsOwned[fi.obj] = true
							changed = true
						}
					}
				}
				return true
			})
		}
	}
}

// ---------------------------------------------------------------- freshness

func (w *world) freshExpr(fi *funcInfo, e ast.Expr) bool {
	switch e := e.(type) {
	case *ast.ParenExpr:
		return w.freshExpr(fi, e.X)
	case *ast.CompositeLit:
		return true
	case *ast.UnaryExpr:
		if e.Op == token.AND {
			_, ok := e.X.(*ast.CompositeLit)
			return ok
		}
	case *ast.CallExpr:
		switch f := e.Fun.(type) {
		case *ast.Ident:
			if _, ok := fi.p.info.Uses[f].(*types.Builtin); ok && (f.Name == "new" || f.Name == "make") {
				return true
			}
			if fn, ok := fi.p.info.Uses[f].(*types.Func); ok {
				return w.isConstructor(fn)
			}
		case *ast.SelectorExpr:
			if fi.p.info.Selections[f] == nil {
				if fn, ok := fi.p.info.Uses[f.Sel].(*types.Func); ok {
					return w.isConstructor(fn)
				}
			} else if sel := fi.p.info.Selections[f]; sel.Kind() == types.MethodVal && !types.IsInterface(sel.Recv()) {
				return w.isConstructor(sel.Obj().(*types.Func))
			}
		}
	}
	return false
}

// candidates: local variables with exactly one definition, from a fresh expression, whose
// address is never taken.
func (w *world) candidates(fi *funcInfo) map[*types.Var]bool {
	if fi.cands != nil {
		return fi.cands
	}
	fi.cands = map[*types.Var]bool{}
	info := fi.p.info
	defs := map[*types.Var]int{}
	consider := func(lhs []ast.Expr, rhs []ast.Expr, define bool) {
		for i, l := range lhs {
			id, ok := l.(*ast.Ident)
			if !ok || id.Name == "_" {
				continue
			}
			var v *types.Var
			if d, ok := info.Defs[id].(*types.Var); ok {
				v = d
			} else if u, ok := info.Uses[id].(*types.Var); ok {
				v = u
			}
			if v == nil {
				continue
			}
			defs[v]++
			var r ast.Expr
			if len(rhs) == len(lhs) {
				r = rhs[i]
			} else if len(rhs) == 1 && i == 0 {
				r = rhs[0]
			}
			if r != nil && defs[v] == 1 && w.freshExpr(fi, r) {
				fi.cands[v] = true
			} else {
				delete(fi.cands, v)
				defs[v] = 2
			}
		}
	}
	ast.Inspect(fi.decl.Body, func(n ast.Node) bool {
		switch n := n.(type) {
		case *ast.AssignStmt:
			consider(n.Lhs, n.Rhs, n.Tok == token.DEFINE)
		case *ast.ValueSpec:
			var lhs []ast.Expr
			for _, id := range n.Names {
				lhs = append(lhs, id)
			}
			consider(lhs, n.Values, true)
		case *ast.UnaryExpr:
			if n.Op == token.AND {
				if id, ok := n.X.(*ast.Ident); ok {
					if v, ok := info.Uses[id].(*types.Var); ok {
						delete(fi.cands, v)
						defs[v] = 2
					}
				}
			}
		}
		return true
	})
	for v := range fi.cands {
		if defs[v] != 1 {
			delete(fi.cands, v)
		}
	}
	return fi.cands
}

// escapePos: the first position at which the object bound to local variable / parameter v
// may have become reachable from another thread (token.NoPos: never in this function).
func (w *world) escapePos(fi *funcInfo, v *types.Var, paramEsc map[*types.Func][]bool) token.Pos {
	info := fi.p.info
	best := token.NoPos
	note := func(n ast.Node) {
		p := n.Pos()
		for q := fi.parent[n]; q != nil; q = fi.parent[q] {
			switch q.(type) {
			case *ast.ForStmt, *ast.RangeStmt:
				p = q.Pos()
			}
		}
		if best == token.NoPos || p < best {
			best = p
		}
	}
	isV := func(e ast.Expr) bool {
		for {
			switch p := e.(type) {
			case *ast.ParenExpr:
				e = p.X
				continue
			case *ast.UnaryExpr:
				if p.Op == token.AND {
					e = p.X
					continue
				}
			}
			break
		}
		id, ok := e.(*ast.Ident)
		return ok && info.Uses[id] == v
	}
	ast.Inspect(fi.decl.Body, func(n ast.Node) bool {
		switch n := n.(type) {
		case *ast.AssignStmt:
			for i, r := range n.Rhs {
				if isV(r) {
					if len(n.Lhs) == len(n.Rhs) {
						if id, ok := n.Lhs[i].(*ast.Ident); ok && id.Name == "_" {
							continue
						}
					}
					note(n)
				}
			}
		case *ast.ValueSpec:
			for _, r := range n.Values {
				if isV(r) {
					note(n)
				}
			}
		case *ast.SendStmt:
			if isV(n.Value) {
				note(n)
			}
		case *ast.GoStmt:
			for _, x := range n.Call.Args {
				if isV(x) {
					note(n)
				}
			}
			if s, ok := n.Call.Fun.(*ast.SelectorExpr); ok && isV(s.X) {
				note(n)
			}
		case *ast.CompositeLit:
			for _, el := range n.Elts {
				if kv, ok := el.(*ast.KeyValueExpr); ok {
					el = kv.Value
				}
				if isV(el) {
					note(n)
				}
			}
		case *ast.FuncLit:
			used := false
			ast.Inspect(n.Body, func(m ast.Node) bool {
				if id, ok := m.(*ast.Ident); ok && info.Uses[id] == v {
					used = true
				}
				return !used
			})
			if used {
				note(n)
			}
		case *ast.CallExpr:
			var callee *types.Func
			recvIsV := false
			switch f := n.Fun.(type) {
			case *ast.Ident:
				if _, ok := info.Uses[f].(*types.Builtin); ok {
					if f.Name == "append" {
						for _, x := range n.Args[1:] {
							if isV(x) {
								note(n)
							}
						}
					}
					return true
				}
				callee, _ = info.Uses[f].(*types.Func)
			case *ast.SelectorExpr:
				if sel := info.Selections[f]; sel != nil {
					if sel.Kind() == types.MethodVal {
						callee, _ = sel.Obj().(*types.Func)
						recvIsV = isV(f.X)
						if types.IsInterface(sel.Recv()) {
							callee = nil
						}
					}
				} else {
					callee, _ = info.Uses[f.Sel].(*types.Func)
				}
			}
			var esc []bool
			internal := false
			if callee != nil {
				if _, ok := w.funcs[callee]; ok {
					internal = true
					esc = paramEsc[callee]
				}
			}
			if recvIsV && internal && len(esc) > 0 && esc[0] {
				note(n)
			}
			for i, x := range n.Args {
				if !isV(x) {
					continue
				}
				if !internal {
					note(n) // unknown callee: assume it keeps the pointer
					continue
				}
				j := i + 1
				if j >= len(esc) {
					j = len(esc) - 1 // variadic tail
				}
				if j >= 0 && esc[j] {
					note(n)
				}
			}
		}
		return true
	})
	return best
}

func (w *world) isConstructor(fn *types.Func) bool {
	fi, ok := w.funcs[fn]
	if !ok {
		return false
	}
	switch fi.isCtor {
	case 1:
		return true
	case 2, 3:
		return false
	}
	fi.isCtor = 3
	res := true
	sig := fn.Type().(*types.Signature)
	if sig.Results().Len() == 0 {
		res = false
	}
	cands := w.candidates(fi)
	seen := 0
	var visit func(n ast.Node) bool
	visit = func(n ast.Node) bool {
		switch n := n.(type) {
		case *ast.FuncLit:
			return false
		case *ast.ReturnStmt:
			seen++
			if len(n.Results) == 0 {
				res = false
				return false
			}
			r := n.Results[0]
			if id, ok := r.(*ast.Ident); ok {
				if id.Name == "nil" {
					return false
				}
				if v, ok := fi.p.info.Uses[id].(*types.Var); ok && cands[v] {
					ep := w.escapePos(fi, v, nil)
					if ep == token.NoPos || n.Pos() < ep {
						return false
					}
				}
				res = false
				return false
			}
			if !w.freshExpr(fi, r) {
				res = false
			}
			return false
		}
		return true
	}
	ast.Inspect(fi.decl.Body, visit)
	if seen == 0 {
		res = false
	}
	if res {
		fi.isCtor = 1
	} else {
		fi.isCtor = 2
	}
	return res
}

// ---------------------------------------------------------------- main

type rowKey struct {
	loc, role     string
	write         bool
	locks         string
	atomic, fresh bool
}

func leanIdent(s string) string {
	s = strings.NewReplacer("[]", "_elem", ".", "_", "-", "_", "/", "_").Replace(s)
	return s
}

func main() {
	repo := flag.String("repo", "/repo", "repository under verification")
	out := flag.String("out", "", "Lean file to write (default: stdout)")
	verbose := flag.Bool("v", false, "print every site")
	flag.Parse()
	abs, err := filepath.Abs(*repo)
	if err != nil {
		fatal(err)
	}
	if *out != "" {
		if *out, err = filepath.Abs(*out); err != nil {
			fatal(err)
		}
	}
	if err := os.Chdir(abs); err != nil {
		fatal(err)
	}
	gm, err := os.ReadFile(filepath.Join(abs, "go.mod"))
	if err != nil {
		fatal(err)
	}
	mod := ""
	for _, l := range strings.Split(string(gm), "\n") {
		if strings.HasPrefix(l, "module ") {
			mod = strings.TrimSpace(strings.TrimPrefix(l, "module "))
		}
	}
	build.Default.CgoEnabled = false
	w := &world{fset: token.NewFileSet(), mod: mod, repo: abs, pkgs: map[string]*pkgInfo{},
		fakes: map[string]*types.Package{}, funcs: map[*types.Func]*funcInfo{},
		fieldOf: map[*types.Var]string{}, tracked: map[*types.Var]bool{}}
	w.ext = importer.ForCompiler(w.fset, "source", nil).(types.ImporterFrom)
	for _, d := range trackedPkgDirs {
		p, err := w.load(mod + "/" + d)
		if err != nil {
			fatal(err)
		}
		p.tracked = true
	}

	// named types, struct fields
	for _, p := range w.order {
		sc := p.tpkg.Scope()
		for _, n := range sc.Names() {
			tn, ok := sc.Lookup(n).(*types.TypeName)
			if !ok {
				continue
			}
			named, ok := tn.Type().(*types.Named)
			if !ok {
				continue
			}
			w.named = append(w.named, named)
			if st, ok := named.Underlying().(*types.Struct); ok {
				for i := 0; i < st.NumFields(); i++ {
					f := st.Field(i)
					w.fieldOf[f] = tn.Name() + "." + f.Name()
					if trackedStructs[p.name+"."+tn.Name()] {
						w.tracked[f] = true
					}
				}
			}
		}
	}
	// functions
	for _, p := range w.order {
		for _, f := range p.files {
			for _, d := range f.Decls {
				fd, ok := d.(*ast.FuncDecl)
				if !ok || fd.Body == nil {
					continue
				}
				obj, ok := p.info.Defs[fd.Name].(*types.Func)
				if !ok {
					continue
				}
				fi := &funcInfo{obj: obj, key: funcKey(obj), decl: fd, p: p, parent: map[ast.Node]ast.Node{}, heldAt: map[ast.Node]held{}}
				var stack []ast.Node
				ast.Inspect(fd, func(n ast.Node) bool {
					if n == nil {
						stack = stack[:len(stack)-1]
						return true
					}
					if len(stack) > 0 {
						fi.parent[n] = stack[len(stack)-1]
					}
					stack = append(stack, n)
					return true
				})
				sig := obj.Type().(*types.Signature)
				fi.params = append(fi.params, sig.Recv())
				for i := 0; i < sig.Params().Len(); i++ {
					fi.params = append(fi.params, sig.Params().At(i))
				}
				w.funcs[obj] = fi
			}
		}
	}
	var fis []*funcInfo
	for _, fi := range w.funcs {
		fis = append(fis, fi)
	}
	sort.Slice(fis, func(i, j int) bool { return fis[i].key < fis[j].key })
	w.ownFlow(fis)
	for _, fi := range fis {
		a := &fnAnalyzer{w: w, fi: fi}
		a.stmts(fi.decl.Body.List, held{})
	}
	// package-level variable initialisers run before main: composite literals there count as init
	type pkgLit struct{ strct, site string }
	var pkgLits []pkgLit
	for _, p := range w.order {
		for _, f := range p.files {
			for _, d := range f.Decls {
				gd, ok := d.(*ast.GenDecl)
				if !ok || gd.Tok != token.VAR {
					continue
				}
				ast.Inspect(gd, func(n ast.Node) bool {
					if cl, ok := n.(*ast.CompositeLit); ok {
						if tv, ok := p.info.Types[cl]; ok {
							if nm, ok := deref(tv.Type).(*types.Named); ok && nm.Obj().Pkg() != nil && trackedStructs[nm.Obj().Pkg().Name()+"."+nm.Obj().Name()] {
								pkgLits = append(pkgLits, pkgLit{nm.Obj().Name(), "package-level initialiser " + w.pos(cl.Pos())})
							}
						}
					}
					return true
				})
			}
		}
	}

	// parameter escape (least fixpoint)
	paramEsc := map[*types.Func][]bool{}
	for _, fi := range fis {
		paramEsc[fi.obj] = make([]bool, len(fi.params))
	}
	for changed := true; changed; {
		changed = false
		for _, fi := range fis {
			for i, pv := range fi.params {
				if pv == nil || paramEsc[fi.obj][i] {
					continue
				}
				if w.escapePos(fi, pv, paramEsc) != token.NoPos {
					paramEsc[fi.obj][i] = true
					changed = true
				}
			}
		}
	}
	// local freshness
	freshAt := func(fi *funcInfo, v *types.Var, pos token.Pos, paramFresh map[*types.Func][]bool) bool {
		if v == nil {
			return false
		}
		ok := w.candidates(fi)[v]
		if !ok {
			for i, pv := range fi.params {
				if pv == v && paramFresh[fi.obj][i] {
					ok = true
				}
			}
		}
		if !ok {
			return false
		}
		ep := w.escapePos(fi, v, paramEsc)
		return ep == token.NoPos || pos < ep
	}
	// parameter freshness (least fixpoint): unexported functions all of whose call sites pass a fresh object
	paramFresh := map[*types.Func][]bool{}
	for _, fi := range fis {
		paramFresh[fi.obj] = make([]bool, len(fi.params))
	}
	type site struct {
		caller *funcInfo
		cs     *callSite
	}
	callers := map[*types.Func][]site{}
	for _, fi := range fis {
		for i := range fi.calls {
			cs := &fi.calls[i]
			callers[cs.callee] = append(callers[cs.callee], site{fi, cs})
		}
	}
	for changed := true; changed; {
		changed = false
		for _, fi := range fis {
			if fi.obj.Exported() || len(callers[fi.obj]) == 0 {
				continue
			}
			for i := range fi.params {
				if fi.params[i] == nil || paramFresh[fi.obj][i] {
					continue
				}
				all := true
				for _, s := range callers[fi.obj] {
					if i >= len(s.cs.args) || s.cs.isGo || !freshAt(s.caller, s.cs.args[i].v, s.cs.pos, paramFresh) {
						all = false
						break
					}
				}
				if all {
					paramFresh[fi.obj][i] = true
					changed = true
				}
			}
		}
	}

	// escape / alias analysis of the memory reachable from shared fields (alias.go)
	alias := w.aliasAnalysis(fis, func(fi *funcInfo, v *types.Var, pos token.Pos) bool { return freshAt(fi, v, pos, paramFresh) })

	// contexts
	type ctxKey struct {
		fn   *types.Func
		role string
		held string
		own  bool
	}
	type ctxT struct {
		fn   *funcInfo
		role string
		held held
		own  bool // the function may have been handed the owned instance of an ownedStructs type
	}
	seen := map[ctxKey]bool{}
	var work []ctxT
	pushOwn := func(fi *funcInfo, role string, h held, own bool) {
		k := ctxKey{fi.obj, role, h.String(), own}
		if seen[k] {
			return
		}
		seen[k] = true
		work = append(work, ctxT{fi, role, h, own})
	}
	push := func(fi *funcInfo, role string, h held) { pushOwn(fi, role, h, false) }
	for _, fi := range fis {
		if initEntries[fi.key] {
			push(fi, "init", held{})
		}
	}
	for _, fi := range fis {
		sig := fi.obj.Type().(*types.Signature)
		if sig.Recv() == nil || !fi.obj.Exported() || initEntries[fi.key] {
			continue
		}
		if strings.HasPrefix(fi.key, "server.Server.") {
			push(fi, "main", held{})
		}
	}
	rows := map[rowKey][]string{}
	type orderKey struct{ a, b string }
	order := map[orderKey][]string{}
	type spawnKey struct{ from, to string }
	spawns := map[spawnKey][]string{}
	type litKey struct{ strct, role string }
	lits := map[litKey][]string{}
	for _, pl := range pkgLits {
		lits[litKey{pl.strct, "init"}] = append(lits[litKey{pl.strct, "init"}], pl.site)
	}
	reached := map[*types.Func]bool{}
	resolvedMutators := map[string]bool{}
	locksSeen := map[string]bool{}
	for len(work) > 0 {
		c := work[0]
		work = work[1:]
		reached[c.fn.obj] = true
		for _, ac := range c.fn.accesses {
			hh := union(c.held, ac.held)
			if ac.owned && !(ac.ownAlways || (c.own && ac.ownIfCtx)) {
				// an instance that is certainly not the owned one
				ac.loc = strings.Replace(ac.loc, ".", "Doc.", 1)
			}
			k := rowKey{loc: ac.loc, role: c.role, write: ac.write, locks: hh.String(), atomic: ac.atomic,
				fresh: freshAt(c.fn, ac.root, ac.pos, paramFresh)}
			rows[k] = append(rows[k], fmt.Sprintf("%s %s", c.fn.key, w.pos(ac.pos)))
			if ac.loc == "Server.resolved" && ac.method != "Load" && ac.method != "Range" {
				// a sync.Map call that can change Server.resolved: where, and is docVerMu held?
				_, locked := hh["Server.docVerMu"]
				resolvedMutators[fmt.Sprintf("(%q, %s)", c.fn.key, map[bool]string{true: "true", false: "false"}[locked])] = true
			}
			for l := range hh {
				locksSeen[l] = true
			}
		}
		for _, aq := range c.fn.acqs {
			locksSeen[aq.lock] = true
			for l := range union(c.held, aq.held) {
				k := orderKey{l, aq.lock}
				order[k] = append(order[k], fmt.Sprintf("%s %s", c.fn.key, w.pos(aq.pos)))
			}
		}
		for _, l := range c.fn.lits {
			k := litKey{l.strct, c.role}
			lits[k] = append(lits[k], fmt.Sprintf("%s %s", c.fn.key, w.pos(l.pos)))
		}
		for _, cs := range c.fn.calls {
			callee, ok := w.funcs[cs.callee]
			if cs.isGo {
				role := ""
				if ok {
					role = goRoles[callee.key]
				}
				if role == "" {
					w.unsup = append(w.unsup, "go statement with an unknown target at "+w.pos(cs.pos))
					continue
				}
				k := spawnKey{c.role, role}
				spawns[k] = append(spawns[k], fmt.Sprintf("%s %s", c.fn.key, w.pos(cs.pos)))
				push(callee, role, held{})
				continue
			}
			if !ok {
				if cs.ownAlways || (c.own && cs.ownIfCtx) {
					w.unsup = append(w.unsup, "owned object passed to a function outside the module at "+w.pos(cs.pos))
				}
				continue
			}
			pushOwn(callee, c.role, union(c.held, cs.held), cs.ownAlways || (c.own && cs.ownIfCtx))
		}
	}

	for k := range alias.rows {
		for _, e := range strings.Split(k.locks, ";") {
			if i := strings.LastIndex(e, "/"); i > 0 {
				locksSeen[e[:i]] = true
			}
		}
	}

	// handlers (exported methods of *Server on the main thread) that can read Server.resolved
	var resolvedReaders []string
	for _, fi := range fis {
		sig := fi.obj.Type().(*types.Signature)
		if sig.Recv() == nil || !fi.obj.Exported() || !strings.HasPrefix(fi.key, "server.Server.") {
			continue
		}
		seenF := map[*types.Func]bool{}
		stack := []*funcInfo{fi}
		hit := false
		for len(stack) > 0 && !hit {
			f := stack[len(stack)-1]
			stack = stack[:len(stack)-1]
			if seenF[f.obj] {
				continue
			}
			seenF[f.obj] = true
			for _, ac := range f.accesses {
				if ac.loc == "Server.resolved" && (ac.method == "Load" || ac.method == "Range" || ac.method == "LoadOrStore" || ac.method == "") {
					hit = true
				}
			}
			for _, cs := range f.calls {
				if g, ok := w.funcs[cs.callee]; ok && !cs.isGo {
					stack = append(stack, g)
				}
			}
		}
		if hit {
			resolvedReaders = append(resolvedReaders, fi.obj.Name())
		}
	}

	// evidence from cmd/: the handler is called inline by the jsonrpc2 read loop
	serial, setClientFirst := cmdEvidence(w, abs)

	// ------------------------------------------------------------ output
	var locs, locks []string
	locSet := map[string]bool{}
	for k := range rows {
		if !locSet[k.loc] {
			locSet[k.loc] = true
			locs = append(locs, k.loc)
		}
	}
	sort.Strings(locs)
	for l := range locksSeen {
		locks = append(locks, l)
	}
	sort.Strings(locks)
	var keys []rowKey
	for k := range rows {
		keys = append(keys, k)
	}
	roleOrd := map[string]int{"init": 0, "main": 1, "publish": 2, "refresh": 3}
	sort.Slice(keys, func(i, j int) bool {
		a, b := keys[i], keys[j]
		if a.loc != b.loc {
			return a.loc < b.loc
		}
		if a.role != b.role {
			return roleOrd[a.role] < roleOrd[b.role]
		}
		if a.write != b.write {
			return !a.write
		}
		if a.locks != b.locks {
			return a.locks < b.locks
		}
		if a.atomic != b.atomic {
			return !a.atomic
		}
		return !a.fresh && b.fresh
	})
	var b bytes.Buffer
	fmt.Fprintf(&b, "/- GENERATED by tools/access from the Go source of the repository under verification.\n")
	fmt.Fprintf(&b, "   Do not edit: `./check` regenerates this file on every run.\n")
	fmt.Fprintf(&b, "   go run ./tools/access -repo <repo> -out lean/HL/Generated/Access.lean -/\n")
	fmt.Fprintf(&b, "import HL.Model.Lockset\nnamespace HL.Generated.Access\nopen HL.Lockset\n\n")
	fmt.Fprintf(&b, "/-- shared locations that are accessed by code reachable from the server's entry points -/\ninductive Loc\n")
	for _, l := range locs {
		fmt.Fprintf(&b, "  | %s\n", leanIdent(l))
	}
	fmt.Fprintf(&b, "  deriving DecidableEq, Repr\n\n")
	fmt.Fprintf(&b, "/-- mutexes (identified by the field that holds them) -/\ninductive Lock\n")
	for _, l := range locks {
		fmt.Fprintf(&b, "  | %s\n", leanIdent(l))
	}
	fmt.Fprintf(&b, "  deriving DecidableEq, Repr\n\n")
	fmt.Fprintf(&b, "/-- every mutex of the table (for expectations that quantify over the locks instead of naming them) -/\ndef Lock.all : List Lock := [")
	for i, l := range locks {
		if i > 0 {
			fmt.Fprintf(&b, ", ")
		}
		fmt.Fprintf(&b, ".%s", leanIdent(l))
	}
	fmt.Fprintf(&b, "]\n\n")
	boolS := func(x bool) string {
		if x {
			return "true"
		}
		return "false"
	}
	strList := func(ss []string, max int) string {
		ss = dedupe(ss)
		more := 0
		if max > 0 && len(ss) > max {
			more = len(ss) - max
			ss = ss[:max]
		}
		var q []string
		for _, s := range ss {
			q = append(q, fmt.Sprintf("%q", s))
		}
		if more > 0 {
			q = append(q, fmt.Sprintf("%q", fmt.Sprintf("... and %d more", more)))
		}
		return "[" + strings.Join(q, ", ") + "]"
	}
	locksLean := func(s string) string {
		var q []string
		for _, e := range strings.Split(s, ";") {
			if e == "" {
				continue
			}
			i := strings.LastIndex(e, "/")
			m := ".shared"
			if e[i+1:] == "2" {
				m = ".excl"
			}
			q = append(q, fmt.Sprintf("(.%s, %s)", leanIdent(e[:i]), m))
		}
		return "[" + strings.Join(q, ", ") + "]"
	}
	maxSites := 4
	if *verbose {
		maxSites = 0
	}
	fmt.Fprintf(&b, "def accessTable : List (Row Loc Lock) := [\n")
	for i, k := range keys {
		kind := ".read"
		if k.write {
			kind = ".write"
		}
		sep := ","
		if i == len(keys)-1 {
			sep = ""
		}
		fmt.Fprintf(&b, "  ⟨.%s, .%s, %s, %s, %s, %s, %s⟩%s\n", leanIdent(k.loc), k.role, kind, locksLean(k.locks),
			boolS(k.atomic), boolS(k.fresh), strList(rows[k], maxSites), sep)
	}
	fmt.Fprintf(&b, "]\n\n")

	fmt.Fprintf(&b, "/-- (held, acquired): lock `acquired` is taken at a point where `held` is held -/\ndef lockOrder : List (Lock × Lock) := [")
	var oks []orderKey
	for k := range order {
		oks = append(oks, k)
	}
	sort.Slice(oks, func(i, j int) bool {
		if oks[i].a != oks[j].a {
			return oks[i].a < oks[j].a
		}
		return oks[i].b < oks[j].b
	})
	for i, k := range oks {
		if i > 0 {
			fmt.Fprintf(&b, ", ")
		}
		fmt.Fprintf(&b, "(.%s, .%s)", leanIdent(k.a), leanIdent(k.b))
	}
	fmt.Fprintf(&b, "]\n")
	fmt.Fprintf(&b, "def lockOrderSites : List String := [")
	for i, k := range oks {
		if i > 0 {
			fmt.Fprintf(&b, ", ")
		}
		fmt.Fprintf(&b, "%q", fmt.Sprintf("%s -> %s at %s", k.a, k.b, strings.Join(dedupe(order[k]), "; ")))
	}
	fmt.Fprintf(&b, "]\n\n")

	fmt.Fprintf(&b, "/-- every lock that is acquired anywhere in reachable code -/\ndef allLocks : List Lock := [")
	for i, l := range locks {
		if i > 0 {
			fmt.Fprintf(&b, ", ")
		}
		fmt.Fprintf(&b, ".%s", leanIdent(l))
	}
	fmt.Fprintf(&b, "]\n\n")

	fmt.Fprintf(&b, "/-- go statements: (role of the function that contains it, role it starts, sites) -/\ndef spawns : List (Role × Role × List String) := [")
	var sks []spawnKey
	for k := range spawns {
		sks = append(sks, k)
	}
	sort.Slice(sks, func(i, j int) bool {
		if sks[i].from != sks[j].from {
			return roleOrd[sks[i].from] < roleOrd[sks[j].from]
		}
		return roleOrd[sks[i].to] < roleOrd[sks[j].to]
	})
	for i, k := range sks {
		if i > 0 {
			fmt.Fprintf(&b, ", ")
		}
		fmt.Fprintf(&b, "(.%s, .%s, %s)", k.from, k.to, strList(spawns[k], 0))
	}
	fmt.Fprintf(&b, "]\n\n")

	fmt.Fprintf(&b, "/-- where objects of the tracked struct types are constructed: (struct, role, sites).\n    Locks are identified per struct type, which is exact while the lock-owning structs are\n    constructed during initialisation only. -/\ndef constructed : List (String × Role × List String) := [")
	var lks []litKey
	for k := range lits {
		lks = append(lks, k)
	}
	sort.Slice(lks, func(i, j int) bool {
		if lks[i].strct != lks[j].strct {
			return lks[i].strct < lks[j].strct
		}
		return roleOrd[lks[i].role] < roleOrd[lks[j].role]
	})
	for i, k := range lks {
		if i > 0 {
			fmt.Fprintf(&b, ",\n  ")
		}
		fmt.Fprintf(&b, "(%q, .%s, %s)", k.strct, k.role, strList(lits[k], 0))
	}
	fmt.Fprintf(&b, "]\n\n")

	alias.output(&b, fis, boolS, strList, locksLean, maxSites)

	sort.Strings(w.unsup)
	fmt.Fprintf(&b, "/-- constructs the translator does not understand (must be empty) -/\ndef unsupported : List String := %s\n\n", strList(w.unsup, 0))
	fmt.Fprintf(&b, "/-- go/types errors while loading the packages (must be 0: the call graph and the field\n    resolution depend on complete type information) -/\ndef typeErrors : Nat := %d\n\n", len(w.typeErrs))
	fmt.Fprintf(&b, "/-- cmd/hledger-lsp: no AsyncHandler, no go statement: the jsonrpc2 read loop calls the handler inline -/\ndef serialHandler : Bool := %s\n", boolS(serial))
	fmt.Fprintf(&b, "/-- cmd/hledger-lsp main: NewServer and SetClient come before conn.Go -/\ndef setClientBeforeServe : Bool := %s\n\n", boolS(setClientFirst))
	fmt.Fprintf(&b, "/-- exported methods of *Server from which a read of Server.resolved (Load / Range) is reachable without passing a go statement -/\ndef resolvedReaders : List String := %s\n\n", strList(resolvedReaders, 0))
	var muts []string
	for m := range resolvedMutators {
		muts = append(muts, m)
	}
	sort.Strings(muts)
	fmt.Fprintf(&b, "/-- every function, in any role, that calls a method of the sync.Map Server.resolved other than Load / Range\n    (Store, Delete, ...), paired with: is Server.docVerMu held at the call (in every calling context listed) -/\ndef resolvedMutators : List (String × Bool) := [%s]\n\n", strings.Join(muts, ", "))
	var unreached []string
	for _, fi := range fis {
		if fi.p.tracked && !reached[fi.obj] && len(fi.accesses) > 0 {
			unreached = append(unreached, fi.key)
		}
	}
	fmt.Fprintf(&b, "/-- functions that touch tracked state but are not reachable from any entry point (not in the table) -/\ndef unreached : List String := %s\n\n", strList(unreached, 0))
	fmt.Fprintf(&b, "end HL.Generated.Access\n")

	for _, e := range w.typeErrs {
		fmt.Fprintln(os.Stderr, "type error:", e)
	}
	if *out == "" {
		os.Stdout.Write(b.Bytes())
		return
	}
	if old, err := os.ReadFile(*out); err == nil && bytes.Equal(old, b.Bytes()) {
		return
	}
	if err := os.MkdirAll(filepath.Dir(*out), 0o755); err != nil {
		fatal(err)
	}
	if err := os.WriteFile(*out, b.Bytes(), 0o644); err != nil {
		fatal(err)
	}
}

func dedupe(ss []string) []string {
	seen := map[string]bool{}
	var out []string
	for _, s := range ss {
		if !seen[s] {
			seen[s] = true
			out = append(out, s)
		}
	}
	sort.Strings(out)
	return out
}

func cmdEvidence(w *world, repo string) (serial bool, setClientFirst bool) {
	dir := filepath.Join(repo, "cmd", "hledger-lsp")
	ents, err := os.ReadDir(dir)
	if err != nil {
		return false, false
	}
	serial = true
	for _, e := range ents {
		n := e.Name()
		if !strings.HasSuffix(n, ".go") || strings.HasSuffix(n, "_test.go") {
			continue
		}
		if ok, err := build.Default.MatchFile(dir, n); err != nil || !ok {
			continue
		}
		f, err := parser.ParseFile(w.fset, filepath.Join(dir, n), nil, parser.SkipObjectResolution)
		if err != nil {
			return false, false
		}
		ast.Inspect(f, func(x ast.Node) bool {
			switch x := x.(type) {
			case *ast.GoStmt:
				serial = false
			case *ast.Ident:
				if x.Name == "AsyncHandler" {
					serial = false
				}
			case *ast.FuncDecl:
				if x.Name.Name == "main" && x.Recv == nil && x.Body != nil {
					var pNew, pSet, pGo token.Pos
					ast.Inspect(x.Body, func(y ast.Node) bool {
						if c, ok := y.(*ast.CallExpr); ok {
							if s, ok := c.Fun.(*ast.SelectorExpr); ok {
								switch s.Sel.Name {
								case "NewServer":
									pNew = c.Pos()
								case "SetClient":
									pSet = c.Pos()
								case "Go":
									pGo = c.Pos()
								}
							}
						}
						return true
					})
					setClientFirst = pNew != token.NoPos && pSet != token.NoPos && pGo != token.NoPos && pNew < pSet && pSet < pGo
				}
			}
			return true
		})
	}
	return
}

func fatal(err error) {
	fmt.Fprintln(os.Stderr, "access:", err)
	os.Exit(2)
}
