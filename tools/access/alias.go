// Escape / alias analysis for C14 (DESIGN 7.C14, "memory reachable from shared fields").
//
// The access table of main.go has one row per access to a FIELD of a shared struct.  A field of
// slice, map or pointer type is only the handle of more memory: the backing array, the map, the
// pointee.  A handle that is read under a lock and then leaves the lock region (returned, put
// into a result struct, kept in a local, passed on) still points to the same memory, and an
// append / element assignment / field assignment through it is an access to shared memory that
// the field table does not see.  This file follows such references and emits the `escapes`
// table: one row per class of access to a backing STORE, with the role, the locks held at the
// access, whether it writes, and how the reference relates to the lock region it was read in.
//
// Abstract domain (flow-insensitive inside a function, one context per (function, role, locks
// held on entry), iterated to a global fixpoint):
//   - a label is (store, src): the name of a store ("Struct.field" for the container / pointee a
//     field of a module struct refers to, "S[]" for the elements of container S, "pkg.var" for a
//     package-level variable) and the names of the locks that were held when the reference was
//     loaded from shared memory;
//   - the abstract value of an expression is (top, deep): the stores its top-level reference may
//     point into, and the stores that may be reachable from a value that is itself private (a
//     fresh struct, slice or map that holds references into shared memory, or a struct value
//     copied out of shared memory);
//   - stores are named by type (all shared instances of a struct share the names of its fields),
//     except that fields of include.ResolvedJournal are split as in main.go into the one instance
//     owned by Workspace.resolved and all others ("ResolvedJournalDoc.f");
//   - shared memory is what is reachable from the receiver of the server's entry points, from
//     package-level variables of the tracked packages and from sync.Map cells; a value stored
//     into shared memory becomes shared (the variable it was stored from is labelled).
//
// Rows: (store, role, how, mutated, locks, fresh, sites) with how =
//   - inRegion: every lock that was held when the reference was loaded is still held,
//   - copied  : the access is the read of a copy (slices.Clone, maps.Clone, append(fresh, x...),
//     copy(fresh, x)): what the function goes on with is private,
//   - escaped : some lock of the region the reference was loaded in is no longer held.
//
// `mutated` is set for append, element / field assignment, delete, clear, copy-into and the
// in-place functions of sort / slices / maps through the reference.  `fresh` as in main.go: the
// object the access goes through was created in this function and is not published yet.
//
// Limits (trusted): calls through function values are not followed; struct types of other
// modules are opaque; reflection and unsafe are not modelled; a reference that a callee keeps
// AND returns is only followed forwards.
package main

import (
	"bytes"
	"fmt"
	"go/ast"
	"go/token"
	"go/types"
	"sort"
	"strings"
)

// lbl: a store, the locks that were held when the reference was loaded, and whether the label
// was acquired by PUBLISHING a locally created object (pub) rather than by loading from shared
// memory: only accesses through pub labels can be `fresh` (before the publication).
type lbl struct {
	name, src string
	pub       bool
}
type lset map[lbl]bool

// fnRef: a function literal together with the context whose variables it closes over.
type fnRef struct {
	lit *ast.FuncLit
	c   *actx
}

type aval struct {
	top, deep lset
	fns       map[fnRef]bool // function literals the value may be (calls through it are followed)
}

func (s lset) add(l lbl) bool {
	if s[l] {
		return false
	}
	s[l] = true
	return true
}

func joinSet(dst *lset, src lset) bool {
	ch := false
	for l := range src {
		if *dst == nil {
			*dst = lset{}
		}
		if (*dst).add(l) {
			ch = true
		}
	}
	return ch
}

func (v *aval) join(o aval) bool {
	a := joinSet(&v.top, o.top)
	b := joinSet(&v.deep, o.deep)
	for f := range o.fns {
		if v.fns == nil {
			v.fns = map[fnRef]bool{}
		}
		if !v.fns[f] {
			v.fns[f] = true
			a = true
		}
	}
	return a || b
}

// unpub: the value as seen by another function (a callee, the caller): whatever was published
// is simply shared there.
func unpub(v aval) aval {
	conv := func(s lset) lset {
		if len(s) == 0 {
			return s
		}
		need := false
		for l := range s {
			if l.pub {
				need = true
				break
			}
		}
		if !need {
			return s
		}
		o := lset{}
		for l := range s {
			o[lbl{l.name, l.src, false}] = true
		}
		return o
	}
	return aval{top: conv(v.top), deep: conv(v.deep), fns: v.fns}
}

func (v aval) all() lset {
	r := lset{}
	for l := range v.top {
		r[l] = true
	}
	for l := range v.deep {
		r[l] = true
	}
	return r
}

type escKey struct {
	store, role, how string
	write            bool
	locks            string
	fresh            bool
}

type actx struct {
	fi     *funcInfo
	role   string
	held   held
	env    map[*types.Var]*aval
	ret    []aval
	outTop []lset // labels this function (or its callees) added to parameter i by publishing it
	outDp  []lset // ... added to what is reachable from parameter i
	litRet map[*ast.FuncLit][]aval
}

type aliasAn struct {
	w        *world
	ctxs     map[string]*actx
	order    []*actx
	rows     map[escKey]map[string]bool
	storeT   map[string]types.Type
	changed  bool
	freshAt  func(fi *funcInfo, v *types.Var, pos token.Pos) bool
	extUses  map[string][]string
	funcVals map[string]bool
	astW     map[string]bool
	refMemo  map[types.Type]int
}

func lockNames(h held) string {
	var ks []string
	for k := range h {
		ks = append(ks, k)
	}
	sort.Strings(ks)
	return strings.Join(ks, ";")
}

func subsetNames(src string, h held) bool {
	if src == "" {
		return true
	}
	for _, n := range strings.Split(src, ";") {
		if _, ok := h[n]; !ok {
			return false
		}
	}
	return true
}

// refTyped: can a value of this type hold a reference to mutable memory?
func (an *aliasAn) refTyped(t types.Type) bool {
	if t == nil {
		return false
	}
	if r, ok := an.refMemo[t]; ok {
		return r == 1 // 2 = no, 3 = in progress (a cycle goes through a pointer, which answers yes first)
	}
	an.refMemo[t] = 3
	res := false
	switch u := t.Underlying().(type) {
	case *types.Pointer, *types.Slice, *types.Map, *types.Chan, *types.Interface:
		res = true
	case *types.Signature:
		res = false
	case *types.Struct:
		for i := 0; i < u.NumFields(); i++ {
			if an.refTyped(u.Field(i).Type()) {
				res = true
				break
			}
		}
	case *types.Array:
		res = an.refTyped(u.Elem())
	case *types.Tuple:
		for i := 0; i < u.Len(); i++ {
			if an.refTyped(u.At(i).Type()) {
				res = true
			}
		}
	}
	if res {
		an.refMemo[t] = 1
	} else {
		an.refMemo[t] = 2
	}
	return res
}

// moduleMem: is a value of type t a reference to memory whose layout this module defines
// (a slice, map or array of anything, a pointer to / a value of one of its own types)?  Values
// of interface type and pointers to types of other modules are opaque: those types look after
// their own synchronisation (sync.Map, regexp.Regexp, protocol.Client, ...).
func (an *aliasAn) moduleMem(t types.Type) bool {
	if t == nil {
		return false
	}
	if n, ok := t.(*types.Named); ok {
		if n.Obj().Pkg() == nil || !strings.HasPrefix(n.Obj().Pkg().Path(), an.w.mod) {
			switch t.Underlying().(type) {
			case *types.Slice, *types.Map:
				return true
			}
			return false
		}
	}
	switch u := t.Underlying().(type) {
	case *types.Slice, *types.Map, *types.Array:
		return true
	case *types.Struct:
		return true
	case *types.Pointer:
		return an.moduleMem(u.Elem())
	}
	return false
}

func isRefKind(t types.Type) bool {
	if t == nil {
		return false
	}
	switch t.Underlying().(type) {
	case *types.Pointer, *types.Slice, *types.Map, *types.Chan, *types.Interface:
		return true
	}
	return false
}

func isStructVal(t types.Type) bool {
	if t == nil {
		return false
	}
	switch t.Underlying().(type) {
	case *types.Struct, *types.Array:
		return true
	}
	return false
}

func elemType(t types.Type) types.Type {
	if t == nil {
		return nil
	}
	switch u := t.Underlying().(type) {
	case *types.Slice:
		return u.Elem()
	case *types.Map:
		return u.Elem()
	case *types.Array:
		return u.Elem()
	case *types.Pointer:
		if a, ok := u.Elem().Underlying().(*types.Array); ok {
			return a.Elem()
		}
	case *types.Chan:
		return u.Elem()
	}
	return nil
}

// children: the labels of the reference-typed fields of a struct value of type t that lives
// in (or was copied out of) shared memory; nested struct-valued fields are flattened.
func (an *aliasAn) children(t types.Type, base lset, src string, pub bool, out lset, depth int) {
	if t == nil || depth > 6 {
		return
	}
	switch u := t.Underlying().(type) {
	case *types.Struct:
		for i := 0; i < u.NumFields(); i++ {
			f := u.Field(i)
			if _, mod := an.w.fieldOf[f]; !mod {
				continue
			}
			ft := f.Type()
			if isRefKind(ft) {
				for _, n := range an.fieldNames(f, base) {
					out[lbl{n, src, pub}] = true
					an.noteType(n, ft)
				}
			} else if isStructVal(ft) {
				an.children(ft, base, src, pub, out, depth+1)
			}
		}
	case *types.Array:
		an.children(u.Elem(), base, src, pub, out, depth+1)
	}
}

func (an *aliasAn) noteType(name string, t types.Type) {
	if _, ok := an.storeT[name]; !ok {
		an.storeT[name] = t
	}
}

// fieldNames: the store name(s) of field f of a struct reached through references labelled
// `base` (owned-instance split for ownedStructs).
func (an *aliasAn) fieldNames(f *types.Var, base lset) []string {
	name := an.w.fieldOf[f]
	strct := name[:strings.Index(name, ".")]
	owner := ""
	if f.Pkg() != nil {
		owner = ownedStructs[f.Pkg().Name()+"."+strct]
	}
	if owner == "" {
		return []string{name}
	}
	var own, other bool
	for l := range base {
		if l.name == owner {
			own = true
		} else {
			other = true
		}
	}
	var out []string
	if own {
		out = append(out, name)
	}
	if other || !own {
		out = append(out, strings.Replace(name, ".", "Doc.", 1))
	}
	return out
}

func (an *aliasAn) ctx(fi *funcInfo, role string, h held) *actx {
	k := fi.key + "|" + role + "|" + h.String()
	if c, ok := an.ctxs[k]; ok {
		return c
	}
	c := &actx{fi: fi, role: role, held: h, env: map[*types.Var]*aval{}, litRet: map[*ast.FuncLit][]aval{}}
	n := len(fi.params)
	c.outTop = make([]lset, n)
	c.outDp = make([]lset, n)
	sig := fi.obj.Type().(*types.Signature)
	c.ret = make([]aval, sig.Results().Len())
	an.ctxs[k] = c
	an.order = append(an.order, c)
	an.changed = true
	return c
}

// ---------------------------------------------------------------- one pass over one context

type run struct {
	an *aliasAn
	c  *actx
	fi *funcInfo
}

func (r *run) info() *types.Info { return r.fi.p.info }

func (r *run) typeOf(e ast.Expr) types.Type {
	if tv, ok := r.info().Types[e]; ok {
		return tv.Type
	}
	if id, ok := e.(*ast.Ident); ok {
		if o := r.info().Uses[id]; o != nil {
			return o.Type()
		}
		if o := r.info().Defs[id]; o != nil {
			return o.Type()
		}
	}
	return nil
}

func (r *run) heldAt(n ast.Node) held {
	for q := n; q != nil; q = r.fi.parent[q] {
		if h, ok := r.fi.heldAt[q]; ok {
			return union(r.c.held, h)
		}
	}
	return r.c.held
}

func (r *run) envOf(v *types.Var) *aval {
	a, ok := r.c.env[v]
	if !ok {
		a = &aval{}
		r.c.env[v] = a
	}
	return a
}

func (r *run) paramIndex(v *types.Var) int {
	for i, p := range r.fi.params {
		if p == v {
			return i
		}
	}
	return -1
}

func (r *run) addTop(v *types.Var, ls lset) {
	if v == nil || len(ls) == 0 {
		return
	}
	a := r.envOf(v)
	if joinSet(&a.top, ls) {
		r.an.changed = true
	}
	if i := r.paramIndex(v); i >= 0 {
		if joinSet(&r.c.outTop[i], ls) {
			r.an.changed = true
		}
	}
}

func (r *run) addDeep(v *types.Var, ls lset) {
	if v == nil || len(ls) == 0 {
		return
	}
	a := r.envOf(v)
	if joinSet(&a.deep, ls) {
		r.an.changed = true
	}
	if i := r.paramIndex(v); i >= 0 {
		if joinSet(&r.c.outDp[i], ls) {
			r.an.changed = true
		}
	}
}

func stripParens(e ast.Expr) ast.Expr {
	for {
		p, ok := e.(*ast.ParenExpr)
		if !ok {
			return e
		}
		e = p.X
	}
}

// rootVar: the local variable / parameter an access path starts from.
func (r *run) rootVar(e ast.Expr) *types.Var {
	for e != nil {
		switch p := e.(type) {
		case *ast.ParenExpr:
			e = p.X
		case *ast.StarExpr:
			e = p.X
		case *ast.SelectorExpr:
			if r.info().Selections[p] == nil {
				return nil
			}
			e = p.X
		case *ast.IndexExpr:
			e = p.X
		case *ast.SliceExpr:
			e = p.X
		case *ast.TypeAssertExpr:
			e = p.X
		case *ast.UnaryExpr:
			if p.Op != token.AND {
				return nil
			}
			e = p.X
		case *ast.Ident:
			v, ok := r.info().Uses[p].(*types.Var)
			if !ok {
				v, ok = r.info().Defs[p].(*types.Var)
			}
			if !ok || v.IsField() || v.Pkg() == nil || v.Parent() == v.Pkg().Scope() {
				return nil
			}
			return v
		default:
			return nil
		}
	}
	return nil
}

// copyOut: the value as it is after being copied into a variable / parameter / result of type t.
// A struct value that lives in shared memory becomes a private copy whose reference-typed
// fields still point into shared memory.
func (r *run) copyOut(v aval, t types.Type, n ast.Node) aval {
	if t == nil || !r.an.refTyped(t) {
		if t != nil {
			if _, isFn := t.Underlying().(*types.Signature); isFn {
				return aval{fns: v.fns}
			}
		}
		return aval{}
	}
	if isStructVal(t) && len(v.top) > 0 {
		out := aval{deep: lset{}}
		for l := range v.deep {
			out.deep[l] = true
		}
		for _, d := range r.derive(v.top, n) {
			r.an.children(t, v.top, d.src, d.pub, out.deep, 0)
		}
		return out
	}
	return v
}

func (r *run) emit(ls lset, write bool, copied bool, n ast.Node, root ast.Expr) {
	if len(ls) == 0 {
		return
	}
	h := r.heldAt(n)
	rootFresh := false
	if root != nil {
		if v := r.rootVar(root); v != nil {
			rootFresh = r.an.freshAt(r.fi, v, n.Pos())
		}
	}
	site := fmt.Sprintf("%s %s", r.fi.key, r.an.w.pos(n.Pos()))
	for l := range ls {
		// fresh: the object was created here and the label stems from its own (later) publication
		fresh := rootFresh && l.pub
		how := "escaped"
		if subsetNames(l.src, h) {
			how = "inRegion"
		}
		if copied {
			how = "copied"
		}
		k := escKey{store: l.name, role: r.c.role, how: how, write: write, locks: h.String(), fresh: fresh}
		if r.an.rows[k] == nil {
			r.an.rows[k] = map[string]bool{}
		}
		r.an.rows[k][site] = true
	}
}

func (r *run) pkgVarLabel(v *types.Var, n ast.Node) aval {
	if v.Pkg() == nil || v.Parent() != v.Pkg().Scope() {
		return aval{}
	}
	pi := r.an.w.pkgs[v.Pkg().Path()]
	if pi == nil || !r.an.refTyped(v.Type()) {
		return aval{} // not a variable of this module, or nothing mutable behind it
	}
	name := v.Pkg().Name() + "." + v.Name()
	r.an.noteType(name, v.Type())
	return aval{top: lset{lbl{name, lockNames(r.heldAt(n)), false}: true}}
}

func (r *run) eval(e ast.Expr) aval {
	switch x := e.(type) {
	case nil:
		return aval{}
	case *ast.ParenExpr:
		return r.eval(x.X)
	case *ast.Ident:
		o := r.info().Uses[x]
		if o == nil {
			o = r.info().Defs[x]
		}
		v, ok := o.(*types.Var)
		if !ok || v.IsField() {
			return aval{}
		}
		if v.Pkg() != nil && v.Parent() == v.Pkg().Scope() {
			return r.pkgVarLabel(v, x)
		}
		if a, ok := r.c.env[v]; ok {
			return *a
		}
		return aval{}
	case *ast.SelectorExpr:
		sel := r.info().Selections[x]
		if sel == nil {
			if v, ok := r.info().Uses[x.Sel].(*types.Var); ok {
				return r.pkgVarLabel(v, x)
			}
			return aval{}
		}
		yv := r.eval(x.X)
		if sel.Kind() != types.FieldVal {
			return aval{}
		}
		fld, ok := sel.Obj().(*types.Var)
		if !ok {
			return aval{}
		}
		return r.selectField(x, yv, fld, false)
	case *ast.IndexExpr:
		if _, isSig := r.typeOf(x.X).(*types.Signature); isSig {
			return aval{}
		}
		yv := r.eval(x.X)
		r.eval(x.Index)
		return r.element(x, x.X, yv, false)
	case *ast.IndexListExpr:
		return aval{}
	case *ast.SliceExpr:
		r.eval(x.Low)
		r.eval(x.High)
		r.eval(x.Max)
		v := r.eval(x.X)
		if t := r.typeOf(x.X); t != nil {
			if b, ok := t.Underlying().(*types.Basic); ok && b.Info()&types.IsString != 0 {
				return aval{}
			}
		}
		return v
	case *ast.StarExpr:
		return r.eval(x.X)
	case *ast.TypeAssertExpr:
		return r.eval(x.X)
	case *ast.UnaryExpr:
		v := r.eval(x.X)
		if x.Op == token.AND {
			return v
		}
		if x.Op == token.ARROW {
			return aval{deep: v.all()}
		}
		return aval{}
	case *ast.BinaryExpr:
		r.eval(x.X)
		r.eval(x.Y)
		return aval{}
	case *ast.KeyValueExpr:
		r.eval(x.Key)
		return r.eval(x.Value)
	case *ast.CompositeLit:
		out := aval{}
		for _, el := range x.Elts {
			var ve ast.Expr = el
			if kv, ok := el.(*ast.KeyValueExpr); ok {
				if _, isId := kv.Key.(*ast.Ident); !isId {
					r.eval(kv.Key)
				}
				ve = kv.Value
			}
			v := r.copyOut(r.eval(ve), r.typeOf(ve), ve)
			joinSet(&out.deep, v.top)
			joinSet(&out.deep, v.deep)
		}
		return out
	case *ast.FuncLit:
		r.stmts(x.Body.List)
		return aval{fns: map[fnRef]bool{{x, r.c}: true}}
	case *ast.CallExpr:
		rs := r.call(x, false)
		if len(rs) > 0 {
			return rs[0]
		}
		return aval{}
	}
	return aval{}
}

// selectField: y.g.  lhs: the selection is the target of an assignment (no read row).
func (r *run) selectField(x *ast.SelectorExpr, yv aval, fld *types.Var, lhs bool) aval {
	an := r.an
	R := fld.Type()
	name, isMod := an.w.fieldOf[fld]
	shared := len(yv.top) > 0
	ref := an.refTyped(R)
	out := aval{}
	src := lockNames(r.heldAt(x))
	if shared && isMod {
		names := an.fieldNames(fld, yv.top)
		ls := lset{}
		for _, n := range names {
			for _, d := range r.derive(yv.top, x) {
				ls[lbl{n, d.src, d.pub}] = true
			}
			an.noteType(n, R)
		}
		if !an.w.tracked[fld] && !lhs {
			r.emit(ls, false, false, x, x.X)
		}
		if ref {
			out.top = ls
		}
	} else if shared && ref {
		// field of a struct type of another module that lives in shared memory: opaque
		out.top = lset{}
		for l := range yv.top {
			n := l.name + "." + fld.Name()
			if len(n) > 100 {
				n = l.name
			}
			an.noteType(n, R)
			out.top[lbl{n, src, l.pub}] = true
		}
	}
	if !ref {
		return aval{}
	}
	if isMod {
		doc := strings.Replace(name, ".", "Doc.", 1)
		for l := range yv.deep {
			if l.name == name || l.name == doc {
				if out.top == nil {
					out.top = lset{}
				}
				out.top[l] = true
			}
		}
	}
	if !shared && isRefKind(R) {
		strct := ""
		if isMod {
			strct = name[:strings.Index(name, ".")+1]
		}
		for l := range yv.deep {
			if strct != "" && (strings.HasPrefix(l.name, strct) || strings.HasPrefix(l.name, strings.TrimSuffix(strct, ".")+"Doc.")) && !strings.Contains(l.name, "[]") {
				continue // the label of another field of the same struct
			}
			if t, ok := an.storeT[l.name]; ok && types.Identical(t, R) {
				if out.top == nil {
					out.top = lset{}
				}
				out.top[l] = true
			}
		}
	}
	out.deep = yv.deep
	return out
}

// element: y[i] / the element variable of a range over y.
func (r *run) element(n ast.Node, yx ast.Expr, yv aval, lhs bool) aval {
	an := r.an
	T := r.typeOf(yx)
	if T != nil {
		if b, ok := T.Underlying().(*types.Basic); ok && b.Info()&types.IsString != 0 {
			return aval{}
		}
	}
	E := elemType(T)
	out := aval{}
	if len(yv.top) > 0 {
		if !lhs {
			r.emit(yv.top, false, false, n, yx)
		}
		if an.refTyped(E) {
			out.top = lset{}
			for l := range yv.top {
				nm := l.name + "[]"
				an.noteType(nm, E)
				out.top[lbl{nm, r.srcOf(l, n), l.pub}] = true
			}
		}
	} else if an.refTyped(E) {
		for l := range yv.deep {
			if t, ok := an.storeT[l.name]; ok && E != nil && types.Identical(t, E) {
				if out.top == nil {
					out.top = lset{}
				}
				out.top[l] = true
			}
		}
	}
	if an.refTyped(E) {
		out.deep = yv.deep
	}
	return out
}

// srcOf: the locks under which a reference loaded NOW through a reference labelled l was
// obtained: those that protected l when it was loaded, and those held at this load.
func (r *run) srcOf(l lbl, n ast.Node) string {
	h := r.heldAt(n)
	set := map[string]bool{}
	for k := range h {
		set[k] = true
	}
	if l.src != "" {
		for _, k := range strings.Split(l.src, ";") {
			set[k] = true
		}
	}
	var ks []string
	for k := range set {
		ks = append(ks, k)
	}
	sort.Strings(ks)
	return strings.Join(ks, ";")
}

type derived struct {
	src string
	pub bool
}

// derive: the (locks, pub) attributes of references loaded now through the references in base.
func (r *run) derive(base lset, n ast.Node) []derived {
	seen := map[derived]bool{}
	var out []derived
	for l := range base {
		d := derived{r.srcOf(l, n), l.pub}
		if !seen[d] {
			seen[d] = true
			out = append(out, d)
		}
	}
	sort.Slice(out, func(i, j int) bool {
		if out[i].src != out[j].src {
			return out[i].src < out[j].src
		}
		return !out[i].pub && out[j].pub
	})
	return out
}

// elemsOf: what the elements of a container value may point to (for copies of the container).
func (r *run) elemsOf(v aval, T types.Type, n ast.Node) lset {
	E := elemType(T)
	out := lset{}
	if !r.an.refTyped(E) {
		return out
	}
	for l := range v.top {
		nm := l.name + "[]"
		src := r.srcOf(l, n)
		r.an.noteType(nm, E)
		if isStructVal(E) {
			r.an.children(E, lset{lbl{nm, src, l.pub}: true}, src, l.pub, out, 0)
		} else {
			out[lbl{nm, src, l.pub}] = true
		}
	}
	for l := range v.deep {
		out[l] = true
	}
	return out
}

// publish: the value of expression e has been stored into shared memory under labels ls.
func (r *run) publish(e ast.Expr, ls lset, n ast.Node) {
	e = stripParens(e)
	if u, ok := e.(*ast.UnaryExpr); ok && u.Op == token.AND {
		e = stripParens(u.X)
	}
	id, ok := e.(*ast.Ident)
	if !ok {
		return
	}
	v, ok := r.info().Uses[id].(*types.Var)
	if !ok || v.IsField() || v.Pkg() == nil || v.Parent() == v.Pkg().Scope() {
		return
	}
	t := v.Type()
	if isStructVal(t) {
		out := lset{}
		r.an.children(t, ls, lockNames(r.heldAt(n)), true, out, 0)
		r.addDeep(v, out)
		return
	}
	if isRefKind(t) {
		pl := lset{}
		for l := range ls {
			pl[lbl{l.name, l.src, true}] = true
		}
		r.addTop(v, pl)
	}
}

func (r *run) assign(lhs ast.Expr, val aval, rhs ast.Expr, n ast.Node) {
	lhs = stripParens(lhs)
	switch x := lhs.(type) {
	case *ast.Ident:
		if x.Name == "_" {
			return
		}
		var v *types.Var
		if d, ok := r.info().Defs[x].(*types.Var); ok {
			v = d
		} else if u, ok := r.info().Uses[x].(*types.Var); ok {
			v = u
		}
		if v == nil || v.IsField() {
			return
		}
		if v.Pkg() != nil && v.Parent() == v.Pkg().Scope() {
			if pv := r.pkgVarLabel(v, x); len(pv.top) > 0 && rhs != nil {
				r.publish(rhs, pv.top, n)
			}
			return
		}
		cv := r.copyOut(val, v.Type(), n)
		a := r.envOf(v)
		if a.join(cv) {
			r.an.changed = true
		}
	case *ast.SelectorExpr:
		sel := r.info().Selections[x]
		if sel == nil {
			if v, ok := r.info().Uses[x.Sel].(*types.Var); ok {
				if pv := r.pkgVarLabel(v, x); len(pv.top) > 0 && rhs != nil {
					r.publish(rhs, pv.top, n)
				}
			}
			return
		}
		fld, ok := sel.Obj().(*types.Var)
		if !ok || sel.Kind() != types.FieldVal {
			return
		}
		yv := r.eval(x.X)
		if len(yv.top) > 0 {
			slot := r.selectField(x, yv, fld, true)
			if _, isMod := r.an.w.fieldOf[fld]; isMod && !r.an.w.tracked[fld] {
				ls := lset{}
				for _, nm := range r.an.fieldNames(fld, yv.top) {
					for _, d := range r.derive(yv.top, x) {
						ls[lbl{nm, d.src, d.pub}] = true
					}
				}
				r.emit(ls, true, false, x, x.X)
			}
			if rhs != nil && len(slot.top) > 0 {
				pub := lset{}
				for l := range slot.top {
					if !yv.deep[l] {
						pub[l] = true
					}
				}
				r.publish(rhs, pub, n)
			}
			return
		}
		cv := r.copyOut(val, fld.Type(), n)
		r.addDeep(r.rootVar(x.X), cv.all())
	case *ast.IndexExpr:
		yv := r.eval(x.X)
		r.eval(x.Index)
		if len(yv.top) > 0 {
			r.emit(yv.top, true, false, x, x.X)
			el := r.element(x, x.X, yv, true)
			if rhs != nil && len(el.top) > 0 {
				r.publish(rhs, el.top, n)
			}
			return
		}
		cv := r.copyOut(val, elemType(r.typeOf(x.X)), n)
		r.addDeep(r.rootVar(x.X), cv.all())
	case *ast.StarExpr:
		pv := r.eval(x.X)
		if len(pv.top) > 0 {
			r.emit(pv.top, true, false, x, x.X)
			return
		}
		r.addDeep(r.rootVar(x.X), val.all())
	}
}

// ---------------------------------------------------------------- calls

var extCopy = map[string]bool{"slices.Clone": true, "maps.Clone": true, "bytes.Clone": true}
var extMutFirst = map[string]bool{
	"sort.Strings": true, "sort.Ints": true, "sort.Float64s": true, "sort.Sort": true, "sort.Stable": true,
	"sort.Slice": true, "sort.SliceStable": true,
	"slices.Sort": true, "slices.SortFunc": true, "slices.SortStableFunc": true, "slices.Reverse": true,
	"slices.Delete": true, "slices.DeleteFunc": true, "slices.Insert": true, "slices.Compact": true,
	"slices.CompactFunc": true, "slices.Replace": true,
	"maps.Copy": true, "maps.DeleteFunc": true, "maps.Insert": true,
}
var extAliasFirst = map[string]bool{"slices.Clip": true, "slices.Grow": true, "slices.Delete": true, "slices.DeleteFunc": true,
	"slices.Insert": true, "slices.Compact": true, "slices.CompactFunc": true, "slices.Replace": true}

func (r *run) call(c *ast.CallExpr, isGo bool) []aval {
	an := r.an
	info := r.info()
	// conversion
	if tv, ok := info.Types[c.Fun]; ok && tv.IsType() {
		var v aval
		for _, a := range c.Args {
			v = r.eval(a)
		}
		if an.refTyped(tv.Type) {
			if b, ok := tv.Type.Underlying().(*types.Basic); ok && b.Info()&types.IsString != 0 {
				return []aval{{}}
			}
			return []aval{v}
		}
		return []aval{{}}
	}
	// builtins
	if id, ok := stripParens(c.Fun).(*ast.Ident); ok {
		if _, isB := info.Uses[id].(*types.Builtin); isB {
			return r.builtin(id.Name, c)
		}
	}
	var recv ast.Expr
	var callees []*types.Func
	switch f := stripParens(c.Fun).(type) {
	case *ast.Ident:
		if fn, ok := info.Uses[f].(*types.Func); ok {
			callees = append(callees, fn)
		}
	case *ast.SelectorExpr:
		if sel := info.Selections[f]; sel != nil {
			if sel.Kind() == types.MethodVal {
				fn := sel.Obj().(*types.Func)
				recv = f.X
				if types.IsInterface(sel.Recv()) {
					callees = an.w.implementers(sel.Recv(), fn.Name())
					if len(callees) == 0 {
						callees = []*types.Func{fn}
					}
				} else {
					callees = append(callees, fn)
				}
			} else if sel.Kind() == types.FieldVal {
				r.eval(f) // a function stored in a field
			}
		} else if fn, ok := info.Uses[f.Sel].(*types.Func); ok {
			callees = append(callees, fn)
		}
	case *ast.FuncLit:
		for _, a := range c.Args {
			r.eval(a)
		}
		r.stmts(f.Body.List)
		return make([]aval, 4)
	}
	// sync.Map and friends
	if recv != nil && syncKind(r.typeOf(recv)) == "atomic" && len(callees) == 1 {
		return r.syncCall(c, recv, callees[0].Name())
	}
	var recvVal aval
	if recv != nil {
		recvVal = r.eval(recv)
	}
	args := make([]aval, len(c.Args))
	for i, a := range c.Args {
		args[i] = r.eval(a)
	}
	if len(callees) == 0 {
		fv := r.eval(c.Fun)
		if len(fv.fns) > 0 {
			var results []aval
			for f := range fv.fns {
				var ids []*ast.Ident
				for _, p := range f.lit.Type.Params.List {
					ids = append(ids, p.Names...)
				}
				for i, id := range ids {
					if i >= len(args) {
						break
					}
					pv, ok := f.c.fi.p.info.Defs[id].(*types.Var)
					if !ok {
						continue
					}
					a, ok := f.c.env[pv]
					if !ok {
						a = &aval{}
						f.c.env[pv] = a
					}
					if a.join(unpub(r.copyOut(args[i], pv.Type(), c))) {
						an.changed = true
					}
				}
				for i, v := range f.c.litRet[f.lit] {
					for len(results) <= i {
						results = append(results, aval{})
					}
					results[i].join(v)
				}
			}
			for len(results) < 4 {
				results = append(results, aval{})
			}
			return results
		}
		// call through a function value that is not a literal of this module: not followed
		for i, a := range args {
			if len(a.top) > 0 && isRefKind(r.typeOf(c.Args[i])) {
				an.funcVals[fmt.Sprintf("%s %s", r.fi.key, an.w.pos(c.Pos()))] = true
				r.emit(a.top, false, false, c.Args[i], c.Args[i])
			}
		}
		return make([]aval, 4)
	}
	var results []aval
	for _, fn := range callees {
		var rs []aval
		if cfi, ok := an.w.funcs[fn]; ok {
			rs = r.callModule(c, cfi, recv, recvVal, args, isGo)
		} else {
			rs = r.callExternal(c, fn, recv, recvVal, args)
		}
		for i, v := range rs {
			for len(results) <= i {
				results = append(results, aval{})
			}
			results[i].join(v)
		}
	}
	return results
}

func (r *run) builtin(name string, c *ast.CallExpr) []aval {
	an := r.an
	switch name {
	case "append":
		if len(c.Args) == 0 {
			return []aval{{}}
		}
		bv := r.eval(c.Args[0])
		T := r.typeOf(c.Args[0])
		elems := lset{}
		for i, a := range c.Args[1:] {
			v := r.eval(a)
			if c.Ellipsis.IsValid() && i == len(c.Args)-2 {
				// append(x, ys...): reads the elements of ys
				r.emit(v.top, false, len(bv.top) == 0, a, a)
				joinSet(&elems, r.elemsOf(v, r.typeOf(a), a))
				continue
			}
			cv := r.copyOut(v, r.typeOf(a), a)
			joinSet(&elems, cv.top)
			joinSet(&elems, cv.deep)
		}
		if len(bv.top) > 0 {
			// writes the spare capacity of (or re-allocates and reads) the backing array of x
			r.emit(bv.top, true, false, c, c.Args[0])
			// the appended values become elements of a shared container
			for _, a := range c.Args[1:] {
				if !c.Ellipsis.IsValid() {
					el := lset{}
					if an.refTyped(elemType(T)) {
						for l := range bv.top {
							el[lbl{l.name + "[]", lockNames(r.heldAt(c)), false}] = true
							an.noteType(l.name+"[]", elemType(T))
						}
					}
					r.publish(a, el, c)
				}
			}
		}
		out := aval{top: bv.top}
		joinSet(&out.deep, bv.deep)
		joinSet(&out.deep, elems)
		return []aval{out}
	case "copy":
		if len(c.Args) == 2 {
			dv := r.eval(c.Args[0])
			sv := r.eval(c.Args[1])
			r.emit(dv.top, true, false, c, c.Args[0])
			r.emit(sv.top, false, len(dv.top) == 0, c.Args[1], c.Args[1])
			if len(dv.top) == 0 {
				r.addDeep(r.rootVar(c.Args[0]), r.elemsOf(sv, r.typeOf(c.Args[1]), c))
			}
		}
		return []aval{{}}
	case "delete", "clear":
		if len(c.Args) > 0 {
			mv := r.eval(c.Args[0])
			for _, a := range c.Args[1:] {
				r.eval(a)
			}
			r.emit(mv.top, true, false, c, c.Args[0])
		}
		return []aval{{}}
	default:
		for _, a := range c.Args {
			r.eval(a)
		}
		return []aval{{}}
	}
}

func (r *run) cellLabel(recv ast.Expr, n ast.Node) lset {
	rv := r.eval(recv)
	out := lset{}
	src := lockNames(r.heldAt(n))
	for l := range rv.top {
		out[lbl{l.name + "[]", src, false}] = true
	}
	if len(out) == 0 {
		// a sync.Map value field of a shared struct: the field label
		if sx, ok := stripParens(recv).(*ast.SelectorExpr); ok {
			if sel := r.info().Selections[sx]; sel != nil && sel.Kind() == types.FieldVal {
				if fld, ok := sel.Obj().(*types.Var); ok {
					if nm, ok := r.an.w.fieldOf[fld]; ok {
						if bv := r.eval(sx.X); len(bv.top) > 0 {
							out[lbl{nm + "[]", src, false}] = true
						}
					}
				}
			}
		}
	}
	return out
}

func (r *run) syncCall(c *ast.CallExpr, recv ast.Expr, method string) []aval {
	cell := r.cellLabel(recv, c)
	args := make([]aval, len(c.Args))
	for i, a := range c.Args {
		if _, isLit := a.(*ast.FuncLit); isLit && method == "Range" {
			continue
		}
		args[i] = r.eval(a)
	}
	switch method {
	case "Store", "Swap", "LoadOrStore", "CompareAndSwap":
		if len(c.Args) >= 2 {
			r.publish(c.Args[len(c.Args)-1], cell, c)
		}
		if method == "Store" {
			return nil
		}
		return []aval{{top: cell}, {}}
	case "Load", "LoadAndDelete":
		return []aval{{top: cell}, {}}
	case "Range":
		if len(c.Args) == 1 {
			if fl, ok := c.Args[0].(*ast.FuncLit); ok {
				ps := fl.Type.Params.List
				var ids []*ast.Ident
				for _, p := range ps {
					ids = append(ids, p.Names...)
				}
				if len(ids) == 2 {
					if v, ok := r.info().Defs[ids[1]].(*types.Var); ok {
						a := r.envOf(v)
						if joinSet(&a.top, cell) {
							r.an.changed = true
						}
					}
				}
				r.stmts(fl.Body.List)
			}
		}
		return nil
	}
	return make([]aval, 2)
}

func (r *run) callModule(c *ast.CallExpr, cfi *funcInfo, recv ast.Expr, recvVal aval, args []aval, isGo bool) []aval {
	an := r.an
	role := r.c.role
	h := r.heldAt(c)
	if isGo {
		role = goRoles[cfi.key]
		if role == "" {
			return nil
		}
		h = held{}
	}
	cc := an.ctx(cfi, role, h)
	sig := cfi.obj.Type().(*types.Signature)
	bind := func(i int, v aval, e ast.Expr) {
		pv := cfi.params[i]
		if pv == nil {
			return
		}
		cv := unpub(r.copyOut(v, pv.Type(), c))
		a, ok := cc.env[pv]
		if !ok {
			a = &aval{}
			cc.env[pv] = a
		}
		if a.join(cv) {
			an.changed = true
		}
	}
	back := func(i int, e ast.Expr) {
		if e == nil {
			return
		}
		pv := cfi.params[i]
		if pv == nil || !isRefKind(pv.Type()) {
			return
		}
		se := stripParens(e)
		if u, ok := se.(*ast.UnaryExpr); ok && u.Op == token.AND {
			// &local: what the callee made reachable from *p is reachable from the local
			r.addDeep(r.rootVar(u.X), cc.outDp[i])
			r.addDeep(r.rootVar(u.X), cc.outTop[i])
			return
		}
		if id, ok := se.(*ast.Ident); ok {
			if v, ok := r.info().Uses[id].(*types.Var); ok && !v.IsField() && v.Pkg() != nil && v.Parent() != v.Pkg().Scope() {
				r.addTop(v, cc.outTop[i])
				r.addDeep(v, cc.outDp[i])
			}
			return
		}
		r.addDeep(r.rootVar(se), cc.outDp[i])
	}
	if recv != nil && len(cfi.params) > 0 && cfi.params[0] != nil {
		bind(0, recvVal, recv)
	}
	np := sig.Params().Len()
	for i := 0; i < np; i++ {
		pi := i + 1
		if sig.Variadic() && i == np-1 {
			if c.Ellipsis.IsValid() && len(args) > i {
				bind(pi, args[i], c.Args[i])
			} else {
				packed := aval{}
				for j := i; j < len(args); j++ {
					cv := r.copyOut(args[j], r.typeOf(c.Args[j]), c)
					joinSet(&packed.deep, cv.top)
					joinSet(&packed.deep, cv.deep)
				}
				bind(pi, packed, nil)
			}
			break
		}
		if i < len(args) {
			bind(pi, args[i], c.Args[i])
		}
	}
	if recv != nil && len(cfi.params) > 0 {
		back(0, recv)
	}
	for i := 0; i < np && i < len(c.Args); i++ {
		if sig.Variadic() && i == np-1 && !c.Ellipsis.IsValid() {
			break
		}
		back(i+1, c.Args[i])
	}
	if isGo {
		return nil
	}
	out := make([]aval, len(cc.ret))
	copy(out, cc.ret)
	return out
}

func extKey(fn *types.Func) string {
	pk := ""
	if fn.Pkg() != nil {
		pk = fn.Pkg().Path()
	}
	sig, _ := fn.Type().(*types.Signature)
	if sig != nil && sig.Recv() != nil {
		t := sig.Recv().Type()
		if pt, ok := t.(*types.Pointer); ok {
			t = pt.Elem()
		}
		if n, ok := t.(*types.Named); ok {
			return pk + "." + n.Obj().Name() + "." + fn.Name()
		}
		return pk + ".?." + fn.Name()
	}
	return pk + "." + fn.Name()
}

func (r *run) callExternal(c *ast.CallExpr, fn *types.Func, recv ast.Expr, recvVal aval, args []aval) []aval {
	an := r.an
	key := extKey(fn)
	sig, _ := fn.Type().(*types.Signature)
	nres := 0
	if sig != nil {
		nres = sig.Results().Len()
	}
	res := make([]aval, nres)
	if extCopy[key] && len(args) > 0 {
		r.emit(args[0].top, false, true, c.Args[0], c.Args[0])
		if nres > 0 {
			res[0] = aval{deep: r.elemsOf(args[0], r.typeOf(c.Args[0]), c)}
		}
		return res
	}
	if extMutFirst[key] && len(args) > 0 {
		r.emit(args[0].top, true, false, c, c.Args[0])
		if key == "maps.Copy" || key == "maps.Insert" {
			if len(args) > 1 {
				r.emit(args[1].top, false, len(args[0].top) == 0, c.Args[1], c.Args[1])
				if len(args[0].top) == 0 {
					r.addDeep(r.rootVar(c.Args[0]), r.elemsOf(args[1], r.typeOf(c.Args[1]), c))
				}
			}
		}
	}
	if extAliasFirst[key] && len(args) > 0 && nres > 0 {
		res[0] = args[0]
		return res
	}
	if extMutFirst[key] {
		return res
	}
	// any other function of another module: assumed to read what it is given and to return
	// something that may still refer to it
	reach := lset{}
	note := func(v aval, e ast.Expr) {
		if e == nil {
			return
		}
		t := r.typeOf(e)
		if len(v.top) > 0 && an.moduleMem(t) {
			r.emit(v.top, false, false, e, e)
			an.extUses[key] = append(an.extUses[key], fmt.Sprintf("%s %s", r.fi.key, an.w.pos(c.Pos())))
		}
		joinSet(&reach, v.top)
		joinSet(&reach, v.deep)
	}
	if recv != nil {
		note(recvVal, recv)
	}
	for i, a := range args {
		note(a, c.Args[i])
	}
	for i := 0; i < nres; i++ {
		if an.refTyped(sig.Results().At(i).Type()) {
			res[i] = aval{deep: reach}
		}
	}
	return res
}

// ---------------------------------------------------------------- statements

func (r *run) stmts(list []ast.Stmt) {
	for _, s := range list {
		r.stmt(s)
	}
}

func (r *run) multi(rhs []ast.Expr, n int) []aval {
	if len(rhs) == n {
		out := make([]aval, n)
		for i, e := range rhs {
			out[i] = r.eval(e)
		}
		return out
	}
	out := make([]aval, n)
	if len(rhs) == 1 {
		switch x := stripParens(rhs[0]).(type) {
		case *ast.CallExpr:
			rs := r.call(x, false)
			for i := 0; i < n && i < len(rs); i++ {
				out[i] = rs[i]
			}
		default:
			out[0] = r.eval(x) // v, ok := m[k] / x.(T) / <-ch
		}
	}
	return out
}

func (r *run) stmt(s ast.Stmt) {
	switch s := s.(type) {
	case nil:
	case *ast.ExprStmt:
		r.eval(s.X)
	case *ast.AssignStmt:
		vals := r.multi(s.Rhs, len(s.Lhs))
		for i, l := range s.Lhs {
			var rhs ast.Expr
			if len(s.Rhs) == len(s.Lhs) {
				rhs = s.Rhs[i]
			}
			v := vals[i]
			if s.Tok != token.ASSIGN && s.Tok != token.DEFINE {
				v = aval{} // x op= y
			}
			r.assign(l, v, rhs, s)
		}
	case *ast.IncDecStmt:
		r.assign(s.X, aval{}, nil, s)
	case *ast.DeclStmt:
		if gd, ok := s.Decl.(*ast.GenDecl); ok {
			for _, sp := range gd.Specs {
				vs, ok := sp.(*ast.ValueSpec)
				if !ok || len(vs.Values) == 0 {
					continue
				}
				vals := r.multi(vs.Values, len(vs.Names))
				for i, id := range vs.Names {
					var rhs ast.Expr
					if len(vs.Values) == len(vs.Names) {
						rhs = vs.Values[i]
					}
					r.assign(id, vals[i], rhs, s)
				}
			}
		}
	case *ast.ReturnStmt:
		sig := r.fi.obj.Type().(*types.Signature)
		if len(s.Results) == 0 {
			r.namedResults()
			return
		}
		// a return inside a function literal belongs to the literal
		for q := r.fi.parent[s]; q != nil; q = r.fi.parent[q] {
			if fl, ok := q.(*ast.FuncLit); ok {
				n := 0
				if fl.Type.Results != nil {
					for _, f := range fl.Type.Results.List {
						if len(f.Names) == 0 {
							n++
						} else {
							n += len(f.Names)
						}
					}
				}
				vals := r.multi(s.Results, n)
				cur := r.c.litRet[fl]
				for len(cur) < n {
					cur = append(cur, aval{})
				}
				for i := range vals {
					if cur[i].join(unpub(r.copyOut(vals[i], r.typeOf(s.Results[min(i, len(s.Results)-1)]), s))) {
						r.an.changed = true
					}
				}
				r.c.litRet[fl] = cur
				return
			}
		}
		vals := r.multi(s.Results, sig.Results().Len())
		for i := range vals {
			if i >= len(r.c.ret) {
				break
			}
			cv := unpub(r.copyOut(vals[i], sig.Results().At(i).Type(), s))
			if r.c.ret[i].join(cv) {
				r.an.changed = true
			}
		}
	case *ast.BlockStmt:
		r.stmts(s.List)
	case *ast.IfStmt:
		r.stmt(s.Init)
		r.eval(s.Cond)
		r.stmt(s.Body)
		r.stmt(s.Else)
	case *ast.ForStmt:
		r.stmt(s.Init)
		r.eval(s.Cond)
		r.stmt(s.Post)
		r.stmt(s.Body)
	case *ast.RangeStmt:
		xv := r.eval(s.X)
		T := r.typeOf(s.X)
		if T != nil {
			switch T.Underlying().(type) {
			case *types.Slice, *types.Map, *types.Array, *types.Pointer:
				ev := r.element(s, s.X, xv, false)
				if s.Value != nil {
					r.assign(s.Value, ev, nil, s)
				}
				if s.Key != nil && s.Tok == token.ASSIGN {
					r.assign(s.Key, aval{}, nil, s)
				}
			}
		}
		r.stmt(s.Body)
	case *ast.SwitchStmt:
		r.stmt(s.Init)
		r.eval(s.Tag)
		r.stmt(s.Body)
	case *ast.TypeSwitchStmt:
		r.stmt(s.Init)
		var v aval
		switch a := s.Assign.(type) {
		case *ast.AssignStmt:
			if len(a.Rhs) == 1 {
				v = r.eval(a.Rhs[0])
			}
		case *ast.ExprStmt:
			v = r.eval(a.X)
		}
		for _, cl := range s.Body.List {
			cc, ok := cl.(*ast.CaseClause)
			if !ok {
				continue
			}
			if o, ok := r.info().Implicits[cc].(*types.Var); ok {
				a := r.envOf(o)
				if a.join(r.copyOut(v, o.Type(), cc)) {
					r.an.changed = true
				}
			}
			r.stmts(cc.Body)
		}
	case *ast.CaseClause:
		for _, e := range s.List {
			r.eval(e)
		}
		r.stmts(s.Body)
	case *ast.SelectStmt:
		r.stmt(s.Body)
	case *ast.CommClause:
		r.stmt(s.Comm)
		r.stmts(s.Body)
	case *ast.SendStmt:
		r.eval(s.Chan)
		r.eval(s.Value)
	case *ast.LabeledStmt:
		r.stmt(s.Stmt)
	case *ast.DeferStmt:
		r.call(s.Call, false)
	case *ast.GoStmt:
		r.call(s.Call, true)
	}
}

func (r *run) namedResults() {
	sig := r.fi.obj.Type().(*types.Signature)
	for i := 0; i < sig.Results().Len() && i < len(r.c.ret); i++ {
		rv := sig.Results().At(i)
		if rv.Name() == "" || rv.Name() == "_" {
			continue
		}
		if a, ok := r.c.env[rv]; ok {
			if r.c.ret[i].join(unpub(*a)) {
				r.an.changed = true
			}
		}
	}
}

// ---------------------------------------------------------------- writes into syntax trees

// astWrites lists the places outside the parser where memory of a syntax tree (a struct of
// package ast reached through a pointer, a slice or a map) is written.  The cached *ast.Journal
// trees are shared between the loader cache, the per-document trees and the workspace; the
// alias rows say nobody writes them THROUGH A REFERENCE THAT IS KNOWN TO BE SHARED; this list
// is the type-based cross-check that nobody writes them at all once the parser has returned.
func (an *aliasAn) astWrites(fis []*funcInfo) []string {
	var out []string
	for _, fi := range fis {
		if fi.p.name == "parser" || fi.p.name == "ast" {
			continue
		}
		info := fi.p.info
		inAst := func(fld *types.Var) bool {
			return fld.Pkg() != nil && fld.Pkg().Name() == "ast" && strings.HasPrefix(fld.Pkg().Path(), an.w.mod)
		}
		var through func(e ast.Expr) bool
		through = func(e ast.Expr) bool {
			switch x := stripParens(e).(type) {
			case *ast.SelectorExpr:
				sel := info.Selections[x]
				if sel == nil || sel.Kind() != types.FieldVal {
					return false
				}
				if fld, ok := sel.Obj().(*types.Var); ok && inAst(fld) {
					if _, isId := stripParens(x.X).(*ast.Ident); !isId || isPointer(info.TypeOf(x.X)) {
						return true
					}
				}
				return through(x.X)
			case *ast.IndexExpr:
				return through(x.X)
			case *ast.SliceExpr:
				return through(x.X)
			case *ast.StarExpr:
				return through(x.X)
			}
			return false
		}
		note := func(e ast.Expr) {
			if through(e) {
				out = append(out, fmt.Sprintf("%s %s", fi.key, an.w.pos(e.Pos())))
			}
		}
		ast.Inspect(fi.decl.Body, func(n ast.Node) bool {
			switch n := n.(type) {
			case *ast.AssignStmt:
				for _, l := range n.Lhs {
					note(l)
				}
			case *ast.IncDecStmt:
				note(n.X)
			case *ast.CallExpr:
				if len(n.Args) == 0 {
					return true
				}
				switch f := stripParens(n.Fun).(type) {
				case *ast.Ident:
					if _, ok := info.Uses[f].(*types.Builtin); ok {
						switch f.Name {
						case "append", "delete", "clear", "copy":
							note(n.Args[0])
						}
					}
				case *ast.SelectorExpr:
					if fn, ok := info.Uses[f.Sel].(*types.Func); ok && extMutFirst[extKey(fn)] {
						note(n.Args[0])
					}
				}
			}
			return true
		})
	}
	return dedupe(out)
}

// ---------------------------------------------------------------- driver

func (w *world) aliasAnalysis(fis []*funcInfo, freshAt func(fi *funcInfo, v *types.Var, pos token.Pos) bool) *aliasAn {
	an := &aliasAn{w: w, ctxs: map[string]*actx{}, rows: map[escKey]map[string]bool{}, storeT: map[string]types.Type{},
		freshAt: freshAt, extUses: map[string][]string{}, funcVals: map[string]bool{}, refMemo: map[types.Type]int{}}
	seed := func(fi *funcInfo, role string) {
		c := an.ctx(fi, role, held{})
		if len(fi.params) > 0 && fi.params[0] != nil {
			a := &aval{top: lset{lbl{"Server", "", false}: true}}
			c.env[fi.params[0]] = a
		}
	}
	for _, fi := range fis {
		if initEntries[fi.key] {
			seed(fi, "init")
		}
	}
	for _, fi := range fis {
		sig := fi.obj.Type().(*types.Signature)
		if sig.Recv() == nil || !fi.obj.Exported() || initEntries[fi.key] {
			continue
		}
		if strings.HasPrefix(fi.key, "server.Server.") {
			seed(fi, "main")
		}
	}
	for iter := 0; iter < 200; iter++ {
		an.changed = false
		for i := 0; i < len(an.order); i++ {
			c := an.order[i]
			r := &run{an: an, c: c, fi: c.fi}
			r.stmts(c.fi.decl.Body.List)
			r.namedResults()
		}
		if !an.changed {
			break
		}
		if iter == 199 {
			w.unsup = append(w.unsup, "alias analysis did not reach a fixpoint")
		}
	}
	return an
}

func (an *aliasAn) output(b *bytes.Buffer, fis []*funcInfo, boolS func(bool) string, strList func([]string, int) string, locksLean func(string) string, maxSites int) {
	var keys []escKey
	stores := map[string]bool{}
	for k := range an.rows {
		keys = append(keys, k)
		stores[k.store] = true
	}
	roleOrd := map[string]int{"init": 0, "main": 1, "publish": 2, "refresh": 3}
	howOrd := map[string]int{"inRegion": 0, "copied": 1, "escaped": 2}
	sort.Slice(keys, func(i, j int) bool {
		a, c := keys[i], keys[j]
		if a.store != c.store {
			return a.store < c.store
		}
		if a.role != c.role {
			return roleOrd[a.role] < roleOrd[c.role]
		}
		if a.how != c.how {
			return howOrd[a.how] < howOrd[c.how]
		}
		if a.write != c.write {
			return !a.write
		}
		if a.locks != c.locks {
			return a.locks < c.locks
		}
		return !a.fresh && c.fresh
	})
	var names []string
	for s := range stores {
		names = append(names, s)
	}
	sort.Strings(names)
	fmt.Fprintf(b, "/-- memory reachable from shared fields: the backing array / map / pointee a reference-typed\n    field refers to (\"Struct.field\"), the elements of such a container (\"…_elem\"), the fields of\n    structs that are not in the field table but are reached through shared references -/\ninductive Store\n")
	for _, s := range names {
		fmt.Fprintf(b, "  | %s\n", leanIdent(s))
	}
	if len(names) == 0 {
		fmt.Fprintf(b, "  | none\n")
	}
	fmt.Fprintf(b, "  deriving DecidableEq, Repr\n\n")
	fmt.Fprintf(b, "/-- the name of a store, for expectations that must survive stores coming and going -/\ndef Store.name : Store → String\n")
	for _, s := range names {
		fmt.Fprintf(b, "  | .%s => %q\n", leanIdent(s), leanIdent(s))
	}
	if len(names) == 0 {
		fmt.Fprintf(b, "  | .none => \"none\"\n")
	}
	fmt.Fprintf(b, "\n/-- one row per class of access to a store: role, how the reference relates to the lock region\n    it was loaded in, whether the access writes through it, locks held at the access, fresh, sites -/\ndef escapes : List (Escape Store Lock) := [\n")
	for i, k := range keys {
		sep := ","
		if i == len(keys)-1 {
			sep = ""
		}
		var sites []string
		for s := range an.rows[k] {
			sites = append(sites, s)
		}
		fmt.Fprintf(b, "  ⟨.%s, .%s, .%s, %s, %s, %s, %s⟩%s\n", leanIdent(k.store), k.role, k.how, boolS(k.write), locksLean(k.locks),
			boolS(k.fresh), strList(sites, maxSites), sep)
	}
	fmt.Fprintf(b, "]\n\n")
	var ext []string
	for k := range an.extUses {
		ext = append(ext, k)
	}
	sort.Strings(ext)
	fmt.Fprintf(b, "/-- functions of other modules that are handed a reference into shared memory (assumed to read it only) -/\ndef externalUses : List String := %s\n", strList(ext, 0))
	var extSites []string
	for _, k := range ext {
		extSites = append(extSites, k+" at "+strings.Join(dedupe(an.extUses[k]), "; "))
	}
	fmt.Fprintf(b, "def externalUseSites : List String := %s\n\n", strList(extSites, 0))
	var fv []string
	for k := range an.funcVals {
		fv = append(fv, k)
	}
	fmt.Fprintf(b, "/-- calls through function values that are handed a reference into shared memory (not followed) -/\ndef funcValueUses : List String := %s\n\n", strList(fv, 0))
	fmt.Fprintf(b, "/-- writes into the memory of a syntax tree (a struct of package ast reached through a pointer,\n    slice or map) outside the parser, by type, whether or not the tree is known to be shared -/\ndef astWriters : List String := %s\n\n", strList(an.astWrites(fis), 0))
}
