#!/usr/bin/env python3
"""Replaces commit SUBJECTS recorded by builders in known_findings.json ("commit": "<subject of the
fix commit>") by the short sha of that commit in /repo."""
import json, subprocess
k = json.load(open('/verif/known_findings.json'))
log = subprocess.check_output(['git', '-C', '/repo', 'log', '--format=%h %s'], text=True).strip().split('\n')
m = {l.split(' ', 1)[1]: l.split(' ', 1)[0] for l in log}
n = 0
for f in k['findings']:
    c = f.get('commit')
    if c in m:
        f['commit'] = m[c]; n += 1
json.dump(k, open('/verif/known_findings.json', 'w'), indent=1, ensure_ascii=False)
print(n, 'commit subjects replaced by shas')
