#!/usr/bin/env python3
"""Regenerates /verif/MANIFEST.json from the table below (kept in one place so the file is
always valid).  Run after adding a property's check."""
import json, os
ROOT = os.path.dirname(os.path.dirname(os.path.abspath(__file__)))

NOTE = ("Trusted: Lean 4.33 kernel (axioms audited per theorem: propext, Classical.choice, Quot.sound only; no sorry, "
        "native_decide, bv_decide or own axioms); the hand-written model is tied to /repo's working tree on every run by the "
        "correspondence harness (real Go code vs compiled Lean definitions on generated inputs) and by regenerated facts; "
        "Go runtime, encoding/json, go.lsp.dev/protocol decoding and third-party libraries are modelled, not verified.")

CLAIMED = {
 "C01": dict(
    text="Lean theorems HL.Props.C01.mirror_change / mirror_notification / mirror_history: for every document, every finite "
         "history of didOpen/didChange/didClose/re-open over any number of URIs sent by a conforming client (start <= end, no position "
         "inside a surrogate pair) the model's store equals a UTF-16 reference client buffer, with no guard on the shape of changes "
         "(the two defects found - CRLF clamp, insertion at 0:0 taken for a full replacement - were repaired by fix: commits and are "
         "kept as kernel-checked counterexamples against the pinned variants). The model (HL/Model/Text.lean) is tied to mapper.go / "
         "server.go / cmd/hledger-lsp by differential runs: in-process through the real Server, over JSON-RPC against the built binary "
         "(hook verif/getDocument), and per-function ops; the same executable spec judges the implementation's output. Regenerated "
         "facts (isFullChange body, serial dispatch, goroutine list) are checked by HL/Generated/Expect. Not yet stated: the second "
         "sentence (freshness of cached artefacts) beyond what C13 proves for diagnostics.",
    design="7.C01",
    technique="Lean 4 proof (induction on lines/histories, refinement to a UTF-16 reference buffer) + model/implementation correspondence"),
}

CLAIMED["C13"] = dict(
    text="Proof over a labelled transition system of the server's documents, version counter, publish tasks and locks "
         "(HL/Model/Srv.lean), for every uninterpreted diag function and every finite trace (any number of documents, opens, "
         "changes, closes, any interleaving of task steps): C13_converges (in every quiescent state each open document shows the "
         "diagnostics of its latest text), never_regresses, one_publisher_at_a_time, can_quiesce - by an explicit 14-clause inductive "
         "invariant. The pinned code violated C13 (stale_publish_counterexample, reproduced on the real server); it was repaired by a "
         "fix: commit and the theorems are about the repaired protocol. Tie to the Go code: the real Server is driven in-process "
         "under a verif-tagged yield point and a blocking client stub; every publish-order permutation for bursts <=3 (thorough <=4) "
         "on 1-2 documents, exhaustive small interleavings, overtake attempts and random walks with close/re-open are compared event "
         "by event with the model and judged against diagnostics from a fresh server.",
    design="7.C13",
    technique="Lean 4 proof (inductive invariant over all traces of an LTS) + schedule-enumerating correspondence with the real Server")

NOT_YET = {}

def main():
    props = [json.loads(l) for l in open(os.path.join(ROOT, "properties.jsonl"))]
    checks, na = [], []
    for p in props:
        pid = p["id"]
        if pid in CLAIMED:
            c = CLAIMED[pid]
            checks.append({
                "property_id": pid,
                "quick_cmd": "./check %s --tier quick" % pid,
                "thorough_cmd": "./check %s --tier thorough" % pid,
                "evidence_file": "/verif/evidence/%s.json" % pid,
                "replay_cmd_template": "./check %s --replay {path}" % pid,
                "engine": "lean-proof+correspondence",
                "level_claimed": {"category": "proof", "text": c["text"], "design_ref": c["design"]},
                "level_note": NOTE,
                "technique": c["technique"],
            })
        else:
            na.append({"property_id": pid, "reason": NOT_YET.get(pid, "not claimed yet: model and theorems for this property are not built in this revision (see DESIGN.md section 13, build order)")})
    hooks = {"guard": "verif", "enable": "go build -tags verif (the harness /verif/harness is built with this tag against /repo's working tree)",
             "baseline_off_cmd": "cd /repo && go build ./... && go test -vet=off -count=1 ./...",
             "source_commits": json.load(open(os.path.join(ROOT, "tools", "hook_commits.json"))) if os.path.exists(os.path.join(ROOT, "tools", "hook_commits.json")) else [],
             "add_only": True}
    man = {"version": 1, "setup_cmd": "./check setup", "hooks": hooks,
           "engines": [{"name": "lean-proof+correspondence", "path": "/verif/check",
                        "serves_properties": [c["property_id"] for c in checks],
                        "kind_free_text": "Lean 4 theorems about a hand-written executable model (lean/HL), tied to /repo by a Go differential harness (harness/) and regenerated facts (tools/extract)"}],
           "checks": checks, "not_applicable": na,
           "notes": "See DESIGN.md. ./check exits 2 (never prints VIOLATION) when the machinery itself fails."}
    with open(os.path.join(ROOT, "MANIFEST.json"), "w") as f:
        json.dump(man, f, indent=1)
        f.write("\n")

main()
