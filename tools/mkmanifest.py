#!/usr/bin/env python3
"""Regenerates /verif/MANIFEST.json from the table below (kept in one place so the file is
always valid).  Run after adding a property's check."""
import json, os
ROOT = os.path.dirname(os.path.dirname(os.path.abspath(__file__)))

NOTE = ("Trusted: Lean 4.33 kernel (axioms audited per theorem: propext, Classical.choice, Quot.sound only; no sorry, "
        "native_decide, bv_decide or own axioms); the hand-written model is tied to /repo's working tree on every run by the "
        "correspondence harness (real Go code vs compiled Lean definitions on generated inputs) and by regenerated facts; "
        "Go runtime, encoding/json, go.lsp.dev/protocol decoding and third-party libraries are modelled, not verified.")

CLAIMED = json.load(open(os.path.join(ROOT, "tools", "claims.json")))

NOT_YET = {}

def main():
    props = [json.loads(l) for l in open(os.path.join(ROOT, "properties.jsonl"))]
    checks, na = [], []
    for p in props:
        pid = p["id"]
        if pid in CLAIMED:
            c = CLAIMED[pid]
            checks.append({
                "property_id": pid,
                "quick_cmd": "./check %s --tier quick" % pid,
                "thorough_cmd": "./check %s --tier thorough" % pid,
                "evidence_file": "/verif/evidence/%s.json" % pid,
                "replay_cmd_template": "./check %s --replay {path}" % pid,
                "engine": "lean-proof+correspondence",
                "level_claimed": {"category": "proof", "text": c["text"], "design_ref": c["design"]},
                "level_note": NOTE,
                "technique": c["technique"],
            })
        else:
            na.append({"property_id": pid, "reason": NOT_YET.get(pid, "not claimed yet: model and theorems for this property are not built in this revision (see DESIGN.md section 13, build order)")})
    hooks = {"guard": "verif", "enable": "go build -tags verif (the harness /verif/harness is built with this tag against /repo's working tree)",
             "baseline_off_cmd": "cd /repo && go build ./... && go test -vet=off -count=1 ./...",
             "source_commits": json.load(open(os.path.join(ROOT, "tools", "hook_commits.json"))) if os.path.exists(os.path.join(ROOT, "tools", "hook_commits.json")) else [],
             "add_only": True}
    man = {"version": 1, "setup_cmd": "./check setup", "hooks": hooks,
           "engines": [{"name": "lean-proof+correspondence", "path": "/verif/check",
                        "serves_properties": [c["property_id"] for c in checks],
                        "kind_free_text": "Lean 4 theorems about a hand-written executable model (lean/HL), tied to /repo by a Go differential harness (harness/) and regenerated facts (tools/extract)"}],
           "checks": checks, "not_applicable": na,
           "notes": "See DESIGN.md. ./check exits 2 (never prints VIOLATION) when the machinery itself fails."}
    with open(os.path.join(ROOT, "MANIFEST.json"), "w") as f:
        json.dump(man, f, indent=1)
        f.write("\n")

main()
