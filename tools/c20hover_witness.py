#!/usr/bin/env python3
"""Writes the hand-made witnesses of the C20 (hover) known findings into replays/C20/.
Each line is a `c20.hover` op without `impl`; `./check C20` replays it against the real server."""
import json, os, binascii

def hx(s): return binascii.hexlify(s.encode()).decode()
def amt(c, e, com): return {"c": str(c), "e": e, "com": hx(com)}
def post(acc, a=None, tags=()): return {"acc": hx(acc), "amt": a, "cost": None, "tags": [list(t) for t in tags]}
def tx(payee, ps, tags=()): return {"payee": hx(payee), "tags": [list(t) for t in tags], "ps": ps}
def line(scen, gt, req, qs): return {"op": "c20.hover", "id": 1, "scen": scen, "gt": gt, "req": req, "qs": qs}
def q(l, ch, exp): return {"p": [l, ch], "exp": exp}

root = os.path.join(os.path.dirname(os.path.abspath(__file__)), "..", "replays", "C20")
os.makedirs(root, exist_ok=True)
def write(name, obj):
    with open(os.path.join(root, name + ".jsonl"), "w") as f:
        f.write(json.dumps(obj, sort_keys=True, ensure_ascii=False, separators=(",", ":")) + "\n")

A = "include b.journal\ninclude b.journal\n2024-01-15 Shop\n  x:y  1 USD\n  o:p\n"
B = "2024-01-16 Shop\n  x:y  5 USD\n  o:p\n"
ta = tx("Shop", [post("x:y", amt(1, 0, "USD")), post("o:p")])
tb = tx("Shop", [post("x:y", amt(5, 0, "USD")), post("o:p")])
# 1. `include b` twice; a is published twice (second time with a warm loader cache): FileOrder [b, b]
write("dup-include-doubled", line(
    {"mode": "none", "files": [{"name": "a.journal", "text": A}, {"name": "b.journal", "text": B}],
     "open": [0], "events": [{"k": "change", "f": 0, "text": A}]},
    {"files": [{"path": "/W/a.journal", "txs": [ta]}, {"path": "/W/b.journal", "txs": [tb]}],
     "graph": [[1, 1], []], "ws": False, "root": 0},
    0, [q(3, 3, {"k": "account", "name": hx("x:y")}), q(2, 12, {"k": "payee", "name": hx("Shop"), "simple": True})]))

# 2. chain a -> b -> c; a published twice: b comes from the cache and its include of c is not followed
A2 = "include b.journal\n2024-01-15 Shop\n  x:y  1 USD\n  o:p\n"
B2 = "include c.journal\n2024-01-16 Shop\n  x:y  5 USD\n  o:p\n"
C2 = "2024-01-17 Shop\n  x:y  7 USD\n  o:p\n"
tc = tx("Shop", [post("x:y", amt(7, 0, "USD")), post("o:p")])
write("warm-cache-truncated-tree", line(
    {"mode": "none", "files": [{"name": "a.journal", "text": A2}, {"name": "b.journal", "text": B2}, {"name": "c.journal", "text": C2}],
     "open": [0], "events": [{"k": "change", "f": 0, "text": A2}]},
    {"files": [{"path": "/W/a.journal", "txs": [ta]}, {"path": "/W/b.journal", "txs": [tb]}, {"path": "/W/c.journal", "txs": [tc]}],
     "graph": [[1], [2], []], "ws": False, "root": 0},
    0, [q(2, 3, {"k": "account", "name": hx("x:y")})]))

# 3. workspace with root main.journal; other.journal is included by nobody
M = "2024-01-15 Shop\n  x:y  1 USD\n  o:p\n"
O = "2024-01-16 Shop\n  x:y  5 USD\n  o:p\n"
write("orphan-file-not-counted", line(
    {"mode": "rootURI", "files": [{"name": "main.journal", "text": M}, {"name": "other.journal", "text": O}],
     "open": [0, 1], "events": []},
    {"files": [{"path": "/W/main.journal", "txs": [ta]}, {"path": "/W/other.journal", "txs": [tb]}],
     "graph": [[], []], "ws": True, "root": 0},
    1, [q(1, 3, {"k": "account", "name": hx("x:y")})]))

# 4. a tag on an indented comment line of the transaction
T = "2024-01-15 Shop  ; trip:x\n  ; trip:y\n  x:y  5 USD\n  o:p\n"
tt = tx("Shop", [post("x:y", amt(5, 0, "USD")), post("o:p")], tags=[(hx("trip"), hx("x"), False), (hx("trip"), hx("y"), True)])
write("txline-tags-dropped", line(
    {"mode": "none", "files": [{"name": "a.journal", "text": T}], "open": [0], "events": []},
    {"files": [{"path": "/W/a.journal", "txs": [tt]}], "graph": [[]], "ws": False, "root": 0},
    0, [q(0, 20, {"k": "tag", "name": hx("trip"), "dropped": False}),
        q(1, 5, {"k": "tag", "name": hx("trip"), "dropped": True})]))

# 5. a transaction code between date and payee
P = "2024-01-15 (12) Shop\n  x:y  5 USD\n  o:p\n"
write("payee-range-estimated", line(
    {"mode": "none", "files": [{"name": "a.journal", "text": P}], "open": [0], "events": []},
    {"files": [{"path": "/W/a.journal", "txs": [tb]}], "graph": [[]], "ws": False, "root": 0},
    0, [q(0, 17, {"k": "payee", "name": hx("Shop"), "simple": False})]))
