#!/usr/bin/env python3
"""Rebuilds seeded/RESULTS.json and the table of DESIGN.md section 14.5 from seeded/*/meta.json
(`coordinator_validation.check_verdict` is written by the coordinator after tools/validate_seed*.sh)."""
import json, os, re, glob
ROOT = os.path.dirname(os.path.dirname(os.path.abspath(__file__)))
def key(d):
    n = os.path.basename(d)
    m = re.match(r"(?:r(\d+)-)?C(\d+)", n)
    return (int(m.group(2)), int(m.group(1) or 1))
res, rows = {}, []
for d in sorted(glob.glob(os.path.join(ROOT, "seeded", "*")), key=lambda d: key(d) if os.path.isdir(d) else (99, 99)):
    mp = os.path.join(d, "meta.json")
    if not os.path.exists(mp):
        continue
    m = json.load(open(mp))
    n = os.path.basename(d)
    v = (m.get("coordinator_validation") or {}).get("check_verdict", "not validated")
    res[n] = {"property": m["property"], "summary": m["summary"], "needs": m["needs"], "verdict": v}
    cell = lambda s, k: s[:k].replace("|", "//").replace("\n", " ")
    rows.append("| %s | %s | %s | %s |" % (n, cell(m["summary"], 160), cell(m["needs"], 140), cell(v, 400)))
json.dump(res, open(os.path.join(ROOT, "seeded", "RESULTS.json"), "w"), indent=1, ensure_ascii=False)
p = os.path.join(ROOT, "DESIGN.md")
s = open(p).read()
head = "| seed | change | needs | verdict of the check |\n|---|---|---|---|\n"
i = s.index(head)
j = i + len(head)
while s[j:j + 1] == "|":
    j = s.index("\n", j) + 1
s = s[:i] + head + "\n".join(rows) + "\n" + s[j:]
open(p, "w").write(s)
print(len(rows), "seeds")
