#!/usr/bin/env python3
"""Resolve the routine merge conflicts of lean/Driver.lean and lean/HL.lean (both sides only
add import lines / handler lines): keep the union."""
import re, sys
def union(path):
    s = open(path).read()
    def repl(m):
        a = m.group(1).split("\n"); b = m.group(2).split("\n")
        out = []
        for l in a + b:
            if l.strip() == "" and out and out[-1].strip() == "": continue
            if l not in out or l.strip() == "": out.append(l)
        return "\n".join(out) + "\n"
    s2 = re.sub(r"<<<<<<< [^\n]*\n(.*?)=======\n(.*?)>>>>>>> [^\n]*\n", repl, s, flags=re.S)
    open(path, "w").write(s2)
for p in sys.argv[1:]:
    union(p)
