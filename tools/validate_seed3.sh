#!/bin/bash
# tools/validate_seed3.sh <base dir, e.g. /tmp/seed3> <seed dir name, e.g. C01> <label, e.g. r3-C01> <property ids to check...>
# Confirms a seeded change made by an independent sub-agent in the scratch worktree <base>/<name>
# (builds, suite green with the change, demonstration fails with / passes without), then applies
# it to /repo, runs the named checks there, and reverts /repo straight afterwards.
set -u
export GOFLAGS=-mod=mod GOPROXY=off
B=$1; S=$2; L=$3; shift 3
W=$B/$S; O=$B/$S-out
DEMO=$(python3 -c "import json;print(json.load(open('$O/meta.json'))['demo_file'])")
DEMOCMD=$(python3 -c "import json;print(json.load(open('$O/meta.json'))['demo_cmd'])")
cd $W || exit 1
cp $O/zz_seed_demo_test.go /tmp/$L.demo.go 2>/dev/null || cp $W/$DEMO /tmp/$L.demo.go
git checkout -q -- . ; rm -f $W/$DEMO
git apply $O/patch.diff || { echo "PATCH DOES NOT APPLY"; exit 1; }
go build ./... || { echo "BUILD FAILS"; exit 1; }
SUITE=$(go test -vet=off -count=1 ./... 2>&1 | grep -v "^ok\|no test files" | head -5)
echo "suite-with-change: ${SUITE:-green}"
cp /tmp/$L.demo.go $W/$DEMO
timeout 600 bash -c "$DEMOCMD" >$B/$S.with.log 2>&1; echo "demo-with-change rc=$? (expect !=0)"
git checkout -q -- . ; timeout 600 bash -c "$DEMOCMD" >$B/$S.without.log 2>&1; echo "demo-without-change rc=$? (expect 0)"
git apply $O/patch.diff
if [ -n "$(git -C /repo status --short)" ]; then echo "/repo is dirty; refusing"; exit 1; fi
git -C /repo apply $O/patch.diff || { echo "does not apply to /repo"; exit 1; }
cd /verif
for P in "$@"; do
  ./check $P > $B/$S.check.$P.log 2>&1; echo "check $P rc=$? $(grep -c VIOLATION $B/$S.check.$P.log) violation line(s): $(grep VIOLATION $B/$S.check.$P.log | head -1 | cut -c1-200)"
done
git -C /repo checkout -q -- .
git -C /verif checkout -q -- evidence lean/HL/Generated 2>/dev/null
mkdir -p /verif/seeded/$L && cp $O/patch.diff $O/meta.json /verif/seeded/$L/ && cp /tmp/$L.demo.go /verif/seeded/$L/zz_seed_demo_test.go
rm -f /tmp/$L.demo.go
