#!/usr/bin/env python3
"""Regenerates lean/HL/Lemmas/SemTokWitness.lean from the witness lines of replays/C17/*.jsonl
(text and the real lexer's tokens for it, as recorded by the harness; `./check C17` replays those
files against the current code on every run)."""
import json, os

ROOT = os.path.join(os.path.dirname(os.path.abspath(__file__)), "..")
TY = ["eof", "newline", "indent", "date", "status", "code", "text", "account", "number", "commodity",
      "comment", "directive", "tag", "at", "atAt", "equals", "doubleEquals", "lparen", "rparen",
      "lbracket", "rbracket", "pipe", "colon", "semicolon", "sign"]

# (lean name, replay file, line index, remark)
W = [("pipe", "pipe-position", 0, None), ("code", "code-length", 0, None),
     ("quoted", "quoted-commodity-length", 0, None),
     ("trim", "text-trimmed-position", 0, None), ("trim2", "text-trimmed-position", 2, None),
     ("crlf", "crlf-comment-length", 0, None), ("nonbmp", "nonbmp-column", 0, None),
     ("tagb", "tag-byte-offsets", 0, None), ("clean", "clean-example", 0, None),
     ("tags", "tag-search-position", 0, None)]

def bl(h): return "[" + ", ".join(str(b) for b in bytes.fromhex(h)) + "]"

out = ["""/-
  C17: concrete inputs used by the counterexample theorems and non-vacuity examples of
  HL/Props/C17.lean.  Every text is a witness line of replays/C17/*.jsonl; the token lists are
  what the real lexer (parser.NewLexer / Next) returns for it, copied from those files by
  tools/c17_witness.py (the check replays them on every run: model = implementation on each).
-/
import HL.Model.Ast
namespace HL.Lemmas.SemTok.W
open HL
"""]
for name, f, idx, _ in W:
    lines = [json.loads(l) for l in open(os.path.join(ROOT, "replays", "C17", f + ".jsonl"))]
    c = lines[idx]
    text = bytes.fromhex(c["doc"]["t"]).decode("utf-8")
    out.append("/-- `%s` and the lexer's tokens for it (replays/C17/%s.jsonl, line %d). -/" %
               (json.dumps(text, ensure_ascii=False), f, idx + 1))
    out.append("def %sText : Bytes := %s" % (name, bl(c["doc"]["t"])))
    toks = []
    for t in c["doc"]["toks"]:
        toks.append("  ⟨.%s, %s, ⟨%d, %d, %d⟩, ⟨%d, %d, %d⟩⟩" % (TY[t["ty"]], bl(t["v"]), *t["p"], *t["e"]))
    out.append("def %sToks : List Token := [\n%s]" % (name, ",\n".join(toks)))
    out.append("-- implementation's array: %s\n" % json.dumps(c["impl"]))
out.append("""/-- The tokens the PINNED lexer returned for `pipeText` (before the one-character-token repair
    8add500): `|` empty and positioned behind its character.  Hand-copied from the witness as it
    was recorded then; used only by `pinned_pipe_position_counterexample`. -/
def pipePinnedToks : List Token := [
  ⟨.date, [50, 48, 50, 52, 45, 48, 49, 45, 49, 53], ⟨1, 1, 0⟩, ⟨1, 11, 10⟩⟩,
  ⟨.text, [112, 97, 121, 101, 101], ⟨1, 12, 11⟩, ⟨1, 17, 16⟩⟩,
  ⟨.pipe, [124], ⟨1, 18, 17⟩, ⟨1, 18, 17⟩⟩,
  ⟨.text, [110, 111, 116, 101], ⟨1, 18, 17⟩, ⟨1, 22, 21⟩⟩,
  ⟨.newline, [10], ⟨1, 22, 21⟩, ⟨2, 1, 22⟩⟩,
  ⟨.eof, [], ⟨2, 1, 22⟩, ⟨2, 1, 22⟩⟩]
""")
out.append("""/-- The tokens the PINNED lexer (HL/Model/LexerPinned.lean: only LF ends a line, before the
    `fix:` commit for CRLF line ends) returned for `crlfText`: the comment's value and extent
    include the CR.  As the witness was recorded then; `HL.Props.C17` proves it equal to the
    pinned lexer model's output.  Used only by `pinned_crlf_comment_length_counterexample`. -/
def crlfPinnedToks : List Token := [
  ⟨.comment, [32, 110, 111, 116, 101, 13], ⟨1, 1, 0⟩, ⟨1, 8, 7⟩⟩,
  ⟨.newline, [10], ⟨1, 8, 7⟩, ⟨2, 1, 8⟩⟩,
  ⟨.eof, [], ⟨2, 1, 8⟩, ⟨2, 1, 8⟩⟩]

/-- The tokens the PINNED lexer returned for `trim2Text` (`account a:b` + CRLF): an empty Text
    token on the CR.  As the witness was recorded then; used only by
    `pinned_text_trimmed_position_counterexample`. -/
def trim2PinnedToks : List Token := [
  ⟨.directive, [97, 99, 99, 111, 117, 110, 116], ⟨1, 1, 0⟩, ⟨1, 8, 7⟩⟩,
  ⟨.account, [97, 58, 98], ⟨1, 9, 8⟩, ⟨1, 12, 11⟩⟩,
  ⟨.text, [], ⟨1, 12, 11⟩, ⟨1, 13, 12⟩⟩,
  ⟨.newline, [10], ⟨1, 13, 12⟩, ⟨2, 1, 13⟩⟩,
  ⟨.eof, [], ⟨2, 1, 13⟩, ⟨2, 1, 13⟩⟩]
""")
out.append("end HL.Lemmas.SemTok.W\n")
open(os.path.join(ROOT, "lean", "HL", "Lemmas", "SemTokWitness.lean"), "w").write("\n".join(out))
