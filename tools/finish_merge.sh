#!/bin/bash
# after `git merge w-X` with the routine conflicts: regenerate Driver.lean/HL.lean, build, commit
set -e
cd /verif
python3 tools/gendriver.py
git checkout --theirs evidence 2>/dev/null || true
git add -A
(cd lean && lake build 2>&1 | grep -v "^trace" | grep -B2 -A12 "error" | head -40) || true
git commit -qm "$1"
