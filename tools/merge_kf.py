#!/usr/bin/env python3
"""Resolve a conflict in known_findings.json: union of both sides' findings by (property,id);
ours wins on duplicates."""
import json, subprocess, sys
ours = json.loads(subprocess.check_output(["git", "show", ":2:known_findings.json"]))
theirs = json.loads(subprocess.check_output(["git", "show", ":3:known_findings.json"]))
seen = {(f["property"], f["id"]) for f in ours["findings"]}
for f in theirs["findings"]:
    if (f["property"], f["id"]) not in seen:
        ours["findings"].append(f)
json.dump(ours, open("known_findings.json", "w"), indent=1, ensure_ascii=False)
open("known_findings.json", "a").write("\n")
