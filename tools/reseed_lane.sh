#!/bin/bash
export GOFLAGS=-mod=mod GOPROXY=off
V=/tmp/w/laneS; R=/tmp/w/laneS-repo
cd $V
for d in /verif/seeded/r6-* /verif/seeded/r5-*; do
  n=$(basename $d); prop=$(echo $n | sed 's/^r[0-9]-//')
  P=$d/patch.diff; [ -f $d/patch.rebased.diff ] && P=$d/patch.rebased.diff
  git -C $R checkout -q -- . ; git -C $R clean -qfd
  if ! git -C $R apply $P 2>/dev/null; then echo "$n: patch does not apply any more"; continue; fi
  if ! (cd $R && go build ./... >/dev/null 2>&1); then echo "$n: does not build any more"; continue; fi
  out=$(VERIF_REPO=$R ./check $prop --tier quick 2>&1 | grep -E "VIOLATION|^check:" | head -1 | cut -c1-120)
  echo "$n: ${out:-MISSED (exit 0)}"
  git -C $V checkout -q -- evidence lean/HL/Generated 2>/dev/null
done
git -C $R checkout -q -- .
