package main

// C16 — completion is sound, complete for prefixes, bounded and frequency-ranked.
//
// Ops (mirrored by lean/HL/Driver/C16.lean):
//   c16.complete  real Server.Completion at a list of cursor positions of one line of a document
//                 (single document or a workspace on disk), under one configuration
//                 (maxResults x fuzzyMatching x showCounts).  Inputs derived from the real code:
//                 the symbol table with counts (the analyzer's result for that document /
//                 workspace) and the text of the line.
//   c16.pair      the same request under two values of maxResults (limit_prefix).
//   c16.range     determineCompletionContext / extractQueryText / calculateTextEditRange /
//                 extractAccountPrefix at every position of a line (hooks).
//   c16.score     fuzzyMatchScore, fuzzyMatchScoreBySegments (hooks).
//   c16.filter    filterAndScoreFuzzyMatch / filterByPrefix (hooks).
//   c16.rank      rankCompletionItemsByScore (hook).
//   c16.lower     strings.ToLower on the documented alphabet.
//   c16.max       normalizeServerSettings on completion.maxResults (hook).
//
// Alphabet of generated names (the model's `goLower` tables exactly these cased letters):
// ASCII; Latin-1 letters (é É ä Ä ñ ß); Greek Σ σ; Cyrillic А..я Ё-block; İ (U+0130); Deseret
// 𐐀 𐐨 (non-BMP, cased); caseless: 中 文 € ₽ £ ¥ 😀.

import (
	"context"
	"fmt"
	"math/rand/v2"
	"os"
	"path/filepath"
	"sort"
	"strings"
	"unicode"

	"go.lsp.dev/protocol"

	"github.com/juev/hledger-lsp/internal/analyzer"
	"github.com/juev/hledger-lsp/internal/server"
)

func init() {
	register("C16", genC16)
	replayers["c16.complete"] = func(c *Ctx, m map[string]any) map[string]any {
		return c16RunComplete(c, c16CaseFromMap(m))
	}
	replayers["c16.pair"] = func(c *Ctx, m map[string]any) map[string]any {
		cs := c16CaseFromMap(m)
		return c16RunPair(c, cs, c16Int(m["max2"]))
	}
	replayers["c16.range"] = func(c *Ctx, m map[string]any) map[string]any {
		line, _ := m["line"].(string)
		return c16RangeCase(line, c16Strs(m["trs"]))
	}
	replayers["c16.score"] = func(c *Ctx, m map[string]any) map[string]any {
		t, _ := m["text"].(string)
		p, _ := m["pat"].(string)
		return c16ScoreCase(t, p)
	}
	replayers["c16.filter"] = func(c *Ctx, m map[string]any) map[string]any {
		q, _ := m["q"].(string)
		f, _ := m["fuzzy"].(bool)
		return c16FilterCase(c16Strs(m["labels"]), q, f)
	}
	replayers["c16.rank"] = func(c *Ctx, m map[string]any) map[string]any {
		var in []server.VerifScored
		arr, _ := m["scored"].([]any)
		for _, x := range arr {
			xm := x.(map[string]any)
			l, _ := xm["l"].(string)
			in = append(in, server.VerifScored{Label: l, Score: c16Int(xm["s"])})
		}
		counts := map[string]int{}
		carr, _ := m["counts"].([]any)
		for _, x := range carr {
			xm := x.(map[string]any)
			k, _ := xm["k"].(string)
			counts[k] = c16Int(xm["n"])
		}
		nilc, _ := m["nil"].(bool)
		return c16RankCase(in, counts, nilc)
	}
	replayers["c16.lower"] = func(c *Ctx, m map[string]any) map[string]any {
		s, _ := m["s"].(string)
		return map[string]any{"s": s, "impl": strings.ToLower(s)}
	}
	replayers["c16.max"] = func(c *Ctx, m map[string]any) map[string]any {
		n := c16Int(m["n"])
		return map[string]any{"n": n, "impl": server.VerifNormalizeMaxResults(n)}
	}
}

func c16Int(v any) int {
	f, _ := v.(float64)
	return int(f)
}

func c16Strs(v any) []string {
	a, _ := v.([]any)
	out := make([]string, len(a))
	for i, x := range a {
		out[i], _ = x.(string)
	}
	return out
}

// ------------------------------------------------------------------ cases

type c16Span struct {
	K string // account | payee | commodity | tag
	S int    // UTF-16 column of the first character of the name being typed
	E int    // UTF-16 column just after its last typed character
	M int    // first cursor column judged (S, or S+1 when the name touches the amount's digits:
	//          a cursor right after a digit may as well continue the number)
}

type c16Case struct {
	Doc    string
	Files  map[string]string // workspace files (nil: single document, no workspace)
	Open   string            // workspace mode: name of the opened file
	Ln     int
	Chs    []int
	Trs    []string
	Max    int
	Fuzzy  bool
	Counts bool
	Spans  []c16Span
}

func c16CaseFromMap(m map[string]any) c16Case {
	cs := c16Case{}
	cs.Doc, _ = m["doc"].(string)
	if fm, ok := m["files"].(map[string]any); ok && len(fm) > 0 {
		cs.Files = map[string]string{}
		for k, v := range fm {
			cs.Files[k], _ = v.(string)
		}
	}
	cs.Open, _ = m["open"].(string)
	cs.Ln = c16Int(m["ln"])
	for _, x := range m["chs"].([]any) {
		cs.Chs = append(cs.Chs, c16Int(x))
	}
	cs.Trs = c16Strs(m["trs"])
	cs.Max = c16Int(m["max"])
	cs.Fuzzy, _ = m["fuzzy"].(bool)
	cs.Counts, _ = m["counts"].(bool)
	if sp, ok := m["spans"].([]any); ok {
		for _, x := range sp {
			xm := x.(map[string]any)
			k, _ := xm["k"].(string)
			cs.Spans = append(cs.Spans, c16Span{K: k, S: c16Int(xm["s"]), E: c16Int(xm["e"]), M: c16Int(xm["m"])})
		}
	}
	return cs
}

func (cs c16Case) fields() map[string]any {
	spans := []any{}
	for _, s := range cs.Spans {
		spans = append(spans, map[string]any{"k": s.K, "s": s.S, "e": s.E, "m": s.M})
	}
	files := map[string]any{}
	for k, v := range cs.Files {
		files[k] = v
	}
	trs := cs.Trs
	if trs == nil {
		trs = []string{}
	}
	return map[string]any{"doc": cs.Doc, "files": files, "open": cs.Open, "ln": cs.Ln, "chs": cs.Chs,
		"trs": trs, "max": cs.Max, "fuzzy": cs.Fuzzy, "counts": cs.Counts, "spans": spans}
}

// c16Server builds a fresh real Server for the case: settings through initializationOptions,
// an optional workspace on disk, the document opened with didOpen.
func c16Server(c *Ctx, cs c16Case, max int) (*server.Server, protocol.DocumentURI) {
	srv := server.NewServer()
	ctx := context.Background()
	opts := map[string]any{"completion": map[string]any{
		"maxResults": float64(max), "fuzzyMatching": cs.Fuzzy, "showCounts": cs.Counts}}
	params := &protocol.InitializeParams{InitializationOptions: opts}
	uri := protocol.DocumentURI("file:///w/a.journal")
	if cs.Files != nil {
		dir, err := os.MkdirTemp(c.Tmp, "c16ws")
		if err != nil {
			panic(err)
		}
		names := make([]string, 0, len(cs.Files))
		for k := range cs.Files {
			names = append(names, k)
		}
		sort.Strings(names)
		for _, k := range names {
			if err := os.WriteFile(filepath.Join(dir, k), []byte(cs.Files[k]), 0o644); err != nil {
				panic(err)
			}
		}
		params.RootURI = protocol.DocumentURI("file://" + dir) //nolint:staticcheck
		uri = protocol.DocumentURI("file://" + filepath.Join(dir, cs.Open))
	}
	if _, err := srv.Initialize(ctx, params); err != nil {
		panic(err)
	}
	_ = srv.Initialized(ctx, &protocol.InitializedParams{})
	_ = srv.DidOpen(ctx, &protocol.DidOpenTextDocumentParams{
		TextDocument: protocol.TextDocumentItem{URI: uri, Text: cs.Doc, Version: 1}})
	return srv, uri
}

// c16Analysis obtains the symbol table the way Completion does, through the public API.
func c16Analysis(srv *server.Server, uri protocol.DocumentURI, doc string) *analyzer.AnalysisResult {
	a := analyzer.New()
	if ws := srv.Workspace(); ws != nil {
		if r := ws.GetResolved(); r != nil {
			return a.AnalyzeResolved(r)
		}
	}
	if r := srv.GetResolved(uri); r != nil {
		return a.AnalyzeResolved(r)
	}
	j, _ := hxParse(doc)
	return a.Analyze(j)
}

func c16Counts(m map[string]int) []any {
	keys := make([]string, 0, len(m))
	for k := range m {
		keys = append(keys, k)
	}
	sort.Strings(keys)
	out := make([]any, 0, len(keys))
	for _, k := range keys {
		out = append(out, map[string]any{"k": k, "n": m[k]})
	}
	return out
}

func c16Lists(m map[string][]string) []any {
	keys := make([]string, 0, len(m))
	for k := range m {
		keys = append(keys, k)
	}
	sort.Strings(keys)
	out := make([]any, 0, len(keys))
	for _, k := range keys {
		v := m[k]
		if v == nil {
			v = []string{}
		}
		out = append(out, map[string]any{"k": k, "v": v})
	}
	return out
}

func c16StrList(v []string) []string {
	if v == nil {
		return []string{}
	}
	return v
}

func c16Table(res *analyzer.AnalysisResult) map[string]any {
	return map[string]any{
		"acc": c16StrList(res.Accounts.All), "idx": c16Lists(res.Accounts.ByPrefix),
		"pay": c16StrList(res.Payees), "com": c16StrList(res.Commodities), "tag": c16StrList(res.Tags),
		"tv":   c16Lists(res.TagValues),
		"accN": c16Counts(res.AccountCounts), "payN": c16Counts(res.PayeeCounts),
		"comN": c16Counts(res.CommodityCounts), "tagN": c16Counts(res.TagCounts),
	}
}

var c16KindNames = map[protocol.CompletionItemKind]string{
	protocol.CompletionItemKindVariable: "account", protocol.CompletionItemKindClass: "payee",
	protocol.CompletionItemKindEnum: "commodity", protocol.CompletionItemKindProperty: "tagName",
	protocol.CompletionItemKindValue: "tagValue", protocol.CompletionItemKindConstant: "date",
}

// c16Observe canonicalises one CompletionList: the context as the item kinds show it, the labels
// in order, the (common) edit range and filter text, and `ok` = every item-wise invariant the
// model takes for granted (uniform kind / range / filterText, newText = insertText or label,
// sortText = position and label, IsIncomplete).  Date items depend on time.Now(): kind only.
func c16Observe(l *protocol.CompletionList, ln int, dc *c16Detail) map[string]any {
	out := map[string]any{"ctx": "none", "r": nil, "f": nil, "items": []string{}, "ok": true}
	if l == nil {
		out["ok"] = false
		return out
	}
	ok := l.IsIncomplete
	if len(l.Items) == 0 {
		out["ok"] = ok
		return out
	}
	kind, known := c16KindNames[l.Items[0].Kind]
	if !known {
		kind = fmt.Sprintf("kind%d", int(l.Items[0].Kind))
	}
	out["ctx"] = kind
	first := l.Items[0]
	labels := []string{}
	for i, it := range l.Items {
		if it.Kind != first.Kind {
			ok = false
		}
		if kind == "date" {
			continue
		}
		labels = append(labels, it.Label)
		if it.FilterText != first.FilterText {
			ok = false
		}
		if dc != nil && !dc.ok(kind, it.Label, it.Detail) {
			ok = false
		}
		if it.SortText != fmt.Sprintf("%06d_%s", i, it.Label) {
			ok = false
		}
		want := it.Label
		if kind == "tagName" {
			want = it.Label + ":"
			if it.InsertText != want {
				ok = false
			}
		} else if it.InsertText != "" {
			ok = false
		}
		if (it.TextEdit == nil) != (first.TextEdit == nil) {
			ok = false
		} else if it.TextEdit != nil {
			if it.TextEdit.Range != first.TextEdit.Range || it.TextEdit.NewText != want {
				ok = false
			}
		}
	}
	out["items"] = labels
	out["ok"] = ok
	if kind == "date" {
		return out
	}
	out["f"] = first.FilterText
	if first.TextEdit != nil {
		r := first.TextEdit.Range
		if int(r.Start.Line) != ln || int(r.End.Line) != ln {
			out["ok"] = false
		}
		out["r"] = []int{int(r.Start.Character), int(r.End.Character)}
	}
	return out
}

// c16Detail checks the `detail` string against the usage counts (showCounts on / off).
type c16Detail struct {
	res  *analyzer.AnalysisResult
	show bool
}

func (d *c16Detail) ok(kind, label, detail string) bool {
	var base string
	var counts map[string]int
	switch kind {
	case "account":
		base, counts = "Account", d.res.AccountCounts
	case "payee":
		base, counts = "Payee", d.res.PayeeCounts
	case "commodity":
		base, counts = "Commodity", d.res.CommodityCounts
	case "tagName":
		base, counts = "Tag", d.res.TagCounts
	default:
		return true
	}
	if d.show && counts[label] > 0 {
		return detail == fmt.Sprintf("%s (%d)", base, counts[label])
	}
	return detail == base
}

func c16Complete(srv *server.Server, uri protocol.DocumentURI, ln, ch int, trig string, dc *c16Detail) map[string]any {
	p := &protocol.CompletionParams{TextDocumentPositionParams: protocol.TextDocumentPositionParams{
		TextDocument: protocol.TextDocumentIdentifier{URI: uri},
		Position:     protocol.Position{Line: uint32(ln), Character: uint32(ch)}}}
	if trig != "" {
		p.Context = &protocol.CompletionContext{TriggerKind: protocol.CompletionTriggerKindTriggerCharacter, TriggerCharacter: trig}
	}
	l, err := srv.Completion(context.Background(), p)
	if err != nil {
		return map[string]any{"ctx": "error", "r": nil, "f": nil, "items": []string{}, "ok": false}
	}
	return c16Observe(l, ln, dc)
}

func c16CountAnswer(c *Ctx, o map[string]any, max int) {
	items, _ := o["items"].([]string)
	kind, _ := o["ctx"].(string)
	c.Count("answer." + kind)
	switch {
	case kind == "date" || kind == "none":
	case max > 0 && len(items) >= max:
		c.Count("answer.at-limit")
	default:
		c.Count("answer.below-limit")
	}
}

func c16LineOf(doc string, ln int) string {
	lines := strings.Split(doc, "\n")
	if ln < len(lines) {
		return lines[ln]
	}
	return ""
}

func c16RunComplete(c *Ctx, cs c16Case) map[string]any {
	srv, uri := c16Server(c, cs, cs.Max)
	f := cs.fields()
	f["line"] = c16LineOf(cs.Doc, cs.Ln)
	res := c16Analysis(srv, uri, cs.Doc)
	f["tab"] = c16Table(res)
	dc := &c16Detail{res, cs.Counts}
	impl := []any{}
	for i, ch := range cs.Chs {
		tr := ""
		if i < len(cs.Trs) {
			tr = cs.Trs[i]
		}
		o := c16Complete(srv, uri, cs.Ln, ch, tr, dc)
		c16CountAnswer(c, o, cs.Max)
		impl = append(impl, o)
	}
	f["impl"] = impl
	return f
}

// c16RunSession: ONE long-lived server with a workspace answers the case's positions, then
// another file of the workspace is edited in the editor (opened with a new text, or opened and
// changed, saved or not) and the very same positions of the untouched document are asked again.
// The second answer is judged against the symbol table of a FRESH server started on the final
// state: names that left the workspace must be gone, new ones must be offered.  Both rounds are
// ordinary c16.complete cases for the driver.  (Added after seed r5-C16: an analysis cached per
// document and keyed by the document's own text answered from the old symbol table.)
func c16RunSession(c *Ctx, cs c16Case, other, newText string) []map[string]any {
	srv, uri := c16Server(c, cs, cs.Max)
	ctx := context.Background()
	round := func(cs c16Case, res *analyzer.AnalysisResult) map[string]any {
		f := cs.fields()
		f["line"] = c16LineOf(cs.Doc, cs.Ln)
		f["tab"] = c16Table(res)
		dc := &c16Detail{res, cs.Counts}
		impl := []any{}
		for i, ch := range cs.Chs {
			tr := ""
			if i < len(cs.Trs) {
				tr = cs.Trs[i]
			}
			o := c16Complete(srv, uri, cs.Ln, ch, tr, dc)
			c16CountAnswer(c, o, cs.Max)
			impl = append(impl, o)
		}
		f["impl"] = impl
		return f
	}
	out := []map[string]any{round(cs, c16Analysis(srv, uri, cs.Doc))}
	dir := filepath.Dir(strings.TrimPrefix(string(uri), "file://"))
	ou := protocol.DocumentURI("file://" + filepath.Join(dir, other))
	switch c.R.IntN(3) {
	case 0: // opened with the new text (the file on disk is older)
		_ = srv.DidOpen(ctx, &protocol.DidOpenTextDocumentParams{TextDocument: protocol.TextDocumentItem{URI: ou, Text: newText, Version: 1}})
	case 1: // opened as on disk, then typed
		_ = srv.DidOpen(ctx, &protocol.DidOpenTextDocumentParams{TextDocument: protocol.TextDocumentItem{URI: ou, Text: cs.Files[other], Version: 1}})
		_ = srv.DidChange(ctx, &protocol.DidChangeTextDocumentParams{
			TextDocument:   protocol.VersionedTextDocumentIdentifier{TextDocumentIdentifier: protocol.TextDocumentIdentifier{URI: ou}, Version: 2},
			ContentChanges: []protocol.TextDocumentContentChangeEvent{{Text: newText}}})
	default: // typed, saved and closed
		_ = srv.DidOpen(ctx, &protocol.DidOpenTextDocumentParams{TextDocument: protocol.TextDocumentItem{URI: ou, Text: cs.Files[other], Version: 1}})
		_ = srv.DidChange(ctx, &protocol.DidChangeTextDocumentParams{
			TextDocument:   protocol.VersionedTextDocumentIdentifier{TextDocumentIdentifier: protocol.TextDocumentIdentifier{URI: ou}, Version: 2},
			ContentChanges: []protocol.TextDocumentContentChangeEvent{{Text: newText}}})
		_ = os.WriteFile(filepath.Join(dir, other), []byte(newText), 0o644)
		_ = srv.DidSave(ctx, &protocol.DidSaveTextDocumentParams{TextDocument: protocol.TextDocumentIdentifier{URI: ou}})
		_ = srv.DidClose(ctx, &protocol.DidCloseTextDocumentParams{TextDocument: protocol.TextDocumentIdentifier{URI: ou}})
	}
	cs2 := cs
	cs2.Files = map[string]string{}
	for k, v := range cs.Files {
		cs2.Files[k] = v
	}
	cs2.Files[other] = newText
	fresh, furi := c16Server(c, cs2, cs2.Max)
	out = append(out, round(cs2, c16Analysis(fresh, furi, cs2.Doc)))
	return out
}

func c16RunPair(c *Ctx, cs c16Case, max2 int) map[string]any {
	f := cs.fields()
	f["max2"] = max2
	f["line"] = c16LineOf(cs.Doc, cs.Ln)
	srv1, uri1 := c16Server(c, cs, cs.Max)
	f["tab"] = c16Table(c16Analysis(srv1, uri1, cs.Doc))
	srv2, uri2 := c16Server(c, cs, max2)
	tr := ""
	if len(cs.Trs) > 0 {
		tr = cs.Trs[0]
	}
	// the smaller limit is asked of both servers, the larger of the second one
	a := c16Complete(srv1, uri1, cs.Ln, cs.Chs[0], tr, nil)
	b := c16Complete(srv2, uri2, cs.Ln, cs.Chs[0], tr, nil)
	f["impl"] = []any{a, b}
	return f
}

// ------------------------------------------------------------------ per-function ops

var c16CtxNames = []string{"unknown", "account", "payee", "commodity", "tagName", "tagValue", "date"}

func c16RangeCase(line string, trs []string) map[string]any {
	n := utf16Len(line)
	impl := []any{}
	if len(trs) == 0 {
		trs = []string{""}
	}
	for _, tr := range trs {
		for ch := 0; ch <= n+1; ch++ {
			pos := protocol.Position{Line: 0, Character: uint32(ch)}
			var cc *protocol.CompletionContext
			if tr != "" {
				cc = &protocol.CompletionContext{TriggerKind: protocol.CompletionTriggerKindTriggerCharacter, TriggerCharacter: tr}
			}
			k := server.VerifDetermineCompletionContext(line, pos, cc)
			var rr any
			if r := server.VerifCalculateTextEditRange(line, pos, k); r != nil {
				rr = []int{int(r.Start.Character), int(r.End.Character)}
			}
			impl = append(impl, map[string]any{"ctx": c16CtxNames[k], "r": rr,
				"q":   server.VerifExtractQueryText(line, pos, k),
				"pre": server.VerifExtractAccountPrefix(line, pos)})
		}
	}
	return map[string]any{"line": line, "trs": trs, "impl": impl}
}

func c16ScoreCase(text, pat string) map[string]any {
	return map[string]any{"text": text, "pat": pat, "impl": map[string]any{
		"score": server.VerifFuzzyMatchScore(text, pat), "seg": server.VerifFuzzyMatchScoreBySegments(text, pat),
		"amountEnd": server.VerifFindAmountEnd(text), "dbl": server.VerifFindDoublespace(text)}}
}

func c16ScoredJSON(in []server.VerifScored) []any {
	out := []any{}
	for _, s := range in {
		out = append(out, map[string]any{"l": s.Label, "s": s.Score})
	}
	return out
}

func c16FilterCase(labels []string, q string, fuzzy bool) map[string]any {
	return map[string]any{"labels": labels, "q": q, "fuzzy": fuzzy, "impl": map[string]any{
		"fs":  c16ScoredJSON(server.VerifFilterAndScore(labels, q, fuzzy)),
		"pre": c16ScoredJSON(server.VerifFilterByPrefix(labels, q))}}
}

func c16RankCase(in []server.VerifScored, counts map[string]int, nilCounts bool) map[string]any {
	var cm map[string]int
	if !nilCounts {
		cm = counts
	}
	out := server.VerifRank(append([]server.VerifScored(nil), in...), cm, "q")
	return map[string]any{"scored": c16ScoredJSON(in), "counts": c16Counts(counts), "nil": nilCounts, "impl": c16StrList(out)}
}

// ------------------------------------------------------------------ generators

var (
	c16Tops = []string{"assets", "expenses", "Expenses", "income", "liabilities", "equity", "Активы", "Расходы",
		"расходы", "Ärzte", "İstanbul", "my bank", "𐐀𐐨x", "exp", "bank", "a", "ΣΑΣ"}
	c16Subs = []string{"cash", "bank", "food", "Food", "fun", "rent", "checking", "savings", "Наличные", "еда",
		"café", "a-b", "x_y", "it's", "R&D", "v1.2", "big box", "expenses", "exp", "b", "中文", "fo", "ca", "😀 fun"}
	c16Payees = []string{"Grocery Store", "ACME", "shop: food", "a:b", "7-Eleven", "$ store", "Кафе Пушкин",
		"café Émile", "Walmart", "walmart online", "Shell", "Rent", "rent office", "foo: expenses", "ÉCOLE", "100 things",
		"İkea", "中文 shop", "Σίγμα", "x", "acme corp"}
	c16RightCommodities = []string{"USD", "EUR", "usd", "Rub", "руб", "AAPL", "h", "€", "₽", "US", "Eu", "CHF", "РУБ"}
	c16LeftCommodities  = []string{"$", "€", "£", "USD", "\"AAPL 2\""}
	c16Tags             = []string{"cat", "Category", "project", "trip-2024", "t_1", "date", "client", "CAT", "c", "pro", "x-y"}
	c16TagValues        = []string{"food", "a b", "2024-01-05", "x", "10:30", "", "Клиент"}
	c16Numbers          = []string{"1", "10", "-5.50", "1,000.00", "+3", "0.5", "1.000,5", "12_000", "-7"}
	c16GarbageRunes     = []rune("zqZ9:-_ .()[]*!;@=|\t€ж中😀𐐀é\u00a0\u3000")
)

type c16Gen struct {
	c        *Ctx
	r        *rand.Rand
	accounts []string
	payees   []string
	rcomms   []string
	lcomms   []string
	tags     []string
}

func c16NewGen(c *Ctx) *c16Gen {
	r := c.R
	g := &c16Gen{c: c, r: r}
	seen := map[string]bool{}
	na := 3 + r.IntN(9)
	for len(g.accounts) < na {
		var a string
		if len(g.accounts) > 0 && r.IntN(3) == 0 {
			// extend an existing account (shared parents feed the by-prefix index)
			a = pick(r, g.accounts) + ":" + pick(r, c16Subs)
		} else {
			a = pick(r, c16Tops)
			for k := 1 + r.IntN(3); k > 0; k-- {
				a += ":" + pick(r, c16Subs)
			}
		}
		if r.IntN(5) == 0 && len(g.accounts) > 0 {
			// an existing account in another letter case (a distinct hledger account), as a
			// whole, in its first letter, or in one segment only: names that share a prefix
			// up to letter case
			b := pick(r, g.accounts)
			switch r.IntN(4) {
			case 0:
				a = strings.ToUpper(b[:1]) + b[1:]
			case 1:
				a = strings.ToLower(b)
			case 2:
				a = strings.ToUpper(b)
			default:
				segs := strings.Split(b, ":")
				k := r.IntN(len(segs))
				if segs[k] == strings.ToLower(segs[k]) {
					segs[k] = strings.ToUpper(segs[k])
				} else {
					segs[k] = strings.ToLower(segs[k])
				}
				a = strings.Join(segs, ":")
				if r.IntN(2) == 0 {
					a += ":" + pick(r, c16Subs)
				}
			}
		}
		if !seen[a] && c16FirstIsLetter(a) {
			seen[a] = true
			g.accounts = append(g.accounts, a)
		}
	}
	g.payees = c16Subset(r, c16Payees, 2+r.IntN(7))
	g.rcomms = c16Subset(r, c16RightCommodities, 1+r.IntN(5))
	g.lcomms = c16Subset(r, c16LeftCommodities, 1+r.IntN(2))
	g.tags = c16Subset(r, c16Tags, 1+r.IntN(6))
	return g
}

func c16FirstIsLetter(s string) bool {
	for _, c := range s {
		return unicode.IsLetter(c)
	}
	return false
}

func c16Subset(r *rand.Rand, pool []string, n int) []string {
	p := r.Perm(len(pool))
	if n > len(pool) {
		n = len(pool)
	}
	out := make([]string, n)
	for i := 0; i < n; i++ {
		out[i] = pool[p[i]]
	}
	return out
}

// skewed pick: early elements are used more often, so usage counts differ.
func c16Skew(r *rand.Rand, xs []string) string {
	i := r.IntN(len(xs))
	if j := r.IntN(len(xs)); j < i {
		i = j
	}
	if r.IntN(3) == 0 {
		i = 0
	}
	return xs[i]
}

func (g *c16Gen) date() string {
	r := g.r
	sep := pick(r, []string{"-", "-", "/", "."})
	if r.IntN(6) == 0 {
		return fmt.Sprintf("%d%s%d%s%d", 2020+r.IntN(6), sep, 1+r.IntN(12), sep, 1+r.IntN(28))
	}
	return fmt.Sprintf("%04d%s%02d%s%02d", 2020+r.IntN(6), sep, 1+r.IntN(12), sep, 1+r.IntN(28))
}

func (g *c16Gen) tagComment() string {
	r := g.r
	n := 1 + r.IntN(3)
	parts := []string{}
	for i := 0; i < n; i++ {
		parts = append(parts, c16Skew(r, g.tags)+":"+pick(r, []string{"", " "})+pick(r, c16TagValues))
	}
	s := strings.Join(parts, ", ")
	if r.IntN(4) == 0 {
		s = "note " + s
	}
	return s
}

func (g *c16Gen) amount() string {
	r := g.r
	n := pick(r, c16Numbers)
	switch r.IntN(6) {
	case 0:
		return n
	case 1:
		return pick(r, g.lcomms) + pick(r, []string{"", " "}) + n
	case 2:
		return n + c16Skew(r, g.rcomms)
	default:
		return n + " " + c16Skew(r, g.rcomms)
	}
}

func (g *c16Gen) gap() string {
	r := g.r
	switch r.IntN(8) {
	case 0:
		return "\t"
	case 1:
		return "  \t"
	default:
		return strings.Repeat(" ", 2+r.IntN(4))
	}
}

// indent: hledger accepts any indent of at least one blank or a tab.
func (g *c16Gen) indent() string {
	r := g.r
	switch r.IntN(8) {
	case 0:
		return "\t"
	case 1, 2, 3:
		return strings.Repeat(" ", 1+r.IntN(8))
	case 4:
		return pick(r, []string{" \t", "\t ", "  \t"})
	default:
		return "    "
	}
}

func (g *c16Gen) posting() string {
	r := g.r
	s := g.indent()
	if r.IntN(6) == 0 {
		s += pick(r, []string{"* ", "! "})
	}
	a := c16Skew(r, g.accounts)
	switch r.IntN(10) {
	case 0:
		a = "(" + a + ")"
	case 1:
		a = "[" + a + "]"
	}
	s += a
	if r.IntN(4) != 0 {
		s += g.gap() + g.amount()
		if r.IntN(8) == 0 {
			s += " @ " + g.amount()
		}
		if r.IntN(10) == 0 {
			s += " = " + g.amount()
		}
	}
	if r.IntN(6) == 0 {
		s += pick(r, []string{"  ; ", " ; ", "  ;"}) + g.tagComment()
	}
	return s
}

func (g *c16Gen) header() string {
	r := g.r
	s := g.date()
	if r.IntN(5) == 0 {
		s += " " + pick(r, []string{"*", "!"})
	}
	if r.IntN(8) == 0 {
		s += " (" + pick(r, []string{"123", "INV-7", "a b"}) + ")"
	}
	p := c16Skew(r, g.payees)
	if r.IntN(6) == 0 && !strings.Contains(p, "|") {
		p += pick(r, []string{" | ", "|", " |"}) + pick(r, []string{"note", "weekly shopping", "n:1"})
	}
	s += " " + p
	if r.IntN(5) == 0 {
		s += pick(r, []string{"  ; ", " ; ", " ;"}) + g.tagComment()
	}
	return s
}

func (g *c16Gen) transaction() []string {
	r := g.r
	lines := []string{g.header()}
	if r.IntN(6) == 0 {
		lines = append(lines, g.indent()+"; "+g.tagComment())
	}
	for k := 2 + r.IntN(3); k > 0; k-- {
		lines = append(lines, g.posting())
		if r.IntN(10) == 0 {
			lines = append(lines, g.indent()+"; "+g.tagComment())
		}
	}
	return lines
}

func (g *c16Gen) directives() []string {
	r := g.r
	var out []string
	for _, a := range g.accounts {
		if r.IntN(4) == 0 {
			l := "account " + a
			if r.IntN(4) == 0 {
				l += "  ; type:A"
			}
			out = append(out, l)
		}
	}
	for _, cm := range g.rcomms {
		if r.IntN(4) == 0 {
			out = append(out, pick(r, []string{"commodity " + cm, "commodity 1,000.00 " + cm}))
		}
	}
	if r.IntN(8) == 0 {
		out = append(out, "; top-level comment "+g.tagComment())
	}
	return out
}

// body prints a journal over the generator's names.
func (g *c16Gen) body(ntx int) []string {
	lines := g.directives()
	if len(lines) > 0 {
		lines = append(lines, "")
	}
	for i := 0; i < ntx; i++ {
		lines = append(lines, g.transaction()...)
		for k := g.r.IntN(3); k > 0; k-- {
			lines = append(lines, "")
		}
	}
	return lines
}

// fragment of a name: a prefix of every length in any case; sometimes a subsequence, a prefix
// followed by something else, or free text.
func (g *c16Gen) fragment(name string) string {
	r := g.r
	rs := []rune(name)
	var out []rune
	switch x := r.IntN(24); {
	case x >= 20 && strings.Contains(name, ":"):
		// ends in a colon: a parent with its colon, a single inner or last segment (or a prefix
		// of one) followed by a colon
		segs := strings.Split(name, ":")
		switch r.IntN(3) {
		case 0:
			k := 1 + r.IntN(len(segs)-1)
			out = []rune(strings.Join(segs[:k], ":") + ":")
		case 1:
			out = []rune(pick(r, segs) + ":")
		default:
			sg := []rune(pick(r, segs))
			out = append(sg[:r.IntN(len(sg)+1)], ':')
		}
	case x < 13 || x >= 20:
		out = rs[:r.IntN(len(rs)+1)]
	case x < 15:
		out = rs
	case x < 18:
		for _, c := range rs {
			if r.IntN(2) == 0 {
				out = append(out, c)
			}
		}
	case x < 19:
		out = append(append(out, rs[:r.IntN(len(rs)+1)]...), pick(r, c16GarbageRunes))
	default:
		for k := r.IntN(5); k > 0; k-- {
			out = append(out, pick(r, c16GarbageRunes))
		}
	}
	switch r.IntN(6) {
	case 0:
		return strings.ToLower(string(out))
	case 1:
		return strings.ToUpper(string(out))
	case 2:
		for i, c := range out {
			if r.IntN(2) == 0 {
				if unicode.IsUpper(c) {
					out[i] = unicode.ToLower(c)
				} else {
					out[i] = unicode.ToUpper(c)
				}
			}
		}
	}
	s := string(out)
	// ToUpper may leave the documented alphabet (ß -> SS is not rune-wise; ToUpper keeps ß)
	return s
}

// tail: what stands after the cursor's name on the focus line.
func (g *c16Gen) maybe(p int, s string) string {
	if g.r.IntN(p) == 0 {
		return s
	}
	return ""
}

type c16Focus struct {
	line  string
	spans []c16Span
	kind  string
}

// focusLine builds the line the user is typing on, with the ground-truth span of the name
// under construction.
func (g *c16Gen) focusLine() c16Focus {
	r := g.r
	switch x := r.IntN(100); {
	case x < 34: // posting, account fragment
		pre := g.indent()
		mark := ""
		switch r.IntN(12) {
		case 0, 1:
			mark = pick(r, []string{"* ", "! ", "*", "!  "})
		case 2:
			mark = "("
		case 3:
			mark = "["
		case 4:
			mark = pick(r, []string{"* ", "! "}) + pick(r, []string{"(", "["})
		}
		frag := g.fragment(c16Skew(r, g.accounts))
		line := pre + mark + frag
		s := utf16Len(pre + mark)
		sp := c16Span{K: "account", S: s, E: s + utf16Len(frag), M: s}
		// a fragment that itself starts with a mark, a bracket or a blank is not the start of a name
		if strings.ContainsAny(frag, ";\t") || strings.Contains(frag, "  ") ||
			(frag != "" && strings.ContainsRune(" *!([", rune(frag[0]))) {
			return c16Focus{line, nil, "posting.account.nospan"}
		}
		if r.IntN(4) == 0 {
			line += g.gap() + g.amount()
		}
		kind := "posting.account"
		if mark != "" {
			kind = "posting.account.mark"
		}
		return c16Focus{line, []c16Span{sp}, kind}
	case x < 54: // posting, commodity fragment after the amount
		acct := c16Skew(r, g.accounts)
		switch r.IntN(8) {
		case 0:
			acct = "(" + acct + ")"
		case 1:
			acct = "* " + acct
		}
		pre := g.indent() + acct + strings.Repeat(" ", 2+r.IntN(3)) + pick(r, c16Numbers) + pick(r, []string{" ", " ", "", "  "})
		frag := g.fragment(c16Skew(r, g.rcomms))
		line := pre + frag
		s := utf16Len(pre)
		sp := c16Span{K: "commodity", S: s, E: s + utf16Len(frag), M: s}
		if !strings.HasSuffix(pre, " ") {
			sp.M = s + 1
		}
		if strings.ContainsAny(frag, " \t;") || c16StartsNumeric(frag) {
			return c16Focus{line, nil, "posting.commodity.nospan"}
		}
		line += g.maybe(6, " ; "+g.tagComment())
		return c16Focus{line, []c16Span{sp}, "posting.commodity"}
	case x < 72: // header, payee fragment
		pre := g.date() + " "
		kind := "header.payee"
		switch r.IntN(10) {
		case 0, 1:
			pre += pick(r, []string{"* ", "! ", "*  ", "*"})
			kind = "header.payee.status"
		case 2:
			pre += "(" + pick(r, []string{"123", "a b", "", "INV-7*"}) + ")" + pick(r, []string{" ", " ", "", "  "})
			kind = "header.payee.code"
		case 3:
			pre += pick(r, []string{"* ", "! "}) + "(" + pick(r, []string{"123", "a b"}) + ") "
			kind = "header.payee.code"
		}
		frag := g.fragment(c16Skew(r, g.payees))
		if strings.HasPrefix(frag, " ") || strings.ContainsAny(frag, ";\t") || strings.HasPrefix(frag, "*") || strings.HasPrefix(frag, "!") || strings.HasPrefix(frag, "(") {
			return c16Focus{pre + frag, nil, "header.payee.nospan"}
		}
		s := utf16Len(pre)
		return c16Focus{pre + frag + g.maybe(8, "  ; "+g.tagComment()), []c16Span{{K: "payee", S: s, E: s + utf16Len(frag), M: s}}, kind}
	case x < 80: // account directive
		pre := pick(r, []string{"account ", "account ", "apply account "})
		frag := g.fragment(c16Skew(r, g.accounts))
		if strings.ContainsAny(frag, ";\t") || strings.HasPrefix(frag, " ") {
			return c16Focus{pre + frag, nil, "directive.account.nospan"}
		}
		s := utf16Len(pre)
		return c16Focus{pre + frag, []c16Span{{K: "account", S: s, E: s + utf16Len(frag), M: s}}, "directive.account"}
	case x < 86: // commodity directive
		pre := "commodity "
		frag := g.fragment(c16Skew(r, g.rcomms))
		if strings.ContainsAny(frag, ";\t") || strings.HasPrefix(frag, " ") {
			return c16Focus{pre + frag, nil, "directive.commodity.nospan"}
		}
		s := utf16Len(pre)
		return c16Focus{pre + frag, []c16Span{{K: "commodity", S: s, E: s + utf16Len(frag), M: s}}, "directive.commodity"}
	case x < 97: // tag name in a comment
		var pre string
		switch r.IntN(5) {
		case 0:
			pre = g.header() + "  ; "
		case 1:
			pre = g.indent() + c16Skew(r, g.accounts) + "  " + g.amount() + "  ; "
		case 2:
			pre = "; "
		default:
			pre = g.indent() + "; "
		}
		if i := strings.Index(pre, ";"); i != len(pre)-2 {
			// an earlier ';' (inside a generated comment): the comment starts there; keep it simple
			pre = g.indent() + "; "
		}
		if r.IntN(3) == 0 {
			pre += c16Skew(r, g.tags) + ":" + pick(r, []string{"v", "", " a b"}) + ", "
		}
		frag := g.fragment(c16Skew(r, g.tags))
		if strings.ContainsAny(frag, ":;, \t") {
			return c16Focus{pre + frag, nil, "comment.tag.nospan"}
		}
		s := utf16Len(pre)
		return c16Focus{pre + frag, []c16Span{{K: "tag", S: s, E: s + utf16Len(frag), M: s}}, "comment.tag"}
	default: // tag value
		pre := g.indent() + "; " + c16Skew(r, g.tags) + ":" + pick(r, []string{"", " "})
		return c16Focus{pre + g.fragment(pick(r, c16TagValues)), nil, "comment.tagvalue"}
	}
}

func c16StartsNumeric(s string) bool {
	if s == "" {
		return false
	}
	c := s[0]
	return (c >= '0' && c <= '9') || c == '-' || c == '+' || c == '.' || c == ',' || c == '_' || c == ')' || c == '@' || c == '=' || c == ';'
}

// spansOfBodyLine gives ground truth for complete lines the generator printed itself: the
// account of a posting without marks and a directive's account.
func c16SpansOfBodyLine(line string, g *c16Gen) []c16Span {
	for _, pre := range []string{"account ", "apply account "} {
		if strings.HasPrefix(line, pre) {
			rest := line[len(pre):]
			if i := strings.Index(rest, "  "); i >= 0 {
				rest = rest[:i]
			}
			for _, a := range g.accounts {
				if rest == a {
					s := utf16Len(pre)
					return []c16Span{{K: "account", S: s, E: s + utf16Len(a), M: s}}
				}
			}
		}
	}
	return nil
}

func (g *c16Gen) settings() (int, bool, bool) {
	r := g.r
	var max int
	switch x := r.IntN(20); {
	case x < 8:
		max = 1 + r.IntN(5)
	case x < 14:
		max = 1 + r.IntN(20)
	case x < 19:
		max = 1 + r.IntN(200)
	default:
		max = pick(r, []int{0, -1, -50, 201, 1000})
	}
	return max, r.IntN(3) != 0, r.IntN(2) == 0
}

// allPositions: every UTF-16 offset of the line and two past its end; trigger characters where a
// client would send them (the character before the cursor is ':' '@' '='), rarely elsewhere.
func (g *c16Gen) positions(line string) ([]int, []string) {
	r := g.r
	units := []rune{}
	for _, c := range strings.TrimSuffix(line, "\r") {
		if c >= 0x10000 {
			units = append(units, 0, 0)
		} else {
			units = append(units, c)
		}
	}
	var chs []int
	var trs []string
	for ch := 0; ch <= len(units)+2; ch++ {
		tr := ""
		if ch > 0 && ch <= len(units) {
			p := units[ch-1]
			if (p == ':' || p == '@' || p == '=') && r.IntN(2) == 0 {
				tr = string(p)
			}
		}
		if tr == "" && r.IntN(60) == 0 {
			tr = pick(r, []string{":", "@", "=", " "})
		}
		chs = append(chs, ch)
		trs = append(trs, tr)
	}
	return chs, trs
}

// docWithFocus assembles a document: body, then the focus line placed as the last line of a new
// entry (or among the directives), LF or CRLF.
func (g *c16Gen) docWithFocus(f c16Focus, ntx int) (string, int) {
	r := g.r
	lines := g.body(ntx)
	var ln int
	switch {
	case strings.HasPrefix(f.kind, "directive"), f.kind == "comment.tag" && strings.HasPrefix(f.line, ";"):
		lines = append([]string{f.line, ""}, lines...)
		ln = 0
	case strings.HasPrefix(f.kind, "header"):
		lines = append(lines, "", f.line)
		ln = len(lines) - 1
		if r.IntN(3) == 0 {
			lines = append(lines, g.posting())
		}
	default:
		if c16IsHeaderStart(f.line) {
			lines = append(lines, "", f.line)
			ln = len(lines) - 1
			break
		}
		lines = append(lines, "", g.header())
		if r.IntN(2) == 0 {
			lines = append(lines, g.posting())
		}
		lines = append(lines, f.line)
		ln = len(lines) - 1
		if r.IntN(4) == 0 {
			lines = append(lines, g.posting())
		}
	}
	nl := "\n"
	if r.IntN(8) == 0 {
		nl = "\r\n"
	}
	doc := strings.Join(lines, nl)
	if r.IntN(2) == 0 {
		doc += nl
	}
	return doc, ln
}

func c16IsHeaderStart(line string) bool {
	return line != "" && line[0] >= '0' && line[0] <= '9'
}

func (g *c16Gen) workspace(doc string) (map[string]string, string) {
	r := g.r
	files := map[string]string{}
	// the opened document is one file of the workspace; one or two more files carry further
	// names (so the table is larger than the document's own)
	other := c16NewGen(g.c)
	b1 := strings.Join(other.body(1+r.IntN(3)), "\n") + "\n"
	files["b.journal"] = b1
	inc := "include a.journal\ninclude b.journal\n"
	if r.IntN(2) == 0 {
		other2 := c16NewGen(g.c)
		files["c.journal"] = strings.Join(other2.body(1+r.IntN(2)), "\n") + "\n"
		inc += "include c.journal\n"
	}
	files["main.journal"] = inc
	// the file on disk may lag behind the editor's buffer
	if r.IntN(3) == 0 {
		files["a.journal"] = strings.Join(g.body(1), "\n") + "\n"
	} else {
		files["a.journal"] = doc
	}
	return files, "a.journal"
}

func genC16(c *Ctx) {
	r := c.R
	// --- per-function ops
	alphabet := "abcxyzABCXYZ019:-_ .éÉäÄñßΣσςжЖяЯёЁАаİi𐐀𐐨中文€₽£¥😀"
	c.Emit("c16.lower", map[string]any{"s": alphabet, "impl": strings.ToLower(alphabet)})
	for _, pool := range [][]string{c16Tops, c16Subs, c16Payees, c16RightCommodities, c16Tags, c16TagValues} {
		s := strings.Join(pool, "|")
		c.Emit("c16.lower", map[string]any{"s": s, "impl": strings.ToLower(s)})
		u := strings.ToUpper(s)
		c.Emit("c16.lower", map[string]any{"s": u, "impl": strings.ToLower(u)})
	}
	for n := -3; n <= 203; n++ {
		c.Emit("c16.max", map[string]any{"n": n, "impl": server.VerifNormalizeMaxResults(n)})
	}
	g0 := c16NewGen(c)
	for i := 0; i < c.N(1500, 30000); i++ {
		if i%50 == 0 {
			g0 = c16NewGen(c)
		}
		var text string
		switch r.IntN(4) {
		case 0:
			text = pick(r, g0.payees)
		case 1:
			text = pick(r, c16Numbers) + pick(r, []string{" ", ""}) + pick(r, g0.rcomms)
		case 2:
			text = pick(r, []string{"(", "", "$", "€ "}) + pick(r, c16Numbers) + pick(r, []string{")", " USD", "", ") x"})
		default:
			text = pick(r, g0.accounts)
		}
		var pat string
		switch r.IntN(4) {
		case 0:
			pat = g0.fragment(pick(r, g0.accounts))
		default:
			pat = g0.fragment(text)
		}
		if r.IntN(5) == 0 {
			pat += ":"
		}
		c.Emit("c16.score", c16ScoreCase(text, pat))
	}
	for i := 0; i < c.N(600, 10000); i++ {
		g := c16NewGen(c)
		labels := append([]string{}, g.accounts...)
		if r.IntN(3) == 0 {
			for _, p := range g.payees {
				dup := false
				for _, l := range labels {
					dup = dup || l == p
				}
				if !dup { // labels are unique in every list the server ranks
					labels = append(labels, p)
				}
			}
		}
		q := g.fragment(pick(r, labels))
		if r.IntN(5) == 0 {
			q += ":"
		}
		c.Emit("c16.filter", c16FilterCase(labels, q, r.IntN(2) == 0))
		// ranking: scores from a small set, counts from a small set, so ties are frequent
		var in []server.VerifScored
		counts := map[string]int{}
		for _, l := range labels {
			in = append(in, server.VerifScored{Label: l, Score: pick(r, []int{1000, 1000, 30, 45, 10})})
			if r.IntN(3) != 0 {
				counts[l] = r.IntN(4)
			}
		}
		c.Emit("c16.rank", c16RankCase(in, counts, r.IntN(6) == 0))
	}
	for i := 0; i < c.N(500, 10000); i++ {
		g := c16NewGen(c)
		var line string
		switch r.IntN(6) {
		case 0:
			line = g.posting()
		case 1:
			line = g.header()
		case 2:
			line = genLine(r, 20)
		default:
			line = g.focusLine().line
		}
		trs := []string{""}
		if r.IntN(4) == 0 {
			trs = append(trs, pick(r, []string{":", "@", "="}))
		}
		c.Count("range.lines")
		c.Emit("c16.range", c16RangeCase(line, trs))
	}
	// --- the real Completion request
	for i := 0; i < c.N(4000, 40000); i++ {
		g := c16NewGen(c)
		f := g.focusLine()
		doc, ln := g.docWithFocus(f, 1+r.IntN(5))
		cs := c16Case{Doc: doc, Ln: ln, Spans: f.spans}
		cs.Max, cs.Fuzzy, cs.Counts = g.settings()
		cs.Chs, cs.Trs = g.positions(f.line)
		mode := "single"
		if r.IntN(4) == 0 {
			cs.Files, cs.Open = g.workspace(doc)
			mode = "workspace"
		}
		c.Count("complete." + mode)
		c.Count("focus." + f.kind)
		if cs.Fuzzy {
			c.Count("fuzzy.on")
		} else {
			c.Count("fuzzy.off")
		}
		c.Emit("c16.complete", c16RunComplete(c, cs))
		if mode == "workspace" && r.IntN(2) == 0 {
			other := c16NewGen(c)
			c.Count("complete.session")
			for _, f := range c16RunSession(c, cs, "b.journal", strings.Join(other.body(1+r.IntN(3)), "\n")+"\n") {
				c.Emit("c16.complete", f)
			}
		}
		// every position of some other line of the same document (complete lines)
		if r.IntN(3) == 0 {
			lines := strings.Split(doc, "\n")
			ln2 := r.IntN(len(lines))
			if ln2 != ln {
				cs2 := cs
				cs2.Ln = ln2
				cs2.Spans = c16SpansOfBodyLine(strings.TrimSuffix(lines[ln2], "\r"), g)
				cs2.Chs, cs2.Trs = g.positions(lines[ln2])
				c.Count("complete.bodyline")
				c.Emit("c16.complete", c16RunComplete(c, cs2))
			}
		}
		// paired configurations: same document and position, max1 < max2
		if r.IntN(2) == 0 {
			cp := cs
			end := utf16Len(strings.TrimSuffix(f.line, "\r"))
			if len(f.spans) > 0 {
				end = f.spans[0].S + r.IntN(f.spans[0].E-f.spans[0].S+1)
			}
			cp.Chs, cp.Trs = []int{end}, []string{""}
			cp.Max = 1 + r.IntN(6)
			max2 := cp.Max + 1 + r.IntN(10)
			if r.IntN(4) == 0 {
				max2 = 1 + cp.Max + r.IntN(200-cp.Max)
			}
			c.Count("pair." + mode)
			c.Emit("c16.pair", c16RunPair(c, cp, max2))
		}
	}
}
