package main

import (
	"context"
	"encoding/json"
	"fmt"
	"sort"
	"strings"

	segjson "github.com/segmentio/encoding/json"
	"go.lsp.dev/protocol"

	"github.com/juev/hledger-lsp/internal/lsputil"
	"github.com/juev/hledger-lsp/internal/server"
)

func init() {
	register("C01", genC01)
	replayers["c01.hist"] = func(c *Ctx, m map[string]any) map[string]any {
		notes, _ := m["notes"].([]any)
		if wire, _ := m["wire"].(bool); wire {
			w, err := startWire()
			if err != nil {
				panic("wire mode: " + err.Error())
			}
			defer w.close()
			impl, err := runHistWire(w, notes, "replay")
			if err != nil {
				panic("wire mode: " + err.Error())
			}
			return map[string]any{"notes": notes, "impl": impl, "wire": true}
		}
		return map[string]any{"notes": notes, "impl": runHistImpl(notes)}
	}
	replayers["c01.apply"] = func(c *Ctx, m map[string]any) map[string]any {
		s, _ := m["s"].(string)
		t, _ := m["t"].(string)
		r := toIntSlice(m["r"])
		return map[string]any{"s": s, "r": r, "t": t, "impl": implApply(s, r, t)}
	}
	replayers["c01.u16"] = func(c *Ctx, m map[string]any) map[string]any {
		s, _ := m["s"].(string)
		n := int(m["n"].(float64))
		return u16Case(s, n)
	}
}

func toIntSlice(v any) []int {
	a, _ := v.([]any)
	out := make([]int, len(a))
	for i, x := range a {
		f, _ := x.(float64)
		out[i] = int(f)
	}
	return out
}

func implApply(s string, r []int, t string) string {
	m := lsputil.NewPositionMapper(s)
	return m.ApplyChange(protocol.Range{
		Start: protocol.Position{Line: uint32(r[0]), Character: uint32(r[1])},
		End:   protocol.Position{Line: uint32(r[2]), Character: uint32(r[3])},
	}, t)
}

func u16Case(s string, n int) map[string]any {
	return map[string]any{"s": s, "n": n, "impl": map[string]any{
		"utf16ToByte": lsputil.UTF16OffsetToByteOffset(s, n),
		"byteToUtf16": lsputil.ByteOffsetToUTF16(s, n),
		"u16len":      lsputil.UTF16Len(s),
	}}
}

// noteVersion is the document version a conforming client sends with a note: the generator
// records it in "v" (per-session numbering that restarts at 1 on every didOpen, as editors do; a
// counter shared by all documents; or a constant 0 from clients that do not version); notes of
// older replay files carry none and get the per-session numbering.
func noteVersion(m map[string]any, ver map[string]int, u string) int {
	if v, ok := m["v"]; ok && v != nil {
		return toInt(v)
	}
	if m["k"] == "open" {
		ver[u] = 1
	} else {
		ver[u]++
	}
	return ver[u]
}

// runHistImpl feeds a history to a fresh real Server in-process.  Every didChange is decoded
// from JSON the way cmd/hledger-lsp/main.go's didChangeHandler does (optional range), so that
// "range absent" and "zero range" meet the server as they do on the wire; op c01.wire runs
// the same histories against the built binary.
func runHistImpl(notes []any) []any {
	srv := server.NewServer()
	ctx := context.Background()
	uris := map[string]bool{}
	vers := map[string]int{}
	var out []any
	for _, n := range notes {
		m := n.(map[string]any)
		u, _ := m["u"].(string)
		uris[u] = true
		switch m["k"] {
		case "open":
			t, _ := m["t"].(string)
			_ = srv.DidOpen(ctx, &protocol.DidOpenTextDocumentParams{
				TextDocument: protocol.TextDocumentItem{URI: protocol.DocumentURI(u), Text: t, Version: int32(noteVersion(m, vers, u))}})
		case "change":
			var changes []map[string]any
			cs, _ := m["cs"].([]any)
			for _, c := range cs {
				cm := c.(map[string]any)
				ch := map[string]any{"text": cm["t"]}
				if rr, ok := cm["r"]; ok && rr != nil {
					r := toIntSlice(rr)
					ch["range"] = map[string]any{
						"start": map[string]any{"line": r[0], "character": r[1]},
						"end":   map[string]any{"line": r[2], "character": r[3]},
					}
				}
				changes = append(changes, ch)
			}
			raw, err := marshal(map[string]any{
				"textDocument":   map[string]any{"uri": u, "version": noteVersion(m, vers, u)},
				"contentChanges": changes,
			})
			if err != nil {
				panic(err)
			}
			// what cmd/hledger-lsp/main.go's didChangeHandler does with the notification
			var params server.DidChangeRawParams
			if err := json.Unmarshal(raw, &params); err != nil {
				panic(fmt.Sprintf("decode didChange: %v", err))
			}
			_ = srv.DidChangeRaw(ctx, &params)
		case "close":
			_ = srv.DidClose(ctx, &protocol.DidCloseTextDocumentParams{
				TextDocument: protocol.TextDocumentIdentifier{URI: protocol.DocumentURI(u)}})
		}
		var docs []map[string]any
		var us []string
		for k := range uris {
			us = append(us, k)
		}
		sort.Strings(us)
		for _, k := range us {
			if t, ok := srv.GetDocument(protocol.DocumentURI(k)); ok {
				docs = append(docs, map[string]any{"u": k, "t": t})
			}
		}
		if docs == nil {
			docs = []map[string]any{}
		}
		out = append(out, docs)
	}
	return out
}

// runHistWire sends the history to the built binary over stdio and reads the mirrored text
// of every URI after every notification with the verif/getDocument hook.
func runHistWire(w *wireClient, notes []any, prefix string) ([]any, error) {
	vers := map[string]int{}
	uris := map[string]bool{}
	var out []any
	for _, n := range notes {
		m := n.(map[string]any)
		u0, _ := m["u"].(string)
		u := wireURI(u0, prefix)
		uris[u0] = true
		switch m["k"] {
		case "open":
			w.notify("textDocument/didOpen", map[string]any{"textDocument": map[string]any{"uri": u, "languageId": "hledger", "version": noteVersion(m, vers, u0), "text": m["t"]}})
		case "change":
			var changes []map[string]any
			cs, _ := m["cs"].([]any)
			for _, c := range cs {
				cm := c.(map[string]any)
				ch := map[string]any{"text": cm["t"]}
				if rr, ok := cm["r"]; ok && rr != nil {
					r := toIntSlice(rr)
					ch["range"] = map[string]any{"start": map[string]any{"line": r[0], "character": r[1]}, "end": map[string]any{"line": r[2], "character": r[3]}}
				}
				changes = append(changes, ch)
			}
			w.notify("textDocument/didChange", map[string]any{"textDocument": map[string]any{"uri": u, "version": noteVersion(m, vers, u0)}, "contentChanges": changes})
		case "close":
			w.notify("textDocument/didClose", map[string]any{"textDocument": map[string]any{"uri": u}})
		}
		var us []string
		for k := range uris {
			us = append(us, k)
		}
		sort.Strings(us)
		docs := []map[string]any{}
		for _, k := range us {
			res, err := w.request("verif/getDocument", map[string]any{"uri": wireURI(k, prefix)})
			if err != nil {
				return nil, err
			}
			rm, _ := res.(map[string]any)
			if open, _ := rm["open"].(bool); open {
				docs = append(docs, map[string]any{"u": k, "t": rm["text"]})
			}
		}
		out = append(out, docs)
	}
	return out, nil
}

// wireURI makes the URIs of one history unique inside the long-lived wire-mode server.
func wireURI(u, prefix string) string {
	u = strings.Replace(u, "file:///w/", "file:///w/"+prefix+"/", 1)
	return strings.Replace(u, "untitled:w/", "untitled:w/"+prefix+"/", 1)
}

func genChangeFor(c *Ctx, doc string, conforming bool) (map[string]any, string) {
	r := c.R
	if r.IntN(6) == 0 {
		t := genDoc(r, 4, 12)
		c.Count("change.full")
		return map[string]any{"t": t}, t
	}
	sl, sc := genPos(r, doc, conforming)
	el, ec := sl, sc
	switch r.IntN(4) {
	case 0: // empty range
	default:
		el, ec = genPos(r, doc, conforming)
	}
	if conforming && (el < sl || (el == sl && ec < sc)) {
		sl, sc, el, ec = el, ec, sl, sc
	}
	t := genInsert(r)
	if sl == 0 && sc == 0 && el == 0 && ec == 0 {
		c.Count("change.origin")
	} else {
		c.Count("change.ranged")
	}
	rr := []int{sl, sc, el, ec}
	return map[string]any{"r": rr, "t": t}, implApply(doc, rr, t)
}

func genC01(c *Ctx) {
	r := c.R
	// per-function ops
	for i := 0; i < c.N(1500, 40000); i++ {
		s := genLine(r, 14)
		n := r.IntN(utf16Len(s) + 3)
		if r.IntN(10) == 0 {
			n = r.IntN(len(s) + 3)
		}
		c.Emit("c01.u16", u16Case(s, n))
	}
	for i := 0; i < c.N(2500, 60000); i++ {
		doc := genDoc(r, c.N(5, 12), c.N(10, 30))
		conforming := r.IntN(4) != 0
		ch, _ := genChangeFor(c, doc, conforming)
		if ch["r"] == nil {
			continue
		}
		rr := ch["r"].([]int)
		t := ch["t"].(string)
		c.Emit("c01.apply", map[string]any{"s": doc, "r": rr, "t": t, "impl": implApply(doc, rr, t)})
	}
	// histories
	var wireHists [][]any
	uris := []string{"file:///w/a.journal", "untitled:w/Untitled-1", "file:///w/c.journal"}
	for i := 0; i < c.N(1200, 40000); i++ {
		nu := 1 + r.IntN(3)
		cur := map[string]string{}
		open := map[string]bool{}
		var notes []any
		hl := 1 + r.IntN(c.N(12, 60))
		conformingHist := r.IntN(5) != 0
		// document versions as clients number them: 0 per open session (restart at 1 on every
		// didOpen), 1 one counter for all documents, 2 always 0, 3 session numbering that starts
		// at an arbitrary value
		vstyle := r.IntN(4)
		c.Count(fmt.Sprintf("versions.style%d", vstyle))
		sess := map[string]int{}
		global := 0
		nextVer := func(u string, opening bool) int {
			switch vstyle {
			case 1:
				global++
				return global
			case 2:
				return 0
			case 3:
				if opening {
					sess[u] = r.IntN(50)
				} else {
					sess[u]++
				}
				return sess[u]
			}
			if opening {
				sess[u] = 1
			} else {
				sess[u]++
			}
			return sess[u]
		}
		for j := 0; j < hl; j++ {
			u := uris[r.IntN(nu)]
			switch x := r.IntN(10); {
			case !open[u] && x < 8, x == 0:
				t := genDoc(r, c.N(6, 20), c.N(12, 40))
				notes = append(notes, map[string]any{"k": "open", "u": u, "t": t, "v": nextVer(u, true)})
				cur[u], open[u] = t, true
				c.Count("note.open")
			case x == 1:
				notes = append(notes, map[string]any{"k": "close", "u": u})
				delete(cur, u)
				open[u] = false
				c.Count("note.close")
			default:
				k := 1 + r.IntN(4)
				if r.IntN(3) != 0 {
					k = 1
				}
				var cs []any
				doc := cur[u]
				for q := 0; q < k; q++ {
					ch, nd := genChangeFor(c, doc, conformingHist)
					cs = append(cs, ch)
					doc = nd
				}
				if open[u] {
					cur[u] = doc
				}
				notes = append(notes, map[string]any{"k": "change", "u": u, "cs": cs, "v": nextVer(u, false)})
				c.Count("note.change")
			}
		}
		// normalise through JSON so that replay sees the same shapes
		raw, _ := marshal(notes)
		var norm []any
		_ = segjson.Unmarshal(raw, &norm)
		c.Emit("c01.hist", map[string]any{"notes": norm, "impl": runHistImpl(norm)})
		if i%c.N(8, 8) == 0 {
			wireHists = append(wireHists, norm)
		}
	}
	genC01Fresh(c)
	// the same histories against the built binary
	w, err := startWire()
	if err != nil {
		panic("wire mode: " + err.Error())
	}
	defer w.close()
	for i, h := range wireHists {
		impl, err := runHistWire(w, h, fmt.Sprintf("h%d", i))
		if err != nil {
			panic("wire mode: " + err.Error())
		}
		c.Count("wire.hist")
		c.Emit("c01.hist", map[string]any{"notes": h, "impl": impl, "wire": true})
	}
}

// ---- c01.fresh: the answers of inline completion follow the current text (second sentence of C01)

func init() {
	replayers["c01.fresh"] = func(c *Ctx, m map[string]any) map[string]any {
		evs, _ := m["events"].([]any)
		return map[string]any{"events": evs, "impl": runFreshImpl(evs)}
	}
}

// freshText: version v of a document; every version gives the payee "Shop" a different
// posting template, and ends with a header line followed by an empty line where inline
// completion is requested.
func freshText(v int) string {
	return fmt.Sprintf("2024-01-01 Shop\n    expenses:v%d  %d USD\n    assets:cash\n\n2024-02-01 Shop\n\n", v, v+1)
}

func inlineAnswer(srv *server.Server, uri string) string {
	raw, _ := json.Marshal(map[string]any{"textDocument": map[string]any{"uri": uri}, "position": map[string]any{"line": 5, "character": 0}})
	res, err := srv.InlineCompletion(context.Background(), raw)
	if err != nil || res == nil {
		return "none"
	}
	b, _ := json.Marshal(res)
	return string(b)
}

// runFreshImpl replays change / save / close / inline events on one real server.  For every
// inline request it reports which VERSION of the document the answer corresponds to (the
// version whose text, opened on a fresh server, yields the same answer; -1 when the document
// is closed or nothing matches).
func runFreshImpl(evs []any) []any {
	srv := server.NewServer()
	ctx := context.Background()
	out := []any{}
	seen := map[string][]int{} // versions a document went through
	for _, e := range evs {
		m := e.(map[string]any)
		// document 0 is a file, document 1 an unsaved buffer (no path: the server takes other
		// branches for it, e.g. no diagnostics task)
		u := fmt.Sprintf("file:///hlverif-fresh/d%d.journal", toInt(m["u"]))
		if toInt(m["u"])%2 == 1 {
			u = fmt.Sprintf("untitled:Untitled-%d", toInt(m["u"]))
		}
		switch m["k"] {
		case "change":
			v := toInt(m["v"])
			if len(seen[u]) == 0 || !toBool(m["open"]) {
				_ = srv.DidOpen(ctx, &protocol.DidOpenTextDocumentParams{TextDocument: protocol.TextDocumentItem{URI: protocol.DocumentURI(u), Text: freshText(v)}})
			} else {
				_ = srv.DidChangeRaw(ctx, &server.DidChangeRawParams{
					TextDocument:   protocol.VersionedTextDocumentIdentifier{TextDocumentIdentifier: protocol.TextDocumentIdentifier{URI: protocol.DocumentURI(u)}},
					ContentChanges: []server.ContentChange{{Text: freshText(v)}}})
			}
			seen[u] = append(seen[u], v)
		case "save":
			_ = srv.DidSave(ctx, &protocol.DidSaveTextDocumentParams{TextDocument: protocol.TextDocumentIdentifier{URI: protocol.DocumentURI(u)}})
		case "close":
			_ = srv.DidClose(ctx, &protocol.DidCloseTextDocumentParams{TextDocument: protocol.TextDocumentIdentifier{URI: protocol.DocumentURI(u)}})
		case "inline":
			ans := inlineAnswer(srv, u)
			got := -1
			if _, open := srv.GetDocument(protocol.DocumentURI(u)); open {
				for _, v := range seen[u] {
					fresh := server.NewServer()
					_ = fresh.DidOpen(ctx, &protocol.DidOpenTextDocumentParams{TextDocument: protocol.TextDocumentItem{URI: protocol.DocumentURI(u), Text: freshText(v)}})
					if inlineAnswer(fresh, u) == ans {
						got = v
					}
				}
			}
			out = append(out, got)
		}
	}
	return out
}

func toBool(v any) bool { b, _ := v.(bool); return b }

func genC01Fresh(c *Ctx) {
	r := c.R
	for i := 0; i < c.N(300, 6000); i++ {
		var evs []any
		open := map[int]bool{}
		ver := 0
		n := 2 + r.IntN(c.N(10, 30))
		for j := 0; j < n; j++ {
			u := r.IntN(2)
			switch x := r.IntN(10); {
			case !open[u] || x < 3:
				ver++
				evs = append(evs, map[string]any{"k": "change", "u": u, "v": ver, "open": open[u]})
				open[u] = true
			case x < 4:
				evs = append(evs, map[string]any{"k": "save", "u": u})
			case x < 5:
				evs = append(evs, map[string]any{"k": "close", "u": u})
				open[u] = false
			default:
				evs = append(evs, map[string]any{"k": "inline", "u": u})
			}
		}
		raw, _ := marshal(evs)
		var norm []any
		_ = segjson.Unmarshal(raw, &norm)
		c.Count("fresh.hist")
		c.Emit("c01.fresh", map[string]any{"events": norm, "impl": runFreshImpl(norm)})
	}
}
