package main

// C13: published diagnostics converge to the latest content under any timing.
//
// The REAL server.Server is driven in-process.  The schedule of the background tasks is imposed
// with two instruments:
//   - the verif-tagged yield point at the top of Server.publishIfCurrent
//     (repo_patches/hook-server-yield.diff): every task stops there, after its analysis and
//     before it takes publishMu, until the harness lets it go; the hook also tells the harness
//     when the task has returned (needed because a task that fails the version check is silent);
//   - a client stub whose PublishDiagnostics blocks until released, so that notifications can be
//     delivered while a task sits between its version check and its publish.
//
// One line per schedule: op "c13.sched".  Events ("ev"):
//   ["open",u,t] ["change",u,t] ["close",u]   notifications (t = text id, see "texts")
//   ["go",v]     let task v run to completion (lock, check, publish if current, unlock)
//   ["run",v]    let task v run until it is inside client.PublishDiagnostics ("pub") or has
//                returned ("skip"); if another task is inside the client call at that moment the
//                outcome may be "blocked" (nothing seen of v within 10 ms: it waits for publishMu)
//   ["rel",v]    let the withheld PublishDiagnostics call of task v return ("ok"; "ok+pub" /
//                "ok+skip" when a blocked task thereby got the mutex and went on)
// impl = {"out": per-event outcome, "log": per URI the notifications the client received
// ([version, key of the diagnostics]), "left": tasks still in flight at the end}.
// "expect" holds, for every (u,t) of the case, the key of the diagnostics that a FRESH real server
// publishes when it is given only that text: the model's `diag`, and the oracle's yardstick.

import (
	"context"
	"fmt"
	"hash/fnv"
	"sort"
	"strings"
	"sync"
	"time"

	"go.lsp.dev/protocol"

	"github.com/juev/hledger-lsp/internal/server"
)

func init() {
	register("C13", genC13)
	replayers["c13.sched"] = func(c *Ctx, m map[string]any) map[string]any {
		return c13Replay(m)
	}
	server.VerifYieldHook = c13Hook
}

// ---------------------------------------------------------------- texts

var c13Pool = func() []string {
	p := []string{
		"",
		"2024-01-01 ok\n    assets:cash  10 EUR\n    income:job  -10 EUR\n",
		"2024-01-01 ok\n    assets:cash  10 EUR\n    income:job  -10 EUR\n; trailing comment\n", // other text, same (no) diagnostics
		"include missing-file.journal\n\n2024-01-02 x\n    a  1 USD\n    b\n",
		"2024-01-01 two problems\n    assets:cash  1 EUR\n    income:job  -3 EUR\n\n2024-01-02 second\n    a  5 USD\n    b  5 USD\n",
		"account assets:cash\n2024-01-01 !\n  assets:cash  1\n  assets:cash  \n  assets:cash  \n",
		"2024-01-01 x\n    a  1 EUR\n  = what\n",
		"not a journal line at all\n",
	}
	// unbalanced transactions whose message differs by the amount, at different lines
	for i := 2; i <= 7; i++ {
		p = append(p, strings.Repeat("; pad\n", i%3)+fmt.Sprintf("2024-01-0%d off\n    assets:cash  %d EUR\n    income:job  -1 EUR\n", i, i))
	}
	return p
}()

func c13URI(u int) protocol.DocumentURI {
	return protocol.DocumentURI(fmt.Sprintf("file:///c13/doc%d.journal", u))
}

func c13Key(ds []protocol.Diagnostic) string {
	lines := make([]string, 0, len(ds))
	for _, d := range ds {
		lines = append(lines, fmt.Sprintf("%d:%d-%d:%d|%v|%v|%s|%s", d.Range.Start.Line, d.Range.Start.Character,
			d.Range.End.Line, d.Range.End.Character, d.Severity, d.Code, d.Source, d.Message))
	}
	sort.Strings(lines)
	h := fnv.New32a()
	h.Write([]byte(strings.Join(lines, "\n")))
	return fmt.Sprintf("%d:%08x", len(ds), h.Sum32())
}

// ---------------------------------------------------------------- hook and client stub

type c13CtxKey struct{}

type c13Task struct {
	uri     protocol.DocumentURI
	version int // as reported by the server through the hook
	id      int // ordinal of the task in spawn order: the name used in events (= version, if the server numbers as the model does)
	arrived chan int      // hook: the task has reached the yield point (value: its version)
	gate    chan struct{} // closed by the harness: proceed to publishMu.Lock
	inPub   chan string   // stub: the task is inside PublishDiagnostics (value: key)
	pubGate chan struct{} // closed by the harness: PublishDiagnostics may return
	done    chan struct{} // hook: the task has released publishMu and returns
	run     *c13Run
}

func c13Hook(ctx context.Context, uri protocol.DocumentURI, version uint64) func() {
	t, _ := ctx.Value(c13CtxKey{}).(*c13Task)
	if t == nil {
		return nil
	}
	t.arrived <- int(version)
	<-t.gate
	return func() { close(t.done) }
}

type c13Client struct {
	protocol.Client // nil: any other call would panic, and none is made on this path
}

func (c13Client) LogMessage(context.Context, *protocol.LogMessageParams) error   { return nil }
func (c13Client) ShowMessage(context.Context, *protocol.ShowMessageParams) error { return nil }

func (c13Client) PublishDiagnostics(ctx context.Context, p *protocol.PublishDiagnosticsParams) error {
	t, _ := ctx.Value(c13CtxKey{}).(*c13Task)
	if t == nil {
		return nil
	}
	key := c13Key(p.Diagnostics)
	t.inPub <- key
	<-t.pubGate
	r := t.run
	r.mu.Lock()
	r.log[p.URI] = append(r.log[p.URI], []any{t.version, key})
	r.mu.Unlock()
	return nil
}

// ---------------------------------------------------------------- one schedule

const c13Timeout = 5 * time.Second

// c13Timeouts counts the waits that ended in a time-out (an expected task or publish that never
// came).  Each costs c13Timeout of wall time; after a few of them the rest of the generated
// schedules would only repeat the finding for hours, so the generator stops (the schedules
// already emitted carry the "timeout" outcomes, which the model never predicts).
var c13Timeouts int

const c13MaxTimeouts = 3

func c13GiveUp() bool { return c13Timeouts >= c13MaxTimeouts }

type c13Run struct {
	srv      *server.Server
	tasks    map[int]*c13Task
	nspawn   int
	pending  []int // arrived at the yield point, not yet let go (ascending)
	held     []int // tasks inside PublishDiagnostics (at most one if publishMu does its job)
	blocked  int   // task let go while another was inside the client call and not seen since; 0 = none
	mu       sync.Mutex
	log      map[protocol.DocumentURI][]any
	ev       []any
	out      []any
	uris     map[int]bool
	texts    map[int]bool
	pairs    map[[2]int]bool
	dead     bool // a timeout happened; nothing more is executed
}

func newC13Run() *c13Run {
	r := &c13Run{srv: server.NewServer(), tasks: map[int]*c13Task{}, log: map[protocol.DocumentURI][]any{},
		uris: map[int]bool{}, texts: map[int]bool{}, pairs: map[[2]int]bool{}}
	r.srv.SetClient(c13Client{})
	return r
}

func (r *c13Run) record(ev []any, out any) {
	r.ev = append(r.ev, ev)
	r.out = append(r.out, out)
}

func (r *c13Run) notify(kind string, u, t int) {
	r.uris[u] = true
	if r.dead {
		r.record([]any{kind, u, t}, "dead")
		return
	}
	r.texts[t] = true
	task := &c13Task{uri: c13URI(u), arrived: make(chan int, 1), gate: make(chan struct{}), inPub: make(chan string, 1),
		pubGate: make(chan struct{}), done: make(chan struct{}), run: r}
	ctx := context.WithValue(context.Background(), c13CtxKey{}, task)
	expectTask := true
	if kind == "open" {
		r.pairs[[2]int{u, t}] = true
		if !r.call(func() {
			_ = r.srv.DidOpen(ctx, &protocol.DidOpenTextDocumentParams{
				TextDocument: protocol.TextDocumentItem{URI: c13URI(u), Text: c13Pool[t], Version: 1}})
		}) {
			r.record([]any{kind, u, t}, "timeout")
			return
		}
	} else {
		_, expectTask = r.srv.GetDocument(c13URI(u))
		if expectTask {
			r.pairs[[2]int{u, t}] = true
		}
		// a range-less change: the whole new content (C01 is about ranged edits)
		if !r.call(func() {
			_ = r.srv.DidChange(ctx, &protocol.DidChangeTextDocumentParams{
				TextDocument:   protocol.VersionedTextDocumentIdentifier{TextDocumentIdentifier: protocol.TextDocumentIdentifier{URI: c13URI(u)}},
				ContentChanges: []protocol.TextDocumentContentChangeEvent{{Text: c13Pool[t]}}})
		}) {
			r.record([]any{kind, u, t}, "timeout")
			return
		}
	}
	if !expectTask {
		select {
		case v := <-task.arrived: // a task although the document is not open: report it
			r.adopt(task, v)
			r.record([]any{kind, u, t}, v)
		case <-time.After(2 * time.Millisecond):
			r.record([]any{kind, u, t}, 0)
		}
		return
	}
	select {
	case v := <-task.arrived:
		r.adopt(task, v)
		r.record([]any{kind, u, t}, v)
	case <-time.After(c13Timeout):
		r.dead = true
		c13Timeouts++
		r.record([]any{kind, u, t}, "timeout")
	}
}

// call runs one notification handler of the real server.  The handlers are synchronous; a
// handler that waits for something a withheld client call holds (a lock) would block the
// harness for ever, so it is given c13Timeout and then reported as "timeout" (the model's
// handlers never block).  The blocked call is left to finish when the run is drained.
func (r *c13Run) call(f func()) bool {
	done := make(chan struct{})
	go func() { defer close(done); f() }()
	select {
	case <-done:
		return true
	case <-time.After(c13Timeout):
		r.dead = true
		c13Timeouts++
		return false
	}
}

func (r *c13Run) adopt(task *c13Task, version int) {
	r.nspawn++
	task.id = r.nspawn
	task.version = version
	r.tasks[task.id] = task
	r.pending = append(r.pending, task.id)
}

func (r *c13Run) open(u, t int)   { r.notify("open", u, t) }
func (r *c13Run) change(u, t int) { r.notify("change", u, t) }

func (r *c13Run) close(u int) {
	r.uris[u] = true
	if r.dead {
		r.record([]any{"close", u}, "dead")
		return
	}
	if !r.call(func() {
		_ = r.srv.DidClose(context.Background(), &protocol.DidCloseTextDocumentParams{
			TextDocument: protocol.TextDocumentIdentifier{URI: c13URI(u)}})
	}) {
		r.record([]any{"close", u}, "timeout")
		return
	}
	r.record([]any{"close", u}, 0)
}

func (r *c13Run) unpend(v int) {
	for i, x := range r.pending {
		if x == v {
			r.pending = append(r.pending[:i:i], r.pending[i+1:]...)
			return
		}
	}
}

const c13Probe = 10 * time.Millisecond

// await waits for task t to enter PublishDiagnostics ("pub") or to return ("skip").  While
// another task is inside the client call the wait is short and may end with "blocked": in the
// repaired server the task then sits in publishMu.Lock() and nothing can be seen of it.
func (r *c13Run) await(t *c13Task) string {
	d := c13Timeout
	if len(r.held) > 0 {
		d = c13Probe
	}
	select {
	case <-t.inPub:
		r.held = append(r.held, t.id)
		return "pub"
	case <-t.done:
		return "skip"
	case <-time.After(d):
		if len(r.held) > 0 {
			return "blocked"
		}
		r.dead = true
		c13Timeouts++
		return "timeout"
	}
}

// start lets task v go; returns "pub" (now inside PublishDiagnostics), "skip" (returned without
// publishing), "blocked", "timeout", or "notask".
func (r *c13Run) start(v int) string {
	t := r.tasks[v]
	if r.dead {
		return "dead"
	}
	if t == nil || !c13Contains(r.pending, v) || r.blocked != 0 {
		return "notask"
	}
	r.unpend(v)
	close(t.gate)
	o := r.await(t)
	if o == "blocked" {
		r.blocked = v
	}
	return o
}

func (r *c13Run) finish(v int) string {
	t := r.tasks[v]
	if r.dead {
		return "dead"
	}
	if t == nil || !c13Contains(r.held, v) {
		return "notheld"
	}
	close(t.pubGate)
	select {
	case <-t.done:
	case <-time.After(c13Timeout):
		r.dead = true
		c13Timeouts++
		return "timeout"
	}
	for i, x := range r.held {
		if x == v {
			r.held = append(r.held[:i:i], r.held[i+1:]...)
			break
		}
	}
	if r.blocked != 0 {
		// the mutex is free again: the task that was waiting for it goes on
		o := r.await(r.tasks[r.blocked])
		if o != "blocked" {
			r.blocked = 0
		}
		return "ok+" + o
	}
	return "ok"
}

func (r *c13Run) run(v int) string {
	o := r.start(v)
	r.record([]any{"run", v}, o)
	return o
}

func (r *c13Run) rel(v int) {
	r.record([]any{"rel", v}, r.finish(v))
}

func (r *c13Run) goTask(v int) {
	o := r.start(v)
	if o == "pub" {
		if f := r.finish(v); f != "ok" {
			o = f
		}
	}
	r.record([]any{"go", v}, o)
}

func c13Contains(xs []int, v int) bool {
	for _, x := range xs {
		if x == v {
			return true
		}
	}
	return false
}

// drain lets everything still blocked run to the end (not recorded; only after the verdict data
// has been taken, so that no goroutine outlives the case).
func (r *c13Run) drain() {
	for _, t := range r.tasks {
		select {
		case <-t.gate:
		default:
			close(t.gate)
		}
		select {
		case <-t.pubGate:
		default:
			close(t.pubGate)
		}
	}
}

func (r *c13Run) fields() map[string]any {
	left := len(r.pending) + len(r.held)
	if r.blocked != 0 {
		left++
	}
	r.mu.Lock()
	var us []int
	for u := range r.uris {
		us = append(us, u)
	}
	sort.Ints(us)
	logs := []any{}
	for _, u := range us {
		l := r.log[c13URI(u)]
		if l == nil {
			l = []any{}
		}
		logs = append(logs, []any{u, append([]any{}, l...)})
	}
	r.mu.Unlock()
	var ps [][2]int
	for p := range r.pairs {
		ps = append(ps, p)
	}
	sort.Slice(ps, func(i, j int) bool { return ps[i][0] < ps[j][0] || ps[i][0] == ps[j][0] && ps[i][1] < ps[j][1] })
	expect := []any{}
	for _, p := range ps {
		expect = append(expect, []any{p[0], p[1], c13Expect(p[0], p[1])})
	}
	var ts []int
	for t := range r.texts {
		ts = append(ts, t)
	}
	sort.Ints(ts)
	texts := []any{}
	for _, t := range ts {
		texts = append(texts, []any{t, c13Pool[t]})
	}
	ev := r.ev
	if ev == nil {
		ev = []any{}
	}
	f := map[string]any{"ev": ev, "texts": texts, "expect": expect,
		"impl": map[string]any{"out": r.out, "log": logs, "left": left}}
	r.drain()
	return f
}

// c13Expect: the diagnostics a fresh real server publishes for document u when it is given
// only text t (no history, no concurrency).
var c13ExpectCache = map[[2]int]string{}

func c13Expect(u, t int) string {
	if k, ok := c13ExpectCache[[2]int{u, t}]; ok {
		return k
	}
	r := newC13Run()
	r.open(u, t)
	key := "none"
	if task := r.tasks[1]; task != nil {
		r.unpend(1)
		close(task.gate)
		select {
		case key = <-task.inPub:
			close(task.pubGate)
			<-task.done
		case <-task.done:
		case <-time.After(c13Timeout):
			key = "timeout"
		}
	}
	c13ExpectCache[[2]int{u, t}] = key
	return key
}

// ---------------------------------------------------------------- replay

func c13Replay(m map[string]any) map[string]any {
	// the recorded texts take precedence over the pool (the pool may have changed since)
	saved := append([]string{}, c13Pool...)
	defer func() { c13Pool = saved; c13ExpectCache = map[[2]int]string{} }()
	c13ExpectCache = map[[2]int]string{}
	if ts, ok := m["texts"].([]any); ok {
		for _, e := range ts {
			p, _ := e.([]any)
			if len(p) == 2 {
				id := int(p[0].(float64))
				for len(c13Pool) <= id {
					c13Pool = append(c13Pool, "")
				}
				c13Pool[id], _ = p[1].(string)
			}
		}
	}
	r := newC13Run()
	evs, _ := m["ev"].([]any)
	for _, e := range evs {
		a, _ := e.([]any)
		if len(a) < 2 {
			continue
		}
		kind, _ := a[0].(string)
		x := int(a[1].(float64))
		y := 0
		if len(a) > 2 {
			y = int(a[2].(float64))
		}
		if (kind == "open" || kind == "change") && (y < 0 || y >= len(c13Pool)) {
			continue
		}
		switch kind {
		case "open":
			r.open(x, y)
		case "change":
			r.change(x, y)
		case "close":
			r.close(x)
		case "go":
			r.goTask(x)
		case "run":
			r.run(x)
		case "rel":
			r.rel(x)
		}
	}
	return r.fields()
}

// ---------------------------------------------------------------- generators

func c13Perms(n int, f func([]int)) {
	p := make([]int, n)
	for i := range p {
		p[i] = i
	}
	var rec func(int)
	rec = func(k int) {
		if k == n {
			f(p)
			return
		}
		for i := k; i < n; i++ {
			p[k], p[i] = p[i], p[k]
			rec(k + 1)
			p[k], p[i] = p[i], p[k]
		}
	}
	rec(0)
}

// burst: nd documents are opened, then the changes (assign[j] = document of change j) arrive, then
// the tasks reach the publish point in the order perm (indices into the tasks in spawn order).
func c13Burst(c *Ctx, nd int, assign []int, texts []int, perm []int) {
	if c13GiveUp() {
		return
	}
	r := newC13Run()
	for u := 0; u < nd; u++ {
		r.open(u, texts[u])
	}
	for j, u := range assign {
		r.change(u, texts[nd+j])
	}
	vs := append([]int{}, r.pending...)
	for _, i := range perm {
		if i < len(vs) {
			r.goTask(vs[i])
		}
	}
	c.Emit("c13.sched", r.fields())
}

func c13Texts(c *Ctx, n int) []int {
	ts := make([]int, n)
	for i := range ts {
		ts[i] = c.R.IntN(len(c13Pool))
		// now and then repeat an earlier text (a change back to old content)
		if i > 0 && c.R.IntN(6) == 0 {
			ts[i] = ts[c.R.IntN(i)]
		}
	}
	return ts
}

func c13Assignments(nd, k int, f func([]int)) {
	a := make([]int, k)
	var rec func(int)
	rec = func(i int) {
		if i == k {
			f(a)
			return
		}
		for u := 0; u < nd; u++ {
			a[i] = u
			rec(i + 1)
		}
	}
	rec(0)
}

// c13Walk executes one schedule chosen step by step by `choose(n)` (a number below n) among
// everything that can happen next: the next notification, letting a pending task go (to
// completion, or only into the client call), releasing the withheld call.
func c13Walk(c *Ctx, notes [][3]int, try bool, choose func(n int) int) {
	if c13GiveUp() {
		return
	}
	r := newC13Run()
	ni := 0
	tries := 1
	for steps := 0; steps < 200; steps++ {
		type act struct{ kind, v int }
		var acts []act
		if ni < len(notes) {
			acts = append(acts, act{0, 0})
		}
		for _, v := range r.held {
			acts = append(acts, act{3, v})
		}
		if len(r.held) == 0 {
			for _, v := range r.pending {
				acts = append(acts, act{1, v})
				if ni < len(notes) {
					acts = append(acts, act{2, v}) // withholding only matters if something can still arrive
				}
			}
		} else if try && r.blocked == 0 && tries > 0 {
			// let a task go although another one is inside the client call
			for _, v := range r.pending {
				acts = append(acts, act{2, v})
			}
		}
		if len(acts) == 0 || r.dead {
			break
		}
		a := acts[choose(len(acts))]
		switch a.kind {
		case 0:
			n := notes[ni]
			ni++
			switch n[0] {
			case 0:
				r.open(n[1], n[2])
			case 1:
				r.change(n[1], n[2])
			default:
				r.close(n[1])
			}
		case 1:
			r.goTask(a.v)
		case 2:
			if len(r.held) > 0 {
				tries--
			}
			r.run(a.v)
		case 3:
			r.rel(a.v)
		}
	}
	c.Emit("c13.sched", r.fields())
}

// c13Exhaust enumerates every schedule of `notes` (stateless depth-first search: a schedule is
// re-executed for every vector of choices), up to `limit` schedules.
func c13Exhaust(c *Ctx, notes [][3]int, limit int) int {
	var choice, width []int
	n := 0
	for {
		pos := 0
		width = width[:0]
		c13Walk(c, notes, false, func(k int) int {
			ch := 0
			if pos < len(choice) {
				ch = choice[pos]
			}
			width = append(width, k)
			pos++
			return ch
		})
		n++
		for len(choice) < len(width) {
			choice = append(choice, 0)
		}
		choice = choice[:len(width)]
		i := len(choice) - 1
		for i >= 0 && choice[i]+1 >= width[i] {
			i--
		}
		if i < 0 || n >= limit {
			return n
		}
		choice[i]++
		choice = choice[:i+1]
	}
}

func genC13(c *Ctx) {
	maxExh := c.N(3, 4) // bursts of up to this many changes: every permutation
	// A. bursts, all permutations of the order in which the tasks reach the publish point
	for nd := 1; nd <= 2; nd++ {
		for k := 2; k <= maxExh; k++ {
			c13Assignments(nd, k, func(assign []int) {
				c13Perms(nd+k, func(p []int) {
					c13Burst(c, nd, assign, c13Texts(c, nd+k), p)
					c.Count(fmt.Sprintf("burst:docs=%d,changes=%d", nd, k))
				})
			})
		}
	}
	// sampled permutations of the next burst size
	k := maxExh + 1
	for i := 0; i < c.N(300, 3000); i++ {
		nd := 1 + c.R.IntN(2)
		assign := make([]int, k)
		for j := range assign {
			assign[j] = c.R.IntN(nd)
		}
		c13Burst(c, nd, assign, c13Texts(c, nd+k), c.R.Perm(nd+k))
		c.Count(fmt.Sprintf("burst-sampled:docs=%d,changes=%d", nd, k))
	}
	// B. every interleaving of notifications, task runs and withheld client calls
	mk := func(nd int, assign []int) [][3]int {
		ts := c13Texts(c, nd+len(assign))
		var notes [][3]int
		for u := 0; u < nd; u++ {
			notes = append(notes, [3]int{0, u, ts[u]})
		}
		for j, u := range assign {
			notes = append(notes, [3]int{1, u, ts[nd+j]})
		}
		return notes
	}
	n := c13Exhaust(c, mk(1, []int{0, 0}), 100000)
	c.Stats["interleavings:docs=1,changes=2"] += n
	if c.Thorough() {
		c.Stats["interleavings:docs=1,changes=3"] += c13Exhaust(c, mk(1, []int{0, 0, 0}), 100000)
		c.Stats["interleavings:docs=2,changes=2(0,1)"] += c13Exhaust(c, mk(2, []int{0, 1}), 100000)
		c.Stats["interleavings:docs=2,changes=2(0,0)"] += c13Exhaust(c, mk(2, []int{0, 0}), 100000)
	}
	// D. overtake attempts: task a is inside the client call (it passed the version check), a newer
	// change arrives, its task b is let go.  It must wait for publishMu; whatever the server does,
	// the calls are then released newest first, which is the order that would leave stale
	// diagnostics if b had been able to overtake.
	for i := 0; i < c.N(40, 400) && !c13GiveUp(); i++ {
		nd := 1 + c.R.IntN(2)
		ts := c13Texts(c, 4)
		r := newC13Run()
		for u := 0; u < nd; u++ {
			r.open(u, ts[u])
		}
		first := r.pending[c.R.IntN(len(r.pending))]
		for _, v := range append([]int{}, r.pending...) {
			if v != first {
				r.goTask(v)
			}
		}
		r.run(first)
		r.change(c.R.IntN(nd), ts[2])
		if c.R.IntN(2) == 0 {
			r.change(c.R.IntN(nd), ts[3])
		}
		for len(r.pending) > 0 && r.blocked == 0 && !r.dead {
			r.run(r.pending[c.R.IntN(len(r.pending))])
		}
		for (len(r.held) > 0 || len(r.pending) > 0) && !r.dead {
			if len(r.held) > 0 {
				r.rel(r.held[len(r.held)-1])
			} else {
				r.goTask(r.pending[0])
			}
		}
		c.Emit("c13.sched", r.fields())
		c.Count("overtake")
	}
	// C. random walks with close / re-open / changes to closed documents
	for i := 0; i < c.N(600, 20000); i++ {
		nd := 1 + c.R.IntN(2)
		nn := 3 + c.R.IntN(6)
		var notes [][3]int
		for j := 0; j < nn; j++ {
			u := c.R.IntN(nd)
			t := c.R.IntN(len(c13Pool))
			switch x := c.R.IntN(10); {
			case j < nd:
				notes = append(notes, [3]int{0, j, t})
			case x < 6:
				notes = append(notes, [3]int{1, u, t})
			case x < 8:
				notes = append(notes, [3]int{2, u, 0})
			default:
				notes = append(notes, [3]int{0, u, t})
			}
		}
		try := c.R.IntN(3) == 0
		c13Walk(c, notes, try, func(k int) int { return c.R.IntN(k) })
		if try {
			c.Count("walk-with-overtake-attempt")
		} else {
			c.Count("walk")
		}
	}
}
