package main

// C14 — schedule harness under the race detector.
//
// The orchestrator builds this harness with a plain `go build`; the schedules of C14 must run in
// a binary built with `-race`.  genC14 therefore generates the schedules, builds the harness a
// second time (`go build -race -tags verif -o <.build>/hx-race .` in the harness source
// directory the orchestrator used) and runs that binary as a child (HX_C14_CHILD=1) on the
// schedule file.  The child executes one schedule after the other; a data race makes it exit
// with status 66 (GORACE=halt_on_error=1), a stuck handler or background goroutine makes its
// watchdog dump all goroutines and exit 3, a panic in a background goroutine exits 2.  The
// parent attributes the failure to the schedule that was running, records it and restarts the
// child behind that schedule.
//
// A schedule is a serial stream of notifications and requests on 1..3 documents (optionally in a
// workspace with a root journal that includes the others), interleaved with the goroutines the
// server starts itself (one publishDiagnostics per open/change, one refreshConfiguration per
// configuration event).  Mode "race": the client stub withholds workspace/configuration replies
// until a later point of the stream and delays PublishDiagnostics by a few microseconds, the
// stream is repeated many times; only race / deadlock / panic are observed.  Mode "resp":
// every response is compared with the response of a fresh server that is fed the same stream
// sequentially (every background task awaited before the next message) and with diagnostics
// kept switched ON (the reference always gets to load and store the include tree of the current
// text; features.diagnostics is not part of what a response may depend on): the property's
// "response equals the response computed from the document state at the moment the request was
// handled".  Every difference is a violation (the finding `resolved-pending` that used to excuse
// some is fixed); the facts recorded with it only serve the report.  Mode "resp" schedules come
// from two generators: the random stream (c14GenSched) and the "window" family (c14GenWindow):
// a document with an include directive is changed and completion / hover / definition /
// references are requested at once, before the background task of the change has run — with and
// without diagnostics switched off, with and without a workspace (where the document is a journal
// outside the root's include tree, the case in which a workspace server reads Server.resolved).

import (
	"bufio"
	"context"
	"encoding/json"
	"fmt"
	"math/rand/v2"
	"os"
	"os/exec"
	"path/filepath"
	"regexp"
	"runtime"
	"sort"
	"strconv"
	"strings"
	"sync"
	"sync/atomic"
	"time"

	"go.lsp.dev/protocol"

	"github.com/juev/hledger-lsp/internal/server"
)

func init() {
	register("C14", genC14)
	replayers["c14.run"] = replayC14
}

type c14Doc struct {
	Name string `json:"name"`
	Text string `json:"text"`
}

type c14Op struct {
	K string         `json:"k"`
	D int            `json:"d"`
	T string         `json:"t,omitempty"`
	R []int          `json:"r,omitempty"`
	L int            `json:"l"`
	C int            `json:"c"`
	V map[string]any `json:"v,omitempty"`
	N int            `json:"n,omitempty"`
}

type c14Sched struct {
	Mode      string   `json:"mode"`
	Workspace bool     `json:"workspace"`
	Docs      []c14Doc `json:"docs"`
	Files     []c14Doc `json:"files,omitempty"` // files on disk that are never opened (mode "inc")
	Ops       []c14Op  `json:"ops"`
	Reps      int      `json:"reps"`
	Jitter    uint64   `json:"jitter"`
	Hold      bool     `json:"hold,omitempty"` // every diagnostics task waits at its start for a "run" op (family "order")
}

// ------------------------------------------------------------------ generator

var c14Accounts = []string{"assets:bank", "assets:cash", "expenses:food", "expenses:rent", "income:salary", "liabilities:card", "equity:opening"}
var c14Payees = []string{"Grocery store", "Landlord", "Employer", "Cafe", "Book shop"}
var c14Commodities = []string{"USD", "EUR", "RUB"}

func c14Tx(r *rand.Rand) string {
	var sb strings.Builder
	fmt.Fprintf(&sb, "2024-%02d-%02d * %s\n", 1+r.IntN(12), 1+r.IntN(28), pick(r, c14Payees))
	amt := 1 + r.IntN(500)
	com := pick(r, c14Commodities)
	a1 := pick(r, c14Accounts)
	a2 := pick(r, c14Accounts)
	switch r.IntN(4) {
	case 0: // unbalanced on purpose: the analyzer must cope
		fmt.Fprintf(&sb, "    %s    %d.00 %s\n    %s    -%d.50 %s\n", a1, amt, com, a2, amt, com)
	case 1:
		fmt.Fprintf(&sb, "    %s    %d.00 %s  ; tag:%d\n    %s\n", a1, amt, com, r.IntN(3), a2)
	default:
		fmt.Fprintf(&sb, "    %s    %d.00 %s\n    %s\n", a1, amt, com, a2)
	}
	return sb.String()
}

func c14Journal(r *rand.Rand, includes []string) string {
	var sb strings.Builder
	for _, inc := range includes {
		fmt.Fprintf(&sb, "include %s\n", inc)
	}
	if r.IntN(2) == 0 {
		for _, a := range c14Accounts[:2+r.IntN(4)] {
			fmt.Fprintf(&sb, "account %s\n", a)
		}
	}
	if r.IntN(2) == 0 {
		fmt.Fprintf(&sb, "commodity 1,000.00 %s\n", pick(r, c14Commodities))
	}
	sb.WriteString("\n")
	n := 1 + r.IntN(5)
	for i := 0; i < n; i++ {
		sb.WriteString(c14Tx(r))
		sb.WriteString("\n")
	}
	if r.IntN(6) == 0 {
		sb.WriteString("2024-13-45 broken header\n  ???\n")
	}
	return sb.String()
}

// c14Config draws a configuration payload.  withLimits=false (mode "resp"): the include limits
// are left alone, because a background load that straddles a limits change has no single
// "state at the moment of the request" to be compared with.
func c14Config(r *rand.Rand, withLimits bool) map[string]any {
	v := map[string]any{}
	if r.IntN(2) == 0 {
		v["features"] = map[string]any{"diagnostics": r.IntN(4) != 0, "hover": r.IntN(4) != 0, "completion": true, "semanticTokens": r.IntN(4) != 0}
	}
	if r.IntN(2) == 0 {
		v["completion"] = map[string]any{"maxResults": 1 + r.IntN(60), "fuzzyMatching": r.IntN(2) == 0, "showCounts": r.IntN(2) == 0}
	}
	if r.IntN(2) == 0 {
		v["formatting"] = map[string]any{"indentSize": 2 + r.IntN(6), "alignAmounts": r.IntN(2) == 0, "minAlignmentColumn": r.IntN(60)}
	}
	if r.IntN(2) == 0 {
		// a path that does not exist: NewClient's `--version` probe fails fast, the client pointer is replaced
		v["cli"] = map[string]any{"path": fmt.Sprintf("/nonexistent/hledger-%d", r.IntN(3)), "timeout": 1000 + r.IntN(3)*1000, "enabled": r.IntN(2) == 0}
	}
	if r.IntN(3) == 0 && withLimits {
		v["limits"] = map[string]any{"maxIncludeDepth": 1 + r.IntN(60), "maxFileSizeBytes": 1000 + r.IntN(1<<20)}
	}
	if r.IntN(3) == 0 {
		v["diagnostics"] = map[string]any{"undeclaredAccounts": r.IntN(2) == 0, "undeclaredCommodities": r.IntN(2) == 0, "unbalancedTransactions": r.IntN(2) == 0}
	}
	return v
}

var c14Requests = []string{"completion", "hover", "definition", "references", "semtok", "semdelta", "format", "codeaction", "symbols", "folding"}

func c14GenSched(c *Ctx, mode string) c14Sched {
	r := c.R
	s := c14Sched{Mode: mode, Workspace: r.IntN(2) == 0, Jitter: r.Uint64()}
	nd := 1 + r.IntN(3)
	names := []string{"main.journal", "a.journal", "b.journal"}[:nd]
	s.Files = []c14Doc{{Name: c14IncName, Text: c14IncText}}
	for i, n := range names {
		var inc []string
		if i == 0 && nd > 1 && r.IntN(4) != 0 {
			inc = names[1:]
		}
		if i > 0 && r.IntN(2) == 0 {
			// a document with an include tree of its own (the file is on disk, never opened)
			inc = []string{c14IncName}
		}
		s.Docs = append(s.Docs, c14Doc{Name: n, Text: c14Journal(r, inc)})
	}
	c.Count(fmt.Sprintf("%s.docs%d", mode, nd))
	if s.Workspace {
		c.Count(mode + ".workspace")
	}
	cur := make([]string, nd)
	open := make([]bool, nd)
	pos := func(d int) (int, int) {
		lines := strings.Split(cur[d], "\n")
		l := r.IntN(len(lines))
		col := 0
		if n := len(lines[l]); n > 0 {
			col = r.IntN(n + 1)
		}
		return l, col
	}
	nops := 6 + r.IntN(10)
	pendingCfg := 0
	for i := 0; i < nops; i++ {
		d := r.IntN(nd)
		if !open[d] {
			cur[d] = s.Docs[d].Text
			if r.IntN(3) == 0 {
				cur[d] = c14Journal(r, nil)
			}
			open[d] = true
			s.Ops = append(s.Ops, c14Op{K: "open", D: d, T: cur[d]})
			c.Count("op.open")
			continue
		}
		switch x := r.IntN(100); {
		case x < 30:
			op := c14Op{K: "change", D: d}
			lines := strings.Count(cur[d], "\n")
			if r.IntN(2) == 0 || lines < 2 {
				var inc []string
				if d == 0 && nd > 1 && r.IntN(2) == 0 {
					inc = names[1:]
				}
				if d > 0 && r.IntN(2) == 0 {
					inc = []string{c14IncName}
				}
				op.T = c14Journal(r, inc)
				cur[d] = op.T
				c.Count("op.change.full")
			} else {
				k := 1 + r.IntN(lines)
				op.R = []int{k, 0, k, 0}
				op.T = c14Tx(r) + "\n"
				ls := strings.SplitAfter(cur[d], "\n")
				cur[d] = strings.Join(ls[:k], "") + op.T + strings.Join(ls[k:], "")
				c.Count("op.change.ranged")
			}
			s.Ops = append(s.Ops, op)
			// bursts: several changes in a row keep several publish goroutines in flight
			if r.IntN(3) == 0 {
				op2 := c14Op{K: "change", D: d, T: c14Journal(r, nil)}
				cur[d] = op2.T
				s.Ops = append(s.Ops, op2)
				c.Count("op.change.burst")
			}
		case x < 36:
			s.Ops = append(s.Ops, c14Op{K: "save", D: d})
			c.Count("op.save")
		case x < 40:
			s.Ops = append(s.Ops, c14Op{K: "close", D: d})
			open[d] = false
			c.Count("op.close")
		case x < 52:
			s.Ops = append(s.Ops, c14Op{K: "config", V: c14Config(r, mode == "race")})
			pendingCfg++
			c.Count("op.config")
		case x < 58 && pendingCfg > 0:
			s.Ops = append(s.Ops, c14Op{K: "release"})
			pendingCfg--
			c.Count("op.release")
		case x < 62:
			s.Ops = append(s.Ops, c14Op{K: "yield", N: r.IntN(300)})
		default:
			k := pick(r, c14Requests)
			l, col := pos(d)
			s.Ops = append(s.Ops, c14Op{K: k, D: d, L: l, C: col})
			c.Count("op." + k)
		}
	}
	if mode == "race" {
		s.Reps = c.N(5, 25)
	} else {
		s.Reps = 1
	}
	return s
}

// c14IncFile is on disk in every "race"/"resp" schedule; documents may include it.  Its names do
// not occur in c14Accounts / c14Payees, so an answer computed without the included files differs.
const c14IncName = "inc.journal"
const c14IncText = "account assets:special\naccount expenses:shared\ncommodity 1,000.00 USD\n\n" +
	"2023-12-01 * Zeta payee\n    expenses:shared    40.00 USD\n    assets:special\n\n" +
	"2023-12-02 * Zeta payee\n    expenses:shared    2.00 USD\n    assets:special\n"

// c14WindowText: a document whose answers depend on its include tree, and the positions at which
// each of the four handlers that read Server.resolved gives an answer that needs the tree:
// completion at the end of the half-typed account "assets:sp" (offers assets:special, declared in
// the included file only), hover / references on "expenses:shared" (balance and occurrences span
// both files), definition on "assets:special" (declared in the included file).
func c14WindowText(r *rand.Rand, withInclude bool) (string, map[string][2]int) {
	var sb strings.Builder
	if withInclude {
		sb.WriteString("include " + c14IncName + "\n")
	}
	sb.WriteString("\n")
	for i, n := 0, r.IntN(3); i < n; i++ {
		sb.WriteString(c14Tx(r))
		sb.WriteString("\n")
	}
	fmt.Fprintf(&sb, "2024-01-%02d * Zeta payee\n    expenses:shared    %d.00 USD\n    assets:special\n\n", 1+r.IntN(28), 1+r.IntN(90))
	fmt.Fprintf(&sb, "2024-02-%02d * Local %d\n    expenses:shared    5.00 USD\n    assets:sp\n", 1+r.IntN(28), r.IntN(1000))
	text := sb.String()
	pos := map[string][2]int{}
	for i, line := range strings.Split(text, "\n") {
		if line == "    assets:sp" {
			pos["completion"] = [2]int{i, len(line)}
		}
		if strings.HasPrefix(line, "    expenses:shared") {
			if _, ok := pos["hover"]; !ok {
				pos["hover"] = [2]int{i, 8}
				pos["references"] = [2]int{i, 10}
			}
		}
		if line == "    assets:special" {
			pos["definition"] = [2]int{i, 9}
		}
	}
	return text, pos
}

var c14WindowKinds = []string{"completion", "hover", "definition", "references"}

// c14GenWindow: the "request right after a change" family (mode "resp").  Document 1
// (x.journal) includes inc.journal; document 0 (main.journal, the workspace root when there is a
// workspace) does not include x.journal, so x.journal is answered from its own tree with or
// without a workspace.  diagOff: diagnostics are switched off before the document is opened (the
// background task then never loads), or — variant — in the middle of the stream.
func c14GenWindow(c *Ctx, ws, diagOff bool) c14Sched {
	r := c.R
	s := c14Sched{Mode: "resp", Workspace: ws, Jitter: r.Uint64(), Reps: 1}
	s.Files = []c14Doc{{Name: c14IncName, Text: c14IncText}}
	s.Docs = []c14Doc{{Name: "main.journal", Text: c14Journal(r, nil)}}
	text, pos := c14WindowText(r, true)
	s.Docs = append(s.Docs, c14Doc{Name: "x.journal", Text: text})
	off := map[string]any{"features": map[string]any{"diagnostics": false}}
	on := map[string]any{"features": map[string]any{"diagnostics": true}}
	late := diagOff && r.IntN(3) == 0
	if diagOff && !late {
		s.Ops = append(s.Ops, c14Op{K: "config", V: off})
	}
	if r.IntN(2) == 0 {
		s.Ops = append(s.Ops, c14Op{K: "open", D: 0, T: s.Docs[0].Text})
	}
	s.Ops = append(s.Ops, c14Op{K: "open", D: 1, T: text})
	ask := func(kinds []string) {
		for _, k := range kinds {
			if p, ok := pos[k]; ok {
				s.Ops = append(s.Ops, c14Op{K: k, D: 1, L: p[0], C: p[1]})
				c.Count("window.op." + k)
			}
		}
	}
	shuffled := func() []string {
		ks := append([]string{}, c14WindowKinds...)
		r.Shuffle(len(ks), func(i, j int) { ks[i], ks[j] = ks[j], ks[i] })
		return ks
	}
	// right after the open, too: the first task may not have run either
	ask(shuffled()[:1+r.IntN(2)])
	rounds := 4 + r.IntN(3)
	for n := 0; n < rounds; n++ {
		if late && n == rounds/2 {
			s.Ops = append(s.Ops, c14Op{K: "config", V: off})
		}
		if diagOff && !late && n == rounds-1 && r.IntN(2) == 0 {
			// back on: the last round runs with live tasks again
			s.Ops = append(s.Ops, c14Op{K: "config", V: on})
		}
		withInc := r.IntN(6) != 0
		text, pos = c14WindowText(r, withInc)
		s.Ops = append(s.Ops, c14Op{K: "change", D: 1, T: text})
		if r.IntN(4) == 0 {
			// a burst: the task of the first change is still in flight when the second arrives
			text, pos = c14WindowText(r, true)
			s.Ops = append(s.Ops, c14Op{K: "change", D: 1, T: text})
		}
		ks := shuffled()
		// every kind is the FIRST request after a change in some round
		ks[0], ks[n%4] = c14WindowKinds[n%4], ks[0]
		seen := map[string]bool{}
		var uniq []string
		for _, k := range ks {
			if !seen[k] {
				seen[k] = true
				uniq = append(uniq, k)
			}
		}
		ask(uniq[:1+r.IntN(len(uniq))])
		if r.IntN(3) == 0 {
			s.Ops = append(s.Ops, c14Op{K: "yield", N: 200 + r.IntN(2000)})
			ask(shuffled()[:2])
		}
		if r.IntN(5) == 0 {
			s.Ops = append(s.Ops, c14Op{K: "save", D: 1})
			ask(shuffled()[:1])
		}
	}
	c.Count(fmt.Sprintf("window.sched.ws=%v.diagoff=%v", ws, diagOff))
	return s
}

// c14GenOrder: the family "order" (mode "resp" with held tasks).  One document with an include,
// answered from its own tree, goes through a short history — changes, or close and re-open with
// another text — while every diagnostics task waits at its start; then the tasks run to their
// ends ONE AFTER THE OTHER in the order `perm` (a permutation of the spawn order), requests in
// between and after.  A task of superseded content that runs after the task of the current
// content must change nothing: not the stored include tree, not the diagnostics on screen.
// Every response is compared with the sequential replay.  (Added after seeds r5-C14 / r5-C08,
// which the timing-based streams caught only on some seeds.)
func c14GenOrder(c *Ctx, ws bool, reopen bool, perm []int) c14Sched {
	r := c.R
	s := c14Sched{Mode: "resp", Workspace: ws, Jitter: r.Uint64(), Reps: 1, Hold: true}
	s.Files = []c14Doc{{Name: c14IncName, Text: c14IncText}}
	s.Docs = []c14Doc{{Name: "main.journal", Text: c14Journal(r, nil)}}
	text, pos := c14WindowText(r, true)
	s.Docs = append(s.Docs, c14Doc{Name: "x.journal", Text: text})
	ask := func(n int) {
		ks := append([]string{}, c14WindowKinds...)
		r.Shuffle(len(ks), func(i, j int) { ks[i], ks[j] = ks[j], ks[i] })
		for _, k := range ks[:n] {
			if p, ok := pos[k]; ok {
				s.Ops = append(s.Ops, c14Op{K: k, D: 1, L: p[0], C: p[1]})
			}
		}
	}
	s.Ops = append(s.Ops, c14Op{K: "open", D: 1, T: text})
	for i := 1; i < len(perm); i++ {
		if reopen && (i == len(perm)-1 || r.IntN(2) == 0) {
			s.Ops = append(s.Ops, c14Op{K: "close", D: 1})
			text, pos = c14WindowText(r, r.IntN(4) != 0)
			s.Ops = append(s.Ops, c14Op{K: "open", D: 1, T: text})
		} else {
			text, pos = c14WindowText(r, r.IntN(4) != 0)
			s.Ops = append(s.Ops, c14Op{K: "change", D: 1, T: text})
		}
	}
	ask(1 + r.IntN(2)) // while every task is still waiting
	for _, k := range perm {
		s.Ops = append(s.Ops, c14Op{K: "run", N: k})
		ask(1 + r.IntN(3))
	}
	ask(4)
	c.Count(fmt.Sprintf("order.sched.tasks=%d.reopen=%v.ws=%v", len(perm), reopen, ws))
	return s
}

// c14Perms: all permutations of 0..n-1.
func c14Perms(n int) [][]int {
	if n == 0 {
		return [][]int{{}}
	}
	var out [][]int
	for _, p := range c14Perms(n - 1) {
		for i := 0; i <= len(p); i++ {
			q := append(append(append([]int{}, p[:i]...), n-1), p[i:]...)
			out = append(out, q)
		}
	}
	return out
}

// c14GenInc: the "shared included file" family (mode "inc").  Two documents include the same
// file; that file has k lines that do not parse (k parse errors in the loader's cache entry)
// and, below them, an include that fails at include level — a missing file, a cycle back to one
// of the documents, or a chain that runs into the include depth limit — followed by a glob of
// small files (more work between the failing include and the end of the load).  The stream
// opens both documents and then changes them back to back several times, so that their
// background loads overlap while the shared file is served from the loader's cache.
// Observed: race / deadlock / panic as in mode "race", and after quiescence the include-level
// diagnostics last published for each document, compared with a sequential replay (each
// document's include errors must be those of ITS tree).
func c14GenInc(c *Ctx, k int, variant string, ws bool) c14Sched {
	r := c.R
	s := c14Sched{Mode: "inc", Workspace: ws, Jitter: r.Uint64()}
	var sh strings.Builder
	for i := 0; i < k; i++ {
		fmt.Fprintf(&sh, "!!! line %d is not a journal line\n", i)
	}
	sh.WriteString("\n")
	var first []c14Op
	switch variant {
	case "missing":
		fmt.Fprintf(&sh, "include missing-%d.journal\n", r.IntN(100))
	case "cycle":
		sh.WriteString("include a.journal\n")
	case "depth":
		sh.WriteString("include d1.journal\n")
		s.Files = append(s.Files, c14Doc{Name: "d1.journal", Text: "include d2.journal\n\n" + c14Tx(r)})
		s.Files = append(s.Files, c14Doc{Name: "d2.journal", Text: c14Tx(r)})
		first = append(first, c14Op{K: "config", V: map[string]any{"limits": map[string]any{"maxIncludeDepth": 2 + r.IntN(2)}}})
	}
	sh.WriteString("include parts/*.journal\n")
	np := 4 + r.IntN(8)
	for i := 0; i < np; i++ {
		s.Files = append(s.Files, c14Doc{Name: fmt.Sprintf("parts/p%02d.journal", i), Text: c14Tx(r)})
	}
	s.Files = append(s.Files, c14Doc{Name: "shared.journal", Text: sh.String()})
	doc := func(name string, n int) string {
		return fmt.Sprintf("include shared.journal\n\n2024-02-%02d %s %d\n    expenses:food  %d USD\n    assets:cash\n", 1+n%28, name, n, n+1)
	}
	s.Docs = []c14Doc{{Name: "a.journal", Text: doc("a", 0)}, {Name: "b.journal", Text: doc("b", 0)}}
	s.Ops = append(s.Ops, first...)
	s.Ops = append(s.Ops, c14Op{K: "open", D: 0, T: doc("a", 0)})
	if r.IntN(2) == 0 {
		s.Ops = append(s.Ops, c14Op{K: "yield", N: 100 + r.IntN(2000)})
	}
	s.Ops = append(s.Ops, c14Op{K: "open", D: 1, T: doc("b", 0)})
	rounds := 2 + r.IntN(3)
	for n := 1; n <= rounds; n++ {
		x, y := 0, 1
		if r.IntN(2) == 0 {
			x, y = 1, 0
		}
		names := []string{"a", "b"}
		s.Ops = append(s.Ops, c14Op{K: "change", D: x, T: doc(names[x], n)})
		s.Ops = append(s.Ops, c14Op{K: "change", D: y, T: doc(names[y], n)})
		if r.IntN(3) == 0 {
			s.Ops = append(s.Ops, c14Op{K: "change", D: x, T: doc(names[x], n+100)})
		}
		s.Ops = append(s.Ops, c14Op{K: "yield", N: 300 + r.IntN(3000)})
	}
	s.Reps = c.N(2, 6)
	c.Count(fmt.Sprintf("inc.k%d", k))
	c.Count("inc." + variant)
	return s
}

// ------------------------------------------------------------------ parent side

func c14SourceDir() (string, string) {
	exe, err := os.Executable()
	if err != nil {
		fmt.Fprintln(os.Stderr, "c14:", err)
		os.Exit(2)
	}
	build := filepath.Dir(exe)
	src := filepath.Join(build, "..", "harness")
	if repo := os.Getenv("VERIF_REPO"); repo != "" && repo != "/repo" {
		src = filepath.Join(build, "harness-alt")
	}
	return build, src
}

var c14RaceExe string

func c14BuildRace() string {
	if c14RaceExe != "" {
		return c14RaceExe
	}
	build, src := c14SourceDir()
	out := filepath.Join(build, "hx-race")
	cmd := exec.Command("go", "build", "-race", "-tags", "verif", "-o", out, ".")
	cmd.Dir = src
	cmd.Env = append(os.Environ(), "GOFLAGS=-mod=mod", "GOPROXY=off")
	if b, err := cmd.CombinedOutput(); err != nil {
		fmt.Fprintf(os.Stderr, "c14: building the race-instrumented harness in %s failed: %v\n%s\n", src, err, b)
		os.Exit(2)
	}
	c14RaceExe = out
	return out
}

var c14HeadRe = regexp.MustCompile(`^(?:Write|Read|Previous write|Previous read|Atomic write|Atomic read|Previous atomic write|Previous atomic read) at `)

// c14RacePair: the first non-runtime function of the two access stacks of the first report.
func c14RacePair(es string) []string {
	pair := []string{}
	lines := strings.Split(es, "\n")
	for i := 0; i < len(lines) && len(pair) < 2; i++ {
		if !c14HeadRe.MatchString(lines[i]) {
			continue
		}
		for j := i + 1; j < len(lines) && strings.TrimSpace(lines[j]) != ""; j++ {
			f := strings.TrimSpace(lines[j])
			if strings.HasPrefix(f, "/") || strings.HasPrefix(f, "runtime.") || !strings.HasSuffix(f, ")") {
				continue
			}
			pair = append(pair, strings.TrimSuffix(f, "()"))
			break
		}
	}
	return pair
}

// c14RunAll runs the schedules in the race-instrumented child and returns one result per schedule.
func c14RunAll(c *Ctx, scheds []c14Sched) []map[string]any {
	exe := c14BuildRace()
	tmp := c.Tmp
	if tmp == "" {
		var err error
		if tmp, err = os.MkdirTemp("", "c14-"); err != nil {
			panic(err)
		}
		defer os.RemoveAll(tmp)
	}
	schedFile := filepath.Join(tmp, fmt.Sprintf("c14-sched-%d.jsonl", os.Getpid()))
	f, err := os.Create(schedFile)
	if err != nil {
		panic(err)
	}
	w := bufio.NewWriter(f)
	for _, s := range scheds {
		b, _ := marshal(s)
		w.Write(b)
		w.WriteByte('\n')
	}
	w.Flush()
	f.Close()
	results := make([]map[string]any, 0, len(scheds))
	from := 0
	failures := 0
	for from < len(scheds) {
		outFile := filepath.Join(tmp, fmt.Sprintf("c14-out-%d-%d.jsonl", os.Getpid(), from))
		cmd := exec.Command(exe, "-prop", "C14", "-tier", c.Tier, "-seed", strconv.FormatUint(c.Seed, 10), "-out", outFile, "-tmp", tmp)
		cmd.Env = append(os.Environ(), "HX_C14_CHILD=1", "HX_C14_SCHEDULES="+schedFile, "HX_C14_FROM="+strconv.Itoa(from), "GORACE=halt_on_error=1")
		var stderr strings.Builder
		cmd.Stderr = &stderr
		done := make(chan error, 1)
		if err := cmd.Start(); err != nil {
			fmt.Fprintln(os.Stderr, "c14: cannot start the race child:", err)
			os.Exit(2)
		}
		go func() { done <- cmd.Wait() }()
		var werr error
		timedOut := false
		select {
		case werr = <-done:
		case <-time.After(20 * time.Minute):
			timedOut = true
			cmd.Process.Kill()
			werr = <-done
		}
		n := 0
		if of, err := os.Open(outFile); err == nil {
			sc := bufio.NewScanner(of)
			sc.Buffer(make([]byte, 1<<20), 1<<28)
			for sc.Scan() {
				var m map[string]any
				if json.Unmarshal(sc.Bytes(), &m) == nil && m["op"] == "c14.run" {
					delete(m, "op")
					delete(m, "id")
					results = append(results, m)
					n++
				}
			}
			of.Close()
			os.Remove(outFile)
		}
		es := stderr.String()
		for _, line := range strings.Split(es, "\n") {
			if strings.HasPrefix(line, "STATS ") {
				var st map[string]int
				if json.Unmarshal([]byte(line[6:]), &st) == nil {
					for k, v := range st {
						c.Stats[k] += v
					}
				}
			}
		}
		from += n
		if werr == nil && !timedOut {
			if from < len(scheds) {
				fmt.Fprintf(os.Stderr, "c14: race child ended early after %d schedules\n%s\n", n, tail(es, 2000))
				os.Exit(2)
			}
			break
		}
		// the child died while running schedule `from`
		if from >= len(scheds) {
			fmt.Fprintf(os.Stderr, "c14: race child failed after the last schedule: %v\n%s\n", werr, tail(es, 3000))
			os.Exit(2)
		}
		code := -1
		if ee, ok := werr.(*exec.ExitError); ok {
			code = ee.ExitCode()
		}
		race := strings.Contains(es, "WARNING: DATA RACE")
		deadlock := !race && (code == 3 || timedOut || strings.Contains(es, "C14-DEADLOCK"))
		pnc := !race && !deadlock
		if pnc && !strings.Contains(es, "panic:") && !strings.Contains(es, "fatal error:") {
			fmt.Fprintf(os.Stderr, "c14: race child failed (exit %d) without a race, deadlock or panic report\n%s\n", code, tail(es, 3000))
			os.Exit(2)
		}
		pair := c14RacePair(es)
		rep := es
		if i := strings.Index(rep, "WARNING: DATA RACE"); i >= 0 {
			rep = rep[i:]
		} else if i := strings.Index(rep, "C14-DEADLOCK"); i >= 0 {
			rep = rep[i:]
		} else if i := strings.Index(rep, "panic:"); i >= 0 {
			rep = rep[i:]
		}
		if len(rep) > 4000 {
			rep = rep[:4000]
		}
		c.Count("child.failure")
		failures++
		results = append(results, map[string]any{
			"sched": scheds[from], "impl": map[string]any{"race": race, "deadlock": deadlock, "panic": pnc},
			"diffs": []any{}, "pair": pair, "report": rep,
		})
		from++
		if failures >= 3 {
			// the property is already refuted three times over; a deadlocking server would
			// otherwise cost one watchdog period per remaining schedule
			c.Stats["skipped.after-failures"] += len(scheds) - from
			break
		}
	}
	os.Remove(schedFile)
	return results
}

func tail(s string, n int) string {
	if len(s) > n {
		return s[len(s)-n:]
	}
	return s
}

func genC14(c *Ctx) {
	if os.Getenv("HX_C14_CHILD") != "" {
		c14Child(c)
		return
	}
	var scheds []c14Sched
	nRace := c.N(80, 400)
	nResp := c.N(60, 300)
	for i := 0; i < nRace; i++ {
		scheds = append(scheds, c14GenSched(c, "race"))
	}
	for i := 0; i < nResp; i++ {
		scheds = append(scheds, c14GenSched(c, "resp"))
	}
	// request right after a change, document with includes: x {workspace, none} x {diagnostics off, on}
	for rep := 0; rep < c.N(6, 30); rep++ {
		for _, ws := range []bool{false, true} {
			for _, off := range []bool{false, true} {
				scheds = append(scheds, c14GenWindow(c, ws, off))
			}
		}
	}
	// held tasks, every order of running them: bursts of 2 and 3 (thorough: 4) x {changes, close and
	// re-open} x {no workspace, workspace}
	maxTasks := c.N(3, 4)
	for n := 2; n <= maxTasks; n++ {
		for _, perm := range c14Perms(n) {
			for _, reopen := range []bool{false, true} {
				ws := c.R.IntN(2) == 0
				scheds = append(scheds, c14GenOrder(c, ws, reopen, perm))
				if c.Thorough() {
					scheds = append(scheds, c14GenOrder(c, !ws, reopen, perm))
				}
			}
		}
	}
	// shared included file with k = 0..9 parse errors x the three include-level errors
	for rep := 0; rep < c.N(1, 4); rep++ {
		for k := 0; k <= 9; k++ {
			for _, variant := range []string{"missing", "cycle", "depth"} {
				scheds = append(scheds, c14GenInc(c, k, variant, c.R.IntN(3) == 0))
			}
		}
	}
	for _, r := range c14RunAll(c, scheds) {
		c.Emit("c14.run", r)
	}
}

func replayC14(c *Ctx, m map[string]any) map[string]any {
	if os.Getenv("HX_C14_CHILD") != "" {
		return nil
	}
	b, _ := json.Marshal(m["sched"])
	var s c14Sched
	if err := json.Unmarshal(b, &s); err != nil {
		return nil
	}
	rs := c14RunAll(c, []c14Sched{s})
	if len(rs) != 1 {
		return nil
	}
	return rs[0]
}

// ------------------------------------------------------------------ child side (race-instrumented)

var c14Progress atomic.Int64
var c14Active atomic.Bool

func c14Watchdog() {
	last := int64(-1)
	stuck := 0
	for {
		time.Sleep(time.Second)
		if !c14Active.Load() {
			stuck = 0
			continue
		}
		p := c14Progress.Load()
		if p != last {
			last, stuck = p, 0
			continue
		}
		stuck++
		if stuck >= 10 {
			c14Die("no progress for 10 s")
		}
	}
}

func c14Die(why string) {
	buf := make([]byte, 1<<20)
	n := runtime.Stack(buf, true)
	fmt.Fprintf(os.Stderr, "C14-DEADLOCK: %s\n%s\n", why, buf[:n])
	os.Exit(3)
}

func c14Child(c *Ctx) {
	os.Unsetenv("LEDGER_FILE")
	os.Unsetenv("HLEDGER_JOURNAL")
	f, err := os.Open(os.Getenv("HX_C14_SCHEDULES"))
	if err != nil {
		fmt.Fprintln(os.Stderr, "c14 child:", err)
		os.Exit(4)
	}
	defer f.Close()
	from, _ := strconv.Atoi(os.Getenv("HX_C14_FROM"))
	server.VerifYieldHook = c14YieldHook
	server.VerifStartHook = c14StartHook
	go c14Watchdog()
	sc := bufio.NewScanner(f)
	sc.Buffer(make([]byte, 1<<20), 1<<28)
	for i := 0; sc.Scan(); i++ {
		if i < from {
			continue
		}
		var s c14Sched
		if err := json.Unmarshal(sc.Bytes(), &s); err != nil {
			fmt.Fprintln(os.Stderr, "c14 child: bad schedule:", err)
			os.Exit(4)
		}
		fmt.Fprintf(os.Stderr, "C14-BEGIN %d\n", i)
		res := c14RunSched(c, &s, i)
		c.Emit("c14.run", res)
		c.w.Flush()
	}
}

type c14Client struct {
	protocol.Client // nil: any method the server is not expected to call panics
	mu              sync.Mutex
	gated           bool
	gate            chan struct{}
	payloads        []map[string]any
	cfgCalls        int
	published       map[protocol.DocumentURI]int
	lastDiag        map[protocol.DocumentURI][]string // include-level messages of the last publish per document
	jit             *rand.Rand
	hold            bool          // family "order": tasks wait at their start
	tasks           []*c14Task    // in the order they reached the start hook (= spawn order, see awaitTask)
	arrive          chan struct{} // one token per task that reached the start hook
}

// c14Task is a diagnostics task held at its start (server.VerifStartHook).
type c14Task struct {
	gate     chan struct{} // closed by the harness: run
	done     chan struct{} // closed when the task has returned
	released bool
}

// c14StartHook is installed as server.VerifStartHook in the child.  In the family "order" every
// diagnostics task stops here, before it has read or written anything, until the stream says
// "run k"; so the ORDER in which the tasks of a burst (or of two sessions of a document) load,
// store and publish is chosen by the schedule and not by the Go scheduler.
func c14StartHook(ctx context.Context, uri protocol.DocumentURI, version uint64) func() {
	cl, _ := ctx.Value(c14ClientKey{}).(*c14Client)
	if cl == nil || !cl.hold {
		return nil
	}
	t := &c14Task{gate: make(chan struct{}), done: make(chan struct{})}
	cl.mu.Lock()
	cl.tasks = append(cl.tasks, t)
	cl.mu.Unlock()
	cl.arrive <- struct{}{}
	<-t.gate
	return func() { close(t.done) }
}

// awaitTask waits until the task spawned by the notification just sent has reached the start
// hook (so arrival order is spawn order); a notification that spawns none is not waited for long.
func (cl *c14Client) awaitTask() {
	if !cl.hold {
		return
	}
	select {
	case <-cl.arrive:
	case <-time.After(2 * time.Second):
	}
}

// runTask lets the k-th task run to its end (no-op if there is no such task or it ran already).
func (cl *c14Client) runTask(k int) {
	cl.mu.Lock()
	var t *c14Task
	if k >= 0 && k < len(cl.tasks) && !cl.tasks[k].released {
		t = cl.tasks[k]
		t.released = true
	}
	cl.mu.Unlock()
	if t == nil {
		return
	}
	close(t.gate)
	select {
	case <-t.done:
	case <-time.After(20 * time.Second):
		c14Die("a diagnostics task released by the schedule did not finish within 20 s")
	}
}

func (cl *c14Client) runAllTasks() {
	for k := 0; ; k++ {
		cl.mu.Lock()
		n := len(cl.tasks)
		cl.mu.Unlock()
		if k >= n {
			return
		}
		cl.runTask(k)
	}
}

// diagOf: under the client's mutex (the harness waits for the background goroutines by polling,
// which orders nothing for the race detector; the mutex does).
func (cl *c14Client) diagOf(u protocol.DocumentURI) []string {
	cl.mu.Lock()
	defer cl.mu.Unlock()
	return cl.lastDiag[u]
}

// c14IncludeLevel: is this the message of an include-level load error (include.LoadError other
// than a parse error), as opposed to a diagnostic of the document's own text?
func c14IncludeLevel(msg string) bool {
	for _, p := range []string{"cycle detected", "cannot read", "include depth limit", "no files match", "invalid glob", "path traversal", "included file too large", "file too large"} {
		if strings.HasPrefix(msg, p) {
			return true
		}
	}
	return false
}

func (cl *c14Client) sleep() {
	cl.mu.Lock()
	n := 0
	if cl.jit != nil {
		n = cl.jit.IntN(200)
	}
	cl.mu.Unlock()
	if n > 150 {
		runtime.Gosched()
	} else if n > 60 {
		time.Sleep(time.Duration(n) * time.Microsecond)
	}
}

func (cl *c14Client) PublishDiagnostics(ctx context.Context, p *protocol.PublishDiagnosticsParams) error {
	cl.sleep()
	var inc []string
	for _, d := range p.Diagnostics {
		if c14IncludeLevel(d.Message) {
			inc = append(inc, fmt.Sprintf("%d:%d %s", d.Range.Start.Line, d.Range.Start.Character, d.Message))
		}
	}
	sort.Strings(inc)
	cl.mu.Lock()
	if cl.lastDiag == nil {
		cl.lastDiag = map[protocol.DocumentURI][]string{}
	}
	cl.lastDiag[p.URI] = inc
	cl.mu.Unlock()
	return nil
}

type c14ClientKey struct{}

// c14YieldHook is installed as server.VerifYieldHook in the child: every diagnostics task calls
// it right before it takes publishMu (after it stored its include tree, if it was still
// current) and calls the returned function when it is done — whether or not it published.
// That is the "task finished" signal of the harness; the client stub is found through the
// context the notification was sent with.
func c14YieldHook(ctx context.Context, uri protocol.DocumentURI, version uint64) func() {
	cl, _ := ctx.Value(c14ClientKey{}).(*c14Client)
	if cl == nil {
		return nil
	}
	cl.sleep()
	return func() {
		cl.mu.Lock()
		cl.published[uri]++
		cl.mu.Unlock()
	}
}

func (cl *c14Client) LogMessage(ctx context.Context, p *protocol.LogMessageParams) error { return nil }

func (cl *c14Client) Configuration(ctx context.Context, p *protocol.ConfigurationParams) ([]interface{}, error) {
	cl.mu.Lock()
	idx := cl.cfgCalls
	cl.cfgCalls++
	gated := cl.gated
	cl.mu.Unlock()
	if gated {
		<-cl.gate
	}
	cl.sleep()
	cl.mu.Lock()
	defer cl.mu.Unlock()
	if idx < len(cl.payloads) {
		// a private deep copy for every reply, as a JSON decoder would hand out
		b, _ := json.Marshal(cl.payloads[idx])
		var v map[string]any
		json.Unmarshal(b, &v)
		return []interface{}{v}, nil
	}
	return []interface{}{map[string]any{}}, nil
}

// c14Busy counts the background goroutines of the server (publish, refresh) that are still alive.
func c14Busy() (publish, refresh int) {
	buf := make([]byte, 1<<18)
	for {
		n := runtime.Stack(buf, true)
		if n < len(buf) {
			buf = buf[:n]
			break
		}
		buf = make([]byte, 2*len(buf))
	}
	for _, g := range strings.Split(string(buf), "\n\n") {
		if !strings.Contains(g, "hledger-lsp/internal/server.") || strings.Contains(g, "main.c14") {
			continue
		}
		if strings.Contains(g, "refreshConfiguration") || strings.Contains(g, ").DidChangeConfiguration") || strings.Contains(g, ").Initialized") {
			refresh++
		} else {
			publish++
		}
	}
	return
}

func c14Wait(what string) {
	deadline := time.Now().Add(10 * time.Second)
	for {
		p, r := c14Busy()
		if (what == "refresh" && r == 0) || (what == "all" && p == 0 && r == 0) {
			return
		}
		if time.Now().After(deadline) {
			c14Die(fmt.Sprintf("background goroutines still alive after 10 s (publish=%d refresh=%d)", p, r))
		}
		time.Sleep(100 * time.Microsecond)
	}
}

// c14DiagnosticsOn: the payload with features.diagnostics forced to true (a private copy).  The
// reference server of mode "resp" is fed these: whether the client wants diagnostics published
// is not part of the state a completion / hover / definition / references answer is a function of.
func c14DiagnosticsOn(v map[string]any) map[string]any {
	b, _ := json.Marshal(v)
	var out map[string]any
	json.Unmarshal(b, &out)
	if f, ok := out["features"].(map[string]any); ok {
		if _, has := f["diagnostics"]; has {
			f["diagnostics"] = true
		}
	}
	return out
}

type c14Resp struct {
	op       int
	kind     string
	doc      int
	body     string
	inflight int
	overlap  bool
	diagOff  bool
	inc      bool
	ws       bool
	window   bool // the handler needs the document's own include tree and none was stored when the request arrived
}

var c14ReadsResolved = map[string]bool{"completion": true, "hover": true, "definition": true, "references": true}

type c14Run struct {
	srv      *server.Server
	cl       *c14Client
	uris     []protocol.DocumentURI
	lastID   map[int]string
	started  map[protocol.DocumentURI]int
	overlap  map[protocol.DocumentURI]bool
	opened   map[int]bool
	diagOff  bool // features.diagnostics=false is in force: tasks end without loading
	resps    []c14Resp
	panicked string
}

func c14Canon(v any, err error) string {
	if err != nil {
		return "error: " + err.Error()
	}
	b, e := json.Marshal(v)
	if e != nil {
		return "marshal: " + e.Error()
	}
	return string(b)
}

func (r *c14Run) request(i int, kind string, d, l, col int) {
	ctx := context.Background()
	uri := r.uris[d]
	td := protocol.TextDocumentIdentifier{URI: uri}
	tp := protocol.TextDocumentPositionParams{TextDocument: td, Position: protocol.Position{Line: uint32(l), Character: uint32(col)}}
	// facts for the guard, taken before the request is handled
	r.cl.mu.Lock()
	inflight := r.started[uri] - r.cl.published[uri]
	r.cl.mu.Unlock()
	ws := r.srv.Workspace() != nil && r.srv.Workspace().GetResolved() != nil
	inc := false
	if text, ok := r.srv.GetDocument(uri); ok {
		inc = strings.HasPrefix(text, "include ") || strings.Contains(text, "\ninclude ")
	}
	// does this handler go to the document's own tree, and is there one?
	own := false
	if c14ReadsResolved[kind] {
		if kind == "completion" {
			own = !ws
		} else {
			own = !ws || !r.srv.Workspace().Contains(strings.TrimPrefix(string(uri), "file://"))
		}
	}
	window := own && inc && r.opened[d] && r.srv.GetResolved(uri) == nil
	var body string
	switch kind {
	case "completion":
		res, err := r.srv.Completion(ctx, &protocol.CompletionParams{TextDocumentPositionParams: tp})
		if err == nil && res != nil {
			// ranking ties depend on map iteration order (C15's subject): compare as a set
			var items []string
			for _, it := range res.Items {
				it.SortText = ""
				b, _ := json.Marshal(it)
				items = append(items, string(b))
			}
			sort.Strings(items)
			body = fmt.Sprintf("incomplete=%v %s", res.IsIncomplete, strings.Join(items, "\n"))
		} else {
			body = c14Canon(res, err)
		}
	case "hover":
		body = c14Canon(r.srv.Hover(ctx, &protocol.HoverParams{TextDocumentPositionParams: tp}))
	case "definition":
		body = c14Canon(r.srv.Definition(ctx, &protocol.DefinitionParams{TextDocumentPositionParams: tp}))
	case "references":
		res, err := r.srv.References(ctx, &protocol.ReferenceParams{TextDocumentPositionParams: tp, Context: protocol.ReferenceContext{IncludeDeclaration: true}})
		var locs []string
		for _, x := range res {
			b, _ := json.Marshal(x)
			locs = append(locs, string(b))
		}
		sort.Strings(locs)
		body = c14Canon(locs, err)
	case "semtok":
		res, err := r.srv.SemanticTokensFull(ctx, &protocol.SemanticTokensParams{TextDocument: td})
		if err == nil && res != nil {
			r.lastID[d] = res.ResultID
			body = c14Canon(res.Data, nil)
		} else {
			body = c14Canon(res, err)
		}
	case "semdelta":
		res, err := r.srv.SemanticTokensFullDelta(ctx, &protocol.SemanticTokensDeltaParams{TextDocument: td, PreviousResultID: r.lastID[d]})
		switch x := res.(type) {
		case *protocol.SemanticTokens:
			r.lastID[d] = x.ResultID
			body = "full " + c14Canon(x.Data, err)
		case *protocol.SemanticTokensDelta:
			r.lastID[d] = x.ResultID
			body = "delta " + c14Canon(x.Edits, err)
		default:
			body = c14Canon(res, err)
		}
	case "format":
		body = c14Canon(r.srv.Format(ctx, &protocol.DocumentFormattingParams{TextDocument: td}))
	case "codeaction":
		body = c14Canon(r.srv.CodeAction(ctx, &protocol.CodeActionParams{TextDocument: td}))
	case "symbols":
		body = c14Canon(r.srv.DocumentSymbol(ctx, &protocol.DocumentSymbolParams{TextDocument: td}))
	case "folding":
		body = c14Canon(r.srv.FoldingRanges(ctx, &protocol.FoldingRangeParams{TextDocumentPositionParams: protocol.TextDocumentPositionParams{TextDocument: td}}))
	}
	r.resps = append(r.resps, c14Resp{op: i, kind: kind, doc: d, body: body, inflight: inflight, overlap: r.overlap[uri], diagOff: r.diagOff, inc: inc, ws: ws, window: window})
}

// noteTask counts the tasks started per document (finished ones are counted by c14YieldHook);
// "overlap" (a change while a task of the same document is in flight) is kept for the evidence.
func (r *c14Run) noteTask(uri protocol.DocumentURI) {
	r.cl.mu.Lock()
	inflight := r.started[uri] - r.cl.published[uri]
	r.cl.mu.Unlock()
	r.overlap[uri] = inflight > 0
	r.started[uri]++
}

// c14RunOnce feeds the stream to a fresh server.  sequential: every background task is awaited
// before the next message.  Otherwise the stream runs against the live goroutines; in "race"
// mode configuration replies are withheld until a release op (or the end).
func c14RunOnce(s *c14Sched, dir string, sequential bool, jitter uint64) (run *c14Run) {
	cl := &c14Client{gate: make(chan struct{}, 1024), published: map[protocol.DocumentURI]int{}}
	ctx := context.WithValue(context.Background(), c14ClientKey{}, cl)
	cl.payloads = append(cl.payloads, map[string]any{})
	for _, op := range s.Ops {
		if op.K == "config" {
			v := op.V
			if sequential && s.Mode == "resp" {
				v = c14DiagnosticsOn(v)
			}
			cl.payloads = append(cl.payloads, v)
		}
	}
	if !sequential {
		cl.jit = rand.New(rand.NewPCG(jitter, 14))
		cl.gated = s.Mode == "race"
		if s.Hold {
			cl.hold = true
			cl.arrive = make(chan struct{}, 1024)
		}
	}
	run = &c14Run{cl: cl, lastID: map[int]string{}, started: map[protocol.DocumentURI]int{}, overlap: map[protocol.DocumentURI]bool{}, opened: map[int]bool{}}
	for _, d := range s.Docs {
		run.uris = append(run.uris, protocol.DocumentURI("file://"+filepath.Join(dir, d.Name)))
	}
	defer func() {
		if e := recover(); e != nil {
			buf := make([]byte, 1<<16)
			n := runtime.Stack(buf, false)
			run.panicked = fmt.Sprintf("%v\n%s", e, buf[:n])
		}
	}()
	srv := server.NewServer()
	run.srv = srv
	srv.SetClient(cl)
	params := &protocol.InitializeParams{Capabilities: protocol.ClientCapabilities{Workspace: &protocol.WorkspaceClientCapabilities{Configuration: true}}}
	if s.Workspace {
		params.WorkspaceFolders = []protocol.WorkspaceFolder{{URI: "file://" + dir, Name: "w"}}
	}
	if _, err := srv.Initialize(ctx, params); err != nil {
		panic(err)
	}
	srv.Initialized(ctx, &protocol.InitializedParams{})
	if cl.gated {
		cl.gate <- struct{}{} // the initial pull is answered at once
	}
	pendingCfg := 0
	settle := func() {
		if sequential {
			c14Wait("all")
		}
	}
	if sequential || s.Mode != "race" {
		c14Wait("refresh")
	}
	for i, op := range s.Ops {
		c14Progress.Add(1)
		switch op.K {
		case "open":
			run.noteTask(run.uris[op.D])
			run.opened[op.D] = true
			srv.DidOpen(ctx, &protocol.DidOpenTextDocumentParams{TextDocument: protocol.TextDocumentItem{URI: run.uris[op.D], Text: op.T, Version: 1}})
			cl.awaitTask()
			settle()
		case "change":
			ch := protocol.TextDocumentContentChangeEvent{Text: op.T}
			if len(op.R) == 4 {
				ch.Range = protocol.Range{Start: protocol.Position{Line: uint32(op.R[0]), Character: uint32(op.R[1])}, End: protocol.Position{Line: uint32(op.R[2]), Character: uint32(op.R[3])}}
			}
			if run.opened[op.D] {
				run.noteTask(run.uris[op.D])
			}
			srv.DidChange(ctx, &protocol.DidChangeTextDocumentParams{
				TextDocument:   protocol.VersionedTextDocumentIdentifier{TextDocumentIdentifier: protocol.TextDocumentIdentifier{URI: run.uris[op.D]}, Version: int32(i + 2)},
				ContentChanges: []protocol.TextDocumentContentChangeEvent{ch}})
			if run.opened[op.D] {
				cl.awaitTask()
			}
			settle()
		case "save":
			srv.DidSave(ctx, &protocol.DidSaveTextDocumentParams{TextDocument: protocol.TextDocumentIdentifier{URI: run.uris[op.D]}})
			settle()
		case "close":
			run.opened[op.D] = false
			srv.DidClose(ctx, &protocol.DidCloseTextDocumentParams{TextDocument: protocol.TextDocumentIdentifier{URI: run.uris[op.D]}})
			settle()
		case "config":
			if f, ok := op.V["features"].(map[string]any); ok {
				if d, ok := f["diagnostics"].(bool); ok {
					run.diagOff = !d
				}
			}
			srv.DidChangeConfiguration(ctx, &protocol.DidChangeConfigurationParams{})
			if cl.gated {
				pendingCfg++
			} else if sequential || s.Mode != "race" {
				// settings are part of the state a response is computed from: apply before going on
				c14Wait("refresh")
			}
			settle()
		case "run":
			// family "order": the N-th task spawned so far runs to its end now (the sequential
			// reference has awaited every task already)
			if cl.hold {
				cl.runTask(op.N)
			}
		case "release":
			if cl.gated && pendingCfg > 0 {
				pendingCfg--
				cl.gate <- struct{}{}
			}
		case "yield":
			if !sequential {
				if op.N < 50 {
					runtime.Gosched()
				} else {
					time.Sleep(time.Duration(op.N) * time.Microsecond)
				}
			}
		default:
			run.request(i, op.K, op.D, op.L, op.C)
		}
	}
	for ; pendingCfg > 0; pendingCfg-- {
		cl.gate <- struct{}{}
	}
	c14Progress.Add(1)
	if cl.hold {
		cl.runAllTasks()
	}
	c14Wait("all")
	// after quiescence: one more round of requests on every open document
	for d := range s.Docs {
		if !run.opened[d] {
			continue
		}
		for _, k := range []string{"completion", "hover", "semtok", "format", "codeaction", "references"} {
			run.request(len(s.Ops)+d, k, d, 1+d, 6)
		}
	}
	return run
}

func c14RunSched(c *Ctx, s *c14Sched, idx int) map[string]any {
	dir := filepath.Join(c.Tmp, fmt.Sprintf("c14-ws-%d-%d", os.Getpid(), idx))
	if c.Tmp == "" {
		dir, _ = os.MkdirTemp("", "c14-ws-")
	}
	os.MkdirAll(dir, 0o755)
	defer os.RemoveAll(dir)
	for _, d := range s.Docs {
		os.WriteFile(filepath.Join(dir, d.Name), []byte(d.Text), 0o644)
	}
	for _, d := range s.Files {
		os.MkdirAll(filepath.Dir(filepath.Join(dir, d.Name)), 0o755)
		os.WriteFile(filepath.Join(dir, d.Name), []byte(d.Text), 0o644)
	}
	c14Active.Store(true)
	defer c14Active.Store(false)
	impl := map[string]any{"race": false, "deadlock": false, "panic": false}
	diffs := []any{}
	report := ""
	reps := s.Reps
	if reps < 1 {
		reps = 1
	}
	for rep := 0; rep < reps; rep++ {
		run := c14RunOnce(s, dir, false, s.Jitter+uint64(rep))
		if run.panicked != "" {
			impl["panic"] = true
			report = run.panicked
			break
		}
		c.Count(s.Mode + ".runs")
		if s.Mode == "inc" {
			// each document's published include errors must be those of its own tree
			seq := c14RunOnce(s, dir, true, 0)
			if seq.panicked != "" {
				impl["panic"] = true
				report = seq.panicked
				break
			}
			for d, u := range run.uris {
				if !run.opened[d] {
					continue
				}
				c.Count("inc.compared")
				got := strings.Join(run.cl.diagOf(u), "\n")
				wantL := seq.cl.diagOf(u)
				want := strings.Join(wantL, "\n")
				if len(wantL) > 0 {
					c.Count("inc.with-include-error")
				}
				if got != want {
					c.Count("inc.diff")
					diffs = append(diffs, map[string]any{"i": len(s.Ops), "k": "diag", "d": d, "ws": run.srv.Workspace() != nil, "inflight": 0, "overlap": false, "diagoff": false, "inc": true,
						"got": clip(got, 600), "want": clip(want, 600)})
				}
			}
			if len(diffs) > 0 {
				break
			}
			continue
		}
		if s.Mode != "resp" {
			continue
		}
		seq1 := c14RunOnce(s, dir, true, 0)
		seq2 := c14RunOnce(s, dir, true, 0)
		if seq1.panicked != "" || seq2.panicked != "" {
			impl["panic"] = true
			report = seq1.panicked + seq2.panicked
			break
		}
		if len(seq1.resps) != len(run.resps) || len(seq2.resps) != len(run.resps) {
			diffs = append(diffs, map[string]any{"i": -1, "k": "count", "ws": false, "inflight": 0, "overlap": false, "diagoff": false, "inc": false, "got": fmt.Sprint(len(run.resps)), "want": fmt.Sprint(len(seq1.resps))})
			continue
		}
		for j, got := range run.resps {
			c.Count("resp.compared")
			if seq1.resps[j].body != seq2.resps[j].body {
				c.Count("resp.skipped-nondeterministic-" + got.kind)
				continue
			}
			if got.inflight > 0 || got.overlap {
				c.Count("resp.with-task-in-flight")
			}
			if got.window {
				// the window of the former finding resolved-pending: judged like every other response
				c.Count(fmt.Sprintf("window.hit.%s.ws=%v.diagoff=%v", got.kind, run.srv.Workspace() != nil, got.diagOff))
			}
			if got.body == seq1.resps[j].body {
				continue
			}
			c.Count("resp.diff-" + got.kind)
			diffs = append(diffs, map[string]any{"i": got.op, "k": got.kind, "d": got.doc, "ws": got.ws, "inflight": got.inflight, "overlap": got.overlap, "diagoff": got.diagOff, "inc": got.inc, "window": got.window,
				"got": clip(got.body, 400), "want": clip(seq1.resps[j].body, 400)})
		}
	}
	return map[string]any{"sched": s, "impl": impl, "diffs": diffs, "pair": []string{}, "report": report}
}

func clip(s string, n int) string {
	if len(s) > n {
		return s[:n] + "..."
	}
	return s
}
