package main

// C09: find-references / prepare-rename / rename over workspaces of 1..4 files connected by
// include directives.  Every case is a whole session against a fresh real Server (Initialize
// with or without a root URI, Initialized, DidOpen / DidChange with texts that may differ from
// disk, each awaited through a client stub that receives publishDiagnostics) followed by a
// batch of requests.  The line carries, besides the implementation's answers, what the Lean
// side needs: the syntax trees of all texts (real parser), the resolved journal the server
// holds (real loader / workspace), the generator-known lexeme spans of every symbol.

import (
	"context"
	"fmt"
	"math/rand/v2"
	"os"
	"path/filepath"
	"sort"
	"strings"
	"time"

	"go.lsp.dev/protocol"
	"go.lsp.dev/uri"

	"github.com/juev/hledger-lsp/internal/ast"
	"github.com/juev/hledger-lsp/internal/include"
	"github.com/juev/hledger-lsp/internal/server"
)

func init() {
	register("C09", genC09)
	replayers["c09.refs"] = replayC09
	replayers["c09.rename"] = replayC09
}

// ---------------------------------------------------------------- client stub

type c09Client struct {
	protocol.Client
	ch chan protocol.DocumentURI
}

func (c *c09Client) PublishDiagnostics(_ context.Context, p *protocol.PublishDiagnosticsParams) error {
	c.ch <- p.URI
	return nil
}
func (c *c09Client) LogMessage(context.Context, *protocol.LogMessageParams) error   { return nil }
func (c *c09Client) ShowMessage(context.Context, *protocol.ShowMessageParams) error { return nil }
func (c *c09Client) Configuration(context.Context, *protocol.ConfigurationParams) ([]interface{}, error) {
	return nil, nil
}

func (c *c09Client) wait() {
	select {
	case <-c.ch:
	case <-time.After(10 * time.Second):
		panic("c09: no publishDiagnostics within 10 s")
	}
}

// ---------------------------------------------------------------- spans and the text builder

const (
	kAccount   = 0
	kCommodity = 1
	kPayee     = 2

	flNonBMP    = 1 // a non-BMP character occurs on the line before the end of the lexeme
	flQuoted    = 2 // the lexeme is the quoted form of the name
	flTextTrail = 4 // commodity lexed as free text and followed by blanks
	flPayeeOdd  = 8 // header is not DATE [STATUS ]PAYEE with single blanks (evidence counters only)
)

type c09Span struct {
	K      int
	Name   string
	Line   int
	C0, C1 int // UTF-16 units
	Decl   bool
	Site   string // posting acctdir amount cost assert comdir price priceamt D format payee
	Flags  int
}

func (s c09Span) J() []any {
	d := 0
	if s.Decl {
		d = 1
	}
	return []any{s.K, hx(s.Name), s.Line, s.C0, s.C1, d, s.Site, s.Flags}
}

type jb struct {
	sb    strings.Builder
	line  int
	col   int
	nb    bool
	spans []c09Span
}

func (b *jb) w(s string) {
	for _, r := range s {
		switch {
		case r == '\n':
			b.line++
			b.col = 0
			b.nb = false
		case r >= 0x10000:
			b.col += 2
			b.nb = true
		default:
			b.col++
		}
	}
	b.sb.WriteString(s)
}

func (b *jb) sym(k int, name, lexeme string, decl bool, site string, fl int) {
	c0 := b.col
	b.w(lexeme)
	if b.nb {
		fl |= flNonBMP
	}
	b.spans = append(b.spans, c09Span{k, name, b.line, c0, b.col, decl, site, fl})
}

// ---------------------------------------------------------------- symbol pools

type c09Comm struct {
	sym    string
	left   bool // may be written on the left
	right  bool
	quoted bool
	text   bool // lexed as free text (lower case): only last on a line
	cur    bool // currency sign
}

var c09Comms = []c09Comm{
	{sym: "$", left: true, right: false, cur: true},
	{sym: "€", left: true, right: true, cur: true},
	{sym: "₽", left: false, right: true, cur: true},
	{sym: "USD", left: true, right: true},
	{sym: "EUR", left: false, right: true},
	{sym: "AAPL", left: false, right: true},
	{sym: "BTC", left: true, right: true},
	{sym: "AAPL 2", left: true, right: true, quoted: true},
	{sym: "\U0001F600", left: true, right: true, quoted: true},
	{sym: "x \U0001D11E", left: false, right: true, quoted: true},
	{sym: "usd", right: true, text: true},
	{sym: "шт", right: true, text: true},
}

var c09Accounts = []string{
	"assets:cash", "assets:bank:checking", "expenses:food", "expenses:rent", "income:salary",
	"liabilities:card", "assets:my bank", "расходы:еда", "expenses:café", "equity:opening-balances",
	"assets:a_b.c&d", "Assets:Cash",
}
var c09AccountsNB = []string{"assets:\U0001F4B0 gold", "expenses:\U0001D11E", "a\U0001F600b:c", "\U00010000x:y z", "fun:\U0001F600\U0001F600"}

var c09Payees = []string{
	"Shop", "Grocery Store", "Café Roma", "Landlord", "Employer Inc", "Über shop", "shop",
	"Coffee & more", "Магазин",
}
var c09PayeesNB = []string{"Pizza \U0001F355", "\U0001F600 bar", "\U0001D11E music \U0001D11E", "b\U0010FFFFend"}

var c09Numbers = []string{"5", "12.50", "1,234.56", "0.5", "3", "100", "42.00", "7.125"}

type c09Pool struct {
	accts  []string
	comms  []c09Comm
	payees []string
}

func c09MakePool(r *rand.Rand, nb bool) c09Pool {
	var p c09Pool
	perm := r.Perm(len(c09Accounts))
	for _, i := range perm[:3+r.IntN(3)] {
		p.accts = append(p.accts, c09Accounts[i])
	}
	perm = r.Perm(len(c09Comms))
	nonBMP := func(s string) bool { return strings.ContainsFunc(s, func(x rune) bool { return x >= 0x10000 }) }
	for _, i := range perm[:2+r.IntN(3)] {
		if nonBMP(c09Comms[i].sym) && !nb {
			continue
		}
		p.comms = append(p.comms, c09Comms[i])
	}
	if len(p.comms) == 0 {
		p.comms = append(p.comms, c09Comms[3])
	}
	// every second pool holds a quoted symbol (declared and priced with its quotes: the directive
	// sites are judged like the posting sites since fix-quoted-commodity-directive.diff)
	if r.IntN(2) == 0 {
		var qs []c09Comm
		for _, c := range c09Comms {
			if c.quoted && (nb || !nonBMP(c.sym)) {
				qs = append(qs, c)
			}
		}
		q := pick(r, qs)
		has := false
		for _, c := range p.comms {
			has = has || c.sym == q.sym
		}
		if !has {
			p.comms = append(p.comms, q)
		}
	}
	perm = r.Perm(len(c09Payees))
	for _, i := range perm[:2+r.IntN(2)] {
		p.payees = append(p.payees, c09Payees[i])
	}
	if nb {
		p.accts = append(p.accts, pick(r, c09AccountsNB))
		p.payees = append(p.payees, pick(r, c09PayeesNB))
	}
	return p
}

// ---------------------------------------------------------------- journal generator

type c09Opts struct {
	includes []string // include directives to write (relative paths)
	nbText   bool     // allow non-BMP characters in comments
	odd      bool     // allow headers with code / date2 / extra blanks
	tricky   bool     // allow trailing blanks before ';' / ')' , text commodities, quoted, D, format
}

// amount writes an amount with commodity c (or none when c == nil); last tells whether the
// amount is the last thing of the amount part (free-text commodities are only written there).
func c09Amount(b *jb, r *rand.Rand, c *c09Comm, site string, neg bool) {
	num := pick(r, c09Numbers)
	if c == nil {
		if neg {
			b.w("-")
		}
		b.w(num)
		return
	}
	lex := c.sym
	fl := 0
	if c.quoted {
		lex = "\"" + c.sym + "\""
		fl |= flQuoted
	}
	left := c.left && (!c.right || r.IntN(2) == 0)
	if left {
		switch {
		case c.cur:
			switch r.IntN(4) {
			case 0:
				if neg {
					b.w("-")
				}
				b.sym(kCommodity, c.sym, lex, false, site, fl)
				b.w(num)
			case 1:
				b.sym(kCommodity, c.sym, lex, false, site, fl)
				if neg {
					b.w("-")
				}
				b.w(num)
			case 2:
				// no sign here: renaming "-$ 5" to a letter commodity gives "-XYZ 5", which the
				// lexer does not read as an amount (a parser limitation, C03)
				b.sym(kCommodity, c.sym, lex, false, site, fl)
				b.w(" " + num)
			default:
				b.sym(kCommodity, c.sym, lex, false, site, fl)
				b.w(num)
			}
		case c.quoted:
			b.sym(kCommodity, c.sym, lex, false, site, fl)
			b.w(" ")
			if neg {
				b.w("-")
			}
			b.w(num)
		default:
			b.sym(kCommodity, c.sym, lex, false, site, fl)
			if r.IntN(2) == 0 {
				b.w(" ")
			}
			if neg {
				b.w("-")
			}
			b.w(num)
		}
		return
	}
	if neg {
		b.w("-")
	}
	b.w(num)
	if c.cur || c.quoted {
		if r.IntN(3) != 0 {
			b.w(" ")
		}
	} else {
		b.w(" ")
	}
	b.sym(kCommodity, c.sym, lex, false, site, fl)
}

func c09Comment(r *rand.Rand, nb bool) string {
	cs := []string{"note", "lunch with team", "tag: value", "ref:123, kind: misc", "é ü", "see #12"}
	s := pick(r, cs)
	if nb && r.IntN(3) == 0 {
		s += " \U0001F600"
	}
	return s
}

func c09Date(r *rand.Rand) string {
	sep := pick(r, []string{"-", "-", "-", "/", "."})
	return fmt.Sprintf("2024%s%02d%s%02d", sep, 1+r.IntN(12), sep, 1+r.IntN(28))
}

func (g *c09Pool) transaction(b *jb, r *rand.Rand, o c09Opts) {
	b.w(c09Date(r))
	// what may stand between the date and the payee: a secondary date, a status mark, a code, each
	// after a run of blanks and tabs (the payee's range is read off the header line:
	// fix-payee-range.diff; `odd` only feeds the evidence counter)
	odd := false
	gap := func() string {
		if !o.odd {
			return " "
		}
		switch r.IntN(8) {
		case 0:
			odd = true
			return "\t"
		case 1:
			odd = true
			return pick(r, []string{" \t", "\t ", " \t "})
		case 2, 3:
			odd = true
			return pick(r, []string{"  ", "   ", "      "})
		}
		return " "
	}
	if o.odd && r.IntN(3) == 0 {
		b.w("=" + c09Date(r))
		odd = true
	}
	if r.IntN(3) == 0 {
		b.w(gap() + pick(r, []string{"*", "!"}))
	}
	if o.odd && r.IntN(3) == 0 {
		b.w(gap() + "(" + pick(r, []string{"123", "A-7", "x y", "№ 5"}) + ")")
		odd = true
	}
	sp := gap()
	b.w(sp)
	payee := pick(r, g.payees)
	fl := 0
	if odd {
		fl = flPayeeOdd
	}
	b.sym(kPayee, payee, payee, false, "payee", fl)
	if r.IntN(4) == 0 {
		b.w(pick(r, []string{" | ", "|", " |", "| "}) + pick(r, []string{"weekly", "note text", "№ 5"}))
	}
	if r.IntN(5) == 0 {
		b.w(pick(r, []string{" ", "  ", ""}) + ";" + pick(r, []string{" ", ""}) + c09Comment(r, o.nbText))
	}
	b.w("\n")
	if r.IntN(6) == 0 {
		b.w("    ; " + c09Comment(r, o.nbText) + "\n")
	}
	np := 2 + r.IntN(2)
	for i := 0; i < np; i++ {
		b.w(pick(r, []string{"  ", "    ", "    ", "      "}))
		if r.IntN(6) == 0 {
			b.w(pick(r, []string{"* ", "! "}))
		}
		acct := pick(r, g.accts)
		open, cl := "", ""
		switch r.IntN(8) {
		case 0:
			open, cl = "(", ")"
		case 1:
			open, cl = "[", "]"
		}
		b.w(open)
		b.sym(kAccount, acct, acct, false, "posting", 0)
		// a single blank behind the account name, before ')' ']' ';': the account token ends with
		// the name (fix-trailing-blank-ranges), so every session may have it
		trailing := r.IntN(4) == 0
		if trailing && cl != "" {
			b.w(" ")
		}
		b.w(cl)
		hasAmount := i < np-1 || r.IntN(3) != 0
		endsWithText := false
		if hasAmount {
			b.w(pick(r, []string{"  ", "   ", "      "}))
			var c *c09Comm
			if r.IntN(8) != 0 {
				cc := pick(r, g.comms)
				c = &cc
			}
			more := r.IntN(3) == 0 && c != nil
			if c != nil && c.text {
				// a free-text commodity swallows the rest of the line: only write it last
				more = false
			}
			c09Amount(b, r, c, "amount", r.IntN(2) == 0)
			endsWithText = c != nil && c.text
			if more {
				switch r.IntN(3) {
				case 0:
					cc := g.nonText(r)
					b.w(pick(r, []string{" @ ", " @@ ", "  @  "}))
					c09Amount(b, r, &cc, "cost", false)
				case 1:
					cc := g.nonText(r)
					b.w(pick(r, []string{" = ", " == ", "  =  "}))
					c09Amount(b, r, &cc, "assert", r.IntN(4) == 0)
				default:
					c1, c2 := g.nonText(r), g.nonText(r)
					b.w(" @ ")
					c09Amount(b, r, &c1, "cost", false)
					b.w(" = ")
					c09Amount(b, r, &c2, "assert", false)
				}
			}
		}
		if r.IntN(5) == 0 || (endsWithText && r.IntN(2) == 0) || (!hasAmount && trailing && cl == "" && r.IntN(2) == 0) {
			gap := pick(r, []string{"  ", "   "})
			if endsWithText {
				gap = pick(r, []string{" ", "  ", "   ", " \t"})
			}
			if !hasAmount && trailing && cl == "" {
				gap = " " // single blank before ';': the account token ends with the name, before it
			}
			if endsWithText {
				// a commodity lexed as text followed by blanks: the token ends with its value
				b.spans[len(b.spans)-1].Flags |= flTextTrail
			}
			b.w(gap + ";" + pick(r, []string{" ", ""}) + c09Comment(r, o.nbText))
		}
		b.w("\n")
	}
}

func (g *c09Pool) nonText(r *rand.Rand) c09Comm {
	for i := 0; i < 20; i++ {
		c := pick(r, g.comms)
		if !c.text {
			return c
		}
	}
	return c09Comms[3]
}

func c09FormatOf(b *jb, r *rand.Rand, c c09Comm, site string, decl bool) {
	lex := c.sym
	fl := 0
	if c.quoted {
		lex = "\"" + c.sym + "\""
		fl = flQuoted
	}
	if c.left && (c.cur || r.IntN(2) == 0) && !c.quoted {
		b.sym(kCommodity, c.sym, lex, decl, site, fl)
		b.w(pick(r, []string{"1,000.00", "1000.00", "1.000,00"}))
	} else {
		b.w(pick(r, []string{"1,000.00", "1000.00", "1.000,00"}) + " ")
		b.sym(kCommodity, c.sym, lex, decl, site, fl)
	}
}

func (g *c09Pool) directive(b *jb, r *rand.Rand, o c09Opts) {
	switch x := r.IntN(10); {
	case x < 3:
		b.w("account ")
		an := pick(r, g.accts)
		b.sym(kAccount, an, an, true, "acctdir", 0)
		if r.IntN(4) == 0 {
			b.w("  ; " + c09Comment(r, o.nbText))
		}
		b.w("\n")
		if r.IntN(5) == 0 {
			b.w("  ; type: A\n")
		}
	case x < 6:
		c := pick(r, g.comms)
		b.w("commodity ")
		if r.IntN(2) == 0 && !c.text {
			c09FormatOf(b, r, c, "comdir", true)
		} else {
			lex := c.sym
			fl := 0
			if c.quoted {
				lex = "\"" + c.sym + "\""
				fl = flQuoted
			}
			b.sym(kCommodity, c.sym, lex, true, "comdir", fl)
			if c.text && r.IntN(2) == 0 {
				// a text token followed by blanks: the directive's commodity ends with the symbol
				b.w(pick(r, []string{" ", "  ", "   "}) + "; " + c09Comment(r, o.nbText))
			}
		}
		b.w("\n")
		if o.tricky && r.IntN(3) == 0 && !c.text {
			b.w("  format ")
			c09FormatOf(b, r, c, "format", false)
			b.w("\n")
		}
	case x < 8:
		c1, c2 := g.nonText(r), g.nonText(r)
		lex := c1.sym
		fl := 0
		if c1.quoted {
			lex = "\"" + c1.sym + "\""
			fl = flQuoted
		}
		b.w("P " + c09Date(r) + " ")
		b.sym(kCommodity, c1.sym, lex, false, "price", fl)
		b.w(" ")
		c09Amount(b, r, &c2, "priceamt", false)
		b.w("\n")
	case x < 9:
		if o.tricky {
			c := g.nonText(r)
			b.w("D ")
			c09FormatOf(b, r, c, "D", false)
			b.w("\n")
		} else {
			b.w("Y 2024\n")
		}
	default:
		b.w("; " + c09Comment(r, o.nbText) + "\n")
	}
}

// c09Journal writes one file: include directives first or in between, then a mix of entries.
func (g *c09Pool) journal(r *rand.Rand, o c09Opts, size int) (string, []c09Span) {
	b := &jb{}
	incs := append([]string(nil), o.includes...)
	if r.IntN(3) == 0 {
		b.w("; " + c09Comment(r, o.nbText) + "\n\n")
	}
	for i := 0; i < size; i++ {
		if len(incs) > 0 && r.IntN(2) == 0 {
			b.w("include " + incs[0] + "\n")
			incs = incs[1:]
			if r.IntN(2) == 0 {
				b.w("\n")
			}
			continue
		}
		if r.IntN(3) == 0 {
			g.directive(b, r, o)
		} else {
			g.transaction(b, r, o)
		}
		if r.IntN(5) != 0 {
			b.w("\n")
		}
	}
	for _, inc := range incs {
		b.w("include " + inc + "\n")
	}
	return b.sb.String(), b.spans
}

// ---------------------------------------------------------------- workspaces

type c09File struct {
	Path  string // relative to the workspace directory
	Disk  string
	Buf   string // text held by the client ("" when closed)
	How   string // closed | open-same | open-diff | changed | changed-ranged
	Incs  []string
	DiskS []c09Span
	BufS  []c09Span
}

func (f *c09File) open() bool { return f.How != "closed" }
func (f *c09File) text() string {
	if f.open() {
		return f.Buf
	}
	return f.Disk
}
func (f *c09File) spans() []c09Span {
	if f.open() {
		return f.BufS
	}
	return f.DiskS
}

type c09Scenario struct {
	Mode  string // ws | single
	Files []*c09File
	Order []int // order in which files are opened
}

// c09Graph returns, for n files, the list of include edges (from, to) of a connected acyclic
// shape rooted at 0.
func c09Graph(r *rand.Rand, n int) [][2]int {
	var e [][2]int
	switch n {
	case 1:
	case 2:
		e = [][2]int{{0, 1}}
	case 3:
		switch r.IntN(3) {
		case 0:
			e = [][2]int{{0, 1}, {1, 2}} // chain
		case 1:
			e = [][2]int{{0, 1}, {0, 2}} // star
		default:
			e = [][2]int{{0, 1}, {0, 2}, {1, 2}} // triangle (shared leaf)
		}
	default:
		switch r.IntN(5) {
		case 0:
			e = [][2]int{{0, 1}, {1, 2}, {2, 3}}
		case 1:
			e = [][2]int{{0, 1}, {0, 2}, {0, 3}}
		case 2:
			e = [][2]int{{0, 1}, {0, 2}, {1, 3}, {2, 3}} // diamond
		case 3:
			e = [][2]int{{0, 1}, {1, 2}, {1, 3}}
		default:
			e = [][2]int{{0, 1}, {0, 2}, {2, 3}}
		}
	}
	return e
}

func c09RelInclude(from, to string) string {
	rel, err := filepath.Rel(filepath.Dir(from), to)
	if err != nil {
		return to
	}
	return rel
}

func genC09Scenario(c *Ctx, r *rand.Rand) *c09Scenario {
	n := 1 + r.IntN(4)
	sc := &c09Scenario{Mode: pick(r, []string{"ws", "single"})}
	nameSets := [][]string{
		{"main.journal", "b.journal", "c.journal", "d.journal"},
		{"a.journal", "b.journal", "sub/c.journal", "sub/d.journal"},
		{"2024.journal", "accounts.journal", "inc/prices.journal", "z.journal"},
		{"root.journal", "sub/x.journal", "sub/y.journal", "other/z.journal"},
	}
	names := pick(r, nameSets)
	edges := c09Graph(r, n)
	// characters outside the BMP in accounts, payees and comments: the server converts rune
	// columns to UTF-16 units at the protocol boundary, so these sessions are judged like any other
	nb := r.IntN(3) == 0
	o := c09Opts{nbText: nb, odd: r.IntN(4) != 0, tricky: r.IntN(3) == 0}
	pool := c09MakePool(r, nb)
	if nb {
		c.Count("ws.nonbmp")
	}
	if o.odd {
		c.Count("ws.oddheaders")
	}
	if o.tricky {
		c.Count("ws.tricky")
	}
	for i := 0; i < n; i++ {
		f := &c09File{Path: names[i]}
		for _, e := range edges {
			if e[0] == i {
				f.Incs = append(f.Incs, c09RelInclude(names[i], names[e[1]]))
			}
		}
		oi := o
		oi.includes = f.Incs
		f.Disk, f.DiskS = pool.journal(r, oi, 2+r.IntN(4))
		switch x := r.IntN(10); {
		case x < 1 && n > 1:
			f.How = "closed"
		case x < 5:
			f.How, f.Buf, f.BufS = "open-same", f.Disk, f.DiskS
		case x < 6:
			f.How = "open-diff"
			f.Buf, f.BufS = pool.journal(r, oi, 2+r.IntN(4))
		case x < 9:
			f.How = "changed"
			f.Buf, f.BufS = pool.journal(r, oi, 2+r.IntN(4))
		default:
			f.How = "changed-ranged"
			f.Buf, f.BufS = pool.journal(r, oi, 2+r.IntN(4))
		}
		if f.open() && r.IntN(4) == 0 {
			// an unsaved edit that adds no name and moves no transaction above it: a comment or
			// blank line typed in front of an entry (often below the last transaction, in front of
			// declarations).  Every symbol keeps its text; the occurrences below move down a line.
			if buf, spans, ok := c09NeutralEdit(r, f.Disk, f.DiskS); ok {
				f.How, f.Buf, f.BufS = "changed-neutral", buf, spans
			}
		}
		sc.Files = append(sc.Files, f)
	}
	if r.IntN(4) == 0 {
		// a second top-level journal that nobody includes (its name sorts after the root's, so the
		// root chosen by include graph stays Files[0]); half of the time it includes a file of
		// the root's tree other than the root
		f := &c09File{Path: "zz-other.journal"}
		if n > 1 && r.IntN(2) == 0 {
			f.Incs = []string{c09RelInclude(f.Path, names[1+r.IntN(n-1)])}
			c.Count("ws.orphan.includes")
		}
		oi := o
		oi.includes = f.Incs
		f.Disk, f.DiskS = pool.journal(r, oi, 2+r.IntN(3))
		switch x := r.IntN(4); {
		case x < 2:
			f.How, f.Buf, f.BufS = "open-same", f.Disk, f.DiskS
		case x < 3:
			f.How = "open-diff"
			f.Buf, f.BufS = pool.journal(r, oi, 2+r.IntN(3))
		default:
			f.How = "changed"
			f.Buf, f.BufS = pool.journal(r, oi, 2+r.IntN(3))
		}
		sc.Files = append(sc.Files, f)
		n++
		c.Count("ws.orphan")
	}
	anyOpen := false
	for _, f := range sc.Files {
		anyOpen = anyOpen || f.open()
	}
	if !anyOpen {
		f := sc.Files[0]
		f.How, f.Buf, f.BufS = "open-same", f.Disk, f.DiskS
	}
	sc.Order = r.Perm(n)
	c.Count(fmt.Sprintf("ws.files=%d", n))
	c.Count("ws.mode=" + sc.Mode)
	for _, f := range sc.Files {
		c.Count("file." + f.How)
	}
	return sc
}

// c09NeutralEdit inserts one comment or blank line in front of a line that starts an entry
// (column 1, not blank) and moves the spans below it down by one line.
func c09NeutralEdit(r *rand.Rand, disk string, spans []c09Span) (string, []c09Span, bool) {
	lines := strings.SplitAfter(disk, "\n")
	var cand []int
	lastTx := -1
	for i, l := range lines {
		if l == "" || l[0] == ' ' || l[0] == '\t' || l[0] == '\n' || l[0] == '\r' {
			continue
		}
		cand = append(cand, i)
		if l[0] >= '0' && l[0] <= '9' {
			lastTx = i
		}
	}
	if len(cand) == 0 {
		return "", nil, false
	}
	p := cand[r.IntN(len(cand))]
	if r.IntN(2) == 0 {
		// below the last transaction: nothing the workspace indexes by position moves
		var below []int
		for _, i := range cand {
			if i > lastTx {
				below = append(below, i)
			}
		}
		if len(below) > 0 {
			p = below[r.IntN(len(below))]
		}
	}
	ins := pick(r, []string{"; note\n", "\n", "; list of accounts\n", "; k: v\n"})
	buf := strings.Join(lines[:p], "") + ins + strings.Join(lines[p:], "")
	out := make([]c09Span, len(spans))
	for i, s := range spans {
		if s.Line >= p {
			s.Line++
		}
		out[i] = s
	}
	return buf, out, true
}

// ---------------------------------------------------------------- running a session

type c09Session struct {
	dir  string
	srv  *server.Server
	cl   *c09Client
	sc   *c09Scenario
	ctx  context.Context
	tree *c09Trees
}

type c09Trees struct {
	idx  map[string]int
	list []J
}

func (t *c09Trees) add(j *ast.Journal) int {
	jj := journalJ(j)
	b, _ := marshal(jj)
	k := string(b)
	if i, ok := t.idx[k]; ok {
		return i
	}
	t.idx[k] = len(t.list)
	t.list = append(t.list, jj)
	return len(t.list) - 1
}

func (t *c09Trees) parse(text string) (int, int) {
	j, errs := hxParse(text)
	return t.add(j), len(errs)
}

var c09Counter int

func c09Start(c *Ctx, sc *c09Scenario) *c09Session {
	c09Counter++
	// the workspace root is looked up through these before the directory is scanned
	_ = os.Unsetenv("LEDGER_FILE")
	_ = os.Unsetenv("HLEDGER_JOURNAL")
	base := c.Tmp
	if base == "" {
		base = os.TempDir()
	}
	dir, err := os.MkdirTemp(base, fmt.Sprintf("c09-%d-", c09Counter))
	if err != nil {
		panic(err)
	}
	if real, err := filepath.EvalSymlinks(dir); err == nil {
		dir = real
	}
	for _, f := range sc.Files {
		p := filepath.Join(dir, f.Path)
		_ = os.MkdirAll(filepath.Dir(p), 0o755)
		if err := os.WriteFile(p, []byte(f.Disk), 0o644); err != nil {
			panic(err)
		}
	}
	s := &c09Session{dir: dir, sc: sc, ctx: context.Background(),
		tree: &c09Trees{idx: map[string]int{}}}
	s.srv = server.NewServer()
	s.cl = &c09Client{ch: make(chan protocol.DocumentURI, 64)}
	s.srv.SetClient(s.cl)
	ip := &protocol.InitializeParams{}
	if sc.Mode == "ws" {
		ip.RootURI = uri.File(dir) //nolint:staticcheck
	}
	if _, err := s.srv.Initialize(s.ctx, ip); err != nil {
		panic(err)
	}
	_ = s.srv.Initialized(s.ctx, &protocol.InitializedParams{})
	for _, i := range sc.Order {
		f := sc.Files[i]
		if !f.open() {
			continue
		}
		u := s.uri(f.Path)
		first := f.Buf
		if f.How == "changed" || f.How == "changed-ranged" || f.How == "changed-neutral" {
			first = f.Disk
		}
		_ = s.srv.DidOpen(s.ctx, &protocol.DidOpenTextDocumentParams{
			TextDocument: protocol.TextDocumentItem{URI: u, Text: first, Version: 1}})
		s.cl.wait()
		switch f.How {
		case "changed":
			_ = s.srv.DidChange(s.ctx, &protocol.DidChangeTextDocumentParams{
				TextDocument:   protocol.VersionedTextDocumentIdentifier{TextDocumentIdentifier: protocol.TextDocumentIdentifier{URI: u}, Version: 2},
				ContentChanges: []protocol.TextDocumentContentChangeEvent{{Text: f.Buf}}})
			s.cl.wait()
		case "changed-neutral":
			// the one inserted line, as the ranged insertion an editor sends
			dl, bl := strings.SplitAfter(f.Disk, "\n"), strings.SplitAfter(f.Buf, "\n")
			p := 0
			for p < len(dl) && p < len(bl) && dl[p] == bl[p] {
				p++
			}
			ch := protocol.TextDocumentContentChangeEvent{
				Range: protocol.Range{Start: protocol.Position{Line: uint32(p), Character: 0}, End: protocol.Position{Line: uint32(p), Character: 0}},
				Text:  bl[p]}
			if p == 0 {
				// the typed API cannot tell a zero range from an absent one (C01): send the whole text
				ch = protocol.TextDocumentContentChangeEvent{Text: f.Buf}
			}
			_ = s.srv.DidChange(s.ctx, &protocol.DidChangeTextDocumentParams{
				TextDocument:   protocol.VersionedTextDocumentIdentifier{TextDocumentIdentifier: protocol.TextDocumentIdentifier{URI: u}, Version: 2},
				ContentChanges: []protocol.TextDocumentContentChangeEvent{ch}})
			s.cl.wait()
			if got, _ := s.srv.GetDocument(u); got != f.Buf {
				panic("c09: ranged line insertion did not yield the buffer")
			}
		case "changed-ranged":
			// replace the whole document by a ranged change (start 0:0, end past the last line)
			_ = s.srv.DidChange(s.ctx, &protocol.DidChangeTextDocumentParams{
				TextDocument: protocol.VersionedTextDocumentIdentifier{TextDocumentIdentifier: protocol.TextDocumentIdentifier{URI: u}, Version: 2},
				ContentChanges: []protocol.TextDocumentContentChangeEvent{{
					Range: protocol.Range{Start: protocol.Position{Line: 0, Character: 0},
						End: protocol.Position{Line: uint32(strings.Count(f.Disk, "\n") + 1), Character: 0}},
					Text: f.Buf}}})
			s.cl.wait()
			if got, _ := s.srv.GetDocument(u); got != f.Buf {
				panic("c09: ranged whole-document replacement did not yield the buffer")
			}
		}
	}
	return s
}

func (s *c09Session) close() { _ = os.RemoveAll(s.dir) }

func (s *c09Session) uri(rel string) protocol.DocumentURI {
	return uri.File(filepath.Join(s.dir, rel))
}

func (s *c09Session) rel(p string) string {
	p = strings.TrimPrefix(p, "file://")
	if r, err := filepath.Rel(s.dir, p); err == nil && !strings.HasPrefix(r, "..") {
		return r
	}
	return p
}

// resolvedFor reports what Server.resolvedWithPrimaryPath can choose from for the document rel:
// the workspace's resolved journal with the root journal's path, and the journal stored for the
// document's own URI.  The choice itself is made by the model (HL.Refs.resolvedWithPrimaryPath),
// and with it the choice of the texts positions are converted with (workspace view: the buffers of
// the open files; own tree: the requesting document's buffer, every other file from disk).
func (s *c09Session) resolvedFor(rel string) J {
	out := J{"ws": nil, "wsroot": "", "own": s.resolvedJ(s.srv.GetResolved(s.uri(rel))), "cur": rel}
	if ws := s.srv.Workspace(); ws != nil {
		if r := ws.GetResolved(); r != nil {
			out["ws"] = s.resolvedJ(r)
			out["wsroot"] = s.rel(ws.RootJournalPath())
		}
	}
	return out
}

func (s *c09Session) resolvedJ(r *include.ResolvedJournal) any {
	if r == nil {
		return nil
	}
	out := J{"primary": nil}
	if r.Primary != nil {
		out["primary"] = s.tree.add(r.Primary)
	}
	var keys []string
	for k := range r.Files {
		keys = append(keys, k)
	}
	sort.Strings(keys)
	files := [][]any{}
	for _, k := range keys {
		files = append(files, []any{s.rel(k), s.tree.add(r.Files[k])})
	}
	out["files"] = files
	order := []string{}
	for _, p := range r.FileOrder {
		order = append(order, s.rel(p))
	}
	out["order"] = order
	return out
}

func c09RangeJ(r protocol.Range) []any {
	return []any{r.Start.Line, r.Start.Character, r.End.Line, r.End.Character}
}

type c09LocKey struct {
	p              string
	sl, sc, el, ec uint32
}

func (s *c09Session) locsJ(locs []protocol.Location) [][]any {
	keys := make([]c09LocKey, 0, len(locs))
	for _, l := range locs {
		keys = append(keys, c09LocKey{s.rel(string(l.URI)), l.Range.Start.Line, l.Range.Start.Character, l.Range.End.Line, l.Range.End.Character})
	}
	sort.Slice(keys, func(i, j int) bool {
		a, b := keys[i], keys[j]
		if a.p != b.p {
			return a.p < b.p
		}
		if a.sl != b.sl {
			return a.sl < b.sl
		}
		if a.sc != b.sc {
			return a.sc < b.sc
		}
		if a.el != b.el {
			return a.el < b.el
		}
		return a.ec < b.ec
	})
	out := [][]any{}
	for _, k := range keys {
		out = append(out, []any{k.p, k.sl, k.sc, k.el, k.ec})
	}
	return out
}

// ---------------------------------------------------------------- reference applier

func c09Offset(text string, line, ch uint32) int {
	off := 0
	for l := uint32(0); l < line; l++ {
		i := strings.IndexByte(text[off:], '\n')
		if i < 0 {
			return len(text)
		}
		off += i + 1
	}
	end := strings.IndexByte(text[off:], '\n')
	if end < 0 {
		end = len(text) - off
	}
	lineText := text[off : off+end]
	lineText = strings.TrimSuffix(lineText, "\r")
	units := uint32(0)
	for i, r := range lineText {
		if units >= ch {
			return off + i
		}
		if r >= 0x10000 {
			units += 2
		} else {
			units++
		}
	}
	return off + len(lineText)
}

// c09Apply applies the edits of one document the way a client does: all ranges refer to the
// original text.  ok is false when two edits overlap.
func c09Apply(text string, edits []protocol.TextEdit) (string, bool) {
	type e struct {
		a, b int
		t    string
	}
	var es []e
	for _, ed := range edits {
		a := c09Offset(text, ed.Range.Start.Line, ed.Range.Start.Character)
		b := c09Offset(text, ed.Range.End.Line, ed.Range.End.Character)
		if b < a {
			return text, false
		}
		es = append(es, e{a, b, ed.NewText})
	}
	sort.SliceStable(es, func(i, j int) bool { return es[i].a < es[j].a })
	for i := 1; i < len(es); i++ {
		if es[i].a < es[i-1].b {
			return text, false
		}
	}
	var sb strings.Builder
	pos := 0
	for _, x := range es {
		sb.WriteString(text[pos:x.a])
		sb.WriteString(x.t)
		pos = x.b
	}
	sb.WriteString(text[pos:])
	return sb.String(), true
}

// ---------------------------------------------------------------- requests

type c09Req struct {
	Cur  string
	Line uint32
	Ch   uint32
	Incl bool
	New  string
}

func c09NewName(r *rand.Rand, k int) string {
	switch k {
	case kAccount:
		return pick(r, []string{"assets:renamed", "expenses:new name", "x:y:z", "активы:счёт"})
	case kCommodity:
		return pick(r, []string{"XYZ", "CHF", "£", "NEWC"})
	default:
		return pick(r, []string{"Renamed Payee", "New shop", "Baeckerei Süd"})
	}
}

func (s *c09Session) scope(cur string) []string {
	idx := map[string]int{}
	for i, f := range s.sc.Files {
		idx[f.Path] = i
	}
	var seen map[string]bool
	var walk func(p string)
	walk = func(p string) {
		if seen[p] {
			return
		}
		seen[p] = true
		f := s.sc.Files[idx[p]]
		for _, inc := range f.Incs {
			walk(filepath.Join(filepath.Dir(p), inc))
		}
	}
	// with a workspace: the root's tree from the root and its member files; from a journal outside
	// that tree, and without a workspace: the requesting file's own include tree
	seen = map[string]bool{}
	if s.sc.Mode == "ws" {
		walk(s.sc.Files[0].Path)
	}
	if !seen[cur] {
		seen = map[string]bool{}
		walk(cur)
	}
	var out []string
	for p := range seen {
		out = append(out, p)
	}
	sort.Strings(out)
	return out
}

func (s *c09Session) genReqs(c *Ctx, r *rand.Rand, rename bool) []c09Req {
	var reqs []c09Req
	for _, f := range s.sc.Files {
		if !f.open() {
			continue
		}
		spans := f.BufS
		if rename {
			// a few renames per file
			for i := 0; i < 2 && len(spans) > 0; i++ {
				sp := pick(r, spans)
				ch := sp.C0 + r.IntN(sp.C1-sp.C0+1)
				reqs = append(reqs, c09Req{f.Path, uint32(sp.Line), uint32(ch), true, c09NewName(r, sp.K)})
				c.Count("rename.site=" + sp.Site)
				if sp.Flags&flQuoted != 0 {
					c.Count("rename.quoted.site=" + sp.Site)
				}
			}
			// a symbol declared or priced with a quoted lexeme: rename from the directive and from
			// a posting site of the same symbol (the two kinds of site carry the same range
			// convention and the same new text)
			for _, sp := range spans {
				if sp.Flags&flQuoted == 0 || (sp.Site != "comdir" && sp.Site != "price") {
					continue
				}
				ch := sp.C0 + r.IntN(sp.C1-sp.C0+1)
				reqs = append(reqs, c09Req{f.Path, uint32(sp.Line), uint32(ch), true, c09NewName(r, sp.K)})
				c.Count("rename.quoted.site=" + sp.Site)
				for _, o := range spans {
					if o.K == sp.K && o.Name == sp.Name && (o.Site == "amount" || o.Site == "cost" || o.Site == "assert" || o.Site == "priceamt") {
						ch := o.C0 + r.IntN(o.C1-o.C0+1)
						reqs = append(reqs, c09Req{f.Path, uint32(o.Line), uint32(ch), true, c09NewName(r, o.K)})
						c.Count("rename.quoted.site=" + o.Site)
						break
					}
				}
				break
			}
			// a payee behind a secondary date / a code / a run of blanks or tabs: rename from it
			for _, sp := range spans {
				if sp.Flags&flPayeeOdd == 0 {
					continue
				}
				ch := sp.C0 + r.IntN(sp.C1-sp.C0+1)
				reqs = append(reqs, c09Req{f.Path, uint32(sp.Line), uint32(ch), true, c09NewName(r, sp.K)})
				c.Count("rename.oddpayee")
				break
			}
			if r.IntN(4) == 0 {
				// a random position; the new name suits whatever is there
				l, ch := r.IntN(6), r.IntN(30)
				nn := "x:y"
				for _, sp := range spans {
					if sp.Line == l && sp.C0 <= ch && ch <= sp.C1 {
						nn = c09NewName(r, sp.K)
					}
				}
				reqs = append(reqs, c09Req{f.Path, uint32(l), uint32(ch), true, nn})
				c.Count("rename.random")
			}
			continue
		}
		for _, sp := range spans {
			chs := []int{sp.C0, sp.C1}
			if sp.C1-sp.C0 > 1 {
				chs = append(chs, sp.C0+1+r.IntN(sp.C1-sp.C0-1))
			}
			for _, ch := range chs {
				if r.IntN(3) == 0 {
					continue
				}
				reqs = append(reqs, c09Req{f.Path, uint32(sp.Line), uint32(ch), r.IntN(2) == 0, ""})
				c.Count("refs.site=" + sp.Site)
				if sp.Flags&flQuoted != 0 {
					c.Count("refs.quoted.site=" + sp.Site)
				}
				if sp.Flags&flPayeeOdd != 0 {
					c.Count("refs.oddpayee")
				}
			}
			// just outside the lexeme
			if r.IntN(4) == 0 {
				reqs = append(reqs, c09Req{f.Path, uint32(sp.Line), uint32(sp.C1 + 1), true, ""})
				c.Count("refs.outside")
			}
			if r.IntN(6) == 0 && sp.C0 > 0 {
				reqs = append(reqs, c09Req{f.Path, uint32(sp.Line), uint32(sp.C0 - 1), true, ""})
				c.Count("refs.outside")
			}
		}
		nl := strings.Count(f.Buf, "\n")
		for i := 0; i < 3; i++ {
			reqs = append(reqs, c09Req{f.Path, uint32(r.IntN(nl + 2)), uint32(r.IntN(40)), r.IntN(2) == 0, ""})
			c.Count("refs.random")
		}
	}
	return reqs
}

func (s *c09Session) filesJ() []J {
	out := []J{}
	for _, f := range s.sc.Files {
		dt, de := s.tree.parse(f.Disk)
		j := J{"path": f.Path, "how": f.How, "disk": hx(f.Disk), "diskTree": dt, "diskErrs": de,
			"incs": f.Incs, "buf": nil, "tree": dt, "perrs": de}
		if f.open() {
			bt, be := s.tree.parse(f.Buf)
			j["buf"] = hx(f.Buf)
			j["tree"], j["perrs"] = bt, be
		}
		sp := [][]any{}
		for _, x := range f.spans() {
			sp = append(sp, x.J())
		}
		j["spans"] = sp
		out = append(out, j)
	}
	return out
}

// run executes the requests and assembles the op's fields.
func (s *c09Session) run(reqs []c09Req, rename bool) map[string]any {
	files := s.filesJ()
	byPath := map[string]*c09File{}
	for _, f := range s.sc.Files {
		byPath[f.Path] = f
	}
	resIdx := map[string]int{}
	resolveds := []any{}
	reqJ := []J{}
	impl := []any{}
	after := []any{}
	for _, q := range reqs {
		if _, ok := resIdx[q.Cur]; !ok {
			resIdx[q.Cur] = len(resolveds)
			resolveds = append(resolveds, s.resolvedFor(q.Cur))
		}
		cj, _ := s.tree.parse(byPath[q.Cur].Buf)
		reqJ = append(reqJ, J{"cur": q.Cur, "pos": []any{q.Line, q.Ch}, "incl": q.Incl, "new": hx(q.New),
			"res": resIdx[q.Cur], "cj": cj, "scope": s.scope(q.Cur)})
		u := s.uri(q.Cur)
		tdp := protocol.TextDocumentPositionParams{TextDocument: protocol.TextDocumentIdentifier{URI: u},
			Position: protocol.Position{Line: q.Line, Character: q.Ch}}
		if !rename {
			locs, err := s.srv.References(s.ctx, &protocol.ReferenceParams{TextDocumentPositionParams: tdp,
				Context: protocol.ReferenceContext{IncludeDeclaration: q.Incl}})
			if err != nil {
				panic(err)
			}
			impl = append(impl, s.locsJ(locs))
			continue
		}
		prep, err := s.srv.PrepareRename(s.ctx, &protocol.PrepareRenameParams{TextDocumentPositionParams: tdp})
		if err != nil {
			panic(err)
		}
		we, err := s.srv.Rename(s.ctx, &protocol.RenameParams{TextDocumentPositionParams: tdp, NewName: q.New})
		if err != nil {
			panic(err)
		}
		out := J{"prep": nil, "edits": nil}
		if prep != nil {
			out["prep"] = c09RangeJ(*prep)
		}
		aft := []J{}
		if we != nil {
			var us []string
			for k := range we.Changes {
				us = append(us, string(k))
			}
			sort.Strings(us)
			edits := [][]any{}
			touched := map[string]bool{}
			for _, k := range us {
				es := we.Changes[protocol.DocumentURI(k)]
				rel := s.rel(k)
				touched[rel] = true
				for _, e := range es {
					edits = append(edits, []any{rel, e.Range.Start.Line, e.Range.Start.Character, e.Range.End.Line, e.Range.End.Character, hx(e.NewText)})
				}
				f := byPath[rel]
				if f == nil {
					aft = append(aft, J{"path": rel, "ok": false, "tree": nil, "perrs": 0})
					continue
				}
				nt, ok := c09Apply(f.text(), es)
				ti, pe := s.tree.parse(nt)
				aft = append(aft, J{"path": rel, "ok": ok, "tree": ti, "perrs": pe, "text": hx(nt)})
			}
			sort.SliceStable(edits, func(i, j int) bool {
				a, b := edits[i], edits[j]
				if a[0].(string) != b[0].(string) {
					return a[0].(string) < b[0].(string)
				}
				for k := 1; k <= 4; k++ {
					if a[k].(uint32) != b[k].(uint32) {
						return a[k].(uint32) < b[k].(uint32)
					}
				}
				return false
			})
			out["edits"] = edits
		}
		impl = append(impl, out)
		after = append(after, aft)
	}
	root := s.sc.Files[0].Path
	script := J{"order": s.sc.Order}
	m := map[string]any{"mode": s.sc.Mode, "files": files, "root": root, "script": script,
		"reqs": reqJ, "resolveds": resolveds, "impl": impl}
	if rename {
		m["after"] = after
	}
	// the tree table is complete only now
	m["trees"] = s.tree.list
	return m
}

// ---------------------------------------------------------------- generator and replay

func genC09(c *Ctx) {
	r := c.R
	n := c.N(220, 8000)
	for i := 0; i < n; i++ {
		sc := genC09Scenario(c, r)
		s := c09Start(c, sc)
		reqs := s.genReqs(c, r, false)
		c.Emit("c09.refs", s.run(reqs, false))
		if i%2 == 0 {
			rr := s.genReqs(c, r, true)
			c.Emit("c09.rename", s.run(rr, true))
		}
		s.close()
	}
	genC09Docs(c)
	genC09DocsToggle(c)
}

// replayC09 rebuilds the scenario from a recorded op (texts, how each file is open, order,
// requests, spans) and runs it against the real server again.
func replayC09(c *Ctx, m map[string]any) map[string]any {
	sc := &c09Scenario{Mode: m["mode"].(string)}
	fs, _ := m["files"].([]any)
	for _, x := range fs {
		fm := x.(map[string]any)
		f := &c09File{Path: fm["path"].(string), How: fm["how"].(string), Disk: unhx(fm["disk"].(string))}
		if b, ok := fm["buf"].(string); ok {
			f.Buf = unhx(b)
		}
		for _, i := range fm["incs"].([]any) {
			f.Incs = append(f.Incs, i.(string))
		}
		var spans []c09Span
		for _, sx := range fm["spans"].([]any) {
			a := sx.([]any)
			spans = append(spans, c09Span{K: int(a[0].(float64)), Name: unhx(a[1].(string)), Line: int(a[2].(float64)),
				C0: int(a[3].(float64)), C1: int(a[4].(float64)), Decl: a[5].(float64) != 0, Site: a[6].(string), Flags: int(a[7].(float64))})
		}
		if f.open() {
			f.BufS = spans
		} else {
			f.DiskS = spans
		}
		sc.Files = append(sc.Files, f)
	}
	if sm, ok := m["script"].(map[string]any); ok {
		for _, i := range sm["order"].([]any) {
			sc.Order = append(sc.Order, int(i.(float64)))
		}
	}
	if len(sc.Order) != len(sc.Files) {
		sc.Order = nil
		for i := range sc.Files {
			sc.Order = append(sc.Order, i)
		}
	}
	var reqs []c09Req
	for _, x := range m["reqs"].([]any) {
		qm := x.(map[string]any)
		pos := qm["pos"].([]any)
		incl, _ := qm["incl"].(bool)
		nw, _ := qm["new"].(string)
		reqs = append(reqs, c09Req{qm["cur"].(string), uint32(pos[0].(float64)), uint32(pos[1].(float64)), incl, unhx(nw)})
	}
	s := c09Start(c, sc)
	defer s.close()
	return s.run(reqs, m["op"].(string) == "c09.rename")
}
