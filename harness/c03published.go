package main

// C03 through the server: "produces no syntax-error diagnostics" is a statement about what the
// client is sent.  A share of the G journals is fed to ONE long-lived real Server as successive
// versions of an open document; the syntax-error diagnostics PUBLISHED for each version (those
// without a code, not sitting on an include directive) are converted back to parser positions
// and take the place of the parser's own error list in the c03.journal case, next to the tree
// of parser.Parse.  So the oracle (no errors on supported journals) judges what the client sees,
// and the correspondence covers the conversion in between.

import (
	"context"
	"fmt"
	"os"
	"path/filepath"
	"strings"
	"time"
	"unicode/utf8"

	"github.com/juev/hledger-lsp/internal/server"
	"go.lsp.dev/protocol"
)

type c03Session struct {
	srv  *server.Server
	cl   *stubClient
	uri  protocol.DocumentURI
	dir  string
	sent int
}

func newC03Session(c *Ctx) *c03Session {
	base := c.Tmp
	if base == "" {
		base = os.TempDir()
	}
	dir, err := os.MkdirTemp(base, "c03pub-")
	if err != nil {
		panic(err)
	}
	s := &c03Session{srv: server.NewServer(), cl: newStubClient(), dir: dir}
	s.srv.SetClient(s.cl)
	ctx := context.Background()
	if _, err := s.srv.Initialize(ctx, &protocol.InitializeParams{}); err != nil {
		panic(err)
	}
	_ = s.srv.Initialized(ctx, &protocol.InitializedParams{})
	s.uri = protocol.DocumentURI("file://" + filepath.Join(dir, "doc.journal"))
	return s
}

func (s *c03Session) close() { os.RemoveAll(s.dir) }

// publishedFor sends the text as the next version and returns the diagnostics published for it.
func (s *c03Session) publishedFor(text string) []protocol.Diagnostic {
	ctx := context.Background()
	if s.sent == 0 {
		_ = s.srv.DidOpen(ctx, &protocol.DidOpenTextDocumentParams{TextDocument: protocol.TextDocumentItem{URI: s.uri, Text: text, Version: 1}})
	} else {
		_ = s.srv.DidChangeRaw(ctx, &server.DidChangeRawParams{
			TextDocument:   protocol.VersionedTextDocumentIdentifier{TextDocumentIdentifier: protocol.TextDocumentIdentifier{URI: s.uri}, Version: int32(s.sent + 1)},
			ContentChanges: []server.ContentChange{{Text: text}}})
	}
	s.sent++
	deadline := time.After(30 * time.Second)
	for {
		pubs := s.cl.published()
		if len(pubs) >= s.sent {
			return pubs[s.sent-1].Diagnostics
		}
		select {
		case <-s.cl.notify:
		case <-time.After(50 * time.Millisecond):
		case <-deadline:
			panic(fmt.Sprintf("c03.published: version %d: no publishDiagnostics within 30 s", s.sent))
		}
	}
}

// byteOffset of 0-based (line, rune column) in text (lines end at LF).
func c03Offset(text string, line, col int) int {
	off := 0
	for l := 0; l < line; l++ {
		i := strings.IndexByte(text[off:], '\n')
		if i < 0 {
			return len(text)
		}
		off += i + 1
	}
	for k := 0; k < col && off < len(text) && text[off] != '\n'; k++ {
		_, w := utf8.DecodeRuneInString(text[off:])
		off += w
	}
	return off
}

func c03PublishedCase(s *c03Session, g *GJournal) map[string]any {
	text := g.Text
	j, _ := hxParse(text)
	incl := map[int]bool{}
	for _, e := range g.Entries {
		if e.Kind == "include" {
			incl[e.FirstLine] = true
		}
	}
	errs := []J{}
	for _, d := range s.publishedFor(text) {
		if d.Code != nil || incl[int(d.Range.Start.Line)] {
			continue
		}
		l, ch := int(d.Range.Start.Line), int(d.Range.Start.Character)
		errs = append(errs, J{"m": hx(d.Message), "p": []int{l + 1, ch + 1, c03Offset(text, l, ch)}})
	}
	return map[string]any{"text": hx(text), "truth": gJournalJ(g), "via": "server",
		"impl": J{"journal": journalJ(j), "errors": errs}}
}
