package main

// Process isolation for ops whose failure mode is a crash of the whole process (a panic in a
// goroutine the server starts itself cannot be recovered by the caller).  The parent re-executes
// this binary with -worker; the worker reads one op per line, runs the op's replayer and
// answers one line.  If the worker dies or hangs, the parent records that as the result.

import (
	"bufio"
	"bytes"
	"encoding/json"
	"os"
	"os/exec"
	"time"
)

type worker struct {
	cmd    *exec.Cmd
	in     *bufio.Writer
	out    *bufio.Reader
	stderr *bytes.Buffer
}

var theWorker *worker

func runWorker(c *Ctx) {
	sc := bufio.NewScanner(os.Stdin)
	sc.Buffer(make([]byte, 1<<20), 1<<28)
	w := bufio.NewWriter(os.Stdout)
	for sc.Scan() {
		var m map[string]any
		if err := json.Unmarshal(sc.Bytes(), &m); err != nil {
			continue
		}
		op, _ := m["op"].(string)
		out := replayers[op](c, m)
		b, _ := marshal(out)
		w.Write(b)
		w.WriteByte('\n')
		w.Flush()
	}
}

func startWorker(c *Ctx) *worker {
	cmd := exec.Command(os.Args[0], "-worker", "-prop", c.Prop, "-tier", c.Tier, "-out", os.DevNull)
	stdin, _ := cmd.StdinPipe()
	stdout, _ := cmd.StdoutPipe()
	var eb bytes.Buffer
	cmd.Stderr = &eb
	cmd.Env = append(os.Environ(), "GOMEMLIMIT=2GiB")
	if err := cmd.Start(); err != nil {
		panic(err)
	}
	return &worker{cmd: cmd, in: bufio.NewWriter(stdin), out: bufio.NewReaderSize(stdout, 1<<20), stderr: &eb}
}

// isolated runs op in the worker process. crashed=true when the worker died or did not answer
// within limit; stderr then holds the tail of what it printed (panic message, goroutine dump).
func isolated(c *Ctx, op string, fields map[string]any, limit time.Duration) (out map[string]any, crashed bool, hung bool, stderr string) {
	if theWorker == nil {
		theWorker = startWorker(c)
	}
	w := theWorker
	fields["op"] = op
	b, _ := marshal(fields)
	w.in.Write(b)
	w.in.WriteByte('\n')
	w.in.Flush()
	type res struct {
		line []byte
		err  error
	}
	ch := make(chan res, 1)
	go func() {
		line, err := w.out.ReadBytes('\n')
		ch <- res{line, err}
	}()
	select {
	case r := <-ch:
		if r.err == nil {
			var m map[string]any
			if json.Unmarshal(r.line, &m) == nil {
				return m, false, false, ""
			}
		}
		_ = w.cmd.Wait()
		theWorker = nil
		return nil, true, false, tail(w.stderr.String(), 3000)
	case <-time.After(limit):
		_ = w.cmd.Process.Kill()
		_ = w.cmd.Wait()
		theWorker = nil
		return nil, false, true, tail(w.stderr.String(), 3000)
	}
}

func tail(s string, n int) string {
	if len(s) > n {
		return s[:n]
	}
	return s
}
