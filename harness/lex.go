package main

// Lexer layer of C06 (shared by C03, C07, C08, C17): correspondence of lean/HL/Model/Lexer.lean,
// Utf8.lean, Classes.lean with internal/parser/lexer.go and the Go standard library.
//
// ops: lex.tokens  {"s": hex}             impl = whole token stream (lexAll)
//      utf8.decode {"ss": [hex…]}         impl = [[r, w, lastR, lastW]…]  (DecodeRuneInString, DecodeLastRuneInString)
//      utf8.decode {"r": n}               impl = {"len": RuneLen, "enc": hex(string(rune))}
//      unicode.class {"lo","n"} | {"rs"}  impl = [bit0 IsLetter | bit1 IsUpper | bit2 IsDigit | bit3 IsSpace …]
//      lex.trim    {"s": hex}             impl = hex(strings.TrimSpace)

import (
	"math/rand/v2"
	"os"
	"path/filepath"
	"regexp"
	"strconv"
	"strings"
	"unicode"
	"unicode/utf8"
)

func init() {
	register("C06", genC06)
	replayers["lex.tokens"] = func(c *Ctx, m map[string]any) map[string]any {
		s, _ := m["s"].(string)
		return lexCase(unhx(s))
	}
	replayers["lex.trim"] = func(c *Ctx, m map[string]any) map[string]any {
		s, _ := m["s"].(string)
		return J{"s": s, "impl": hx(strings.TrimSpace(unhx(s)))}
	}
	replayers["utf8.decode"] = func(c *Ctx, m map[string]any) map[string]any {
		if r, ok := m["r"].(float64); ok {
			return runeCase(int(r))
		}
		a, _ := m["ss"].([]any)
		ss := make([]string, len(a))
		for i, x := range a {
			ss[i], _ = x.(string)
		}
		return decodeCase(ss)
	}
	replayers["unicode.class"] = func(c *Ctx, m map[string]any) map[string]any {
		if _, ok := m["n"]; ok {
			return classRange(int(m["lo"].(float64)), int(m["n"].(float64)))
		}
		return classList(toIntSlice(m["rs"]))
	}
}

func genC06(c *Ctx) {
	genLex(c)
	genC06Handlers(c)
}

func lexCase(s string) map[string]any { return J{"s": hx(s), "impl": lexAll(s)} }

func decodeCase(ss []string) map[string]any {
	out := make([][]int, len(ss))
	for i, h := range ss {
		s := unhx(h)
		r, w := utf8.DecodeRuneInString(s)
		lr, lw := utf8.DecodeLastRuneInString(s)
		out[i] = []int{int(r), w, int(lr), lw}
	}
	return J{"ss": ss, "impl": out}
}

func runeCase(r int) map[string]any {
	return J{"r": r, "impl": J{"len": utf8.RuneLen(rune(r)), "enc": hx(string(rune(r)))}}
}

func classBits(r rune) int {
	b := 0
	if unicode.IsLetter(r) {
		b |= 1
	}
	if unicode.IsUpper(r) {
		b |= 2
	}
	if unicode.IsDigit(r) {
		b |= 4
	}
	if unicode.IsSpace(r) {
		b |= 8
	}
	return b
}

func classRange(lo, n int) map[string]any {
	out := make([]int, n)
	for i := range out {
		out[i] = classBits(rune(lo + i))
	}
	return J{"lo": lo, "n": n, "impl": out}
}

func classList(rs []int) map[string]any {
	out := make([]int, len(rs))
	for i, r := range rs {
		out[i] = classBits(rune(r))
	}
	return J{"rs": rs, "impl": out}
}

// ---------------------------------------------------------------- seed corpus

func lxRepo() string {
	if r := os.Getenv("VERIF_REPO"); r != "" {
		return r
	}
	return "/repo"
}

var lxRaw = regexp.MustCompile("(?s)`[^`]*`")
var lxQuoted = regexp.MustCompile(`"(?:[^"\\\n]|\\.)*"`)

// lxHarvest returns testdata journals and every journal-looking string literal of the test
// files of the repository (sorted walk, so the list is deterministic).
func lxHarvest() []string {
	var out []string
	root := lxRepo()
	seen := map[string]bool{}
	add := func(s string) {
		if len(s) == 0 || len(s) > 1<<14 || seen[s] {
			return
		}
		seen[s] = true
		out = append(out, s)
	}
	_ = filepath.WalkDir(root, func(p string, d os.DirEntry, err error) error {
		if err != nil {
			return nil
		}
		if d.IsDir() {
			if d.Name() == ".git" {
				return filepath.SkipDir
			}
			return nil
		}
		switch {
		case strings.HasSuffix(p, ".journal"):
			if b, err := os.ReadFile(p); err == nil {
				add(string(b))
			}
		case strings.HasSuffix(p, "_test.go"):
			b, err := os.ReadFile(p)
			if err != nil {
				return nil
			}
			src := string(b)
			for _, m := range lxRaw.FindAllString(src, -1) {
				add(m[1 : len(m)-1])
			}
			for _, m := range lxQuoted.FindAllString(src, -1) {
				if s, err := strconv.Unquote(m); err == nil && (strings.Contains(s, "\n") || strings.Contains(s, "  ") || strings.ContainsAny(s, "0123456789:")) {
					add(s)
				}
			}
		}
		return nil
	})
	return out
}

// ---------------------------------------------------------------- template journals

type lxGen struct{ r *rand.Rand }

func (g lxGen) pick(xs ...string) string { return xs[g.r.IntN(len(xs))] }
func (g lxGen) chance(p int) bool        { return g.r.IntN(100) < p }

func (g lxGen) date() string {
	sep := g.pick("-", "/", ".")
	y := g.pick("2024", "1999", "2025", "0001", "9999", "24", "20240")
	m := g.pick("01", "1", "12", "7", "00", "13")
	d := g.pick("15", "5", "31", "01", "1", "32")
	switch g.r.IntN(10) {
	case 0:
		return m + sep + d // partial date
	case 1:
		sep2 := g.pick("-", "/", ".")
		return y + sep + m + sep2 + d // mixed separators
	}
	return y + sep + m + sep + d
}

var lxWords = []string{"Grocery", "store", "ACME", "Rent", "salary", "Café", "Зарплата", "магазин", "中文", "a", "X", "Mr", "shop:food",
	"100", "things", "$", "USD", "the", "Co.", "#12", "B2B", "payee's", "naïve", "😀", "𝄞", "E5", "e", "É", "ß", "Ω"}

func (g lxGen) words(max int) string {
	n := 1 + g.r.IntN(max)
	ws := make([]string, n)
	for i := range ws {
		ws[i] = g.pick(lxWords...)
	}
	return strings.Join(ws, " ")
}

var lxSegs = []string{"assets", "expenses", "Assets", "bank", "checking", "food", "Активы", "Банк", "资产", "cash", "a", "b", "x1", "2024", "my bank",
	"long name here", "é", "income", "liabilities", "equity", "😀", "A", "USD", "v-w", "p.q", "u_v", "it's", "50%", "a&b"}

func (g lxGen) account() string {
	n := 1 + g.r.IntN(4)
	ss := make([]string, n)
	for i := range ss {
		ss[i] = g.pick(lxSegs...)
	}
	sep := ":"
	if g.chance(3) {
		sep = g.pick("::", ": ", " :", ":  ")
	}
	return strings.Join(ss, sep)
}

func (g lxGen) number() string {
	switch g.r.IntN(16) {
	case 0:
		return g.pick("1,000.00", "1.000,00", "1 000", "1 000 000.5", "1,00,000", "12 345,67")
	case 1:
		return g.pick("1E3", "1e-3", "1.5E+10", "2e5", "1E", "1E+", "1e-", "E5", "1Ex", "1.E2", "1E9999999", "12e+3e4")
	case 2:
		return g.pick(".5", "5.", "0", "00", "0.0", "1..2", "1,,2", ",", ".", "1.2.3")
	case 3:
		return strconv.Itoa(g.r.IntN(1000000)) + "." + strconv.Itoa(g.r.IntN(100))
	case 4:
		return strings.Repeat("9", 1+g.r.IntN(30))
	}
	return strconv.Itoa(g.r.IntN(2000))
}

func (g lxGen) commodity() string {
	return g.pick("$", "€", "£", "¥", "₽", "₴", "USD", "EUR", "RUB", "BTC", "AAPL", "hours", "h", "Usd", "usd", "\"AAPL 2\"", "\"MUTF 2024\"", "\"\"", "\"unterminated", "VTI2", "A1B", "руб", "RUB1", "X", "¢", "₿", "kr")
}

func (g lxGen) amount() string {
	num, com := g.number(), g.commodity()
	sign := g.pick("", "", "", "-", "+")
	sp := g.pick("", " ", " ", "  ")
	switch g.r.IntN(9) {
	case 0:
		return sign + num // bare number
	case 1:
		return com + sp + sign + num // $-1, USD -1
	case 2:
		return sign + com + sp + num // -$1
	case 3:
		return sign + num + sp + com // -1 USD
	case 4:
		return com + sign + num
	case 5:
		return sign + " " + num + sp + com
	case 6:
		return com // commodity only
	case 7:
		return sign + sp + com + num
	}
	return sign + num + sp + com
}

func (g lxGen) comment() string {
	switch g.r.IntN(6) {
	case 0:
		return ";"
	case 1:
		return "; " + g.words(4)
	case 2:
		return ";" + g.pick("tag:", " tag: value", " a:1, b:2", " date:2024-01-02", " k:v; nested | pipe", " [2024-01-01]")
	case 3:
		return "; " + g.words(2) + " key:" + g.words(1) + ", other:"
	case 4:
		return ";;; " + g.words(3) + "  "
	}
	return "; " + g.words(3)
}

func (g lxGen) indent() string {
	return g.pick("    ", "  ", "\t", " ", "        ", " \t ", "    ", "    ", "\t\t")
}

func (g lxGen) gap() string { return g.pick("  ", "    ", "\t", "   ", "  \t", "          ", " ", "  ") }

func (g lxGen) posting() string {
	var sb strings.Builder
	sb.WriteString(g.indent())
	if g.chance(10) {
		sb.WriteString(g.pick("* ", "! ", "*", "!"))
	}
	acc := g.account()
	switch g.r.IntN(12) {
	case 0:
		acc = "(" + acc + ")"
	case 1:
		acc = "[" + acc + "]"
	case 2:
		acc = g.pick("(", "[", "(a:b", "[a:b", "(ab)", "( a:b )", "(a:b )", "()", "[]", "(:)")
	}
	sb.WriteString(acc)
	if g.chance(80) {
		sb.WriteString(g.gap())
		sb.WriteString(g.amount())
		if g.chance(20) {
			sb.WriteString(g.pick(" @ ", " @@ ", "@", " @@", " @ @ "))
			sb.WriteString(g.amount())
		}
		if g.chance(20) {
			sb.WriteString(g.pick(" = ", " == ", " =* ", " ==* ", "=", " = = ", "==="))
			sb.WriteString(g.amount())
		}
	}
	if g.chance(25) {
		sb.WriteString(g.pick("  ", " ", "", "\t"))
		sb.WriteString(g.comment())
	}
	if g.chance(5) {
		sb.WriteString(g.pick(" ", "  ", "\t", " \t"))
	}
	return sb.String()
}

func (g lxGen) header() string {
	var sb strings.Builder
	sb.WriteString(g.date())
	if g.chance(15) {
		sb.WriteString("=" + g.date())
	}
	if g.chance(40) {
		sb.WriteString(g.pick(" *", " !", "*", " * ", "  !"))
	}
	if g.chance(25) {
		sb.WriteString(g.pick(" (123)", " (INV-1)", "(x)", " ()", " (unterminated", " (a:b)", " ((x))", " (é)"))
	}
	if g.chance(85) {
		sb.WriteString(" " + g.words(4))
		if g.chance(25) {
			sb.WriteString(g.pick(" | ", "|", " |", "| ") + g.words(3))
		}
	}
	if g.chance(20) {
		sb.WriteString(g.pick("  ", " ", "") + g.comment())
	}
	return sb.String()
}

func (g lxGen) directive() []string {
	switch g.r.IntN(22) {
	case 0:
		ls := []string{"account " + g.account()}
		if g.chance(30) {
			ls[0] += "  " + g.comment()
		}
		if g.chance(30) {
			ls = append(ls, g.indent()+g.comment())
		}
		if g.chance(20) {
			ls = append(ls, g.indent()+"type: A")
		}
		return ls
	case 1:
		return []string{"commodity " + g.pick(g.commodity(), g.amount())}
	case 2:
		return []string{"commodity " + g.commodity(), g.indent() + "format " + g.amount(), g.indent() + g.pick("note x", "; c", "format 1.000,00 EUR")}
	case 3:
		return []string{"P " + g.date() + " " + g.commodity() + " " + g.amount()}
	case 4:
		return []string{g.pick("Y2024", "Y 2024", "year 2024", "Y", "Y  x", "Y2024 ; c")}
	case 5:
		return []string{"D " + g.amount()}
	case 6:
		return []string{"include " + g.pick("other.journal", "~/x.journal", "sub/*.journal", "\"quoted path.journal\"", "a b.journal", "", "../x;y")}
	case 7:
		return []string{g.pick("alias a = b", "alias /re/ = x", "apply account top", "end apply account", "end", "comment", "end comment",
			"decimal-mark ,", "decimal-mark .", "payee Some Payee", "tag mytag", "tag", "define x=1", "def x", "assert 1", "bucket a:b", "capture a b", "check x", "eval 1", "expr 1", "test x", "apply tag x")}
	case 8:
		return []string{g.pick("~ monthly", "~ every 2 weeks  desc", "= expenses:food", "= /x/ and amt:>1"), g.posting()}
	case 9:
		return []string{g.pick("#", "*", "%", ";") + " " + g.words(3)}
	case 10:
		return []string{g.pick("accountx a:b", "Account a:b", "accounts", "include", "P", "D", "Y", "commodity", "account", "Ytd", "Px 1", "PD", "tagged: x", "year", "yearly")}
	case 11:
		return []string{g.account() + g.gap() + g.amount()} // posting without indent
	case 12:
		return []string{g.words(3)}
	}
	return []string{g.comment()}
}

func (g lxGen) journal(maxEntries int) string {
	var lines []string
	n := 1 + g.r.IntN(maxEntries)
	for i := 0; i < n; i++ {
		switch x := g.r.IntN(10); {
		case x < 6:
			lines = append(lines, g.header())
			for k := g.r.IntN(4); k >= 0; k-- {
				if g.chance(8) {
					lines = append(lines, g.indent()+g.comment())
				}
				lines = append(lines, g.posting())
			}
		default:
			lines = append(lines, g.directive()...)
		}
		if g.chance(70) {
			lines = append(lines, "")
		}
	}
	eol := "\n"
	switch g.r.IntN(12) {
	case 0, 1, 2:
		eol = "\r\n"
	case 3:
		eol = "\r"
	}
	var sb strings.Builder
	for i, l := range lines {
		sb.WriteString(l)
		if i+1 < len(lines) || g.chance(80) {
			if eol == "\r\n" && g.chance(10) {
				sb.WriteString("\n")
			} else {
				sb.WriteString(eol)
			}
		}
	}
	return sb.String()
}

// ---------------------------------------------------------------- mutations, random bytes, adversarial shapes

var lxSpecial = []byte("\n\n\n \t\r;|()[]@=*!\"-+.,:0123456789EeAZaz$/#\x00\x7f\x80\xbf\xc0\xc2\xa3\xa5\xe0\xe2\x82\xac\xbd\xb4\xed\xa0\xef\xbf\xbd\xf0\x9f\x98\x80\xf4\x90\xf5\xff\xc2\x85\xc2\xa0\xe3\x80\x80\xe1\x9a\x80")

func lxRandByte(r *rand.Rand) byte {
	if r.IntN(3) == 0 {
		return byte(r.IntN(256))
	}
	return lxSpecial[r.IntN(len(lxSpecial))]
}

var lxSnippets = []string{"  ", "\n", "\r\n", " ; ", "2024-01-15", "2024-1-", "2024-1-1", "2024.01.15 ", " 1E5", "1e+", " @@ ", " = ", "==", "(", ")", "[", "]", "\"", "|",
	"$", "€", "₽", "₴", "£", "¥", "-", "+", "-$", "+USD1", "-USD-1", "USD", "A1", " 1 000", "a:b", ":", "\t", " ", "\u0085", "　", " ", "é", "😀",
	"\xe2\x82", "\xe2", "\xf0\x9f", "\xc2", "\xff", "\x00", "Y", "P ", "D ", "account ", "include ", "commodity ", "1 2", "1  2", " x  y", "E", "e5", "5e", "1,", "1."}

func lxMutate(r *rand.Rand, s string, pool []string) string {
	b := []byte(s)
	for k := 1 + r.IntN(3); k > 0; k-- {
		switch r.IntN(8) {
		case 0: // overwrite
			if len(b) > 0 {
				b[r.IntN(len(b))] = lxRandByte(r)
			}
		case 1: // insert byte
			i := r.IntN(len(b) + 1)
			b = append(b[:i], append([]byte{lxRandByte(r)}, b[i:]...)...)
		case 2: // delete
			if len(b) > 0 {
				i := r.IntN(len(b))
				n := 1 + r.IntN(min(4, len(b)-i))
				b = append(b[:i], b[i+n:]...)
			}
		case 3: // truncate
			if len(b) > 0 {
				b = b[:r.IntN(len(b))]
			}
		case 4: // splice with another input
			o := []byte(pool[r.IntN(len(pool))])
			i, j := r.IntN(len(b)+1), r.IntN(len(o)+1)
			b = append(append([]byte{}, b[:i]...), o[j:]...)
		case 5: // insert snippet
			i := r.IntN(len(b) + 1)
			sn := lxSnippets[r.IntN(len(lxSnippets))]
			b = append(b[:i], append([]byte(sn), b[i:]...)...)
		case 6: // duplicate a slice
			if len(b) > 1 {
				i := r.IntN(len(b))
				j := i + r.IntN(len(b)-i)
				b = append(b[:j], append(append([]byte{}, b[i:j]...), b[j:]...)...)
			}
		case 7: // swap LF / CRLF / blank
			if len(b) > 0 {
				i := r.IntN(len(b))
				b[i] = "\n \t\r"[r.IntN(4)]
			}
		}
	}
	if len(b) > 1<<13 {
		b = b[:1<<13]
	}
	return string(b)
}

func lxRandom(r *rand.Rand) string {
	n := r.IntN(40)
	if r.IntN(10) == 0 {
		n = r.IntN(300)
	}
	b := make([]byte, n)
	switch r.IntN(3) {
	case 0:
		for i := range b {
			b[i] = byte(r.IntN(256))
		}
	case 1:
		for i := range b {
			b[i] = lxRandByte(r)
		}
	default: // snippets glued together
		var sb strings.Builder
		for sb.Len() < n {
			if r.IntN(4) == 0 {
				sb.WriteByte(lxRandByte(r))
			} else {
				sb.WriteString(lxSnippets[r.IntN(len(lxSnippets))])
			}
		}
		return sb.String()
	}
	return string(b)
}

func lxAdversarial(r *rand.Rand, size int) []string {
	rep := strings.Repeat
	n := size
	return []string{
		rep("a", n), rep(" ", n), rep(" ", n) + "x", "x" + rep(" ", n), rep("A ", n/2), rep("a b ", n/4) + ":c",
		rep("1", n), "1" + rep("E", n), "1E" + rep("9", n), rep("1E5", n/3), rep("1 ", n/2), "  a:b  1" + rep("e+", n/2),
		"(" + rep("x", n), "\"" + rep("x", n), rep("(", n), rep("\"", n), rep("[", n), " (" + rep("x", n) + ":",
		rep(";", n), rep("|", n), rep("@", n), rep("=", n), rep("-", n), rep("+", n), rep("-A", n/2), rep("\n", n), rep("\r\n", n/2),
		rep("\t", n), rep("\xe2", n), rep("\xe2\x82", n/2), rep("€", n/3), rep("\xff", n), rep("\x00", n), rep(" ", n/2),
		"2024-01-15 " + rep("x ", n/2), "2024-01-15 * " + rep("é", n/2) + " | " + rep("ж", n/2),
		"  " + rep("a:", n/2) + "  1 USD", "  a:b  " + rep("1,000", n/5) + " USD", rep("2024-01-15\n", n/11), rep("    a:b  $1\n", n/12),
		rep(" ", n) + "\n" + rep(" ", n), "x" + rep(" \t", n/2) + "\n", "a:b" + rep(" x", n/2) + "  1", rep("Y", n), rep("account ", n/8),
		"  a" + rep("\u3000", n/3) + "  ", "t" + rep("\xc2\x85", n/2), "t " + rep("\xa0", n), "é" + rep(" ", n) + "\xe2",
	}
}

// ---------------------------------------------------------------- generator

func genLex(c *Ctx) {
	r := c.R
	g := lxGen{r}

	// --- utf8: all 1- and 2-byte strings; structured 3-/4-byte ones; random longer ones
	var batch []string
	flush := func() {
		if len(batch) > 0 {
			c.Emit("utf8.decode", decodeCase(batch))
			c.Count("utf8.decode.batches")
			batch = nil
		}
	}
	addS := func(s string) {
		batch = append(batch, hx(s))
		if len(batch) >= 512 {
			flush()
		}
	}
	addS("")
	for a := 0; a < 256; a++ {
		addS(string([]byte{byte(a)}))
	}
	for a := 0; a < 256; a++ {
		for b := 0; b < 256; b++ {
			addS(string([]byte{byte(a), byte(b)}))
		}
	}
	edge := []byte{0x00, 0x0a, 0x20, 0x7f, 0x80, 0x8f, 0x90, 0x9f, 0xa0, 0xbf, 0xc0, 0xc2, 0xdf, 0xe0, 0xed, 0xef, 0xf0, 0xf4, 0xf5, 0xff}
	for a := 0xc0; a < 256; a++ {
		for _, b := range edge {
			for _, d := range edge {
				addS(string([]byte{byte(a), b, d}))
				if a >= 0xf0 {
					for _, e := range edge {
						addS(string([]byte{byte(a), b, d, e}))
					}
				}
			}
		}
	}
	for i := c.N(4000, 200000); i > 0; i-- {
		n := 1 + r.IntN(7)
		b := make([]byte, n)
		for k := range b {
			if r.IntN(2) == 0 {
				b[k] = edge[r.IntN(len(edge))]
			} else {
				b[k] = byte(r.IntN(256))
			}
		}
		addS(string(b))
		if r.IntN(4) == 0 { // valid rune followed / preceded by noise
			addS(string(rune(r.IntN(0x110000))) + string(b))
			addS(string(b) + string(rune(r.IntN(0x110000))))
		}
	}
	flush()
	runesToTry := []int{0, 0x7f, 0x80, 0x7ff, 0x800, 0xd7ff, 0xd800, 0xdfff, 0xe000, 0xfffd, 0xffff, 0x10000, 0x10ffff, 0x110000, 0x24, 0xa3, 0xa5, 0x20ac, 0x20bd, 0x20b4}
	for i := c.N(300, 20000); i > 0; i-- {
		runesToTry = append(runesToTry, r.IntN(0x110400))
	}
	for _, x := range runesToTry {
		c.Emit("utf8.decode", runeCase(x))
	}

	// --- unicode classes: everything below U+3400 and the supplementary letter blocks densely
	// (thorough: every code point), table boundaries ±1, samples
	if c.Thorough() {
		for lo := 0; lo < 0x110000; lo += 4096 {
			c.Emit("unicode.class", classRange(lo, 4096))
		}
	} else {
		for lo := 0; lo < 0x3400; lo += 1024 {
			c.Emit("unicode.class", classRange(lo, 1024))
		}
		for _, lo := range []int{0xa000, 0xa400, 0xa800, 0xfc00, 0x10000, 0x10400, 0x10800, 0x10c00, 0x11000, 0x16800, 0x1d400, 0x1e800, 0x1ec00, 0x1f000, 0x2fc00, 0x10fc00} {
			c.Emit("unicode.class", classRange(lo, 1024))
		}
	}
	var bnd []int
	for _, t := range []*unicode.RangeTable{unicode.Letter, unicode.Upper, unicode.Digit} {
		for _, x := range t.R16 {
			bnd = append(bnd, int(x.Lo)-1, int(x.Lo), int(x.Lo)+1, int(x.Hi)-1, int(x.Hi), int(x.Hi)+1, int(x.Lo)+int(x.Stride))
		}
		for _, x := range t.R32 {
			bnd = append(bnd, int(x.Lo)-1, int(x.Lo), int(x.Lo)+1, int(x.Hi)-1, int(x.Hi), int(x.Hi)+1, int(x.Lo)+int(x.Stride))
		}
	}
	for i := 0; i < 2000; i++ {
		bnd = append(bnd, r.IntN(0x110000))
	}
	for i := 0; i < len(bnd); i += 1000 {
		c.Emit("unicode.class", classList(bnd[i:min(i+1000, len(bnd))]))
	}

	// --- strings.TrimSpace on noise
	spaceish := []string{" ", "\t", "\n", "\v", "\f", "\r", "\u0085", "\u00a0", "\u1680", "\u2000", "\u200a", "\u2028", "\u2029", "\u202f", "\u205f", "\u3000",
		"\u200b", "\ufeff", "\x85", "\xa0", "\xc2", "\xe2\x80", "\xe2", "\xe3\x80", "\x80", "a", "\u00e9", "\U0001F600", "\xff", "\x00", "x y", "\xe1\x9a"}
	for i := c.N(6000, 200000); i > 0; i-- {
		var sb strings.Builder
		for k := r.IntN(9); k > 0; k-- {
			sb.WriteString(spaceish[r.IntN(len(spaceish))])
		}
		s := sb.String()
		c.Emit("lex.trim", J{"s": hx(s), "impl": hx(strings.TrimSpace(s))})
	}

	// --- token streams
	emit := func(kind, s string) {
		c.Emit("lex.tokens", lexCase(s))
		c.Count("lex." + kind)
	}
	seeds := lxHarvest()
	if len(seeds) == 0 {
		seeds = []string{"2024-01-15 x\n  a:b  1 USD\n"}
	}
	c.Stats["lex.harvested"] = len(seeds)
	for _, s := range seeds {
		emit("harvest", s)
	}
	fixed := []string{"", "\n", " ", "a", "2024-01-15", "2024-01-15 ACME\n", "2024-01-15 100 things\n", "2024-01-15 shop: food\n", "2024-01-15 $ store\n",
		"2024-01-15 x\r\n  a:b  1 USD\r\n  c:d\r\n", "  a:b  1 USD ; hello", "payee|note", "  a:b ;c\n  (c:d )  1\n", "3 \"AAPL 2\"", "\"AAPL 2\" -3",
		"  a:b  1E9999999 USD\n", " 2024-1-", " 2024-1-\n", " 2024-1-1", " 2024-01-1", " 2024-01-", " 2024-01", " 2024.1.1x", "x 2024-1-\nabc", " 1000.00 USD", " 2024-01.15",
		"  a:b  -$1", "  a:b  -USD1", "  a:b  -USD 1", "  a:b  USD-1", "  a:b  1 USD1", "  a:b  1  USD1", "é", " é", " é1", " É1", " ÉA", "  1 é",
		"  a:b  1 000 USD", "  a:b  1 x", "  a:b  1e5", "  a:b  e5", "  a:b  1e", " (a:b)", " (ab)", " (a\n:b)", " (a:b", " (a)b:c", "* x", " * x", " ! x", "a b  c:d", "a: b", "a :b",
		"x\xe2\x82", "\xe2\x82\xac1", " \xe2\x82\xac1", " \xa3", " £5", " -€5", " -\xe2", " +", " -", " -a1", " -A1", " -AB-1", " -AB-", " -AB", "Y2024", "P 2024-01-01 $ 1", "D $1,000.00",
		"account a:b  ; c", "accounta:b", "comment\nfoo\nend comment\n", "  text  ", "   text ", " x\u0085", " x \xc2", " x \x85", " x\xa0 ", "\t\tx"}
	for _, s := range fixed {
		emit("fixed", s)
	}
	var pool []string
	pool = append(pool, seeds...)
	pool = append(pool, fixed...)
	nT := c.N(9000, 150000)
	for i := 0; i < nT; i++ {
		j := g.journal(1 + r.IntN(6))
		if i < 400 {
			pool = append(pool, j)
		}
		emit("template", j)
	}
	for i := c.N(600, 20000); i > 0; i-- { // single lines: one construct each
		var s string
		switch r.IntN(5) {
		case 0:
			s = g.header()
		case 1:
			s = g.posting()
		case 2:
			s = strings.Join(g.directive(), "\n")
		case 3:
			s = g.indent() + g.amount()
		default:
			s = g.indent() + g.account() + g.gap() + g.amount() + "\n"
		}
		emit("line", s)
	}
	for i := c.N(12000, 300000); i > 0; i-- {
		base := pool[r.IntN(len(pool))]
		if r.IntN(3) == 0 {
			base = g.journal(2)
		}
		emit("mutation", lxMutate(r, base, pool))
	}
	for i := c.N(9000, 300000); i > 0; i-- {
		emit("random", lxRandom(r))
	}
	sizes := []int{1, 2, 7, 8, 9, 64, 600}
	if c.Thorough() {
		sizes = append(sizes, 4096, 20000)
	}
	for _, n := range sizes {
		for _, s := range lxAdversarial(r, n) {
			emit("adversarial", s)
		}
	}
	// two-line locality probes: the same first line followed by different continuations
	for i := c.N(1500, 30000); i > 0; i-- {
		l1 := g.pick(g.header(), g.posting(), lxRandom(r), g.indent()+g.amount())
		l1 = strings.ReplaceAll(l1, "\n", " ")
		emit("twoline", l1+"\n"+g.pick(g.posting(), lxRandom(r), "", "2024", "1", " ", "5-5", "-1-1"))
	}
}
