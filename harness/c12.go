package main

// C12: incrementally maintained workspace view equals a rebuild.
//
// A case is a directory of 2..5 journal files (plus, sometimes, include targets that do not
// exist yet), and a sequence of edits.  The REAL workspace.Workspace is initialised on the
// directory; every edit is delivered as the server delivers it: UpdateFile (didChange, the
// disk still has the old text), the file is written, UpdateFile again (didSave).  After
// every call the view is read (IndexSnapshot, index members, declared accounts and
// commodities, commodity formats); after every edit a FRESH real workspace is initialised
// on the same directory and its view recorded too (the rebuild).  For every text the real
// parser and analyzer compute the file's contribution (workspace.BuildFileIndexFromContent),
// which is what the Lean model of the workspace consumes.

import (
	"fmt"
	"math/rand/v2"
	"os"
	"path/filepath"
	"sort"
	"strings"

	"github.com/juev/hledger-lsp/internal/ast"
	"github.com/juev/hledger-lsp/internal/formatter"
	"github.com/juev/hledger-lsp/internal/include"
	"github.com/juev/hledger-lsp/internal/workspace"
)

func init() {
	register("C12", genC12)
	replayers["c12.run"] = func(c *Ctx, m map[string]any) map[string]any {
		files := c12Texts(m["files"])
		ups := c12Texts(m["ups"])
		return c12Run(c, files, ups)
	}
	replayers["c12.contrib"] = func(c *Ctx, m map[string]any) map[string]any {
		n, _ := m["n"].(string)
		t, _ := m["t"].(string)
		return c12ContribCase(c, n, t)
	}
}

// Mode (updates only): "" / "both" = the edit arrives as didChange, the file is written, didSave
// repeats it; "change" = didChange only (the buffer now differs from the file on disk);
// "save" = the file is written with this text and didSave arrives.
type c12File struct{ Name, Text, Mode string }

// Absolute include paths are spelled with this placeholder in the recorded texts; it is
// replaced by the case's scratch directory before the text reaches the code under test.
const c12FakeDir = "/@DIR@"

func c12Real(dir, text string) string { return strings.ReplaceAll(text, c12FakeDir, dir) }

func c12Texts(v any) []c12File {
	a, _ := v.([]any)
	var out []c12File
	for _, x := range a {
		m, _ := x.(map[string]any)
		n, _ := m["n"].(string)
		t, _ := m["t"].(string)
		md, _ := m["mode"].(string)
		out = append(out, c12File{n, t, md})
	}
	return out
}

var c12Seq int

func c12Dir(c *Ctx) string {
	c12Seq++
	base := c.Tmp
	if base == "" {
		base = os.TempDir()
	}
	d := filepath.Join(base, fmt.Sprintf("c12-%d-%d", os.Getpid(), c12Seq))
	if err := os.MkdirAll(d, 0o755); err != nil {
		panic(err)
	}
	// resolve symlinks so that relative names can be recovered by prefix
	if r, err := filepath.EvalSymlinks(d); err == nil {
		d = r
	}
	return d
}

func c12Write(dir, name, text string) string {
	p := filepath.Join(dir, filepath.FromSlash(name))
	if err := os.MkdirAll(filepath.Dir(p), 0o755); err != nil {
		panic(err)
	}
	if err := os.WriteFile(p, []byte(text), 0o644); err != nil {
		panic(err)
	}
	return p
}

func c12Rel(dir, p string) string {
	if strings.HasPrefix(p, dir+string(filepath.Separator)) {
		return filepath.ToSlash(p[len(dir)+1:])
	}
	return p
}

func c12Rels(dir string, ps []string) []string {
	out := make([]string, 0, len(ps))
	for _, p := range ps {
		out = append(out, c12Rel(dir, p))
	}
	return out
}

func sortedIntMap(m map[string]int) [][]any {
	keys := make([]string, 0, len(m))
	for k := range m {
		keys = append(keys, k)
	}
	sort.Strings(keys)
	out := make([][]any, 0, len(keys))
	for _, k := range keys {
		out = append(out, []any{k, m[k]})
	}
	return out
}

func sortedNested(m map[string]map[string]int) [][]any {
	keys := make([]string, 0, len(m))
	for k := range m {
		keys = append(keys, k)
	}
	sort.Strings(keys)
	out := make([][]any, 0, len(keys))
	for _, k := range keys {
		out = append(out, []any{k, sortedIntMap(m[k])})
	}
	return out
}

func sortedListMap(m map[string][]string) [][]any {
	keys := make([]string, 0, len(m))
	for k := range m {
		keys = append(keys, k)
	}
	sort.Strings(keys)
	out := make([][]any, 0, len(keys))
	for _, k := range keys {
		out = append(out, []any{k, c12strs(m[k])})
	}
	return out
}

func c12strs(s []string) []string {
	if s == nil {
		return []string{}
	}
	return s
}

func c12Template(ts any) string {
	return fmt.Sprintf("%+v", ts)
}

func c12EntryData(e workspace.TransactionEntry) string {
	return fmt.Sprintf("%v|%v|%q|%q", e.Range, e.Date, e.Payee, e.Description)
}

// c12Contrib: what one file's text contributes, computed by the real parser/analyzer.
func c12Contrib(dir, name, text string) map[string]any {
	abs := filepath.Join(dir, filepath.FromSlash(name))
	fi, journal, _ := workspace.BuildFileIndexFromContent(abs, c12Real(dir, text))
	txs := [][]any{}
	for _, e := range fi.Transactions {
		txs = append(txs, []any{e.Key, c12EntryData(e)})
	}
	pts := [][]any{}
	{
		keys := make([]string, 0, len(fi.PayeeTemplates))
		for k := range fi.PayeeTemplates {
			keys = append(keys, k)
		}
		sort.Strings(keys)
		for _, k := range keys {
			pts = append(pts, []any{k, c12Template(fi.PayeeTemplates[k])})
		}
	}
	incs := []string{}
	declA := []string{}
	cds := [][]any{}
	if journal != nil {
		for _, inc := range journal.Includes {
			p, err := include.ResolvePathSafe(abs, inc.Path)
			if err != nil || p == "" {
				continue
			}
			incs = append(incs, c12Rel(dir, p))
		}
		for _, d := range journal.Directives {
			switch x := d.(type) {
			case ast.AccountDirective:
				declA = append(declA, x.Account.Name)
			case ast.CommodityDirective:
				cds = append(cds, []any{x.Commodity.Symbol, x.Format, fmt.Sprintf("%+v", formatter.ParseNumberFormat(x.Format))})
			}
		}
	}
	return map[string]any{
		"ac": sortedIntMap(fi.AccountCounts), "pc": sortedIntMap(fi.PayeeCounts),
		"cc": sortedIntMap(fi.CommodityCounts), "tc": sortedIntMap(fi.TagCounts),
		"tvc": sortedNested(fi.TagValueCounts), "tx": txs, "dt": c12strs(fi.Dates), "pt": pts,
		"inc": incs, "da": declA, "cd": cds,
	}
}

func c12ContribCase(c *Ctx, name, text string) map[string]any {
	dir := c12Dir(c)
	defer os.RemoveAll(dir)
	abs := filepath.Join(dir, filepath.FromSlash(name))
	fi, _, _ := workspace.BuildFileIndexFromContent(abs, c12Real(dir, text))
	cb := c12Contrib(dir, name, text)
	return map[string]any{"n": name, "t": text, "inc": cb["inc"], "impl": c12strs(c12Rels(dir, fi.Includes))}
}

// c12View: the observable view of a workspace, canonical.
func c12View(dir string, w *workspace.Workspace) map[string]any {
	s := w.IndexSnapshot()
	v := map[string]any{}
	v["members"] = c12strs(c12Rels(dir, w.VerifMembers()))
	if s.Accounts != nil {
		v["accounts"] = c12strs(s.Accounts.All)
		v["byPrefix"] = sortedListMap(s.Accounts.ByPrefix)
	} else {
		v["accounts"] = []string{}
		v["byPrefix"] = [][]any{}
	}
	v["payees"] = c12strs(s.Payees)
	v["commodities"] = c12strs(s.Commodities)
	v["tags"] = c12strs(s.Tags)
	v["tagValues"] = sortedListMap(s.TagValues)
	v["dates"] = c12strs(s.Dates)
	v["ac"] = sortedIntMap(s.AccountCounts)
	v["pc"] = sortedIntMap(s.PayeeCounts)
	v["cc"] = sortedIntMap(s.CommodityCounts)
	v["tc"] = sortedIntMap(s.TagCounts)
	v["tvc"] = sortedNested(s.TagValueCounts)
	{
		keys := make([]string, 0, len(s.Transactions))
		for k := range s.Transactions {
			keys = append(keys, k)
		}
		sort.Strings(keys)
		tx := [][]any{}
		for _, k := range keys {
			var es []string
			for _, e := range s.Transactions[k] {
				es = append(es, c12Rel(dir, e.FilePath)+"\x00"+c12EntryData(e))
			}
			sort.Strings(es)
			pairs := [][]string{}
			for _, e := range es {
				i := strings.IndexByte(e, 0)
				pairs = append(pairs, []string{e[:i], e[i+1:]})
			}
			tx = append(tx, []any{k, pairs})
		}
		v["tx"] = tx
	}
	{
		keys := make([]string, 0, len(s.PayeeTemplates))
		for k := range s.PayeeTemplates {
			keys = append(keys, k)
		}
		sort.Strings(keys)
		pt := [][]any{}
		for _, k := range keys {
			pt = append(pt, []any{k, c12Template(s.PayeeTemplates[k])})
		}
		v["pt"] = pt
	}
	boolSet := func(m map[string]bool) any {
		if m == nil {
			return nil
		}
		keys := make([]string, 0, len(m))
		for k := range m {
			keys = append(keys, k)
		}
		sort.Strings(keys)
		return keys
	}
	if f := w.GetCommodityFormats(); f != nil {
		keys := make([]string, 0, len(f))
		for k := range f {
			keys = append(keys, k)
		}
		sort.Strings(keys)
		fm := [][]any{}
		for _, k := range keys {
			fm = append(fm, []any{k, fmt.Sprintf("%+v", f[k])})
		}
		v["formats"] = fm
	} else {
		v["formats"] = nil
	}
	v["declC"] = boolSet(w.GetDeclaredCommodities())
	v["declA"] = boolSet(w.GetDeclaredAccounts())
	return v
}

func c12Order(dir string, w *workspace.Workspace) []string {
	r := w.GetResolved()
	if r == nil {
		return []string{}
	}
	return c12strs(c12Rels(dir, r.FileOrder))
}

func c12Fresh(dir string) map[string]any {
	w := workspace.NewWorkspace(dir, include.NewLoader())
	_ = w.Initialize()
	v := c12View(dir, w)
	v["root"] = c12Rel(dir, w.RootJournalPath())
	return v
}

// which of the two repairs does the code under test contain?  (repo_patches/fix-*.diff)
var c12Cfg map[string]any

func c12DetectCfg(c *Ctx) map[string]any {
	if c12Cfg != nil {
		return c12Cfg
	}
	tx := "2024-01-01 Shop\n  a:b  1 USD\n  c:d\n"
	// template loss: two files share a payee, one drops it
	d1 := c12Dir(c)
	defer os.RemoveAll(d1)
	c12Write(d1, "main.journal", "include a.journal\ninclude b.journal\n")
	c12Write(d1, "a.journal", tx)
	b := c12Write(d1, "b.journal", tx)
	w := workspace.NewWorkspace(d1, include.NewLoader())
	_ = w.Initialize()
	w.UpdateFile(b, "")
	_, fixT := w.IndexSnapshot().PayeeTemplates["Shop"]
	// stale graph: root chosen by include graph, a file included by a non-member is edited
	d2 := c12Dir(c)
	defer os.RemoveAll(d2)
	c12Write(d2, "a.journal", "")
	c12Write(d2, "b.journal", "include c.journal\n")
	cc := c12Write(d2, "c.journal", tx)
	w2 := workspace.NewWorkspace(d2, include.NewLoader())
	_ = w2.Initialize()
	w2.UpdateFile(cc, tx)
	fixG := len(w2.IndexSnapshot().Payees) == 0
	c12Cfg = map[string]any{"fixT": fixT, "fixG": fixG}
	return c12Cfg
}

// c12Run runs one case against the real code.
func c12Run(c *Ctx, files, ups []c12File) map[string]any {
	cfg := c12DetectCfg(c)
	dir := c12Dir(c)
	defer os.RemoveAll(dir)
	fj := []any{}
	for _, f := range files {
		c12Write(dir, f.Name, c12Real(dir, f.Text))
		fj = append(fj, map[string]any{"n": f.Name, "t": f.Text, "c": c12Contrib(dir, f.Name, f.Text)})
	}
	w := workspace.NewWorkspace(dir, include.NewLoader())
	_ = w.Initialize()
	impl := map[string]any{}
	impl["root"] = c12Rel(dir, w.RootJournalPath())
	impl["init"] = c12View(dir, w)
	impl["order0"] = c12Order(dir, w)
	impl["fresh0"] = c12Fresh(dir)
	uj := []any{}
	steps := []any{}
	prevMembers := len(w.VerifMembers())
	for _, u := range ups {
		abs := filepath.Join(dir, filepath.FromSlash(u.Name))
		ue := map[string]any{"n": u.Name, "t": u.Text, "c": c12Contrib(dir, u.Name, u.Text)}
		if u.Mode != "" && u.Mode != "both" {
			ue["mode"] = u.Mode
		}
		uj = append(uj, ue)
		st := map[string]any{}
		text := c12Real(dir, u.Text)
		switch u.Mode {
		case "change":
			w.UpdateFile(abs, text) // didChange; nothing is written
			st["mid"] = c12View(dir, w)
			st["midOrder"] = c12Order(dir, w)
			st["post"], st["postOrder"] = st["mid"], st["midOrder"]
		case "save":
			c12Write(dir, u.Name, text)
			w.UpdateFile(abs, text) // didSave
			st["post"] = c12View(dir, w)
			st["postOrder"] = c12Order(dir, w)
			st["mid"], st["midOrder"] = st["post"], st["postOrder"]
		default:
			w.UpdateFile(abs, text) // didChange
			st["mid"] = c12View(dir, w)
			st["midOrder"] = c12Order(dir, w)
			c12Write(dir, u.Name, text)
			w.UpdateFile(abs, text) // didSave
			st["post"] = c12View(dir, w)
			st["postOrder"] = c12Order(dir, w)
		}
		st["fresh"] = c12Fresh(dir)
		steps = append(steps, st)
		if c.Stats != nil {
			c.Count("step")
			pm, _ := st["post"].(map[string]any)["members"].([]string)
			if len(pm) != prevMembers {
				c.Count("step.members.changed")
			}
			prevMembers = len(pm)
			c.Count(fmt.Sprintf("step.members.%d", len(pm)))
		}
	}
	impl["steps"] = steps
	return map[string]any{"cfg": cfg, "limit": 50, "files": fj, "ups": uj, "impl": impl}
}

// c12DropIncludes removes every include line of a journal text.
func c12DropIncludes(t string) string {
	var out []string
	for _, l := range strings.Split(t, "\n") {
		if !strings.HasPrefix(l, "include ") {
			out = append(out, l)
		}
	}
	return strings.Join(out, "\n")
}

// ---------------------------------------------------------------- generator

var (
	c12Accounts = []string{"assets:cash", "assets:bank:main", "expenses:food", "expenses:rent", "income:salary", "активы:банк"}
	c12Payees   = []string{"Shop", "Cafe Luna", "Landlord", "Grocer | weekly", "Employer"}
	c12Comms    = []string{"USD", "EUR", "$", "₽"}
	c12Tags     = []string{"trip:rome", "trip:paris", "project:x", "flag:", "project:y"}
	c12Formats  = []string{"1,000.00", "1.000,00", "1000.0", "1 000,000"}
	c12DeclComm = []string{"USD", "EUR", "₽"}
)

func c12Amount(r *rand.Rand) string {
	n := 1 + r.IntN(30)
	cm := pick(r, c12Comms)
	if cm == "$" {
		return fmt.Sprintf("$%d", n)
	}
	return fmt.Sprintf("%d %s", n, cm)
}

func c12Tx(r *rand.Rand) string {
	var sb strings.Builder
	fmt.Fprintf(&sb, "2024-01-%02d", 1+r.IntN(4))
	if r.IntN(4) == 0 {
		sb.WriteString(" *")
	}
	sb.WriteString(" " + pick(r, c12Payees))
	if r.IntN(4) == 0 {
		sb.WriteString("  ; " + pick(r, c12Tags))
	}
	sb.WriteString("\n")
	np := 2 + r.IntN(2)
	for i := 0; i < np; i++ {
		sb.WriteString("    " + pick(r, c12Accounts))
		if i < np-1 || r.IntN(3) == 0 {
			sb.WriteString("  " + c12Amount(r))
			if r.IntN(8) == 0 {
				sb.WriteString(" @ " + c12Amount(r))
			}
		}
		if r.IntN(5) == 0 {
			sb.WriteString("  ; " + pick(r, c12Tags))
		}
		sb.WriteString("\n")
	}
	return sb.String()
}

// c12IncludePath spells the include of `target` from `from` (names relative to dir).
func c12IncludePath(r *rand.Rand, dir, from, target string) string {
	fromDir := filepath.Dir(filepath.Join(dir, filepath.FromSlash(from)))
	abs := filepath.Join(dir, filepath.FromSlash(target))
	rel, err := filepath.Rel(fromDir, abs)
	if err != nil {
		return abs
	}
	rel = filepath.ToSlash(rel)
	switch r.IntN(8) {
	case 0:
		return abs
	case 1:
		if !strings.HasPrefix(rel, "../") {
			return "./" + rel
		}
	case 2:
		return "x/../" + rel
	}
	return rel
}

// c12Journal: a journal with the given include targets (directive order as given).
func c12Journal(r *rand.Rand, dir, name string, targets []string, size int) string {
	var parts []string
	for _, t := range targets {
		parts = append(parts, "include "+c12IncludePath(r, dir, name, t)+"\n")
	}
	for i := 0; i < size; i++ {
		switch x := r.IntN(10); {
		case x < 6:
			parts = append(parts, c12Tx(r))
		case x < 8:
			parts = append(parts, "account "+pick(r, c12Accounts)+"\n")
		default:
			cm := pick(r, c12DeclComm)
			f := pick(r, c12Formats)
			switch r.IntN(3) {
			case 0:
				parts = append(parts, "commodity "+cm+"\n")
			case 1:
				parts = append(parts, "commodity "+f+" "+cm+"\n")
			default:
				parts = append(parts, "commodity "+cm+"\n  format "+f+" "+cm+"\n")
			}
		}
	}
	// includes need not come first
	if len(parts) > 1 && r.IntN(3) == 0 {
		r.Shuffle(len(parts), func(i, j int) { parts[i], parts[j] = parts[j], parts[i] })
	}
	return strings.Join(parts, "\n")
}

func c12Targets(r *rand.Rand, self string, names []string, density int) []string {
	var ts []string
	for _, n := range names {
		if n == self {
			if r.IntN(12) == 0 {
				ts = append(ts, n)
			}
			continue
		}
		if r.IntN(100) < density {
			ts = append(ts, n)
			if r.IntN(12) == 0 {
				ts = append(ts, n)
			}
		}
	}
	r.Shuffle(len(ts), func(i, j int) { ts[i], ts[j] = ts[j], ts[i] })
	return ts
}

func c12Names(r *rand.Rand, n int) (names []string, mode string) {
	pool := []string{"a.journal", "b.journal", "sub/c.journal", "d.journal", "sub/e.journal"}
	switch x := r.IntN(10); {
	case x < 6:
		mode = "root.main"
		names = append([]string{"main.journal"}, pool[:n-1]...)
	case x < 7:
		mode = "root.hledger"
		names = append([]string{".hledger.journal"}, pool[:n-1]...)
	default:
		mode = "root.graph"
		names = append(names, pool[:n]...)
	}
	return
}

func genC12(c *Ctx) {
	genC12Workspaces(c, 1, func(files []c12File, ups []c12File) {
		out := c12Run(c, files, ups)
		c.Emit("c12.run", out)
	})
	r := c.R
	// 3. resolveIncludePaths on its own
	for i := 0; i < c.N(300, 5000); i++ {
		names := []string{"main.journal", "a.journal", "b.journal", "sub/c.journal", "sub/e.journal"}
		n := pick(r, names)
		ts := c12Targets(r, n, names, 50)
		text := c12Journal(r, c12FakeDir, n, ts, r.IntN(2))
		c.Emit("c12.contrib", c12ContribCase(c, n, text))
	}
}

// c12MembersOnly projects a c12.run case to what property C10 says about a workspace: which
// files the workspace's resolved include tree holds, and in which order (op c10.ws).
func c12MembersOnly(out map[string]any) map[string]any {
	impl := out["impl"].(map[string]any)
	mem := func(v any) any { return v.(map[string]any)["members"] }
	p := map[string]any{"root": impl["root"], "init": mem(impl["init"]), "order0": impl["order0"]}
	var steps []any
	for _, s := range impl["steps"].([]any) {
		st := s.(map[string]any)
		steps = append(steps, map[string]any{"mid": mem(st["mid"]), "midOrder": st["midOrder"],
			"post": mem(st["post"]), "postOrder": st["postOrder"]})
	}
	if steps == nil {
		steps = []any{}
	}
	p["steps"] = steps
	q := map[string]any{}
	for k, v := range out {
		q[k] = v
	}
	q["impl"] = p
	return q
}

// genC12Workspaces generates workspaces (include graphs over 2..5 files) with update sequences;
// div scales the budgets down for callers that want a share of the stream (C10).
func genC12Workspaces(c *Ctx, div int, emit func(files []c12File, ups []c12File)) {
	r := c.R
	maxUps := c.N(5, 8)

	genCase := func(names []string, adj func(i, j int) bool, dangling []string, nUps int) {
		dir := c12FakeDir
		all := append(append([]string{}, names...), dangling...)
		var files []c12File
		for i, n := range names {
			var ts []string
			for j, m := range all {
				if adj(i, j) {
					ts = append(ts, m)
					if r.IntN(15) == 0 {
						ts = append(ts, m)
					}
				}
			}
			r.Shuffle(len(ts), func(a, b int) { ts[a], ts[b] = ts[b], ts[a] })
			files = append(files, c12File{Name: n, Text: c12Journal(r, dir, n, ts, r.IntN(4))})
		}
		cur := map[string][]string{}
		var ups []c12File
		for k := 0; k < nUps; k++ {
			n := pick(r, all)
			var text string
			switch x := r.IntN(10); {
			case x < 1 && k > 0:
				// same text again as some earlier update of this file (or a no-op edit)
				text = ""
				for _, u := range ups {
					if u.Name == n {
						text = u.Text
					}
				}
				c.Count("update.repeat")
			case x < 4:
				// content edit, include list kept
				ts, ok := cur[n]
				if !ok {
					for i, m := range names {
						if m == n {
							for j, t := range all {
								if adj(i, j) {
									ts = append(ts, t)
								}
							}
						}
					}
				}
				text = c12Journal(r, dir, n, ts, r.IntN(4))
				cur[n] = ts
				c.Count("update.content")
			default:
				ts := c12Targets(r, n, all, 15+r.IntN(40))
				text = c12Journal(r, dir, n, ts, r.IntN(4))
				cur[n] = ts
				c.Count("update.includes")
			}
			ups = append(ups, c12File{Name: n, Text: text})
		}
		// unsaved edits: an update reaches the workspace as didChange only, other updates
		// follow while the buffer differs from the file, the save comes later
		if len(ups) > 0 && r.IntN(3) == 0 {
			k := r.IntN(len(ups))
			ups[k].Mode = "change"
			at := k + 1 + r.IntN(len(ups)-k)
			sv := c12File{Name: ups[k].Name, Text: ups[k].Text, Mode: "save"}
			if r.IntN(4) == 0 {
				// in between the include line of the edited file is cut from a file that
				// includes it and pasted back
				for i, f := range files {
					if f.Name != ups[k].Name && strings.Contains(f.Text, "include ") {
						cut := c12File{Name: f.Name, Text: c12DropIncludes(f.Text)}
						back := c12File{Name: f.Name, Text: f.Text}
						_ = i
						mid := append([]c12File{cut, back}, ups[k+1:at]...)
						ups = append(append(append([]c12File{}, ups[:k+1]...), mid...), append([]c12File{sv}, ups[at:]...)...)
						sv.Name = ""
						c.Count("update.unsaved.cut-paste")
						break
					}
				}
			}
			if sv.Name != "" {
				ups = append(append(append([]c12File{}, ups[:at]...), sv), ups[at:]...)
			}
			c.Count("update.unsaved")
		}
		if len(ups) > 8 {
			ups = ups[:8]
		}
		emit(files, ups)
	}

	// 1. every include graph on 2 and 3 files (self loops included)
	for n := 2; n <= 3; n++ {
		total := 1 << (n * n)
		stride := div
		if n == 3 && !c.Thorough() {
			stride = 2 * div
		}
		for g := 0; g < total; g += stride {
			names, mode := c12Names(r, n)
			c.Count(mode)
			c.Count(fmt.Sprintf("files.%d", n))
			gg := g
			genCase(names, func(i, j int) bool { return j < n && gg&(1<<(i*n+j)) != 0 }, nil, 1+r.IntN(maxUps))
		}
	}
	// 1b. thorough: one include graph in seven on 4 files (all 65 536 would produce several GB
	// of recorded views); the offset depends on the seed
	if c.Thorough() {
		n := 4
		for g := int(c.Seed % 7); g < 1<<(n*n); g += 7 * div {
			names, mode := c12Names(r, n)
			c.Count(mode)
			c.Count(fmt.Sprintf("files.%d", n))
			gg := g
			genCase(names, func(i, j int) bool { return j < n && gg&(1<<(i*n+j)) != 0 }, nil, 1+r.IntN(2))
		}
	}
	// 2. random workspaces of 2..5 files, sometimes with include targets that do not exist yet
	for i := 0; i < c.N(900, 8000)/div; i++ {
		n := 2 + r.IntN(4)
		names, mode := c12Names(r, n)
		c.Count(mode)
		c.Count(fmt.Sprintf("files.%d", n))
		var dangling []string
		if r.IntN(4) == 0 {
			dangling = []string{"x.journal"}
			if r.IntN(3) == 0 {
				dangling = append(dangling, "sub/y.journal")
			}
			c.Count("dangling")
		}
		m := n + len(dangling)
		density := 15 + r.IntN(45)
		adjm := make([]bool, (n+2)*(n+2))
		for a := 0; a < n; a++ {
			for b := 0; b < m; b++ {
				if a == b {
					adjm[a*(n+2)+b] = r.IntN(15) == 0
				} else {
					adjm[a*(n+2)+b] = r.IntN(100) < density
				}
			}
		}
		genCase(names, func(i, j int) bool { return adjm[i*(n+2)+j] }, dangling, 1+r.IntN(maxUps))
	}
	// 2b. two or three included files declare different formats for one commodity; the root drops
	// one include and adds it back (possibly in another position), or only reorders its include
	// directives: a fresh workspace must report the same formats as the updated one
	for i := 0; i < c.N(80, 1500)/div; i++ {
		n := 3 + r.IntN(2)
		names, mode := c12Names(r, n)
		c.Count(mode)
		c.Count(fmt.Sprintf("files.%d", n))
		c.Count("formats.conflict")
		dir := c12FakeDir
		cm := pick(r, c12DeclComm)
		fperm := r.Perm(len(c12Formats))
		decl := func(k int) string {
			f := c12Formats[fperm[k%len(fperm)]]
			if r.IntN(2) == 0 {
				return "commodity " + f + " " + cm + "\n"
			}
			return "commodity " + cm + "\n  format " + f + " " + cm + "\n"
		}
		rootText := func(ts []string) string {
			var parts []string
			for _, t := range ts {
				parts = append(parts, "include "+c12IncludePath(r, dir, names[0], t)+"\n")
			}
			if r.IntN(3) == 0 {
				parts = append(parts, decl(0))
			}
			return strings.Join(parts, "\n")
		}
		others := append([]string{}, names[1:]...)
		r.Shuffle(len(others), func(a, b int) { others[a], others[b] = others[b], others[a] })
		files := []c12File{{Name: names[0], Text: rootText(others)}}
		for k, m := range names[1:] {
			text := decl(k + 1)
			if k == 0 && n == 4 && r.IntN(2) == 0 {
				// a chain below the first included file
				text = "include " + c12IncludePath(r, dir, m, names[3]) + "\n\n" + text
			}
			if r.IntN(2) == 0 {
				text += "\n" + c12Tx(r)
			}
			files = append(files, c12File{Name: m, Text: text})
		}
		var ups []c12File
		cur := others
		for k := 0; k < 1+r.IntN(maxUps-1); k++ {
			switch r.IntN(4) {
			case 0: // reorder only
				nx := append([]string{}, cur...)
				r.Shuffle(len(nx), func(a, b int) { nx[a], nx[b] = nx[b], nx[a] })
				cur = nx
				c.Count("formats.reorder")
			case 1: // everything back, in a new order
				nx := append([]string{}, names[1:]...)
				r.Shuffle(len(nx), func(a, b int) { nx[a], nx[b] = nx[b], nx[a] })
				cur = nx
				c.Count("formats.readd")
			default: // drop one include if there is one, else add one back
				if len(cur) > 0 {
					d := r.IntN(len(cur))
					cur = append(append([]string{}, cur[:d]...), cur[d+1:]...)
					c.Count("formats.drop")
				} else {
					cur = []string{pick(r, names[1:])}
					c.Count("formats.readd")
				}
			}
			ups = append(ups, c12File{Name: names[0], Text: rootText(cur)})
		}
		// end on the full include list so that every declaration counts
		nx := append([]string{}, names[1:]...)
		r.Shuffle(len(nx), func(a, b int) { nx[a], nx[b] = nx[b], nx[a] })
		ups = append(ups, c12File{Name: names[0], Text: rootText(nx)})
		emit(files, ups)
	}
}
