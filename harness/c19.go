package main

// C19 — configuration is total, validated and effective.
//
// Ops
//   c19.facts   toolchain facts the model's coercions rest on (unicode.IsSpace set, preimages
//               of the letters of "true"/"false" under unicode.ToLower)
//   c19.keys    the key tree of applySettingsMap (go/ast over settings.go as compiled into
//               this binary), normalisation rules, defaults and field list (reflection)
//   c19.parse   prev settings + up to 4 payloads -> settings after each parseSettingsFromRaw
//   c19.seq     a real Server: Initialize / Initialized / DidChangeConfiguration with a client
//               stub answering workspace/configuration under a chosen schedule; settings (and
//               optionally observable behaviour) after every event.  Every request of the
//               behaviour probes goes through srv.FeatureGate(next) — the middleware that
//               cmd/hledger-lsp/main.go chains in front of the dispatcher — with next = the
//               direct call of the Server method
//   c19.wire    the BUILT binary over stdio: settings pushed with didChangeConfiguration (the
//               wire client announces no workspace.configuration), then one request per
//               switchable feature; which of them are answered with null
//
// Payloads travel twice: "txt" is the JSON text (what a client would send; replay input) and
// "p" is the value the Go code received after decoding, in a tagged form with every number
// as the exact float64 (mantissa, binary exponent).

import (
	"bytes"
	"context"
	stdjson "encoding/json"
	"fmt"
	"go/ast"
	"go/parser"
	"go/printer"
	"go/token"
	"math"
	"math/big"
	"math/rand/v2"
	"os"
	"path/filepath"
	"reflect"
	"runtime"
	"sort"
	"strconv"
	"strings"
	"sync"
	"time"
	"unicode"

	segjson "github.com/segmentio/encoding/json"
	"go.lsp.dev/jsonrpc2"
	"go.lsp.dev/protocol"

	"github.com/juev/hledger-lsp/internal/server"
)

func init() {
	register("C19", genC19)
	replayers["c19.facts"] = func(c *Ctx, m map[string]any) map[string]any { return c19Facts() }
	replayers["c19.keys"] = func(c *Ctx, m map[string]any) map[string]any { return c19Keys() }
	replayers["c19.parse"] = func(c *Ctx, m map[string]any) map[string]any {
		prev, _ := m["prev"].(map[string]any)
		var txts []string
		for _, x := range c19Arr(m["txts"]) {
			s, _ := x.(string)
			txts = append(txts, s)
		}
		return c19ParseCase(prev, txts)
	}
	replayers["c19.seq"] = func(c *Ctx, m map[string]any) map[string]any {
		return c19SeqCase(c, c19Arr(m["events"]))
	}
	replayers["c19.wire"] = func(c *Ctx, m map[string]any) map[string]any {
		var txts []string
		for _, x := range c19Arr(m["txts"]) {
			s, _ := x.(string)
			txts = append(txts, s)
		}
		return c19WireCase(txts)
	}
}

func c19Arr(v any) []any { a, _ := v.([]any); return a }

// ---------------------------------------------------------------- tagged JSON

// c19Tag renders a decoded JSON value (as the server receives it) unambiguously.
func c19Tag(v any) any {
	switch x := v.(type) {
	case nil:
		return map[string]any{"t": "z"}
	case bool:
		return map[string]any{"t": "b", "v": x}
	case float64:
		m, e := c19Float(x)
		return map[string]any{"t": "n", "m": m, "e": e}
	case string:
		return map[string]any{"t": "s", "v": x}
	case []any:
		out := make([]any, len(x))
		for i, y := range x {
			out[i] = c19Tag(y)
		}
		return map[string]any{"t": "a", "v": out}
	case map[string]any:
		keys := make([]string, 0, len(x))
		for k := range x {
			keys = append(keys, k)
		}
		sort.Strings(keys)
		out := make([]any, len(keys))
		for i, k := range keys {
			out[i] = []any{k, c19Tag(x[k])}
		}
		return map[string]any{"t": "o", "v": out}
	}
	panic(fmt.Sprintf("c19Tag: unexpected %T", v))
}

// c19Float: f == m * 2^e exactly, m odd or zero (decimal string), e int.
func c19Float(f float64) (string, int) {
	if f == 0 || math.IsNaN(f) || math.IsInf(f, 0) {
		return "0", 0
	}
	bf := new(big.Float).SetFloat64(f)
	mant := new(big.Float)
	exp := bf.MantExp(mant) // f = mant * 2^exp, 0.5 <= |mant| < 1
	mant.SetMantExp(mant, 53)
	mi, acc := mant.Int(nil)
	if acc != big.Exact {
		panic("c19Float: inexact")
	}
	e := exp - 53
	for mi.Bit(0) == 0 {
		mi.Rsh(mi, 1)
		e++
	}
	return mi.String(), e
}

func c19Decode(txt string) (any, error) {
	var v any
	err := segjson.Unmarshal([]byte(txt), &v)
	return v, err
}

// ---------------------------------------------------------------- settings view (reflection)

func c19View(s server.VerifSettings) map[string]any {
	out := map[string]any{}
	c19Walk(reflect.ValueOf(s), "", func(path string, v reflect.Value) {
		switch v.Kind() {
		case reflect.Bool:
			out[path] = v.Bool()
		case reflect.Int, reflect.Int64, reflect.Int32:
			out[path] = strconv.FormatInt(v.Int(), 10)
		case reflect.String:
			out[path] = map[string]any{"s": v.String()}
		default:
			out[path] = "?" + v.Kind().String()
		}
	})
	return out
}

func c19Walk(v reflect.Value, prefix string, f func(string, reflect.Value)) {
	if v.Kind() == reflect.Struct {
		for i := 0; i < v.NumField(); i++ {
			name := v.Type().Field(i).Name
			p := name
			if prefix != "" {
				p = prefix + "." + name
			}
			c19Walk(v.Field(i), p, f)
		}
		return
	}
	f(prefix, v)
}

func c19FromView(view map[string]any) server.VerifSettings {
	s := server.VerifDefaultServerSettings()
	rv := reflect.ValueOf(&s).Elem()
	c19Walk(rv, "", func(path string, v reflect.Value) {
		x, ok := view[path]
		if !ok {
			return
		}
		switch v.Kind() {
		case reflect.Bool:
			b, _ := x.(bool)
			v.SetBool(b)
		case reflect.Int, reflect.Int64, reflect.Int32:
			str, _ := x.(string)
			n, _ := strconv.ParseInt(str, 10, 64)
			v.SetInt(n)
		case reflect.String:
			m, _ := x.(map[string]any)
			str, _ := m["s"].(string)
			v.SetString(str)
		}
	})
	return s
}

// ---------------------------------------------------------------- c19.facts

func c19Facts() map[string]any {
	var spaces []int
	var lower [][]int
	bad := []int{}
	for r := rune(0); r <= unicode.MaxRune; r++ {
		if r >= 0xD800 && r <= 0xDFFF {
			continue
		}
		l := unicode.ToLower(r)
		if unicode.IsSpace(r) {
			spaces = append(spaces, int(r))
			if l != r {
				bad = append(bad, int(r))
			}
		} else if unicode.IsSpace(l) {
			bad = append(bad, int(r))
		}
		if strings.ContainsRune("truefals", l) {
			lower = append(lower, []int{int(r), int(l)})
		}
		if strings.ToLower(string(r)) != string(l) {
			bad = append(bad, int(r))
		}
	}
	return map[string]any{"impl": map[string]any{
		"spaces": spaces, "lower": lower, "bad": bad,
		"intBits": strconv.IntSize,
	}}
}

// ---------------------------------------------------------------- c19.keys

func c19Src(fset *token.FileSet, n ast.Node) string {
	var b bytes.Buffer
	_ = printer.Fprint(&b, fset, n)
	return strings.Join(strings.Fields(b.String()), " ")
}

func c19Lit(e ast.Expr) (string, bool) {
	bl, ok := e.(*ast.BasicLit)
	if !ok || bl.Kind != token.STRING {
		return "", false
	}
	s, err := strconv.Unquote(bl.Value)
	return s, err == nil
}

// settings.A.B -> "A.B"
func c19Sel(e ast.Expr, root string) (string, bool) {
	var parts []string
	for {
		switch x := e.(type) {
		case *ast.SelectorExpr:
			parts = append([]string{x.Sel.Name}, parts...)
			e = x.X
		case *ast.Ident:
			if x.Name != root {
				return "", false
			}
			return strings.Join(parts, "."), true
		default:
			return "", false
		}
	}
}

// c19LeafStmt recognises `if value, ok := toX(m["k"]); ok { settings.F = rhs }`.
func c19LeafStmt(fset *token.FileSet, st ast.Stmt, mapVar, group string) map[string]any {
	return c19LeafStmtAt(fset, st, mapVar, group, "settings", "")
}

// c19LeafStmtAt: the same inside a helper whose parameter `root` stands for settings.<prefix>.
func c19LeafStmtAt(fset *token.FileSet, st ast.Stmt, mapVar, group, root, prefix string) map[string]any {
	unknown := map[string]any{"unknown": c19Src(fset, st)}
	is, ok := st.(*ast.IfStmt)
	if !ok || is.Else != nil || is.Init == nil {
		return unknown
	}
	as, ok := is.Init.(*ast.AssignStmt)
	if !ok || len(as.Lhs) != 2 || len(as.Rhs) != 1 || as.Tok != token.DEFINE {
		return unknown
	}
	valName := c19Src(fset, as.Lhs[0])
	okName := c19Src(fset, as.Lhs[1])
	call, ok := as.Rhs[0].(*ast.CallExpr)
	if !ok || len(call.Args) != 1 {
		return unknown
	}
	fn, ok := call.Fun.(*ast.Ident)
	if !ok {
		return unknown
	}
	ix, ok := call.Args[0].(*ast.IndexExpr)
	if !ok || c19Src(fset, ix.X) != mapVar {
		return unknown
	}
	key, ok := c19Lit(ix.Index)
	if !ok {
		return unknown
	}
	if c19Src(fset, is.Cond) != okName || len(is.Body.List) != 1 {
		return unknown
	}
	asg, ok := is.Body.List[0].(*ast.AssignStmt)
	if !ok || asg.Tok != token.ASSIGN || len(asg.Lhs) != 1 || len(asg.Rhs) != 1 {
		return unknown
	}
	field, ok := c19Sel(asg.Lhs[0], root)
	if !ok {
		return unknown
	}
	field = c19Join(prefix, field)
	rhs := c19Src(fset, asg.Rhs[0])
	if valName != "value" {
		rhs = "(" + valName + ") " + rhs
	}
	return map[string]any{"g": group, "k": key, "c": fn.Name, "f": field, "x": rhs}
}

// `any` is an alias of `interface{}`: the two spellings are the same type.
func c19IsStringMap(t string) bool { return t == "map[string]interface{}" || t == "map[string]any" }

func c19Join(prefix, field string) string {
	switch {
	case prefix == "":
		return field
	case field == "":
		return prefix
	}
	return prefix + "." + field
}

func c19FuncDecl(file *ast.File, name string) *ast.FuncDecl {
	for _, d := range file.Decls {
		if fd, ok := d.(*ast.FuncDecl); ok && fd.Recv == nil && fd.Name.Name == name && fd.Body != nil {
			return fd
		}
	}
	return nil
}

// c19WalkApply lists the leaf statements of applySettingsMap in execution order.  The body may
// delegate a section to a helper of the same file — `settings.X = f(settings.X, raw)` or
// `settings = f(settings, raw)`, f(p T, raw map[string]interface{}) T ending in `return p` —
// whose statements are read in place, p standing for settings.X (a harmless split of the
// function must not look like a change of the key table).
func c19WalkApply(fset *token.FileSet, file *ast.File, fd *ast.FuncDecl, prefix string, depth int) []any {
	var entries []any
	params := []string{}
	if fd.Type.Params != nil {
		for _, f := range fd.Type.Params.List {
			for _, n := range f.Names {
				params = append(params, n.Name)
			}
		}
	}
	if len(params) != 2 || depth > 4 {
		return []any{map[string]any{"unknown": "func " + fd.Name.Name + ": unexpected signature"}}
	}
	root, rawName := params[0], params[1]
	for _, st := range fd.Body.List {
		if rs, ok := st.(*ast.ReturnStmt); ok {
			if len(rs.Results) != 1 || c19Src(fset, rs.Results[0]) != root {
				entries = append(entries, map[string]any{"unknown": c19Src(fset, st)})
			}
			continue
		}
		// delegation to a section helper?
		if as, ok := st.(*ast.AssignStmt); ok && as.Tok == token.ASSIGN && len(as.Lhs) == 1 && len(as.Rhs) == 1 {
			if call, ok := as.Rhs[0].(*ast.CallExpr); ok && len(call.Args) == 2 {
				if fn, ok := call.Fun.(*ast.Ident); ok {
					lhs, okl := c19Sel(as.Lhs[0], root)
					arg, oka := c19Sel(call.Args[0], root)
					callee := c19FuncDecl(file, fn.Name)
					if okl && oka && lhs == arg && c19Src(fset, call.Args[1]) == rawName && callee != nil {
						entries = append(entries, c19WalkApply(fset, file, callee, c19Join(prefix, lhs), depth+1)...)
						continue
					}
				}
			}
		}
		// group block?
		if is, ok := st.(*ast.IfStmt); ok && is.Init != nil {
			if as, ok := is.Init.(*ast.AssignStmt); ok && len(as.Rhs) == 1 {
				if ta, ok := as.Rhs[0].(*ast.TypeAssertExpr); ok {
					ix, ok1 := ta.X.(*ast.IndexExpr)
					okShape := ok1 && c19Src(fset, ix.X) == rawName && is.Else == nil &&
						len(as.Lhs) == 2 && c19Src(fset, is.Cond) == c19Src(fset, as.Lhs[1]) &&
						c19IsStringMap(c19Src(fset, ta.Type))
					g, ok2 := "", false
					if ok1 {
						g, ok2 = c19Lit(ix.Index)
					}
					if !okShape || !ok2 {
						entries = append(entries, map[string]any{"unknown": c19Src(fset, st)})
						continue
					}
					mv := c19Src(fset, as.Lhs[0])
					for _, inner := range is.Body.List {
						entries = append(entries, c19LeafStmtAt(fset, inner, mv, g, root, prefix))
					}
					continue
				}
			}
		}
		entries = append(entries, c19LeafStmtAt(fset, st, rawName, "", root, prefix))
	}
	return entries
}

// c19SortEntries: statements that write different fields commute, so the table is compared
// field by field: a stable sort by field keeps the order of the statements that write the same
// field (the dotted key after the nested one) and forgets the rest.
func c19SortEntries(entries []any) {
	key := func(e any) string {
		m, _ := e.(map[string]any)
		if f, ok := m["f"].(string); ok {
			return f
		}
		return "~" // unknown statements last, in source order
	}
	sort.SliceStable(entries, func(i, j int) bool { return key(entries[i]) < key(entries[j]) })
}

func c19Keys() map[string]any {
	path := server.VerifSettingsSource()
	fset := token.NewFileSet()
	file, err := parser.ParseFile(fset, path, nil, 0)
	if err != nil {
		return map[string]any{"impl": map[string]any{"error": err.Error()}}
	}
	var entries, norm []any
	var wrapper []any
	// file-level integer constants (the upper bounds of the widths): name -> literal
	consts := map[string]string{}
	for _, d := range file.Decls {
		gd, ok := d.(*ast.GenDecl)
		if !ok || gd.Tok != token.CONST {
			continue
		}
		for _, sp := range gd.Specs {
			vs, ok := sp.(*ast.ValueSpec)
			if !ok {
				continue
			}
			for i, n := range vs.Names {
				if i < len(vs.Values) {
					if bl, ok := vs.Values[i].(*ast.BasicLit); ok && bl.Kind == token.INT {
						consts[n.Name] = bl.Value
					}
				}
			}
		}
	}
	resolve := func(e ast.Expr) string {
		if id, ok := e.(*ast.Ident); ok {
			if v, ok := consts[id.Name]; ok {
				return v
			}
		}
		return c19Src(fset, e)
	}
	for _, d := range file.Decls {
		fd, ok := d.(*ast.FuncDecl)
		if !ok || fd.Body == nil {
			continue
		}
		switch fd.Name.Name {
		case "applySettingsMap":
			entries = append(entries, c19WalkApply(fset, file, fd, "", 0)...)
		case "normalizeServerSettings":
			for _, st := range fd.Body.List {
				switch x := st.(type) {
				case *ast.ReturnStmt:
				case *ast.AssignStmt:
					if c19Src(fset, x) != "defaults := defaultServerSettings()" {
						norm = append(norm, map[string]any{"unknown": c19Src(fset, x)})
					}
				case *ast.IfStmt:
					ok := x.Init == nil && x.Else == nil && len(x.Body.List) == 1
					var field, cond, to string
					if be, isBin := x.Cond.(*ast.BinaryExpr); ok && isBin {
						f, okf := c19Sel(be.X, "settings")
						field, ok = f, okf
						cond = be.Op.String() + " " + resolve(be.Y)
					} else {
						ok = false
					}
					if ok {
						// `settings.F = defaults.F` or `settings.F = <constant>`
						asg, isAsg := x.Body.List[0].(*ast.AssignStmt)
						ok = isAsg && asg.Tok == token.ASSIGN && len(asg.Lhs) == 1 && len(asg.Rhs) == 1
						if ok {
							lhs, okl := c19Sel(asg.Lhs[0], "settings")
							ok = okl && lhs == field
						}
						if ok {
							if rhs, okr := c19Sel(asg.Rhs[0], "defaults"); okr && rhs == field {
								to = "default"
							} else if _, isIdent := asg.Rhs[0].(*ast.Ident); isIdent {
								to = resolve(asg.Rhs[0])
							} else if bl, isLit := asg.Rhs[0].(*ast.BasicLit); isLit && bl.Kind == token.INT {
								to = bl.Value
							} else {
								ok = false
							}
						}
					}
					if ok {
						norm = append(norm, map[string]any{"f": field, "cond": cond, "to": to})
					} else {
						norm = append(norm, map[string]any{"unknown": c19Src(fset, x)})
					}
				default:
					norm = append(norm, map[string]any{"unknown": c19Src(fset, st)})
				}
			}
		case "parseSettingsFromRaw":
			ast.Inspect(fd.Body, func(n ast.Node) bool {
				if ix, ok := n.(*ast.IndexExpr); ok {
					if k, ok := c19Lit(ix.Index); ok {
						wrapper = append(wrapper, k)
					}
				}
				return true
			})
		}
	}
	c19SortEntries(entries)
	return map[string]any{"impl": map[string]any{
		"entries":  entries,
		"norm":     norm,
		"wrapper":  wrapper,
		"defaults": c19View(server.VerifDefaultServerSettings()),
	}}
}

// ---------------------------------------------------------------- c19.parse

func c19ParseCase(prev map[string]any, txts []string) map[string]any {
	s := c19FromView(prev)
	var ps, impl []any
	for _, t := range txts {
		v, err := c19Decode(t)
		if err != nil {
			// not a JSON text a client can deliver: the message never reaches the server code
			ps = append(ps, nil)
			impl = append(impl, c19View(s))
			continue
		}
		ps = append(ps, c19Tag(v))
		s = server.VerifParseSettingsFromRaw(s, v)
		impl = append(impl, c19View(s))
	}
	return map[string]any{"prev": c19View(c19FromView(prev)), "txts": txts, "ps": ps, "impl": impl}
}

// ---------------------------------------------------------------- payload generator

type c19Leaf struct {
	sec, name string
	kind      byte // 'b' bool, 'i' int, 's' string
	good      []string
}

var c19Tree = []c19Leaf{
	{"features", "hover", 'b', nil}, {"features", "completion", 'b', nil},
	{"features", "formatting", 'b', nil}, {"features", "diagnostics", 'b', nil},
	{"features", "semanticTokens", 'b', nil}, {"features", "codeActions", 'b', nil},
	{"features", "foldingRanges", 'b', nil}, {"features", "documentLinks", 'b', nil},
	{"features", "workspaceSymbol", 'b', nil}, {"features", "inlineCompletion", 'b', nil},
	{"completion", "maxResults", 'i', []string{"1", "2", "3", "5", "7", "10", "100", "1000"}},
	{"completion", "fuzzyMatching", 'b', nil}, {"completion", "showCounts", 'b', nil},
	{"diagnostics", "undeclaredAccounts", 'b', nil}, {"diagnostics", "undeclaredCommodities", 'b', nil},
	{"diagnostics", "unbalancedTransactions", 'b', nil},
	{"formatting", "indentSize", 'i', []string{"1", "2", "3", "4", "8", "12", "31", "32", "33", "64", "1000", "1001"}},
	{"formatting", "alignAmounts", 'b', nil},
	{"formatting", "minAlignmentColumn", 'i', []string{"0", "10", "30", "40", "60", "80", "499", "500", "501", "1000", "1001", "100000"}},
	{"cli", "enabled", 'b', nil},
	{"cli", "path", 's', []string{"hledger", "/nonexistent/hledger-a", "/nonexistent/hledger-b"}},
	{"cli", "timeout", 'i', []string{"1", "500", "30000", "60000"}},
	{"limits", "maxFileSizeBytes", 'i', []string{"1", "40", "60", "1024", "10485760", "20971520"}},
	{"limits", "maxFileSize", 'i', []string{"1", "40", "60", "2048", "33554432"}},
	{"limits", "maxIncludeDepth", 'i', []string{"1", "2", "3", "4", "50", "100"}},
}

type c19Gen struct {
	r    *rand.Rand
	c    *Ctx
	safe bool // server-level ops: keep cli.path inside a set of harmless values
}

func c19num(s string) any { return stdjson.Number(s) }

var c19BoolStrings = []string{"true", "false", "TRUE", "False", " true", "false ", "\ttrue\n", " FaLsE  ",
	"tRuE", " true ", "\u3000FALSE", "true\u0085", "TRUE\ufeff", "\uff54rue", "ſalse", "falſe",
	"yes", "no", "1", "0", "on", "truee", "tru", "t rue", "", " ", "null", "True!", "İ"}

var c19IntStrings = []string{"12", " 12 ", "+7", "-3", "007", "0", "-0", "+0", "12abc", "1e3", "5.0", "", "  ",
	"0x10", "1_000", "١٢", "５", " 4 ", "9223372036854775807", "9223372036854775808",
	"-9223372036854775808", "-9223372036854775809", "99999999999999999999", "0000000000000000000000005",
	"+", "-", "--1", "+-1", "1 2", "3\x00", "9223372036854", "9223372036855", "-9223372036855"}

var c19HugeNums = []string{"1e18", "9007199254740993", "9007199254740992", "9223372036854775807",
	"9223372036854775808", "1e19", "-1e19", "1e300", "-1e300", "1.7976931348623157e308",
	"-9223372036854775808", "-9223372036854777856", "9223372036854774784", "4611686018427387904",
	"9223372036854", "9223372036855", "9223372036854.775", "9223372036854.776", "18446744073709", "-9223372036855",
	"123456789012345678901234567890"}

var c19FloatNums = []string{"5.0", "5.7", "1e2", "0.5", "-0.5", "0.9999999999999999", "0.99999999999999999999",
	"2.5", "-2.5", "3.000000000000001", "1E1", "12.0e-1", "4.999999999999999999999", "1e-320", "-1e-320"}

var c19ZeroNums = []string{"0", "0.0", "-0", "-0.0", "0e5", "1e-400"}
var c19NegNums = []string{"-1", "-50", "-1.5", "-1e3", "-2147483649", "-4294967296"}

func (g *c19Gen) goodVal(l c19Leaf) any {
	switch l.kind {
	case 'b':
		return g.r.IntN(2) == 0
	case 'i':
		return c19num(pick(g.r, l.good))
	default:
		return pick(g.r, l.good)
	}
}

func (g *c19Gen) junk(depth int) any {
	r := g.r
	switch r.IntN(8) {
	case 0:
		return nil
	case 1:
		return r.IntN(2) == 0
	case 2:
		return c19num(pick(r, []string{"0", "1", "-1", "3", "2.5", "1e3", "50"}))
	case 3:
		return pick(r, []string{"", "x", "true", "7", "hledger", " false "})
	case 4:
		if depth <= 0 {
			return []any{}
		}
		n := r.IntN(3)
		a := make([]any, n)
		for i := range a {
			a[i] = g.junk(depth - 1)
		}
		return a
	default:
		if depth <= 0 {
			return map[string]any{}
		}
		n := r.IntN(3)
		m := map[string]any{}
		for i := 0; i < n; i++ {
			m[g.anyKey()] = g.junk(depth - 1)
		}
		return m
	}
}

func (g *c19Gen) anyKey() string {
	r := g.r
	switch r.IntN(6) {
	case 0:
		return "hledger"
	case 1:
		l := pick(r, c19Tree)
		return l.sec
	case 2:
		l := pick(r, c19Tree)
		return l.name
	case 3:
		l := pick(r, c19Tree)
		return l.sec + "." + l.name
	case 4:
		return pick(r, []string{"Features", "feature", "completion.maxresults", "hledger.features.hover",
			"features.", ".hover", "limits.maxFileSize", "", "a", "cli.Path", "HLEDGER", "hledger "})
	default:
		return genLine(r, 5)
	}
}

// leafVal draws a value for a leaf from the classes of DESIGN 4.6; returns the class name.
func (g *c19Gen) leafVal(l c19Leaf) (any, string) {
	r := g.r
	x := r.IntN(100)
	switch l.kind {
	case 'b':
		switch {
		case x < 40:
			return g.goodVal(l), "well-typed"
		case x < 62:
			return pick(r, c19BoolStrings), "bool-as-string"
		case x < 68:
			return nil, "null"
		case x < 73:
			return []any{g.junk(0)}, "array"
		case x < 78:
			return map[string]any{"value": true}, "object"
		case x < 90:
			return c19num(pick(r, []string{"0", "1", "-1", "2", "0.0", "1.0"})), "wrong-type"
		default:
			return g.junk(1), "junk"
		}
	case 'i':
		switch {
		case x < 30:
			return g.goodVal(l), "well-typed"
		case x < 40:
			return c19num(pick(r, c19FloatNums)), "num-float"
		case x < 55:
			if r.IntN(3) == 0 {
				return " " + pick(r, l.good) + "\t", "num-as-string"
			}
			return pick(r, c19IntStrings), "num-as-string"
		case x < 60:
			return nil, "null"
		case x < 64:
			return []any{c19num("3")}, "array"
		case x < 68:
			return map[string]any{"value": c19num("3")}, "object"
		case x < 74:
			return r.IntN(2) == 0, "wrong-type"
		case x < 84:
			return c19num(pick(r, c19HugeNums)), "huge"
		case x < 90:
			return c19num(pick(r, c19NegNums)), "negative"
		case x < 96:
			return c19num(pick(r, c19ZeroNums)), "zero"
		default:
			return g.junk(1), "junk"
		}
	default: // string
		switch {
		case x < 50:
			return g.goodVal(l), "well-typed"
		case x < 60:
			return "", "empty-string"
		case x < 70:
			if g.safe {
				return "/nonexistent/" + genLineASCII(r), "string"
			}
			return genLine(r, 8), "string"
		case x < 76:
			return nil, "null"
		case x < 82:
			return []any{"hledger"}, "array"
		case x < 88:
			return map[string]any{}, "object"
		default:
			return c19num(pick(r, []string{"0", "1", "42"})), "wrong-type"
		}
	}
}

func genLineASCII(r *rand.Rand) string {
	n := 1 + r.IntN(6)
	b := make([]rune, n)
	for i := range b {
		b[i] = pick(r, asciiLetters)
	}
	return string(b)
}

// settingsMap: an object over the key tree.
func (g *c19Gen) settingsMap() map[string]any {
	r := g.r
	m := map[string]any{}
	density := []int{1, 1, 2, 3, 6, 12, 25}[r.IntN(7)]
	form := r.IntN(4) // 0 nested, 1 dotted, 2 per-leaf, 3 both (conflicts)
	for _, l := range c19Tree {
		if l.name == "maxFileSize" && r.IntN(3) != 0 {
			continue
		}
		if r.IntN(25) >= density {
			continue
		}
		v, class := g.leafVal(l)
		g.c.Count("leaf." + class)
		f := form
		if f == 2 {
			f = r.IntN(2)
		}
		if f == 0 || f == 3 {
			sec, ok := m[l.sec].(map[string]any)
			if !ok {
				sec = map[string]any{}
				m[l.sec] = sec
			}
			sec[l.name] = v
			g.c.Count("form.nested")
		}
		if f == 1 || f == 3 {
			if f == 3 && r.IntN(2) == 0 {
				v, _ = g.leafVal(l)
			}
			m[l.sec+"."+l.name] = v
			g.c.Count("form.dotted")
		}
	}
	// damage
	switch r.IntN(14) {
	case 0: // a section that is not an object
		l := pick(r, c19Tree)
		m[l.sec] = g.junk(1)
		g.c.Count("damage.section-not-object")
	case 1:
		m[g.anyKey()] = g.junk(2)
		g.c.Count("damage.extra-key")
	case 2: // unknown key inside a section
		l := pick(r, c19Tree)
		if sec, ok := m[l.sec].(map[string]any); ok {
			sec[g.anyKey()] = g.junk(1)
			g.c.Count("damage.unknown-in-section")
		}
	}
	return m
}

// payload: settings map, optionally wrapped, optionally with wrapper siblings / bad wrapper.
func (g *c19Gen) payload() any {
	r := g.r
	switch x := r.IntN(100); {
	case x < 4:
		g.c.Count("payload.non-object")
		return pick(r, []any{nil, true, false, c19num("5"), "hledger", []any{}, []any{map[string]any{}}, c19num("0")})
	case x < 12:
		g.c.Count("payload.random")
		return g.junk(4)
	}
	var v any = g.settingsMap()
	depth := []int{0, 0, 0, 1, 1, 2, 3}[r.IntN(7)]
	g.c.Count(fmt.Sprintf("payload.wrap%d", depth))
	for i := 0; i < depth; i++ {
		w := map[string]any{"hledger": v}
		if r.IntN(4) == 0 { // siblings next to the wrapper
			for k, val := range g.settingsMap() {
				w[k] = val
			}
			g.c.Count("payload.wrapper-siblings")
		}
		v = w
	}
	if r.IntN(10) == 0 { // a "hledger" member that is not an object, next to settings (at the innermost level)
		m := v.(map[string]any)
		lvl := r.IntN(depth + 1)
		for d := 0; d < lvl; d++ {
			inner, ok := m["hledger"].(map[string]any)
			if !ok {
				break
			}
			m = inner
		}
		if lvl < depth && len(m) == 1 { // only the wrapper there: put settings next to it
			for k, val := range g.settingsMap() {
				m[k] = val
			}
		}
		m["hledger"] = pick(r, []any{nil, c19num("1"), "x", []any{}, true, []any{map[string]any{"completion.maxResults": c19num("3")}}, ""})
		g.c.Count("payload.wrapper-ill-typed")
	}
	return v
}

func (g *c19Gen) payloadText() string {
	v := g.payload()
	var buf bytes.Buffer
	enc := stdjson.NewEncoder(&buf)
	enc.SetEscapeHTML(false)
	if err := enc.Encode(v); err != nil {
		panic(err)
	}
	return strings.TrimSpace(buf.String())
}

func (g *c19Gen) prevView() map[string]any {
	r := g.r
	s := server.VerifDefaultServerSettings()
	if r.IntN(4) == 0 { // an arbitrary struct value (not necessarily normalised)
		rv := reflect.ValueOf(&s).Elem()
		c19Walk(rv, "", func(path string, v reflect.Value) {
			if r.IntN(2) == 0 {
				return
			}
			switch v.Kind() {
			case reflect.Bool:
				v.SetBool(r.IntN(2) == 0)
			case reflect.Int, reflect.Int64:
				v.SetInt(pick(r, []int64{0, 1, -1, 7, 50, -50, 1 << 40, math.MinInt64, math.MaxInt64, 3000000}))
			case reflect.String:
				v.SetString(pick(r, []string{"", "hledger", "/nonexistent/x", " "}))
			}
		})
		g.c.Count("prev.arbitrary")
	} else if r.IntN(2) == 0 {
		for i := 0; i < 2; i++ {
			if v, err := c19Decode(g.payloadText()); err == nil {
				s = server.VerifParseSettingsFromRaw(s, v)
			}
		}
		g.c.Count("prev.derived")
	} else {
		g.c.Count("prev.default")
	}
	return c19View(s)
}

// ---------------------------------------------------------------- generator entry

// Go leaves float64→int conversion of values outside int64 to the platform; the model has the
// amd64 result (-2^63).  Elsewhere those literals are not generated.
func c19ArchFilter() {
	if runtime.GOARCH == "amd64" {
		return
	}
	keep := func(pool []string) []string {
		var out []string
		for _, s := range pool {
			f, err := strconv.ParseFloat(s, 64)
			if err == nil && math.Abs(f) < 9.2e18 {
				out = append(out, s)
			}
		}
		return out
	}
	c19HugeNums = keep(c19HugeNums)
}

func genC19(c *Ctx) {
	c19ArchFilter()
	c.Emit("c19.facts", c19Facts())
	c.Emit("c19.keys", c19Keys())
	g := &c19Gen{r: c.R, c: c}
	for i := 0; i < c.N(6000, 150000); i++ {
		n := 1 + c.R.IntN(4)
		txts := make([]string, n)
		for j := range txts {
			txts[j] = g.payloadText()
		}
		c.Emit("c19.parse", c19ParseCase(g.prevView(), txts))
	}
	// every leaf x every value of the fixed pools, both forms, with and without wrapper
	c19Exhaustive(c)
	genC19Seq(c)
	genC19Targeted(c)
	genC19Switches(c)
	genC19Wire(c)
}

func c19Exhaustive(c *Ctx) {
	def := c19View(server.VerifDefaultServerSettings())
	emit := func(l c19Leaf, lit string) {
		for form := 0; form < 7; form++ {
			var txt string
			switch form {
			case 0:
				txt = fmt.Sprintf(`{%q:{%q:%s}}`, l.sec, l.name, lit)
			case 1:
				txt = fmt.Sprintf(`{%q:%s}`, l.sec+"."+l.name, lit)
			case 2:
				txt = fmt.Sprintf(`{"hledger":{%q:{%q:%s}}}`, l.sec, l.name, lit)
			case 3: // next to an empty section
				txt = fmt.Sprintf(`{"hledger":{},%q:{%q:%s}}`, l.sec, l.name, lit)
			case 4: // next to a "hledger" member that is not an object
				txt = fmt.Sprintf(`{"hledger":%s,%q:%s}`, []string{"null", "5", `"x"`, "[]", "true"}[c.R.IntN(5)], l.sec+"."+l.name, lit)
			case 5: // next to a section whose own "hledger" member is not an object
				txt = fmt.Sprintf(`{"hledger":{"hledger":null,%q:%s}}`, l.sec+"."+l.name, lit)
			default: // two levels deep, dotted
				txt = fmt.Sprintf(`{"hledger":{"hledger":{%q:%s}}}`, l.sec+"."+l.name, lit)
			}
			c.Emit("c19.parse", c19ParseCase(def, []string{txt}))
			c.Count("exhaustive")
		}
	}
	q := func(s string) string { b, _ := marshal(s); return string(b) }
	for _, l := range c19Tree {
		switch l.kind {
		case 'b':
			for _, s := range c19BoolStrings {
				emit(l, q(s))
			}
			for _, s := range []string{"true", "false", "null", "0", "1", "[]", "{}", "[true]"} {
				emit(l, s)
			}
		case 'i':
			for _, s := range c19IntStrings {
				emit(l, q(s))
			}
			for _, pool := range [][]string{c19HugeNums, c19FloatNums, c19ZeroNums, c19NegNums, l.good} {
				for _, s := range pool {
					emit(l, s)
				}
			}
			for _, s := range []string{"true", "null", "[]", "{}", "[3]"} {
				emit(l, s)
			}
		default:
			for _, s := range []string{`""`, `"hledger"`, `" "`, `"/nonexistent/é😀"`, "null", "0", "[]", "{}", "true"} {
				emit(l, s)
			}
		}
	}
}

// ---------------------------------------------------------------- server-level sequences

type c19Client struct {
	protocol.Client // nil: any method other than the ones below would panic (none is called)
	mu              sync.Mutex
	calls           []chan c19Reply
	published       []*protocol.PublishDiagnosticsParams
}

type c19Reply struct {
	items []any
	err   error
}

func (cl *c19Client) Configuration(ctx context.Context, p *protocol.ConfigurationParams) ([]interface{}, error) {
	ch := make(chan c19Reply, 1)
	cl.mu.Lock()
	cl.calls = append(cl.calls, ch)
	cl.mu.Unlock()
	r := <-ch
	return r.items, r.err
}

func (cl *c19Client) PublishDiagnostics(ctx context.Context, p *protocol.PublishDiagnosticsParams) error {
	cl.mu.Lock()
	cl.published = append(cl.published, p)
	cl.mu.Unlock()
	return nil
}

func (cl *c19Client) LogMessage(ctx context.Context, p *protocol.LogMessageParams) error { return nil }

func (cl *c19Client) nCalls() int {
	cl.mu.Lock()
	defer cl.mu.Unlock()
	return len(cl.calls)
}

// c19WaitGoroutines blocks until at most n goroutines exist (background tasks of the server
// are the only goroutines that come and go while a sequence runs).
func c19WaitGoroutines(n int) {
	deadline := time.Now().Add(20 * time.Second)
	for i := 0; runtime.NumGoroutine() > n; i++ {
		if i < 100 {
			runtime.Gosched()
		} else {
			time.Sleep(50 * time.Microsecond)
		}
		if time.Now().After(deadline) {
			panic(fmt.Sprintf("c19: background task did not finish (%d goroutines, want <= %d)", runtime.NumGoroutine(), n))
		}
	}
}

type c19Run struct {
	srv     *server.Server
	cl      *c19Client
	base    int // goroutines before any background task
	pending []int
	dir     string
}

func (ru *c19Run) state() map[string]any {
	return map[string]any{
		"settings": c19View(ru.srv.VerifGetSettings()),
		"cfg":      ru.srv.VerifSupportsConfiguration(),
		"pending":  len(ru.pending),
	}
}

// waitSpawn: a refresh goroutine was just started; wait until it has either finished or is
// blocked inside the client's Configuration call.
func (ru *c19Run) waitSpawn(before int) {
	deadline := time.Now().Add(20 * time.Second)
	for i := 0; ; i++ {
		if ru.cl.nCalls() > before {
			ru.pending = append(ru.pending, before)
			return
		}
		if runtime.NumGoroutine() <= ru.base+len(ru.pending) {
			// finished without asking; a call registered meanwhile?
			if ru.cl.nCalls() > before {
				ru.pending = append(ru.pending, before)
			}
			return
		}
		if i < 100 {
			runtime.Gosched()
		} else {
			time.Sleep(50 * time.Microsecond)
		}
		if time.Now().After(deadline) {
			panic("c19: refresh task neither finished nor asked")
		}
	}
}

func c19CapsView(res *protocol.InitializeResult) map[string]any {
	c := res.Capabilities
	nn := func(v any) bool {
		if v == nil {
			return false
		}
		rv := reflect.ValueOf(v)
		switch rv.Kind() {
		case reflect.Ptr, reflect.Map, reflect.Slice, reflect.Interface:
			return !rv.IsNil()
		case reflect.Bool:
			return rv.Bool()
		}
		return true
	}
	inline := false
	if m, ok := c.Experimental.(map[string]any); ok {
		inline, _ = m["inlineCompletionProvider"].(bool)
	}
	return map[string]any{
		"completionProvider":         c.CompletionProvider != nil,
		"hoverProvider":              nn(c.HoverProvider),
		"documentFormattingProvider": nn(c.DocumentFormattingProvider),
		"semanticTokensProvider":     nn(c.SemanticTokensProvider),
		"foldingRangeProvider":       nn(c.FoldingRangeProvider),
		"documentLinkProvider":       c.DocumentLinkProvider != nil,
		"workspaceSymbolProvider":    nn(c.WorkspaceSymbolProvider),
		"codeActionProvider":         nn(c.CodeActionProvider),
		"executeCommandProvider":     c.ExecuteCommandProvider != nil,
		"inlineCompletionProvider":   inline,
	}
}

// c19SeqCase runs a list of events against a fresh server.  Events (maps):
//   {"k":"init","txt":<options JSON>,"cfg":null|true|false}
//   {"k":"initialized"}
//   {"k":"change","txt":<settings JSON pushed in the notification>}
//   {"k":"answer","task":i,"err":bool,"txts":[<JSON>...]}   reply to the i-th pending pull
//   {"k":"observe"}                                          behaviour probes
// "client":false as first-event field runs the server without a client.
func c19SeqCase(c *Ctx, events []any) map[string]any {
	ru := &c19Run{srv: server.NewServer(), cl: &c19Client{}}
	hasClient := true
	if len(events) > 0 {
		if m, ok := events[0].(map[string]any); ok {
			if b, ok := m["client"].(bool); ok && !b {
				hasClient = false
			}
		}
	}
	if hasClient {
		ru.srv.SetClient(ru.cl)
	}
	ru.base = runtime.NumGoroutine()
	ctx := context.Background()
	var outEvents, impl []any
	for _, ev := range events {
		m, _ := ev.(map[string]any)
		oe := map[string]any{}
		for k, v := range m {
			oe[k] = v
		}
		st := map[string]any{}
		switch m["k"] {
		case "init":
			txt, _ := m["txt"].(string)
			caps := `{}`
			if b, ok := m["cfg"].(bool); ok {
				caps = fmt.Sprintf(`{"workspace":{"configuration":%v}}`, b)
			}
			raw := fmt.Sprintf(`{"processId":1,"capabilities":%s,"initializationOptions":%s}`, caps, txt)
			var params protocol.InitializeParams
			if err := segjson.Unmarshal([]byte(raw), &params); err != nil {
				oe["p"] = nil
				st["decodeError"] = true
				break
			}
			oe["p"] = c19Tag(params.InitializationOptions)
			res, err := ru.srv.Initialize(ctx, &params)
			if err != nil || res == nil {
				st["error"] = true
			} else {
				st["caps"] = c19CapsView(res)
			}
		case "initialized":
			before := ru.cl.nCalls()
			_ = ru.srv.Initialized(ctx, &protocol.InitializedParams{})
			ru.waitSpawn(before)
		case "change":
			txt, _ := m["txt"].(string)
			var params protocol.DidChangeConfigurationParams
			raw := fmt.Sprintf(`{"settings":%s}`, txt)
			if err := segjson.Unmarshal([]byte(raw), &params); err != nil {
				oe["p"] = nil
				st["decodeError"] = true
				break
			}
			oe["p"] = c19Tag(params.Settings)
			before := ru.cl.nCalls()
			_ = ru.srv.DidChangeConfiguration(ctx, &params)
			ru.waitSpawn(before)
		case "answer":
			i := int(c19Num(m["task"]))
			var ps []any
			if i < 0 || i >= len(ru.pending) {
				oe["ps"] = []any{}
				break
			}
			var rep c19Reply
			if b, _ := m["err"].(bool); b {
				rep.err = fmt.Errorf("client error")
			} else {
				rep.items = []any{}
				for _, t := range c19Arr(m["txts"]) {
					s, _ := t.(string)
					v, err := c19Decode(s)
					if err != nil {
						v = nil
					}
					rep.items = append(rep.items, v)
					ps = append(ps, c19Tag(v))
				}
			}
			if ps == nil {
				ps = []any{}
			}
			oe["ps"] = ps
			call := ru.pending[i]
			ru.pending = append(ru.pending[:i], ru.pending[i+1:]...)
			ru.cl.calls[call] <- rep
			c19WaitGoroutines(ru.base + len(ru.pending))
		case "observe":
			reuse, _ := m["reuse"].(bool)
			st["obs"] = ru.observe(c, reuse)
		}
		for k, v := range ru.state() {
			st[k] = v
		}
		outEvents = append(outEvents, oe)
		impl = append(impl, st)
	}
	// release whatever is still blocked so that goroutines do not pile up
	for _, call := range ru.pending {
		ru.cl.calls[call] <- c19Reply{err: fmt.Errorf("shutdown")}
	}
	ru.pending = nil
	c19WaitGoroutines(ru.base)
	if ru.dir != "" {
		os.RemoveAll(ru.dir)
	}
	return map[string]any{"events": outEvents, "impl": impl}
}

// c19Num: a number of an event, as built by the generator (int) or decoded from a replay file
// (float64).
func c19Num(v any) float64 {
	switch x := v.(type) {
	case float64:
		return x
	case int:
		return float64(x)
	}
	return 0
}

// ---------------------------------------------------------------- behaviour probes

const c19CompletionDoc = `account expenses:food
account expenses:rent
account expenses:fun
account expenses:car
account expenses:gas
account expenses:tax
account assets:expo
account equity:box:petty

2024-01-01 shop
    expenses:food  10 USD
    assets:expo

2024-01-02 shop
    expenses:food  5 USD
    assets:expo

2024-01-03 x
    exp`

const c19FormatDoc = `2024-01-01 shop
  expenses:food  10 USD
  a:b  -10 USD
`

const c19DiagDoc = `account assets:cash
commodity USD

2024-01-01 shop
    misc:food  10 USD
    assets:cash  -9 USD

2024-01-02 shop
    assets:cash  1 EUR
    assets:cash  -1 EUR
`

const c19InlineDoc = `2024-01-01 shop
    expenses:food  10 USD
    assets:cash

2024-01-02 shop

`

// viaGate sends one request the way the binary serves it: through Server.FeatureGate, the
// handler behind the gate being the direct call of the Server method.  Returns what the
// client receives and whether the request reached the handler.
func (ru *c19Run) viaGate(method string, call func() (any, error)) (result any, err error, reached bool) {
	req, cerr := jsonrpc2.NewCall(jsonrpc2.NewNumberID(1), method, nil)
	if cerr != nil {
		panic(cerr)
	}
	next := func(ctx context.Context, reply jsonrpc2.Replier, _ jsonrpc2.Request) error {
		reached = true
		r, e := call()
		return reply(ctx, r, e)
	}
	_ = ru.srv.FeatureGate(next)(context.Background(), func(_ context.Context, r any, e error) error {
		result, err = r, e
		return nil
	}, req)
	return
}

// c19IsNil: nil, or a typed nil pointer / slice / map inside the interface.
func c19IsNil(v any) bool {
	if v == nil {
		return true
	}
	rv := reflect.ValueOf(v)
	switch rv.Kind() {
	case reflect.Ptr, reflect.Map, reflect.Slice, reflect.Interface:
		return rv.IsNil()
	}
	return false
}

// c19GateWord classifies what came back: "null" = the gate's own reply, nothing reached the
// handler; "answered" / "empty" = the handler ran and returned something / nothing;
// "passed" (code actions: the list depends on a hledger executable) = the handler ran.
func c19GateWord(result any, err error, reached, lookInside bool, nonEmpty func(any) bool) string {
	switch {
	case err != nil:
		return "error"
	case !reached && c19IsNil(result):
		return "null"
	case !reached:
		return "blocked-with-answer"
	case !lookInside:
		return "passed"
	case !c19IsNil(result) && nonEmpty(result):
		return "answered"
	}
	return "empty"
}

const c19LinksDoc = "include other.journal\n\n2024-01-01 shop\n    a  1 USD\n    b\n"

// gateProbes: one request per row of the gate's table, and two requests no switch governs.
func (ru *c19Run) gateProbes() map[string]any {
	ctx := context.Background()
	srv := ru.srv
	u := protocol.DocumentURI("file:///c19/completion.journal")
	srv.StoreDocument(u, c19CompletionDoc)
	ul := protocol.DocumentURI("file:///c19/links.journal")
	srv.StoreDocument(ul, c19LinksDoc)
	td := protocol.TextDocumentIdentifier{URI: u}
	pos := protocol.TextDocumentPositionParams{TextDocument: td, Position: protocol.Position{Line: 10, Character: 8}}
	whole := protocol.Range{Start: protocol.Position{Line: 0, Character: 0}, End: protocol.Position{Line: 18, Character: 0}}
	sliceLen := func(v any) bool { return reflect.ValueOf(v).Len() > 0 }
	tokens := func(v any) bool {
		switch t := v.(type) {
		case *protocol.SemanticTokens:
			return len(t.Data) > 0
		case *protocol.SemanticTokensDelta:
			return true
		}
		return false
	}
	type probe struct {
		method     string
		lookInside bool
		call       func() (any, error)
		nonEmpty   func(any) bool
	}
	probes := []probe{
		{protocol.MethodTextDocumentHover, true, func() (any, error) { return srv.Hover(ctx, &protocol.HoverParams{TextDocumentPositionParams: pos}) },
			func(v any) bool { return v.(*protocol.Hover).Contents.Value != "" }},
		{protocol.MethodTextDocumentCompletion, true, func() (any, error) {
			lines := strings.Split(c19CompletionDoc, "\n")
			last := len(lines) - 1
			return srv.Completion(ctx, &protocol.CompletionParams{TextDocumentPositionParams: protocol.TextDocumentPositionParams{
				TextDocument: td, Position: protocol.Position{Line: uint32(last), Character: uint32(len(lines[last]))}}})
		}, func(v any) bool { return len(v.(*protocol.CompletionList).Items) > 0 }},
		{protocol.MethodTextDocumentFormatting, true, func() (any, error) {
			return srv.Format(ctx, &protocol.DocumentFormattingParams{TextDocument: td})
		}, sliceLen},
		{protocol.MethodSemanticTokensFull, true, func() (any, error) {
			return srv.SemanticTokensFull(ctx, &protocol.SemanticTokensParams{TextDocument: td})
		}, tokens},
		{protocol.MethodSemanticTokensFullDelta, true, func() (any, error) {
			return srv.SemanticTokensFullDelta(ctx, &protocol.SemanticTokensDeltaParams{TextDocument: td, PreviousResultID: "none"})
		}, tokens},
		{protocol.MethodSemanticTokensRange, true, func() (any, error) {
			return srv.SemanticTokensRange(ctx, &protocol.SemanticTokensRangeParams{TextDocument: td, Range: whole})
		}, tokens},
		{protocol.MethodTextDocumentCodeAction, false, func() (any, error) {
			return srv.CodeAction(ctx, &protocol.CodeActionParams{TextDocument: td, Range: whole})
		}, nil},
		{protocol.MethodTextDocumentFoldingRange, true, func() (any, error) {
			return srv.FoldingRanges(ctx, &protocol.FoldingRangeParams{TextDocumentPositionParams: protocol.TextDocumentPositionParams{TextDocument: td}})
		}, sliceLen},
		{protocol.MethodTextDocumentDocumentLink, true, func() (any, error) {
			return srv.DocumentLink(ctx, &protocol.DocumentLinkParams{TextDocument: protocol.TextDocumentIdentifier{URI: ul}})
		}, sliceLen},
		{protocol.MethodWorkspaceSymbol, true, func() (any, error) {
			return srv.WorkspaceSymbol(ctx, &protocol.WorkspaceSymbolParams{Query: "exp"})
		}, sliceLen},
		{protocol.MethodTextDocumentDefinition, true, func() (any, error) {
			return srv.Definition(ctx, &protocol.DefinitionParams{TextDocumentPositionParams: pos})
		}, sliceLen},
		{protocol.MethodTextDocumentDocumentSymbol, true, func() (any, error) {
			return srv.DocumentSymbol(ctx, &protocol.DocumentSymbolParams{TextDocument: td})
		}, sliceLen},
	}
	out := map[string]any{}
	for _, p := range probes {
		res, err, reached := ru.viaGate(p.method, p.call)
		out[p.method] = c19GateWord(res, err, reached, p.lookInside, p.nonEmpty)
	}
	return out
}

func (ru *c19Run) observe(c *Ctx, reuse bool) map[string]any {
	ctx := context.Background()
	obs := map[string]any{}
	srv := ru.srv
	// completion: limit, matching mode, counts
	{
		u := protocol.DocumentURI("file:///c19/completion.journal")
		srv.StoreDocument(u, c19CompletionDoc)
		lines := strings.Split(c19CompletionDoc, "\n")
		last := len(lines) - 1
		// a null reply (the gate's, when completion is switched off) is an empty list
		completion := func(ch int) (*protocol.CompletionList, error) {
			r, err, _ := ru.viaGate(protocol.MethodTextDocumentCompletion, func() (any, error) {
				return srv.Completion(ctx, &protocol.CompletionParams{
					TextDocumentPositionParams: protocol.TextDocumentPositionParams{
						TextDocument: protocol.TextDocumentIdentifier{URI: u},
						Position:     protocol.Position{Line: uint32(last), Character: uint32(ch)},
					}})
			})
			if l, ok := r.(*protocol.CompletionList); ok && l != nil {
				return l, err
			}
			return &protocol.CompletionList{}, err
		}
		res, err := completion(len(lines[last]))
		n, fuzzyOnly, counts := -1, false, false
		if err == nil && res != nil {
			n = len(res.Items)
			for _, it := range res.Items {
				if it.Label == "assets:expo" || it.Label == "equity:box:petty" {
					fuzzyOnly = true
				}
				if strings.Contains(it.Detail, "(") {
					counts = true
				}
			}
		}
		obs["completionItems"] = n
		obs["countsShown"] = counts
		_ = fuzzyOnly
		// second probe: a query no label starts with
		doc2 := strings.TrimSuffix(c19CompletionDoc, "exp") + "xp"
		srv.StoreDocument(u, doc2)
		res2, err := completion(len(lines[last]) - 1)
		n2 := -1
		if err == nil && res2 != nil {
			n2 = len(res2.Items)
		}
		obs["subsequenceItems"] = n2
	}
	// formatting: indent and alignment column.  The stored widths are bounded (32 / 500) since
	// the repair of finding unbounded-width-panics.  Should a width above 1000 ever be stored
	// again, the probe is not run between 10^3 and 2^50 (the formatter would allocate that many
	// bytes per posting; the oracle rejects the stored value itself); from 2^50 on the
	// allocation is refused, the handler panics and the probe reports it.
	{
		cur := srv.VerifGetSettings()
		wi, wm := int64(cur.Formatting.IndentSize), int64(cur.Formatting.MinAlignmentColumn)
		mid := func(v int64) bool { return v > 1000 && v < 1<<50 }
		if mid(wi) || mid(wm) {
			obs["format"] = "skipped"
		} else {
			u := protocol.DocumentURI("file:///c19/format.journal")
			srv.StoreDocument(u, c19FormatDoc)
			indent, col, panicked := -1, -1, false
			func() {
				defer func() {
					if recover() != nil {
						panicked = true
					}
				}()
				// a null reply (the gate's, when formatting is switched off): no edits
				r, err, _ := ru.viaGate(protocol.MethodTextDocumentFormatting, func() (any, error) {
					return srv.Format(ctx, &protocol.DocumentFormattingParams{TextDocument: protocol.TextDocumentIdentifier{URI: u}})
				})
				edits, _ := r.([]protocol.TextEdit)
				if err == nil {
					text := c19ApplyEdits(c19FormatDoc, edits)
					for _, ln := range strings.Split(text, "\n") {
						t := strings.TrimLeft(ln, " ")
						if strings.HasPrefix(t, "a:b") {
							indent = len(ln) - len(t)
							col = strings.Index(ln, "-10 USD")
						}
					}
				}
			}()
			if panicked {
				obs["format"] = "panic"
			} else {
				obs["format"] = map[string]any{"indent": indent, "amountColumn": col}
			}
		}
	}
	// feature switches: the eight enforced by the gate, one request per row of its table
	// (whatever Initialize advertised), and inline completion (read by its handler)
	{
		obs["gate"] = ru.gateProbes()
		cur := srv.VerifGetSettings()
		wi := int64(cur.Formatting.IndentSize)
		if wi > 1000 && wi < 1<<50 {
			obs["inline"] = "skipped"
		} else {
			u2 := protocol.DocumentURI("file:///c19/inline.journal")
			srv.StoreDocument(u2, c19InlineDoc)
			_ = srv.DidSave(ctx, &protocol.DidSaveTextDocumentParams{TextDocument: protocol.TextDocumentIdentifier{URI: u2}})
			items, indent, panicked := -1, -1, false
			func() {
				defer func() {
					if recover() != nil {
						panicked = true
					}
				}()
				raw := []byte(`{"textDocument":{"uri":"file:///c19/inline.journal"},"position":{"line":5,"character":0}}`)
				res, err := srv.InlineCompletion(ctx, raw)
				if err == nil && res != nil {
					items = len(res.Items)
					if items > 0 {
						t := res.Items[0].InsertText
						indent = len(t) - len(strings.TrimLeft(t, " "))
					}
				}
			}()
			if panicked {
				obs["inline"] = "panic"
			} else {
				obs["inline"] = map[string]any{"items": items, "indent": indent}
			}
		}
	}
	// diagnostics: which categories are published
	{
		u := protocol.DocumentURI("file:///c19/diag.journal")
		ru.cl.mu.Lock()
		ru.cl.published = nil
		ru.cl.mu.Unlock()
		_ = srv.DidOpen(ctx, &protocol.DidOpenTextDocumentParams{TextDocument: protocol.TextDocumentItem{URI: u, Text: c19DiagDoc, Version: 1}})
		c19WaitGoroutines(ru.base + len(ru.pending))
		codes := map[string]bool{}
		npub := 0
		tooLarge := false
		ru.cl.mu.Lock()
		for _, p := range ru.cl.published {
			npub++
			for _, d := range p.Diagnostics {
				if s, ok := d.Code.(string); ok && s != "" {
					codes[s] = true
				}
				if strings.Contains(d.Message, "too large") {
					tooLarge = true
				}
			}
		}
		ru.cl.mu.Unlock()
		var cs []string
		for k := range codes {
			cs = append(cs, k)
		}
		sort.Strings(cs)
		if cs == nil {
			cs = []string{}
		}
		obs["published"] = npub
		obs["codes"] = cs
		obs["docTooLarge"] = tooLarge
		_ = srv.DidClose(ctx, &protocol.DidCloseTextDocumentParams{TextDocument: protocol.TextDocumentIdentifier{URI: u}})
	}
	// include limits: chain main -> a -> b -> c
	{
		if ru.dir != "" && !reuse {
			os.RemoveAll(ru.dir)
			ru.dir = ""
		}
		if ru.dir == "" {
			d, err := os.MkdirTemp(c.Tmp, "c19-")
			if err != nil {
				panic(err)
			}
			ru.dir = d
			for i, name := range []string{"main", "a", "b", "c"} {
				body := "; " + name + "\n"
				if i < 3 {
					body += "include " + []string{"a", "b", "c"}[i] + ".journal\n"
				}
				if name == "a" {
					body += strings.Repeat("; padding\n", 5) // a.journal is 50+ bytes
				}
				_ = os.WriteFile(filepath.Join(d, name+".journal"), []byte(body), 0o644)
			}
		}
		path := filepath.Join(ru.dir, "main.journal")
		data, _ := os.ReadFile(path)
		u := protocol.DocumentURI("file://" + path)
		ru.cl.mu.Lock()
		ru.cl.published = nil
		ru.cl.mu.Unlock()
		_ = srv.DidOpen(ctx, &protocol.DidOpenTextDocumentParams{TextDocument: protocol.TextDocumentItem{URI: u, Text: string(data), Version: 1}})
		c19WaitGoroutines(ru.base + len(ru.pending))
		depth, large := false, false
		ru.cl.mu.Lock()
		for _, p := range ru.cl.published {
			for _, d := range p.Diagnostics {
				if strings.Contains(d.Message, "depth limit") {
					depth = true
				}
				if strings.Contains(d.Message, "too large") {
					large = true
				}
			}
		}
		ru.cl.mu.Unlock()
		obs["depthExceeded"] = depth
		obs["includeTooLarge"] = large
		_ = srv.DidClose(ctx, &protocol.DidCloseTextDocumentParams{TextDocument: protocol.TextDocumentIdentifier{URI: u}})
	}
	return obs
}

func c19ApplyEdits(doc string, edits []protocol.TextEdit) string {
	lines := strings.Split(doc, "\n")
	off := func(p protocol.Position) int {
		o := 0
		for i := 0; i < int(p.Line) && i < len(lines); i++ {
			o += len(lines[i]) + 1
		}
		if int(p.Line) < len(lines) {
			ch := int(p.Character)
			if ch > len(lines[p.Line]) {
				ch = len(lines[p.Line])
			}
			o += ch
		}
		if o > len(doc) {
			o = len(doc)
		}
		return o
	}
	es := append([]protocol.TextEdit(nil), edits...)
	sort.SliceStable(es, func(i, j int) bool { return off(es[i].Range.Start) > off(es[j].Range.Start) })
	out := doc
	for _, e := range es {
		a, b := off(e.Range.Start), off(e.Range.End)
		if a > b || b > len(out) {
			continue
		}
		out = out[:a] + e.NewText + out[b:]
	}
	return out
}

func c19Text(v any) string {
	var buf bytes.Buffer
	enc := stdjson.NewEncoder(&buf)
	enc.SetEscapeHTML(false)
	if err := enc.Encode(v); err != nil {
		panic(err)
	}
	return strings.TrimSpace(buf.String())
}

// genC19Seq: sequences of at most 4 configuration payloads (initialisation + changes) on a
// real server, serial and with overlapping refresh tasks.
func genC19Seq(c *Ctx) {
	r := c.R
	g := &c19Gen{r: r, c: c, safe: true}
	for i := 0; i < c.N(700, 20000); i++ {
		var events []any
		budget := 4
		observe := r.IntN(3) == 0
		first := map[string]any{}
		// initialisation
		cfg := any(true)
		switch r.IntN(10) {
		case 0, 1:
			cfg = false
		case 2:
			cfg = nil
		}
		first["k"] = "init"
		first["cfg"] = cfg
		if r.IntN(4) == 0 {
			first["txt"] = "null"
		} else {
			first["txt"] = g.payloadText()
			budget--
		}
		if r.IntN(40) == 0 {
			first["client"] = false
			c.Count("seq.no-client")
		}
		events = append(events, first)
		if observe {
			events = append(events, map[string]any{"k": "observe"})
		}
		if r.IntN(2) == 0 {
			events = append(events, map[string]any{"k": "initialized"})
			if cfg == true && first["client"] == nil {
				// the pull after `initialized` returns the same options (or nothing)
				switch r.IntN(3) {
				case 0:
					events = append(events, map[string]any{"k": "answer", "task": 0, "txts": []any{"null"}})
				case 1:
					events = append(events, map[string]any{"k": "answer", "task": 0, "err": true})
				default:
					events = append(events, map[string]any{"k": "answer", "task": 0, "txts": []any{}})
				}
			}
		}
		overlap := r.IntN(4) == 0
		nch := 1 + r.IntN(budget)
		if overlap {
			// several pulls in flight (2 to 5 changes), announced and answered under a random
			// schedule: at every point either the next change arrives or one of the pending
			// pulls — any of them — is answered.  "task" indexes the list of pending pulls.
			c.Count("seq.overlap")
			nch = 2 + r.IntN(4)
			var pendingAns []any
			maxFlight := 0
			issued := 0
			type pp struct{ pushed, pulled string }
			var used []pp // users toggle between a few values: one change in three repeats an earlier payload
			for issued < nch || len(pendingAns) > 0 {
				if issued < nch && (len(pendingAns) == 0 || r.IntN(5) < 3) {
					var pushed, pulled string
					if len(used) > 0 && r.IntN(3) == 0 {
						u := used[r.IntN(len(used))]
						pushed, pulled = u.pushed, u.pulled
						c.Count("seq.overlap-repeat")
					} else {
						pushed, pulled = c19PushPull(r, g.payload())
						used = append(used, pp{pushed, pulled})
					}
					events = append(events, map[string]any{"k": "change", "txt": pushed})
					issued++
					if cfg == true && first["client"] == nil {
						pendingAns = append(pendingAns, map[string]any{"k": "answer", "txts": []any{pulled}})
					}
					if len(pendingAns) > maxFlight {
						maxFlight = len(pendingAns)
					}
					continue
				}
				k := r.IntN(len(pendingAns))
				a := pendingAns[k].(map[string]any)
				a["task"] = k
				pendingAns = append(pendingAns[:k], pendingAns[k+1:]...)
				events = append(events, a)
				if observe && r.IntN(4) == 0 {
					events = append(events, map[string]any{"k": "observe", "reuse": r.IntN(2) == 0})
				}
			}
			c.Count(fmt.Sprintf("seq.in-flight-%d", maxFlight))
			if observe {
				events = append(events, map[string]any{"k": "observe"})
			}
		} else {
			c.Count("seq.serial")
			for j := 0; j < nch; j++ {
				p := g.payload()
				pushed, pulled := c19PushPull(r, p)
				events = append(events, map[string]any{"k": "change", "txt": pushed})
				ans := map[string]any{"k": "answer", "task": 0, "txts": []any{pulled}}
				switch r.IntN(16) {
				case 0:
					ans = map[string]any{"k": "answer", "task": 0, "err": true}
					c.Count("seq.pull-error")
				case 1:
					ans = map[string]any{"k": "answer", "task": 0, "txts": []any{}}
					c.Count("seq.pull-empty")
				case 2:
					ans = map[string]any{"k": "answer", "task": 0, "txts": []any{pulled, g.payloadText()}}
					c.Count("seq.pull-two")
				case 3:
					ans = map[string]any{"k": "answer", "task": 0, "txts": []any{g.payloadText()}}
					c.Count("seq.pull-unrelated")
				}
				events = append(events, ans)
				if observe && (j == nch-1 || r.IntN(2) == 0) {
					ev := map[string]any{"k": "observe"}
					if r.IntN(2) == 0 {
						ev["reuse"] = true
						c.Count("seq.observe-warm")
					}
					events = append(events, ev)
				}
			}
		}
		if observe {
			c.Count("seq.observed")
		}
		c.Emit("c19.seq", c19SeqCase(c, events))
	}
}

// genC19Targeted: scenario families aimed at the configuration defects that were repaired
// (each is also reachable by the random stream above, but rarely).
func genC19Targeted(c *Ctx) {
	r := c.R
	g := &c19Gen{r: r, c: c, safe: true}
	text := func(v any) string { return c19Text(v) }
	// (1) huge widths, then formatting and inline completion
	widths := append(append([]string{}, c19HugeNums...), "33", "64", "501", "1000", "1001", "100000", "4294967296", "2147483648", "1e9", "1e12")
	for i := 0; i < c.N(60, 1500); i++ {
		lit := pick(r, widths)
		var val any = c19num(lit)
		if r.IntN(3) == 0 {
			if f, err := strconv.ParseFloat(lit, 64); err == nil && f == math.Trunc(f) && math.Abs(f) < 9e18 {
				val = strconv.FormatInt(int64(f), 10)
			}
		}
		key := pick(r, []string{"indentSize", "minAlignmentColumn"})
		var p any
		switch r.IntN(4) {
		case 0:
			p = map[string]any{"formatting." + key: val}
		case 1:
			p = map[string]any{"formatting": map[string]any{key: val}}
		case 2:
			p = map[string]any{"hledger": map[string]any{"formatting": map[string]any{key: val}}}
		default:
			p = map[string]any{"hledger": nil, "formatting": map[string]any{key: val, "alignAmounts": r.IntN(2) == 0}}
		}
		cfg := r.IntN(3) != 0
		var events []any
		if r.IntN(2) == 0 {
			events = append(events, map[string]any{"k": "init", "cfg": cfg, "txt": text(p)}, map[string]any{"k": "observe"})
		} else {
			events = append(events, map[string]any{"k": "init", "cfg": cfg, "txt": "null"})
			pushed, pulled := c19PushPull(r, p)
			events = append(events, map[string]any{"k": "change", "txt": pushed})
			if cfg {
				events = append(events, map[string]any{"k": "answer", "task": 0, "txts": []any{pulled}})
			}
			events = append(events, map[string]any{"k": "observe"})
		}
		c.Count("seq.targeted-width")
		c.Emit("c19.seq", c19SeqCase(c, events))
	}
	// (2) a limit lowered (or raised) after a load, then the same files loaded again
	sizes := []string{"1", "20", "24", "25", "30", "60", "71", "72", "73", "100", "1024", "10485760"}
	depths := []string{"1", "2", "3", "4", "50"}
	for i := 0; i < c.N(60, 1500); i++ {
		cfg := r.IntN(3) != 0
		limits := func() any {
			m := map[string]any{}
			if r.IntN(4) != 0 {
				m[pick(r, []string{"maxFileSizeBytes", "maxFileSize"})] = c19num(pick(r, sizes))
			}
			if r.IntN(3) == 0 {
				m["maxIncludeDepth"] = c19num(pick(r, depths))
			}
			return map[string]any{"limits": m}
		}
		events := []any{map[string]any{"k": "init", "cfg": cfg, "txt": "null"}}
		if r.IntN(3) == 0 {
			events[0].(map[string]any)["txt"] = text(limits())
		}
		events = append(events, map[string]any{"k": "observe"})
		for round := 0; round < 1+r.IntN(3); round++ {
			pushed, pulled := c19PushPull(r, limits())
			events = append(events, map[string]any{"k": "change", "txt": pushed})
			if cfg {
				events = append(events, map[string]any{"k": "answer", "task": 0, "txts": []any{pulled}})
			}
			events = append(events, map[string]any{"k": "observe", "reuse": true})
		}
		c.Count("seq.targeted-limits")
		c.Emit("c19.seq", c19SeqCase(c, events))
	}
	// (3) a client that cannot be asked: pushed settings, serial, with probes
	for i := 0; i < c.N(60, 1500); i++ {
		var cfg any = false
		if r.IntN(2) == 0 {
			cfg = nil
		}
		first := map[string]any{"k": "init", "cfg": cfg, "txt": "null"}
		if r.IntN(6) == 0 {
			first["client"] = false
		}
		events := []any{first}
		if r.IntN(2) == 0 {
			events = append(events, map[string]any{"k": "initialized"})
		}
		for j := 0; j < 1+r.IntN(4); j++ {
			txt := g.payloadText()
			if r.IntN(3) == 0 {
				txt = text(map[string]any{"hledger": g.settingsMap()})
			}
			if r.IntN(12) == 0 {
				txt = "null"
			}
			events = append(events, map[string]any{"k": "change", "txt": txt})
			if r.IntN(3) == 0 {
				events = append(events, map[string]any{"k": "observe", "reuse": r.IntN(2) == 0})
			}
		}
		c.Count("seq.targeted-push")
		c.Emit("c19.seq", c19SeqCase(c, events))
	}
	// (5) back to an overtaken value: change to A (answer delayed), change to B (answered first),
	// the late answer A arrives and is dropped, the user changes back to A: A must be in force.
	// (Seed r6-C19 remembered the dropped answer as "the previous one" and skipped the repetition.)
	for i := 0; i < c.N(30, 600); i++ {
		events := []any{map[string]any{"k": "init", "cfg": true, "txt": "null"}}
		pa, qa := c19PushPull(r, g.settingsMap())
		pb, qb := c19PushPull(r, g.settingsMap())
		events = append(events, map[string]any{"k": "change", "txt": pa}, map[string]any{"k": "change", "txt": pb})
		late := map[string]any{"k": "answer", "task": 0, "txts": []any{qa}}
		first := map[string]any{"k": "answer", "task": 1, "txts": []any{qb}}
		events = append(events, first)
		if r.IntN(4) == 0 {
			events = append(events, map[string]any{"k": "observe"})
		}
		switch r.IntN(3) {
		case 0: // the late answer comes before the user changes back
			events = append(events, late, map[string]any{"k": "change", "txt": pa},
				map[string]any{"k": "answer", "task": 0, "txts": []any{qa}})
		case 1: // ... or while the third pull is already in flight, answered after it
			events = append(events, map[string]any{"k": "change", "txt": pa}, late,
				map[string]any{"k": "answer", "task": 0, "txts": []any{qa}})
		default: // ... or the late answer is an error / empty
			late = map[string]any{"k": "answer", "task": 0, "err": true}
			events = append(events, late, map[string]any{"k": "change", "txt": pa},
				map[string]any{"k": "answer", "task": 0, "txts": []any{qa}})
		}
		events = append(events, map[string]any{"k": "observe"})
		if r.IntN(2) == 0 {
			// and once more to B and back
			events = append(events, map[string]any{"k": "change", "txt": pb}, map[string]any{"k": "answer", "task": 0, "txts": []any{qb}},
				map[string]any{"k": "change", "txt": pa}, map[string]any{"k": "answer", "task": 0, "txts": []any{qa}},
				map[string]any{"k": "observe"})
		}
		c.Count("seq.back-to-overtaken")
		c.Emit("c19.seq", c19SeqCase(c, events))
	}
	// (4) three and more pulls in flight, every order of the answers
	for i := 0; i < c.N(40, 1000); i++ {
		n := 3 + r.IntN(3)
		events := []any{map[string]any{"k": "init", "cfg": true, "txt": "null"}}
		var answers []any
		for j := 0; j < n; j++ {
			p := g.settingsMap()
			pushed, pulled := c19PushPull(r, p)
			events = append(events, map[string]any{"k": "change", "txt": pushed})
			answers = append(answers, map[string]any{"k": "answer", "txts": []any{pulled}})
		}
		perm := r.Perm(n)
		done := make([]bool, n)
		for _, k := range perm {
			idx := 0
			for q := 0; q < k; q++ {
				if !done[q] {
					idx++
				}
			}
			done[k] = true
			a := answers[k].(map[string]any)
			a["task"] = idx
			events = append(events, a)
		}
		if r.IntN(3) == 0 {
			events = append(events, map[string]any{"k": "observe"})
		}
		c.Count(fmt.Sprintf("seq.targeted-burst-%d", n))
		c.Emit("c19.seq", c19SeqCase(c, events))
	}
}

// genC19Switches: the feature switches.  Initialisation (some features possibly switched off
// already, hence not advertised), then changes that switch features off and on — pulled,
// pushed, overlapping — with the request probes after EVERY configuration event.
func genC19Switches(c *Ctx) {
	r := c.R
	keys := []string{"hover", "completion", "formatting", "diagnostics", "semanticTokens", "codeActions",
		"foldingRanges", "documentLinks", "workspaceSymbol", "inlineCompletion"}
	flags := func() any {
		m := map[string]any{}
		n := 1 + r.IntN(3)
		if r.IntN(8) == 0 {
			n = len(keys)
		}
		for k := 0; k < n; k++ {
			var v any = r.IntN(3) == 0
			switch r.IntN(8) {
			case 0:
				v = pick(r, []string{"false", " FALSE ", "true", "True", "\tfalse\n"})
			case 1:
				v = pick(r, []any{nil, c19num("0"), c19num("1"), "no", []any{false}}) // ill-typed: no effect
			}
			m[pick(r, keys)] = v
		}
		switch r.IntN(3) {
		case 0:
			return map[string]any{"features": m}
		case 1:
			d := map[string]any{}
			for k, v := range m {
				d["features."+k] = v
			}
			return d
		}
		d := map[string]any{"features": m}
		if r.IntN(2) == 0 {
			d["features."+pick(r, keys)] = r.IntN(2) == 0
		}
		return d
	}
	for i := 0; i < c.N(150, 4000); i++ {
		var cfg any = true
		switch r.IntN(4) {
		case 0:
			cfg = false
		case 1:
			if r.IntN(2) == 0 {
				cfg = nil
			}
		}
		first := map[string]any{"k": "init", "cfg": cfg, "txt": "null"}
		if r.IntN(2) == 0 {
			first["txt"] = c19Text(flags())
		}
		events := []any{first, map[string]any{"k": "observe"}}
		pulls := cfg == true
		if r.IntN(3) == 0 {
			events = append(events, map[string]any{"k": "initialized"})
			if pulls {
				events = append(events, map[string]any{"k": "answer", "task": 0, "txts": []any{"null"}})
			}
		}
		for j := 0; j < 1+r.IntN(4); j++ {
			if pulls && r.IntN(4) == 0 {
				// two changes in flight, answered in either order; probes in between
				p1, p2 := flags(), flags()
				push1, pull1 := c19PushPull(r, p1)
				push2, pull2 := c19PushPull(r, p2)
				events = append(events, map[string]any{"k": "change", "txt": push1}, map[string]any{"k": "change", "txt": push2})
				a1 := map[string]any{"k": "answer", "task": 0, "txts": []any{pull1}}
				a2 := map[string]any{"k": "answer", "task": 0, "txts": []any{pull2}}
				if r.IntN(2) == 0 {
					a2["task"] = 1
					events = append(events, a2, map[string]any{"k": "observe"}, a1)
				} else {
					events = append(events, a1, map[string]any{"k": "observe"}, a2)
				}
				events = append(events, map[string]any{"k": "observe"})
				c.Count("seq.switches-overlap")
				continue
			}
			pushed, pulled := c19PushPull(r, flags())
			events = append(events, map[string]any{"k": "change", "txt": pushed})
			if pulls {
				events = append(events, map[string]any{"k": "answer", "task": 0, "txts": []any{pulled}})
			}
			events = append(events, map[string]any{"k": "observe", "reuse": r.IntN(2) == 0})
		}
		c.Count("seq.switches")
		c.Emit("c19.seq", c19SeqCase(c, events))
	}
}

// ---------------------------------------------------------------- the built binary

// c19WireMethods: the requests probed over the wire.  textDocument/codeAction is left out:
// cmd/hledger-lsp's dispatcher answers it with null itself, switched on or not.
var c19WireMethods = []string{
	protocol.MethodTextDocumentHover, protocol.MethodTextDocumentCompletion, protocol.MethodTextDocumentFormatting,
	protocol.MethodSemanticTokensFull, protocol.MethodSemanticTokensFullDelta, protocol.MethodSemanticTokensRange,
	protocol.MethodTextDocumentFoldingRange, protocol.MethodTextDocumentDocumentLink, protocol.MethodWorkspaceSymbol,
	protocol.MethodTextDocumentDefinition, protocol.MethodTextDocumentDocumentSymbol,
}

func c19WireNonEmpty(v any) bool {
	switch t := v.(type) {
	case nil:
		return false
	case []any:
		return len(t) > 0
	case map[string]any:
		for _, k := range []string{"items", "data", "contents", "edits"} {
			if x, ok := t[k]; ok {
				return c19WireNonEmpty(x)
			}
		}
		return len(t) > 0
	case string:
		return t != ""
	}
	return true
}

// c19WireCase: a fresh process (initialize with capabilities {} and no options, so the server
// cannot ask and applies pushed settings), two open documents; per step an optional
// workspace/didChangeConfiguration {"settings": <txt>} ("" = none) and then every probe.
func c19WireCase(txts []string) map[string]any {
	w, err := startWire()
	if err != nil {
		panic("wire mode: " + err.Error())
	}
	defer w.close()
	u, ul := "file:///c19/completion.journal", "file:///c19/links.journal"
	w.notify("textDocument/didOpen", map[string]any{"textDocument": map[string]any{"uri": u, "languageId": "hledger", "version": 1, "text": c19CompletionDoc}})
	w.notify("textDocument/didOpen", map[string]any{"textDocument": map[string]any{"uri": ul, "languageId": "hledger", "version": 1, "text": c19LinksDoc}})
	td := map[string]any{"uri": u}
	lines := strings.Split(c19CompletionDoc, "\n")
	last := len(lines) - 1
	whole := map[string]any{"start": map[string]any{"line": 0, "character": 0}, "end": map[string]any{"line": 18, "character": 0}}
	params := map[string]any{
		protocol.MethodTextDocumentHover:          map[string]any{"textDocument": td, "position": map[string]any{"line": 10, "character": 8}},
		protocol.MethodTextDocumentCompletion:     map[string]any{"textDocument": td, "position": map[string]any{"line": last, "character": len(lines[last])}},
		protocol.MethodTextDocumentFormatting:     map[string]any{"textDocument": td, "options": map[string]any{"tabSize": 4, "insertSpaces": true}},
		protocol.MethodSemanticTokensFull:         map[string]any{"textDocument": td},
		protocol.MethodSemanticTokensFullDelta:    map[string]any{"textDocument": td, "previousResultId": "none"},
		protocol.MethodSemanticTokensRange:        map[string]any{"textDocument": td, "range": whole},
		protocol.MethodTextDocumentFoldingRange:   map[string]any{"textDocument": td},
		protocol.MethodTextDocumentDocumentLink:   map[string]any{"textDocument": map[string]any{"uri": ul}},
		protocol.MethodWorkspaceSymbol:            map[string]any{"query": "exp"},
		protocol.MethodTextDocumentDefinition:     map[string]any{"textDocument": td, "position": map[string]any{"line": 10, "character": 8}},
		protocol.MethodTextDocumentDocumentSymbol: map[string]any{"textDocument": td},
	}
	var steps, impl []any
	for _, txt := range txts {
		if txt == "" {
			steps = append(steps, nil)
		} else {
			v, err := c19Decode(txt)
			if err != nil {
				panic("c19.wire: payload does not decode: " + txt)
			}
			steps = append(steps, c19Tag(v))
			w.notify("workspace/didChangeConfiguration", map[string]any{"settings": stdjson.RawMessage(txt)})
		}
		gate := map[string]any{}
		for _, m := range c19WireMethods {
			res, err := w.request(m, params[m])
			switch {
			case err != nil:
				gate[m] = "error"
			case res == nil:
				gate[m] = "null"
			case c19WireNonEmpty(res):
				gate[m] = "answered"
			default:
				gate[m] = "empty"
			}
		}
		impl = append(impl, map[string]any{"gate": gate})
	}
	return map[string]any{"txts": txts, "steps": steps, "impl": impl}
}

// genC19Wire: a few processes; in each the switches are pushed off and on again in every key
// form, one or several at a time.
func genC19Wire(c *Ctx) {
	r := c.R
	keys := []string{"hover", "completion", "formatting", "semanticTokens", "foldingRanges", "documentLinks", "workspaceSymbol", "codeActions", "diagnostics", "inlineCompletion"}
	for i := 0; i < c.N(4, 40); i++ {
		txts := []string{""}
		for j := 0; j < 3+r.IntN(4); j++ {
			m := map[string]any{}
			for k := 0; k < 1+r.IntN(3); k++ {
				var v any = r.IntN(3) == 0
				if r.IntN(4) == 0 {
					v = pick(r, []string{"false", " FALSE ", "true", "True"})
				}
				m[pick(r, keys)] = v
			}
			var p any
			switch r.IntN(4) {
			case 0:
				p = map[string]any{"hledger": map[string]any{"features": m}}
			case 1:
				p = map[string]any{"features": m}
			case 2:
				d := map[string]any{}
				for k, v := range m {
					d["features."+k] = v
				}
				p = map[string]any{"hledger": d}
			default:
				d := map[string]any{}
				for k, v := range m {
					d["features."+k] = v
				}
				p = d
			}
			txts = append(txts, c19Text(p))
		}
		c.Count("wire.case")
		c.Emit("c19.wire", c19WireCase(txts))
	}
}

// c19PushPull: what a conforming client pushes in didChangeConfiguration and what it
// answers to workspace/configuration(section "hledger") for the same settings.
func c19PushPull(r *rand.Rand, p any) (string, string) {
	pulled := c19Text(p)
	if r.IntN(2) == 0 {
		return c19Text(map[string]any{"hledger": p}), pulled
	}
	return pulled, pulled
}
