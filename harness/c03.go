package main

import (
	"github.com/juev/hledger-lsp/internal/parser"
)

func init() {
	register("C03", func(c *Ctx) { genParse(c); genC03(c) })
	replayers["c03.journal"] = func(c *Ctx, m map[string]any) map[string]any {
		text := unhx(m["text"].(string))
		return c03Case(text, m["truth"])
	}
}

func c03Case(text string, truth any) map[string]any {
	j, errs := parser.Parse(text)
	return map[string]any{"text": hx(text), "truth": truth,
		"impl": J{"journal": journalJ(j), "errors": perrsJ(errs)}}
}

func genC03(c *Ctx) {
	for i := 0; i < c.N(3000, 150000); i++ {
		o := GOpts{MaxEntries: c.N(6, 20)}
		g := genJournal(c.R, o)
		for k := range g.Feat {
			c.Count(k)
		}
		c.Emit("c03.journal", c03Case(g.Text, gJournalJ(g)))
	}
}
