package main

import (
	"strings"

)

func init() {
	register("C03", func(c *Ctx) { genParse(c); genC03(c); genC03Core(c) })
	replayers["c03.journal"] = func(c *Ctx, m map[string]any) map[string]any {
		text := unhx(m["text"].(string))
		return c03Case(text, m["truth"])
	}
}

func c03Case(text string, truth any) map[string]any {
	j, errs := hxParse(text)
	return map[string]any{"text": hx(text), "truth": truth,
		"impl": J{"journal": journalJ(j), "errors": perrsJ(errs)}}
}

func genC03(c *Ctx) {
	var sess *c03Session
	defer func() {
		if sess != nil {
			sess.close()
		}
	}()
	for i := 0; i < c.N(3000, 150000); i++ {
		o := GOpts{MaxEntries: c.N(6, 20)}
		if i%4 == 3 {
			// what the client is sent: no non-BMP characters here (columns of the tree count
			// runes, the published ones UTF-16 units: finding utf16-columns of C08)
			o.Deny = map[string]bool{"nonbmp": true}
		}
		g := genJournal(c.R, o)
		for k := range g.Feat {
			c.Count(k)
		}
		if i%4 == 3 && !strings.ContainsAny(g.Text, "\U0001F600\U0001D11E") && !hasNonBMP(g.Text) {
			if sess == nil || sess.sent >= 25 {
				if sess != nil {
					sess.close()
				}
				sess = newC03Session(c)
			}
			c.Count("via.server")
			c.Emit("c03.journal", c03PublishedCase(sess, g))
			continue
		}
		c.Emit("c03.journal", c03Case(g.Text, gJournalJ(g)))
	}
}

func hasNonBMP(s string) bool {
	for _, r := range s {
		if r >= 0x10000 {
			return true
		}
	}
	return false
}
