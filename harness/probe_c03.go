package main

import "os"

func init() {
	register("P03", func(c *Ctx) {
		feats := []string{"", "num.exp", "num.trail", "num.grpint", "num.grp", "num.grpdot", "num.grpspace", "num.dec,", "com.symbol", "com.quoted", "com.lower", "com.script",
			"amt.neg", "amt.plus", "amt.lcomm", "amt.lcomm.space", "amt.sign-before-lcomm", "amt.bare", "amt.rcomm.nospace", "acct.script", "acct.digit", "acct.punct", "acct.space",
			"desc.allcaps", "desc.leading-digit", "desc.colon", "desc.currency", "desc.free", "tags", "comment.free", "tabgap", "tabindent", "date.sep", "date.short",
			"date2", "status", "code", "desc.none", "pipe", "tx.comment", "tx.commentline", "posting.status", "virtual.balanced", "virtual.unbalanced", "amt.none", "cost", "assertion",
			"posting.comment", "comment.nogap", "crlf", "tight", "dir.account", "dir.commodity", "dir.include", "dir.P", "dir.Y", "dir.D", "dir.comment", "dir.account.comment", "dir.account.sub"}
		f := os.Getenv("PROBE")
		_ = feats
		only := map[string]bool{}
		for _, x := range splitComma(f) {
			only[x] = true
		}
		for i := 0; i < 1500; i++ {
			o := GOpts{MaxEntries: 2, Only: only}
			g := genJournal(c.R, o)
			c.Emit("c03.journal", c03Case(g.Text, gJournalJ(g)))
		}
	})
}

func splitComma(s string) []string {
	var out []string
	cur := ""
	for _, ch := range s {
		if ch == ';' {
			if cur != "" {
				out = append(out, cur)
			}
			cur = ""
		} else {
			cur += string(ch)
		}
	}
	if cur != "" {
		out = append(out, cur)
	}
	return out
}
