package main

// The handler path of C04/C05: textDocument/formatting on a real Server that has a workspace.
// The formats in scope come from `commodity` directives of the workspace's root journal (which
// includes the document), the options from initializationOptions, the text from the open buffer
// after an edit; the root's directives are edited as well (didOpen/didChange/didSave), so the
// formats in scope change during the session.  The edits the handler returns are judged by the
// same op (c05.format: exact model correspondence + the C04/C05 oracles) as the direct calls,
// with the formats and options the generator wrote.

import (
	"context"
	"fmt"
	"os"
	"path/filepath"
	"strings"

	"github.com/juev/hledger-lsp/internal/formatter"
	"github.com/juev/hledger-lsp/internal/server"
	"go.lsp.dev/protocol"
)

var c05Seq int

type c05Decl struct{ sym, sample string }

func c05RootText(decls []c05Decl) string {
	var sb strings.Builder
	for _, d := range decls {
		sb.WriteString("commodity " + d.sym + "\n    format " + d.sample + "\n")
	}
	sb.WriteString("include doc.journal\n")
	return sb.String()
}

func c05FormatsOf(decls []c05Decl) map[string]formatter.NumberFormat {
	m := map[string]formatter.NumberFormat{}
	for _, d := range decls {
		m[d.sym] = formatter.ParseNumberFormat(d.sample)
	}
	return m
}

func (g *g5) decls() []c05Decl {
	var ds []c05Decl
	k := g.n(4)
	for i := 0; i < k; i++ {
		sym, f := g.formatSample()
		// symbols a `commodity` directive reads back as written (upper-case words and currency
		// signs; digits and lower-case letters in directive symbols are open findings of C03)
		if strings.ContainsAny(sym, "\" 0123456789") || sym == "" || strings.ToUpper(sym) != sym {
			continue
		}
		ds = append(ds, c05Decl{sym, f})
	}
	return ds
}

// c05HandlerCase: texts[0] is opened, the later ones arrive as full-document changes; decls[0]
// is on disk when the server starts, the later ones are edits of the root journal made through
// the editor (open, change, save).  Format is requested at the end.
func c05HandlerCase(c *Ctx, texts []string, decls [][]c05Decl, opts formatter.Options) map[string]any {
	os.Unsetenv("LEDGER_FILE")
	os.Unsetenv("HLEDGER_JOURNAL")
	base := c.Tmp
	if base == "" {
		base = os.TempDir()
	}
	c05Seq++
	dir := filepath.Join(base, fmt.Sprintf("c05-%d-%d", os.Getpid(), c05Seq))
	if err := os.MkdirAll(dir, 0o755); err != nil {
		panic(err)
	}
	defer os.RemoveAll(dir)
	mainPath := filepath.Join(dir, "main.journal")
	docPath := filepath.Join(dir, "doc.journal")
	_ = os.WriteFile(mainPath, []byte(c05RootText(decls[0])), 0o644)
	_ = os.WriteFile(docPath, []byte(texts[0]), 0o644)
	srv := server.NewServer()
	srv.SetClient(newStubClient())
	ctx := context.Background()
	_, err := srv.Initialize(ctx, &protocol.InitializeParams{
		RootURI: protocol.DocumentURI("file://" + dir), //nolint:staticcheck
		InitializationOptions: map[string]any{"formatting": map[string]any{
			"indentSize": opts.IndentSize, "alignAmounts": opts.AlignAmounts, "minAlignmentColumn": opts.MinAlignmentColumn}},
	})
	if err != nil {
		panic(err)
	}
	_ = srv.Initialized(ctx, &protocol.InitializedParams{})
	docURI := protocol.DocumentURI("file://" + docPath)
	mainURI := protocol.DocumentURI("file://" + mainPath)
	_ = srv.DidOpen(ctx, &protocol.DidOpenTextDocumentParams{TextDocument: protocol.TextDocumentItem{URI: docURI, Text: texts[0], Version: 1}})
	// warm whatever the server caches about formats before they change
	_, _ = srv.Format(ctx, &protocol.DocumentFormattingParams{TextDocument: protocol.TextDocumentIdentifier{URI: docURI}})
	for i, t := range texts[1:] {
		_ = srv.DidChangeRaw(ctx, &server.DidChangeRawParams{
			TextDocument:   protocol.VersionedTextDocumentIdentifier{TextDocumentIdentifier: protocol.TextDocumentIdentifier{URI: docURI}, Version: int32(i + 2)},
			ContentChanges: []server.ContentChange{{Text: t}}})
	}
	for i, d := range decls[1:] {
		rt := c05RootText(d)
		if i == 0 {
			_ = srv.DidOpen(ctx, &protocol.DidOpenTextDocumentParams{TextDocument: protocol.TextDocumentItem{URI: mainURI, Text: c05RootText(decls[0]), Version: 1}})
		}
		_ = srv.DidChangeRaw(ctx, &server.DidChangeRawParams{
			TextDocument:   protocol.VersionedTextDocumentIdentifier{TextDocumentIdentifier: protocol.TextDocumentIdentifier{URI: mainURI}, Version: int32(i + 2)},
			ContentChanges: []server.ContentChange{{Text: rt}}})
		_ = os.WriteFile(mainPath, []byte(rt), 0o644)
		_ = srv.DidSave(ctx, &protocol.DidSaveTextDocumentParams{TextDocument: protocol.TextDocumentIdentifier{URI: mainURI}})
	}
	edits, err := srv.Format(ctx, &protocol.DocumentFormattingParams{TextDocument: protocol.TextDocumentIdentifier{URI: docURI}})
	if err != nil {
		panic(err)
	}
	doc := texts[len(texts)-1]
	formats := c05FormatsOf(decls[len(decls)-1])
	j, errs := hxParse(doc)
	return formatCaseEdits(doc, j, errs, formats, opts, "", edits)
}

func genC05Handler(c *Ctx, g *g5) {
	g.noFormatDirs = true // the formats in scope are exactly those of the root journal
	defer func() { g.noFormatDirs = false }()
	for i := 0; i < c.N(150, 3000); i++ {
		nt := 1 + g.n(3)
		var texts []string
		for k := 0; k < nt; k++ {
			texts = append(texts, g.journal(c.N(3, 6)))
		}
		nd := 1 + g.n(3)
		var decls [][]c05Decl
		for k := 0; k < nd; k++ {
			decls = append(decls, g.decls())
		}
		opts := formatter.Options{IndentSize: 1 + g.n(8), AlignAmounts: g.p(70)}
		if g.p(40) {
			opts.MinAlignmentColumn = g.n(81)
		}
		c.Count(fmt.Sprintf("handler.texts.%d", nt))
		c.Count(fmt.Sprintf("handler.formatsets.%d", nd))
		c.Emit("c05.format", c05HandlerCase(c, texts, decls, opts))
	}
}
