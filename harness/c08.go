package main

// C08: every reported range is well-formed, UTF-16 correct and on target.
//
// One op per document (`c08.doc`): the journal text, the syntax tree of the REAL parser, the
// inputs of the diagnostic range construction (parse errors, analyzer ranges, load-error
// ranges), and every Position/Range/Location/TextEdit/FoldingRange the REAL server returned
// for the once-per-document requests and for the per-cursor requests at EVERY cursor
// position of every line.  The Lean driver recomputes all of them from tree/text/cursor
// (correspondence) and judges the implementation's ranges with rangeOK / covers / laminar.

import (
	"context"
	"encoding/json"
	"fmt"
	"math/rand/v2"
	"sort"
	"strings"
	"time"

	"go.lsp.dev/protocol"

	"github.com/juev/hledger-lsp/internal/analyzer"
	"github.com/juev/hledger-lsp/internal/include"
	"github.com/juev/hledger-lsp/internal/server"
)

func init() {
	register("C08", genC08)
	replayers["c08.doc"] = func(c *Ctx, m map[string]any) map[string]any {
		text, _ := m["text"].(string)
		g, _ := m["g"].(bool)
		if prev, ok := m["prev"].(string); ok {
			of, _ := m["oldfirst"].(bool)
			return c08DocAfter(c, prev, text, g, of)
		}
		return c08Doc(c, text, g)
	}
	server.VerifStartHook = c08StartHook
}

// ---------------------------------------------------------------- held diagnostics tasks

type c08HoldKey struct{}

// c08Hold: the diagnostics tasks of one server, stopped at their start (server.VerifStartHook)
// until released, in the order they arrived.
type c08Hold struct {
	arrive chan chan struct{} // a task hands over its gate
	done   chan struct{}      // one token per finished task
}

func c08StartHook(ctx context.Context, _ protocol.DocumentURI, _ uint64) func() {
	h, _ := ctx.Value(c08HoldKey{}).(*c08Hold)
	if h == nil {
		return nil
	}
	gate := make(chan struct{})
	h.arrive <- gate
	<-gate
	return func() { h.done <- struct{}{} }
}

func (h *c08Hold) next() chan struct{} {
	select {
	case g := <-h.arrive:
		return g
	case <-time.After(10 * time.Second):
		panic("c08: a diagnostics task did not start within 10 s")
	}
}

func (h *c08Hold) run(g chan struct{}) {
	close(g)
	select {
	case <-h.done:
	case <-time.After(20 * time.Second):
		panic("c08: a released diagnostics task did not finish within 20 s")
	}
}

// ---------------------------------------------------------------- client stub

type c08Client struct {
	protocol.Client // nil: only the methods the server calls are implemented
	ch              chan *protocol.PublishDiagnosticsParams
}

func (c *c08Client) PublishDiagnostics(_ context.Context, p *protocol.PublishDiagnosticsParams) error {
	c.ch <- p
	return nil
}
func (c *c08Client) LogMessage(context.Context, *protocol.LogMessageParams) error   { return nil }
func (c *c08Client) ShowMessage(context.Context, *protocol.ShowMessageParams) error { return nil }

// ---------------------------------------------------------------- canonical forms

func rngA(r protocol.Range) []uint32 {
	return []uint32{r.Start.Line, r.Start.Character, r.End.Line, r.End.Character}
}

func locsA(ls []protocol.Location, uri protocol.DocumentURI) [][]uint32 {
	out := [][]uint32{}
	for _, l := range ls {
		a := rngA(l.Range)
		if l.URI != uri {
			a = append(a, 1) // a location in another document: never expected in the single-file setting
		}
		out = append(out, a)
	}
	return out
}

func astRngA(r [6]int) []int { return r[:] }

func hoverKind(content string) string {
	switch {
	case strings.HasPrefix(content, "**Account:**"):
		return "account"
	case strings.HasPrefix(content, "**Amount:**"):
		return "amount"
	case strings.HasPrefix(content, "**Payee:**"):
		return "payee"
	case strings.HasPrefix(content, "**Date:**"):
		return "date"
	case strings.HasPrefix(content, "**Tag:**"):
		if strings.Contains(content, "\n**Value:**") {
			return "tagValue"
		}
		return "tag"
	}
	return "?"
}

// ---------------------------------------------------------------- which repairs does the code contain?

var c08Fx map[string]bool

// c08Fixes probes the real code with canary inputs for the delivered repairs
// (fix-link-range: upstream 04b7a3e, fix-fold-ranges: upstream 4d2f7df).
func c08Fixes() map[string]bool {
	if c08Fx != nil {
		return c08Fx
	}
	ctx := context.Background()
	fx := map[string]bool{}
	srv := server.NewServer()
	uri := protocol.DocumentURI("file:///nonexistent-hlverif/canary.journal")
	td := protocol.TextDocumentIdentifier{URI: uri}
	srv.StoreDocument(uri, "include a.journal\n2024-01-01 x\n  a:b  1\n  c:d\n2024-01-02 y\n  a:b  1\n  c:d\n")
	links, _ := srv.DocumentLink(ctx, &protocol.DocumentLinkParams{TextDocument: td})
	fx["link"] = len(links) == 1 && links[0].Range.Start.Character == 8
	folds, _ := srv.FoldingRanges(ctx, &protocol.FoldingRangeParams{TextDocumentPositionParams: protocol.TextDocumentPositionParams{TextDocument: td}})
	fx["fold"] = len(folds) >= 1 && folds[0].StartLine == 1 && folds[0].EndLine == 3
	c08Fx = fx
	return fx
}

// ---------------------------------------------------------------- one document

var c08Seq int

func c08Doc(c *Ctx, text string, g bool) map[string]any { return c08DocHist(c, "", false, text, g) }

// c08DocAfter: the same document, but the server reaches it through a history: it was opened
// with `prev`, changed to `text`, and the diagnostics task of `prev` ran AFTER the task of
// `text`, or before it but after the change (both held at their start until the change is in).  The superseded run must leave no
// trace: every range is still judged against `text`.  (Seed r5-C08 let the late run install the
// column mapper of the old text.)
func c08DocAfter(c *Ctx, prev, text string, g bool, oldFirst bool) map[string]any {
	c08OldFirst = oldFirst
	out := c08DocHist(c, prev, true, text, g)
	out["prev"] = prev
	out["oldfirst"] = oldFirst
	return out
}

// c08OldFirst: both tasks are held until the change has been processed; then either the task of
// the current text runs first and the superseded one last, or the superseded one first (it finds
// the per-document caches just emptied by the change) and the current one last.
var c08OldFirst bool

func c08DocHist(c *Ctx, prev string, hist bool, text string, g bool) map[string]any {
	ctx := context.Background()
	srv := server.NewServer()
	cl := &c08Client{ch: make(chan *protocol.PublishDiagnosticsParams, 8)}
	srv.SetClient(cl)
	c08Seq++
	dir := c.Tmp
	if dir == "" {
		dir = "/nonexistent-hlverif"
	}
	path := fmt.Sprintf("%s/c08-%d/main.journal", dir, c08Seq)
	uri := protocol.DocumentURI("file://" + path)
	td := protocol.TextDocumentIdentifier{URI: uri}

	var pub *protocol.PublishDiagnosticsParams
	if hist {
		hold := &c08Hold{arrive: make(chan chan struct{}, 4), done: make(chan struct{}, 4)}
		hctx := context.WithValue(ctx, c08HoldKey{}, hold)
		_ = srv.DidOpen(hctx, &protocol.DidOpenTextDocumentParams{
			TextDocument: protocol.TextDocumentItem{URI: uri, Text: prev, Version: 1}})
		old := hold.next()
		_ = srv.DidChange(hctx, &protocol.DidChangeTextDocumentParams{
			TextDocument:   protocol.VersionedTextDocumentIdentifier{TextDocumentIdentifier: td, Version: 2},
			ContentChanges: []protocol.TextDocumentContentChangeEvent{{Text: text}}})
		cur := hold.next()
		if c08OldFirst {
			hold.run(old)
			hold.run(cur)
		} else {
			hold.run(cur)
			hold.run(old)
		}
		// what the client shows is the last thing published
	drain:
		for {
			select {
			case p := <-cl.ch:
				pub = p
			default:
				break drain
			}
		}
		if pub == nil {
			panic("c08: no PublishDiagnostics after both tasks ran")
		}
	} else {
		_ = srv.DidOpen(ctx, &protocol.DidOpenTextDocumentParams{
			TextDocument: protocol.TextDocumentItem{URI: uri, Text: text, Version: 1}})
		select {
		case pub = <-cl.ch:
		case <-time.After(10 * time.Second):
			panic("c08: no PublishDiagnostics within 10 s")
		}
	}

	// inputs of the diagnostic range construction, taken from the real parser/analyzer/loader
	journal, perrs := hxParse(text)
	diagIn := [][]int{}
	loadIn := [][]int{}
	resolved, lerrs := include.NewLoader().LoadFromContent(path, text)
	for _, e := range lerrs {
		if e.Kind == include.ErrorParseError {
			continue
		}
		loadIn = append(loadIn, rngJ(e.Range))
	}
	// as analyzeResolved does without a workspace
	external := analyzer.ExternalDeclarations{}
	if resolved != nil {
		external = analyzer.MergeDeclarations(analyzer.DeclarationsFromResolved(resolved), external)
	}
	var res *analyzer.AnalysisResult
	if external.Accounts != nil || external.Commodities != nil {
		res = analyzer.New().AnalyzeWithExternalDeclarations(journal, external)
	} else {
		res = analyzer.New().Analyze(journal)
	}
	for _, d := range res.Diagnostics {
		diagIn = append(diagIn, rngJ(d.Range))
	}

	impl := map[string]any{}
	diag := [][]uint32{}
	for _, d := range pub.Diagnostics {
		diag = append(diag, rngA(d.Range))
	}
	impl["diag"] = diag

	syms, _ := srv.DocumentSymbol(ctx, &protocol.DocumentSymbolParams{TextDocument: td})
	symA := [][]uint32{}
	for _, s := range syms {
		ds := s.(protocol.DocumentSymbol)
		symA = append(symA, append(rngA(ds.Range), rngA(ds.SelectionRange)...))
	}
	impl["sym"] = symA

	ws, _ := srv.WorkspaceSymbol(ctx, &protocol.WorkspaceSymbolParams{Query: ""})
	wsA := [][]uint32{}
	for _, s := range ws {
		a := rngA(s.Location.Range)
		if s.Location.URI != uri {
			a = append(a, 1)
		}
		wsA = append(wsA, a)
	}
	impl["wsym"] = wsA

	links, _ := srv.DocumentLink(ctx, &protocol.DocumentLinkParams{TextDocument: td})
	lkA := [][]uint32{}
	for _, l := range links {
		lkA = append(lkA, rngA(l.Range))
	}
	impl["link"] = lkA

	folds, _ := srv.FoldingRanges(ctx, &protocol.FoldingRangeParams{TextDocumentPositionParams: protocol.TextDocumentPositionParams{TextDocument: td}})
	fA := [][]uint32{}
	for _, f := range folds {
		k := uint32(0)
		if f.Kind == protocol.CommentFoldingRange {
			k = 1
		}
		if f.StartCharacter != 0 || f.EndCharacter != 0 {
			k += 100
		}
		fA = append(fA, []uint32{f.StartLine, f.EndLine, k})
	}
	impl["fold"] = fA

	// observed but not modelled here (formatter edits belong to C05): generic validator only
	fmtA := [][]uint32{}
	edits, _ := srv.Format(ctx, &protocol.DocumentFormattingParams{TextDocument: td})
	for _, e := range edits {
		fmtA = append(fmtA, rngA(e.Range))
	}

	// every cursor position of every line
	cursors := []map[string]any{}
	curImpl := []map[string]any{}
	renamed := map[string]bool{}
	lines := strings.Split(text, "\n")
	for li, line := range lines {
		line = strings.TrimSuffix(line, "\r")
		var offs []int
		n := 0
		offs = append(offs, 0)
		for _, r := range line {
			if r >= 0x10000 {
				n += 2
			} else {
				n++
			}
			offs = append(offs, n)
		}
		for _, ch := range offs {
			pos := protocol.Position{Line: uint32(li), Character: uint32(ch)}
			tdp := protocol.TextDocumentPositionParams{TextDocument: td, Position: pos}
			in := map[string]any{"l": li, "c": ch}
			out := map[string]any{}

			h, _ := srv.Hover(ctx, &protocol.HoverParams{TextDocumentPositionParams: tdp})
			if h != nil && h.Range != nil {
				out["h"] = map[string]any{"k": hoverKind(h.Contents.Value), "r": rngA(*h.Range)}
				c.Count("hover." + hoverKind(h.Contents.Value))
			} else {
				out["h"] = nil
			}

			defs, _ := srv.Definition(ctx, &protocol.DefinitionParams{TextDocumentPositionParams: tdp})
			out["d"] = locsA(defs, uri)

			decl := (li+ch)%3 != 0
			in["decl"] = decl
			refs, _ := srv.References(ctx, &protocol.ReferenceParams{TextDocumentPositionParams: tdp,
				Context: protocol.ReferenceContext{IncludeDeclaration: decl}})
			out["rf"] = locsA(refs, uri)

			pr, _ := srv.PrepareRename(ctx, &protocol.PrepareRenameParams{TextDocumentPositionParams: tdp})
			if pr != nil {
				out["p"] = rngA(*pr)
				if pr.Start.Line == uint32(li) && c08QuoteAt(line, pr.Start.Character) {
					if strings.HasPrefix(line, "commodity ") || strings.HasPrefix(line, "P ") {
						c.Count("prepareRename.quoted-directive-site")
					} else {
						c.Count("prepareRename.quoted-posting-site")
					}
				}
				key := fmt.Sprint(rngA(*pr))
				if !renamed[key] {
					renamed[key] = true
					in["ren"] = true
					we, _ := srv.Rename(ctx, &protocol.RenameParams{TextDocumentPositionParams: tdp, NewName: "renamed:x"})
					rn := [][]uint32{}
					if we != nil {
						us := []string{}
						for u := range we.Changes {
							us = append(us, string(u))
						}
						sort.Strings(us)
						for _, u := range us {
							for _, e := range we.Changes[protocol.DocumentURI(u)] {
								a := rngA(e.Range)
								if protocol.DocumentURI(u) != uri {
									a = append(a, 1)
								}
								rn = append(rn, a)
							}
						}
					}
					out["rn"] = rn
					c.Count("rename")
				}
			} else {
				out["p"] = nil
			}

			cctx := server.VerifCompletionContext(text, pos)
			in["ctx"] = cctx
			if ter := server.VerifTextEditRange(text, pos, cctx); ter != nil {
				out["ter"] = rngA(*ter)
			} else {
				out["ter"] = nil
			}
			cl, _ := srv.Completion(ctx, &protocol.CompletionParams{TextDocumentPositionParams: tdp})
			ce := [][]uint32{}
			nitems := 0
			if cl != nil {
				nitems = len(cl.Items)
				seen := map[string]bool{}
				for _, it := range cl.Items {
					if it.TextEdit == nil {
						if !seen["nil"] {
							seen["nil"] = true
						}
						continue
					}
					a := rngA(it.TextEdit.Range)
					k := fmt.Sprint(a)
					if !seen[k] {
						seen[k] = true
						ce = append(ce, a)
					}
				}
			}
			in["nitems"] = nitems
			out["ce"] = ce
			c.Count(fmt.Sprintf("completion.ctx%d", cctx))

			raw, _ := json.Marshal(server.InlineCompletionParams{TextDocument: td, Position: pos,
				Context: server.InlineCompletionContext{TriggerKind: server.InlineCompletionTriggerInvoked}})
			il, _ := srv.InlineCompletion(ctx, raw)
			ic := [][]uint32{}
			ninl := 0
			if il != nil {
				ninl = len(il.Items)
				for _, it := range il.Items {
					if it.Range != nil {
						ic = append(ic, rngA(*it.Range))
					}
				}
			}
			in["ninl"] = ninl
			out["ic"] = ic
			if ninl > 0 {
				c.Count("inline.items")
			}

			cursors = append(cursors, in)
			curImpl = append(curImpl, out)
		}
	}
	impl["cur"] = curImpl
	_ = srv.DidClose(ctx, &protocol.DidCloseTextDocumentParams{TextDocument: td})

	c.Count("docs")
	if len(perrs) > 0 {
		c.Count("docs.with-parse-errors")
	}
	for k, v := range c08Fixes() {
		if v {
			c.Stats["fix."+k] = 1
		}
	}
	return map[string]any{"text": text, "g": g, "fx": c08Fixes(), "tree": journalJ(journal), "perrs": perrsJ(perrs),
		"diagIn": diagIn, "loadIn": loadIn, "cursors": cursors, "obs": map[string]any{"fmt": fmtA}, "impl": impl}
}

// ---------------------------------------------------------------- generator (grammar G of DESIGN 4.2)

type g08 struct {
	r      *rand.Rand
	accts  []string
	payees []string
	yearOK bool
	nb     bool // prefer texts with characters outside the BMP (every second pick)
}

var (
	c08Segs = []string{"assets", "expenses", "bank", "food", "cash", "income", "Активы", "банк", "café", "crédit",
		"银行", "食物", "a😀b", "x𝄞", "check ing", "savings-1", "o'neil", "r&d", "P x", "tag it", "q\U00010000z", "été"}
	c08Words = []string{"Grocery", "store", "Магазин", "café", "😀", "lunch𝄞", "Ünïcode", "中文 描述", "\U0010FFFFend", "rent",
		"salary", "x", "Whole Foods", "кафе", "b😀😀"}
	// shapes of G that the parser is known to reject (C03): kept, but rare
	c08OddWords = []string{"ACME", "100 things", "shop: food", "a:b", "$ store", "7-Eleven"}
	c08LComm = []string{"$", "€", "£", "¥", "₽", "₴", "USD", "EUR", "BTC", "\"AAPL 2\"", "\"😀\"", "\"𝄞x\""}
	c08RComm = []string{"USD", "EUR", "$", "€", "₽", "usd", "Ab1", "руб", "\"AAPL 2\"", "\"😀\"", "BTC", "元"}
	c08Nums  = []string{"1", "10", "1.50", "1,000.00", "1.000,00", "0.5", "12345", "1 000", "3,5", "100"}
	c08Tags  = []string{"project", "date", "date2", "k", "long-tag_1", "type"}
	c08Vals  = []string{"", "home", "2024-01-05", "été", "😀", "a b", " lead", "v1"}
	c08Cmt   = []string{"", "note", "see café", "😀 party", "日本", "plain text", "x𝄞y"}
	c08Paths = []string{"other.journal", "sub/2024.journal", "/abs/path.journal", "~/fin/main.journal", "*.journal",
		"год/файл.journal", "em😀ji.journal", "with space.journal"}
)

func (g *g08) pick(xs []string) string {
	x := xs[g.r.IntN(len(xs))]
	if g.nb && g.r.IntN(2) == 0 {
		// a non-BMP alternative from the same pool, if it has one
		var nb []string
		for _, s := range xs {
			for _, c := range s {
				if c >= 0x10000 {
					nb = append(nb, s)
					break
				}
			}
		}
		if len(nb) > 0 {
			return nb[g.r.IntN(len(nb))]
		}
	}
	return x
}
func (g *g08) blanks(lo, hi int) string {
	return strings.Repeat(" ", lo+g.r.IntN(hi-lo+1))
}
func (g *g08) ws() string { return g.blanks(1, 3) }
func (g *g08) gap() string {
	switch g.r.IntN(100) { // the TAB separators of G are known to break the lexer (C03): rare
	case 0:
		return "\t"
	case 1:
		return g.blanks(1, 2) + "\t"
	}
	return g.blanks(2, 6)
}
func (g *g08) indent() string {
	switch g.r.IntN(8) {
	case 0:
		return "\t"
	case 1:
		return g.blanks(1, 3)
	case 2:
		return g.blanks(5, 8)
	}
	return "    "
}
func (g *g08) acct() string {
	if len(g.accts) > 0 && g.r.IntN(3) != 0 {
		return g.pick(g.accts)
	}
	n := 2 + g.r.IntN(2)
	parts := []string{}
	for i := 0; i < n; i++ {
		s := g.pick(c08Segs)
		if i == 0 {
			for strings.HasPrefix(s, "P ") || strings.HasPrefix(s, "tag ") {
				if g.r.IntN(4) == 0 {
					break // now and then an account that looks like a directive line to folding.go
				}
				s = g.pick(c08Segs)
			}
		}
		parts = append(parts, s)
	}
	a := strings.Join(parts, ":")
	g.accts = append(g.accts, a)
	return a
}
func (g *g08) date() string {
	sep := g.pick([]string{"-", "-", "/", "."})
	m, d := 1+g.r.IntN(12), 1+g.r.IntN(28)
	f := "%02d"
	if g.r.IntN(5) == 0 {
		f = "%d"
	}
	md := fmt.Sprintf(f+"%s"+f, m, sep, d)
	if g.yearOK && g.r.IntN(4) == 0 {
		return md
	}
	return fmt.Sprintf("%04d%s%s", 2020+g.r.IntN(6), sep, md)
}
func (g *g08) amount() string {
	sign := ""
	if g.r.IntN(4) == 0 {
		sign = g.pick([]string{"-", "+"})
	}
	num := g.pick(c08Nums)
	switch g.r.IntN(6) {
	case 0, 1: // left commodity
		sym := g.pick(c08LComm)
		sp := ""
		if g.r.IntN(3) == 0 {
			sp = " "
		}
		if g.r.IntN(2) == 0 {
			return sign + sym + sp + num
		}
		return sym + sp + sign + num
	case 2, 3, 4: // right commodity
		sp := " "
		if g.r.IntN(4) == 0 {
			sp = ""
		}
		return sign + num + sp + g.pick(c08RComm)
	}
	return sign + num
}
func (g *g08) comment() string {
	// free text and/or tags
	var parts []string
	if t := g.pick(c08Cmt); t != "" {
		parts = append(parts, t)
	}
	for n := g.r.IntN(3); n > 0; n-- {
		parts = append(parts, g.pick(c08Tags)+":"+g.pick(c08Vals))
	}
	return strings.Join(parts, ", ")
}
func (g *g08) optComment() string {
	if g.r.IntN(3) != 0 {
		return ""
	}
	lead := g.pick([]string{"", " ", "  ", "   "})
	return lead + ";" + g.pick([]string{"", " "}) + g.comment()
}
func (g *g08) descr() string {
	if len(g.payees) > 0 && g.r.IntN(3) == 0 {
		return g.pick(g.payees)
	}
	n := 1 + g.r.IntN(3)
	ws := []string{}
	for i := 0; i < n; i++ {
		if g.r.IntN(25) == 0 {
			ws = append(ws, g.pick(c08OddWords))
		} else {
			ws = append(ws, g.pick(c08Words))
		}
	}
	p := strings.Join(ws, " ")
	g.payees = append(g.payees, p)
	if g.r.IntN(4) == 0 {
		note := g.pick(c08Words)
		return p + g.pick([]string{"|", " | ", " |", "  |  "}) + note
	}
	return p
}

func (g *g08) transaction() []string {
	h := g.date()
	if g.r.IntN(8) == 0 {
		h += "=" + g.date()
	}
	if g.r.IntN(3) == 0 {
		h += g.ws() + g.pick([]string{"*", "!"})
	}
	if g.r.IntN(5) == 0 {
		h += g.ws() + "(" + g.pick([]string{"123", "INV-7", "№5", "c😀", "a b"}) + ")"
	}
	if g.r.IntN(10) != 0 {
		h += g.ws() + g.descr()
	}
	h += g.optComment()
	out := []string{h}
	n := 1 + g.r.IntN(4)
	for i := 0; i < n; i++ {
		if g.r.IntN(6) == 0 {
			out = append(out, g.indent()+";"+g.pick([]string{"", " "})+g.comment())
		}
		l := g.indent()
		if g.r.IntN(8) == 0 {
			l += g.pick([]string{"*", "!"}) + " "
		}
		a := g.acct()
		switch g.r.IntN(8) {
		case 0:
			a = "(" + a + ")"
		case 1:
			a = "[" + a + "]"
		case 2:
			a = "(" + a + " )" // DESIGN 8 row 20
		}
		l += a
		if i < n-1 || g.r.IntN(3) != 0 {
			l += g.gap() + g.amount()
			if g.r.IntN(6) == 0 {
				l += g.ws() + g.pick([]string{"@", "@@"}) + g.ws() + g.amount()
			}
			if g.r.IntN(8) == 0 {
				l += g.ws() + g.pick([]string{"=", "=="}) + g.ws() + g.amount()
			}
			l += g.optComment()
		} else if g.r.IntN(3) == 0 {
			l += g.pick([]string{" ", "  ", "   "}) + ";" + g.comment() // `a:b ;c`
		}
		out = append(out, l)
	}
	if g.r.IntN(8) == 0 {
		out = append(out, g.indent()+"; "+g.comment())
	}
	return out
}

func (g *g08) directive() []string {
	switch g.r.IntN(9) {
	case 0, 1:
		l := "account " + g.acct()
		if g.r.IntN(3) == 0 {
			l += g.gap() + "; " + g.comment()
		}
		out := []string{l}
		for n := g.r.IntN(3); n > 0; n-- {
			out = append(out, g.indent()+"; "+g.comment())
		}
		return out
	case 2, 3:
		var l string
		switch g.r.IntN(3) {
		case 0:
			l = "commodity " + g.pick(c08LComm) + g.pick(c08Nums)
		case 1:
			l = "commodity " + g.pick(c08Nums) + " " + g.pick(c08RComm)
		default:
			l = "commodity " + g.pick(c08RComm)
		}
		out := []string{l}
		if g.r.IntN(2) == 0 {
			out = append(out, g.indent()+"format "+g.pick(c08Nums)+" "+g.pick(c08RComm))
		}
		return out
	case 4, 5:
		return []string{"include " + g.pick(c08Paths)}
	case 6:
		return []string{"P " + g.date() + " " + g.pick(c08RComm) + " " + g.amount()}
	case 7:
		g.yearOK = true
		return []string{g.pick([]string{"Y ", "year "}) + fmt.Sprint(2020+g.r.IntN(6))}
	}
	if g.r.IntN(2) == 0 {
		return []string{"D " + g.pick(c08LComm) + g.pick(c08Nums)}
	}
	return []string{"D " + g.pick(c08Nums) + " " + g.pick(c08RComm)}
}

func genJournalC08(r *rand.Rand, maxEntries int) string {
	return genJournalC08nb(r, maxEntries, false)
}

// genJournalC08nb: with nb, accounts, descriptions, codes, commodities, comments, tag values
// and include paths hold characters outside the BMP far more often, so that every kind of
// range is regularly preceded by one on its line.
func genJournalC08nb(r *rand.Rand, maxEntries int, nb bool) string {
	g := &g08{r: r, nb: nb}
	var lines []string
	n := 1 + r.IntN(maxEntries)
	for i := 0; i < n; i++ {
		switch x := r.IntN(10); {
		case x < 6:
			lines = append(lines, g.transaction()...)
		case x < 9:
			lines = append(lines, g.directive()...)
		default:
			for k := 1 + r.IntN(3); k > 0; k-- {
				lines = append(lines, g.pick([]string{";", "; "})+g.comment())
			}
		}
		// separator: 0 blank lines ("tight"), 1 or 2
		switch r.IntN(5) {
		case 0:
		case 1:
			lines = append(lines, "", "")
		default:
			lines = append(lines, "")
		}
	}
	// a transaction being typed: header with a payee seen before, then a blank line (this is
	// where inline completion offers the payee's postings)
	if len(g.payees) > 0 && r.IntN(3) == 0 {
		h := g.date()
		if r.IntN(3) == 0 {
			h += " " + g.pick([]string{"*", "!"})
		}
		lines = append(lines, h+" "+g.pick(g.payees), g.pick([]string{"", "    ", "  ", "\t"}))
		if r.IntN(2) == 0 {
			lines = append(lines, "")
		}
	}
	nl := "\n"
	text := strings.Join(lines, nl)
	if r.IntN(4) != 0 {
		text += nl
	}
	return text
}

// genJournalC08trail: the shapes on which a token's End used to run on over the blanks behind its
// lexeme (fix-trailing-blank-ranges): an account name followed by a single blank and `;` `=` `@`
// `)` `]` or the end of the line; a commodity lexed as text (lower case, mixed case, non-ASCII
// letters) followed by blanks (or white space that is not a blank) and a comment; an amount
// followed by blanks and a comment, a cost or an assertion.  Every cursor of every line asks
// hover / definition / references / prepareRename / rename as for any other document.
func genJournalC08trail(c *Ctx, r *rand.Rand, nb bool) string {
	g := &g08{r: r, nb: nb}
	var lines []string
	textComm := []string{"usd", "руб", "Ab1", "元", "шт", "kWh", "é"}
	for n := 1 + r.IntN(3); n > 0; n-- {
		h := g.date() + " " + g.descr()
		if r.IntN(3) == 0 {
			h += " ; " + g.comment()
		}
		lines = append(lines, h)
		for k := 2 + r.IntN(4); k > 0; k-- {
			l := g.indent()
			a := g.acct()
			switch r.IntN(9) {
			case 0, 1:
				c.Count("trail.account-blank-comment")
				l += a + " ;" + g.pick([]string{"", " "}) + g.comment()
			case 2:
				c.Count("trail.account-blank-assertion")
				l += a + " " + g.pick([]string{"=", "=="}) + " " + g.amount()
			case 3:
				c.Count("trail.account-blank-cost")
				l += a + " " + g.pick([]string{"@", "@@"}) + " " + g.amount()
			case 4:
				c.Count("trail.account-blank-bracket")
				if r.IntN(2) == 0 {
					l += "(" + a + " )"
				} else {
					l += "[" + a + " ]"
				}
				if r.IntN(2) == 0 {
					l += g.gap() + g.amount()
				}
			case 5:
				c.Count("trail.account-blank-eol")
				l += a + " "
			case 6, 7:
				c.Count("trail.text-commodity-blanks-comment")
				sp := g.pick([]string{" ", "  ", "   ", "\t", " \t ", "\u00a0 ", " \v"})
				l += a + g.gap() + g.pick(c08Nums) + g.pick([]string{" ", ""}) + g.pick(textComm) + sp + ";" +
					g.pick([]string{"", " "}) + g.comment()
			default:
				l += a + g.gap() + g.amount()
				sp := g.pick([]string{" ", "  ", "   "})
				switch r.IntN(3) {
				case 0:
					c.Count("trail.amount-blanks-comment")
					l += sp + ";" + g.comment()
				case 1:
					c.Count("trail.amount-blanks-cost")
					l += sp + g.pick([]string{"@", "@@"}) + sp + g.amount()
					if r.IntN(2) == 0 {
						l += sp + "; " + g.comment()
					}
				default:
					c.Count("trail.amount-blanks-assertion")
					l += sp + g.pick([]string{"=", "=="}) + sp + g.amount()
					if r.IntN(2) == 0 {
						l += sp + "; " + g.comment()
					}
				}
			}
			lines = append(lines, l)
		}
		lines = append(lines, "")
	}
	if r.IntN(3) == 0 {
		c.Count("trail.directive-text-commodity")
		lines = append(lines, "commodity "+g.pick(textComm)+g.pick([]string{" ", "  ", "   "})+"; "+g.comment(),
			"P 2024-01-01 "+g.pick(textComm)+g.pick([]string{" ", "  "})+"; "+g.comment(), "")
	}
	return strings.Join(lines, "\n") + "\n"
}

// c08QuoteAt: the character at UTF-16 offset u of the line is a double quote.
func c08QuoteAt(line string, u uint32) bool {
	n := uint32(0)
	for _, r := range line {
		if n == u {
			return r == '"'
		}
		if r >= 0x10000 {
			n += 2
		} else {
			n++
		}
	}
	return false
}

// quoted symbols (the lexeme includes the quotes; blanks, letters of any script, characters
// outside the BMP inside)
var c08Quoted = []string{"\"AAPL 2\"", "\"😀\"", "\"𝄞x\"", "\"a 😀 b\"", "\"x y𝄞\"", "\"Кафе №1\"", "\"Ab c\""}

// genJournalC08quoted: a quoted commodity that is declared (`commodity`, three inline forms,
// with and without a comment or a format sub-directive), priced (`P`) and used in postings
// (amount left or right, cost, assertion) of the same journal, among ordinary entries — every
// cursor of every line is asked, so references / prepareRename / rename run on the directive
// sites and on the posting sites of the same symbol (fix-quoted-commodity-directive.diff).
func genJournalC08quoted(r *rand.Rand, nb bool) string {
	g := &g08{r: r, nb: nb}
	q := g.pick(c08Quoted)
	var blocks [][]string
	for n := 1 + r.IntN(2); n > 0; n-- {
		var l string
		switch r.IntN(4) {
		case 0:
			l = "commodity " + q + g.pick(c08Nums)
		case 1:
			l = "commodity " + g.pick(c08Nums) + " " + q
		default:
			l = "commodity " + q
		}
		if r.IntN(3) == 0 {
			l += g.blanks(1, 3) + "; " + g.comment()
		}
		b := []string{l}
		if r.IntN(3) == 0 {
			b = append(b, g.indent()+"format "+g.pick(c08Nums)+" "+q)
		}
		blocks = append(blocks, b)
	}
	for n := r.IntN(3); n > 0; n-- {
		l := "P " + g.date() + g.blanks(1, 2) + q + g.blanks(1, 2) + g.amount()
		blocks = append(blocks, []string{l})
	}
	for n := 1 + r.IntN(2); n > 0; n-- {
		num := g.pick(c08Nums)
		var am string
		switch r.IntN(3) {
		case 0:
			am = q + " " + num
		case 1:
			am = q + num
		default:
			am = num + g.pick([]string{" ", "  ", ""}) + q
		}
		l := g.indent() + g.acct() + g.gap() + am
		switch r.IntN(4) {
		case 0:
			l += " @ " + g.pick(c08Nums) + " " + q
		case 1:
			l += " = " + g.pick(c08Nums) + " " + q
		}
		l += g.optComment()
		blocks = append(blocks, []string{g.date() + " " + g.descr(), l, g.indent() + g.acct()})
	}
	for n := r.IntN(3); n > 0; n-- {
		if r.IntN(2) == 0 {
			blocks = append(blocks, g.transaction())
		} else {
			blocks = append(blocks, g.directive())
		}
	}
	r.Shuffle(len(blocks), func(i, j int) { blocks[i], blocks[j] = blocks[j], blocks[i] })
	var lines []string
	for _, b := range blocks {
		lines = append(lines, b...)
		if r.IntN(4) != 0 {
			lines = append(lines, "")
		}
	}
	return strings.Join(lines, "\n") + "\n"
}

// genJournalC08payee: transactions whose headers put a secondary date, a status mark and a code
// between the date and the payee, with runs of blanks and tabs of any width; `payee | note` and
// a comment follow; few distinct payees, so that references and rename have several sites.  The
// payee's range is read off the header line (fix-payee-range.diff): every cursor of every line
// asks hover, definition, references, prepareRename (and rename once per symbol).
func genJournalC08payee(r *rand.Rand, nb bool) string {
	g := &g08{r: r, nb: nb}
	sp := func() string {
		switch r.IntN(6) {
		case 0:
			return "\t"
		case 1:
			return g.blanks(1, 2) + "\t" + g.blanks(0, 2)
		case 2:
			return g.blanks(4, 9)
		}
		return g.blanks(1, 3)
	}
	var payees []string
	for n := 1 + r.IntN(2); n > 0; n-- {
		ws := []string{}
		for k := 1 + r.IntN(3); k > 0; k-- {
			ws = append(ws, g.pick(c08Words))
		}
		payees = append(payees, strings.Join(ws, " "))
	}
	var lines []string
	for n := 2 + r.IntN(3); n > 0; n-- {
		h := g.date()
		if r.IntN(2) == 0 {
			h += "=" + g.date()
		}
		if r.IntN(2) == 0 {
			h += sp() + g.pick([]string{"*", "!"})
		}
		if r.IntN(2) == 0 {
			h += sp() + "(" + g.pick([]string{"123", "INV-7", "№5", "c😀", "a b", ""}) + ")"
		}
		h += sp() + g.pick(payees)
		if r.IntN(2) == 0 {
			h += g.pick([]string{"|", " | ", " |", "  |  ", "\t|\t"}) + g.pick(c08Words)
		}
		h += g.optComment()
		lines = append(lines, h, g.indent()+g.acct()+g.gap()+g.amount(), g.indent()+g.acct())
		if r.IntN(3) != 0 {
			lines = append(lines, "")
		}
	}
	return strings.Join(lines, "\n") + "\n"
}

func genC08(c *Ctx) {
	r := c.R
	// fixed witnesses of the predicted shapes first (small, readable)
	for _, t := range c08Fixed {
		c.Emit("c08.doc", c08Doc(c, t, true))
	}
	for i := 0; i < c.N(300, 3000); i++ {
		text := genJournalC08(r, c.N(4, 8))
		if i%4 == 3 {
			// one journal in four with CRLF line ends (same oracle: a CR belongs to the line end,
			// no range may count it as a character of the line)
			text = strings.ReplaceAll(text, "\n", "\r\n")
			c.Count("docs.crlf")
		}
		c.Emit("c08.doc", c08Doc(c, text, true))
	}
	// journals dense in characters outside the BMP (the server converts rune columns to UTF-16
	// units at the protocol boundary)
	for i := 0; i < c.N(60, 600); i++ {
		c.Count("docs.nonbmp-dense")
		c.Emit("c08.doc", c08Doc(c, genJournalC08nb(r, c.N(4, 8), true), true))
	}
	// quoted commodities declared, priced and used (symbols outside the BMP included)
	for i := 0; i < c.N(80, 800); i++ {
		c.Count("docs.quoted-directive")
		c.Emit("c08.doc", c08Doc(c, genJournalC08quoted(r, i%2 == 0), true))
	}
	// tokens followed by blanks: account + single blank, text commodities and amounts followed by
	// blanks and a comment / cost / assertion (fix-trailing-blank-ranges); one in four with CRLF
	for i := 0; i < c.N(100, 1000); i++ {
		c.Count("docs.trailing-blank")
		text := genJournalC08trail(c, r, i%3 == 0)
		if i%4 == 3 {
			text = strings.ReplaceAll(text, "\n", "\r\n")
		}
		c.Emit("c08.doc", c08Doc(c, text, true))
	}
	// headers with secondary date / status / code / wide and tabbed spacing / `payee | note`
	for i := 0; i < c.N(80, 800); i++ {
		text := genJournalC08payee(r, i%2 == 0)
		if i%4 == 1 {
			text = strings.ReplaceAll(text, "\n", "\r\n")
		}
		c.Count("docs.payee-header")
		c.Emit("c08.doc", c08Doc(c, text, true))
	}
	// the same kinds of document reached through a history whose superseded diagnostics run
	// finishes last; the older text differs in line lengths and in characters outside the BMP
	for i := 0; i < c.N(60, 600); i++ {
		text := genJournalC08nb(r, c.N(4, 8), i%2 == 0)
		c.Count("docs.after-stale-run")
		c.Emit("c08.doc", c08DocAfter(c, c08Older(r, text), text, true, i%4 < 2))
	}
	// small CRLF journals, and free text (totality and correspondence only)
	for i := 0; i < c.N(20, 150); i++ {
		text := strings.ReplaceAll(genJournalC08(r, 3), "\n", "\r\n")
		c.Count("docs.crlf")
		c.Emit("c08.doc", c08Doc(c, text, true))
	}
	for i := 0; i < c.N(10, 300); i++ {
		c.Count("docs.freetext")
		c.Emit("c08.doc", c08Doc(c, genDoc(r, 5, 14), false))
	}
}

// c08Older: an earlier version of the text — some lines shorter, some with characters outside
// the BMP added or removed, some lines missing at the end.
func c08Older(r *rand.Rand, text string) string {
	lines := strings.Split(text, "\n")
	if len(lines) > 3 && r.IntN(3) == 0 {
		lines = lines[:len(lines)-1-r.IntN(2)]
	}
	for i, l := range lines {
		rs := []rune(l)
		switch r.IntN(4) {
		case 0:
			if len(rs) > 2 {
				lines[i] = string(rs[:len(rs)/2])
			}
		case 1:
			k := 0
			if len(rs) > 0 {
				k = r.IntN(len(rs))
			}
			lines[i] = string(rs[:k]) + "😀𝄞" + string(rs[k:])
		case 2:
			lines[i] = strings.ReplaceAll(strings.ReplaceAll(l, "😀", "e"), "𝄞", "g")
		}
	}
	return strings.Join(lines, "\n")
}

var c08Fixed = []string{
	"",
	"2024-01-15 * Grocery store\n    expenses:food  $50.00\n    assets:cash\n",
	"2024-01-15 😀 party\n    expenses:food  1 USD ; 😀 k:v\n    a😀b:c  -1 USD\n",
	"account assets:bank\ncommodity USD\n\n2024-01-15 x\n    assets:bank  1 USD\n    assets:bank  -1 USD\n",
	"2024-01-15 a\n    a:b  1\n    c:d\n2024-01-16 b\n    a:b  1\n    c:d\n",
	"include other.journal\n",
	"2024-01-15 (c1)  Shop | note ; t:v\n    a:b ;c\n    (c:d )  1\n",
	"2024-01-15 x ; café k:v\n    a:b    1    USD\n",
	// characters outside the BMP in front of every kind of range (fix-utf16-positions)
	"account a😀b:c\ncommodity \"😀\"\ncommodity 1.00 𝄞X\nP 2024-01-01 \"😀\" 2 €\ninclude em😀ji.journal\n\n" +
		"2024-01-15 * 😀 party 𝄞 ; k:  v, e:, date:2024-01-02\n    a😀b:c  1 \"😀\" @ 2 USD = 3 \"😀\" ; t:   x\n    (x𝄞:y)  -1 USD\n    a😀b:c\n",
	"2024-01-15 😀\n    a😀b:c  1 USD\n    q\U00010000z:w  bad amount 😀 here\n    a😀b:c  \n",
	"2024-01-15 x ; k:v,   long-tag_1:    spaced value  , e:\n    a:b  1 ; k:   v\n    c:d\n",
	// a token ends with its lexeme, not behind the blanks that follow it (fix-trailing-blank-ranges)
	"2024-01-15 x\n    a:b ;c\n    c:d = 1 USD\n    [e:f ]  1 usd  ; c\n    g:h  1 руб \t; c\n    i:j  1 USD ; c\n    k:l  1 USD  @  2 EUR  =  3 USD  ; c\n    m:n \n",
	"commodity usd  ; c\nP 2024-01-01 руб  ; c\n2024-01-15 x\n    a:b  1 usd\n",
}
