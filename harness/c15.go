package main

// C15 "Responses are a function of workspace state (determinism)".
//
// For generated workspaces (>= 2 commodities out of balance in one transaction, >= 2 included
// files sharing account / payee / commodity / tag names with different payee templates, several
// open documents) every response is computed
//   * `inproc` times on ONE real Server (quick 50, thorough 200),
//   * once on each of `fresh` fresh Server values (quick 10, thorough 40),
//   * once in each of `procs` fresh OS processes (quick 10, thorough 40): the harness binary
//     re-executes itself with HLVERIF_C15_CHILD=<scenario file>, the child prints its responses,
// and the SET of distinct serialised outputs is emitted as `impl` of one op `c15.repeat` per
// (scenario, site).  `in` holds the inputs abstracted the way lean/HL/Model/MapOrder.lean needs
// them (per-file collector results, per-map entries, ...), computed with the public collectors
// of internal/analyzer on the parsed files, never from the response that is being judged.
// The Lean driver (HL/Driver/C15.lean) computes the model's set of outputs over all iteration
// orders and checks impl ⊆ model-set, and impl = {the repaired model's single output}.

import (
	"context"
	"encoding/json"
	"fmt"
	"math/rand/v2"
	"os"
	"os/exec"
	"path/filepath"
	"sort"
	"strings"
	"time"

	"go.lsp.dev/protocol"

	"github.com/juev/hledger-lsp/internal/analyzer"
	"github.com/juev/hledger-lsp/internal/ast"
	"github.com/juev/hledger-lsp/internal/server"
	"github.com/juev/hledger-lsp/internal/workspace"
)

func init() {
	if p := os.Getenv("HLVERIF_C15_CHILD"); p != "" {
		c15Child(p)
		os.Exit(0)
	}
	register("C15", genC15)
	replayers["c15.repeat"] = replayC15
}

// ---------------------------------------------------------------------------- scenario

type c15Site struct {
	Name string `json:"name"`
	Kind string `json:"kind"`
	Doc  string `json:"doc,omitempty"`
	Line int    `json:"line,omitempty"`
	Char int    `json:"char,omitempty"`
	Arg  string `json:"arg,omitempty"`
	Arg2 string `json:"arg2,omitempty"`
}

type c15Scn struct {
	Files   map[string]string `json:"files"`   // relative path -> content, written to disk
	Open    []string          `json:"open"`    // documents opened (relative path, or a full non-file URI)
	Unsaved map[string]string `json:"unsaved"` // content of opened documents that are not on disk
	Flip    []string          `json:"flip"`    // includes of main.journal dropped and re-added for the FileOrder site
	Sites   []c15Site         `json:"sites"`
}

const c15Root = "main.journal"
const c15Probe = "probe.journal"

func (s *c15Scn) docContent(name string) string {
	if t, ok := s.Unsaved[name]; ok {
		return t
	}
	return s.Files[name]
}

func c15URI(dir, name string) protocol.DocumentURI {
	if strings.Contains(name, ":") {
		return protocol.DocumentURI(name)
	}
	return protocol.DocumentURI("file://" + filepath.Join(dir, name))
}

func c15WriteFiles(dir string, scn *c15Scn) {
	for rel, content := range scn.Files {
		p := filepath.Join(dir, rel)
		if err := os.MkdirAll(filepath.Dir(p), 0o755); err != nil {
			panic(err)
		}
		if err := os.WriteFile(p, []byte(content), 0o644); err != nil {
			panic(err)
		}
	}
	fake := filepath.Join(dir, "fakehledger")
	script := "#!/bin/sh\nif [ \"$1\" = \"--version\" ]; then echo fake; exit 0; fi\necho \"$@\"\n"
	if err := os.WriteFile(fake, []byte(script), 0o755); err != nil {
		panic(err)
	}
}

// ---------------------------------------------------------------------------- a running server

type c15Client struct {
	protocol.Client // nil: every method but PublishDiagnostics is unused by the server paths we drive
	ch              chan *protocol.PublishDiagnosticsParams
}

func (c *c15Client) PublishDiagnostics(_ context.Context, p *protocol.PublishDiagnosticsParams) error {
	c.ch <- p
	return nil
}
func (c *c15Client) LogMessage(context.Context, *protocol.LogMessageParams) error { return nil }
func (c *c15Client) Configuration(context.Context, *protocol.ConfigurationParams) ([]interface{}, error) {
	return nil, nil
}

type c15Run struct {
	dir string
	scn *c15Scn
	srv *server.Server
	cl  *c15Client
	ctx context.Context
}

func (r *c15Run) await(uri protocol.DocumentURI) *protocol.PublishDiagnosticsParams {
	for {
		select {
		case p := <-r.cl.ch:
			if p.URI == uri {
				return p
			}
		case <-time.After(20 * time.Second):
			panic("c15: no diagnostics published for " + string(uri))
		}
	}
}

// c15NewRun starts a fresh real Server on the workspace; `open` = open the scenario's documents.
func c15NewRun(dir string, scn *c15Scn, open bool, fakeCLI bool) *c15Run {
	r := &c15Run{dir: dir, scn: scn, srv: server.NewServer(), ctx: context.Background(),
		cl: &c15Client{ch: make(chan *protocol.PublishDiagnosticsParams, 64)}}
	r.srv.SetClient(r.cl)
	params := &protocol.InitializeParams{RootURI: protocol.DocumentURI("file://" + dir)} //nolint:staticcheck
	if fakeCLI {
		params.InitializationOptions = map[string]interface{}{"cli": map[string]interface{}{"path": filepath.Join(dir, "fakehledger")}}
	}
	if _, err := r.srv.Initialize(r.ctx, params); err != nil {
		panic(err)
	}
	if err := r.srv.Initialized(r.ctx, &protocol.InitializedParams{}); err != nil {
		panic(err)
	}
	if open {
		for _, name := range scn.Open {
			u := c15URI(dir, name)
			_ = r.srv.DidOpen(r.ctx, &protocol.DidOpenTextDocumentParams{
				TextDocument: protocol.TextDocumentItem{URI: u, Text: scn.docContent(name), Version: 1}})
			if strings.HasPrefix(string(u), "file://") {
				r.await(u)
			}
		}
	}
	return r
}

func (r *c15Run) change(name, text string) *protocol.PublishDiagnosticsParams {
	u := c15URI(r.dir, name)
	_ = r.srv.DidChange(r.ctx, &protocol.DidChangeTextDocumentParams{
		TextDocument:   protocol.VersionedTextDocumentIdentifier{TextDocumentIdentifier: protocol.TextDocumentIdentifier{URI: u}, Version: 2},
		ContentChanges: []protocol.TextDocumentContentChangeEvent{{Text: text}},
	})
	return r.await(u)
}

func c15JSON(v any) string {
	b, err := marshal(v)
	if err != nil {
		panic(err)
	}
	return string(b)
}

func rngS(r protocol.Range) string {
	return fmt.Sprintf("%d:%d-%d:%d", r.Start.Line, r.Start.Character, r.End.Line, r.End.Character)
}

func symS(s protocol.SymbolInformation) string {
	return fmt.Sprintf("%s|%d|%s|%s", s.Name, int(s.Kind), s.Location.URI, rngS(s.Location.Range))
}

func tplJ(ps []analyzer.PostingTemplate) string {
	var parts []string
	for _, p := range ps {
		parts = append(parts, fmt.Sprintf("%s|%s|%s|%v", p.Account, p.Amount, p.Commodity, p.CommodityLeft))
	}
	return strings.Join(parts, ";")
}

func sortedTemplates(m map[string][]analyzer.PostingTemplate) [][]string {
	out := [][]string{}
	for k, v := range m {
		out = append(out, []string{k, tplJ(v)})
	}
	sort.Slice(out, func(i, j int) bool { return out[i][0] < out[j][0] })
	return out
}

func sortedCounts(m map[string]int) [][]any {
	out := [][]any{}
	keys := make([]string, 0, len(m))
	for k := range m {
		keys = append(keys, k)
	}
	sort.Strings(keys)
	for _, k := range keys {
		out = append(out, []any{k, m[k]})
	}
	return out
}

func strs(l []string) []string {
	if l == nil {
		return []string{}
	}
	return l
}

func (r *c15Run) rel(p string) string {
	if rel, err := filepath.Rel(r.dir, p); err == nil {
		return rel
	}
	return p
}

func collectKind(res *analyzer.AnalysisResult, kind, tag string) []string {
	switch kind {
	case "accounts":
		return strs(res.Accounts.All)
	case "payees":
		return strs(res.Payees)
	case "commodities":
		return strs(res.Commodities)
	case "tags":
		return strs(res.Tags)
	case "dates":
		return strs(res.Dates)
	case "tagvalues":
		return strs(res.TagValues[tag])
	}
	panic("collect kind " + kind)
}

func countsKind(res *analyzer.AnalysisResult, kind string) map[string]int {
	switch kind {
	case "accounts":
		return res.AccountCounts
	case "payees":
		return res.PayeeCounts
	case "commodities":
		return res.CommodityCounts
	case "tags":
		return res.TagCounts
	}
	panic("counts kind " + kind)
}

func (r *c15Run) pos(st c15Site) protocol.TextDocumentPositionParams {
	return protocol.TextDocumentPositionParams{
		TextDocument: protocol.TextDocumentIdentifier{URI: c15URI(r.dir, st.Doc)},
		Position:     protocol.Position{Line: uint32(st.Line), Character: uint32(st.Char)},
	}
}

// flip drops the scenario's Flip includes from main.journal and adds them back (one cycle of
// removeUnreachableLocked / addMissingReachableLocked).
func (r *c15Run) flip() {
	full := r.scn.Files[c15Root]
	var kept []string
	for _, line := range strings.Split(full, "\n") {
		drop := false
		for _, f := range r.scn.Flip {
			if line == "include "+f {
				drop = true
			}
		}
		if !drop {
			kept = append(kept, line)
		}
	}
	r.change(c15Root, strings.Join(kept, "\n"))
	r.change(c15Root, full)
}

// observe computes ONE response on this server and serialises it (workspace dir replaced by $W).
func (r *c15Run) observe(st c15Site) string {
	var v any
	switch st.Kind {
	case "balance":
		p := r.change(c15Root, r.scn.docContent(c15Root))
		msgs := []string{}
		for _, d := range p.Diagnostics {
			if fmt.Sprint(d.Code) == "UNBALANCED" {
				msgs = append(msgs, d.Message)
			}
		}
		v = msgs
	case "collect", "counts", "templates":
		res := analyzer.New().AnalyzeResolved(r.srv.Workspace().GetResolved())
		switch st.Kind {
		case "collect":
			v = collectKind(res, st.Arg, st.Arg2)
		case "counts":
			v = sortedCounts(countsKind(res, st.Arg))
		default:
			v = sortedTemplates(res.PayeeTemplates)
		}
	case "completion":
		list, err := r.srv.Completion(r.ctx, &protocol.CompletionParams{TextDocumentPositionParams: r.pos(st)})
		if err != nil {
			panic(err)
		}
		labels := []string{}
		for i, it := range list.Items {
			// SortText carries the rank the server assigned: it must agree with the position
			if it.SortText != fmt.Sprintf("%06d_%s", i, it.Label) {
				labels = append(labels, "BAD-SORTTEXT:"+it.SortText)
			}
			labels = append(labels, it.Label)
		}
		v = labels
	case "concat": // workspace/symbol
		syms, err := r.srv.WorkspaceSymbol(r.ctx, &protocol.WorkspaceSymbolParams{Query: st.Arg})
		if err != nil {
			panic(err)
		}
		out := []string{}
		for _, s := range syms {
			out = append(out, symS(s))
		}
		v = out
	case "lastwins", "txfiles": // workspace index, rebuilt
		ws := r.srv.Workspace()
		if err := ws.Initialize(); err != nil {
			panic(err)
		}
		snap := ws.IndexSnapshot()
		if st.Kind == "lastwins" {
			v = sortedTemplates(snap.PayeeTemplates)
		} else {
			keys := make([]string, 0, len(snap.Transactions))
			for k := range snap.Transactions {
				keys = append(keys, k)
			}
			sort.Strings(keys)
			out := [][]any{}
			for _, k := range keys {
				paths := []string{}
				for _, e := range snap.Transactions[k] {
					paths = append(paths, r.rel(e.FilePath))
				}
				out = append(out, []any{k, paths})
			}
			v = out
		}
	case "fileorder":
		r.flip()
		out := []string{}
		for _, p := range r.srv.Workspace().GetResolved().FileOrder {
			out = append(out, r.rel(p))
		}
		v = out
	case "fotemplate":
		r.flip()
		res := analyzer.New().AnalyzeResolved(r.srv.Workspace().GetResolved())
		if t, ok := res.PayeeTemplates[st.Arg]; ok {
			v = []string{tplJ(t)}
		} else {
			v = []string{}
		}
	case "firstpath":
		out, err := r.srv.ExecuteCommand(r.ctx, &protocol.ExecuteCommandParams{Command: "hledger.run", Arguments: []interface{}{"bal"}})
		if err != nil {
			v = "ERR " + err.Error()
		} else {
			s, _ := out.(string)
			v = "?"
			for _, line := range strings.Split(s, "\n") {
				if rest, ok := strings.CutPrefix(line, "; -f "); ok {
					v = r.rel(strings.TrimSuffix(rest, " bal"))
				}
			}
		}
	case "opaque":
		v = r.observeOpaque(st)
	default:
		panic("c15: unknown site kind " + st.Kind)
	}
	return strings.ReplaceAll(c15JSON(v), r.dir, "$W")
}

func (r *c15Run) observeOpaque(st c15Site) any {
	tdp := r.pos(st)
	switch st.Arg {
	case "diag.other":
		p := r.change(c15Root, r.scn.docContent(c15Root))
		out := []string{}
		for _, d := range p.Diagnostics {
			msg := d.Message
			if fmt.Sprint(d.Code) == "UNBALANCED" {
				msg = "-"
			}
			out = append(out, fmt.Sprintf("%s|%d|%v|%s|%s", rngS(d.Range), int(d.Severity), d.Code, d.Source, msg))
		}
		return out
	case "inline":
		_ = r.srv.DidSave(r.ctx, &protocol.DidSaveTextDocumentParams{TextDocument: tdp.TextDocument}) // drops the per-URI template cache
		raw, _ := json.Marshal(map[string]any{"textDocument": map[string]any{"uri": tdp.TextDocument.URI},
			"position": map[string]any{"line": st.Line, "character": st.Char}, "context": map[string]any{"triggerKind": 1}})
		l, err := r.srv.InlineCompletion(r.ctx, raw)
		if err != nil {
			panic(err)
		}
		return l
	case "references":
		l, _ := r.srv.References(r.ctx, &protocol.ReferenceParams{TextDocumentPositionParams: tdp, Context: protocol.ReferenceContext{IncludeDeclaration: true}})
		return l
	case "definition":
		l, _ := r.srv.Definition(r.ctx, &protocol.DefinitionParams{TextDocumentPositionParams: tdp})
		return l
	case "rename":
		l, _ := r.srv.Rename(r.ctx, &protocol.RenameParams{TextDocumentPositionParams: tdp, NewName: "renamed:x"})
		if l == nil {
			return nil
		}
		// WorkspaceEdit.Changes is a Go map: serialise in key order
		keys := []string{}
		for k := range l.Changes {
			keys = append(keys, string(k))
		}
		sort.Strings(keys)
		out := []any{}
		for _, k := range keys {
			out = append(out, []any{k, l.Changes[protocol.DocumentURI(k)]})
		}
		return out
	case "hover":
		h, _ := r.srv.Hover(r.ctx, &protocol.HoverParams{TextDocumentPositionParams: tdp})
		return h
	case "docsymbol":
		l, _ := r.srv.DocumentSymbol(r.ctx, &protocol.DocumentSymbolParams{TextDocument: tdp.TextDocument})
		return l
	case "format":
		l, _ := r.srv.Format(r.ctx, &protocol.DocumentFormattingParams{TextDocument: tdp.TextDocument})
		return l
	case "folding":
		l, _ := r.srv.FoldingRanges(r.ctx, &protocol.FoldingRangeParams{TextDocumentPositionParams: protocol.TextDocumentPositionParams{TextDocument: tdp.TextDocument}})
		return l
	case "links":
		l, _ := r.srv.DocumentLink(r.ctx, &protocol.DocumentLinkParams{TextDocument: tdp.TextDocument})
		return l
	case "completion.raw":
		l, _ := r.srv.Completion(r.ctx, &protocol.CompletionParams{TextDocumentPositionParams: tdp})
		return l
	}
	panic("c15: unknown opaque site " + st.Arg)
}

// which of the three server roles a site is observed on (they mutate different state)
func c15Role(st c15Site) string {
	switch st.Kind {
	case "lastwins", "txfiles":
		return "index"
	case "fileorder", "fotemplate":
		return "flip"
	}
	return "main"
}

func c15NewRole(dir string, scn *c15Scn, role string) *c15Run {
	switch role {
	case "index":
		return c15NewRun(dir, scn, false, false)
	case "flip":
		r := c15NewRun(dir, &c15Scn{Files: scn.Files, Open: []string{c15Root}, Flip: scn.Flip}, true, false)
		r.scn = scn
		return r
	}
	return c15NewRun(dir, scn, true, true)
}

// c15Once: every site once, on fresh servers (one per role).  Used for `fresh` and by the child.
func c15Once(dir string, scn *c15Scn, sites []c15Site) map[string]string {
	out := map[string]string{}
	runs := map[string]*c15Run{}
	for _, st := range sites {
		role := c15Role(st)
		if runs[role] == nil {
			runs[role] = c15NewRole(dir, scn, role)
		}
		out[st.Name] = runs[role].observe(st)
	}
	return out
}

type c15ChildJob struct {
	Dir   string    `json:"dir"`
	Scn   *c15Scn   `json:"scn"`
	Sites []c15Site `json:"sites"`
}

func c15Child(jobPath string) {
	b, err := os.ReadFile(jobPath)
	if err != nil {
		fmt.Fprintln(os.Stderr, err)
		os.Exit(3)
	}
	var job c15ChildJob
	if err := json.Unmarshal(b, &job); err != nil {
		fmt.Fprintln(os.Stderr, err)
		os.Exit(3)
	}
	out := c15Once(job.Dir, job.Scn, job.Sites)
	os.Stdout.WriteString(c15JSON(out))
}

type c15Sets map[string]map[string]bool

func (s c15Sets) add(site, v string) {
	if s[site] == nil {
		s[site] = map[string]bool{}
	}
	s[site][v] = true
}

// c15Measure runs the three repetition modes for the given sites.
func c15Measure(c *Ctx, dir string, scn *c15Scn, sites []c15Site) (all c15Sets, byMode map[string]map[string]int, reps map[string]int) {
	inproc, fresh, procs := c.N(50, 200), c.N(10, 40), c.N(10, 40)
	reps = map[string]int{"inproc": inproc, "fresh": fresh, "procs": procs}
	all = c15Sets{}
	modes := map[string]c15Sets{"inproc": {}, "fresh": {}, "procs": {}}

	// (1) one server (per role), every response `inproc` times
	runs := map[string]*c15Run{}
	for _, st := range sites {
		role := c15Role(st)
		if runs[role] == nil {
			runs[role] = c15NewRole(dir, scn, role)
		}
		n := inproc
		if st.Kind == "firstpath" {
			n = 3 // one exec per call; the document map of ONE server keeps its order, fresh servers vary
		}
		for i := 0; i < n; i++ {
			modes["inproc"].add(st.Name, runs[role].observe(st))
		}
	}
	// (2) fresh servers
	for i := 0; i < fresh; i++ {
		for k, v := range c15Once(dir, scn, sites) {
			modes["fresh"].add(k, v)
		}
	}
	// (3) fresh OS processes, outputs compared byte for byte
	job := filepath.Join(dir, "job.json")
	if err := os.WriteFile(job, []byte(c15JSON(c15ChildJob{Dir: dir, Scn: scn, Sites: sites})), 0o644); err != nil {
		panic(err)
	}
	exe, err := os.Executable()
	if err != nil {
		panic(err)
	}
	for i := 0; i < procs; i++ {
		cmd := exec.Command(exe)
		cmd.Env = append(os.Environ(), "HLVERIF_C15_CHILD="+job)
		cmd.Stderr = os.Stderr
		b, err := cmd.Output()
		if err != nil {
			panic(fmt.Sprintf("c15 child failed: %v", err))
		}
		var m map[string]string
		if err := json.Unmarshal(b, &m); err != nil {
			panic(fmt.Sprintf("c15 child output: %v: %s", err, b))
		}
		for k, v := range m {
			modes["procs"].add(k, v)
		}
	}
	byMode = map[string]map[string]int{}
	for mode, sets := range modes {
		for site, vs := range sets {
			for v := range vs {
				all.add(site, v)
			}
			if byMode[site] == nil {
				byMode[site] = map[string]int{}
			}
			byMode[site][mode] = len(vs)
		}
	}
	return
}

// ---------------------------------------------------------------------------- abstract inputs

func parseFile(scn *c15Scn, rel string) *ast.Journal {
	j, _ := hxParse(scn.Files[rel])
	return j
}

// included files of main.journal, in directive order (the generator writes flat, existing,
// non-glob includes only, so this is the loader's FileOrder)
func c15Includes(scn *c15Scn) []string {
	var out []string
	for _, line := range strings.Split(scn.Files[c15Root], "\n") {
		if rest, ok := strings.CutPrefix(line, "include "); ok {
			out = append(out, rest)
		}
	}
	return out
}

func sortedCopy(l []string) []string {
	o := append([]string{}, l...)
	sort.Strings(o)
	return o
}

func tplEntries(j *ast.Journal) [][]string { return sortedTemplates(analyzer.CollectPayeeTemplates(j)) }

func c15Input(dir string, scn *c15Scn, st c15Site) any {
	incs := c15Includes(scn)
	files := sortedCopy(incs) // the keys of resolved.Files (a Go map: emitted sorted)
	primary := parseFile(scn, c15Root)
	one := func(j *ast.Journal) *analyzer.AnalysisResult { return analyzer.New().Analyze(j) }
	switch st.Kind {
	case "balance":
		txs := [][][]string{}
		doc, _ := hxParse(scn.docContent(c15Root))
		for i := range doc.Transactions {
			br := analyzer.CheckBalance(&doc.Transactions[i])
			if br.Balanced || (br.InferredIdx == -1 && len(br.Differences) == 0) {
				continue
			}
			es := [][]string{}
			for k, d := range br.Differences {
				es = append(es, []string{k, d.String()})
			}
			sort.Slice(es, func(a, b int) bool { return es[a][0] < es[b][0] })
			txs = append(txs, es)
		}
		return J{"txs": txs}
	case "collect":
		fs := [][]any{}
		for _, f := range files {
			fs = append(fs, []any{f, collectKind(one(parseFile(scn, f)), st.Arg, st.Arg2)})
		}
		return J{"primary": collectKind(one(primary), st.Arg, st.Arg2), "files": fs}
	case "counts":
		fs := [][]any{}
		for _, f := range files {
			fs = append(fs, []any{f, sortedCounts(countsKind(one(parseFile(scn, f)), st.Arg))})
		}
		return J{"primary": sortedCounts(countsKind(one(primary), st.Arg)), "files": fs}
	case "completion":
		kind := map[string]string{"payee": "payees", "account": "accounts", "commodity": "commodities", "tag": "tags"}[st.Arg]
		fs, cs := [][]any{}, [][]any{}
		labels := map[string]bool{}
		for _, l := range collectKind(one(primary), kind, "") {
			labels[l] = true
		}
		for _, f := range files {
			r := one(parseFile(scn, f))
			fs = append(fs, []any{f, collectKind(r, kind, "")})
			cs = append(cs, []any{f, sortedCounts(countsKind(r, kind))})
			for _, l := range collectKind(r, kind, "") {
				labels[l] = true
			}
		}
		ls := make([]string, 0, len(labels))
		for l := range labels {
			ls = append(ls, l)
		}
		sort.Strings(ls)
		scores := [][]any{}
		for _, l := range ls {
			scores = append(scores, []any{l, server.VerifC15Score(l, st.Arg2, true)})
		}
		// extractAccountPrefix: the query up to and including its last colon (account context only)
		prefix := ""
		if st.Arg == "account" {
			if k := strings.LastIndex(st.Arg2, ":"); k >= 0 {
				prefix = st.Arg2[:k+1]
			}
		}
		return J{"primary": collectKind(one(primary), kind, ""), "files": fs, "prefix": prefix,
			"pcounts": sortedCounts(countsKind(one(primary), kind)), "fcounts": cs, "scores": scores, "max": 50}
	case "concat":
		docs := [][]any{}
		for _, name := range scn.Open {
			s := server.NewServer()
			u := c15URI(dir, name)
			s.StoreDocument(u, scn.docContent(name))
			syms, _ := s.WorkspaceSymbol(context.Background(), &protocol.WorkspaceSymbolParams{Query: st.Arg})
			l := []string{}
			for _, x := range syms {
				l = append(l, strings.ReplaceAll(symS(x), dir, "$W"))
			}
			docs = append(docs, []any{strings.ReplaceAll(string(u), dir, "$W"), l})
		}
		sort.Slice(docs, func(a, b int) bool { return docs[a][0].(string) < docs[b][0].(string) })
		return J{"docs": docs}
	case "templates":
		order := [][]any{}
		for _, f := range incs {
			order = append(order, []any{f, tplEntries(parseFile(scn, f))})
		}
		return J{"order": order, "primary": tplEntries(primary)}
	case "lastwins":
		fs := [][]any{}
		for _, f := range files {
			fs = append(fs, []any{f, tplEntries(parseFile(scn, f))})
		}
		return J{"root": tplEntries(primary), "rootName": c15Root, "files": fs}
	case "txfiles":
		keysOf := func(rel string) []string {
			ks := []string{}
			fi, _, _ := workspace.BuildFileIndexFromContent(filepath.Join(dir, rel), scn.Files[rel])
			for _, e := range fi.Transactions {
				ks = append(ks, e.Key)
			}
			return ks
		}
		fs := [][]any{}
		for _, f := range files {
			fs = append(fs, []any{f, keysOf(f)})
		}
		return J{"root": []any{c15Root, keysOf(c15Root)}, "files": fs}
	case "fileorder", "fotemplate":
		kept, missing := [][]any{}, [][]any{}
		flip := map[string]bool{}
		for _, f := range scn.Flip {
			flip[f] = true
		}
		for _, f := range incs {
			if !flip[f] {
				kept = append(kept, []any{f, tplEntries(parseFile(scn, f))})
			}
		}
		for _, f := range sortedCopy(scn.Flip) {
			missing = append(missing, []any{f, tplEntries(parseFile(scn, f))})
		}
		return J{"kept": kept, "missing": missing, "primary": tplEntries(primary), "payee": st.Arg}
	case "firstpath":
		docs := []string{}
		for _, name := range scn.Open {
			if strings.Contains(name, ":") {
				docs = append(docs, "")
			} else {
				docs = append(docs, name)
			}
		}
		sort.Strings(docs)
		return J{"docs": docs}
	case "opaque":
		return J{}
	}
	panic("c15 input: " + st.Kind)
}

// ---------------------------------------------------------------------------- emit / replay

// c15OpenIDs reads the ids of the OPEN known findings of C15 from ./known_findings.json (the
// check runs the harness in the framework root; the file is only read).  The driver attributes a
// failure to a known finding only if it is open, so that a regression of a FIXED finding is
// reported as a violation together with its failing input.
func c15OpenIDs() []string {
	ids := []string{}
	b, err := os.ReadFile("known_findings.json")
	if err != nil {
		return ids
	}
	var d struct {
		Findings []struct {
			Property string `json:"property"`
			ID       string `json:"id"`
			Status   string `json:"status"`
		} `json:"findings"`
	}
	if json.Unmarshal(b, &d) != nil {
		return ids
	}
	for _, f := range d.Findings {
		if f.Property == "C15" && f.Status == "open" {
			ids = append(ids, f.ID)
		}
	}
	sort.Strings(ids)
	return ids
}

func c15Emit(c *Ctx, dir string, scn *c15Scn, sites []c15Site) {
	all, byMode, reps := c15Measure(c, dir, scn, sites)
	slim := *scn
	slim.Sites = nil
	for _, st := range sites {
		impl := make([]string, 0, len(all[st.Name]))
		for v := range all[st.Name] {
			impl = append(impl, v)
		}
		sort.Strings(impl)
		vals := make([]json.RawMessage, len(impl))
		for i, s := range impl {
			vals[i] = json.RawMessage(s)
		}
		c.Count(fmt.Sprintf("site.%s.distinct=%d", st.Kind, len(impl)))
		c.Emit("c15.repeat", map[string]any{
			"site": st.Name, "kind": st.Kind, "sd": st, "scn": slim,
			"in": c15Input(dir, scn, st), "impl": vals, "by_mode": byMode[st.Name], "reps": reps, "open": c15OpenIDs(),
		})
	}
}

func replayC15(c *Ctx, m map[string]any) map[string]any {
	var scn c15Scn
	var st c15Site
	b, _ := json.Marshal(m["scn"])
	if err := json.Unmarshal(b, &scn); err != nil {
		return nil
	}
	b, _ = json.Marshal(m["sd"])
	if err := json.Unmarshal(b, &st); err != nil {
		return nil
	}
	dir, err := os.MkdirTemp(c.Tmp, "c15r-")
	if err != nil {
		panic(err)
	}
	defer os.RemoveAll(dir)
	c15WriteFiles(dir, &scn)
	all, byMode, reps := c15Measure(c, dir, &scn, []c15Site{st})
	impl := make([]string, 0, len(all[st.Name]))
	for v := range all[st.Name] {
		impl = append(impl, v)
	}
	sort.Strings(impl)
	vals := make([]json.RawMessage, len(impl))
	for i, s := range impl {
		vals[i] = json.RawMessage(s)
	}
	return map[string]any{"site": st.Name, "kind": st.Kind, "sd": st, "scn": scn,
		"in": c15Input(dir, &scn, st), "impl": vals, "by_mode": byMode[st.Name], "reps": reps, "open": c15OpenIDs()}
}

// ---------------------------------------------------------------------------- generator

var (
	c15Accounts    = []string{"assets:bank", "assets:cash", "expenses:food", "expenses:fun", "expenses:rent", "income:salary", "liabilities:card", "equity:open", "Assets:Bank"}
	c15Payees      = []string{"Grocer", "Cafe", "Rent", "Employer", "Bookshop", "cafe", "Grand Hotel"}
	c15Commodities = []string{"USD", "EUR", "GBP", "CHF", "BTC", "usd"}
	c15Tags        = []string{"trip", "proj", "who"}
	c15Values      = []string{"paris", "rome", "x1", "bob", "alpha"}
	c15FileNames   = []string{"a.journal", "b.journal", "sub/c.journal", "B2.journal", "z.journal", "sub/a.journal"}
)


// one balanced transaction
func c15Tx(r *rand.Rand, day int, payee string, extraAcct string) string {
	var sb strings.Builder
	status := pick(r, []string{"", "* ", "! "})
	fmt.Fprintf(&sb, "2024-%02d-%02d %s%s", 1+day/28, 1+day%28, status, payee)
	if r.IntN(3) == 0 {
		fmt.Fprintf(&sb, "  ; %s:%s", pick(r, c15Tags), pick(r, c15Values))
	}
	sb.WriteString("\n")
	n := 1 + r.IntN(3)
	com := pick(r, c15Commodities)
	for i := 0; i < n; i++ {
		acct := pick(r, c15Accounts)
		if i == 0 && extraAcct != "" && r.IntN(2) == 0 {
			acct = extraAcct
		}
		amt := 1 + r.IntN(90)
		fmt.Fprintf(&sb, "    %s  %d %s", acct, amt, com)
		if r.IntN(4) == 0 {
			fmt.Fprintf(&sb, "  ; %s:%s", pick(r, c15Tags), pick(r, c15Values))
		} else if r.IntN(8) == 0 {
			fmt.Fprintf(&sb, "  ; %s:", pick(r, c15Tags))
		}
		sb.WriteString("\n")
	}
	fmt.Fprintf(&sb, "    %s\n\n", pick(r, c15Accounts))
	return sb.String()
}

// a transaction out of balance in exactly k commodities
func c15Unbalanced(r *rand.Rand, day, k int) string {
	var sb strings.Builder
	fmt.Fprintf(&sb, "2024-%02d-%02d Mixed up\n", 1+day/28, 1+day%28)
	coms := r.Perm(len(c15Commodities))[:k]
	for _, ci := range coms {
		amt := 1 + r.IntN(50)
		frac := ""
		if r.IntN(3) == 0 {
			frac = fmt.Sprintf(".%d", 1+r.IntN(9))
		}
		sign := ""
		if r.IntN(2) == 0 {
			sign = "-"
		}
		fmt.Fprintf(&sb, "    %s  %s%d%s %s\n", pick(r, c15Accounts), sign, amt, frac, c15Commodities[ci])
	}
	if k == 1 && r.IntN(2) == 0 { // the same commodity twice, still off
		fmt.Fprintf(&sb, "    %s  %d %s\n", pick(r, c15Accounts), 100+r.IntN(9), c15Commodities[coms[0]])
	}
	sb.WriteString("\n")
	return sb.String()
}

func c15GenScenario(c *Ctx, idx int) *c15Scn {
	r := c.R
	scn := &c15Scn{Files: map[string]string{}, Unsaved: map[string]string{}}
	nf := 2 + r.IntN(3) // 2..4 included files
	if idx%9 == 0 {
		nf = 1 + r.IntN(2) // also the degenerate shapes (guard of the _partial theorem)
	}
	names := []string{}
	for _, i := range r.Perm(len(c15FileNames))[:nf] {
		names = append(names, c15FileNames[i])
	}
	openings := idx%2 == 0 && nf >= 2 // every included file opens with an entry of the same date (seed r5-C15)
	many := idx%4 == 1 // more than 12 tied candidates: an unstable sort may reorder them
	huge := idx%10 == 7 // more than MaxResults (50) candidates
	day := 0
	for fi, f := range names {
		var sb strings.Builder
		fmt.Fprintf(&sb, "; file %s\n", f)
		if r.IntN(2) == 0 {
			fmt.Fprintf(&sb, "commodity %s\n", pick(r, c15Commodities))
		}
		if r.IntN(2) == 0 {
			fmt.Fprintf(&sb, "account %s\n", pick(r, c15Accounts))
		}
		if r.IntN(3) == 0 {
			fmt.Fprintf(&sb, "commodity 1,000.00 %s\n", pick(r, c15Commodities))
		}
		sb.WriteString("\n")
		if openings {
			// per-file opening entries: the SAME earliest date, payee, account and commodity in
			// several included files (go-to-definition of an undeclared name jumps to its earliest
			// usage: with a tie across files the answer must still be one and the same)
			fmt.Fprintf(&sb, "2023-12-31 Opening balances\n    equity:opening  -%d XAU\n    assets:bank\n\n", 1+r.IntN(9))
		}
		nt := 2 + r.IntN(4)
		for t := 0; t < nt; t++ {
			day++
			sb.WriteString(c15Tx(r, day%300, pick(r, c15Payees), fmt.Sprintf("expenses:only%d", fi)))
		}
		if many || huge {
			cnt := 6 + r.IntN(6)
			if huge {
				cnt = 20 + r.IntN(6)
			}
			for t := 0; t < cnt; t++ {
				day++
				sb.WriteString(c15Tx(r, day%300, fmt.Sprintf("Shop %c%d", 'a'+rune(r.IntN(3)), r.IntN(40)), fmt.Sprintf("expenses:m%d:x%d", fi, r.IntN(30))))
			}
		}
		if r.IntN(3) == 0 { // the same transaction text in several files: equal transaction keys
			sb.WriteString("2024-06-01 Shared\n    assets:bank  5 USD\n    assets:cash\n\n")
		}
		scn.Files[f] = sb.String()
	}
	// main.journal
	var mb strings.Builder
	for _, f := range names {
		fmt.Fprintf(&mb, "include %s\n", f)
	}
	mb.WriteString("\n")
	if r.IntN(2) == 0 {
		fmt.Fprintf(&mb, "commodity %s\n", pick(r, c15Commodities))
	}
	if r.IntN(3) == 0 {
		fmt.Fprintf(&mb, "account %s\n", pick(r, c15Accounts))
	}
	mb.WriteString("\n")
	nun := 1 + r.IntN(2)
	for t := 0; t < 2+r.IntN(3); t++ {
		day++
		mb.WriteString(c15Tx(r, day%300, pick(r, c15Payees), ""))
	}
	if r.IntN(4) == 0 {
		mb.WriteString("2024-06-01 Shared\n    assets:bank  5 USD\n    assets:cash\n\n")
	}
	for u := 0; u < nun; u++ {
		k := 2 + r.IntN(3)
		if idx%9 == 0 && u == 0 {
			k = 1
		}
		day++
		mb.WriteString(c15Unbalanced(r, day%300, k))
		c.Count(fmt.Sprintf("unbalanced.k=%d", k))
	}
	openLine := -1
	if openings {
		c.Count("openings")
		openLine = strings.Count(mb.String(), "\n")
		mb.WriteString("2024-11-30 Opening balances\n    equity:opening  1 XAU\n    assets:cash\n\n")
	}
	mainText := mb.String()
	scn.Files[c15Root] = mainText
	c.Count(fmt.Sprintf("files=%d", nf))

	// open documents
	scn.Open = []string{c15Root}
	for _, f := range names {
		if r.IntN(3) != 0 {
			scn.Open = append(scn.Open, f)
		}
	}
	if r.IntN(3) == 0 {
		scn.Open = append(scn.Open, "untitled:Untitled-1")
		scn.Unsaved["untitled:Untitled-1"] = "account scratch:pad\n\n2024-01-01 Scratch\n    scratch:pad  1 USD\n    assets:cash\n"
	}
	// flip set: >= 2 includes when there are that many
	fl := r.Perm(len(names))
	nfl := len(names)
	if nfl > 2 && r.IntN(2) == 0 {
		nfl--
	}
	for _, i := range fl[:nfl] {
		scn.Flip = append(scn.Flip, names[i])
	}
	sort.Strings(scn.Flip)
	c.Count(fmt.Sprintf("flip=%d", len(scn.Flip)))

	// probe document: the lines completion / inline completion are asked on
	var pb strings.Builder
	var sites []c15Site
	line := 0
	add := func(text string) int { pb.WriteString(text + "\n"); line++; return line - 1 }
	pq := []string{"", pick(r, []string{"G", "gr", "e", "c", "Sh", "o"})}
	for _, q := range pq {
		l := add("2024-07-01 " + q)
		sites = append(sites, c15Site{Name: "completion.payee." + q, Kind: "completion", Doc: c15Probe, Line: l, Char: len("2024-07-01 " + q), Arg: "payee", Arg2: q})
		add("")
	}
	add("2024-07-02 Probe")
	aq := []string{"", pick(r, []string{"exp", "a", "s", "ba", "o", "x1"}), pick(r, []string{"expenses:", "assets:b", "expenses:m0:", "nosuch:x", "expenses:f", "Assets:"})}
	for _, q := range aq {
		l := add("    " + q)
		sites = append(sites, c15Site{Name: "completion.account." + q, Kind: "completion", Doc: c15Probe, Line: l, Char: 4 + len(q), Arg: "account", Arg2: q})
	}
	for _, q := range []string{"", pick(r, []string{"U", "u", "B", "E"})} {
		l := add("    assets:bank  1 " + q)
		sites = append(sites, c15Site{Name: "completion.commodity." + q, Kind: "completion", Doc: c15Probe, Line: l, Char: len("    assets:bank  1 " + q), Arg: "commodity", Arg2: q})
	}
	{
		l := add("    assets:bank  1 USD  ; ")
		sites = append(sites, c15Site{Name: "completion.tag.", Kind: "completion", Doc: c15Probe, Line: l, Char: len("    assets:bank  1 USD  ; "), Arg: "tag", Arg2: ""})
	}
	add("")
	for i, p := range []string{pick(r, c15Payees), pick(r, c15Payees)} {
		add("2024-07-03 " + p)
		l := add("")
		sites = append(sites, c15Site{Name: fmt.Sprintf("inline.%d.%s", i, p), Kind: "opaque", Doc: c15Probe, Line: l, Char: 0, Arg: "inline"})
	}
	scn.Unsaved[c15Probe] = pb.String()
	scn.Open = append(scn.Open, c15Probe)
	c.Count(fmt.Sprintf("open=%d", len(scn.Open)))

	sites = append(sites,
		c15Site{Name: "balance", Kind: "balance"},
		c15Site{Name: "diag.other", Kind: "opaque", Arg: "diag.other"},
		c15Site{Name: "templates.merged", Kind: "templates"},
		c15Site{Name: "wsymbol.", Kind: "concat", Arg: ""},
		c15Site{Name: "wsymbol.a", Kind: "concat", Arg: "a"},
		c15Site{Name: "index.templates", Kind: "lastwins"},
		c15Site{Name: "index.txfiles", Kind: "txfiles"},
		c15Site{Name: "fileorder", Kind: "fileorder"},
	)
	fp := []string{"Grocer", pick(r, c15Payees)}
	if fp[1] == fp[0] {
		fp = fp[:1]
	}
	for _, p := range fp {
		sites = append(sites, c15Site{Name: "fileorder.template." + p, Kind: "fotemplate", Arg: p})
	}
	for _, k := range []string{"accounts", "payees", "commodities", "tags", "dates"} {
		sites = append(sites, c15Site{Name: "collect." + k, Kind: "collect", Arg: k})
	}
	for _, t := range c15Tags {
		sites = append(sites, c15Site{Name: "collect.tagvalues." + t, Kind: "collect", Arg: "tagvalues", Arg2: t})
	}
	for _, k := range []string{"accounts", "payees", "commodities", "tags"} {
		sites = append(sites, c15Site{Name: "counts." + k, Kind: "counts", Arg: k})
	}
	if idx%3 == 0 {
		sites = append(sites, c15Site{Name: "execcmd", Kind: "firstpath"})
	}
	// opaque request sites on main.journal: first posting account, payee and commodity of the first transaction
	lines := strings.Split(mainText, "\n")
	for li, l := range lines {
		if strings.HasPrefix(l, "2024-") {
			pcol := strings.LastIndex(l[:min(len(l), 14)], " ") + 1
			if strings.HasPrefix(l[11:], "* ") || strings.HasPrefix(l[11:], "! ") {
				pcol = 13
			}
			sites = append(sites,
				c15Site{Name: "references.payee", Kind: "opaque", Doc: c15Root, Line: li, Char: pcol + 1, Arg: "references"},
				c15Site{Name: "definition.payee", Kind: "opaque", Doc: c15Root, Line: li, Char: pcol + 1, Arg: "definition"},
				c15Site{Name: "hover.payee", Kind: "opaque", Doc: c15Root, Line: li, Char: pcol + 1, Arg: "hover"})
			if li+1 < len(lines) && strings.HasPrefix(lines[li+1], "    ") {
				pl := lines[li+1]
				ccol := strings.Index(pl[4:], "  ") + 4 + 2
				for ccol < len(pl) && (pl[ccol] == '-' || (pl[ccol] >= '0' && pl[ccol] <= '9') || pl[ccol] == '.' || pl[ccol] == ' ') {
					ccol++
				}
				sites = append(sites,
					c15Site{Name: "references.account", Kind: "opaque", Doc: c15Root, Line: li + 1, Char: 6, Arg: "references"},
					c15Site{Name: "definition.account", Kind: "opaque", Doc: c15Root, Line: li + 1, Char: 6, Arg: "definition"},
					c15Site{Name: "hover.account", Kind: "opaque", Doc: c15Root, Line: li + 1, Char: 6, Arg: "hover"},
					c15Site{Name: "rename.account", Kind: "opaque", Doc: c15Root, Line: li + 1, Char: 6, Arg: "rename"},
					c15Site{Name: "references.commodity", Kind: "opaque", Doc: c15Root, Line: li + 1, Char: ccol + 1, Arg: "references"},
					c15Site{Name: "hover.commodity", Kind: "opaque", Doc: c15Root, Line: li + 1, Char: ccol + 1, Arg: "hover"})
			}
			break
		}
	}
	if openLine >= 0 {
		for _, k := range []string{"definition", "references", "hover"} {
			sites = append(sites,
				c15Site{Name: k + ".tied.payee", Kind: "opaque", Doc: c15Root, Line: openLine, Char: 13, Arg: k},
				c15Site{Name: k + ".tied.account", Kind: "opaque", Doc: c15Root, Line: openLine + 1, Char: 7, Arg: k},
				c15Site{Name: k + ".tied.commodity", Kind: "opaque", Doc: c15Root, Line: openLine + 1, Char: 23, Arg: k})
		}
	}
	sites = append(sites,
		c15Site{Name: "docsymbol", Kind: "opaque", Doc: c15Root, Arg: "docsymbol"},
		c15Site{Name: "format", Kind: "opaque", Doc: c15Root, Arg: "format"},
		c15Site{Name: "folding", Kind: "opaque", Doc: c15Root, Arg: "folding"},
		c15Site{Name: "links", Kind: "opaque", Doc: c15Root, Arg: "links"})
	scn.Sites = sites
	return scn
}

func genC15(c *Ctx) {
	n := c.N(30, 120)
	for i := 0; i < n; i++ {
		scn := c15GenScenario(c, i)
		dir, err := os.MkdirTemp(c.Tmp, "c15-")
		if err != nil {
			panic(err)
		}
		c15WriteFiles(dir, scn)
		c15Emit(c, dir, scn, scn.Sites)
		os.RemoveAll(dir)
	}
}
