package main

import (
	"context"
	"sync"

	"go.lsp.dev/protocol"
)

// stubClient is a protocol.Client that records PublishDiagnostics calls and answers
// workspace/configuration with a fixed payload.
type stubClient struct {
	mu     sync.Mutex
	pubs   []protocol.PublishDiagnosticsParams
	config []interface{}
	notify chan struct{}
}

func newStubClient() *stubClient { return &stubClient{notify: make(chan struct{}, 1024)} }

func (m *stubClient) Progress(ctx context.Context, params *protocol.ProgressParams) error { return nil }
func (m *stubClient) WorkDoneProgressCreate(ctx context.Context, params *protocol.WorkDoneProgressCreateParams) error {
	return nil
}
func (m *stubClient) LogMessage(ctx context.Context, params *protocol.LogMessageParams) error { return nil }
func (m *stubClient) PublishDiagnostics(ctx context.Context, params *protocol.PublishDiagnosticsParams) error {
	m.mu.Lock()
	m.pubs = append(m.pubs, *params)
	m.mu.Unlock()
	select {
	case m.notify <- struct{}{}:
	default:
	}
	return nil
}
func (m *stubClient) ShowMessage(ctx context.Context, params *protocol.ShowMessageParams) error { return nil }
func (m *stubClient) ShowMessageRequest(ctx context.Context, params *protocol.ShowMessageRequestParams) (*protocol.MessageActionItem, error) {
	return nil, nil
}
func (m *stubClient) Telemetry(ctx context.Context, params interface{}) error { return nil }
func (m *stubClient) RegisterCapability(ctx context.Context, params *protocol.RegistrationParams) error {
	return nil
}
func (m *stubClient) UnregisterCapability(ctx context.Context, params *protocol.UnregistrationParams) error {
	return nil
}
func (m *stubClient) ApplyEdit(ctx context.Context, params *protocol.ApplyWorkspaceEditParams) (bool, error) {
	return false, nil
}
func (m *stubClient) Configuration(ctx context.Context, params *protocol.ConfigurationParams) ([]interface{}, error) {
	return m.config, nil
}
func (m *stubClient) WorkspaceFolders(ctx context.Context) ([]protocol.WorkspaceFolder, error) {
	return nil, nil
}

func (m *stubClient) published() []protocol.PublishDiagnosticsParams {
	m.mu.Lock()
	defer m.mu.Unlock()
	return append([]protocol.PublishDiagnosticsParams{}, m.pubs...)
}
