package main

// C02, core grammar GCore (lean/HL/Spec/GCore.lean, GCoreValue.lean): the stream behind the
// theorem HL.Props.C02.C02_pipeline_core (text -> published balance diagnostics).
//
// Random well-formed journals of the core grammar, built so that every verdict occurs
// (balanced with every amount written, balanced through one amount-less posting, off by a chosen
// residual in one or in three commodities, several amount-less postings) are PRINTED BY THE LEAN
// PRINTER (op c03.gcore.print, so the text is produced by the function the theorem quantifies
// over), then
//   * parsed by the real parser.Parse and analysed by the real Analyzer.Analyze, and
//   * opened as a document on a real Server whose published diagnostics are collected,
// and the driver (op c02.gcore) compares both with the model chain on the same text
// (correspondence) and with the exact-sum rule on the values WRITTEN (oracle).
//
// The generator stays inside the quantifier of property C02 (DESIGN 7.C02): no transaction has
// exactly two commodities out of balance (the core grammar has no costs); the driver re-derives
// that from the journal and judges only such cases.

import (
	"math/big"
	"math/rand/v2"
	"strings"
)

func init() {
	replayers["c02.gcore"] = func(c *Ctx, m map[string]any) map[string]any {
		return c02CoreCase(m["g"], unhx(m["text"].(string)))
	}
}

// c02CoreCase runs the real code on the text.
func c02CoreCase(g any, text string) map[string]any {
	j, _ := hxParse(text)
	var diags any = []J{}
	func() {
		defer func() {
			if r := recover(); r != nil {
				diags = "panic"
			}
		}()
		ds := []J{}
		for _, d := range longLivedAnalyzer().Analyze(j).Diagnostics {
			if d.Code == "UNBALANCED" || d.Code == "MULTIPLE_INFERRED" {
				ds = append(ds, J{"r": rngJ(d.Range), "sev": int(d.Severity), "code": d.Code, "msg": hx(d.Message)})
			}
		}
		diags = ds
	}()
	pub := c02SessionImpl([]string{text})[0]
	return map[string]any{"g": g, "text": hx(text), "impl": J{"text": hx(text), "diags": diags, "pub": pub}}
}

// a written amount as exact integer at a scale: value = ±coef / 10^scale
type gcQty struct {
	coef  *big.Int
	scale int
}

func gcAmountValue(a J) gcQty {
	in := a["int"].(string)
	fr := ""
	if f, ok := a["frac"].(string); ok {
		fr = f
	}
	v, _ := new(big.Int).SetString(in+fr, 10)
	if a["neg"].(bool) {
		v.Neg(v)
	}
	return gcQty{v, len(fr)}
}

func pow10(n int) *big.Int { return new(big.Int).Exp(big.NewInt(10), big.NewInt(int64(n)), nil) }

// gcWrite writes value coef/10^scale as a well-formed GCore amount, with notational freedom:
// leading zeros, trailing decimal zeros, a fraction even when it is all zeros; never exactly
// three decimals behind a non-zero integer part (side condition A).
func gcWrite(r *rand.Rand, coef *big.Int, scale int, com any) J {
	neg := coef.Sign() < 0
	if coef.Sign() == 0 {
		neg = r.IntN(4) == 0 // "-0" is written sometimes
	}
	abs := new(big.Int).Abs(coef)
	// more decimals
	if r.IntN(3) == 0 {
		k := 1 + r.IntN(3)
		abs.Mul(abs, pow10(k))
		scale += k
	}
	// fewer decimals when they are zeros
	for scale > 0 && r.IntN(2) == 0 && new(big.Int).Mod(abs, big.NewInt(10)).Sign() == 0 {
		abs.Div(abs, big.NewInt(10))
		scale--
	}
	s := abs.String()
	for len(s) <= scale {
		s = "0" + s
	}
	in, fr := s[:len(s)-scale], s[len(s)-scale:]
	if r.IntN(6) == 0 {
		in = strings.Repeat("0", 1+r.IntN(2)) + in
	}
	if len(fr) == 3 && strings.Trim(in, "0") != "" {
		fr += "0"
	}
	a := J{"neg": neg, "int": in, "frac": nil, "com": com}
	if fr != "" {
		a["frac"] = fr
	}
	return a
}

func gcSegs(r *rand.Rand) []string {
	segs := []string{}
	for s, ns := 0, 2+r.IntN(3); s < ns; s++ {
		segs = append(segs, gcWord(r, 'a', 'z', 1, 8))
	}
	return segs
}

// genC02CoreTx: one transaction and the kind of verdict it was built for.
func genC02CoreTx(c *Ctx, r *rand.Rand) []any {
	// commodities of this transaction: 1..3 out of a small pool, nil = no commodity written
	pool := []any{"USD", "EUR", "X", "BTC", nil, "EU"}
	r.Shuffle(len(pool), func(i, k int) { pool[i], pool[k] = pool[k], pool[i] })
	ncom := 1 + r.IntN(3)
	coms := pool[:ncom]
	ps := []any{}
	sums := make([]gcQty, ncom)
	for i := range sums {
		sums[i] = gcQty{big.NewInt(0), 0}
	}
	add := func(i int, a J) {
		q := gcAmountValue(a)
		s := sums[i]
		sc := max(s.scale, q.scale)
		x := new(big.Int).Mul(s.coef, pow10(sc-s.scale))
		y := new(big.Int).Mul(q.coef, pow10(sc-q.scale))
		sums[i] = gcQty{x.Add(x, y), sc}
	}
	np := 1 + r.IntN(4)
	for k := 0; k < np; k++ {
		i := r.IntN(ncom)
		a := genGCoreAmount(c, r)
		a["com"] = coms[i]
		add(i, a)
		ps = append(ps, J{"s": gcSegs(r), "a": a})
	}
	kind := r.IntN(10)
	switch {
	case kind < 3: // balanced, every amount written
		for i := range coms {
			if sums[i].coef.Sign() != 0 || r.IntN(3) == 0 {
				a := gcWrite(r, new(big.Int).Neg(sums[i].coef), sums[i].scale, coms[i])
				add(i, a)
				ps = append(ps, J{"s": gcSegs(r), "a": a})
			}
		}
		c.Count("c02core.balanced")
	case kind < 5: // one amount-less posting takes the rest
		ps = append(ps, J{"s": gcSegs(r), "a": nil})
		c.Count("c02core.inferred")
	case kind < 9: // off by a chosen residual in one commodity (or in all three)
		off := []int{r.IntN(ncom)}
		if ncom == 3 && r.IntN(3) == 0 {
			off = []int{0, 1, 2}
		}
		isOff := map[int]bool{}
		for _, i := range off {
			isOff[i] = true
		}
		for i := range coms {
			target := big.NewInt(0)
			scale := sums[i].scale
			if isOff[i] {
				// residual: one unit of the finest precision, a few units, or something large
				switch r.IntN(3) {
				case 0:
					target = big.NewInt(1)
				case 1:
					target = big.NewInt(int64(1 + r.IntN(99)))
				default:
					target, _ = new(big.Int).SetString(gcDigits(r, 1+r.IntN(24)), 10)
					if target.Sign() == 0 {
						target = big.NewInt(7)
					}
				}
				if r.IntN(2) == 0 {
					target.Neg(target)
				}
				if r.IntN(2) == 0 && scale < 8 {
					// a residual finer than anything written so far: the balancing amount writes it
					k := 1 + r.IntN(2)
					sums[i] = gcQty{new(big.Int).Mul(sums[i].coef, pow10(k)), scale + k}
					scale += k
				}
			}
			need := new(big.Int).Sub(target, sums[i].coef)
			if need.Sign() != 0 || r.IntN(3) == 0 {
				a := gcWrite(r, need, scale, coms[i])
				add(i, a)
				ps = append(ps, J{"s": gcSegs(r), "a": a})
			}
		}
		c.Count("c02core.off")
	default: // several amount-less postings
		for k, n := 0, 2+r.IntN(2); k < n; k++ {
			ps = append(ps, J{"s": gcSegs(r), "a": nil})
		}
		c.Count("c02core.multiple")
	}
	r.Shuffle(len(ps), func(i, k int) { ps[i], ps[k] = ps[k], ps[i] })
	// the property's quantifier: never exactly two commodities out of balance
	missing, off := 0, 0
	for _, p := range ps {
		if p.(J)["a"] == nil {
			missing++
		}
	}
	// recompute the sums from what is written (the balancing amounts went through add already)
	for i := range coms {
		if sums[i].coef.Sign() != 0 {
			off++
		}
	}
	if missing == 0 && off == 2 {
		c.Count("c02core.two-commodities-off(redrawn)")
		return genC02CoreTx(c, r)
	}
	return ps
}

func genC02CoreJournal(c *Ctx, r *rand.Rand) []any {
	n := r.IntN(6) // 0..5 transactions
	txs := make([]any, 0, n)
	for i := 0; i < n; i++ {
		words := []string{}
		for k, nw := 0, 1+r.IntN(3); k < nw; k++ {
			words = append(words, gcWord(r, 'a', 'z', 1, 9))
		}
		txs = append(txs, J{
			"d": []string{"20" + gcDigits(r, 2), "0" + string(rune('1'+r.IntN(9))), "1" + gcDigits(r, 1)},
			"w": words, "p": genC02CoreTx(c, r)})
	}
	return txs
}

func genC02Core(c *Ctx) {
	n := c.N(200, 10000)
	gs := make([]any, n)
	for i := range gs {
		gs[i] = genC02CoreJournal(c, c.R)
	}
	texts := leanPrint(gs, nil)
	for i, g := range gs {
		c.Emit("c02.gcore", c02CoreCase(g, texts[i]))
	}
}
