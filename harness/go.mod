module github.com/juev/hledger-lsp/verifharness

go 1.24

require (
	github.com/juev/hledger-lsp v0.0.0
	github.com/segmentio/encoding v0.3.4
	github.com/shopspring/decimal v1.4.0
	go.lsp.dev/jsonrpc2 v0.10.0
	go.lsp.dev/protocol v0.12.0
	go.lsp.dev/uri v0.3.0
)

require (
	github.com/bmatcuk/doublestar/v4 v4.9.2 // indirect
	github.com/segmentio/asm v1.1.3 // indirect
	go.lsp.dev/pkg v0.0.0-20210717090340-384b27a52fb2 // indirect
	go.uber.org/atomic v1.9.0 // indirect
	go.uber.org/multierr v1.8.0 // indirect
	go.uber.org/zap v1.21.0 // indirect
	golang.org/x/sys v0.1.0 // indirect
)

replace github.com/juev/hledger-lsp => /repo
