package main

// C10 / C11: include resolution.  Real files in a temp dir, the real include.Loader.
//
// A case is a small universe of paths f0..f(N-1) in up to two directories; some exist, some
// dangle.  Each file's content realises a list of include directives (plain paths in several
// spellings, or glob patterns), carries a version marker (the description of its only
// transaction), optionally a parse error and padding beyond the size limit.  For the model the
// harness describes every file abstractly: size, version, for each directive its text, its
// range *computed from the text that was written* (and cross-checked against the parser) and
// what it should resolve to (node id / candidates of the glob), plus the parser's error
// positions.  The path layer (ResolvePathSafe, doublestar, filepath) is thereby exercised
// on real directories and mapped to node ids here; the model starts from node ids.

import (
	"fmt"
	"os"
	"path/filepath"
	"sort"
	"strings"

	"github.com/juev/hledger-lsp/internal/include"
	"github.com/juev/hledger-lsp/internal/parser"
)

func init() {
	register("C10", genC10)
	replayers["c10.ws"] = func(c *Ctx, m map[string]any) map[string]any {
		return c12MembersOnly(c12Run(c, c12Texts(m["files"]), c12Texts(m["ups"])))
	}
	register("C11", genC11)
	replayers["c10.hist"] = replayLoader
	replayers["c11.hist"] = replayLoader
}

// ---------------------------------------------------------------- universe

const lRootLen = 56 // every case directory has a path of exactly this length (offsets and sizes are reproducible on replay)

type lEdge struct {
	Glob bool
	Form int // path spelling (plain) or pattern kind (glob)
	To   int
}

type lSpec struct {
	Ver   int
	Edges []lEdge
	Big   bool
	Bad   int // 0 none, 1 garbage line at the end, 2 "include" without a path after the first directive
	Pre   int // leading comment lines
}

type lWorld struct {
	c     *Ctx
	root  string
	n     int      // size of the universe
	dirs  []string // "" or "sub"
	lim   include.Limits
	seq   int
	paths map[string]int
}

var lCaseSeq int

func lCaseDir(c *Ctx) string {
	base := c.Tmp
	if base == "" || len(base) > lRootLen-12 {
		// no scratch directory given, or its path is too long for the fixed-length layout
		d, err := os.MkdirTemp("/tmp", "hlc10-")
		if err != nil {
			panic(err)
		}
		base = d
		c.Tmp = d
	}
	lCaseSeq++
	s := fmt.Sprintf("%s/l%d", base, lCaseSeq)
	if len(s)+2 > lRootLen {
		panic("scratch directory path too long: " + base)
	}
	s += "/" + strings.Repeat("x", lRootLen-len(s)-1)
	return s
}

func newLWorld(c *Ctx, n int, dirs []string, lim include.Limits) *lWorld {
	w := &lWorld{c: c, root: lCaseDir(c), n: n, dirs: dirs, lim: lim, paths: map[string]int{}}
	if err := os.MkdirAll(filepath.Join(w.root, "sub"), 0o755); err != nil {
		panic(err)
	}
	_ = os.WriteFile(filepath.Join(w.root, "notes.txt"), []byte("not a journal\n"), 0o644)
	for i := 0; i < n; i++ {
		w.paths[w.abs(i)] = i
	}
	os.Setenv("HOME", w.root)
	return w
}

func (w *lWorld) done() { os.RemoveAll(filepath.Dir(w.root)) }

func (w *lWorld) name(i int) string { return fmt.Sprintf("f%d.journal", i) }
func (w *lWorld) rel(i int) string {
	if w.dirs[i] == "" {
		return w.name(i)
	}
	return w.dirs[i] + "/" + w.name(i)
}
func (w *lWorld) abs(i int) string { return w.root + "/" + w.rel(i) }

const lNForms = 6
const lNPats = 11

// spelling of a plain include of v written in u
func (w *lWorld) plain(u, v, form int) (raw string, traversal bool) {
	du, dv := w.dirs[u], w.dirs[v]
	up := ""
	if du != "" {
		up = "../"
	}
	relp := w.name(v)
	switch {
	case du == dv:
	case du == "":
		relp = dv + "/" + relp
	default:
		relp = "../" + relp
	}
	switch form {
	case 0:
		return relp, false
	case 1:
		return "./" + relp, false
	case 2:
		return w.abs(v), false
	case 3:
		return "~/" + w.rel(v), false
	case 4:
		return up + "sub/../" + w.rel(v), false
	default:
		return "../../../../../../" + w.name(v), true
	}
}

// glob pattern written in u and the ids whose names it can match
func (w *lWorld) pattern(u, kind int) (raw string, cands []int, bad bool) {
	du := w.dirs[u]
	in := func(d string) []int {
		var r []int
		for i := 0; i < w.n; i++ {
			if w.dirs[i] == d {
				r = append(r, i)
			}
		}
		return r
	}
	other := "sub"
	if du == "sub" {
		other = ""
	}
	switch kind {
	case 0:
		return "*.journal", in(du), false
	case 1:
		if du == "" {
			return "sub/*.journal", in("sub"), false
		}
		return "../*.journal", in(""), false
	case 2:
		if du == "" {
			return "<->/*.journal", append(in(""), in("sub")...), false
		}
		return "<->/*.journal", in("sub"), false
	case 3:
		return "f?.journal", in(du), false
	case 4:
		var r []int
		for _, i := range in(du) {
			if i <= 1 {
				r = append(r, i)
			}
		}
		return "f[0-1].journal", r, false
	case 5:
		return "nomatch*.journal", nil, false
	case 6:
		return "f[.journal", nil, true
	case 7:
		return w.root + "/*.journal", in(""), false
	case 8:
		return "~/*.journal", nil, false
	case 9:
		return "./*.journal", in(du), false
	default:
		_ = other
		return "<->/f" + fmt.Sprint(u) + ".journal", []int{u}, false
	}
}

type lFileJ = map[string]any

func lPosJ(p parser.Position) []int { return []int{p.Line, p.Column, p.Offset} }

// render builds the text of file u from its spec and the model's description of it.
func (w *lWorld) render(u int, s lSpec) (string, lFileJ) {
	var b strings.Builder
	line := 1
	for i := 0; i < s.Pre; i++ {
		fmt.Fprintf(&b, "; header %d\n", i)
		line++
	}
	var incs []any
	type exp struct {
		raw string
		r   []int
	}
	var exps []exp
	for k, e := range s.Edges {
		var raw string
		inc := map[string]any{}
		if e.Glob {
			r, cands, bad := w.pattern(u, e.Form)
			raw = r
			if bad {
				inc["t"] = "globbad"
			} else {
				sort.Slice(cands, func(i, j int) bool { return w.abs(cands[i]) < w.abs(cands[j]) })
				if cands == nil {
					cands = []int{}
				}
				inc["t"] = "glob"
				inc["ms"] = cands
			}
		} else {
			r, trav := w.plain(u, e.To, e.Form)
			raw = r
			if trav {
				inc["t"] = "trav"
			} else {
				inc["t"] = "file"
				inc["p"] = e.To
			}
		}
		text := "include " + raw
		off := b.Len()
		rng := []int{line, 1, off, line, 1 + len(text), off + len(text)}
		b.WriteString(text + "\n")
		line++
		inc["raw"] = strings.ReplaceAll(raw, w.root, "${R}")
		inc["r"] = rng
		incs = append(incs, inc)
		exps = append(exps, exp{raw, rng})
		if k == 0 && s.Bad == 2 {
			b.WriteString("include \n")
			line++
		}
	}
	fmt.Fprintf(&b, "\n2024-01-01 v%d\n    expenses:a  $1.00\n    assets:b\n", s.Ver)
	if s.Bad == 1 {
		b.WriteString("\n2024-01-02 broken\n    expenses:a  $1.00 2 3 oops oops\n")
	}
	if s.Big {
		for b.Len() <= int(w.lim.MaxFileSizeBytes) {
			b.WriteString("; padding padding padding padding padding padding\n")
		}
	}
	text := b.String()
	j, perrs := hxParse(text)
	if len(j.Includes) != len(exps) {
		panic(fmt.Sprintf("harness: %d includes parsed, %d written:\n%s", len(j.Includes), len(exps), text))
	}
	for i, inc := range j.Includes {
		got := []int{inc.Range.Start.Line, inc.Range.Start.Column, inc.Range.Start.Offset, inc.Range.End.Line, inc.Range.End.Column, inc.Range.End.Offset}
		if inc.Path != exps[i].raw || fmt.Sprint(got) != fmt.Sprint(exps[i].r) {
			panic(fmt.Sprintf("harness: include %d parsed as %q %v, written as %q %v", i, inc.Path, got, exps[i].raw, exps[i].r))
		}
	}
	pe := []any{}
	for _, e := range perrs {
		pe = append(pe, lPosJ(e.Pos))
	}
	if incs == nil {
		incs = []any{}
	}
	return text, lFileJ{"size": len(text), "ver": s.Ver, "incs": incs, "perrs": pe,
		"text": strings.ReplaceAll(text, w.root, "${R}")}
}

func (w *lWorld) write(u int, text *string) {
	p := w.abs(u)
	if text == nil {
		os.Remove(p)
		return
	}
	if err := os.WriteFile(p, []byte(*text), 0o644); err != nil {
		panic(err)
	}
}

// writeKeepTime rewrites a file and gives it back the modification time it had (cp -p, rsync -t,
// a restore from backup, file systems with coarse clocks): the new content is what counts.
func (w *lWorld) writeKeepTime(u int, text *string) {
	st, err := os.Stat(w.abs(u))
	w.write(u, text)
	if err == nil && text != nil {
		_ = os.Chtimes(w.abs(u), st.ModTime(), st.ModTime())
	}
}

// ---------------------------------------------------------------- implementation side

func (w *lWorld) id(p string) any {
	if i, ok := w.paths[p]; ok {
		return i
	}
	return strings.ReplaceAll(p, w.root, "${R}")
}

func (w *lWorld) errJ(e include.LoadError) map[string]any {
	k := "?"
	var base any
	raw := false
	switch e.Kind {
	case include.ErrorFileNotFound:
		switch {
		case strings.HasPrefix(e.Message, "no files match pattern"):
			k, raw = "globnomatch", true
		case strings.HasPrefix(e.Message, "invalid glob pattern"):
			k, raw = "globbad", true
		default:
			k = "notfound"
		}
	case include.ErrorCycleDetected:
		if strings.HasPrefix(e.Message, "include depth limit exceeded") {
			k = "depth"
		} else {
			k = "cycle"
			rest := strings.TrimPrefix(e.Message, "cycle detected: ")
			if i := strings.Index(rest, " includes "); i >= 0 {
				base = w.id(rest[:i])
			}
		}
	case include.ErrorParseError:
		k = "parse"
	case include.ErrorFileTooLarge:
		k = "toolarge"
	case include.ErrorPathTraversal:
		k, raw = "traversal", true
	case include.ErrorReadError:
		k = "read"
	}
	var p any
	if raw {
		p = strings.ReplaceAll(e.Path, w.root, "${R}")
	} else {
		p = w.id(e.Path)
	}
	r := e.Range
	return map[string]any{"k": k, "p": p, "b": base,
		"r": []int{r.Start.Line, r.Start.Column, r.Start.Offset, r.End.Line, r.End.Column, r.End.Offset}}
}

func (w *lWorld) resJ(res *include.ResolvedJournal, errs []include.LoadError) map[string]any {
	ej := []any{}
	for _, e := range errs {
		ej = append(ej, w.errJ(e))
	}
	if res == nil {
		return map[string]any{"nil": true, "errs": ej}
	}
	ver := func(desc string) int {
		v := -1
		fmt.Sscanf(desc, "v%d", &v)
		return v
	}
	pv := -1
	if res.Primary != nil && len(res.Primary.Transactions) > 0 {
		pv = ver(res.Primary.Transactions[0].Description)
	}
	order := []any{}
	for _, p := range res.FileOrder {
		if i, ok := w.paths[p]; ok {
			order = append(order, i)
		} else {
			w.c.Count("unknown-path")
			order = append(order, 99)
		}
	}
	var keys []string
	for p := range res.Files {
		keys = append(keys, p)
	}
	sort.Slice(keys, func(i, j int) bool {
		a, aok := w.paths[keys[i]]
		b, bok := w.paths[keys[j]]
		if aok && bok {
			return a < b
		}
		return keys[i] < keys[j]
	})
	files := []any{}
	for _, p := range keys {
		j := res.Files[p]
		v := -1
		if j != nil && len(j.Transactions) > 0 {
			v = ver(j.Transactions[0].Description)
		}
		i, ok := w.paths[p]
		if !ok {
			i = 99
		}
		files = append(files, []int{i, v})
	}
	return map[string]any{"nil": false, "primary": pv, "order": order, "files": files, "errs": ej}
}

func (w *lWorld) newLoader() *include.Loader {
	l := include.NewLoader()
	l.SetLimits(w.lim)
	return l
}

// runOps executes a history on one shared loader and, at every load step, on a new loader too.
// texts[i] is the content currently on disk (nil: missing).
func (w *lWorld) runOps(texts []*string, ops []map[string]any) (impl, fresh []any) {
	for i := 0; i < w.n; i++ {
		w.write(i, texts[i])
	}
	l := w.newLoader()
	subst := func(f any) *string {
		m, ok := f.(map[string]any)
		if !ok || m == nil {
			return nil
		}
		t, _ := m["text"].(string)
		t = strings.ReplaceAll(t, "${R}", w.root)
		return &t
	}
	num := func(v any) int {
		switch x := v.(type) {
		case int:
			return x
		case float64:
			return int(x)
		}
		return 0
	}
	for _, op := range ops {
		switch op["k"] {
		case "load":
			p := w.abs(num(op["root"]))
			r, e := l.Load(p)
			impl = append(impl, w.resJ(r, e))
			r, e = w.newLoader().Load(p)
			fresh = append(fresh, w.resJ(r, e))
		case "content":
			p := w.abs(num(op["root"]))
			t := subst(op["file"])
			r, e := l.LoadFromContent(p, *t)
			impl = append(impl, w.resJ(r, e))
			r, e = w.newLoader().LoadFromContent(p, *t)
			fresh = append(fresh, w.resJ(r, e))
		case "edit":
			u := num(op["p"])
			if keep, _ := op["keep"].(bool); keep {
				w.writeKeepTime(u, subst(op["file"]))
			} else {
				w.write(u, subst(op["file"]))
			}
			l.InvalidateFile(w.abs(u))
			impl, fresh = append(impl, nil), append(fresh, nil)
		case "silent":
			u := num(op["p"])
			w.write(u, subst(op["file"]))
			impl, fresh = append(impl, nil), append(fresh, nil)
		case "clear":
			l.ClearCache()
			impl, fresh = append(impl, nil), append(fresh, nil)
		}
	}
	return
}

// ---------------------------------------------------------------- which repairs does the tree have?

var lModeCache map[string]any

func loaderMode(c *Ctx) map[string]any {
	if lModeCache != nil {
		return lModeCache
	}
	mk := func(n int, edges [][]int) (*lWorld, []*string) {
		w := newLWorld(c, n, make([]string, n), include.Limits{MaxFileSizeBytes: 1 << 20, MaxIncludeDepth: 50})
		texts := make([]*string, n)
		for u := 0; u < n; u++ {
			s := lSpec{Ver: u}
			for _, v := range edges[u] {
				s.Edges = append(s.Edges, lEdge{To: v})
			}
			t, _ := w.render(u, s)
			texts[u] = &t
			w.write(u, texts[u])
		}
		return w, texts
	}
	// diamond
	w, _ := mk(4, [][]int{{1, 2}, {3}, {3}, {}})
	_, e := w.newLoader().Load(w.abs(0))
	stack := len(e) == 0 // (the probe files parse without errors)
	w.done()
	// three siblings under depth limit 2
	w, _ = mk(4, [][]int{{1, 2, 3}, {}, {}, {}})
	w.lim.MaxIncludeDepth = 2
	_, e = w.newLoader().Load(w.abs(0))
	depth := len(e) == 0
	w.done()
	// chain loaded twice
	w, _ = mk(3, [][]int{{1}, {2}, {}})
	l := w.newLoader()
	l.Load(w.abs(0))
	r, _ := l.Load(w.abs(0))
	descend := r != nil && len(r.FileOrder) == 2
	w.done()
	lModeCache = map[string]any{"stack": stack, "depth": depth, "descend": descend}
	c.Count(fmt.Sprintf("mode.stack=%v,depth=%v,descend=%v", stack, depth, descend))
	return lModeCache
}

// ---------------------------------------------------------------- cases

func (w *lWorld) emit(op string, files []any, texts []*string, ops []map[string]any) {
	impl, fresh := w.runOps(texts, ops)
	names := make([]string, w.n)
	for i := range names {
		names[i] = w.rel(i)
	}
	opsJ := make([]any, len(ops))
	for i, o := range ops {
		opsJ[i] = o
	}
	w.c.Emit(op, map[string]any{
		"mode":  loaderMode(w.c),
		"lim":   map[string]any{"size": int(w.lim.MaxFileSizeBytes), "depth": w.lim.MaxIncludeDepth},
		"names": names, "files": files, "ops": opsJ, "impl": impl, "fresh": fresh,
	})
	for _, r := range impl {
		m, ok := r.(map[string]any)
		if !ok {
			continue
		}
		if m["nil"] == true {
			w.c.Count("load.nil")
		}
		for _, e := range m["errs"].([]any) {
			w.c.Count("err." + e.(map[string]any)["k"].(string))
		}
	}
}

func replayLoader(c *Ctx, m map[string]any) map[string]any {
	names, _ := m["names"].([]any)
	n := len(names)
	dirs := make([]string, n)
	for i, x := range names {
		s, _ := x.(string)
		if strings.HasPrefix(s, "sub/") {
			dirs[i] = "sub"
		}
	}
	lj, _ := m["lim"].(map[string]any)
	lim := include.Limits{MaxFileSizeBytes: int64(lj["size"].(float64)), MaxIncludeDepth: int(lj["depth"].(float64))}
	w := newLWorld(c, n, dirs, lim)
	defer w.done()
	files, _ := m["files"].([]any)
	texts := make([]*string, n)
	for i := 0; i < n && i < len(files); i++ {
		if fm, ok := files[i].(map[string]any); ok && fm != nil {
			t, _ := fm["text"].(string)
			t = strings.ReplaceAll(t, "${R}", w.root)
			texts[i] = &t
		}
	}
	opsA, _ := m["ops"].([]any)
	var ops []map[string]any
	for _, o := range opsA {
		ops = append(ops, o.(map[string]any))
	}
	impl, fresh := w.runOps(texts, ops)
	return map[string]any{"mode": loaderMode(c), "lim": m["lim"], "names": m["names"], "files": m["files"],
		"ops": m["ops"], "impl": impl, "fresh": fresh}
}

// graphCase: n existing files realising the adjacency matrix `bits` (row-major), `dangling`
// extra paths that do not exist; everything else chosen by `opt`.
type lOpt struct {
	forms    bool // vary the spelling of paths
	twoDirs  bool
	depth    int
	small    bool // size limit that some files exceed
	bigMask  int
	badMask  int
	shuffle  bool
	dangling int
	extra    func(w *lWorld, specs []lSpec)
}

func (c *Ctx) lGraph(n int, bits uint, o lOpt) (*lWorld, []lSpec) {
	r := c.R
	N := n + o.dangling
	dirs := make([]string, N)
	if o.twoDirs {
		for i := range dirs {
			if r.IntN(2) == 0 {
				dirs[i] = "sub"
			}
		}
	}
	lim := include.Limits{MaxFileSizeBytes: 1 << 20, MaxIncludeDepth: 50}
	if o.depth > 0 {
		lim.MaxIncludeDepth = o.depth
	}
	if o.small {
		lim.MaxFileSizeBytes = 400
	}
	w := newLWorld(c, N, dirs, lim)
	specs := make([]lSpec, n)
	for u := 0; u < n; u++ {
		s := lSpec{Ver: u, Big: o.bigMask>>u&1 == 1, Pre: 0}
		if o.badMask>>u&1 == 1 {
			s.Bad = 1 + r.IntN(2)
		}
		if o.forms {
			s.Pre = r.IntN(3)
		}
		for v := 0; v < n; v++ {
			if bits>>(uint(u*n+v))&1 == 1 {
				e := lEdge{To: v}
				if o.forms {
					e.Form = r.IntN(lNForms - 1)
				}
				s.Edges = append(s.Edges, e)
			}
		}
		if o.shuffle {
			r.Shuffle(len(s.Edges), func(i, j int) { s.Edges[i], s.Edges[j] = s.Edges[j], s.Edges[i] })
		}
		specs[u] = s
	}
	if o.extra != nil {
		o.extra(w, specs)
	}
	return w, specs
}

func (w *lWorld) initial(specs []lSpec) ([]any, []*string) {
	files := make([]any, w.n)
	texts := make([]*string, w.n)
	for u := range specs {
		t, fj := w.render(u, specs[u])
		tt := t
		texts[u] = &tt
		files[u] = fj
	}
	return files, texts
}

func (c *Ctx) lOne(n int, bits uint, o lOpt, root int) {
	w, specs := c.lGraph(n, bits, o)
	defer w.done()
	files, texts := w.initial(specs)
	w.emit("c10.hist", files, texts, []map[string]any{{"k": "load", "root": root}})
}

// plain graph on n files given as adjacency lists (directive order = list order)
func (c *Ctx) lAdj(op string, adj [][]int, depth int, ops []map[string]any) {
	n := len(adj)
	lim := include.Limits{MaxFileSizeBytes: 1 << 20, MaxIncludeDepth: 50}
	if depth > 0 {
		lim.MaxIncludeDepth = depth
	}
	w := newLWorld(c, n, make([]string, n), lim)
	defer w.done()
	specs := make([]lSpec, n)
	for u := range adj {
		specs[u] = lSpec{Ver: u}
		for _, v := range adj[u] {
			specs[u].Edges = append(specs[u].Edges, lEdge{To: v})
		}
	}
	files, texts := w.initial(specs)
	w.emit(op, files, texts, ops)
}

// the inputs of DESIGN section 8 rows 8, 9, 10, 21 (also kept in replays/C10, replays/C11)
func lWitnesses10(c *Ctx) {
	load0 := []map[string]any{{"k": "load", "root": 0}}
	c.lAdj("c10.hist", [][]int{{1, 2}, {3}, {3}, {}}, 0, load0)  // diamond
	c.lAdj("c10.hist", [][]int{{1, 2, 3}, {}, {}, {}}, 2, load0) // three siblings, depth limit 2
	c.lAdj("c10.hist", [][]int{{1, 1}, {}}, 0, load0)            // the same directive twice
}

func lWitnesses11(c *Ctx) {
	twice := []map[string]any{{"k": "load", "root": 0}, {"k": "load", "root": 0}}
	c.lAdj("c11.hist", [][]int{{1}, {2}, {3}, {}}, 0, twice) // chain, second load
	c.lAdj("c11.hist", [][]int{{1, 1}, {}}, 0, twice)        // duplicate directive, warm cache
}

func genC10(c *Ctx) {
	r := c.R
	loaderMode(c)
	lWitnesses10(c)
	// 0. the other resolver: a workspace keeps its resolved include tree up to date across
	//    edits; after every update it must hold exactly the files reachable from the root
	//    (op c10.ws: the member/order projection of the update histories of C12)
	genC12Workspaces(c, 4, func(files []c12File, ups []c12File) {
		c.Emit("c10.ws", c12MembersOnly(c12Run(c, files, ups)))
	})
	// 1. every directed graph on 1, 2, 3 files, plain spelling, root f0
	for n := 1; n <= 3; n++ {
		for bits := uint(0); bits < 1<<(uint(n*n)); bits++ {
			c.lOne(n, bits, lOpt{}, 0)
			c.Count(fmt.Sprintf("graph.n%d", n))
		}
	}
	// 2. 4-node graphs: all (thorough) or a sample (quick)
	if c.Thorough() {
		for bits := uint(0); bits < 1<<16; bits++ {
			c.lOne(4, bits, lOpt{}, 0)
			c.Count("graph.n4")
		}
	} else {
		for i := 0; i < 2000; i++ {
			c.lOne(4, uint(r.IntN(1<<16)), lOpt{}, 0)
			c.Count("graph.n4")
		}
	}
	// 3. the same shapes with everything else varied: spellings, two directories, directive
	//    order, depth limits 1..5, size limit with oversized files, parse errors, dangling
	//    targets, duplicate directives, globs, LoadFromContent
	for i := 0; i < c.N(1500, 30000); i++ {
		n := 1 + r.IntN(5)
		bits := uint(r.Uint64()) & (1<<(uint(n*n)) - 1)
		if r.IntN(2) == 0 {
			// sparser graphs: deeper traversals
			bits &= uint(r.Uint64())
		}
		o := lOpt{forms: true, twoDirs: r.IntN(2) == 0, shuffle: r.IntN(2) == 0, dangling: r.IntN(3)}
		if r.IntN(2) == 0 {
			o.depth = 1 + r.IntN(5)
			c.Count(fmt.Sprintf("depth.%d", o.depth))
		}
		if r.IntN(4) == 0 {
			o.small = true
			o.bigMask = r.IntN(1 << uint(n))
			c.Count("sizelimit")
		}
		if r.IntN(4) == 0 {
			o.badMask = r.IntN(1 << uint(n))
		}
		o.extra = func(w *lWorld, specs []lSpec) { lExtras(c, w, specs) }
		w, specs := c.lGraph(n, bits, o)
		files, texts := w.initial(specs)
		root := r.IntN(n)
		if r.IntN(12) == 0 {
			root = r.IntN(w.n) // maybe a path that does not exist
		}
		var op map[string]any
		if r.IntN(4) == 0 {
			// unsaved buffer: content differs from what is on disk
			s := lRandSpec(c, w, root, 100+i)
			_, fj := w.render(root, s)
			op = map[string]any{"k": "content", "root": root, "file": fj}
			c.Count("op.content")
		} else {
			op = map[string]any{"k": "load", "root": root}
			c.Count("op.load")
		}
		w.emit("c10.hist", files, texts, []map[string]any{op})
		w.done()
	}
}

// lExtras decorates specs with dangling targets, duplicates, self includes, traversal refusals and globs.
func lExtras(c *Ctx, w *lWorld, specs []lSpec) {
	r := c.R
	n := len(specs)
	for u := range specs {
		k := r.IntN(4)
		for ; k > 1; k-- {
			var e lEdge
			switch x := r.IntN(10); {
			case x < 2 && w.n > n:
				e = lEdge{To: n + r.IntN(w.n-n), Form: r.IntN(lNForms - 1)}
				c.Count("edge.dangling")
			case x < 4 && len(specs[u].Edges) > 0:
				e = specs[u].Edges[r.IntN(len(specs[u].Edges))]
				e.Form = r.IntN(lNForms - 1)
				c.Count("edge.duplicate")
			case x < 5:
				e = lEdge{To: u, Form: r.IntN(lNForms - 1)}
				c.Count("edge.self")
			case x < 6:
				e = lEdge{To: r.IntN(w.n), Form: lNForms - 1}
				c.Count("edge.traversal")
			default:
				e = lEdge{Glob: true, Form: r.IntN(lNPats)}
				c.Count(fmt.Sprintf("edge.glob%d", e.Form))
			}
			at := r.IntN(len(specs[u].Edges) + 1)
			es := append([]lEdge{}, specs[u].Edges[:at]...)
			es = append(es, e)
			specs[u].Edges = append(es, specs[u].Edges[at:]...)
		}
	}
}

func lRandSpec(c *Ctx, w *lWorld, u int, ver int) lSpec {
	r := c.R
	s := lSpec{Ver: ver, Pre: r.IntN(2)}
	for k := r.IntN(4); k > 0; k-- {
		if r.IntN(6) == 0 {
			s.Edges = append(s.Edges, lEdge{Glob: true, Form: r.IntN(lNPats)})
		} else {
			s.Edges = append(s.Edges, lEdge{To: r.IntN(w.n), Form: r.IntN(lNForms - 1)})
		}
	}
	if r.IntN(8) == 0 {
		s.Bad = 1 + r.IntN(2)
	}
	if r.IntN(10) == 0 {
		s.Big = true
	}
	return s
}

// ---------------------------------------------------------------- C11: histories on one loader

func genC11(c *Ctx) {
	r := c.R
	loaderMode(c)
	lWitnesses11(c)
	maxLen := c.N(4, 6)
	hist := func(n int, bits uint, o lOpt, i int) {
		w, specs := c.lGraph(n, bits, o)
		defer w.done()
		files, texts := w.initial(specs)
		exists := make([]bool, w.n)
		for u := 0; u < n; u++ {
			exists[u] = true
		}
		var ops []map[string]any
		hl := 2 + r.IntN(maxLen-1)
		ver := 10
		silent := r.IntN(25) == 0
		for k := 0; k < hl; k++ {
			ver++
			switch x := r.IntN(20); {
			case x < 9 || k == hl-1:
				root := r.IntN(n)
				if r.IntN(15) == 0 {
					root = r.IntN(w.n)
				}
				ops = append(ops, map[string]any{"k": "load", "root": root})
				c.Count("op.load")
			case x < 11:
				root := r.IntN(n)
				_, fj := w.render(root, lRandSpec(c, w, root, ver))
				ops = append(ops, map[string]any{"k": "content", "root": root, "file": fj})
				c.Count("op.content")
			case x < 17:
				u := r.IntN(w.n)
				kind := "edit"
				if silent && r.IntN(2) == 0 {
					kind = "silent"
				}
				if exists[u] && r.IntN(5) == 0 {
					ops = append(ops, map[string]any{"k": kind, "p": u, "file": nil})
					exists[u] = false
					c.Count("op." + kind + ".delete")
				} else {
					s := lRandSpec(c, w, u, ver)
					if r.IntN(2) == 0 && u < n {
						// keep the includes, change the content only
						s.Edges = specs[u].Edges
					}
					_, fj := w.render(u, s)
					o := map[string]any{"k": kind, "p": u, "file": fj}
					if kind == "edit" && exists[u] && r.IntN(2) == 0 {
						// same modification time as before (and, with the includes kept and a
						// version number of the same width, the same size): only the content differs
						o["keep"] = true
						c.Count("op.edit.keep-mtime")
					}
					ops = append(ops, o)
					exists[u] = true
					c.Count("op." + kind)
				}
			default:
				ops = append(ops, map[string]any{"k": "clear"})
				c.Count("op.clear")
			}
		}
		c.Count(fmt.Sprintf("hist.len%d", len(ops)))
		w.emit("c11.hist", files, texts, ops)
		_ = i
	}
	// every graph on <= 3 files: load, load again, load from another root
	for n := 1; n <= 3; n++ {
		for bits := uint(0); bits < 1<<(uint(n*n)); bits++ {
			w, specs := c.lGraph(n, bits, lOpt{})
			files, texts := w.initial(specs)
			w.emit("c11.hist", files, texts, []map[string]any{
				{"k": "load", "root": 0}, {"k": "load", "root": 0}, {"k": "load", "root": n - 1}, {"k": "load", "root": 0}})
			w.done()
			c.Count(fmt.Sprintf("graph.n%d", n))
		}
	}
	for i := 0; i < c.N(1800, 70000); i++ {
		n := 2 + r.IntN(3)
		bits := uint(r.Uint64()) & (1<<(uint(n*n)) - 1)
		if r.IntN(3) != 0 {
			bits &= uint(r.Uint64())
		}
		if c.Thorough() && i < 1<<16 {
			n, bits = 4, uint(i)
		}
		o := lOpt{forms: r.IntN(2) == 0, twoDirs: r.IntN(3) == 0, shuffle: r.IntN(2) == 0, dangling: r.IntN(2)}
		if r.IntN(3) == 0 {
			o.depth = 1 + r.IntN(5)
		}
		if r.IntN(5) == 0 {
			o.small = true
			o.bigMask = r.IntN(1 << uint(n))
		}
		if r.IntN(5) == 0 {
			o.badMask = r.IntN(1 << uint(n))
		}
		if r.IntN(3) == 0 {
			o.extra = func(w *lWorld, specs []lSpec) { lExtras(c, w, specs) }
		}
		hist(n, bits, o, i)
	}
}
