package main

// C06, handler part: every feature request on arbitrary content returns without panic and
// within a deadline.  There is no model for this op: the verdict is the oracle
// "no panic, no time-out" applied to the implementation (search, not proof; the lexer and
// parser totality theorems are the proof part).

import (
	"context"
	"encoding/json"
	"fmt"
	"os"
	"path/filepath"
	"runtime/debug"
	"strings"
	"time"

	"go.lsp.dev/protocol"

	"github.com/juev/hledger-lsp/internal/server"
)

func init() {
	replayers["c06.request"] = func(c *Ctx, m map[string]any) map[string]any {
		return c06Request(c, unhx(m["text"].(string)), toIntSlice(m["pos"]))
	}
}

type reqResult struct {
	name    string
	panic   string
	elapsed time.Duration
	timeout bool
}

func guarded(name string, deadline time.Duration, f func()) reqResult {
	done := make(chan string, 1)
	t0 := time.Now()
	go func() {
		defer func() {
			if r := recover(); r != nil {
				done <- fmt.Sprintf("%v\n%s", r, firstLines(string(debug.Stack()), 14))
				return
			}
			done <- ""
		}()
		f()
	}()
	select {
	case p := <-done:
		return reqResult{name: name, panic: p, elapsed: time.Since(t0)}
	case <-time.After(deadline):
		return reqResult{name: name, timeout: true, elapsed: time.Since(t0)}
	}
}

func firstLines(s string, n int) string {
	ls := strings.Split(s, "\n")
	if len(ls) > n {
		ls = ls[:n]
	}
	return strings.Join(ls, "\n")
}

// c06Request opens the document on a fresh server and issues every feature request at the
// given positions (pairs line, character).
func c06Request(c *Ctx, text string, pos []int) map[string]any {
	deadline := 2 * time.Second
	if c.Thorough() {
		deadline = 10 * time.Second
	}
	perByte := time.Duration(len(text)) * 20 * time.Microsecond // generous linear allowance
	deadline += perByte
	srv := server.NewServer()
	cl := newStubClient()
	srv.SetClient(cl)
	ctx := context.Background()
	uri := protocol.DocumentURI("file:///hlverif-c06/doc.journal")
	var results []reqResult
	run := func(name string, f func()) {
		results = append(results, guarded(name, deadline, f))
	}
	run("initialize", func() {
		_, _ = srv.Initialize(ctx, &protocol.InitializeParams{})
	})
	// analysis runs in a goroutine of the server's own; run it under our guard as well by
	// calling the same entry points synchronously
	run("didOpen", func() {
		_ = srv.DidOpen(ctx, &protocol.DidOpenTextDocumentParams{TextDocument: protocol.TextDocumentItem{URI: uri, Text: text}})
		select {
		case <-cl.notify:
		case <-time.After(deadline):
			panic("publishDiagnostics did not arrive before the deadline")
		}
	})
	td := protocol.TextDocumentIdentifier{URI: uri}
	run("documentSymbol", func() { _, _ = srv.DocumentSymbol(ctx, &protocol.DocumentSymbolParams{TextDocument: td}) })
	run("foldingRange", func() { _, _ = srv.FoldingRanges(ctx, &protocol.FoldingRangeParams{TextDocumentPositionParams: protocol.TextDocumentPositionParams{TextDocument: td}}) })
	run("documentLink", func() { _, _ = srv.DocumentLink(ctx, &protocol.DocumentLinkParams{TextDocument: td}) })
	run("formatting", func() { _, _ = srv.Format(ctx, &protocol.DocumentFormattingParams{TextDocument: td}) })
	run("semanticTokens/full", func() { _, _ = srv.SemanticTokensFull(ctx, &protocol.SemanticTokensParams{TextDocument: td}) })
	run("semanticTokens/delta", func() {
		_, _ = srv.SemanticTokensFullDelta(ctx, &protocol.SemanticTokensDeltaParams{TextDocument: td, PreviousResultID: "1"})
	})
	run("workspaceSymbol", func() { _, _ = srv.WorkspaceSymbol(ctx, &protocol.WorkspaceSymbolParams{Query: "a"}) })
	for i := 0; i+1 < len(pos); i += 2 {
		p := protocol.Position{Line: uint32(pos[i]), Character: uint32(pos[i+1])}
		tdp := protocol.TextDocumentPositionParams{TextDocument: td, Position: p}
		tag := fmt.Sprintf("@%d:%d", pos[i], pos[i+1])
		run("completion"+tag, func() { _, _ = srv.Completion(ctx, &protocol.CompletionParams{TextDocumentPositionParams: tdp}) })
		run("hover"+tag, func() { _, _ = srv.Hover(ctx, &protocol.HoverParams{TextDocumentPositionParams: tdp}) })
		run("definition"+tag, func() { _, _ = srv.Definition(ctx, &protocol.DefinitionParams{TextDocumentPositionParams: tdp}) })
		run("references"+tag, func() {
			_, _ = srv.References(ctx, &protocol.ReferenceParams{TextDocumentPositionParams: tdp, Context: protocol.ReferenceContext{IncludeDeclaration: true}})
		})
		run("prepareRename"+tag, func() { _, _ = srv.PrepareRename(ctx, &protocol.PrepareRenameParams{TextDocumentPositionParams: tdp}) })
		run("rename"+tag, func() {
			_, _ = srv.Rename(ctx, &protocol.RenameParams{TextDocumentPositionParams: tdp, NewName: "x:y"})
		})
		run("semanticTokens/range"+tag, func() {
			_, _ = srv.SemanticTokensRange(ctx, &protocol.SemanticTokensRangeParams{TextDocument: td, Range: protocol.Range{Start: protocol.Position{Line: 0}, End: p}})
		})
		run("inlineCompletion"+tag, func() {
			raw, _ := json.Marshal(map[string]any{"textDocument": map[string]any{"uri": string(uri)}, "position": map[string]any{"line": pos[i], "character": pos[i+1]}})
			_, _ = srv.InlineCompletion(ctx, raw)
		})
		run("codeAction"+tag, func() {
			_, _ = srv.CodeAction(ctx, &protocol.CodeActionParams{TextDocument: td, Range: protocol.Range{Start: p, End: p}})
		})
	}
	run("didChange", func() {
		_ = srv.DidChange(ctx, &protocol.DidChangeTextDocumentParams{
			TextDocument:   protocol.VersionedTextDocumentIdentifier{TextDocumentIdentifier: td},
			ContentChanges: []protocol.TextDocumentContentChangeEvent{{Range: protocol.Range{Start: protocol.Position{Line: 0, Character: 1}, End: protocol.Position{Line: 0, Character: 2}}, Text: "x"}}})
	})
	run("didClose", func() { _ = srv.DidClose(ctx, &protocol.DidCloseTextDocumentParams{TextDocument: td}) })

	panics, timeouts := []string{}, []string{}
	var worst time.Duration
	for _, r := range results {
		if r.panic != "" {
			panics = append(panics, r.name+": "+firstLines(r.panic, 6))
		}
		if r.timeout {
			timeouts = append(timeouts, r.name)
		}
		if r.elapsed > worst {
			worst = r.elapsed
		}
	}
	c.Count("requests")
	return map[string]any{"text": hx(text), "pos": pos, "len": len(text),
		"impl": J{"panic": len(panics) > 0, "timeout": len(timeouts) > 0},
		"detail": J{"panics": panics, "timeouts": timeouts, "worst_ms": worst.Milliseconds(), "requests": len(results)}}
}

// c06Isolated runs c06Request in the worker process, so that a panic in one of the server's
// own goroutines (which would take a real server down) is observed instead of killing the run.
func c06Isolated(c *Ctx, text string, pos []int) map[string]any {
	limit := 40 * time.Second
	if c.Thorough() {
		limit = 150 * time.Second
	}
	out, crashed, hung, stderr := isolated(c, "c06.request", map[string]any{"text": hx(text), "pos": pos}, limit)
	if crashed || hung {
		c.Count("crashed-or-hung")
		return map[string]any{"text": hx(text), "pos": pos, "len": len(text),
			"impl":   J{"panic": crashed, "timeout": hung},
			"detail": J{"panics": []string{"server process died: " + stderr}, "timeouts": []string{}, "worst_ms": 0, "requests": 0}}
	}
	c.Count("requests")
	return out
}

func somePositions(c *Ctx, text string, n int) []int {
	lines := strings.Split(text, "\n")
	var out []int
	for i := 0; i < n; i++ {
		l := c.R.IntN(len(lines) + 1)
		ch := 0
		if l < len(lines) {
			ch = c.R.IntN(len(lines[l]) + 2)
		}
		switch c.R.IntN(8) {
		case 0:
			ch = 0
		case 1:
			ch = 1 << 20
		case 2:
			l = 1 << 20
		}
		out = append(out, l, ch)
	}
	return out
}

func seedCorpus() []string {
	var out []string
	for _, dir := range []string{"/repo/testdata/valid", "/repo/testdata/invalid", "/repo/testdata"} {
		_ = filepath.Walk(dir, func(p string, info os.FileInfo, err error) error {
			if err == nil && !info.IsDir() && info.Size() < 1<<16 {
				if b, e := os.ReadFile(p); e == nil {
					out = append(out, string(b))
				}
			}
			return nil
		})
	}
	return out
}

func mutateBytes(c *Ctx, s string) string {
	b := []byte(s)
	r := c.R
	for n := 1 + r.IntN(6); n > 0; n-- {
		if len(b) == 0 {
			b = append(b, byte(r.IntN(256)))
			continue
		}
		p := r.IntN(len(b))
		switch r.IntN(6) {
		case 0:
			b[p] = byte(r.IntN(256))
		case 1:
			b = append(b[:p], b[p+1:]...)
		case 2:
			ins := []byte(pick(r, []string{"\"", "(", ")", "[", "]", "@", "@@", "=", "==", ";", "|", ":", "  ", "\t", "\n", "\r\n", "-", "+", "E9", "e-9", "\x00", "\xff", "\xf0\x9f", "😀", "1E999999", "$", "€", "*", "!", "~", "Y ", "P ", "D ", "include ", "commodity ", "account "}))
			b = append(b[:p], append(ins, b[p:]...)...)
		case 3:
			q := r.IntN(len(b))
			if p > q {
				p, q = q, p
			}
			b = append(b[:p], b[q:]...)
		case 4:
			q := r.IntN(len(b))
			if p > q {
				p, q = q, p
			}
			chunk := append([]byte{}, b[p:q]...)
			b = append(b[:q], append(chunk, b[q:]...)...)
		default:
			b[p] ^= byte(1 << r.IntN(8))
		}
		if len(b) > 1<<16 {
			b = b[:1<<16]
		}
	}
	return string(b)
}

// adversarial shapes the cost model flags (DESIGN 7.C06), each at a given size.
func scalingFamily(kind string, n int) string {
	switch kind {
	case "upper-words":
		return "2024-01-01 x\n    a:b  " + strings.Repeat("A ", n/2) + "\n"
	case "spaces":
		return "2024-01-01 x\n    a:b" + strings.Repeat(" ", n) + "1\n"
	case "digits":
		return "2024-01-01 x\n    a:b  " + strings.Repeat("9", n) + " USD\n"
	case "colons":
		return strings.Repeat("a:", n/2) + "\n"
	case "postings":
		return "2024-01-01 x\n" + strings.Repeat("    a:b  1 USD\n", n/15)
	case "quotes":
		return "2024-01-01 x\n    a:b  " + strings.Repeat("\"", n) + "\n"
	case "parens":
		return "2024-01-01 " + strings.Repeat("(", n) + "\n"
	case "tags":
		return "2024-01-01 x ; " + strings.Repeat("a:b, ", n/5) + "\n"
	case "transactions":
		return strings.Repeat("2024-01-01 x\n    a:b  1 USD\n    c:d\n\n", n/36)
	}
	return ""
}

// typedPrefix cuts one line of a journal where somebody is still typing it (the rest of the
// line is not there yet; the lines below may or may not be), optionally damages the typed part
// at byte level (lone lead bytes, lone continuation bytes, truncated sequences, NUL), and
// returns the text with the cursor positions around the end of that line: every feature that
// looks at "the text before the cursor" is asked exactly there.
func typedPrefix(c *Ctx) (string, []int) {
	r := c.R
	lines := strings.Split(genJournal(r, GOpts{MaxEntries: 3, Deny: map[string]bool{"crlf": true}}).Text, "\n")
	var cand []int
	for i, l := range lines {
		if l != "" {
			cand = append(cand, i)
		}
	}
	if len(cand) == 0 {
		return "2024-01-01 ", []int{0, 11}
	}
	li := cand[r.IntN(len(cand))]
	line := []rune(lines[li])
	k := r.IntN(len(line) + 1)
	if r.IntN(3) == 0 {
		k = len(line)
	}
	typed := string(line[:k])
	switch r.IntN(6) {
	case 0:
		typed += " "
	case 1:
		typed += pick(r, []string{" * ", " ! ", "  ", " (", " [", ":", " ; ", " @ ", " = ", " -", "\t"})
	}
	if r.IntN(2) == 0 {
		b := []byte(typed)
		for n := 1 + r.IntN(2); n > 0; n-- {
			bad := []byte(pick(r, []string{"\xff", "\xc3", "\x80", "\xf0\x9f", "\xe2\x82", "\x00", "\xed\xa0\x80", "\xfe", "\xc0\xaf"}))
			p := r.IntN(len(b) + 1)
			b = append(b[:p], append(bad, b[p:]...)...)
		}
		typed = string(b)
		c.Count("typed.invalid-utf8")
	}
	out := append([]string{}, lines[:li]...)
	out = append(out, typed)
	if r.IntN(2) == 0 {
		out = append(out, lines[li+1:]...)
	}
	text := strings.Join(out, "\n")
	// positions around the end of the typed line, in UTF-16 units as a client counts them and in
	// bytes and runes as well (a client of a damaged document may count anything)
	ends := map[int]bool{0: true, utf16Len(typed): true, len(typed): true, len([]rune(typed)): true}
	var pos []int
	for e := range ends {
		for d := -2; d <= 2; d++ {
			if e+d >= 0 {
				pos = append(pos, li, e+d)
			}
		}
	}
	return text, pos
}

func genC06Handlers(c *Ctx) {
	// text before the cursor, as typed: in-process (the handlers run in the calling goroutine,
	// a panic is caught by the guard)
	for i := 0; i < c.N(250, 6000); i++ {
		text, pos := typedPrefix(c)
		c.Count("typed")
		c.Emit("c06.request", c06Request(c, text, pos))
	}
	corpus := seedCorpus()
	for i := 0; i < 40; i++ {
		corpus = append(corpus, genJournal(c.R, GOpts{MaxEntries: 6}).Text)
	}
	corpus = append(corpus, "", "\n", "\xff", "2024-01-01", "2024-01-01 x\n    a:b  1E9 USD\n    c:d\n",
		"2024-01-01 x\n    a:b  1E-9 USD @@ 3E5 EUR\n")
	for i, s := range corpus {
		if i >= c.N(30, len(corpus)) {
			break
		}
		c.Count("corpus")
		c.Emit("c06.request", c06Isolated(c, s, somePositions(c, s, c.N(2, 6))))
	}
	// extreme numbers: every border of the exponent ranges (the parser's own bound, int32, int64)
	// from both sides, as plain amounts, with unit and total costs and in assertions — a quantity
	// that slips past the parser's range test reaches decimal.Mul / Add / Cmp in the diagnostics
	// goroutine, where an overflow is a panic that takes the whole server down.
	extreme := []string{"1E1000", "1E1001", "1E-1000", "1E-1001", "1.5E-1000", "1.5E1001",
		"1E2147483646", "1E2147483647", "1E2147483648", "1E-2147483647", "1E-2147483648", "1E-2147483649",
		"1.0E-2147483647", "1.00E-2147483646", "1.5E-2147483648", "1E4294967296", "1E-4294967296",
		"1E9223372036854775807", "1E-9223372036854775808", "1E-9223372036854775809", "1E99999999999999999999",
		"1E999999999", "1E-999999999", "9999999999999999999", "123456789012345678901234567890", "0E2147483647", "0E-2147483648"}
	for i := 0; i < 2*len(extreme); i++ {
		x := extreme[i/2]
		y := extreme[c.R.IntN(len(extreme))]
		shape := 1 // every extreme quantity once with a unit cost (Mul) ...
		if i%2 == 1 {
			shape = []int{0, 2, 3}[c.R.IntN(3)] // ... and once in another place
			if c.R.IntN(2) == 0 {
				y = "2"
			}
		}
		var s string
		switch shape {
		case 0:
			s = "2024-01-01 x\n    a:b  " + x + " USD\n    c:d\n"
		case 1:
			s = "2024-01-01 x\n    a:b  " + x + " AAA @ " + y + " BBB\n    c:d  1 BBB\n"
		case 2:
			s = "2024-01-01 x\n    a:b  " + x + " AAA @@ " + y + " BBB\n    c:d\n"
		default:
			s = "2024-01-01 x\n    a:b  1 USD = " + x + " USD\n    c:d  " + y + " USD\nP 2024-01-01 USD " + x + " EUR\n"
		}
		c.Count("extreme-number")
		c.Emit("c06.request", c06Isolated(c, s, somePositions(c, s, 2)))
	}
	for i := 0; i < c.N(120, 6000); i++ {
		s := mutateBytes(c, pick(c.R, corpus))
		if c.R.IntN(4) == 0 {
			s = mutateBytes(c, s)
		}
		c.Count("mutated")
		c.Emit("c06.request", c06Isolated(c, s, somePositions(c, s, c.N(2, 4))))
	}
	for i := 0; i < c.N(10, 300); i++ {
		n := 1 + c.R.IntN(c.N(600, 4000))
		b := make([]byte, n)
		for k := range b {
			b[k] = byte(c.R.IntN(256))
		}
		c.Count("random-bytes")
		c.Emit("c06.request", c06Isolated(c, string(b), somePositions(c, string(b), 2)))
	}
	sizes := []int{1 << 10, 1 << 13, 1 << 16}
	if !c.Thorough() {
		sizes = []int{1 << 10, 1 << 14}
	}
	for _, kind := range []string{"upper-words", "spaces", "digits", "colons", "postings", "quotes", "parens", "tags", "transactions"} {
		for _, n := range sizes {
			s := scalingFamily(kind, n)
			c.Count("scaling." + kind)
			c.Emit("c06.request", c06Isolated(c, s, []int{1, 5, 0, 0}))
		}
	}
}
