package main

// Canonical JSON for tokens and syntax trees (mirror of lean/HL/Driver/AstJson.lean).
// Strings are hex-encoded bytes, positions [line, col, off], ranges six numbers.

import (
	"encoding/hex"
	"fmt"
	"sort"

	"github.com/shopspring/decimal"

	"github.com/juev/hledger-lsp/internal/ast"
	"github.com/juev/hledger-lsp/internal/parser"
)

type J = map[string]any

func hx(s string) string { return hex.EncodeToString([]byte(s)) }
func unhx(s string) string {
	b, _ := hex.DecodeString(s)
	return string(b)
}

func posJ(p parser.Position) []int { return []int{p.Line, p.Column, p.Offset} }
func rngJ(r ast.Range) []int {
	return []int{r.Start.Line, r.Start.Column, r.Start.Offset, r.End.Line, r.End.Column, r.End.Offset}
}

func tokJ(t parser.Token) J {
	return J{"ty": int(t.Type), "v": hx(t.Value), "p": posJ(t.Pos), "e": posJ(t.End)}
}

// lexAll returns the real lexer's whole token stream.  A panic inside the lexer is recorded
// as a final pseudo token {"panic": message} (the model never panics: that is a theorem), so
// that the run goes on and the driver reports it.
func lexAll(input string) (out []J) {
	defer func() {
		if r := recover(); r != nil {
			out = append(out, J{"panic": fmt.Sprint(r), "ty": 0, "v": "", "p": []int{0, 0, 0}, "e": []int{0, 0, 0}})
		}
	}()
	l := parser.NewLexer(input)
	for {
		t := l.Next()
		out = append(out, tokJ(t))
		if t.Type == parser.TokenEOF || len(out) > len(input)+2 {
			break
		}
	}
	return out
}

func decJ(d decimal.Decimal) J {
	return J{"c": d.Coefficient().String(), "e": int(d.Exponent())}
}

func tagsJ(ts []ast.Tag) []J {
	out := []J{}
	for _, t := range ts {
		out = append(out, J{"n": hx(t.Name), "v": hx(t.Value), "r": rngJ(t.Range)})
	}
	return out
}

func commentJ(c ast.Comment) J { return J{"t": hx(c.Text), "tags": tagsJ(c.Tags), "r": rngJ(c.Range)} }
func commentsJ(cs []ast.Comment) []J {
	out := []J{}
	for _, c := range cs {
		out = append(out, commentJ(c))
	}
	return out
}
func dateJ(d ast.Date) J      { return J{"y": d.Year, "m": d.Month, "d": d.Day, "r": rngJ(d.Range)} }
func accountJ(a ast.Account) J { return J{"n": hx(a.Name), "r": rngJ(a.Range)} }
func commodityJ(c ast.Commodity) J {
	return J{"s": hx(c.Symbol), "side": int(c.Position), "r": rngJ(c.Range)}
}
func amountJ(a ast.Amount) J {
	return J{"q": decJ(a.Quantity), "raw": hx(a.RawQuantity), "com": commodityJ(a.Commodity),
		"sbc": a.SignBeforeCommodity, "r": rngJ(a.Range)}
}
func postingJ(p ast.Posting) J {
	j := J{"st": int(p.Status), "acc": accountJ(p.Account), "amt": nil, "ba": nil, "cost": nil,
		"cmt": hx(p.Comment), "tags": tagsJ(p.Tags), "virt": int(p.Virtual), "r": rngJ(p.Range)}
	if p.Amount != nil {
		j["amt"] = amountJ(*p.Amount)
	}
	if p.BalanceAssertion != nil {
		b := p.BalanceAssertion
		j["ba"] = J{"a": amountJ(b.Amount), "strict": b.IsStrict, "incl": b.IsInclusive, "r": rngJ(b.Range)}
	}
	if p.Cost != nil {
		j["cost"] = J{"a": amountJ(p.Cost.Amount), "total": p.Cost.IsTotal, "r": rngJ(p.Cost.Range)}
	}
	return j
}
func txJ(t ast.Transaction) J {
	ps := []J{}
	for _, p := range t.Postings {
		ps = append(ps, postingJ(p))
	}
	j := J{"date": dateJ(t.Date), "date2": nil, "st": int(t.Status), "code": hx(t.Code), "desc": hx(t.Description),
		"payee": hx(t.Payee), "note": hx(t.Note), "ps": ps, "tags": tagsJ(t.Tags), "cmts": commentsJ(t.Comments),
		"r": rngJ(t.Range)}
	if t.Date2 != nil {
		j["date2"] = dateJ(*t.Date2)
	}
	return j
}
func subJ(m map[string]string) [][]string {
	keys := make([]string, 0, len(m))
	for k := range m {
		keys = append(keys, hx(k))
	}
	sort.Strings(keys)
	out := [][]string{}
	for _, k := range keys {
		out = append(out, []string{k, hx(m[unhx(k)])})
	}
	return out
}
func directiveJ(d ast.Directive) J {
	switch v := d.(type) {
	case ast.AccountDirective:
		return J{"k": "account", "acc": accountJ(v.Account), "tags": tagsJ(v.Tags), "cmt": hx(v.Comment),
			"sub": subJ(v.Subdirs), "r": rngJ(v.Range)}
	case ast.CommodityDirective:
		return J{"k": "commodity", "com": commodityJ(v.Commodity), "fmt": hx(v.Format), "note": hx(v.Note),
			"sub": subJ(v.Subdirs), "r": rngJ(v.Range)}
	case ast.PriceDirective:
		return J{"k": "price", "date": dateJ(v.Date), "com": commodityJ(v.Commodity), "price": amountJ(v.Price), "r": rngJ(v.Range)}
	case ast.YearDirective:
		return J{"k": "year", "y": v.Year, "r": rngJ(v.Range)}
	case ast.DefaultCommodityDirective:
		return J{"k": "D", "sym": hx(v.Symbol), "fmt": hx(v.Format), "r": rngJ(v.Range)}
	case ast.Include:
		return J{"k": "include", "path": hx(v.Path), "r": rngJ(v.Range)}
	}
	return J{"k": "?"}
}
func journalJ(j *ast.Journal) J {
	txs, dirs, incs := []J{}, []J{}, []J{}
	for _, t := range j.Transactions {
		txs = append(txs, txJ(t))
	}
	for _, d := range j.Directives {
		dirs = append(dirs, directiveJ(d))
	}
	for _, i := range j.Includes {
		incs = append(incs, J{"path": hx(i.Path), "r": rngJ(i.Range)})
	}
	return J{"txs": txs, "dirs": dirs, "cmts": commentsJ(j.Comments), "incs": incs}
}
func perrsJ(es []parser.ParseError) []J {
	out := []J{}
	for _, e := range es {
		out = append(out, J{"m": hx(e.Message), "p": posJ(e.Pos)})
	}
	return out
}
