// Command hx is the Go side of the correspondence check: it generates cases, runs the real
// hledger-lsp code on them in-process and writes one JSON object per line (the case together
// with the implementation's output).  The Lean driver reads the same lines.
package main

import (
	"bufio"
	"encoding/json"
	"flag"
	"fmt"
	"math/rand/v2"
	"os"
	"sort"
)

type Ctx struct {
	Prop  string
	Tier  string
	Seed  uint64
	R     *rand.Rand
	w     *bufio.Writer
	n     int
	Stats map[string]int
	Tmp   string // scratch directory (removed by the caller)
}

func (c *Ctx) Thorough() bool { return c.Tier == "thorough" }

// N picks the budget for the tier.
func (c *Ctx) N(quick, thorough int) int {
	if c.Thorough() {
		return thorough
	}
	return quick
}

func (c *Ctx) Emit(op string, fields map[string]any) {
	c.n++
	fields["op"] = op
	fields["id"] = c.n
	b, err := marshal(fields)
	if err != nil {
		panic(err)
	}
	c.w.Write(b)
	c.w.WriteByte('\n')
}

func (c *Ctx) Count(key string) { c.Stats[key]++ }

func marshal(v any) ([]byte, error) {
	var buf bytesBuf
	enc := json.NewEncoder(&buf)
	enc.SetEscapeHTML(false)
	if err := enc.Encode(v); err != nil {
		return nil, err
	}
	b := buf.b
	if len(b) > 0 && b[len(b)-1] == '\n' {
		b = b[:len(b)-1]
	}
	return b, nil
}

type bytesBuf struct{ b []byte }

func (b *bytesBuf) Write(p []byte) (int, error) { b.b = append(b.b, p...); return len(p), nil }

var props = map[string]func(*Ctx){}

func register(id string, f func(*Ctx)) { props[id] = f }

func main() {
	prop := flag.String("prop", "", "property id")
	tier := flag.String("tier", "quick", "quick|thorough")
	seed := flag.Uint64("seed", 1, "seed")
	out := flag.String("out", "", "output jsonl")
	replay := flag.String("replay", "", "replay file: re-run the implementation on the ops of this jsonl")
	tmp := flag.String("tmp", "", "scratch dir")
	isWorker := flag.Bool("worker", false, "internal: run as isolated worker (see worker.go)")
	flag.Parse()
	if *isWorker {
		runWorker(&Ctx{Prop: *prop, Tier: *tier, Seed: *seed, R: rand.New(rand.NewPCG(*seed, 7)), Stats: map[string]int{}, Tmp: *tmp})
		return
	}
	f, ok := props[*prop]
	if !ok {
		ids := []string{}
		for k := range props {
			ids = append(ids, k)
		}
		sort.Strings(ids)
		fmt.Fprintf(os.Stderr, "unknown property %q; have %v\n", *prop, ids)
		os.Exit(2)
	}
	of, err := os.Create(*out)
	if err != nil {
		fmt.Fprintln(os.Stderr, err)
		os.Exit(2)
	}
	defer of.Close()
	h := uint64(0)
	for _, ch := range *prop {
		h = h*131 + uint64(ch)
	}
	ctx := &Ctx{Prop: *prop, Tier: *tier, Seed: *seed, R: rand.New(rand.NewPCG(*seed, h)),
		w: bufio.NewWriterSize(of, 1<<20), Stats: map[string]int{}, Tmp: *tmp}
	func() {
		defer reportCrash()
		if *replay != "" {
			replayFile(ctx, *replay)
		} else {
			f(ctx)
		}
	}()
	ctx.w.Flush()
	sb, _ := json.Marshal(ctx.Stats)
	fmt.Fprintf(os.Stderr, "STATS %s\n", sb)
}

// replayers re-run the implementation for one recorded op (used for the replay corpus and
// for --replay): they receive the decoded op and return the fields to emit.
var replayers = map[string]func(*Ctx, map[string]any) map[string]any{}

func replayFile(c *Ctx, path string) {
	f, err := os.Open(path)
	if err != nil {
		fmt.Fprintln(os.Stderr, err)
		os.Exit(2)
	}
	defer f.Close()
	sc := bufio.NewScanner(f)
	sc.Buffer(make([]byte, 1<<20), 1<<28)
	for sc.Scan() {
		var m map[string]any
		if err := json.Unmarshal(sc.Bytes(), &m); err != nil {
			continue
		}
		op, _ := m["op"].(string)
		r, ok := replayers[op]
		if !ok {
			continue
		}
		out := r(c, m)
		if out != nil {
			c.Emit(op, out)
		}
	}
}

func sortStrings(xs []string) { sort.Strings(xs) }
