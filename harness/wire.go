package main

// Wire mode: JSON-RPC over stdio against the BUILT hledger-lsp binary (built by ./check with
// -tags verif from /repo's working tree; path in $HX_BINARY).  This is the only place where
// cmd/hledger-lsp/main.go (dispatch, decoding of notifications) is part of the comparison.

import (
	"bufio"
	"encoding/json"
	"fmt"
	"io"
	"os"
	"os/exec"
	"strconv"
	"strings"
	"time"
)

type wireClient struct {
	cmd  *exec.Cmd
	in   io.WriteCloser
	out  *bufio.Reader
	next int
}

func startWire() (*wireClient, error) {
	bin := os.Getenv("HX_BINARY")
	if bin == "" {
		return nil, fmt.Errorf("HX_BINARY not set")
	}
	cmd := exec.Command(bin)
	in, _ := cmd.StdinPipe()
	out, _ := cmd.StdoutPipe()
	cmd.Stderr = io.Discard
	if err := cmd.Start(); err != nil {
		return nil, err
	}
	w := &wireClient{cmd: cmd, in: in, out: bufio.NewReaderSize(out, 1<<20), next: 1}
	if _, err := w.request("initialize", map[string]any{"processId": nil, "rootUri": nil, "capabilities": map[string]any{}}); err != nil {
		return nil, err
	}
	w.notify("initialized", map[string]any{})
	return w, nil
}

func (w *wireClient) send(m map[string]any) {
	m["jsonrpc"] = "2.0"
	b, _ := marshal(m)
	fmt.Fprintf(w.in, "Content-Length: %d\r\n\r\n%s", len(b), b)
}

func (w *wireClient) notify(method string, params any) {
	w.send(map[string]any{"method": method, "params": params})
}

func (w *wireClient) read() (map[string]any, error) {
	n := -1
	for {
		line, err := w.out.ReadString('\n')
		if err != nil {
			return nil, err
		}
		line = strings.TrimSpace(line)
		if line == "" {
			break
		}
		if strings.HasPrefix(strings.ToLower(line), "content-length:") {
			n, _ = strconv.Atoi(strings.TrimSpace(line[len("content-length:"):]))
		}
	}
	if n < 0 {
		return nil, fmt.Errorf("no content length")
	}
	buf := make([]byte, n)
	if _, err := io.ReadFull(w.out, buf); err != nil {
		return nil, err
	}
	var m map[string]any
	if err := json.Unmarshal(buf, &m); err != nil {
		return nil, err
	}
	return m, nil
}

// request sends a request and waits for its response, skipping notifications and answering
// server-to-client requests (workspace/configuration) with null.
func (w *wireClient) request(method string, params any) (any, error) {
	id := w.next
	w.next++
	w.send(map[string]any{"id": id, "method": method, "params": params})
	type res struct {
		v   any
		err error
	}
	ch := make(chan res, 1)
	go func() {
		for {
			m, err := w.read()
			if err != nil {
				ch <- res{nil, err}
				return
			}
			if _, isReq := m["method"]; isReq {
				if rid, has := m["id"]; has { // request from the server
					w.send(map[string]any{"id": rid, "result": nil})
				}
				continue
			}
			if f, ok := m["id"].(float64); ok && int(f) == id {
				if e, bad := m["error"]; bad && e != nil {
					ch <- res{nil, fmt.Errorf("rpc error: %v", e)}
					return
				}
				ch <- res{m["result"], nil}
				return
			}
		}
	}()
	select {
	case r := <-ch:
		return r.v, r.err
	case <-time.After(20 * time.Second):
		return nil, fmt.Errorf("time-out waiting for %s", method)
	}
}

func (w *wireClient) close() {
	w.notify("exit", nil)
	w.in.Close()
	done := make(chan struct{})
	go func() { w.cmd.Wait(); close(done) }()
	select {
	case <-done:
	case <-time.After(2 * time.Second):
		w.cmd.Process.Kill()
	}
}
