package main

import (
	"math/rand/v2"
	"strings"
	"unicode/utf8"
)

var (
	asciiLetters = []rune("abcdefghijklmnopqrstuvwxyzABCDEFGHIJKLMNOPQRSTUVWXYZ")
	asciiDigits  = []rune("0123456789")
	asciiPunct   = []rune(":;,.-+*!()[]@=|\"'$/_&#")
	bmpChars     = []rune("éжя€₽£¥中文ñß")
	nonBmpChars  = []rune{0x1F600, 0x1D11E, 0x10FFFF, 0x10000, 0x1F4B0}
)

func pick[T any](r *rand.Rand, xs []T) T { return xs[r.IntN(len(xs))] }

// genChar draws one character from the C01 alphabet classes (no line breaks).
func genChar(r *rand.Rand) rune {
	switch x := r.IntN(100); {
	case x < 45:
		return pick(r, asciiLetters)
	case x < 55:
		return pick(r, asciiDigits)
	case x < 65:
		return pick(r, asciiPunct)
	case x < 75:
		return ' '
	case x < 78:
		return '\t'
	case x < 90:
		return pick(r, bmpChars)
	default:
		return pick(r, nonBmpChars)
	}
}

func genLine(r *rand.Rand, maxLen int) string {
	n := r.IntN(maxLen + 1)
	var sb strings.Builder
	for i := 0; i < n; i++ {
		sb.WriteRune(genChar(r))
	}
	return sb.String()
}

// genDoc: empty, single line without newline, LF / CRLF (uniform or mixed) line ends.
func genDoc(r *rand.Rand, maxLines, maxLen int) string {
	switch r.IntN(12) {
	case 0:
		return ""
	case 1:
		return genLine(r, maxLen)
	}
	n := 1 + r.IntN(maxLines)
	style := r.IntN(3) // 0 LF, 1 CRLF, 2 mixed
	var sb strings.Builder
	for i := 0; i < n; i++ {
		sb.WriteString(genLine(r, maxLen))
		last := i == n-1
		if last && r.IntN(3) == 0 {
			break // no trailing newline
		}
		crlf := style == 1 || (style == 2 && r.IntN(2) == 0)
		if crlf {
			sb.WriteString("\r\n")
		} else {
			sb.WriteString("\n")
		}
	}
	return sb.String()
}

func genInsert(r *rand.Rand) string {
	switch r.IntN(8) {
	case 0:
		return ""
	case 1:
		return string(genChar(r))
	case 2:
		return "\n"
	case 3:
		return "\r\n"
	case 4:
		return genLine(r, 6) + "\n" + genLine(r, 6)
	case 5:
		return genLine(r, 4) + "\r\n" + genLine(r, 4) + "\r\n"
	default:
		return genLine(r, 10)
	}
}

func utf16Len(s string) int {
	n := 0
	for _, c := range s {
		if c >= 0x10000 {
			n += 2
		} else {
			n++
		}
	}
	return n
}

// lineInfo returns for every "\n"-separated line its content length in UTF-16 units
// (without a trailing CR) and the offsets that fall inside surrogate pairs.
func lineUnits(line string) (n int, inside map[int]bool) {
	line = strings.TrimSuffix(line, "\r")
	inside = map[int]bool{}
	for _, c := range line {
		if c >= 0x10000 {
			inside[n+1] = true
			n += 2
		} else {
			n++
		}
	}
	return
}

// genPos draws an LSP position for doc from the interesting set of 4.1.
// conforming=true never returns a position inside a surrogate pair.
func genPos(r *rand.Rand, doc string, conforming bool) (int, int) {
	lines := strings.Split(doc, "\n")
	var l int
	switch x := r.IntN(20); {
	case x < 2:
		l = 0
	case x < 4:
		l = len(lines) - 1
	case x < 5:
		l = len(lines) // past the last line
	case x < 6:
		l = len(lines) + 1 + r.IntN(5)
	default:
		l = r.IntN(len(lines))
	}
	n := 0
	inside := map[int]bool{}
	if l < len(lines) {
		n, inside = lineUnits(lines[l])
	}
	var c int
	switch x := r.IntN(20); {
	case x < 3:
		c = 0
	case x < 6:
		c = n
	case x < 8:
		c = n + 1
	case x < 9:
		c = n + 2 + r.IntN(100)
	default:
		c = r.IntN(n + 1)
	}
	if conforming && inside[c] {
		c++
	}
	return l, c
}

var _ = utf8.RuneLen
