package main

import (
	"math/rand/v2"
	"sort"
	"strings"

	"github.com/juev/hledger-lsp/internal/ast"
	"github.com/juev/hledger-lsp/internal/parser"
)

func init() {
	register("C07", genC07)
	replayers["c07.damage"] = func(c *Ctx, m map[string]any) map[string]any {
		return c07Case(unhx(m["text"].(string)), unhx(m["damaged"].(string)), toInt(m["first"]), toInt(m["last"]), toInt(m["k"]), m["kind"].(string))
	}
	replayers["c07.tight"] = func(c *Ctx, m map[string]any) map[string]any {
		f := c07Case(unhx(m["text"].(string)), unhx(m["damaged"].(string)), toInt(m["first"]), toInt(m["last"]), toInt(m["k"]), m["kind"].(string))
		f["col1"] = toInt(m["col1"])
		return f
	}
}

func toInt(v any) int { f, _ := v.(float64); return int(f) }

// relJSON re-bases every 6-number range "r" inside v on (line0, off0): lines and offsets
// become relative to the entry's own start, columns stay.
func relJSON(v any, line0, off0 int) any {
	switch x := v.(type) {
	case J:
		out := J{}
		for k, e := range x {
			if k == "r" {
				if r, ok := e.([]int); ok && len(r) == 6 {
					rr := []int{r[0] - line0, r[1], r[2] - off0, r[3] - line0, r[4], r[5] - off0}
					if r[0] == 0 && r[1] == 0 && r[2] == 0 { // a Start the parser never set
						rr[0], rr[2] = 0, 0
					}
					if r[3] == 0 && r[4] == 0 && r[5] == 0 { // an End the parser never set
						rr[3], rr[5] = 0, 0
					}
					out[k] = rr
					continue
				}
			}
			out[k] = relJSON(e, line0, off0)
		}
		return out
	case []J:
		out := make([]any, len(x))
		for i, e := range x {
			out[i] = relJSON(e, line0, off0)
		}
		return out
	case []any:
		out := make([]any, len(x))
		for i, e := range x {
			out[i] = relJSON(e, line0, off0)
		}
		return out
	}
	return v
}

type entryView struct {
	Line int
	Sig  string
}

// entriesOf lists every top-level entry of a parse result with its 1-based start line and a
// position-independent signature (canonical JSON with ranges relative to the entry start).
func entriesOf(j *ast.Journal) []entryView {
	var out []entryView
	add := func(line, off int, v J) {
		b, _ := marshal(relJSON(v, line, off))
		out = append(out, entryView{line, string(b)})
	}
	for _, t := range j.Transactions {
		add(t.Range.Start.Line, t.Range.Start.Offset, txJ(t))
	}
	for _, d := range j.Directives {
		r := d.GetRange()
		add(r.Start.Line, r.Start.Offset, directiveJ(d))
	}
	for _, i := range j.Includes {
		add(i.Range.Start.Line, i.Range.Start.Offset, directiveJ(i))
	}
	for _, cm := range j.Comments {
		add(cm.Range.Start.Line, cm.Range.Start.Offset, commentJ(cm))
	}
	sort.SliceStable(out, func(a, b int) bool { return out[a].Line < out[b].Line })
	return out
}

func entriesJ(es []entryView) []J {
	out := []J{}
	for _, e := range es {
		out = append(out, J{"line": e.Line, "sig": e.Sig})
	}
	return out
}

// localDiags: analyzer diagnostics that belong to one transaction alone (balance and
// date-tag checks), as (start line, code, message).
//
// withDecl: the damaged entry is a transaction, so the declarations of the file are the same
// before and after, and the undeclared-account / undeclared-commodity warnings of every OTHER
// transaction are its own diagnostics too (damage to a directive legitimately changes them).
func localDiags(j *ast.Journal, withDecl bool) []J {
	res := longLivedAnalyzer().Analyze(j)
	out := []J{}
	for _, d := range res.Diagnostics {
		switch d.Code {
		case "UNDECLARED_ACCOUNT", "UNDECLARED_COMMODITY":
			if withDecl {
				out = append(out, J{"line": d.Range.Start.Line, "code": d.Code, "msg": hx(d.Message)})
			}
		case "UNBALANCED", "MULTIPLE_INFERRED", "EMPTY_DATE_TAG", "INVALID_DATE_TAG":
			msg := d.Message
			if d.Code == "UNBALANCED" {
				// the order of commodities in the message is C15's business
				parts := strings.Split(strings.TrimPrefix(msg, "transaction does not balance: "), "; ")
				sort.Strings(parts)
				msg = strings.Join(parts, "; ")
			}
			out = append(out, J{"line": d.Range.Start.Line, "code": d.Code, "msg": hx(msg)})
		}
	}
	sort.SliceStable(out, func(a, b int) bool {
		if out[a]["line"].(int) != out[b]["line"].(int) {
			return out[a]["line"].(int) < out[b]["line"].(int)
		}
		return out[a]["code"].(string) < out[b]["code"].(string)
	})
	return out
}

func c07Case(text, damaged string, first, last, k int, kind string) map[string]any {
	j0, e0 := hxParse(text)
	j1, e1 := hxParse(damaged)
	errLines := func(es []parser.ParseError) []int {
		out := []int{}
		for _, e := range es {
			out = append(out, e.Pos.Line)
		}
		return out
	}
	// is the entry that gets damaged a transaction of the intact journal?
	isTx := false
	for _, t := range j0.Transactions {
		if t.Range.Start.Line == first+1 {
			isTx = true
		}
	}
	return map[string]any{"text": hx(text), "damaged": hx(damaged), "first": first, "last": last, "k": k, "kind": kind,
		"impl": J{
			"before": J{"entries": entriesJ(entriesOf(j0)), "errors": errLines(e0), "diags": localDiags(j0, isTx)},
			"after":  J{"entries": entriesJ(entriesOf(j1)), "errors": errLines(e1), "diags": localDiags(j1, isTx)},
		}}
}

// damage rewrites the lines of one entry (DESIGN 4.5).  It never produces a blank line and
// never changes the number of bytes outside the entry.
func damage(c *Ctx, lines []string) ([]string, string) {
	r := c.R
	out := append([]string{}, lines...)
	kind := ""
	li := r.IntN(len(out))
	switch r.IntN(10) {
	case 0:
		kind = "overwrite"
		b := []byte(out[li])
		for n := 1 + r.IntN(3); n > 0 && len(b) > 0; n-- {
			b[r.IntN(len(b))] = damageByte(r)
		}
		out[li] = string(b)
	case 1:
		kind = "truncate"
		// at any BYTE column: cutting inside a multi-byte character leaves a lead byte
		// without its continuation bytes at the end of the line
		if len(out[li]) > 1 {
			out[li] = out[li][:1+r.IntN(len(out[li])-1)]
		}
	case 2:
		kind = "delete-line"
		if len(out) > 1 {
			out = append(out[:li], out[li+1:]...)
		} else {
			out[li] = "x"
		}
	case 3:
		kind = "duplicate-line"
		out = append(out[:li+1], out[li:]...)
	case 4:
		kind = "swap-lines"
		if len(out) > 1 {
			k := r.IntN(len(out))
			out[li], out[k] = out[k], out[li]
		}
	case 5:
		kind = "unbalanced-open"
		rs := []rune(out[li])
		p := r.IntN(len(rs) + 1)
		out[li] = string(rs[:p]) + pick(r, []string{"\"", "(", "[", ")", "]"}) + string(rs[p:])
	case 6:
		kind = "stray-operator"
		rs := []rune(out[li])
		p := r.IntN(len(rs) + 1)
		out[li] = string(rs[:p]) + pick(r, []string{"@", "=", "|", ";", "@@", "=="}) + string(rs[p:])
	case 7:
		kind = "strip-indent"
		out[li] = strings.TrimLeft(out[li], " \t")
	case 8:
		kind = "indent-header"
		out[0] = "  " + out[0]
	default:
		kind = "random-bytes"
		n := 1 + r.IntN(12)
		b := make([]byte, n)
		for i := range b {
			b[i] = damageByte(r)
		}
		out[li] = string(b)
	}
	for i := range out {
		if strings.TrimSpace(out[i]) == "" {
			out[i] = "?"
		}
	}
	return out, kind
}

// damageByte: any byte except LF (a damage never creates a line break); half of the time a
// printable ASCII character, otherwise anything including UTF-8 lead and continuation bytes.
func damageByte(r *rand.Rand) byte {
	if r.IntN(2) == 0 {
		return byte(33 + r.IntN(94))
	}
	for {
		b := byte(r.IntN(256))
		if b != '\n' {
			return b
		}
	}
}

// plainDeny: the shapes of G the lexer is known to mis-read (C03's known findings) are kept
// out of C07's journals: C07 is about damage to journals that parse.
var plainDeny = map[string]bool{"desc.allcaps": true, "desc.leading-digit": true, "desc.colon": true,
	"desc.currency": true, "desc.free": true, "tabgap": true, "tight": true,
	"com.lower": true, "com.script": true, "amt.sign-before-lcomm": true, "num.trail": true,
	"acct.digit": true, "dir.Y": true, "com.quoted": true}

func genC07(c *Ctx) {
	for i := 0; i < c.N(2500, 100000); i++ {
		g := genJournal(c.R, GOpts{MaxEntries: c.N(5, 10), Deny: plainDeny})
		lines := strings.Split(g.Text, "\n")
		ei := c.R.IntN(len(g.Entries))
		e := g.Entries[ei]
		dl, kind := damage(c, lines[e.FirstLine:e.LastLine+1])
		c.Count("damage." + kind)
		c.Count("entry." + e.Kind)
		nl := append(append(append([]string{}, lines[:e.FirstLine]...), dl...), lines[e.LastLine+1:]...)
		c.Emit("c07.damage", c07Case(g.Text, strings.Join(nl, "\n"), e.FirstLine, e.LastLine, len(dl), kind))
	}
	// Journals WITHOUT blank lines between entries (stacked P / account / commodity lines,
	// transactions directly below one another): a line that starts in column 1 starts a new
	// entry whatever stands above it, so everything after the damaged entry must survive any
	// damage; what stands before it is judged while the damaged entry still starts in column 1.
	tightDeny := map[string]bool{}
	for k, v := range plainDeny {
		tightDeny[k] = v
	}
	delete(tightDeny, "tight")
	for i := 0; i < c.N(1500, 60000); i++ {
		g := genJournal(c.R, GOpts{MaxEntries: c.N(6, 10), Deny: tightDeny, Force: map[string]bool{"tight": true}})
		lines := strings.Split(g.Text, "\n")
		ei := c.R.IntN(len(g.Entries))
		if c.R.IntN(2) == 0 {
			// prefer single-line directives: their damaged amount / name is the last thing on the line
			var ds []int
			for k, e := range g.Entries {
				if e.FirstLine == e.LastLine {
					ds = append(ds, k)
				}
			}
			if len(ds) > 0 {
				ei = ds[c.R.IntN(len(ds))]
			}
		}
		e := g.Entries[ei]
		dl, kind := damage(c, lines[e.FirstLine:e.LastLine+1])
		c.Count("tight.damage." + kind)
		c.Count("tight.entry." + e.Kind)
		nl := append(append(append([]string{}, lines[:e.FirstLine]...), dl...), lines[e.LastLine+1:]...)
		f := c07Case(g.Text, strings.Join(nl, "\n"), e.FirstLine, e.LastLine, len(dl), kind)
		col1 := 0
		if len(dl) > 0 && len(dl[0]) > 0 && dl[0][0] != ' ' && dl[0][0] != '\t' && dl[0][0] != '\r' {
			col1 = 1
		}
		f["col1"] = col1
		c.Emit("c07.tight", f)
	}
}
