package main

// Correspondence for the parser model (lean/HL/Model/Parser.lean), op "parse.tokens":
// the real lexer's complete token stream goes to the Lean model of parser.go; the model's
// journal and error list are compared with hxParse(text) — every field, every range,
// every message.  Registered under C03 (its theorems rest on this model); C06Parser/C07
// theorems use the same op.
//
// Input streams (distribution is reported through c.Count):
//   corpus    testdata/**/*.journal of the repository and the raw-string journals of
//             internal/parser/*_test.go
//   g         journals of grammar G (DESIGN 4.2/4.3): every production, every layout choice
//   nearg     a G journal with one production replaced by a neighbour
//   mutated   a G journal with 1..4 byte-level mutations (arbitrary bytes, invalid UTF-8)
//   random    byte soup over a syntax-heavy alphabet

import (
	"fmt"
	"math/rand/v2"
	"os"
	"path/filepath"
	"regexp"
	"strings"

)

func init() {
	// registered from c03.go: C03 = genParse (parser correspondence) + genC03 (ground-truth oracle)
	replayers["parse.tokens"] = func(c *Ctx, m map[string]any) map[string]any {
		t, _ := m["text"].(string)
		return parseCase(unhx(t))
	}
}

func parseCase(text string) map[string]any {
	j, errs := hxParse(text)
	return map[string]any{"text": hx(text), "toks": lexAll(text),
		"impl": map[string]any{"j": journalJ(j), "errs": perrsJ(errs)}}
}

// ---------------------------------------------------------------- grammar G pieces

type gj struct {
	r       *rand.Rand
	nl      string
	hasYear bool
	plain   bool // stay well inside G: no tricky words, blanks-only gaps, in-G numbers
	c       *Ctx
}

func (g *gj) n(k int) int         { return g.r.IntN(k) }
func (g *gj) coin(p int) bool     { return g.r.IntN(100) < p }
func (g *gj) ws() string          { return strings.Repeat(" ", 1+g.n(3)) }
func (g *gj) optws() string       { return strings.Repeat(" ", g.n(3)) }
func (g *gj) of(xs ...string) string { return xs[g.n(len(xs))] }

func (g *gj) gap() string {
	if g.plain {
		return strings.Repeat(" ", 2+g.n(5))
	}
	switch g.n(6) {
	case 0:
		return "\t"
	case 1:
		return strings.Repeat(" ", 1+g.n(3)) + "\t"
	default:
		return strings.Repeat(" ", 2+g.n(5))
	}
}

func (g *gj) indent() string {
	if g.n(6) == 0 {
		return "\t"
	}
	return strings.Repeat(" ", 1+g.n(8))
}

func (g *gj) digits(k int) string {
	var sb strings.Builder
	for i := 0; i < k; i++ {
		sb.WriteByte(byte('0' + g.n(10)))
	}
	return sb.String()
}

func (g *gj) date() string {
	s := g.of("-", "/", ".")
	m := fmt.Sprint(1 + g.n(12))
	d := fmt.Sprint(1 + g.n(28))
	if g.coin(60) {
		m = fmt.Sprintf("%02d", 1+g.n(12))
		d = fmt.Sprintf("%02d", 1+g.n(28))
	}
	if g.hasYear && g.coin(40) {
		g.c.Count("g.date.partial")
		return m + s + d
	}
	return fmt.Sprintf("%04d", 1900+g.n(200)) + s + m + s + d
}

var wordsLower = []string{"grocery", "store", "salary", "rent", "coffee", "café", "магазин", "中文", "payment", "x", "the", "of", "😀", "naïve"}
var wordsTricky = []string{"ACME", "ACME CORP", "100 things", "7-Eleven", "shop: food", "a:b", "$ store", "€uro", "USD", "-5 apples", "+EUR x", "Mr. X", "a;b", "2024-01-01 again", "(paren)", "[br]", "@home", "= eq", "* star", "\"quoted\" thing", "tab\there"}

func (g *gj) text() string {
	if !g.plain && g.coin(25) {
		g.c.Count("g.text.tricky")
		return g.of(wordsTricky...)
	}
	k := 1 + g.n(4)
	ws := make([]string, k)
	for i := range ws {
		ws[i] = g.of(wordsLower...)
	}
	return strings.Join(ws, " ")
}

func (g *gj) tagName() string {
	if !g.plain && g.coin(20) {
		// names isValidTagName rejects, or that need trimming
		return g.of("a.b", "über", "x y", "", " k", "k ", "a/b", "9", "_", "-", "a:b", "день", "t\tab")
	}
	return g.of("date", "tag", "project", "a-b", "x_y", "T1", "k")
}

func (g *gj) comment() string {
	var parts []string
	k := g.n(4)
	if g.coin(40) {
		parts = append(parts, g.of("note to self", "hello world", "see below", " spaced ", "день", ""))
	}
	for i := 0; i < k; i++ {
		v := g.of("", "v", "2024-02-03", "some value", " padded  ", "a:b", "€5", "x:")
		sep := ":"
		if g.coin(15) {
			sep = ": "
		}
		parts = append(parts, g.tagName()+sep+v)
	}
	g.c.Count(fmt.Sprintf("g.comment.tags%d", k))
	return g.optws() + strings.Join(parts, g.of(", ", ",", " , ", ",  "))
}

var segs = []string{"assets", "expenses", "income", "liabilities", "equity", "bank", "cash", "food", "checking account", "credit card", "a", "b2", "x-y", "p_q", "v.1", "R&D", "o'neil", "активы", "資産", "Éire", "food 2"}

func (g *gj) acct() string {
	k := 2 + g.n(3)
	if !g.plain && g.coin(8) {
		k = 1
	}
	parts := make([]string, k)
	for i := range parts {
		parts[i] = g.of(segs...)
	}
	return strings.Join(parts, ":")
}

func (g *gj) acctform() string {
	a := g.acct()
	switch g.n(8) {
	case 0:
		g.c.Count("g.posting.virtual()")
		return "(" + a + ")"
	case 1:
		g.c.Count("g.posting.virtual[]")
		return "[" + a + "]"
	}
	return a
}

func (g *gj) lcomm() string {
	switch g.n(4) {
	case 0:
		return g.of("$", "€", "£", "¥", "₽", "₴")
	case 1:
		return "\"" + g.of("AAPL 2", "my fund", "x", "Ünï", "a.b", "") + "\""
	default:
		return g.of("USD", "EUR", "RUB", "A", "BTC", "ABCDEF", "Z")
	}
}

func (g *gj) rcomm() string {
	if g.coin(50) {
		return g.lcomm()
	}
	return g.of("usd", "Eur", "hours", "h", "kg2", "руб", "株", "apples", "x1y2", "AAPL")
}

func group(s, sep string) string {
	var parts []string
	for len(s) > 3 {
		parts = append([]string{s[len(s)-3:]}, parts...)
		s = s[:len(s)-3]
	}
	parts = append([]string{s}, parts...)
	return strings.Join(parts, sep)
}

// number: the notations of DESIGN 4.3 (and a few just outside, for the error paths).
func (g *gj) number() string {
	intd := g.digits(1 + g.n(6))
	if g.coin(70) {
		intd = strings.TrimLeft(intd, "0")
		if intd == "" {
			intd = "0"
		}
	}
	if g.coin(10) {
		intd = g.digits(7 + g.n(9))
	}
	frac := g.digits(1 + g.n(4))
	if g.coin(10) {
		frac = g.digits(3)
	}
	if g.coin(5) {
		frac = g.digits(5 + g.n(8))
	}
	var s string
	x := g.n(20)
	if g.plain {
		x = g.n(17)
	}
	switch {
	case x < 4:
		s = intd
	case x < 7:
		s = intd + "." + frac
	case x < 9:
		s = intd + "," + frac
	case x == 9:
		s = group(intd, ",") + "." + frac
	case x == 10:
		s = group(intd, ".") + "," + frac
	case x == 11:
		s = group(intd, " ") + "," + frac
	case x == 12:
		s = group(intd, " ") + "." + frac
	case x == 13:
		s = group(intd, g.of(",", ".", " "))
	case x == 14:
		s = intd + "."
	case x == 15:
		s = intd + g.of("E", "e") + g.of("", "+", "-") + fmt.Sprint(g.n(31))
	case x == 16:
		s = intd + "." + frac + g.of("E", "e") + g.of("", "+", "-") + fmt.Sprint(g.n(31))
	case x == 17:
		s = g.of("1,234", "1.234", "0.234", "0,234", "-0,123", "12,345", "1,23", "1.2.3", "1,2,3", "1.2,3.4", "1,2.3,4", ".5", ",5", "1..2", "1,,2", "0", "00", "000.000", "1 234", "1 2 3")
	case x == 18:
		s = g.of("1E999999999", "1e99999999999", "1E", "1e+", "1E-2147483648", "1.5E-2147483648", "1E2147483647", "1E2147483648", "999999999999999999", "9999999999999999999", "123456789012345678901234567890", "1e5e3", "1E1.5", "1E1000", "1E1001", "1E-1000", "1E-1001", "1.5E-1000", "1.5E1001", "1,5E1000", "0.000E-998", "1.234E1003")
	default:
		s = intd + "." + frac
	}
	g.c.Count("g.number")
	return s
}

func (g *gj) sign() string { return g.of("-", "+") }

func (g *gj) amount() string {
	switch x := g.n(10); {
	case x < 4: // left commodity
		s := ""
		if g.coin(25) {
			s += g.sign()
		}
		s += g.lcomm()
		if g.coin(40) {
			s += " "
		}
		if g.coin(25) {
			s += g.sign()
		}
		g.c.Count("g.amount.left")
		return s + g.number()
	case x < 8: // right commodity
		s := ""
		if g.coin(30) {
			s += g.sign()
		}
		s += g.number()
		if g.coin(70) {
			s += " "
		}
		g.c.Count("g.amount.right")
		return s + g.rcomm()
	default:
		s := ""
		if g.coin(30) {
			s += g.sign()
		}
		g.c.Count("g.amount.bare")
		return s + g.number()
	}
}

func (g *gj) amtpart() string {
	s := g.amount()
	if g.coin(25) {
		s += g.ws() + g.of("@", "@@") + g.ws() + g.amount()
		g.c.Count("g.cost")
	}
	if g.coin(20) {
		s += g.ws() + g.of("=", "==") + g.ws() + g.amount()
		g.c.Count("g.assertion")
	}
	return s
}

func (g *gj) postingLine() string {
	if g.coin(12) {
		g.c.Count("g.txline.comment")
		return g.indent() + ";" + g.comment()
	}
	s := g.indent()
	if g.coin(15) {
		s += g.of("*", "!") + " "
	}
	s += g.acctform()
	if g.coin(75) {
		s += g.gap() + g.amtpart()
	} else if g.coin(20) {
		// assertion-only posting
		s += g.gap() + g.of("=", "==") + g.ws() + g.amount()
	}
	if g.coin(20) {
		s += g.optws() + ";" + g.comment()
		if s[len(s)-1] != ' ' && g.coin(50) {
			// keep
		}
	}
	g.c.Count("g.txline.posting")
	return s
}

func (g *gj) transaction() []string {
	h := g.date()
	if g.coin(15) {
		h += "=" + g.date()
		g.c.Count("g.tx.date2")
	}
	if g.coin(40) {
		h += g.ws() + g.of("*", "!")
	}
	if g.coin(25) {
		h += g.ws() + "(" + g.of("123", "abc", "#4", "x y", "ö") + ")"
		g.c.Count("g.tx.code")
	}
	if g.coin(85) {
		if g.coin(25) {
			h += g.ws() + g.text() + g.optws() + "|" + g.optws() + g.text()
			g.c.Count("g.tx.payee|note")
		} else {
			h += g.ws() + g.text()
		}
	}
	if g.coin(20) {
		h += g.optws() + ";" + g.comment()
	}
	lines := []string{h}
	k := 1 + g.n(4)
	if g.coin(5) {
		k = 0
	}
	for i := 0; i < k; i++ {
		lines = append(lines, g.postingLine())
	}
	g.c.Count("g.entry.transaction")
	return lines
}

func (g *gj) directive() []string {
	k := g.n(9)
	if g.plain {
		k = g.n(8)
	}
	switch k {
	case 0, 1:
		l := "account " + g.acct()
		if g.coin(30) {
			l += g.gap() + ";" + g.comment()
		}
		lines := []string{l}
		for i := g.n(3); i > 0; i-- {
			switch g.n(4) {
			case 0:
				lines = append(lines, g.indent()+";"+g.comment())
			case 1:
				lines = append(lines, g.indent()+g.of("note", "alias", "type")+" "+g.text())
			case 2:
				lines = append(lines, g.indent()+g.of("format 1,000.00 EUR", "note", "x", "type A", "format $1.00", "assets:cash  5", "2024-01-01 date", "(x)", "* x"))
			default:
				lines = append(lines, g.indent()+g.text())
			}
		}
		g.c.Count("g.dir.account")
		return lines
	case 2, 3:
		var l string
		switch g.n(4) {
		case 0:
			l = "commodity " + g.lcomm() + g.number()
		case 1:
			l = "commodity " + g.number() + " " + g.rcomm()
		case 2:
			l = "commodity " + g.rcomm()
		default:
			l = "commodity " + g.lcomm() + " " + g.number()
		}
		if g.coin(15) {
			l += g.ws() + ";" + g.comment()
		}
		lines := []string{l}
		if g.coin(50) {
			switch g.n(3) {
			case 0:
				lines = append(lines, g.indent()+"format "+g.lcomm()+g.number())
			case 1:
				lines = append(lines, g.indent()+"format "+g.number()+" "+g.rcomm())
			default:
				lines = append(lines, g.indent()+"format "+g.number()+" "+g.rcomm()+g.ws()+";"+g.comment())
			}
		}
		if g.coin(25) {
			lines = append(lines, g.indent()+g.of("note ", "note  ", "format ", "foo ")+g.text())
		}
		if g.coin(10) {
			lines = append(lines, g.indent()+";"+g.comment())
		}
		g.c.Count("g.dir.commodity")
		return lines
	case 4:
		g.c.Count("g.dir.include")
		p := g.of("other.journal", "./sub/x.journal", "/abs/path.journal", "~/fin/2024.journal", "*.journal", "sub/**/*.journal", "my file.journal", "файл.journal", "a-b_c.j", "2024.journal", "x.journal ; c", " lead.journal", "trail.journal   ", "trail.journal \t", "two  blanks.journal  ;c", "\ttab.journal", "a.journal;nospace", "\"quoted.journal\"", "$HOME/x", "-dash", "1.5", "a:b")
		return []string{"include " + p}
	case 5:
		g.c.Count("g.dir.P")
		return []string{"P " + g.date() + " " + g.of(g.lcomm(), g.rcomm()) + " " + g.amount()}
	case 6:
		g.c.Count("g.dir.Y")
		y := fmt.Sprintf("%04d", 1900+g.n(200))
		if !g.plain && g.coin(8) {
			y = g.of("0", "10000", "99999999999999999999", "-5", "20x4", "2024.5", "")
		} else {
			g.hasYear = true
		}
		return []string{g.of("Y", "year", "Y") + " " + y}
	case 7:
		g.c.Count("g.dir.D")
		if g.coin(50) {
			return []string{"D " + g.lcomm() + g.number()}
		}
		return []string{"D " + g.number() + " " + g.rcomm()}
	default:
		g.c.Count("g.dir.other")
		return []string{g.of("alias food = expenses:food", "payee Some Shop", "tag project", "decimal-mark ,", "apply account foo", "end apply account", "~ monthly", "= expenses", "comment", "end comment", "account", "commodity", "include", "P", "Y", "D", "P 2024-01-01", "P 2024-01-01 EUR", "include ; c")}
	}
}

func (g *gj) entry() []string {
	switch x := g.n(10); {
	case x < 6:
		return g.transaction()
	case x < 9:
		return g.directive()
	default:
		g.c.Count("g.entry.comment")
		return []string{g.of(";", "#", "*", ";") + g.comment()}
	}
}

// journal returns the lines of a G journal, entries separated by 0..3 blank lines.
func genGLines(c *Ctx, r *rand.Rand, maxEntries int) (lines []string, nl string) {
	g := &gj{r: r, c: c, nl: "\n", plain: r.IntN(10) < 6}
	if g.plain {
		c.Count("g.plain")
	}
	switch r.IntN(4) {
	case 0:
		g.nl = "\r\n"
		c.Count("g.nl.crlf")
	default:
		c.Count("g.nl.lf")
	}
	k := r.IntN(maxEntries + 1)
	for i := 0; i < k; i++ {
		lines = append(lines, g.entry()...)
		b := 1
		if r.IntN(4) == 0 {
			b = r.IntN(4)
		}
		for ; b > 0; b-- {
			if r.IntN(12) == 0 {
				lines = append(lines, g.of(" ", "\t", "   "))
			} else {
				lines = append(lines, "")
			}
		}
	}
	return lines, g.nl
}

func joinLines(r *rand.Rand, lines []string, nl string) string {
	s := strings.Join(lines, nl)
	if len(lines) > 0 && r.IntN(4) != 0 {
		s += nl
	}
	return s
}

// ---------------------------------------------------------------- near-G and mutations

var neighbours = []func(r *rand.Rand, l string) string{
	func(r *rand.Rand, l string) string { return strings.TrimLeft(l, " \t") },                  // lose the indent
	func(r *rand.Rand, l string) string { return "  " + l },                                      // gain an indent
	func(r *rand.Rand, l string) string { return strings.Replace(l, "  ", " ", 1) },              // gap -> single blank
	func(r *rand.Rand, l string) string { return strings.Replace(l, ":", "", 1) },                // account loses a colon
	func(r *rand.Rand, l string) string { return strings.Replace(l, ")", "", 1) },                // unclosed paren
	func(r *rand.Rand, l string) string { return strings.Replace(l, "]", ")", 1) },               // wrong closer
	func(r *rand.Rand, l string) string { return strings.Replace(l, "-", "--", 1) },              // double sign / broken date
	func(r *rand.Rand, l string) string { return strings.Replace(l, "@", "@ @", 1) },             //
	func(r *rand.Rand, l string) string { return strings.Replace(l, "=", "= =", 1) },             //
	func(r *rand.Rand, l string) string { return l + "  junk junk" },                             // trailing junk
	func(r *rand.Rand, l string) string { return l + " @" },                                      // dangling cost
	func(r *rand.Rand, l string) string { return l + " =" },                                      // dangling assertion
	func(r *rand.Rand, l string) string { return l + "  5 5" },                                   // two amounts
	func(r *rand.Rand, l string) string { return strings.Replace(l, "20", "2O", 1) },             // letter in date
	func(r *rand.Rand, l string) string { return strings.Replace(l, "-", "-99999999999999999999-", 1) }, // Atoi overflow
	func(r *rand.Rand, l string) string { return strings.Replace(l, " ", "\t", 1) },              //
	func(r *rand.Rand, l string) string { return strings.ToUpper(l) },                            //
	func(r *rand.Rand, l string) string { return strings.Replace(l, ";", "", 1) },                // comment loses its marker
	func(r *rand.Rand, l string) string { return strings.Replace(l, "account ", "account", 1) }, //
	func(r *rand.Rand, l string) string { return strings.Replace(l, "commodity ", "commodity  ;", 1) },
	func(r *rand.Rand, l string) string { return strings.Replace(l, "include ", "include", 1) },
	func(r *rand.Rand, l string) string { return strings.Replace(l, "P ", "P  ", 1) },
	func(r *rand.Rand, l string) string { return "" },                                            // entry line vanishes
	func(r *rand.Rand, l string) string { return l + l },                                         // line doubled without break
	func(r *rand.Rand, l string) string {
		if len(l) == 0 {
			return l
		}
		i := r.IntN(len(l))
		return l[:i]
	}, // truncated
	func(r *rand.Rand, l string) string { return "2024-01-01" },
	func(r *rand.Rand, l string) string { return "    " },
	func(r *rand.Rand, l string) string { return "1/2" },
	func(r *rand.Rand, l string) string { return "1.2.3.4 x" },
}

var soup = []string{" ", "  ", "\t", "\n", "\n", "\r\n", "\r", ";", ":", ",", ".", "-", "+", "*", "!", "(", ")", "[", "]", "@", "@@", "=", "==", "|", "\"", "$", "€", "0", "1", "9", "2024-01-02", "a", "Z", "ab:cd", "account", "commodity", "include", "P", "Y", "D", "format", "note", "é", "ж", "中", "😀", "\xff", "\xc3", "\xe2\x82", "\x00", "\x80", "E", "e5", "1,000.00", "USD"}

func parseMutateBytes(r *rand.Rand, s string) string {
	b := []byte(s)
	k := 1 + r.IntN(4)
	for i := 0; i < k; i++ {
		switch r.IntN(5) {
		case 0: // replace a byte
			if len(b) > 0 {
				b[r.IntN(len(b))] = byte(r.IntN(256))
			}
		case 1: // delete a range
			if len(b) > 0 {
				p := r.IntN(len(b))
				q := min(len(b), p+1+r.IntN(4))
				b = append(b[:p], b[q:]...)
			}
		case 2: // insert soup
			p := r.IntN(len(b) + 1)
			ins := []byte(pick(r, soup))
			b = append(b[:p], append(ins, b[p:]...)...)
		case 3: // swap two bytes
			if len(b) > 1 {
				p, q := r.IntN(len(b)), r.IntN(len(b))
				b[p], b[q] = b[q], b[p]
			}
		default: // replace a byte by syntax
			if len(b) > 0 {
				b[r.IntN(len(b))] = pick(r, []byte(" \t\n;:,.-+*!()[]@=|\"$019aZ"))
			}
		}
	}
	return string(b)
}

func randomSoup(r *rand.Rand, n int) string {
	var sb strings.Builder
	for i := 0; i < n; i++ {
		if r.IntN(5) == 0 {
			sb.WriteByte(byte(r.IntN(256)))
		} else {
			sb.WriteString(pick(r, soup))
		}
	}
	return sb.String()
}

// ---------------------------------------------------------------- corpus

var rawString = regexp.MustCompile("(?s)`([^`]*)`")

func repoCorpus() []string {
	root := os.Getenv("VERIF_REPO")
	if root == "" {
		root = "/repo"
	}
	var out []string
	filepath.WalkDir(filepath.Join(root, "testdata"), func(p string, d os.DirEntry, err error) error {
		if err == nil && !d.IsDir() && strings.HasSuffix(p, ".journal") {
			if b, e := os.ReadFile(p); e == nil {
				out = append(out, string(b))
			}
		}
		return nil
	})
	tests, _ := filepath.Glob(filepath.Join(root, "internal", "parser", "*_test.go"))
	for _, t := range tests {
		b, e := os.ReadFile(t)
		if e != nil {
			continue
		}
		for _, m := range rawString.FindAllStringSubmatch(string(b), -1) {
			if len(m[1]) < 4000 {
				out = append(out, m[1])
			}
		}
	}
	return out
}

// fixed journals: one line per construct the parser distinguishes, LF and CRLF.
var fixedJournals = []string{
	"",
	"\n",
	"\n\n\n",
	"2024-01-15 grocery store\n    expenses:food  $50.00\n    assets:cash\n",
	"2024-01-15 grocery store\r\n    expenses:food  $50.00\r\n    assets:cash\r\n",
	"2024-01-15=2024-01-20 * (42) Payee | Note ; k:v, date:2024-02-01\n  ; t1:, t2: x\n  * (a:b)  -1 USD @ €2 = 5 USD ; c\n  ! [c:d]  $-3 @@ 4.5 EUR == $1\n  e:f\n",
	"Y 2024\n1/15 x\n  a:b  1\n01-16 y\n  a:b  1\n",
	"1/15 no year\n  a:b  1\n",
	"2024-01-15 ACME\n  a:b  1\n",
	"2024-01-15 100 things\n  a:b  1\n",
	"2024-01-15 shop: food\n  a:b  1\n",
	"2024-01-15 $ store\n  a:b  1\n",
	"account assets:cash  ; type:A, x:\n  ; sub comment\n  note hello there\n  alias c\n\ncommodity $1,000.00\n  format $1,000.00\n  note US dollars\n\ncommodity 1.000,00 EUR\ncommodity EUR\n  format 1.000,00 EUR\n",
	"include a.journal\ninclude\ninclude ~/x/*.journal ; why\nP 2024-01-01 EUR $1.10\nP 2024/1/1 \"AAPL 2\" 150 USD\nP x\nP 2024-01-01\nY 2023\nyear 2022\nY abc\nY 0\nY 10000\nD $1,000.00\nD 1.000,00 EUR\nD\n",
	"alias a = b\napply account x\n~ monthly\n  a:b  1\n= expr\n  a:b  1\n",
	"2024-01-15 x\n  a:b  1 USD junk junk\n  c:d\n",
	"2024-01-15 x\n  !!bad\n\n  a:b  1\n2024-01-16 y\n  a:b  2\n",
	"2024-01-15 x\n  (a:b  1\n  [c:d)  2\n  (e:f]\n",
	"2024-01-15 x\n  a:b  1E1000 USD\n  a:b  1E1001 USD\n  a:b  1.5E-1000\n  a:b  $1E-1001\n  a:b  1.5E3\n  a:b  1,5e3 EUR\n",
	"2024-01-15 x\n  a:b  - $ - 5\n  a:b  + 5\n  a:b  -$-5\n  a:b  $+5\n  a:b  --5\n  a:b  1E999999999 USD\n  a:b  1,5 руб\n  a:b  5 x1\n  a:b  5 1x\n  a:b  5 x-1\n",
	"2024-01-15\n2024-01-15 |\n2024-01-15 a |\n2024-01-15 | b\n2024-01-15  a  |  b  ; c\n",
	"; top comment a:b, c:d\n# hash\n* star\n;\n;:\n;a:,:b,c:\n; date:2024, date:2025, date:2024\n; x:date:, date:x\n",
	"2024-13-45 bad\n2024-01 partial\n2024-01-01-01 four\n99999999999999999999-01-01 big\n-1-1 neg\n2024--01 dd\n",
	"  indented first\n\ttab first\n 2024-01-01 x\n",
	"2024-01-15 x\n\n  a:b  1\n",
	"account a:b\n\n  note orphan\n",
	"account a:b\n  !!\n\n  note after blank\n2024-01-01 z\n",
}

func genParse(c *Ctx) {
	r := c.R
	emit := func(kind, text string) {
		c.Count("stream." + kind)
		m := parseCase(text)
		if es, ok := m["impl"].(map[string]any)["errs"].([]J); ok && len(es) > 0 {
			c.Count("errors." + kind)
		} else {
			c.Count("clean." + kind)
		}
		m["kind"] = kind
		c.Emit("parse.tokens", m)
	}
	for _, t := range fixedJournals {
		emit("fixed", t)
		emit("fixed", strings.ReplaceAll(t, "\n", "\r\n"))
	}
	for _, t := range repoCorpus() {
		emit("corpus", t)
	}
	maxE := c.N(8, 14)
	for i := 0; i < c.N(700, 60000); i++ {
		lines, nl := genGLines(c, r, maxE)
		emit("g", joinLines(r, lines, nl))
	}
	for i := 0; i < c.N(500, 40000); i++ {
		lines, nl := genGLines(c, r, maxE)
		if len(lines) > 0 {
			k := 1 + r.IntN(2)
			for ; k > 0; k-- {
				p := r.IntN(len(lines))
				lines[p] = pick(r, neighbours)(r, lines[p])
			}
		}
		emit("nearg", joinLines(r, lines, nl))
	}
	for i := 0; i < c.N(500, 40000); i++ {
		lines, nl := genGLines(c, r, maxE)
		emit("mutated", parseMutateBytes(r, joinLines(r, lines, nl)))
	}
	for i := 0; i < c.N(300, 20000); i++ {
		emit("random", randomSoup(r, r.IntN(c.N(60, 200))))
	}
}
