package main

// C03, core grammar GCore (lean/HL/Spec/GCore.lean): the stream behind the theorem
// HL.Props.C03.C03_faithful_core.  Random journals of the core grammar are PRINTED BY THE LEAN
// PRINTER (op c03.gcore.print, answered by the compiled driver, so the text is produced by the
// function the theorem quantifies over), parsed by the real parser.Parse, and the driver
// compares the real tree - every position and range included - with GCore.expected.

import (
	"bufio"
	"bytes"
	"encoding/json"
	"fmt"
	"math/rand/v2"
	"os"
	"os/exec"
	"path/filepath"
	"strings"

	"github.com/juev/hledger-lsp/internal/parser"
)

func init() {
	replayers["c03.gcore"] = func(c *Ctx, m map[string]any) map[string]any {
		text := unhx(m["text"].(string))
		cr, _ := m["cr"].(bool)
		return c03CoreCase(m["g"], text, cr)
	}
}

func c03CoreCase(g any, text string, cr bool) map[string]any {
	j, errs := parser.Parse(text)
	return map[string]any{"g": g, "text": hx(text), "cr": cr,
		"impl": J{"text": hx(text), "journal": journalJ(j), "errors": perrsJ(errs)}}
}

// leanDriver finds the compiled Lean driver: $HX_DRIVER, or <root>/lean/.lake/build/bin/driver
// next to <root>/.build/hx (check builds the driver before it starts the harness).
func leanDriver() string {
	if p := os.Getenv("HX_DRIVER"); p != "" {
		return p
	}
	exe, err := os.Executable()
	if err != nil {
		panic(err)
	}
	return filepath.Join(filepath.Dir(exe), "..", "lean", ".lake", "build", "bin", "driver")
}

// leanPrint sends the journals to the driver (one c03.gcore.print op per line) and returns the
// printed texts in order; crs[i] asks for CRLF line ends (GCore.printC true).
func leanPrint(gs []any, crs []bool) []string {
	var in bytes.Buffer
	for i, g := range gs {
		b, err := marshal(map[string]any{"op": "c03.gcore.print", "id": i, "g": g, "cr": crs != nil && crs[i]})
		if err != nil {
			panic(err)
		}
		in.Write(b)
		in.WriteByte('\n')
	}
	cmd := exec.Command(leanDriver())
	cmd.Stdin = &in
	cmd.Stderr = os.Stderr
	out, err := cmd.Output()
	if err != nil {
		panic(fmt.Sprintf("c03.gcore.print: cannot run the Lean driver %s: %v", leanDriver(), err))
	}
	texts := make([]string, 0, len(gs))
	sc := bufio.NewScanner(bytes.NewReader(out))
	sc.Buffer(make([]byte, 1<<20), 1<<28)
	for sc.Scan() {
		var m map[string]any
		if err := json.Unmarshal(sc.Bytes(), &m); err != nil {
			panic(fmt.Sprintf("c03.gcore.print: bad answer %q", sc.Text()))
		}
		t, ok := m["text"].(string)
		if !ok {
			panic(fmt.Sprintf("c03.gcore.print: answer without text: %s", sc.Text()))
		}
		texts = append(texts, unhx(t))
	}
	if len(texts) != len(gs) {
		panic(fmt.Sprintf("c03.gcore.print: %d answers for %d journals", len(texts), len(gs)))
	}
	return texts
}

func gcWord(r *rand.Rand, lo, hi byte, min, max int) string {
	n := min + r.IntN(max-min+1)
	var sb strings.Builder
	for i := 0; i < n; i++ {
		sb.WriteByte(lo + byte(r.IntN(int(hi-lo)+1)))
	}
	return sb.String()
}

func gcDigits(r *rand.Rand, n int) string {
	var sb strings.Builder
	for i := 0; i < n; i++ {
		sb.WriteByte('0' + byte(r.IntN(10)))
	}
	return sb.String()
}

// genGCoreAmount: every optional part, short and very long digit strings (int64 and big.Int
// paths of decimal.NewFromString), leading zeros, four-digit integer parts (the shape
// looksLikeDate looks at), exactly three decimals only behind an all-zero integer part.
func genGCoreAmount(c *Ctx, r *rand.Rand) J {
	var in string
	switch r.IntN(8) {
	case 0:
		in = strings.Repeat("0", 1+r.IntN(3))
	case 1:
		in = gcDigits(r, 4)
	case 2:
		in = gcDigits(r, 19+r.IntN(12))
	default:
		in = gcDigits(r, 1+r.IntN(9))
	}
	a := J{"neg": r.IntN(3) == 0, "int": in, "frac": nil, "com": nil}
	if r.IntN(2) == 0 {
		n := 1 + r.IntN(6)
		if r.IntN(12) == 0 {
			n = 13 + r.IntN(30)
		}
		if n == 3 && strings.Trim(in, "0") != "" {
			if r.IntN(2) == 0 {
				a["int"] = strings.Repeat("0", len(in))
				c.Count("gcore.threeDecimalsAfterZero")
			} else {
				n = 2 + 2*r.IntN(2)
			}
		}
		a["frac"] = gcDigits(r, n)
		c.Count("gcore.frac")
	}
	if r.IntN(2) == 0 {
		a["com"] = gcWord(r, 'A', 'Z', 1, 5)
		c.Count("gcore.commodity")
	}
	if a["neg"].(bool) {
		c.Count("gcore.neg")
	}
	return a
}

func genGCoreJournal(c *Ctx, r *rand.Rand) []any {
	n := r.IntN(9) // 0..8 transactions
	txs := make([]any, 0, n)
	for i := 0; i < n; i++ {
		words := []string{}
		for k, nw := 0, 1+r.IntN(4); k < nw; k++ {
			words = append(words, gcWord(r, 'a', 'z', 1, 9))
		}
		ps := []any{}
		np := 1 + r.IntN(6)
		if r.IntN(16) == 0 {
			np = 0 // a header alone: well-formed too (GCore.WF does not ask for a posting)
			c.Count("gcore.noPostings")
		}
		for k := 0; k < np; k++ {
			segs := []string{}
			for s, ns := 0, 2+r.IntN(3); s < ns; s++ {
				segs = append(segs, gcWord(r, 'a', 'z', 1, 8))
			}
			p := J{"s": segs, "a": nil}
			if r.IntN(4) != 0 {
				p["a"] = genGCoreAmount(c, r)
			} else {
				c.Count("gcore.noAmount")
			}
			ps = append(ps, p)
		}
		txs = append(txs, J{
			"d": []string{fmt.Sprintf("%04d", 1000+r.IntN(9000)), fmt.Sprintf("%02d", 1+r.IntN(12)), fmt.Sprintf("%02d", 1+r.IntN(28))},
			"w": words, "p": ps})
	}
	c.Count(fmt.Sprintf("gcore.txs.%d", n))
	return txs
}

func genC03Core(c *Ctx) {
	n := c.N(300, 20000)
	gs := make([]any, n)
	crs := make([]bool, n)
	for i := range gs {
		gs[i] = genGCoreJournal(c, c.R)
		// one journal in three with CRLF line ends (theorem C03_faithful_core_crlf)
		crs[i] = c.R.IntN(3) == 0
		if crs[i] {
			c.Count("gcore.crlf")
		}
	}
	texts := leanPrint(gs, crs)
	for i, g := range gs {
		c.Emit("c03.gcore", c03CoreCase(g, texts[i], crs[i]))
	}
}
