package main

// Generator for the supported grammar G of DESIGN.md section 4.2 with its ground truth.
// genJournal returns the journal text and the structure it was written from (GJournal);
// the Lean oracle `HL.Spec.G.agrees` compares that structure with the tree the real parser
// extracts.  Every random choice comes from the *rand.Rand passed in.

import (
	"fmt"
	"math/big"
	"math/rand/v2"
	"strings"
)

type GNumber struct {
	Text  string // as printed, without sign
	Value *big.Rat
	Shape string
}

type GAmount struct {
	Text    string
	Value   *big.Rat // signed
	Com     string
	Side    int // 0 left, 1 right, 2 none
	Quoted  bool
	Shape   string
	Cls     string // commodity class: symbol upper quoted lower script ""
	Sp      bool   // a blank between commodity and number
	SignPos int    // 0 none, 1 before a left commodity, 2 directly before the number
	Num     string // number shape
}

type GTag struct{ Name, Value string }

type GPosting struct {
	Status  int
	Virt    int // 0 none, 1 balanced [..], 2 unbalanced (..)
	Account string
	Amt     *GAmount
	Cost    *GAmount
	Total   bool
	Assert  *GAmount
	Strict  bool
	Comment string
	HasCmt  bool
	Tags    []GTag
	Line    int // 0-based line of the posting in the text
}

type GEntry struct {
	Kind      string // tx, account, commodity, include, P, Y, D, comment
	FirstLine int    // 0-based
	LastLine  int    // inclusive, without separator lines
	// transaction
	Date     [3]int
	Date2    *[3]int
	Status   int
	Code     string
	HasCode  bool
	Desc     string
	Payee    string
	Note     string
	HasPipe  bool
	Comment  string
	HasCmt   bool
	Tags     []GTag
	Postings []GPosting
	TxCmts   []string // transaction comment lines (indent ';' comment)
	// directives
	Account string
	Symbol  string
	Format  string
	Path    string
	Price   *GAmount
	Year    int
	Text    string // comment line text
}

type GJournal struct {
	Entries []GEntry
	CRLF    bool
	Text    string
	Feat    map[string]bool // features used (for guards and distribution)
}

// on decides whether an optional feature is used: never when denied, only the listed ones
// when Only is set, else with probability 1/k.
func (o GOpts) on(r *rand.Rand, name string, k int) bool {
	if o.Force[name] {
		return true
	}
	if o.Deny[name] {
		return false
	}
	if o.Only != nil && !o.Only[name] {
		return false
	}
	if o.Only != nil && o.Only[name] {
		return r.IntN(2) == 0
	}
	return r.IntN(k) == 0
}

type GOpts struct {
	Force map[string]bool // productions that are always taken
	Deny map[string]bool
	Only map[string]bool
	MaxEntries int
	NoInclude  bool
	OnlyTx     bool
	NoNonBMP   bool
}

var (
	scriptLetters = []rune("абвгдежзАБВГДéñüßçÉ中文日本語")
	segPunct      = []rune("-_.&'")
	curSyms       = []string{"$", "€", "£", "¥", "₽", "₴"}
)

func ratOf(s string) *big.Rat {
	r, ok := new(big.Rat).SetString(s)
	if !ok {
		panic("rat " + s)
	}
	return r
}

func digits(r *rand.Rand, n int, firstNonZero bool) string {
	b := make([]byte, n)
	for i := range b {
		b[i] = byte('0' + r.IntN(10))
	}
	if firstNonZero && n > 0 && b[0] == '0' {
		b[0] = byte('1' + r.IntN(9))
	}
	return string(b)
}

func groupDigits(s string, sep string) string {
	// s has no leading zeros problem; group from the right in threes
	var parts []string
	for len(s) > 3 {
		parts = append([]string{s[len(s)-3:]}, parts...)
		s = s[:len(s)-3]
	}
	parts = append([]string{s}, parts...)
	return strings.Join(parts, sep)
}

// genNumber draws an unsigned number in one of the notations of DESIGN 4.3, respecting side
// condition A (a single mark followed by exactly three digits after a non-zero integer part
// always denotes a grouped integer).  Base shape (no optional feature): integer or decimal
// with a point.
func genNumber(r *rand.Rand, o GOpts, feat map[string]bool) GNumber {
	use := func(name string, k int) bool {
		if o.on(r, name, k) {
			feat[name] = true
			return true
		}
		return false
	}
	switch {
	case use("num.exp", 12):
		ip := digits(r, 1+r.IntN(3), true)
		e := r.IntN(7) - 3
		txt := ip
		val := ratOf(ip)
		if r.IntN(2) == 0 {
			fl := 1 + r.IntN(2)
			fp := digits(r, fl, false)
			txt = ip + "." + fp
			val = ratOf(ip + "." + fp)
		}
		es := fmt.Sprintf("%d", e)
		if e >= 0 && r.IntN(2) == 0 {
			es = "+" + es
		}
		E := "E"
		if r.IntN(2) == 0 {
			E = "e"
		}
		p := new(big.Rat).SetInt(new(big.Int).Exp(big.NewInt(10), big.NewInt(int64(abs(e))), nil))
		if e >= 0 {
			val = new(big.Rat).Mul(val, p)
		} else {
			val = new(big.Rat).Quo(val, p)
		}
		return GNumber{txt + E + es, val, "exp"}
	case use("num.long", 25):
		// long quantities (base units of tokens, many decimals): 16..27 digits in all, so that the
		// digit string crosses 2^63 and 2^64 — still inside DESIGN 4.3 (<= 15 integer digits,
		// <= 12 decimals)
		ip := digits(r, 12+r.IntN(4), true)
		if r.IntN(2) == 0 {
			ip = "9" + ip[1:]
		}
		fl := 4 + r.IntN(9)
		fp := digits(r, fl, false)
		return GNumber{ip + "." + fp, ratOf(ip + "." + fp), "long"}
	case use("num.trail", 14):
		ip := digits(r, 1+r.IntN(4), true)
		return GNumber{ip + ".", ratOf(ip), "trail"}
	case use("num.grpint", 8):
		ip := digits(r, 4+r.IntN(8), true)
		g := ","
		if use("num.grpdot", 3) {
			g = "."
		} else if use("num.grpspace", 3) {
			g = " "
		}
		return GNumber{groupDigits(ip, g), ratOf(ip), "grpint" + g}
	case use("num.grp", 4):
		ip := digits(r, 4+r.IntN(8), true)
		fl := 1 + r.IntN(6)
		g, m := ",", "."
		if use("num.grpdot", 3) {
			g, m = ".", ","
		} else if use("num.grpspace", 3) {
			g = " "
			if use("num.dec,", 2) {
				m = ","
			}
			if fl == 3 {
				fl = 2
			}
		}
		fp := digits(r, fl, false)
		return GNumber{groupDigits(ip, g) + m + fp, ratOf(ip + "." + fp), "grp" + g + m}
	case r.IntN(3) == 0:
		d := digits(r, 1+r.IntN(7), true)
		if r.IntN(8) == 0 {
			d = "0"
		}
		return GNumber{d, ratOf(d), "int"}
	default:
		ip := digits(r, 1+r.IntN(5), true)
		if r.IntN(5) == 0 {
			ip = "0"
		}
		fl := 1 + r.IntN(8)
		if fl == 3 && ip != "0" {
			fl = 2
		}
		fp := digits(r, fl, false)
		mark := "."
		if use("num.dec,", 4) {
			mark = ","
		}
		return GNumber{ip + mark + fp, ratOf(ip + "." + fp), "dec" + mark}
	}
}

func abs(x int) int {
	if x < 0 {
		return -x
	}
	return x
}

func upperWord(r *rand.Rand) string {
	n := 1 + r.IntN(4)
	b := make([]byte, n)
	for i := range b {
		b[i] = byte('A' + r.IntN(26))
	}
	if b[0] == 'E' {
		b[0] = 'U'
	}
	return string(b)
}

func genQuoted(r *rand.Rand) string {
	n := 1 + r.IntN(8)
	var sb strings.Builder
	for i := 0; i < n; i++ {
		c := genChar(r)
		for c == '"' || c == '\t' || c >= 0x10000 {
			c = genChar(r)
		}
		sb.WriteRune(c)
	}
	s := strings.TrimSpace(sb.String())
	if s == "" {
		s = "AAPL 2"
	}
	return s
}

// genCommodity: base = upper-case ASCII word; optional: currency symbol, quoted, and (right
// side only) mixed-case alphanumeric or other-script word.
func genCommodity(r *rand.Rand, o GOpts, feat map[string]bool, right bool) (string, bool) {
	c, q, _ := genCommodityCls(r, o, feat, right)
	return c, q
}

func genCommodityCls(r *rand.Rand, o GOpts, feat map[string]bool, right bool) (string, bool, string) {
	use := func(name string, k int) bool {
		if o.on(r, name, k) {
			feat[name] = true
			return true
		}
		return false
	}
	switch {
	case use("com.symbol", 4):
		return pick(r, curSyms), false, "symbol"
	case use("com.quoted", 8):
		return genQuoted(r), true, "quoted"
	case right && use("com.lower", 5):
		n := 1 + r.IntN(6)
		b := make([]rune, n)
		for i := range b {
			if i > 0 && r.IntN(4) == 0 {
				b[i] = rune('0' + r.IntN(10))
			} else {
				b[i] = pick(r, asciiLetters)
			}
		}
		if b[0] == 'E' || b[0] == 'e' {
			b[0] = 'h'
		}
		b[n-1] = rune('a' + r.IntN(26))
		return string(b), false, "lower"
	case right && use("com.script", 6):
		n := 1 + r.IntN(3)
		b := make([]rune, n)
		for i := range b {
			b[i] = pick(r, []rune("абвгРубж"))
		}
		return string(b), false, "script"
	}
	return upperWord(r), false, "upper"
}

// genAmount draws an amount in one of the shapes of 4.2.  Base: `NUMBER UPPER` (right
// commodity after one blank).
func genAmount(r *rand.Rand, o GOpts, feat map[string]bool) *GAmount {
	return genAmountSigned(r, o, feat, true)
}

// genAmountSigned: allowNeg = false never writes a minus sign (costs are written non-negative).
func genAmountSigned(r *rand.Rand, o GOpts, feat map[string]bool, allowNeg bool) *GAmount {
	use := func(name string, k int) bool {
		if o.on(r, name, k) {
			feat[name] = true
			return true
		}
		return false
	}
	num := genNumber(r, o, feat)
	sign := ""
	if allowNeg && use("amt.neg", 3) {
		sign = "-"
	} else if use("amt.plus", 10) {
		sign = "+"
	}
	val := new(big.Rat).Set(num.Value)
	if sign == "-" {
		val.Neg(val)
	}
	a := &GAmount{Value: val}
	q := func(s string, quoted bool) string {
		if quoted {
			return `"` + s + `"`
		}
		return s
	}
	switch {
	case use("amt.lcomm", 3):
		com, quoted, cls := genCommodityCls(r, o, feat, false)
		a.Com, a.Side, a.Quoted, a.Cls = com, 0, quoted, cls
		sp := ""
		if quoted || use("amt.lcomm.space", 3) {
			sp = " "
			a.Sp = true
		}
		if sign != "" && use("amt.sign-before-lcomm", 2) {
			a.Text = sign + q(com, quoted) + sp + num.Text
			a.Shape = "sign-lcomm-num"
			a.SignPos = 1
		} else {
			a.Text = q(com, quoted) + sp + sign + num.Text
			a.Shape = "lcomm-sign-num"
			if sign != "" {
				a.SignPos = 2
			}
		}
	case use("amt.bare", 7):
		a.Side = 2
		a.Text = sign + num.Text
		a.Shape = "bare"
		if sign != "" {
			a.SignPos = 2
		}
	default:
		com, quoted, cls := genCommodityCls(r, o, feat, true)
		a.Com, a.Side, a.Quoted, a.Cls = com, 1, quoted, cls
		sp := " "
		a.Sp = true
		if sign != "" {
			a.SignPos = 2
		}
		if !quoted && num.Shape != "exp" && use("amt.rcomm.nospace", 4) {
			sp = ""
			a.Sp = false
		}
		a.Text = sign + num.Text + sp + q(com, quoted)
		a.Shape = "num-rcomm"
	}
	a.Shape += ":" + num.Shape
	a.Num = num.Shape
	return a
}

func genSeg(r *rand.Rand, first bool, o GOpts, feat map[string]bool) string {
	use := func(name string, k int) bool {
		if o.on(r, name, k) {
			feat[name] = true
			return true
		}
		return false
	}
	n := 1 + r.IntN(10)
	var out []rune
	for i := 0; i < n; i++ {
		var c rune
		switch {
		case first && i == 0:
			if use("acct.script", 4) {
				c = pick(r, scriptLetters)
			} else {
				c = pick(r, asciiLetters)
			}
		case use("acct.digit", 10):
			c = pick(r, asciiDigits)
		case use("acct.script", 10):
			c = pick(r, scriptLetters)
		case use("acct.punct", 10):
			c = pick(r, segPunct)
		case i > 0 && i < n-1 && out[len(out)-1] != ' ' && use("acct.space", 14):
			c = ' '
		default:
			c = pick(r, asciiLetters)
		}
		out = append(out, c)
	}
	return strings.TrimRight(string(out), " ")
}

func genAccount(r *rand.Rand, o GOpts, feat map[string]bool) string {
	n := 2 + r.IntN(3)
	segs := make([]string, n)
	for i := range segs {
		segs[i] = genSeg(r, i == 0, o, feat)
	}
	if r.IntN(3) == 0 {
		segs[0] = pick(r, []string{"assets", "expenses", "Liabilities", "income", "equity", "revenues"})
	}
	return strings.Join(segs, ":")
}

func genFreeText(r *rand.Rand, maxLen int, forbid string, o GOpts) string {
	n := 1 + r.IntN(maxLen)
	var sb strings.Builder
	for i := 0; i < n; i++ {
		c := genChar(r)
		for strings.ContainsRune(forbid, c) || c == '\t' || (o.NoNonBMP && c >= 0x10000) {
			c = genChar(r)
		}
		sb.WriteRune(c)
	}
	return strings.TrimSpace(sb.String())
}

var plainWords = []string{"groceries", "rent", "coffee with Ann", "salary", "café", "книга", "train ticket", "lunch 😀", "x", "Grocery store"}

// genDescr: text, payee or note (DESIGN 4.2): 1..40 chars, none of ; | NL, first and last not
// blank, first char not ( * ! =.  Base: a few words starting with a letter, no colon, not
// an upper-case-only first word.
func genDescr(r *rand.Rand, o GOpts, feat map[string]bool) string {
	use := func(name string, k int) bool {
		if o.on(r, name, k) {
			feat[name] = true
			return true
		}
		return false
	}
	switch {
	case use("desc.allcaps", 14):
		return pick(r, []string{"ACME", "IBM", "ATM WITHDRAWAL", "UPS STORE"})
	case use("desc.leading-digit", 14):
		return pick(r, []string{"100 things", "7-Eleven", "3M company"})
	case use("desc.colon", 14):
		return pick(r, []string{"shop: food", "a:b", "note: x y"})
	case use("desc.currency", 14):
		return pick(r, []string{"$ store", "€uro shop", "5 $ shop"})
	case use("desc.free", 5):
		for {
			s := genFreeText(r, 30, ";|", o)
			if s == "" || strings.ContainsRune("(*!=", rune(s[0])) {
				continue
			}
			return s
		}
	}
	return pick(r, plainWords)
}

func genTags(r *rand.Rand) ([]GTag, string) {
	n := 1 + r.IntN(3)
	var tags []GTag
	var parts []string
	used := map[string]bool{}
	for i := 0; i < n; i++ {
		name := pick(r, []string{"project", "trip", "who", "k-1", "a_b", "date", "T2"})
		if used[name] {
			continue
		}
		used[name] = true
		val := ""
		if r.IntN(4) != 0 {
			val = pick(r, []string{"alpha", "2024-01-05", "x y", "Прага", "v1"})
		}
		tags = append(tags, GTag{name, val})
		if val == "" {
			parts = append(parts, name+":")
		} else if r.IntN(2) == 0 {
			parts = append(parts, name+":"+val)
		} else {
			parts = append(parts, name+": "+val)
		}
	}
	return tags, strings.Join(parts, ", ")
}

// genComment returns the comment text as written after ';' and the tags it carries.
func genComment(r *rand.Rand, o GOpts, feat map[string]bool) (string, []GTag) {
	if o.on(r, "tags", 3) {
		feat["tags"] = true
		tags, s := genTags(r)
		if r.IntN(2) == 0 {
			return " " + s, tags
		}
		return s, tags
	}
	if o.on(r, "comment.free", 3) {
		feat["comment.free"] = true
		s := genFreeText(r, 20, ":,", o)
		lead := " "
		if r.IntN(4) == 0 {
			lead = ""
		}
		return lead + s, nil
	}
	return " " + pick(r, plainWords), nil
}

func blanks(r *rand.Rand, lo, hi int) string { return strings.Repeat(" ", lo+r.IntN(hi-lo+1)) }

func genGap(r *rand.Rand, o GOpts, feat map[string]bool) string {
	if o.on(r, "tabgap", 6) {
		feat["tabgap"] = true
		if r.IntN(2) == 0 {
			return "\t"
		}
		return blanks(r, 1, 3) + "\t"
	}
	return blanks(r, 2, 6)
}

func genIndent(r *rand.Rand, o GOpts, feat map[string]bool) string {
	if o.on(r, "tabindent", 8) {
		feat["tabindent"] = true
		return "\t"
	}
	return blanks(r, 1, 8)
}

func genDate(r *rand.Rand, o GOpts, feat map[string]bool) ([3]int, string) {
	y := 1990 + r.IntN(50)
	m := 1 + r.IntN(12)
	d := 1 + r.IntN(28)
	sep := "-"
	if o.on(r, "date.sep", 2) {
		feat["date.sep"] = true
		sep = pick(r, []string{"/", "."})
	}
	ms, ds := fmt.Sprintf("%02d", m), fmt.Sprintf("%02d", d)
	if o.on(r, "date.short", 4) {
		feat["date.short"] = true
		ms, ds = fmt.Sprintf("%d", m), fmt.Sprintf("%d", d)
	}
	return [3]int{y, m, d}, fmt.Sprintf("%04d%s%s%s%s", y, sep, ms, sep, ds)
}

type lineWriter struct {
	sb    strings.Builder
	nl    string
	line  int
	accts []string // accounts posted to so far in this journal (see "account.reuse")
	year  int      // default year in force (last Y / year directive), 0 if none
	lastP string   // spelling of the last partial date written (M s D)
	lastMD [2]int
	repeatP bool   // a Y directive followed a partial date: the next transaction repeats its spelling
}

// reuseAccount: real journals post to the same few accounts again and again, as ordinary and as
// virtual postings; half of the time the longest account so far is taken, so that the widest
// line of a journal is regularly a bracketed repetition of a name seen before (seed r5-C05
// measured every account name once and missed the two columns of the brackets).
func (w *lineWriter) reuseAccount(r *rand.Rand) string {
	if r.IntN(2) == 0 {
		best := w.accts[0]
		for _, a := range w.accts {
			if len([]rune(a)) > len([]rune(best)) {
				best = a
			}
		}
		return best
	}
	return w.accts[r.IntN(len(w.accts))]
}

func (w *lineWriter) put(s string) { w.sb.WriteString(s); w.sb.WriteString(w.nl); w.line++ }

func genTransaction(r *rand.Rand, w *lineWriter, o GOpts, feat map[string]bool) GEntry {
	use := func(name string, k int) bool {
		if o.on(r, name, k) {
			feat[name] = true
			return true
		}
		return false
	}
	e := GEntry{Kind: "tx", FirstLine: w.line}
	var hd strings.Builder
	date, ds := genDate(r, o, feat)
	if w.year != 0 && (o.on(r, "date.partial", 2) || (w.repeatP && !o.Deny["date.partial"])) {
		// G 4.2: `M s D` after a Y / year directive.  Half of the partial dates repeat the
		// spelling of the previous one (the same day of another year, after another Y directive:
		// seed r6-C03 remembered the last date by its spelling).
		feat["date.partial"] = true
		if w.lastP != "" && (w.repeatP || r.IntN(2) == 0) {
			w.repeatP = false
			ds = w.lastP
			date = [3]int{w.year, w.lastMD[0], w.lastMD[1]}
		} else {
			i := strings.IndexAny(ds, "-/.")
			ds = ds[i+1:]
			date[0] = w.year
			w.lastP, w.lastMD = ds, [2]int{date[1], date[2]}
		}
	}
	e.Date = date
	hd.WriteString(ds)
	if use("date2", 6) {
		d2, ds2 := genDate(r, o, feat)
		e.Date2 = &d2
		hd.WriteString("=" + ds2)
	}
	if use("status", 3) {
		e.Status = 1 + r.IntN(2)
		hd.WriteString(blanks(r, 1, 3) + []string{"", "!", "*"}[e.Status])
	}
	if use("code", 5) {
		e.HasCode = true
		e.Code = pick(r, []string{"123", "INV-7", "a b", "чек 5", "#42"})
		hd.WriteString(blanks(r, 1, 3) + "(" + e.Code + ")")
	}
	if !use("desc.none", 8) {
		if use("pipe", 5) {
			e.HasPipe = true
			e.Payee = genDescr(r, o, feat)
			e.Note = genDescr(r, o, feat)
			e.Desc = e.Payee + " | " + e.Note
			hd.WriteString(blanks(r, 1, 3) + e.Payee + blanks(r, 0, 2) + "|" + blanks(r, 0, 2) + e.Note)
		} else {
			e.Desc = genDescr(r, o, feat)
			hd.WriteString(blanks(r, 1, 3) + e.Desc)
		}
	}
	if use("tx.comment", 6) {
		c, tags := genComment(r, o, feat)
		e.HasCmt, e.Comment, e.Tags = true, c, tags
		hd.WriteString(blanks(r, 0, 3) + ";" + c)
	}
	w.put(hd.String())
	n := 1 + r.IntN(5)
	for i := 0; i < n; i++ {
		if use("tx.commentline", 10) {
			c, _ := genComment(r, o, feat)
			e.TxCmts = append(e.TxCmts, c)
			w.put(genIndent(r, o, feat) + ";" + c)
			continue
		}
		p := GPosting{Line: w.line}
		var ln strings.Builder
		ln.WriteString(genIndent(r, o, feat))
		if use("posting.status", 8) {
			p.Status = 1 + r.IntN(2)
			ln.WriteString([]string{"", "!", "*"}[p.Status] + " ")
		}
		if len(w.accts) > 0 && use("account.reuse", 4) {
			p.Account = w.reuseAccount(r)
		} else {
			p.Account = genAccount(r, o, feat)
			w.accts = append(w.accts, p.Account)
		}
		switch {
		case use("virtual.balanced", 8):
			p.Virt = 1
			ln.WriteString("[" + p.Account + "]")
		case use("virtual.unbalanced", 8):
			p.Virt = 2
			ln.WriteString("(" + p.Account + ")")
		default:
			ln.WriteString(p.Account)
		}
		if !use("amt.none", 6) {
			p.Amt = genAmount(r, o, feat)
			ln.WriteString(genGap(r, o, feat) + p.Amt.Text)
			if use("cost", 6) {
				// (removing "the" minus sign from a finished text took the wrong character when a
				// quoted commodity contained one: the sign is decided before the text is written)
				p.Cost = genAmountSigned(r, o, feat, false)
				p.Total = r.IntN(2) == 0
				op := "@"
				if p.Total {
					op = "@@"
				}
				ln.WriteString(blanks(r, 1, 3) + op + blanks(r, 1, 3) + p.Cost.Text)
			}
			if use("assertion", 8) {
				p.Assert = genAmount(r, o, feat)
				p.Strict = r.IntN(3) == 0
				op := "="
				if p.Strict {
					op = "=="
				}
				ln.WriteString(blanks(r, 1, 3) + op + blanks(r, 1, 3) + p.Assert.Text)
			}
		}
		if use("posting.comment", 6) {
			c, tags := genComment(r, o, feat)
			p.HasCmt, p.Comment, p.Tags = true, c, tags
			sp := blanks(r, 2, 3)
			if use("comment.nogap", 3) {
				sp = blanks(r, 0, 1)
			}
			ln.WriteString(sp + ";" + c)
		}
		e.Postings = append(e.Postings, p)
		w.put(ln.String())
	}
	if len(e.Postings) == 0 {
		p := GPosting{Line: w.line, Account: genAccount(r, o, feat)}
		e.Postings = append(e.Postings, p)
		w.put(genIndent(r, o, feat) + p.Account)
	}
	e.LastLine = w.line - 1
	return e
}

func genFormatSample(r *rand.Rand, o GOpts, feat map[string]bool) (sym, format string) {
	num := []string{"1000.00", "1,000.00", "1.000,00", "1 000,00", "1000", "1,000.000", "1000,5", "1.000", "1,000"}[r.IntN(9)]
	if r.IntN(2) == 0 {
		c, q := genCommodity(r, o, feat, false)
		if q {
			c = "USD"
		}
		return c, c + num
	}
	c, q := genCommodity(r, o, feat, true)
	if q {
		c = "EUR"
	}
	return c, num + " " + c
}

func genDirective(r *rand.Rand, w *lineWriter, o GOpts, feat map[string]bool) GEntry {
	e := GEntry{FirstLine: w.line}
	kinds := []string{"account", "commodity", "include", "P", "Y", "D", "comment"}
	var avail []string
	for _, k := range kinds {
		if o.Deny["dir."+k] || (o.Only != nil && !o.Only["dir."+k]) || (o.NoInclude && k == "include") {
			continue
		}
		avail = append(avail, k)
	}
	if len(avail) == 0 {
		return genTransaction(r, w, o, feat)
	}
	e.Kind = pick(r, avail)
	switch e.Kind {
	case "account":
		e.Account = genAccount(r, o, feat)
		ln := "account " + e.Account
		if o.on(r, "dir.account.comment", 4) {
			feat["dir.account.comment"] = true
			c, tags := genComment(r, o, feat)
			e.HasCmt, e.Comment, e.Tags = true, c, tags
			ln += blanks(r, 2, 4) + ";" + c
		}
		w.put(ln)
		if o.on(r, "dir.account.sub", 5) {
			feat["dir.account.sub"] = true
			c, _ := genComment(r, o, feat)
			w.put(genIndent(r, o, feat) + ";" + c)
		}
	case "commodity":
		sym, format := genFormatSample(r, o, feat)
		e.Symbol = sym
		switch r.IntN(3) {
		case 0:
			e.Format = format
			w.put("commodity " + format)
		case 1:
			w.put("commodity " + sym)
		default:
			e.Format = format
			w.put("commodity " + sym)
			w.put(genIndent(r, o, feat) + "format " + format)
		}
	case "include":
		e.Path = pick(r, []string{"other.journal", "sub/2024.journal", "./x.journal", "../y.journal", "~/z.journal", "*.journal", "/abs/path.journal"})
		w.put("include " + e.Path)
	case "P":
		d, ds := genDate(r, o, feat)
		e.Date = d
		c, q := genCommodity(r, o, feat, true)
		if q {
			c = "AAPL"
		}
		e.Symbol = c
		e.Price = genAmount(r, o, feat)
		for e.Price.Side == 2 {
			e.Price = genAmount(r, o, feat)
		}
		w.put("P " + ds + " " + c + " " + e.Price.Text)
	case "Y":
		e.Year = 1990 + r.IntN(50)
		w.put(pick(r, []string{"Y", "year"}) + " " + fmt.Sprintf("%d", e.Year))
		w.year = e.Year
		w.repeatP = w.lastP != ""
	case "D":
		sym, format := genFormatSample(r, o, feat)
		e.Symbol, e.Format = sym, format
		w.put("D " + format)
	default:
		c, tags := genComment(r, o, feat)
		e.Text, e.Tags = c, tags
		w.put(";" + c)
	}
	feat["dir."+e.Kind] = true
	e.LastLine = w.line - 1
	return e
}

func genJournal(r *rand.Rand, o GOpts) *GJournal {
	j := &GJournal{Feat: map[string]bool{}}
	if o.on(r, "crlf", 4) {
		j.CRLF = true
		j.Feat["crlf"] = true
	}
	w := &lineWriter{nl: "\n"}
	if j.CRLF {
		w.nl = "\r\n"
	}
	n := 1 + r.IntN(o.MaxEntries)
	for i := 0; i < n; i++ {
		var e GEntry
		if o.OnlyTx || r.IntN(3) != 0 {
			e = genTransaction(r, w, o, j.Feat)
		} else {
			e = genDirective(r, w, o, j.Feat)
		}
		j.Entries = append(j.Entries, e)
		sep := 1 + r.IntN(3)
		if i < n-1 && o.on(r, "tight", 4) {
			sep = 0
			j.Feat["tight"] = true
		}
		if i == n-1 && o.on(r, "noeol", 5) {
			// the file ends with the last character of its last entry: no final line end
			// (editors do not add one unless asked)
			j.Feat["noeol"] = true
			j.Text = strings.TrimSuffix(w.sb.String(), w.nl)
			return j
		}
		for k := 0; k < sep; k++ {
			w.put("")
		}
	}
	j.Text = w.sb.String()
	return j
}

// ---- JSON view of the ground truth (decoded by lean/HL/Driver/GJson.lean) ----

func ratJ(v *big.Rat) string { return v.Num().String() + "/" + v.Denom().String() }

func gAmountJ(a *GAmount) any {
	if a == nil {
		return nil
	}
	return J{"q": ratJ(a.Value), "com": hx(a.Com), "side": a.Side, "quoted": a.Quoted, "shape": a.Shape, "text": hx(a.Text),
		"cls": a.Cls, "sp": a.Sp, "signpos": a.SignPos, "num": a.Num}
}

func gTagsJ(ts []GTag) []J {
	out := []J{}
	for _, t := range ts {
		out = append(out, J{"n": hx(t.Name), "v": hx(t.Value)})
	}
	return out
}

func gEntryJ(e GEntry) J {
	j := J{"k": e.Kind, "first": e.FirstLine, "last": e.LastLine}
	switch e.Kind {
	case "tx":
		ps := []J{}
		for _, p := range e.Postings {
			ps = append(ps, J{"st": p.Status, "virt": p.Virt, "acc": hx(p.Account), "amt": gAmountJ(p.Amt),
				"cost": gAmountJ(p.Cost), "total": p.Total, "ba": gAmountJ(p.Assert), "strict": p.Strict,
				"cmt": hx(p.Comment), "hascmt": p.HasCmt, "tags": gTagsJ(p.Tags), "line": p.Line})
		}
		j["date"] = e.Date[:]
		if e.Date2 != nil {
			j["date2"] = e.Date2[:]
		} else {
			j["date2"] = nil
		}
		j["st"], j["code"], j["hascode"] = e.Status, hx(e.Code), e.HasCode
		j["desc"], j["payee"], j["note"], j["pipe"] = hx(e.Desc), hx(e.Payee), hx(e.Note), e.HasPipe
		j["cmt"], j["hascmt"], j["tags"] = hx(e.Comment), e.HasCmt, gTagsJ(e.Tags)
		cl := []string{}
		for _, c := range e.TxCmts {
			cl = append(cl, hx(c))
		}
		j["cmtlines"] = cl
		j["ps"] = ps
	case "account":
		j["acc"], j["cmt"], j["hascmt"], j["tags"] = hx(e.Account), hx(e.Comment), e.HasCmt, gTagsJ(e.Tags)
	case "commodity", "D":
		j["sym"], j["fmt"] = hx(e.Symbol), hx(e.Format)
	case "include":
		j["path"] = hx(e.Path)
	case "P":
		j["date"], j["sym"], j["price"] = e.Date[:], hx(e.Symbol), gAmountJ(e.Price)
	case "Y":
		j["year"] = e.Year
	case "comment":
		j["text"], j["tags"] = hx(e.Text), gTagsJ(e.Tags)
	}
	return j
}

func gJournalJ(g *GJournal) J {
	es := []J{}
	for _, e := range g.Entries {
		es = append(es, gEntryJ(e))
	}
	feats := []string{}
	for k := range g.Feat {
		feats = append(feats, k)
	}
	sortStrings(feats)
	return J{"entries": es, "crlf": g.CRLF, "feat": feats}
}
