package main

// C05 / C04: document formatting.  Generators for journals of grammar G (DESIGN 4.2/4.3) with
// damages, CRLF variants and arbitrary text, crossed with formatting options and commodity
// formats.  The implementation side runs the real parser and the real formatter; the result of
// applying the edits (reference applier below, mirrored by lean/HL/Spec/EditSpec.lean) is parsed
// and formatted again with the real code so that the Lean driver can judge idempotence and
// preservation of meaning.

import (
	"fmt"
	"math/big"
	"math/rand/v2"
	"sort"
	"strings"
	"unicode"
	"unicode/utf8"

	"github.com/shopspring/decimal"
	"go.lsp.dev/protocol"

	"github.com/juev/hledger-lsp/internal/ast"
	"github.com/juev/hledger-lsp/internal/formatter"
	"github.com/juev/hledger-lsp/internal/parser"
	"github.com/juev/hledger-lsp/internal/server"
)

func init() {
	register("C05", func(c *Ctx) { genC05(c); genC05Core(c) })
	register("C04", func(c *Ctx) { genC05(c); genC05Core(c) })
	replayers["c05.format"] = func(c *Ctx, m map[string]any) map[string]any {
		currentProp = c.Prop
		doc := unhx(m["doc"].(string))
		formats := formatsFromJ(m["formats"])
		o, _ := m["opts"].(map[string]any)
		opts := formatter.Options{IndentSize: jint(o["indent"]), AlignAmounts: jbool(o["align"]), MinAlignmentColumn: jint(o["mincol"])}
		var tree *ast.Journal
		if mut, ok := m["mut"].(string); ok && mut != "" {
			// mutated trees cannot be recomputed from the text: keep the recorded one
			return nil
		}
		_ = tree
		return formatCase(doc, formats, opts)
	}
	replayers["c05.number"] = func(c *Ctx, m map[string]any) map[string]any {
		q, _ := m["q"].(map[string]any)
		coef, _ := new(big.Int).SetString(q["c"].(string), 10)
		return numberCase(unhx(m["fmt"].(string)), decimal.NewFromBigInt(coef, int32(jint(q["e"]))), nfFromJ(m["nf"]))
	}
	replayers["c05.nd"] = func(c *Ctx, m map[string]any) map[string]any { return ndCase() }
}

func jint(v any) int {
	f, _ := v.(float64)
	return int(f)
}
func jbool(v any) bool {
	b, _ := v.(bool)
	return b
}

// ---------------------------------------------------------------- canonical JSON

func nfJ(f formatter.NumberFormat) J {
	return J{"mark": int(f.DecimalMark), "sep": hx(f.ThousandsSep), "places": f.DecimalPlaces, "dec": f.HasDecimal}
}
func nfFromJ(v any) formatter.NumberFormat {
	m, _ := v.(map[string]any)
	return formatter.NumberFormat{DecimalMark: rune(jint(m["mark"])), ThousandsSep: unhx(m["sep"].(string)),
		DecimalPlaces: jint(m["places"]), HasDecimal: jbool(m["dec"])}
}
func formatsJ(m map[string]formatter.NumberFormat) any {
	if m == nil {
		return nil
	}
	keys := make([]string, 0, len(m))
	for k := range m {
		keys = append(keys, hx(k))
	}
	sort.Strings(keys)
	out := []any{}
	for _, k := range keys {
		out = append(out, []any{k, nfJ(m[unhx(k)])})
	}
	return out
}
func formatsFromJ(v any) map[string]formatter.NumberFormat {
	a, ok := v.([]any)
	if !ok {
		return nil
	}
	m := map[string]formatter.NumberFormat{}
	for _, e := range a {
		p := e.([]any)
		m[unhx(p[0].(string))] = nfFromJ(p[1])
	}
	return m
}
func editsJ(es []protocol.TextEdit) []any {
	out := []any{}
	for _, e := range es {
		out = append(out, []any{int(e.Range.Start.Line), int(e.Range.Start.Character), int(e.Range.End.Line),
			int(e.Range.End.Character), hx(e.NewText)})
	}
	return out
}

// ---------------------------------------------------------------- reference applier (Go copy)

// refOffset maps an LSP position to a byte offset the way a conforming client does: the
// content of a line excludes its terminator ("\n" or "\r\n"), a character past the content
// clamps to its end, a line past the last line is the end of the text.
func refOffset(lines []string, starts []int, total int, line, ch int) int {
	if line >= len(lines) {
		return total
	}
	l := strings.TrimSuffix(lines[line], "\r")
	off, n := 0, 0
	for off < len(l) {
		r, size := utf8.DecodeRuneInString(l[off:])
		w := 1
		if r >= 0x10000 {
			w = 2
		}
		if n+w > ch {
			break
		}
		n += w
		off += size
	}
	return starts[line] + off
}

// refApply applies all edits simultaneously to the original text; ok=false when two edits
// overlap or an edit has start > end.
func refApply(doc string, es []protocol.TextEdit) (string, bool) {
	lines := strings.Split(doc, "\n")
	starts := make([]int, len(lines))
	o := 0
	for i, l := range lines {
		starts[i] = o
		o += len(l) + 1
	}
	type be struct {
		s, e, i int
		t    string
	}
	var bs []be
	for i, e := range es {
		s := refOffset(lines, starts, len(doc), int(e.Range.Start.Line), int(e.Range.Start.Character))
		t := refOffset(lines, starts, len(doc), int(e.Range.End.Line), int(e.Range.End.Character))
		if s > t {
			return "", false
		}
		bs = append(bs, be{s, t, i, e.NewText})
	}
	sort.SliceStable(bs, func(a, b int) bool { return bs[a].s < bs[b].s })
	var sb strings.Builder
	pos := 0
	for _, b := range bs {
		if b.s < pos {
			return "", false
		}
		sb.WriteString(doc[pos:b.s])
		sb.WriteString(b.t)
		pos = b.e
	}
	sb.WriteString(doc[pos:])
	return sb.String(), true
}

// ---------------------------------------------------------------- the cases

func formatCase(doc string, formats map[string]formatter.NumberFormat, opts formatter.Options) map[string]any {
	j, errs := hxParse(doc)
	return formatCaseTree(doc, j, errs, formats, opts, "")
}

func formatCaseTree(doc string, j *ast.Journal, errs []parser.ParseError, formats map[string]formatter.NumberFormat,
	opts formatter.Options, mut string) map[string]any {
	return formatCaseEdits(doc, j, errs, formats, opts, mut, nil)
}

// formatCaseEdits: given != nil are edits obtained elsewhere (the textDocument/formatting handler
// of a real server) for the same text, formats and options.
func formatCaseEdits(doc string, j *ast.Journal, errs []parser.ParseError, formats map[string]formatter.NumberFormat,
	opts formatter.Options, mut string, given []protocol.TextEdit) map[string]any {
	var edits []protocol.TextEdit
	if given != nil {
		edits = given
	} else if mut == "" {
		// the real Server.Format path: parse, skip lines with errors, format
		edits = server.VerifFormatText(doc, formats, opts)
	} else {
		o := opts
		o.SkipLines = map[int]bool{}
		for _, e := range errs {
			o.SkipLines[e.Pos.Line-1] = true
		}
		edits = formatter.FormatDocumentWithOptions(j, doc, formats, o)
	}
	out := map[string]any{
		"doc": hx(doc), "tree": journalJ(j), "errs": perrsJ(errs), "formats": formatsJ(formats),
		"opts": J{"indent": opts.IndentSize, "align": opts.AlignAmounts, "mincol": opts.MinAlignmentColumn},
		"impl": editsJ(edits), "mut": mut, "prop": currentProp,
	}
	if mut != "" {
		return out
	}
	doc2, ok := refApply(doc, edits)
	if !ok {
		out["doc2"] = nil
		return out
	}
	j2, errs2 := hxParse(doc2)
	second := server.VerifFormatText(doc2, formats, opts)
	out["doc2"] = hx(doc2)
	out["tree2"] = journalJ(j2)
	out["errs2"] = perrsJ(errs2)
	out["second"] = editsJ(second)
	return out
}

func numberCase(fs string, q decimal.Decimal, nf formatter.NumberFormat) map[string]any {
	f := formatter.ParseNumberFormat(fs)
	return map[string]any{"fmt": hx(fs), "q": decJ(q), "nf": nfJ(nf), "impl": J{
		"np": hx(formatter.VerifExtractNumberPart(fs)), "nf": nfJ(f),
		"out": hx(formatter.FormatNumber(q, f)), "out2": hx(formatter.FormatNumber(q, nf)),
		"str": hx(q.String()), "faithful": formatter.VerifFormatIsFaithful(q, f), "faithful2": formatter.VerifFormatIsFaithful(q, nf),
	}}
}

func runeRanges(pred func(rune) bool) [][]int {
	var rs [][]int
	lo := -1
	for r := rune(0); r <= 0x110000; r++ {
		d := r <= 0x10FFFF && pred(r)
		if d && lo < 0 {
			lo = int(r)
		}
		if !d && lo >= 0 {
			rs = append(rs, []int{lo, int(r) - 1})
			lo = -1
		}
	}
	return rs
}

func ndCase() map[string]any {
	return map[string]any{"impl": runeRanges(unicode.IsDigit)}
}

// ---------------------------------------------------------------- generators

type g5 struct {
	noFormatDirs bool // no commodity / D directives in generated journals
	r *rand.Rand
	c *Ctx
	accts []string // accounts posted to so far in the journal being generated
}

func (g *g5) n(k int) int        { return g.r.IntN(k) }
func (g *g5) p(pct int) bool     { return g.r.IntN(100) < pct }
func (g *g5) of(xs ...string) string { return xs[g.r.IntN(len(xs))] }

var segPool = []string{"assets", "expenses", "food", "bank", "cash", "a", "b", "x1", "checking", "Активы", "Расходы",
	"Кошелек", "資産", "現金", "café", "naïve", "😀", "💰x", "𝄞", "my bank", "long account segment", "a-b", "c_d", "e.f", "R&D", "it's",
	"liabilities", "equity", "income", "salary"}

func (g *g5) account() string {
	k := 2 + g.n(3)
	if g.p(2) {
		k = 1
	}
	parts := make([]string, k)
	for i := range parts {
		parts[i] = segPool[g.n(len(segPool))]
	}
	// the first char of an account is a letter of any script
	for !unicode.IsLetter([]rune(parts[0])[0]) {
		parts[0] = segPool[g.n(len(segPool))]
	}
	s := strings.Join(parts, ":")
	// the first char of an account is a letter (ASCII or not)
	if s[0] >= '0' && s[0] <= '9' {
		s = "q" + s
	}
	return s
}

func (g *g5) digits(k int, firstNonZero bool) string {
	b := make([]byte, k)
	for i := range b {
		b[i] = byte('0' + g.n(10))
	}
	if firstNonZero && k > 0 && b[0] == '0' {
		b[0] = byte('1' + g.n(9))
	}
	return string(b)
}

func c5GroupDigits(s, sep string) string {
	if len(s) <= 3 {
		return s
	}
	var parts []string
	for len(s) > 3 {
		parts = append([]string{s[len(s)-3:]}, parts...)
		s = s[:len(s)-3]
	}
	parts = append([]string{s}, parts...)
	return strings.Join(parts, sep)
}

// number: the notations of DESIGN 4.3 (unsigned).
func (g *g5) number() string {
	id := g.digits(1+g.n(7), true)
	if g.p(10) {
		id = "0"
	}
	if g.p(4) {
		id = g.digits(10+g.n(6), true)
	}
	fr := ""
	if g.p(60) {
		fr = g.digits(1+g.n(4), false)
		if g.p(10) {
			fr = g.digits(5+g.n(8), false)
		}
	}
	switch g.n(12) {
	case 0, 1, 2, 3: // plain, point decimal
		g.c.Count("num.plain")
		if fr == "" {
			return id
		}
		return id + "." + fr
	case 4: // comma decimal
		g.c.Count("num.commadec")
		if fr == "" {
			return id
		}
		return id + "," + fr
	case 5:
		g.c.Count("num.group,")
		s := c5GroupDigits(id, ",")
		if fr != "" {
			s += "." + fr
		}
		return s
	case 6:
		g.c.Count("num.group.")
		s := c5GroupDigits(id, ".")
		if fr != "" {
			s += "," + fr
		}
		return s
	case 7:
		g.c.Count("num.groupsp")
		s := c5GroupDigits(id, " ")
		if fr != "" {
			s += g.of(",", ".") + fr
		}
		return s
	case 8:
		g.c.Count("num.trailingmark")
		return id + "."
	case 9:
		g.c.Count("num.exp")
		m := id
		if fr != "" {
			m += "." + fr
		}
		return m + g.of("E", "e") + g.of("", "+", "-") + fmt.Sprint(g.n(7))
	default:
		g.c.Count("num.int")
		return id
	}
}

var leftComms = []string{"$", "€", "£", "¥", "₽", "₴", "USD", "EUR", "AAPL", "BTC", "X"}
var rightComms = []string{"USD", "EUR", "RUB", "AAPL", "BTC", "hours", "h", "VTI2", "$", "€", "₽", "USD", "EUR", "CHF", "£"}

// right commodities the pinned lexer reads as free text up to the end of the line
var rightCommsText = []string{"руб", "Kč"}
var quotedComms = []string{"\"AAPL 2\"", "\"my fund\"", "\"X-1\"", "\"€ 5\"", "\"a\"", "\"2024\"", "\"Fonds №1\"", "\"😀\""}

func (g *g5) amount() string {
	sign := ""
	if g.p(35) {
		sign = "-"
	} else if g.p(6) {
		sign = "+"
	}
	num := g.number()
	switch g.n(10) {
	case 0, 1: // left commodity
		cm := leftComms[g.n(len(leftComms))]
		if g.p(12) {
			cm = quotedComms[g.n(len(quotedComms))]
			g.c.Count("amt.quoted")
		}
		sp := ""
		if g.p(25) {
			sp = " "
		}
		g.c.Count("amt.left")
		if g.p(50) {
			return sign + cm + sp + num
		}
		return cm + sp + sign + num
	case 2:
		g.c.Count("amt.bare")
		return sign + num
	default:
		cm := rightComms[g.n(len(rightComms))]
		if g.p(3) {
			cm = rightCommsText[g.n(len(rightCommsText))]
			g.c.Count("amt.textcommodity")
		}
		if g.p(8) {
			cm = quotedComms[g.n(len(quotedComms))]
			g.c.Count("amt.quoted")
		}
		sp := " "
		if g.p(15) {
			sp = ""
		}
		g.c.Count("amt.right")
		return sign + num + sp + cm
	}
}

func (g *g5) ws() string  { return strings.Repeat(" ", 1+g.n(3)) }
func (g *g5) gap() string {
	switch g.n(60) {
	case 0:
		g.c.Count("gap.tab")
		return "\t"
	case 1:
		g.c.Count("gap.tab")
		return strings.Repeat(" ", 1+g.n(3)) + "\t"
	default:
		return strings.Repeat(" ", 2+g.n(5))
	}
}

var commentPool = []string{"hello", "note for later", "tag:value", "project:alpha, status:done", "mixed text, k:v", "привет мир",
	"😀 fun", "date:2024-01-02", "x", "a;b", "trailing  blanks", "=", "k:"}

func (g *g5) comment() string {
	c := commentPool[g.n(len(commentPool))]
	if g.p(4) {
		g.c.Count("comment.blank")
		return ";" + strings.Repeat(" ", g.n(4))
	}
	switch g.n(6) {
	case 0:
		return ";" + c // no leading blank
	case 1:
		return ";  " + c
	case 2:
		return "; " + c + strings.Repeat(" ", 1+g.n(3)) // trailing blanks
	default:
		return "; " + c
	}
}

func (g *g5) indent() string {
	if g.p(8) {
		return "\t"
	}
	return strings.Repeat(" ", 1+g.n(8))
}

func (g *g5) posting() string {
	var sb strings.Builder
	sb.WriteString(g.indent())
	if g.p(15) {
		sb.WriteString(g.of("*", "!") + " ")
		g.c.Count("post.status")
	}
	acc := ""
	if len(g.accts) > 0 && g.p(25) {
		// journals post to the same accounts again and again, as ordinary and as virtual
		// postings: half of the time the longest name so far, so that the widest line is
		// regularly a bracketed repetition of a name seen before (seed r5-C05)
		acc = g.accts[g.n(len(g.accts))]
		if g.p(50) {
			for _, a := range g.accts {
				if len([]rune(a)) > len([]rune(acc)) {
					acc = a
				}
			}
		}
		g.c.Count("post.account.reused")
	} else {
		acc = g.account()
		g.accts = append(g.accts, acc)
	}
	switch g.n(10) {
	case 0:
		acc = "(" + acc + ")"
		g.c.Count("post.virtual")
	case 1:
		acc = "[" + acc + "]"
		g.c.Count("post.virtual")
	}
	sb.WriteString(acc)
	if g.p(80) {
		sb.WriteString(g.gap())
		sb.WriteString(g.amount())
		if g.p(4) {
			// hledger syntax this project does not read (yet): a lot price, a cost in parentheses.
			// Whatever the parser makes of it, formatting must not lose it.
			sb.WriteString(g.ws() + g.of("{", "{=", "{{") + g.amount() + g.of("}", "}", "}}"))
			g.c.Count("post.foreign.lot")
		}
		if g.p(15) {
			op := g.of("@", "@@")
			if g.p(8) {
				op = "(" + op + ")"
				g.c.Count("post.foreign.cost")
			}
			sb.WriteString(g.ws() + op + g.ws() + g.amount())
			g.c.Count("post.cost")
		}
		if g.p(15) {
			sb.WriteString(g.ws() + g.assertOp() + g.ws() + g.amount())
			g.c.Count("post.assert")
		}
	} else if g.p(20) {
		sb.WriteString(g.gap() + g.assertOp() + g.ws() + g.amount())
		g.c.Count("post.assertonly")
	}
	if g.p(25) {
		if g.p(80) {
			sb.WriteString(g.ws())
		}
		sb.WriteString(g.comment())
		g.c.Count("post.comment")
	}
	if g.p(8) {
		sb.WriteString(strings.Repeat(" ", 1+g.n(3)))
		g.c.Count("post.trailingblank")
	}
	return sb.String()
}

// assertOp: `=` and `==`, and now and then hledger's subaccount-inclusive forms `=*` / `==*`,
// which this project does not read (yet): if a line with one of them is understood at all, the
// formatted line must still say the same.
func (g *g5) assertOp() string {
	if g.p(7) {
		g.c.Count("post.foreign.assert")
		return g.of("=*", "==*")
	}
	return g.of("=", "==")
}

var descrPool = []string{"grocery store", "Salary", "Rent | march", "payee|note", "Кафе", "😀 party", "x", "Gas & Oil", "café «Zoé»"}

// members of G the pinned parser rejects (DESIGN 8 #3): kept rare so that most transactions parse
var descrRejected = []string{"ACME", "shop: food", "100 things", "$ store"}

func (g *g5) date() string {
	s := g.of("-", "/", ".")
	return fmt.Sprintf("20%02d%s%02d%s%02d", 10+g.n(20), s, 1+g.n(12), s, 1+g.n(28))
}

func (g *g5) transaction() []string {
	h := g.date()
	if g.p(10) {
		h += "=" + g.date()
	}
	if g.p(30) {
		h += g.ws() + g.of("*", "!")
	}
	if g.p(15) {
		h += g.ws() + "(" + g.of("123", "INV-7", "chk 9") + ")"
	}
	if g.p(85) {
		if g.p(3) {
			h += g.ws() + descrRejected[g.n(len(descrRejected))]
			g.c.Count("tx.descr.rejected")
		} else {
			h += g.ws() + descrPool[g.n(len(descrPool))]
		}
	}
	if g.p(15) {
		h += g.ws() + g.comment()
	}
	if g.p(10) {
		h += strings.Repeat(" ", 1+g.n(4))
		g.c.Count("line.trailingblank")
	}
	lines := []string{h}
	k := 1 + g.n(5)
	for i := 0; i < k; i++ {
		if g.p(10) {
			lines = append(lines, g.indent()+g.comment())
			g.c.Count("tx.commentline")
		}
		lines = append(lines, g.posting())
	}
	g.c.Count(fmt.Sprintf("tx.postings=%d", k))
	return lines
}

// format sample: DESIGN 4.3 x 0..8 decimals
func (g *g5) formatNumberSample() string {
	dec := g.n(9)
	ip := g.of("1000", "1", "1000000", "0", "10")
	fr := strings.Repeat("0", dec)
	switch g.n(8) {
	case 0: // 1,000.00
		s := c5GroupDigits(ip, ",")
		if dec > 0 {
			s += "." + fr
		}
		return s
	case 1: // 1.000,00
		s := c5GroupDigits(ip, ".")
		if dec > 0 {
			s += "," + fr
		}
		return s
	case 2: // 1 000,00 / 1 000.00
		s := c5GroupDigits(ip, " ")
		if dec > 0 {
			s += g.of(",", ".") + fr
		}
		return s
	case 3: // comma decimal no groups
		if dec > 0 {
			return ip + "," + fr
		}
		return ip
	case 4:
		return ip + "."
	default:
		if dec > 0 {
			return ip + "." + fr
		}
		return ip
	}
}

func (g *g5) formatSample() (sym string, text string) {
	num := g.formatNumberSample()
	if g.p(40) {
		sym = leftComms[g.n(len(leftComms))]
		return sym, sym + num
	}
	sym = rightComms[g.n(len(rightComms))]
	return sym, num + " " + sym
}

func (g *g5) directive() []string {
	x := g.n(10)
	if g.noFormatDirs && x <= 4 {
		x = 9
	}
	switch x {
	case 0, 1, 2:
		sym, f := g.formatSample()
		g.c.Count("dir.commodity")
		if g.p(50) {
			return []string{"commodity " + f}
		}
		_, f2 := g.formatSample()
		_ = f2
		num := g.formatNumberSample()
		ff := num + " " + sym
		if g.p(40) {
			ff = sym + num
		}
		return []string{"commodity " + sym, g.indent() + "format " + ff}
	case 3, 4:
		_, f := g.formatSample()
		g.c.Count("dir.D")
		return []string{"D " + f}
	case 5:
		return []string{"account " + g.account()}
	case 6:
		return []string{"include other.journal"}
	case 7:
		return []string{"P " + g.date() + " " + g.of("EUR", "AAPL", "€") + " " + g.amount()}
	case 8:
		return []string{g.of("Y", "year") + " 20" + g.digits(2, false)}
	default:
		return []string{g.comment() + strings.Repeat(" ", g.n(3))}
	}
}

var junkPool = []string{" junk junk", " @", " = ", " 12 34 x y", " (", " ]", " \"open", " 1.2.3,4", " ;", " € €", " @@ @@", " ==", " *"}

// damage injects a syntax error into one line.
func (g *g5) damage(lines []string) []string {
	if len(lines) == 0 {
		return lines
	}
	i := g.n(len(lines))
	l := lines[i]
	switch g.n(7) {
	case 0:
		lines[i] = l + junkPool[g.n(len(junkPool))]
		g.c.Count("damage.tail")
	case 1:
		if len(l) > 2 {
			k := g.n(len(l))
			lines[i] = l[:k] + l[min(len(l), k+1+g.n(3)):]
			g.c.Count("damage.delete")
		}
	case 2:
		k := g.n(len(l) + 1)
		lines[i] = l[:k] + g.of("@", "=", "(", ")", "[", ";", "\"", "  ", "\t", "-", "1", ",") + l[k:]
		g.c.Count("damage.insert")
	case 3:
		lines[i] = strings.TrimLeft(l, " \t")
		g.c.Count("damage.unindent")
	case 4:
		lines[i] = "    " + l
		g.c.Count("damage.indent")
	case 5:
		lines[i] = strings.Replace(l, "  ", " ", 1)
		g.c.Count("damage.gap")
	default:
		lines[i] = genLine(g.r, 20)
		g.c.Count("damage.randomline")
	}
	return lines
}

// journal returns the text of a generated journal.
func (g *g5) journal(maxEntries int) string {
	var lines []string
	g.accts = nil
	k := 1 + g.n(maxEntries)
	for i := 0; i < k; i++ {
		if g.p(30) {
			lines = append(lines, g.directive()...)
		} else {
			lines = append(lines, g.transaction()...)
		}
		for b := g.n(3); b > 0; b-- {
			if g.p(6) {
				lines = append(lines, strings.Repeat(" ", 1+g.n(4)))
				g.c.Count("blankline.spaces")
			} else {
				lines = append(lines, "")
			}
		}
	}
	kind := "valid"
	if g.p(30) {
		for d := 1 + g.n(2); d > 0; d-- {
			lines = g.damage(lines)
		}
		kind = "damaged"
	}
	nl := "\n"
	if g.p(25) {
		nl = "\r\n"
		kind += ".crlf"
	}
	g.c.Count("doc." + kind)
	s := strings.Join(lines, nl)
	if !g.p(15) {
		s += nl
	}
	return s
}

func (g *g5) options() formatter.Options {
	o := formatter.Options{IndentSize: 1 + g.n(8), AlignAmounts: g.p(70), MinAlignmentColumn: 0}
	switch g.n(4) {
	case 0:
		o.MinAlignmentColumn = g.n(81)
	case 1:
		o.MinAlignmentColumn = g.of2(20, 40, 48, 60, 80)
	}
	if g.p(3) { // outside the property's domain: the server replaces non-positive sizes by 4
		o.IndentSize = -g.n(3)
	}
	if g.p(2) {
		o.MinAlignmentColumn = -g.n(5)
	}
	return o
}

func (g *g5) of2(xs ...int) int { return xs[g.r.IntN(len(xs))] }

// workspaceFormats: an explicit map as Workspace.GetCommodityFormats builds it.
func (g *g5) workspaceFormats() map[string]formatter.NumberFormat {
	m := map[string]formatter.NumberFormat{}
	k := g.n(4)
	for i := 0; i < k; i++ {
		sym, f := g.formatSample()
		m[sym] = formatter.ParseNumberFormat(f)
	}
	if g.p(10) {
		_, f := g.formatSample()
		m[""] = formatter.ParseNumberFormat(f)
	}
	return m
}


var fmtOdd = []string{"", " ", "abc", "1", "1.", ".5", "1,2,3", "1.2.3", "1 2 3", "$", "$ 1,000.00", "1,000.00 EUR x 2.5", "٣٤٥.٦٧", "1٣.٥٥ X",
	"\xff1.00", "1.00\xe2\x82", "€1.000,00", "1 000 000,000", "  12.50  ", "a1b2.0", "1..2", "1,.2", "1 ,2", "１２.３４", "𝟏𝟐.𝟑𝟒 Z", "EUR 1,5 €"}

// currentProp tells the driver which property's oracle to apply ("C04" or "C05").
var currentProp string

func genC05(c *Ctx) {
	currentProp = c.Prop
	g := &g5{r: c.R, c: c}
	c.Emit("c05.nd", ndCase())

	// per-function ops
	for i := 0; i < c.N(2500, 60000); i++ {
		var fs string
		switch g.n(10) {
		case 0:
			fs = fmtOdd[g.n(len(fmtOdd))]
		case 1:
			fs = genLine(g.r, 10)
		default:
			_, fs = g.formatSample()
		}
		coef := new(big.Int)
		coef.SetString(g.digits(1+g.n(12), false), 10)
		if g.p(5) {
			coef.SetString(g.digits(15+g.n(20), true), 10)
		}
		if g.p(8) {
			// rounding boundaries
			coef.SetString(g.of("5", "15", "25", "95", "995", "4999", "5000", "9995", "99995", "45", "55", "149", "150", "0"), 10)
		}
		if g.p(40) {
			coef.Neg(coef)
		}
		exp := int32(-g.n(10))
		if g.p(10) {
			exp = int32(g.n(6))
		}
		if g.p(3) {
			exp = int32(-10 - g.n(12))
		}
		q := decimal.NewFromBigInt(coef, exp)
		marks := []rune{'.', ',', '.', ',', ' ', '€', '_', 0x1F600}
		seps := []string{"", ",", ".", " ", "", "'", "__", "€"}
		nf := formatter.NumberFormat{DecimalMark: marks[g.n(len(marks))], ThousandsSep: seps[g.n(len(seps))],
			DecimalPlaces: g.n(10), HasDecimal: g.p(70)}
		c.Emit("c05.number", numberCase(fs, q, nf))
	}

	// documents x configurations
	for i := 0; i < c.N(1300, 6000); i++ {
		var doc string
		switch x := g.n(20); {
		case x == 0:
			doc = genDoc(g.r, 8, 30)
			c.Count("doc.arbitrary")
		case x == 1:
			// arbitrary text spliced into a journal
			doc = g.journal(2) + genDoc(g.r, 4, 20)
			c.Count("doc.spliced")
		default:
			doc = g.journal(c.N(4, 8))
		}
		j, errs := hxParse(doc)
		nc := c.N(4, 6)
		for k := 0; k < nc; k++ {
			var formats map[string]formatter.NumberFormat
			if g.p(35) {
				formats = g.workspaceFormats()
				c.Count("formats.workspace")
			} else {
				c.Count("formats.nil")
			}
			opts := g.options()
			c.Emit("c05.format", formatCaseTree(doc, j, errs, formats, opts, ""))
		}
		if i == 0 {
			genC05Handler(c, g)
		}
		if len(errs) == 0 {
			c.Count("parse.clean")
		} else {
			c.Count("parse.errors")
		}
		// a mutated tree: shapes the parser does not produce (model totality / correspondence only)
		if g.p(25) {
			j2, _ := hxParse(doc)
			mut := g.mutate(j2, doc)
			if mut != "" {
				c.Count("tree.mutated." + mut)
				c.Emit("c05.format", formatCaseTree(doc, j2, errs, nil, g.options(), mut))
			}
		}
	}
}

// mutate changes the tree in place; returns the kind ("" = nothing to change).
func (g *g5) mutate(j *ast.Journal, doc string) string {
	var ps []*ast.Posting
	for i := range j.Transactions {
		for k := range j.Transactions[i].Postings {
			ps = append(ps, &j.Transactions[i].Postings[k])
		}
	}
	if len(ps) == 0 {
		return ""
	}
	p := ps[g.n(len(ps))]
	switch g.n(6) {
	case 0:
		p.Range.Start.Line = 0
		return "line0"
	case 1:
		p.Range.Start.Line = strings.Count(doc, "\n") + 2 + g.n(3)
		return "linepast"
	case 2:
		p.Range.Start.Line = ps[g.n(len(ps))].Range.Start.Line
		return "sameline"
	case 3:
		if p.Amount != nil {
			p.Amount.RawQuantity = ""
			return "noraw"
		}
	case 4:
		if p.Amount != nil {
			p.Amount.SignBeforeCommodity = !p.Amount.SignBeforeCommodity
			p.Amount.RawQuantity = g.of("+5", "-7.5", "", "3")
			return "sign"
		}
	case 5:
		p.Account.Name = g.of("", " lead", "\xffbad\xe2\x82", "x\xf0\x9f")
		return "account"
	}
	return ""
}
