package main

// C02 (balance verdicts) and the arithmetic core of C20 (account balances): decimals,
// number normalisation, CheckBalance, balance diagnostics, account balances.
// Driver side: lean/HL/Driver/C02.lean.

import (
	"encoding/json"
	"fmt"
	"math/big"
	"math/rand/v2"
	"sort"
	"strings"

	"github.com/shopspring/decimal"

	"github.com/juev/hledger-lsp/internal/analyzer"
	"github.com/juev/hledger-lsp/internal/ast"
	"github.com/juev/hledger-lsp/internal/parser"
	"github.com/juev/hledger-lsp/internal/server"
)

func init() {
	register("C02", func(c *Ctx) { genC02(c); genC02Core(c) })
	register("C20", func(c *Ctx) { genC20(c); genC20Hover(c) })
	replayers["dec.parse"] = func(c *Ctx, m map[string]any) map[string]any {
		s, _ := m["s"].(string)
		return decParseCase(unhx(s))
	}
	replayers["dec.ops"] = func(c *Ctx, m map[string]any) map[string]any {
		a, b := decFromJ(m["a"]), decFromJ(m["b"])
		p, _ := m["p"].(float64)
		big, _ := m["big"].(bool)
		return decOpsCase(a, b, int32(p), big)
	}
	replayers["num.normalize"] = func(c *Ctx, m map[string]any) map[string]any {
		s, _ := m["s"].(string)
		return numNormalizeCase(unhx(s))
	}
	replayers["num.amount"] = func(c *Ctx, m map[string]any) map[string]any {
		return numAmountCase(gnumFromJ(m["n"]))
	}
	replayers["c02.check"] = func(c *Ctx, m map[string]any) map[string]any {
		text, _ := m["text"].(string)
		dom, _ := m["dom"].(bool)
		return c02CheckCase(unhx(text), m["truth"], dom)
	}
	replayers["c02.diag"] = func(c *Ctx, m map[string]any) map[string]any {
		text, _ := m["text"].(string)
		dom, _ := m["dom"].(bool)
		return c02DiagCase(unhx(text), m["truth"], dom)
	}
	replayers["c20.hovertext"] = func(c *Ctx, m map[string]any) map[string]any {
		text, _ := m["text"].(string)
		return c20HoverCase(unhx(text), m["truth"])
	}
	replayers["c20.balances"] = func(c *Ctx, m map[string]any) map[string]any {
		text, _ := m["text"].(string)
		return c20BalancesCase(unhx(text), m["truth"])
	}
}

// ---------------------------------------------------------------- decimals

func decFromJ(v any) decimal.Decimal {
	m, _ := v.(map[string]any)
	cs, _ := m["c"].(string)
	e, _ := m["e"].(float64)
	bi, _ := new(big.Int).SetString(cs, 10)
	if bi == nil {
		bi = new(big.Int)
	}
	if nilv, _ := m["nil"].(bool); nilv {
		return decimal.Decimal{}
	}
	return decimal.NewFromBigInt(bi, int32(e))
}

func decParseCase(s string) map[string]any {
	d, err := decimal.NewFromString(s)
	impl := J{"ok": err == nil}
	if err == nil {
		impl["d"] = decJ(d)
		if e := int(d.Exponent()); e <= 200 && e >= -200 {
			impl["str"] = hx(d.String())
		}
	}
	return map[string]any{"s": hx(s), "impl": impl}
}

func mulOrPanic(a, b decimal.Decimal) (res any) {
	defer func() {
		if r := recover(); r != nil {
			res = "panic"
		}
	}()
	return decJ(a.Mul(b))
}

func decOpsCase(a, b decimal.Decimal, p int32, bigExp bool) map[string]any {
	aj, bj := decJ(a), decJ(b)
	impl := J{
		"mul": mulOrPanic(a, b), "neg": decJ(a.Neg()), "abs": decJ(a.Abs()),
		"zero": a.IsZero(), "negative": a.IsNegative(), "positive": a.IsPositive(),
	}
	if !bigExp {
		impl["add"] = decJ(a.Add(b))
		impl["sub"] = decJ(a.Sub(b))
		impl["cmp"] = a.Cmp(b)
		impl["eq"] = a.Equal(b)
		impl["str"] = hx(a.String())
		impl["fixed"] = hx(a.StringFixed(p))
		impl["round"] = decJ(a.Round(p))
	}
	return map[string]any{"a": aj, "b": bj, "p": int(p), "big": bigExp, "impl": impl}
}

func genDigits(r *rand.Rand, n int) string {
	var sb strings.Builder
	for i := 0; i < n; i++ {
		sb.WriteByte(byte('0' + r.IntN(10)))
	}
	return sb.String()
}

// genDecString: strings for NewFromString: mostly well-formed, with the malformed shapes of
// its grammar (several dots, stray signs, empty parts, bad / huge exponents, long digit runs).
func genDecString(c *Ctx) string {
	r := c.R
	var sb strings.Builder
	switch r.IntN(8) {
	case 0:
		sb.WriteByte('-')
	case 1:
		sb.WriteByte('+')
	}
	il := r.IntN(6)
	if r.IntN(12) == 0 {
		il = 15 + r.IntN(12) // crosses the 18-character ParseInt / big.Int switch
	}
	sb.WriteString(genDigits(r, il))
	if r.IntN(2) == 0 {
		sb.WriteByte('.')
		sb.WriteString(genDigits(r, r.IntN(5)))
	}
	if r.IntN(4) == 0 {
		sb.WriteByte("eE"[r.IntN(2)])
		switch r.IntN(4) {
		case 0:
			sb.WriteByte('-')
		case 1:
			sb.WriteByte('+')
		}
		switch r.IntN(10) {
		case 0:
			sb.WriteString(pick(r, []string{"2147483647", "2147483648", "2147483649", "2147483646", "99999999999999999999", "0002", ""}))
		default:
			sb.WriteString(genDigits(r, r.IntN(3)+r.IntN(2)))
		}
	}
	s := sb.String()
	// mutations
	if r.IntN(5) == 0 {
		b := []byte(s)
		k := 1 + r.IntN(2)
		for i := 0; i < k; i++ {
			ins := pick(r, []string{".", "-", "+", "e", "E", "_", " ", ",", "x", "0", "\xc3\xa9", "1"})
			p := r.IntN(len(b) + 1)
			if r.IntN(3) == 0 && len(b) > 0 {
				p = min(p, len(b)-1)
				b = append(b[:p], b[p+1:]...)
			} else {
				b = append(b[:p], append([]byte(ins), b[p:]...)...)
			}
		}
		s = string(b)
		c.Count("dec.parse.mutated")
	}
	return s
}

func genBigInt(r *rand.Rand) *big.Int {
	n := r.IntN(8)
	if r.IntN(8) == 0 {
		n = 15 + r.IntN(20)
	}
	s := genDigits(r, n+1)
	bi, _ := new(big.Int).SetString(s, 10)
	if r.IntN(2) == 0 {
		bi.Neg(bi)
	}
	if r.IntN(12) == 0 {
		bi.SetInt64(0)
	}
	return bi
}

func genDec(r *rand.Rand) decimal.Decimal {
	if r.IntN(25) == 0 {
		return decimal.Decimal{}
	}
	e := -r.IntN(7)
	switch r.IntN(6) {
	case 0:
		e = r.IntN(5)
	case 1:
		e = -r.IntN(20)
	}
	return decimal.NewFromBigInt(genBigInt(r), int32(e))
}

// ---------------------------------------------------------------- number normalisation

func numNormalizeCase(s string) map[string]any {
	return map[string]any{"s": hx(s), "impl": hx(parser.VerifNormalizeNumber(s))}
}

func genNormInput(c *Ctx) string {
	r := c.R
	if r.IntN(3) == 0 {
		// arbitrary strings over the alphabet normalizeNumber looks at
		n := r.IntN(12)
		var sb strings.Builder
		for i := 0; i < n; i++ {
			sb.WriteByte("0123456789012345,,..-Ee+ "[r.IntN(25)])
		}
		c.Count("num.normalize.raw")
		return sb.String()
	}
	n := genGnum(c)
	s := strings.ReplaceAll(n.render(), " ", "")
	if n.Neg {
		s = "-" + s
	}
	c.Count("num.normalize.notation")
	return s
}

// gnum mirrors HL.G.Number.
type gexp struct {
	Up     bool
	Sign   int // 0 none, 1 '+', 2 '-'
	Digits string
}
type gnum struct {
	Neg   bool
	Int   string
	Group byte // 0 none
	Mark  byte // 0 none
	Frac  string
	Exp   *gexp
}

func (n gnum) toJ() J {
	j := J{"neg": n.Neg, "int": n.Int, "group": nil, "mark": nil, "frac": n.Frac, "exp": nil}
	if n.Group != 0 {
		j["group"] = int(n.Group)
	}
	if n.Mark != 0 {
		j["mark"] = int(n.Mark)
	}
	if n.Exp != nil {
		j["exp"] = J{"up": n.Exp.Up, "sign": n.Exp.Sign, "digits": n.Exp.Digits}
	}
	return j
}

func gnumFromJ(v any) gnum {
	m, _ := v.(map[string]any)
	n := gnum{}
	n.Neg, _ = m["neg"].(bool)
	n.Int, _ = m["int"].(string)
	n.Frac, _ = m["frac"].(string)
	if g, ok := m["group"].(float64); ok {
		n.Group = byte(g)
	}
	if g, ok := m["mark"].(float64); ok {
		n.Mark = byte(g)
	}
	if e, ok := m["exp"].(map[string]any); ok {
		ge := &gexp{}
		ge.Up, _ = e["up"].(bool)
		s, _ := e["sign"].(float64)
		ge.Sign = int(s)
		ge.Digits, _ = e["digits"].(string)
		n.Exp = ge
	}
	return n
}

func (n gnum) render() string {
	var sb strings.Builder
	if n.Group != 0 {
		for i := 0; i < len(n.Int); i++ {
			if i > 0 && (len(n.Int)-i)%3 == 0 {
				sb.WriteByte(n.Group)
			}
			sb.WriteByte(n.Int[i])
		}
	} else {
		sb.WriteString(n.Int)
	}
	if n.Mark != 0 {
		sb.WriteByte(n.Mark)
		sb.WriteString(n.Frac)
	}
	if n.Exp != nil {
		if n.Exp.Up {
			sb.WriteByte('E')
		} else {
			sb.WriteByte('e')
		}
		switch n.Exp.Sign {
		case 1:
			sb.WriteByte('+')
		case 2:
			sb.WriteByte('-')
		}
		sb.WriteString(n.Exp.Digits)
	}
	return sb.String()
}

func (n gnum) expValue() int {
	if n.Exp == nil {
		return 0
	}
	v := 0
	fmt.Sscanf(n.Exp.Digits, "%d", &v)
	if n.Exp.Sign == 2 {
		return -v
	}
	return v
}

// value as an exact rational.
func (n gnum) value() *big.Rat {
	bi, _ := new(big.Int).SetString(n.Int+n.Frac, 10)
	v := new(big.Rat).SetInt(bi)
	sc := n.expValue() - len(n.Frac)
	p := new(big.Int).Exp(big.NewInt(10), big.NewInt(int64(c02abs(sc))), nil)
	if sc >= 0 {
		v.Mul(v, new(big.Rat).SetInt(p))
	} else {
		v.Quo(v, new(big.Rat).SetInt(p))
	}
	if n.Neg {
		v.Neg(v)
	}
	return v
}

func (n gnum) decimals() int { return len(n.Frac) - n.expValue() }

func c02abs(x int) int {
	if x < 0 {
		return -x
	}
	return x
}

func allZero(s string) bool { return strings.Trim(s, "0") == "" }

func (n gnum) grouped() bool     { return n.Group != 0 && len(n.Int) > 3 }
func (n gnum) hardGrouped() bool { return n.grouped() && n.Group != ' ' }
func (n gnum) shapeA() bool {
	return !n.hardGrouped() && n.Mark != 0 && len(n.Frac) == 3 && !allZero(n.Int)
}

// notate writes the magnitude coef / 10^scale in a randomly chosen notation of DESIGN 4.3.
// Shapes excluded by side condition A are never produced.
func notate(c *Ctx, coef *big.Int, scale int, neg bool) gnum {
	for {
		n := notateOnce(c, coef, scale, neg)
		if n.shapeA() {
			continue
		}
		return n
	}
}

func notateOnce(c *Ctx, coef *big.Int, scale int, neg bool) gnum {
	r := c.R
	n := gnum{Neg: neg}
	digits := new(big.Int).Abs(coef).String()
	useExp := r.IntN(7) == 0
	if useExp {
		// mantissa × 10^e = coef × 10^-scale
		e := r.IntN(9) - 4
		ms := scale + e // scale of the mantissa
		if ms < 0 {
			digits += strings.Repeat("0", -ms)
			ms = 0
		}
		scale = ms
		ge := &gexp{Up: r.IntN(2) == 0}
		ae := c02abs(e)
		ge.Digits = fmt.Sprint(ae)
		if r.IntN(6) == 0 {
			ge.Digits = "0" + ge.Digits
		}
		switch {
		case e < 0:
			ge.Sign = 2
		case r.IntN(3) == 0:
			ge.Sign = 1
		}
		if e == 0 && r.IntN(2) == 0 {
			ge.Sign = 2
		}
		n.Exp = ge
	}
	// optional extra trailing zeros in the fraction (same value, finer written precision)
	if scale > 0 && r.IntN(8) == 0 {
		digits += "0"
		scale++
	}
	for len(digits) <= scale {
		digits = "0" + digits
	}
	n.Int, n.Frac = digits[:len(digits)-scale], digits[len(digits)-scale:]
	if r.IntN(30) == 0 {
		n.Int = "0" + n.Int // leading zero
	}
	if scale > 0 {
		n.Mark = ".,"[r.IntN(2)]
		if r.IntN(3) != 0 {
			n.Mark = '.'
		}
	} else if r.IntN(12) == 0 {
		n.Mark = ".,"[r.IntN(2)] // trailing mark
	}
	if r.IntN(3) == 0 && n.Int[0] != '0' {
		switch n.Mark {
		case '.':
			n.Group = ", "[r.IntN(2)]
		case ',':
			n.Group = ". "[r.IntN(2)]
		default:
			n.Group = ",. "[r.IntN(3)]
		}
	}
	switch {
	case n.Exp != nil:
		c.Count("notation.exponent")
	case n.grouped() && n.Mark != 0 && n.Frac == "":
		c.Count("notation.grouped+trailing")
	case n.grouped() && n.Mark != 0:
		c.Count("notation.grouped+decimal" + string(n.Group) + string(n.Mark))
	case n.grouped() && len(n.Int) > 6:
		c.Count("notation.grouped-int-2+groups")
	case n.grouped():
		c.Count("notation.grouped-int-1group")
	case n.Mark != 0 && n.Frac == "":
		c.Count("notation.trailing-mark")
	case n.Mark != 0:
		c.Count("notation.decimal" + string(n.Mark))
	default:
		c.Count("notation.plain")
	}
	return n
}

// genGnum: a notation for a random magnitude.
func genGnum(c *Ctx) gnum {
	r := c.R
	nd := 1 + r.IntN(5)
	switch r.IntN(6) {
	case 0:
		nd = 6 + r.IntN(10)
	}
	coef, _ := new(big.Int).SetString(genDigits(r, nd), 10)
	scale := 0
	switch r.IntN(4) {
	case 0, 1:
		scale = 1 + r.IntN(4)
	case 2:
		scale = r.IntN(13)
	}
	return notate(c, coef, scale, r.IntN(3) == 0)
}

func numAmountCase(n gnum) map[string]any {
	raw := n.render()
	sign := ""
	if n.Neg {
		sign = "-"
	}
	text := "2024-01-15 x\n    a:b    " + sign + raw + " EUR\n    c:d\n"
	j, _ := hxParse(text)
	impl := J{"raw": nil, "q": nil}
	if len(j.Transactions) == 1 && len(j.Transactions[0].Postings) >= 1 && j.Transactions[0].Postings[0].Amount != nil {
		a := j.Transactions[0].Postings[0].Amount
		impl["raw"] = hx(strings.TrimPrefix(a.RawQuantity, sign))
		impl["q"] = decJ(a.Quantity)
	}
	return map[string]any{"n": n.toJ(), "impl": impl}
}

// ---------------------------------------------------------------- transactions

type tAmount struct {
	n gnum
	c string // commodity symbol (unquoted)
}
type tPosting struct {
	kind  int // 0 ordinary, 1 [balanced], 2 (unbalanced)
	acct  string
	amt   *tAmount
	total bool
	cost  *tAmount
	risky []string // layout features of the printed line that the parser is known to reject
}

func (a *tAmount) toJ() any {
	if a == nil {
		return nil
	}
	return J{"n": a.n.toJ(), "c": hx(a.c)}
}
func (p tPosting) toJ() J {
	risky := p.risky
	if risky == nil {
		risky = []string{}
	}
	j := J{"kind": p.kind, "acct": hx(p.acct), "amt": p.amt.toJ(), "cost": nil, "risky": risky}
	if p.cost != nil {
		j["cost"] = J{"total": p.total, "n": p.cost.n.toJ(), "c": hx(p.cost.c)}
	}
	return j
}

type commSpec struct {
	sym    string
	left   bool // may be written on the left
	quoted bool
}

var commPool = []commSpec{
	{"$", true, false}, {"€", true, false}, {"£", true, false}, {"₽", true, false},
	{"USD", true, false}, {"EUR", true, false}, {"AAPL", true, false}, {"BTC", true, false},
	{"hours", false, false}, {"Kg", false, false}, {"руб", false, false}, {"VTSAX", true, false},
	{"A B", true, true}, {"AAPL 2", true, true}, {"", false, false},
}

var acctPool = []string{"assets:bank", "assets:cash", "expenses:food", "expenses:rent", "income:salary",
	"equity:opening balances", "liabilities:card", "активы:банк", "assets:broker:aapl"}

func spaces(r *rand.Rand, lo, hi int) string { return strings.Repeat(" ", lo+r.IntN(hi-lo+1)) }

// riskRate: one in riskRate amounts / gaps uses a layout of G that the pinned parser rejects
// (known findings tab-before-amount, sign-before-spaced-letter-commodity,
// text-commodity-swallows-rest-of-line);
// 0 = never.
var riskRate = 0

func risk(r *rand.Rand) bool { return riskRate > 0 && r.IntN(riskRate) == 0 }

func mixedCase(s string) bool {
	return strings.ToLower(s) != s && strings.ToUpper(s) != s
}

// writeAmount prints one amount in one of the shapes of G (4.2); the second result names the
// risky layout used, if any.
func writeAmount(c *Ctx, a tAmount, spec commSpec) (string, []string) {
	r := c.R
	num := a.n.render()
	sign := ""
	if a.n.Neg {
		sign = "-"
	} else if r.IntN(10) == 0 {
		sign = "+"
	}
	sym := spec.sym
	if spec.quoted {
		sym = "\"" + sym + "\""
	}
	if sym == "" {
		c.Count("amount.bare")
		return sign + num, nil
	}
	if spec.left && r.IntN(2) == 0 {
		sp := ""
		if r.IntN(3) == 0 {
			sp = " "
		}
		signFirst := r.IntN(2) == 0
		if signFirst && sign != "" && spec.quoted {
			if risk(r) {
				c.Count("amount.left.sign-first.quoted(risky)")
				return sign + sym + sp + num, []string{"sign-before-spaced-letter-commodity"}
			}
			signFirst = false
		}
		if signFirst && sign != "" && sp == " " && !isSymbol(sym) {
			if risk(r) {
				c.Count("amount.left.sign-first.spaced-letters(risky)")
				return sign + sym + sp + num, []string{"sign-before-spaced-letter-commodity"}
			}
			sp = ""
		}
		if signFirst {
			c.Count("amount.left.sign-first")
			return sign + sym + sp + num, nil
		}
		c.Count("amount.left.sign-after")
		return sym + sp + sign + num, nil
	}
	sp := " "
	if r.IntN(4) == 0 && !spec.quoted && !isSymbol(sym) && !mixedCase(sym) {
		sp = ""
	}
	if isSymbol(sym) && r.IntN(2) == 0 {
		sp = ""
	}
	c.Count("amount.right")
	return sign + num + sp + sym, nil
}

// textCommodity: a commodity the lexer only recognises as free text (not a currency sign, not
// quoted, not an upper-case ASCII word).
func textCommodity(s string) bool {
	if s == "" || isSymbol(s) || strings.ContainsAny(s, " \"") {
		return false
	}
	for _, ch := range s {
		if ch < 'A' || ch > 'Z' {
			return true
		}
	}
	return false
}

func isSymbol(s string) bool { return s == "$" || s == "€" || s == "£" || s == "₽" }

type genTx struct {
	ps   []tPosting
	text string
	dom  bool
}

type dq struct { // exact decimal: coef / 10^scale
	c *big.Int
	s int
}

func (d dq) rat() *big.Rat {
	p := new(big.Int).Exp(big.NewInt(10), big.NewInt(int64(d.s)), nil)
	return new(big.Rat).SetFrac(d.c, p)
}

func genQty(r *rand.Rand) dq {
	nd := 1 + r.IntN(4)
	if r.IntN(8) == 0 {
		nd = 5 + r.IntN(8)
	}
	coef, _ := new(big.Int).SetString(genDigits(r, nd), 10)
	if r.IntN(2) == 0 {
		coef.Neg(coef)
	}
	s := 0
	switch r.IntN(5) {
	case 0, 1:
		s = 2
	case 2:
		s = 1 + r.IntN(4)
	}
	if r.IntN(15) == 0 {
		s = 5 + r.IntN(8) // up to 12 decimals (DESIGN 4.3)
	}
	return dq{coef, s}
}

// ratToDq: a rational with a power-of-ten denominator as coef / 10^scale (minimal scale).
func ratToDq(v *big.Rat) dq {
	s := 0
	x := new(big.Rat).Set(v)
	ten := big.NewRat(10, 1)
	for !x.IsInt() {
		x.Mul(x, ten)
		s++
		if s > 60 {
			panic("ratToDq: not a decimal")
		}
	}
	return dq{new(big.Int).Set(x.Num()), s}
}

func mkAmount(c *Ctx, q dq, sym string) *tAmount {
	return &tAmount{n: notate(c, q.c, q.s, q.c.Sign() < 0), c: sym}
}

// contribution of a posting to its commodity under the statement's rule.
func (p tPosting) contribution() (string, *big.Rat) {
	if p.amt == nil {
		return "", nil
	}
	q := p.amt.n.value()
	if p.cost == nil {
		return p.amt.c, q
	}
	k := p.cost.n.value()
	if p.total {
		return p.cost.c, new(big.Rat).Mul(k, big.NewRat(int64(q.Sign()), 1))
	}
	return p.cost.c, new(big.Rat).Mul(k, q)
}

func residuals(ps []tPosting) map[string]*big.Rat {
	res := map[string]*big.Rat{}
	for _, p := range ps {
		if p.kind == 2 || p.amt == nil {
			continue
		}
		c, v := p.contribution()
		if res[c] == nil {
			res[c] = new(big.Rat)
		}
		res[c].Add(res[c], v)
	}
	return res
}

// finest precision written for a commodity (posting amounts; cost amounts only when the
// commodity is written nowhere else).
func writtenDecimals(ps []tPosting, sym string) int {
	d, found := 0, false
	for _, p := range ps {
		if p.amt != nil && p.amt.c == sym {
			found = true
			d = max(d, p.amt.n.decimals())
		}
	}
	if !found {
		for _, p := range ps {
			if p.cost != nil && p.cost.c == sym {
				d = max(d, p.cost.n.decimals())
			}
		}
	}
	return d
}

// inDomain: the restriction of the property's quantifier (DESIGN C02).
func inDomain(ps []tPosting) bool {
	res := residuals(ps)
	off, hasCost := 0, false
	for _, p := range ps {
		if p.cost != nil && p.kind != 2 {
			hasCost = true
		}
	}
	missing := 0
	for _, p := range ps {
		if p.kind != 2 && p.amt == nil {
			missing++
		}
	}
	if missing >= 1 {
		return true
	}
	for sym, v := range res {
		if v.Sign() == 0 {
			continue
		}
		off++
		d := writtenDecimals(ps, sym)
		unit := dq{big.NewInt(1), max(d, 0)}.rat()
		if new(big.Rat).Abs(v).Cmp(unit) < 0 {
			return false
		}
	}
	if off == 2 && !hasCost {
		return false
	}
	return true
}

func specFor(sym string) commSpec {
	for _, s := range commPool {
		if s.sym == sym {
			return s
		}
	}
	return commSpec{sym: sym}
}

// genTransaction builds postings + text.  special: 0 none, 2 force a zero-quantity posting with
// a total cost (repaired by fix-zero-quantity-total-cost).
func c02genTransaction(c *Ctx, special int, date string) genTx {
	r := c.R
	ncomm := 1 + r.IntN(3)
	comms := []commSpec{}
	for len(comms) < ncomm {
		s := pick(r, commPool)
		dup := false
		for _, t := range comms {
			if t.sym == s.sym {
				dup = true
			}
		}
		if !dup {
			comms = append(comms, s)
		}
	}
	mode := r.IntN(10) // 0-4 balanced, 5-6 off by chosen residual, 7 one missing, 8 several missing, 9 raw
	n := r.IntN(5)
	if mode == 9 {
		n = r.IntN(7)
	}
	var ps []tPosting
	kindOf := func() int {
		switch r.IntN(10) {
		case 0, 1:
			return 1
		case 2:
			return 2
		}
		return 0
	}
	for i := 0; i < n; i++ {
		p := tPosting{kind: kindOf(), acct: pick(r, acctPool)}
		cs := pick(r, comms)
		q := genQty(r)
		if r.IntN(25) == 0 {
			q.c.SetInt64(0)
		}
		p.amt = mkAmount(c, q, cs.sym)
		if ncomm > 1 && r.IntN(3) == 0 {
			k := pick(r, comms)
			if k.sym != cs.sym {
				kq := genQty(r)
				if r.IntN(6) != 0 {
					kq.c.Abs(kq.c)
				}
				p.total = r.IntN(2) == 0
				p.cost = mkAmount(c, kq, k.sym)
				if textCommodity(cs.sym) {
					// a right commodity that is not an upper-case ASCII word is lexed as free
					// text up to the end of the line and swallows the cost
					if risk(r) {
						p.risky = append(p.risky, "text-commodity-swallows-rest-of-line")
						c.Count("cost-after-text-commodity(risky)")
					} else {
						p.cost = nil
					}
				}
			}
		}
		ps = append(ps, p)
	}
	if special == 2 {
		a, b := comms[0], pick(r, commPool)
		if textCommodity(a.sym) {
			a = commSpec{"AAPL", true, false}
		}
		for b.sym == a.sym {
			b = pick(r, commPool)
		}
		kq := genQty(r)
		if kq.c.Sign() == 0 {
			kq.c.SetInt64(5)
		}
		ps = append(ps, tPosting{kind: 0, acct: pick(r, acctPool), amt: mkAmount(c, dq{big.NewInt(0), r.IntN(3)}, a.sym),
			total: true, cost: mkAmount(c, kq, b.sym)})
	}
	balance := func(delta map[string]*big.Rat) {
		res := residuals(ps)
		syms := []string{}
		for s := range res {
			syms = append(syms, s)
		}
		sort.Strings(syms)
		for _, s := range syms {
			v := new(big.Rat).Neg(res[s])
			if d, ok := delta[s]; ok {
				v.Add(v, d)
			}
			if v.Sign() == 0 && r.IntN(3) != 0 {
				continue
			}
			kind := 0
			if r.IntN(6) == 0 {
				kind = 1
			}
			ps = append(ps, tPosting{kind: kind, acct: pick(r, acctPool), amt: mkAmount(c, ratToDq(v), s)})
		}
	}
	switch {
	case mode <= 4:
		balance(nil)
		c.Count("tx.balanced")
	case mode <= 6:
		res := residuals(ps)
		syms := []string{}
		for s := range res {
			syms = append(syms, s)
		}
		if len(syms) == 0 {
			syms = append(syms, comms[0].sym)
		}
		sort.Strings(syms)
		delta := map[string]*big.Rat{}
		k := 1 + r.IntN(len(syms))
		for _, i := range r.Perm(len(syms))[:k] {
			s := syms[i]
			d := writtenDecimals(ps, s)
			j := 0
			if d > 0 && r.IntN(2) == 0 {
				j = r.IntN(d + 1)
			}
			m := int64(1 + r.IntN(9))
			if r.IntN(3) == 0 {
				m = int64(1 + r.IntN(100000))
			}
			if r.IntN(2) == 0 {
				m = -m
			}
			delta[s] = dq{big.NewInt(m), j}.rat()
		}
		balance(delta)
		c.Count("tx.off-by-chosen")
	case mode == 7:
		ps = append(ps, tPosting{kind: r.IntN(5) / 4, acct: pick(r, acctPool)})
		c.Count("tx.one-missing")
	case mode == 8:
		k := 2 + r.IntN(2)
		for i := 0; i < k; i++ {
			kind := 0
			switch r.IntN(8) {
			case 0:
				kind = 1
			case 1:
				kind = 2
			}
			ps = append(ps, tPosting{kind: kind, acct: pick(r, acctPool)})
		}
		c.Count("tx.several-missing")
	default:
		c.Count("tx.raw")
	}
	// an amount-less unbalanced-virtual posting now and then (never counts)
	if r.IntN(12) == 0 {
		ps = append(ps, tPosting{kind: 2, acct: pick(r, acctPool)})
	}
	r.Shuffle(len(ps), func(i, j int) { ps[i], ps[j] = ps[j], ps[i] })

	// text
	var sb strings.Builder
	sb.WriteString(date)
	switch r.IntN(4) {
	case 0:
		sb.WriteString(" *")
	case 1:
		sb.WriteString(" !")
	}
	sb.WriteString(" " + pick(r, []string{"grocery store", "Salary | may", "x", "Обед", "rent (flat)"}))
	sb.WriteString("\n")
	for i := range ps {
		p := &ps[i]
		sb.WriteString(spaces(r, 1, 6))
		switch p.kind {
		case 1:
			sb.WriteString("[" + p.acct + "]")
		case 2:
			sb.WriteString("(" + p.acct + ")")
		default:
			sb.WriteString(p.acct)
		}
		if p.amt != nil {
			if r.IntN(12) == 0 {
				// a tab separates like two blanks do (finding tab-before-amount is repaired:
				// no longer a risky layout, and never an excuse)
				sb.WriteString(pick(r, []string{"\t", " \t", "\t ", "  \t"}))
				c.Count("gap.tab")
			} else {
				sb.WriteString(spaces(r, 2, 6))
			}
			as, rk := writeAmount(c, *p.amt, specFor(p.amt.c))
			sb.WriteString(as)
			p.risky = append(p.risky, rk...)
			if p.cost != nil {
				sb.WriteString(spaces(r, 1, 2))
				if p.total {
					sb.WriteString("@@")
					c.Count("cost.total")
				} else {
					sb.WriteString("@")
					c.Count("cost.unit")
				}
				sb.WriteString(spaces(r, 1, 2))
				cs, rk := writeAmount(c, *p.cost, specFor(p.cost.c))
				sb.WriteString(cs)
				p.risky = append(p.risky, rk...)
			}
		}
		switch r.IntN(12) {
		case 0:
			sb.WriteString("  ; note")
		case 1:
			sb.WriteString("  ; " + pick(r, []string{"proj: alpha", "proj: beta", "kind:", "proj: alpha, kind: x"}))
		}
		sb.WriteString("\n")
		if i == 0 && r.IntN(10) == 0 {
			sb.WriteString("    ; " + pick(r, []string{"trip: rome", "trip:", "proj: alpha"}) + "\n")
		}
	}
	c.Count(fmt.Sprintf("tx.postings.%d", len(ps)))
	return genTx{ps: ps, text: sb.String(), dom: inDomain(ps)}
}

func truthJ(ps []tPosting) []J {
	out := []J{}
	for _, p := range ps {
		out = append(out, p.toJ())
	}
	return out
}

func sumsJ(m map[string]decimal.Decimal) [][]any {
	keys := make([]string, 0, len(m))
	for k := range m {
		keys = append(keys, hx(k))
	}
	sort.Strings(keys)
	out := [][]any{}
	for _, k := range keys {
		out = append(out, []any{k, decJ(m[unhx(k)])})
	}
	return out
}

func checkBalanceJ(tx *ast.Transaction) (res any) {
	defer func() {
		if r := recover(); r != nil {
			res = "panic"
		}
	}()
	br := analyzer.CheckBalance(tx)
	return J{"balanced": br.Balanced, "diffs": sumsJ(br.Differences), "idx": br.InferredIdx}
}

// c02CheckCase parses the text with the real parser and runs the real CheckBalance on the
// transaction it finds.  A text that does not yield exactly one transaction is reported
// through "parse": false (the driver then judges the case as unfaithful).
func c02CheckCase(text string, truth any, dom bool) map[string]any {
	j, errs := hxParse(text)
	out := map[string]any{"text": hx(text), "truth": truth, "dom": dom}
	if len(j.Transactions) != 1 {
		out["tx"] = nil
		_ = errs
		out["impl"] = J{"parse": false}
		return out
	}
	out["tx"] = txJ(j.Transactions[0])
	out["impl"] = checkBalanceJ(&j.Transactions[0])
	return out
}

// c02DiagCase: real Parse + Analyze; the balance diagnostics in order, keyed by the line of
// the transaction they are attached to.
func c02DiagCase(text string, truth any, dom bool) map[string]any {
	j, _ := hxParse(text)
	txs := []J{}
	for _, t := range j.Transactions {
		txs = append(txs, txJ(t))
	}
	impl := []J{}
	func() {
		defer func() {
			if r := recover(); r != nil {
				impl = []J{{"code": "panic"}}
			}
		}()
		res := longLivedAnalyzer().Analyze(j)
		for _, d := range res.Diagnostics {
			switch d.Code {
			case "UNBALANCED":
				impl = append(impl, J{"code": d.Code, "line": d.Range.Start.Line, "sev": int(d.Severity), "msg": hx(d.Message)})
			case "MULTIPLE_INFERRED":
				impl = append(impl, J{"code": d.Code, "line": d.Range.Start.Line, "sev": int(d.Severity), "msg": hx(d.Message)})
			}
		}
	}()
	return map[string]any{"text": hx(text), "txs": txs, "truth": truth, "dom": dom, "impl": impl}
}

func balancesJ(b analyzer.AccountBalances) [][]any {
	keys := make([]string, 0, len(b))
	for k := range b {
		keys = append(keys, hx(k))
	}
	sort.Strings(keys)
	out := [][]any{}
	for _, k := range keys {
		out = append(out, []any{k, sumsJ(b[unhx(k)])})
	}
	return out
}

func c20BalancesCase(text string, truth any) map[string]any {
	j, _ := hxParse(text)
	txs := []J{}
	for _, t := range j.Transactions {
		txs = append(txs, txJ(t))
	}
	a := balancesJ(analyzer.CalculateAccountBalancesFromTransactions(j.Transactions))
	b := balancesJ(analyzer.CalculateAccountBalances(j))
	return map[string]any{"text": hx(text), "txs": txs, "truth": truth, "impl": J{"fromTransactions": a, "fromJournal": b}}
}

// c20HoverCase: the hover texts that show figures, for every account, payee, amount and tag
// occurrence of the journal, built by the real builders from the real parse.
func c20HoverCase(text string, truth any) map[string]any {
	j, _ := hxParse(text)
	txs := j.Transactions
	txsJ := []J{}
	for _, t := range txs {
		txsJ = append(txsJ, txJ(t))
	}
	balances := analyzer.CalculateAccountBalancesFromTransactions(txs)
	accSeen, paySeen, tagSeen := map[string]bool{}, map[string]bool{}, map[string]bool{}
	accounts, payees, amounts, tags := [][]any{}, [][]any{}, []string{}, [][]any{}
	addTag := func(t ast.Tag) {
		k := hx(t.Name) + ":" + hx(t.Value)
		if tagSeen[k] {
			return
		}
		tagSeen[k] = true
		tags = append(tags, []any{hx(t.Name), hx(t.Value), hx(server.VerifBuildTagValueHover(t.Name, t.Value, txs)),
			server.VerifCountTagUsage(t.Name, txs)})
	}
	for i := range txs {
		tx := &txs[i]
		if p := server.VerifPayeeOrDescription(tx); p != "" && !paySeen[p] {
			paySeen[p] = true
			payees = append(payees, []any{hx(p), hx(server.VerifBuildPayeeHover(p, txs))})
		}
		for _, cm := range tx.Comments {
			for _, t := range cm.Tags {
				addTag(t)
			}
		}
		for k := range tx.Postings {
			p := &tx.Postings[k]
			if !accSeen[p.Account.Name] {
				accSeen[p.Account.Name] = true
				accounts = append(accounts, []any{hx(p.Account.Name), hx(server.VerifBuildAccountHover(p.Account.Name, balances, txs))})
			}
			if p.Amount != nil {
				amounts = append(amounts, hx(server.VerifBuildAmountHover(p.Amount, p.Cost)))
			}
			for _, t := range p.Tags {
				addTag(t)
			}
		}
	}
	return map[string]any{"text": hx(text), "txs": txsJ, "truth": truth,
		"impl": J{"accounts": accounts, "payees": payees, "amounts": amounts, "tags": tags}}
}

func c02genJournal(c *Ctx, maxTx int) (string, []any, bool) {
	r := c.R
	n := 1 + r.IntN(maxTx)
	var sb strings.Builder
	truth := []any{}
	dom := true
	for i := 0; i < n; i++ {
		g := c02genTransaction(c, 0, fmt.Sprintf("2024-%02d-%02d", 1+r.IntN(12), 1+r.IntN(28)))
		sb.WriteString(g.text)
		if r.IntN(4) != 0 || i == n-1 {
			sb.WriteString("\n")
		}
		truth = append(truth, truthJ(g.ps))
		dom = dom && g.dom
	}
	return sb.String(), truth, dom
}

func normJ(v any) any {
	raw, _ := marshal(v)
	var out any
	_ = json.Unmarshal(raw, &out)
	return out
}

func genC02(c *Ctx) {
	r := c.R
	riskRate = 150
	for i := 0; i < c.N(1500, 60000); i++ {
		c.Emit("dec.parse", decParseCase(genDecString(c)))
	}
	for i := 0; i < c.N(1500, 60000); i++ {
		c.Emit("dec.ops", decOpsCase(genDec(r), genDec(r), int32(r.IntN(10)-3), false))
	}
	for i := 0; i < c.N(100, 2000); i++ {
		// exponents around the int32 border: Mul may panic
		e1 := pick(r, []int32{2147483647, 2147483000, 1073741824, 1073741823, -2147483648, -1073741824, -1073741825, 5, -5})
		e2 := pick(r, []int32{2147483647, 1073741824, 1073741823, 647, 648, -2147483648, -1073741824, -1073741825, 1, -1, 0})
		a := decimal.NewFromBigInt(genBigInt(r), e1)
		b := decimal.NewFromBigInt(genBigInt(r), e2)
		c.Emit("dec.ops", decOpsCase(a, b, 0, true))
	}
	for i := 0; i < c.N(2500, 100000); i++ {
		c.Emit("num.normalize", numNormalizeCase(genNormInput(c)))
	}
	for i := 0; i < c.N(2500, 100000); i++ {
		n := genGnum(c)
		if r.IntN(30) == 0 {
			// decimal exponents around the parser's bound of 1000
			n.Exp = &gexp{Up: r.IntN(2) == 0, Sign: r.IntN(3), Digits: fmt.Sprint(994 + r.IntN(12))}
			c.Count("num.amount.exponent-near-bound")
		} else if r.IntN(40) == 0 {
			// exponents around the borders of int32 / int64: the parser's range test and
			// decimal.NewFromString's own must agree with the model on both sides of each border
			// (with one or two decimals the effective exponent crosses the border of the written one)
			n.Exp = &gexp{Up: r.IntN(2) == 0, Sign: r.IntN(3), Digits: pick(r, []string{
				"2147483645", "2147483646", "2147483647", "2147483648", "2147483649", "2147483650",
				"4294967295", "4294967296", "4294967297", "9223372036854775807", "9223372036854775808",
				"18446744073709551616", "1073741824", "32767", "32768", "65536"})}
			c.Count("num.amount.exponent-int-border")
		}
		c.Emit("num.amount", numAmountCase(n))
	}
	for i := 0; i < c.N(5000, 300000); i++ {
		special := 0
		if r.IntN(150) == 0 {
			special = 2
		}
		g := c02genTransaction(c, special, "2024-01-15")
		if !g.dom {
			// outside the property's quantifier (DESIGN C02): nothing is compared there
			c.Count("tx.out-of-domain(skipped)")
			continue
		}
		c.Count("tx.in-domain")
		c.Emit("c02.check", c02CheckCase(g.text, normJ(truthJ(g.ps)), g.dom))
	}
	for i := 0; i < c.N(600, 30000); i++ {
		text, truth, dom := c02genJournal(c, 4)
		if !dom {
			continue
		}
		c.Emit("c02.diag", c02DiagCase(text, normJ(truth), dom))
	}
	genC02Sessions(c)
}

func genC20(c *Ctx) {
	riskRate = 0
	for i := 0; i < c.N(400, 20000); i++ {
		text, truth, _ := c02genJournal(c, 6)
		c.Emit("c20.hovertext", c20HoverCase(text, normJ(truth)))
	}
	for i := 0; i < c.N(800, 40000); i++ {
		text, truth, _ := c02genJournal(c, 6)
		c.Emit("c20.balances", c20BalancesCase(text, normJ(truth)))
	}
	r := c.R
	for i := 0; i < c.N(500, 20000); i++ {
		c.Emit("dec.ops", decOpsCase(genDec(r), genDec(r), int32(r.IntN(10)-3), false))
	}
}
