package main

// C18, histories.  Op c18.hist: one real Server lives through a short history of
// didOpen / didChange / didSave / didClose notifications and formatting, completion, hover,
// semantic-token, symbol and folding requests over the files of a workspace; the contents of the
// files change their account / commodity declarations (commodity directives with and without a
// format) on the way.  Observed: the UNDECLARED_* diagnostics published for the document of the
// last step (a didOpen or didChange).
//
// The model has no caches: it recomputes the warnings from the CURRENT contents — the buffer of
// the observed document, and for every other file what is on disk.  Domain of the op (kept by
// the generator, re-checked by `c18HistDomain`): at the observed step every other open document
// is saved (buffer = disk: the editor and the disk agree on what "current" is), documents are
// closed only when saved, and changes never touch `include` lines (the include graph and the
// root journal stay as they are; incremental maintenance of the include graph is C12).
// One line is emitted per observable step of a history, carrying the prefix of steps up to it.

import (
	"context"
	"fmt"
	"os"
	"path/filepath"
	"strings"
	"time"

	"go.lsp.dev/protocol"

	"github.com/juev/hledger-lsp/internal/server"
)

func init() {
	replayers["c18.hist"] = func(c *Ctx, m map[string]any) map[string]any {
		var ws c18WS
		fs, _ := m["init"].([]any)
		for _, f := range fs {
			fm := f.(map[string]any)
			ws.Files = append(ws.Files, c18File{Name: c18Str(fm["name"]), Text: unhx(c18Str(fm["text"]))})
		}
		es, _ := m["edges"].([]any)
		for _, e := range es {
			p := toIntSlice(e)
			ws.Edges = append(ws.Edges, [2]int{p[0], p[1]})
		}
		var steps []c18Step
		ss, _ := m["steps"].([]any)
		for _, s := range ss {
			sm := s.(map[string]any)
			st := c18Step{K: c18Str(sm["k"]), F: int(sm["f"].(float64))}
			if t, ok := sm["text"].(string); ok {
				st.Text = unhx(t)
			}
			if l, ok := sm["line"].(float64); ok {
				st.Line = int(l)
			}
			if ch, ok := sm["ch"].(float64); ok {
				st.Ch = int(ch)
			}
			steps = append(steps, st)
		}
		set := toIntSlice(m["set"])
		return c18HistCase(c, ws, m["hasRoot"].(bool), [3]bool{set[0] != 0, set[1] != 0, set[2] != 0}, steps)
	}
}

// c18Step: K ∈ open | change | save | close | format | completion | hover | tokens | symbols | folding.
type c18Step struct {
	K    string
	F    int
	Text string // change: the new full text
	Line int    // requests with a position
	Ch   int
}

func (s c18Step) json() J {
	j := J{"k": s.K, "f": s.F}
	if s.K == "change" {
		j["text"] = hx(s.Text)
	}
	if s.K == "completion" || s.K == "hover" {
		j["line"], j["ch"] = s.Line, s.Ch
	}
	return j
}

// c18HistState: what the editor and the disk hold while a history is played.
type c18HistState struct {
	disk []string
	buf  []string
	open []bool
}

func c18NewHistState(ws c18WS) *c18HistState {
	st := &c18HistState{}
	for _, f := range ws.Files {
		st.disk = append(st.disk, f.Text)
		st.buf = append(st.buf, "")
		st.open = append(st.open, false)
	}
	return st
}

// apply plays a step on the state; false when the step is not allowed in it.
func (st *c18HistState) apply(s c18Step) bool {
	switch s.K {
	case "open":
		if st.open[s.F] {
			return false
		}
		st.open[s.F], st.buf[s.F] = true, st.disk[s.F]
	case "change":
		if !st.open[s.F] {
			return false
		}
		st.buf[s.F] = s.Text
	case "save":
		if !st.open[s.F] {
			return false
		}
		st.disk[s.F] = st.buf[s.F]
	case "close":
		if !st.open[s.F] || st.buf[s.F] != st.disk[s.F] {
			return false
		}
		st.open[s.F] = false
	default:
		if !st.open[s.F] {
			return false
		}
	}
	return true
}

// observable: after an open/change of file x every other open document is saved.
func (st *c18HistState) observable(x int) bool {
	for i := range st.open {
		if i != x && st.open[i] && st.buf[i] != st.disk[i] {
			return false
		}
	}
	return true
}

func (st *c18HistState) current(i, x int) string {
	if i == x {
		return st.buf[i]
	}
	return st.disk[i]
}

func c18IncludeLines(text string) string {
	var out []string
	for _, l := range strings.Split(text, "\n") {
		if strings.HasPrefix(l, "include ") {
			out = append(out, l)
		}
	}
	return strings.Join(out, "\n")
}

// c18RunHist plays the steps on a real server; returns the diagnostics published for the last
// step, which must be an open or a change.
func c18RunHist(c *Ctx, ws c18WS, hasRoot bool, set [3]bool, steps []c18Step) []protocol.Diagnostic {
	os.Unsetenv("LEDGER_FILE")
	os.Unsetenv("HLEDGER_JOURNAL")
	base := c.Tmp
	if base == "" {
		base = os.TempDir()
	}
	c18Seq++
	dir := filepath.Join(base, fmt.Sprintf("c18h-%d-%d", os.Getpid(), c18Seq))
	if err := os.MkdirAll(dir, 0o755); err != nil {
		panic(err)
	}
	defer os.RemoveAll(dir)
	for _, f := range ws.Files {
		if err := os.WriteFile(filepath.Join(dir, f.Name), []byte(f.Text), 0o644); err != nil {
			panic(err)
		}
	}
	srv := server.NewServer()
	cl := &c18Client{ch: make(chan *protocol.PublishDiagnosticsParams, 16)}
	srv.SetClient(cl)
	ctx := context.Background()
	params := &protocol.InitializeParams{
		InitializationOptions: map[string]any{"diagnostics": map[string]any{
			"undeclaredAccounts": set[0], "undeclaredCommodities": set[1], "unbalancedTransactions": set[2]}},
	}
	if hasRoot {
		params.RootURI = protocol.DocumentURI("file://" + dir) //nolint:staticcheck
	}
	if _, err := srv.Initialize(ctx, params); err != nil {
		panic(err)
	}
	if err := srv.Initialized(ctx, &protocol.InitializedParams{}); err != nil {
		panic(err)
	}
	st := c18NewHistState(ws)
	uriOf := func(i int) protocol.DocumentURI {
		return protocol.DocumentURI("file://" + filepath.Join(dir, ws.Files[i].Name))
	}
	wait := func(u protocol.DocumentURI) []protocol.Diagnostic {
		select {
		case p := <-cl.ch:
			if p.URI != u {
				panic("c18.hist: diagnostics published for another uri: " + string(p.URI))
			}
			return p.Diagnostics
		case <-time.After(20 * time.Second):
			panic("c18.hist: no publishDiagnostics within 20 s")
		}
	}
	var last []protocol.Diagnostic
	for _, s := range steps {
		if !st.apply(s) {
			panic(fmt.Sprintf("c18.hist: step %v not allowed", s))
		}
		u := uriOf(s.F)
		doc := protocol.TextDocumentIdentifier{URI: u}
		switch s.K {
		case "open":
			_ = srv.DidOpen(ctx, &protocol.DidOpenTextDocumentParams{
				TextDocument: protocol.TextDocumentItem{URI: u, Text: st.buf[s.F], Version: 1}})
			last = wait(u)
		case "change":
			_ = srv.DidChangeRaw(ctx, &server.DidChangeRawParams{
				TextDocument:   protocol.VersionedTextDocumentIdentifier{TextDocumentIdentifier: doc, Version: 2},
				ContentChanges: []server.ContentChange{{Text: s.Text}}})
			last = wait(u)
		case "save":
			if err := os.WriteFile(filepath.Join(dir, ws.Files[s.F].Name), []byte(st.buf[s.F]), 0o644); err != nil {
				panic(err)
			}
			_ = srv.DidSave(ctx, &protocol.DidSaveTextDocumentParams{TextDocument: doc})
		case "close":
			_ = srv.DidClose(ctx, &protocol.DidCloseTextDocumentParams{TextDocument: doc})
		case "format":
			_, _ = srv.Format(ctx, &protocol.DocumentFormattingParams{TextDocument: doc})
		case "completion":
			_, _ = srv.Completion(ctx, &protocol.CompletionParams{TextDocumentPositionParams: protocol.TextDocumentPositionParams{
				TextDocument: doc, Position: protocol.Position{Line: uint32(s.Line), Character: uint32(s.Ch)}}})
		case "hover":
			_, _ = srv.Hover(ctx, &protocol.HoverParams{TextDocumentPositionParams: protocol.TextDocumentPositionParams{
				TextDocument: doc, Position: protocol.Position{Line: uint32(s.Line), Character: uint32(s.Ch)}}})
		case "tokens":
			_, _ = srv.SemanticTokensFull(ctx, &protocol.SemanticTokensParams{TextDocument: doc})
		case "symbols":
			_, _ = srv.DocumentSymbol(ctx, &protocol.DocumentSymbolParams{TextDocument: doc})
		case "folding":
			_, _ = srv.FoldingRanges(ctx, &protocol.FoldingRangeParams{TextDocumentPositionParams: protocol.TextDocumentPositionParams{TextDocument: doc}})
		default:
			panic("c18.hist: unknown step " + s.K)
		}
	}
	return last
}

// c18IncludeCacheInvalidatedWithoutWorkspace: repo_patches/fix-c18-invalidate-include-cache.diff is
// applied (didChange/didSave drop the edited file from the shared include cache also when the
// server has no workspace).  Before that fix an included file that was edited and saved stayed
// stale in the cache for every document including it (replays/C18/stale-include-cache.jsonl).
// Set to false (and remove that replay) to keep edits of included files out of the generated
// domain when there is no workspace.
const c18IncludeCacheInvalidatedWithoutWorkspace = true

// c18HistOutside: with a workspace, the files that are NOT part of the workspace's journal but are
// included by some journal file of the folder.  Editing such a file is outside this op's domain:
// Workspace.UpdateFile takes it for a workspace file (its reverse include edge was recorded while
// the root journal was chosen) and adds it to the resolved journal, although a fresh
// Initialize would not load it — the incremental view differs from a rebuild, which is C12's
// subject (reported there), not a cache of declarations.
func c18HistOutside(ws c18WS, hasRoot bool) []bool {
	out := make([]bool, len(ws.Files))
	if !hasRoot {
		if !c18IncludeCacheInvalidatedWithoutWorkspace {
			for _, e := range ws.Edges {
				out[e[1]] = true
			}
		}
		return out
	}
	root := c18Root(ws)
	in := map[int]bool{}
	if root >= 0 {
		in[root] = true
		for _, i := range c18Reach(len(ws.Files), ws.Edges, root) {
			in[i] = true
		}
	}
	for _, e := range ws.Edges {
		if !in[e[1]] && c18JournalExt[filepath.Ext(ws.Files[e[0]].Name)] {
			out[e[1]] = true
		}
	}
	return out
}

// c18HistDomain: the last step is an observable open/change, no change touched include lines, no
// file outside the workspace's journal that a journal file includes was edited.
func c18HistDomain(ws c18WS, hasRoot bool, steps []c18Step) (*c18HistState, bool) {
	st := c18NewHistState(ws)
	outside := c18HistOutside(ws, hasRoot)
	for _, s := range steps {
		if !st.apply(s) {
			return st, false
		}
		if (s.K == "change" || s.K == "save") && outside[s.F] {
			return st, false
		}
		if s.K == "change" && c18IncludeLines(s.Text) != c18IncludeLines(ws.Files[s.F].Text) {
			return st, false
		}
	}
	if len(steps) == 0 {
		return st, false
	}
	l := steps[len(steps)-1]
	return st, (l.K == "open" || l.K == "change") && st.observable(l.F)
}

func c18HistCase(c *Ctx, ws c18WS, hasRoot bool, set [3]bool, steps []c18Step) map[string]any {
	st, ok := c18HistDomain(ws, hasRoot, steps)
	if !ok {
		return nil
	}
	x := steps[len(steps)-1].F
	pub := c18RunHist(c, ws, hasRoot, set, steps)
	var ds []c18Diag
	for _, d := range pub {
		code, _ := d.Code.(string)
		if c18IsUndeclared(code) {
			ds = append(ds, c18Diag{code, []int{int(d.Range.Start.Line), int(d.Range.Start.Character),
				int(d.Range.End.Line), int(d.Range.End.Character)}, d.Message, int(d.Severity)})
		}
	}
	ini, files, sj := []J{}, []J{}, []J{}
	for i, f := range ws.Files {
		ini = append(ini, J{"name": f.Name, "text": hx(f.Text)})
		cur := st.current(i, x)
		j, _ := hxParse(cur)
		files = append(files, J{"name": f.Name, "text": hx(cur), "tree": journalJ(j)})
	}
	for _, s := range steps {
		sj = append(sj, s.json())
	}
	edges := [][]int{}
	for _, e := range ws.Edges {
		edges = append(edges, []int{e[0], e[1]})
	}
	var wsTree any
	root := -1
	if hasRoot {
		root = c18Root(ws)
		if root >= 0 {
			wsTree = append([]int{root}, c18Reach(len(ws.Files), ws.Edges, root)...)
		}
	}
	b := func(v bool) int {
		if v {
			return 1
		}
		return 0
	}
	return map[string]any{"init": ini, "steps": sj, "files": files, "edges": edges, "cur": x, "hasRoot": hasRoot,
		"set":     []int{b(set[0]), b(set[1]), b(set[2])},
		"curTree": c18Reach(len(ws.Files), ws.Edges, x), "wsTree": wsTree, "root": root,
		"impl": c18SortDiags(ds)}
}

// ---------------------------------------------------------------- generator

// c18Header writes a block of declarations drawn from the history's small universe of account
// and commodity names; commodity directives come bare, with an inline format, or with a format
// sub-directive.
func c18Header(c *Ctx, uniAcc, uniCom []string) string {
	r := c.R
	var sb strings.Builder
	for k := r.IntN(3); k > 0; k-- {
		sb.WriteString("account " + c18Pick(r, uniAcc) + "\n")
	}
	for k := r.IntN(4); k > 0; k-- {
		s := c18Pick(r, uniCom)
		switch r.IntN(4) {
		case 0:
			c.Count("hist.commodity.inlineFormat")
			if c18IsSign(s) {
				sb.WriteString("commodity " + s + "1,000.00\n")
			} else {
				sb.WriteString("commodity 1,000.00 " + s + "\n")
			}
		case 1:
			c.Count("hist.commodity.formatSub")
			sb.WriteString("commodity " + s + "\n  format 1.000,00 " + s + "\n")
		default:
			c.Count("hist.commodity.bare")
			sb.WriteString("commodity " + s + "\n")
		}
	}
	return sb.String()
}

type c18HistGen struct {
	c              *Ctx
	ws             c18WS
	hasRoot        bool
	set            [3]bool
	st             *c18HistState
	steps          []c18Step
	bodies         []string
	uniAcc, uniCom []string
	emitted        int
	outside        []bool
}

// add plays one step if the state allows it and emits an op when it is an observable one.
func (g *c18HistGen) add(s c18Step) bool {
	if len(g.steps) >= 16 || ((s.K == "change" || s.K == "save") && g.outside[s.F]) || !g.st.apply(s) {
		return false
	}
	g.steps = append(g.steps, s)
	g.c.Count("hist.step." + s.K)
	if (s.K == "open" || s.K == "change") && g.st.observable(s.F) && len(g.steps) > 1 {
		if out := c18HistCase(g.c, g.ws, g.hasRoot, g.set, append([]c18Step{}, g.steps...)); out != nil {
			g.c.Emit("c18.hist", out)
			g.emitted++
			if g.hasRoot {
				g.c.Count("hist.observed.workspace")
			} else {
				g.c.Count("hist.observed.noWorkspace")
			}
		}
	}
	return true
}

func (g *c18HistGen) newText(f int) string {
	return c18Header(g.c, g.uniAcc, g.uniCom) + g.bodies[f]
}

func (g *c18HistGen) ensureOpen(f int) {
	if !g.st.open[f] {
		g.add(c18Step{K: "open", F: f})
	}
}

func (g *c18HistGen) request(f int, kind string) {
	r := g.c.R
	g.ensureOpen(f)
	if kind == "" {
		kind = c18Pick(r, []string{"format", "format", "format", "format", "completion", "hover", "tokens", "symbols", "folding"})
	}
	lines := strings.Count(g.st.buf[f], "\n")
	g.add(c18Step{K: kind, F: f, Line: r.IntN(lines + 1), Ch: r.IntN(5)})
}

// observe makes file x the subject of a fresh publish: change it, or close and re-open it.
func (g *c18HistGen) observe(x int) {
	r := g.c.R
	for i := range g.st.open { // every other dirty document gets saved first
		if i != x && g.st.open[i] && g.st.buf[i] != g.st.disk[i] {
			g.add(c18Step{K: "save", F: i})
		}
	}
	switch {
	case !g.st.open[x]:
		g.add(c18Step{K: "open", F: x})
	case g.st.buf[x] == g.st.disk[x] && r.IntN(2) == 0:
		g.add(c18Step{K: "close", F: x})
		g.add(c18Step{K: "open", F: x})
	case r.IntN(3) == 0:
		g.add(c18Step{K: "change", F: x, Text: g.st.buf[x] + "\n"}) // declarations untouched
	default:
		g.add(c18Step{K: "change", F: x, Text: g.newText(x)})
	}
}

func (g *c18HistGen) randomStep() {
	r := g.c.R
	f := r.IntN(len(g.ws.Files))
	switch k := r.IntN(10); {
	case !g.st.open[f]:
		g.add(c18Step{K: "open", F: f})
	case k < 3:
		g.add(c18Step{K: "change", F: f, Text: g.newText(f)})
	case k < 5:
		g.add(c18Step{K: "save", F: f})
	case k < 6:
		if g.st.buf[f] != g.st.disk[f] {
			g.add(c18Step{K: "save", F: f})
		} else {
			g.add(c18Step{K: "close", F: f})
		}
	default:
		g.request(f, "")
	}
}

func genC18Hist(c *Ctx) {
	r := c.R
	// names, include graph and current file from the workspace generator; the bodies (includes +
	// transactions) are rewritten over a small universe of names and stay fixed, only the
	// declaration headers change during the history
	ws := c18Workspace(c)
	n := len(ws.Files)
	g := &c18HistGen{c: c, ws: ws}
	for len(g.uniAcc) < 3 {
		g.uniAcc = append(g.uniAcc, c18Pick(r, c18DeclPool))
	}
	for len(g.uniCom) < 3 {
		g.uniCom = append(g.uniCom, c18Pick(r, c18Coms))
	}
	g.bodies = make([]string, n)
	for i := range ws.Files {
		var incs []string
		for _, e := range ws.Edges {
			if e[0] == i {
				incs = append(incs, ws.Files[e[1]].Name)
			}
		}
		g.bodies[i] = c18Journal(c, nil, nil, incs, g.uniAcc, g.uniCom, 1+r.IntN(2))
		g.ws.Files[i].Text = c18Header(c, g.uniAcc, g.uniCom) + g.bodies[i]
	}
	g.hasRoot = r.IntN(4) != 0
	s := 7
	if r.IntN(3) == 0 {
		s = r.IntN(8)
	}
	g.set = [3]bool{s&1 != 0, s&2 != 0, s&4 != 0}
	g.st = c18NewHistState(g.ws)
	g.outside = c18HistOutside(g.ws, g.hasRoot)
	x := r.IntN(n) // the document whose diagnostics the history is mostly about
	w := r.IntN(n) // another (or the same) file whose declarations change
	for k := r.IntN(3); k > 0; k-- {
		g.randomStep()
	}
	switch r.IntN(4) {
	case 0: // T1: a file is edited and saved, a request follows before anything is published
		c.Count("hist.template.saveThenRequest")
		g.ensureOpen(w)
		if r.IntN(3) != 0 {
			g.add(c18Step{K: "change", F: w, Text: g.newText(w)})
		}
		g.add(c18Step{K: "save", F: w})
		g.request(r.IntN(n), "")
		if r.IntN(3) == 0 {
			g.request(r.IntN(n), "")
		}
		g.observe(x)
	case 1: // T2: the observed document was published before; then a file below it changes
		c.Count("hist.template.includedFileChanges")
		g.ensureOpen(x)
		g.ensureOpen(w)
		g.add(c18Step{K: "change", F: w, Text: g.newText(w)})
		g.add(c18Step{K: "save", F: w})
		if r.IntN(2) == 0 {
			g.add(c18Step{K: "close", F: w})
		}
		if r.IntN(2) == 0 {
			g.request(x, "")
		}
		g.observe(x)
	case 2: // T3: requests first (they fill caches), edits afterwards
		c.Count("hist.template.requestThenEdit")
		g.request(r.IntN(n), "")
		g.ensureOpen(w)
		g.add(c18Step{K: "change", F: w, Text: g.newText(w)})
		if r.IntN(2) == 0 {
			g.request(r.IntN(n), "")
		}
		g.add(c18Step{K: "save", F: w})
		if r.IntN(2) == 0 {
			g.request(r.IntN(n), "")
		}
		g.observe(x)
	default:
		c.Count("hist.template.randomWalk")
		for k := 3 + r.IntN(c.N(6, 10)); k > 0; k-- {
			g.randomStep()
		}
		g.observe(x)
	}
	for k := r.IntN(3); k > 0; k-- { // the history goes on
		g.randomStep()
	}
	if r.IntN(2) == 0 {
		g.observe(r.IntN(n))
	}
	if g.emitted == 0 {
		c.Count("hist.noObservation")
	}
}
