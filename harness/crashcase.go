package main

// Breadcrumb for crashes of the implementation inside the harness's own goroutine: the text last
// handed to the real lexer / parser is remembered, and when the real code panics the harness
// prints it (CRASHCASE <hex>) before dying, so that ./check can put the failing input itself
// into the replay file instead of only the trace and the seed.

import (
	"fmt"
	"os"
	"runtime/debug"

	"github.com/juev/hledger-lsp/internal/ast"
	"github.com/juev/hledger-lsp/internal/parser"
)

var lastInput string
var haveLastInput bool

func noteInput(s string) { lastInput = s; haveLastInput = true }

func hxParse(text string) (*ast.Journal, []parser.ParseError) {
	noteInput(text)
	return parser.Parse(text)
}

// reportCrash is deferred by main: a panic of the real code on the main goroutine is reported
// with the input that caused it; the process still dies with the trace (exit status 2, like an
// unrecovered panic) so the orchestrator sees a crash.
func reportCrash() {
	if r := recover(); r != nil {
		if haveLastInput {
			fmt.Fprintf(os.Stderr, "CRASHCASE %s\n", hx(lastInput))
		}
		fmt.Fprintf(os.Stderr, "panic: %v\n\ngoroutine 1 [running]:\n%s\n", r, debug.Stack())
		os.Exit(2)
	}
}
