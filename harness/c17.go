package main

// C17: semantic tokens.  Real Server in-process: DidOpen / DidChange / DidClose and the three
// exported request methods SemanticTokensFull, SemanticTokensFullDelta, SemanticTokensRange.
//
// The Lean model does not contain the lexer: every document is sent as
//   {"t": hex text, "toks": the real lexer's tokens (lexAll), "L"/"D": the non-ASCII code points
//    of the text for which unicode.IsLetter / unicode.IsDigit hold}
// and the model computes everything downstream of the lexer.
//
// tokenCache (semantic.go) is ONE package-level variable shared by all Server values of this
// process: result ids keep increasing over the whole run and entries survive a Server.  Every
// history therefore starts by closing its URIs (tokenCache.delete is global) and by probing the
// counter with one full request on a scratch URI; the observed id is the history's "base" and the
// model starts from {next = base, cache = {}}.

import (
	"context"
	"fmt"
	"math/rand/v2"
	"sort"
	"strconv"
	"strings"
	"unicode"

	"go.lsp.dev/protocol"

	"github.com/juev/hledger-lsp/internal/server"
)

func init() {
	register("C17", genC17)
	replayers["c17.legend"] = func(c *Ctx, m map[string]any) map[string]any { return legendCase() }
	replayers["c17.tokens"] = func(c *Ctx, m map[string]any) map[string]any {
		return tokensCase(docText(m["doc"]))
	}
	replayers["c17.range"] = func(c *Ctx, m map[string]any) map[string]any {
		return rangeCase(docText(m["doc"]), uint32(num(m["lo"])), uint32(num(m["hi"])))
	}
	replayers["c17.hist"] = func(c *Ctx, m map[string]any) map[string]any {
		steps, _ := m["steps"].([]any)
		oldBase := uint64(num(m["base"]))
		var ops []histOp
		for _, s := range steps {
			sm := s.(map[string]any)
			op := histOp{k: sm["k"].(string), u: sm["u"].(string)}
			switch op.k {
			case "set":
				op.text = docText(sm["doc"])
			case "delta":
				op.prev, _ = sm["prev"].(string)
			case "range":
				op.lo, op.hi = uint32(num(sm["lo"])), uint32(num(sm["hi"]))
			}
			ops = append(ops, op)
		}
		return runHist17(ops, oldBase)
	}
}

func num(v any) float64 { f, _ := v.(float64); return f }

func docText(v any) string {
	m, _ := v.(map[string]any)
	s, _ := m["t"].(string)
	return unhx(s)
}

// lexedDoc: the text with what the model needs from the parts of the program it does not model.
func lexedDoc(text string) J {
	ls, ds := map[rune]bool{}, map[rune]bool{}
	for _, r := range text {
		if r < 0x80 {
			continue
		}
		if unicode.IsLetter(r) {
			ls[r] = true
		}
		if unicode.IsDigit(r) {
			ds[r] = true
		}
	}
	return J{"t": hx(text), "toks": lexAll(text), "L": sortedRunes(ls), "D": sortedRunes(ds)}
}

func sortedRunes(m map[rune]bool) []int {
	out := []int{}
	for r := range m {
		out = append(out, int(r))
	}
	sort.Ints(out)
	return out
}

func u32s(d []uint32) []uint32 {
	if d == nil {
		return []uint32{}
	}
	return d
}

func legendCase() map[string]any {
	l := server.GetSemanticTokensLegend()
	types, mods := []string{}, []string{}
	for _, t := range l.TokenTypes {
		types = append(types, string(t))
	}
	for _, t := range l.TokenModifiers {
		mods = append(mods, string(t))
	}
	return map[string]any{"impl": J{"types": types, "mods": mods}}
}

const c17URI = protocol.DocumentURI("file:///w/one.journal")

func openDoc(srv *server.Server, u protocol.DocumentURI, text string) {
	_ = srv.DidOpen(context.Background(), &protocol.DidOpenTextDocumentParams{
		TextDocument: protocol.TextDocumentItem{URI: u, Text: text, Version: 1}})
}

func closeDoc(srv *server.Server, u protocol.DocumentURI) {
	_ = srv.DidClose(context.Background(), &protocol.DidCloseTextDocumentParams{
		TextDocument: protocol.TextDocumentIdentifier{URI: u}})
}

func tokensCase(text string) map[string]any {
	srv := server.NewServer()
	openDoc(srv, c17URI, text)
	res, err := srv.SemanticTokensFull(context.Background(), &protocol.SemanticTokensParams{
		TextDocument: protocol.TextDocumentIdentifier{URI: c17URI}})
	if err != nil {
		panic(err)
	}
	closeDoc(srv, c17URI)
	return map[string]any{"doc": lexedDoc(text), "impl": u32s(res.Data)}
}

func rangeCase(text string, lo, hi uint32) map[string]any {
	srv := server.NewServer()
	openDoc(srv, c17URI, text)
	res, err := srv.SemanticTokensRange(context.Background(), &protocol.SemanticTokensRangeParams{
		TextDocument: protocol.TextDocumentIdentifier{URI: c17URI},
		Range: protocol.Range{Start: protocol.Position{Line: lo, Character: 0},
			End: protocol.Position{Line: hi, Character: 0}}})
	if err != nil {
		panic(err)
	}
	full, err := srv.SemanticTokensFull(context.Background(), &protocol.SemanticTokensParams{
		TextDocument: protocol.TextDocumentIdentifier{URI: c17URI}})
	if err != nil {
		panic(err)
	}
	closeDoc(srv, c17URI)
	if res.ResultID != "" {
		panic("range response carries a result id")
	}
	return map[string]any{"doc": lexedDoc(text), "lo": lo, "hi": hi, "full": u32s(full.Data), "impl": u32s(res.Data)}
}

// ---------------------------------------------------------------- histories

type histOp struct {
	k      string // set | close | full | delta | range
	u      string
	text   string // set: the document's text after the notification
	change *protocol.TextDocumentContentChangeEvent
	prev   string
	lo, hi uint32
	ref    []uint32 // full / delta: the implementation's full result for the current text
}

var c17URIs = []string{"file:///w/a.journal", "file:///w/b.journal", "file:///w/c.journal"}

const c17Probe = protocol.DocumentURI("file:///w/probe.journal")

func respJ(v any) any {
	switch r := v.(type) {
	case *protocol.SemanticTokens:
		return J{"id": r.ResultID, "data": u32s(r.Data)}
	case *protocol.SemanticTokensDelta:
		es := []J{}
		for _, e := range r.Edits {
			es = append(es, J{"s": e.Start, "d": e.DeleteCount, "data": u32s(e.Data)})
		}
		return J{"id": r.ResultID, "edits": es}
	}
	panic(fmt.Sprintf("unexpected response %T", v))
}

// isolate: empty cache entries for the history's URIs, and the current value of the counter.
func isolate17(srv *server.Server) uint64 {
	for _, u := range c17URIs {
		closeDoc(srv, protocol.DocumentURI(u))
	}
	openDoc(srv, c17Probe, "x")
	res, err := srv.SemanticTokensFull(context.Background(), &protocol.SemanticTokensParams{
		TextDocument: protocol.TextDocumentIdentifier{URI: c17Probe}})
	if err != nil {
		panic(err)
	}
	closeDoc(srv, c17Probe)
	base, err := strconv.ParseUint(res.ResultID, 10, 64)
	if err != nil {
		panic("probe: result id is not a number: " + res.ResultID)
	}
	return base
}

// applyOp runs one step on the real server.  A "set" is a DidOpen, or (when op.change is
// given) a DidChange; the resulting text is read back with GetDocument.
func applyOp(srv *server.Server, op *histOp) any {
	ctx := context.Background()
	u := protocol.DocumentURI(op.u)
	id := protocol.TextDocumentIdentifier{URI: u}
	switch op.k {
	case "set":
		if op.change != nil {
			_ = srv.DidChange(ctx, &protocol.DidChangeTextDocumentParams{
				TextDocument:   protocol.VersionedTextDocumentIdentifier{TextDocumentIdentifier: id, Version: 2},
				ContentChanges: []protocol.TextDocumentContentChangeEvent{*op.change}})
			op.text, _ = srv.GetDocument(u)
		} else {
			openDoc(srv, u, op.text)
		}
		return nil
	case "close":
		closeDoc(srv, u)
		return nil
	case "full":
		r, err := srv.SemanticTokensFull(ctx, &protocol.SemanticTokensParams{TextDocument: id})
		if err != nil {
			panic(err)
		}
		op.ref = refFull(srv, u)
		return respJ(r)
	case "delta":
		r, err := srv.SemanticTokensFullDelta(ctx, &protocol.SemanticTokensDeltaParams{TextDocument: id, PreviousResultID: op.prev})
		if err != nil {
			panic(err)
		}
		op.ref = refFull(srv, u)
		return respJ(r)
	case "range":
		r, err := srv.SemanticTokensRange(ctx, &protocol.SemanticTokensRangeParams{TextDocument: id,
			Range: protocol.Range{Start: protocol.Position{Line: op.lo}, End: protocol.Position{Line: op.hi}}})
		if err != nil {
			panic(err)
		}
		return respJ(r)
	}
	panic("bad op " + op.k)
}

// refFull: the full result for the current text of u, without touching the result cache
// (a range request over every line).
func refFull(srv *server.Server, u protocol.DocumentURI) []uint32 {
	r, err := srv.SemanticTokensRange(context.Background(), &protocol.SemanticTokensRangeParams{
		TextDocument: protocol.TextDocumentIdentifier{URI: u},
		Range:        protocol.Range{Start: protocol.Position{Line: 0}, End: protocol.Position{Line: 0xFFFFFFFF}}})
	if err != nil {
		panic(err)
	}
	return u32s(r.Data)
}

func stepJ(op histOp) J {
	j := J{"k": op.k, "u": op.u}
	switch op.k {
	case "set":
		j["doc"] = lexedDoc(op.text)
	case "full":
		j["ref"] = u32s(op.ref)
	case "delta":
		j["prev"] = op.prev
		j["ref"] = u32s(op.ref)
	case "range":
		j["lo"], j["hi"] = op.lo, op.hi
	}
	return j
}

// runHist17 replays recorded ops (every "set" as a DidOpen with the recorded text).  Result ids
// are process-wide counters: a recorded previousResultId that is a number at or above the
// recorded base is shifted by the difference to the base probed now, so that "current",
// "stale" and "not yet issued" ids keep their meaning.
func runHist17(ops []histOp, oldBase uint64) map[string]any {
	srv := server.NewServer()
	base := isolate17(srv)
	steps, impl := []J{}, []any{}
	for i := range ops {
		ops[i].change = nil
		if ops[i].k == "delta" {
			if n, err := strconv.ParseUint(ops[i].prev, 10, 64); err == nil && n >= oldBase && n < oldBase+1000000 &&
				strconv.FormatUint(n, 10) == ops[i].prev {
				ops[i].prev = strconv.FormatUint(n-oldBase+base, 10)
			}
		}
		impl = append(impl, applyOp(srv, &ops[i]))
		steps = append(steps, stepJ(ops[i]))
	}
	isolate17(srv)
	return map[string]any{"base": base, "steps": steps, "impl": impl}
}

// ---------------------------------------------------------------- text generators

type feat struct {
	bmp, nonBMP, pipe, code, quoted, tags, crlf, tabs, odd, uspace bool
}

func (f feat) String() string {
	s := ""
	for _, p := range []struct {
		b bool
		n string
	}{{f.bmp, "bmp"}, {f.nonBMP, "nonbmp"}, {f.pipe, "pipe"}, {f.code, "code"}, {f.quoted, "quoted"},
		{f.tags, "tags"}, {f.crlf, "crlf"}, {f.tabs, "tabs"}, {f.odd, "odd"}, {f.uspace, "uspace"}} {
		if p.b {
			s += p.n + "+"
		}
	}
	if s == "" {
		return "plain"
	}
	return s
}

var (
	c17BMP    = []rune("éжя中文ñßÅØλ")
	c17NonBMP = []rune{0x1F600, 0x1D11E, 0x1F4B0, 0x10400, 0x2000B}
	c17Cur    = []string{"$", "€", "£", "¥", "₽", "₴"}
	c17Com    = []string{"USD", "EUR", "BTC", "AAPL", "X"}
)

// white space that unicode.IsSpace accepts and the lexer does not skip between tokens: it ends
// up at the edges of text tokens, tag names and tag values, which are trimmed.
var c17USpace = []string{"\u00a0", "\u3000", "\u2003", "\f", "\v", "\u0085"}

// usp: a blank, or (feature uspace) now and then a Unicode space, alone or next to a blank.
func usp(r *rand.Rand, f feat) string {
	if f.uspace && r.IntN(3) == 0 {
		return pick(r, []string{"", " ", ""}) + pick(r, c17USpace) + pick(r, []string{"", " ", ""})
	}
	return " "
}

func word17(r *rand.Rand, f feat) string {
	n := 1 + r.IntN(6)
	var sb strings.Builder
	for i := 0; i < n; i++ {
		switch x := r.IntN(20); {
		case f.nonBMP && x == 0:
			sb.WriteRune(pick(r, c17NonBMP))
		case f.bmp && x < 4:
			sb.WriteRune(pick(r, c17BMP))
		case x < 6 && i > 0:
			sb.WriteRune(pick(r, asciiDigits))
		default:
			sb.WriteRune(pick(r, asciiLetters))
		}
	}
	return sb.String()
}

func words17(r *rand.Rand, f feat, max int) string {
	n := 1 + r.IntN(max)
	ws := []string{}
	for i := 0; i < n; i++ {
		ws = append(ws, word17(r, f))
	}
	return strings.Join(ws, " ")
}

func account17(r *rand.Rand, f feat) string {
	n := 2 + r.IntN(3)
	ps := []string{pick(r, []string{"assets", "expenses", "income", "liabilities", "equity"})}
	for i := 1; i < n; i++ {
		w := word17(r, f)
		if r.IntN(6) == 0 {
			w += " " + word17(r, f)
		}
		ps = append(ps, w)
	}
	return strings.Join(ps, ":")
}

func number17(r *rand.Rand) string {
	switch r.IntN(6) {
	case 0:
		return strconv.Itoa(r.IntN(100000))
	case 1:
		return fmt.Sprintf("%d.%02d", r.IntN(1000), r.IntN(100))
	case 2:
		return fmt.Sprintf("%d,%03d.%02d", 1+r.IntN(99), r.IntN(1000), r.IntN(100))
	case 3:
		return fmt.Sprintf("%d %03d,%02d", 1+r.IntN(99), r.IntN(1000), r.IntN(100))
	case 4:
		return fmt.Sprintf("%dE%d", 1+r.IntN(9), r.IntN(4))
	default:
		return fmt.Sprintf("%d.%d", r.IntN(50), r.IntN(10))
	}
}

func amount17(r *rand.Rand, f feat) string {
	sign := ""
	if r.IntN(3) == 0 {
		sign = "-"
	}
	switch x := r.IntN(10); {
	case x < 3:
		return pick(r, c17Cur) + sign + number17(r)
	case x < 4:
		return sign + pick(r, c17Cur) + number17(r)
	case x < 7:
		return sign + number17(r) + " " + pick(r, c17Com)
	case x < 8:
		return pick(r, c17Com) + " " + sign + number17(r)
	case x < 9 && f.quoted:
		q := "\"" + words17(r, f, 2) + "\""
		switch r.IntN(12) {
		case 0:
			q = q[:len(q)-1] // unterminated
		case 1:
			q = "\"\""
		case 2:
			q = "\"" + string(pick(r, c17NonBMP)) + " " + word17(r, f) + "\""
		case 3:
			q = "\" " + words17(r, f, 2) + " \"" // blanks inside the quotes belong to the lexeme
		}
		if r.IntN(2) == 0 {
			return sign + number17(r) + " " + q
		}
		return q + " " + sign + number17(r)
	default:
		return sign + number17(r)
	}
}

func tagComment17(r *rand.Rand, f feat) string {
	var sb strings.Builder
	if r.IntN(2) == 0 {
		sb.WriteString(words17(r, f, 3))
		sb.WriteString(pick(r, []string{" ", ", ", "  "}))
	}
	n := 1 + r.IntN(3)
	for i := 0; i < n; i++ {
		if i > 0 {
			sb.WriteString(pick(r, []string{", ", ",", " , "}))
		}
		name := word17(r, f)
		if r.IntN(8) == 0 {
			name += pick(r, []string{"-", "_"}) + word17(r, f)
		}
		if f.uspace && r.IntN(4) == 0 {
			sb.WriteString(pick(r, c17USpace)) // a Unicode space in front of the name is trimmed
		}
		sb.WriteString(name + ":")
		switch r.IntN(5) {
		case 0: // no value
		case 1:
			sb.WriteString(usp(r, f) + words17(r, f, 2))
			if f.uspace && r.IntN(3) == 0 {
				sb.WriteString(pick(r, c17USpace))
			}
		case 2:
			sb.WriteString(word17(r, f) + ":" + word17(r, f))
		default:
			sb.WriteString(word17(r, f))
		}
	}
	if f.odd && r.IntN(3) == 0 {
		sb.WriteString(pick(r, []string{",", ", x y:z", ", :v", " a:b", ",,k:", ", k :v", ":", ", k :yk:1", ", k : k:v", ",k:,k:", ", é:é, 😀:😀", ", k:😀 😀 ,n:"}))
	}
	if f.odd && r.IntN(4) == 0 {
		// a name separated from its colon by a blank is no tag; the same `name:` inside a later word of
		// the part (or in the next part) must not be taken for it
		w := word17(r, feat{})
		sb.WriteString(", " + w + " :" + word17(r, f) + w + ":" + word17(r, f) + pick(r, []string{"", ", " + w + ":" + word17(r, f)}))
	}
	if f.odd && r.IntN(3) == 0 {
		// a part that is skipped (its name has a blank) followed by a tag whose `name:` also
		// occurs inside the skipped part
		w := word17(r, feat{})
		return words17(r, f, 2) + " " + word17(r, feat{}) + w + ":" + word17(r, f) + pick(r, []string{", ", ","}) + w + ":" + word17(r, f) + ", " + sb.String()
	}
	return sb.String()
}

func comment17(r *rand.Rand, f feat) string {
	lead := pick(r, []string{";", "; ", ";; ", ";  "})
	if f.uspace && r.IntN(4) == 0 {
		lead = ";" + pick(r, c17USpace)
	}
	if f.tags && r.IntN(3) != 0 {
		return lead + tagComment17(r, f)
	}
	if f.odd && r.IntN(4) == 0 {
		return lead + words17(r, f, 2) + pick(r, []string{" 10:30", " a,b", " http://x.y/z", ":", " :", " ,"})
	}
	return lead + words17(r, f, 4)
}

func date17(r *rand.Rand) string {
	sep := pick(r, []string{"-", "/", "."})
	return fmt.Sprintf("20%02d%s%02d%s%02d", r.IntN(30), sep, 1+r.IntN(12), sep, 1+r.IntN(28))
}

func sp2(r *rand.Rand, f feat) string {
	if f.tabs && r.IntN(4) == 0 {
		return pick(r, []string{"\t", " \t", "\t "})
	}
	return pick(r, []string{"  ", "   ", "    "})
}

func txn17(r *rand.Rand, f feat, out *[]string) {
	var sb strings.Builder
	sb.WriteString(date17(r))
	if r.IntN(8) == 0 {
		sb.WriteString("=" + date17(r))
	}
	if r.IntN(3) == 0 {
		sb.WriteString(" " + pick(r, []string{"*", "!"}))
	}
	if f.code && r.IntN(2) == 0 {
		code := "(" + words17(r, f, 2) + ")"
		switch r.IntN(14) {
		case 0:
			code = code[:len(code)-1]
		case 1:
			code = code[:len(code)-1] + pick(r, []string{" ", "  ", "\t"}) // unterminated, blanks up to the line end
		case 2:
			code = "()"
		case 3:
			code = "( " + words17(r, f, 2) + " )"
		case 4:
			code = "(" + string(pick(r, c17NonBMP)) + word17(r, f) + ")"
		}
		sb.WriteString(" " + code)
	}
	if r.IntN(10) != 0 {
		sep := usp(r, f)
		if f.tabs && r.IntN(5) == 0 {
			sep = pick(r, []string{"\t", " \t", "\t\t"})
		}
		sb.WriteString(sep + words17(r, f, 3))
		if f.uspace && r.IntN(4) == 0 {
			sb.WriteString(pick(r, c17USpace)) // trailing Unicode space: trimmed off the payee
		}
		if f.pipe && r.IntN(2) == 0 {
			sb.WriteString(pick(r, []string{" | ", "|", " |", "| "}) + words17(r, f, 2))
			if f.uspace && r.IntN(4) == 0 {
				sb.WriteString(pick(r, c17USpace))
			}
		}
	}
	if r.IntN(4) == 0 {
		sb.WriteString(pick(r, []string{"  ", " ", ""}) + comment17(r, f))
	}
	*out = append(*out, sb.String())
	np := r.IntN(4)
	for i := 0; i < np; i++ {
		if r.IntN(8) == 0 {
			*out = append(*out, "    "+comment17(r, f))
			continue
		}
		var pb strings.Builder
		pb.WriteString(pick(r, []string{"    ", "  ", "\t", " "}))
		if r.IntN(8) == 0 {
			pb.WriteString(pick(r, []string{"* ", "! "}))
		}
		acc := account17(r, f)
		switch r.IntN(8) {
		case 0:
			acc = "(" + acc + ")"
		case 1:
			acc = "[" + acc + "]"
		}
		pb.WriteString(acc)
		if r.IntN(5) != 0 {
			pb.WriteString(sp2(r, f) + amount17(r, f))
			if r.IntN(5) == 0 {
				pb.WriteString(pick(r, []string{" @ ", " @@ ", "@"}) + amount17(r, f))
			}
			if r.IntN(6) == 0 {
				pb.WriteString(pick(r, []string{" = ", " == ", "="}) + amount17(r, f))
			}
		}
		if r.IntN(4) == 0 {
			pb.WriteString(pick(r, []string{"  ", " ", ""}) + comment17(r, f))
		}
		*out = append(*out, pb.String())
	}
}

func directive17(r *rand.Rand, f feat) string {
	cmt := ""
	if r.IntN(4) == 0 {
		cmt = "  " + comment17(r, f)
	}
	switch r.IntN(10) {
	case 0, 1:
		return "account " + account17(r, f) + cmt
	case 2:
		return "commodity " + pick(r, c17Cur) + "1,000.00" + cmt
	case 3:
		if f.quoted {
			return "commodity \"" + words17(r, f, 2) + "\"" + cmt
		}
		return "commodity " + pick(r, c17Com) + cmt
	case 4:
		return "P " + date17(r) + " " + pick(r, c17Com) + " " + amount17(r, f)
	case 5:
		return "Y 20" + strconv.Itoa(10+r.IntN(20))
	case 6:
		return "include " + word17(r, f) + ".journal"
	case 7:
		return "D " + pick(r, c17Cur) + "1,000.00"
	case 8:
		return "payee " + words17(r, f, 2)
	default:
		return pick(r, []string{"tag ", "alias ", "decimal-mark ", "apply account ", "end ", "year "}) + word17(r, f)
	}
}

// genJournal17 builds a journal from templates; the features decide which kinds of lexemes
// (and so which of the known deviations) can occur.
func genJournal17(r *rand.Rand, f feat, maxEntries int) string {
	var lines []string
	n := 1 + r.IntN(maxEntries)
	for i := 0; i < n; i++ {
		switch x := r.IntN(10); {
		case x < 5:
			txn17(r, f, &lines)
		case x < 7:
			lines = append(lines, directive17(r, f))
		case x < 9:
			lines = append(lines, comment17(r, f))
		default:
			lines = append(lines, "")
		}
	}
	nl := "\n"
	var sb strings.Builder
	for i, l := range lines {
		sb.WriteString(l)
		if i == len(lines)-1 && r.IntN(4) == 0 {
			break
		}
		if f.crlf && r.IntN(3) != 0 {
			sb.WriteString("\r\n")
		} else {
			sb.WriteString(nl)
		}
	}
	return sb.String()
}

var c17CommentAlphabet = []rune("ab1 :,;-_\t.é中😀\u00a0\u3000")

// commentSoup: lines that stress extractTagTokensFromComment.
func commentSoup17(r *rand.Rand, maxLines int) string {
	var sb strings.Builder
	n := 1 + r.IntN(maxLines)
	for i := 0; i < n; i++ {
		if r.IntN(3) == 0 {
			sb.WriteString(pick(r, []string{"  ", "2024-01-02 x ", "a:b  1 "}))
		}
		sb.WriteString(";")
		m := r.IntN(14)
		for j := 0; j < m; j++ {
			sb.WriteRune(pick(r, c17CommentAlphabet))
		}
		sb.WriteString("\n")
	}
	return sb.String()
}

func randFeat(r *rand.Rand) feat {
	b := func(n int) bool { return r.IntN(n) == 0 }
	return feat{bmp: b(2), nonBMP: b(3), pipe: b(3), code: b(3), quoted: b(3), tags: b(2), crlf: b(3), tabs: b(5), odd: b(4), uspace: b(5)}
}

// genText17: (text, label of the stream it came from).
func genText17(c *Ctx, maxEntries int) (string, string) {
	r := c.R
	switch x := r.IntN(20); {
	case x < 8: // clean journals: every feature (CRLF line ends included: no finding is open)
		f := randFeat(r)
		if r.IntN(3) == 0 {
			// the shapes of the repaired findings together: codes, quoted commodities, tabs and Unicode
			// spaces before payees, characters outside the BMP before other tokens, tags after them
			f.code, f.quoted, f.tabs, f.uspace, f.nonBMP, f.tags, f.bmp = true, true, true, true, true, true, true
		}
		return genJournal17(r, f, maxEntries), "journal.clean"
	case x < 15:
		f := randFeat(r)
		return genJournal17(r, f, maxEntries), "journal.mixed"
	case x < 17:
		return commentSoup17(r, maxEntries), "soup"
	case x < 18:
		if r.IntN(3) == 0 {
			return "", "empty"
		}
		// outside the property's domain (a CR that is not part of CRLF): correspondence only
		return strings.Replace(genJournal17(r, randFeat(r), maxEntries), "\n", "\r", 1+r.IntN(2)), "lonecr"
	default:
		return genDoc(r, maxEntries*2, 24), "arbitrary"
	}
}

func lineCount(s string) int { return strings.Count(s, "\n") + 1 }

func genLineNo(r *rand.Rand, text string) uint32 {
	n := lineCount(text)
	switch x := r.IntN(12); {
	case x < 1:
		return 0
	case x < 2:
		return uint32(n)
	case x < 3:
		return uint32(n + 1 + r.IntN(5))
	case x < 4:
		return 0xFFFFFFFF
	default:
		return uint32(r.IntN(n))
	}
}

// genEdit17: a ranged content change for text (positions on line starts / ends / inside ASCII
// prefixes only, so that it is a conforming change for C01's purposes).
func genEdit17(c *Ctx, text string) *protocol.TextDocumentContentChangeEvent {
	r := c.R
	lines := strings.Split(text, "\n")
	pos := func() protocol.Position {
		l := r.IntN(len(lines))
		ln := strings.TrimSuffix(lines[l], "\r")
		ch := 0
		switch r.IntN(3) {
		case 0:
		case 1:
			ch = utf16Len(ln)
		default:
			for ch < len(ln) && ln[ch] < 0x80 && r.IntN(4) != 0 {
				ch++
			}
		}
		return protocol.Position{Line: uint32(l), Character: uint32(ch)}
	}
	a, b := pos(), pos()
	if b.Line < a.Line || (b.Line == a.Line && b.Character < a.Character) {
		a, b = b, a
	}
	if r.IntN(3) == 0 {
		b = a
	}
	if a.Line == 0 && a.Character == 0 && b.Line == 0 && b.Character == 0 {
		// range 0:0-0:0 is taken for a full replacement by the server (C01 insert-at-origin)
		b = protocol.Position{Line: 0, Character: uint32(utf16Len(strings.TrimSuffix(lines[0], "\r")))}
	}
	var ins string
	switch r.IntN(6) {
	case 0:
		ins = ""
	case 1:
		ins = "\n"
	case 2:
		ins = "    " + account17(r, feat{}) + "  " + amount17(r, feat{}) + "\n"
	case 3:
		ins = word17(r, feat{bmp: true, nonBMP: true})
	case 4:
		ins = " ; " + word17(r, feat{}) + ":" + word17(r, feat{})
	default:
		ins = string(genChar(r))
	}
	return &protocol.TextDocumentContentChangeEvent{Range: protocol.Range{Start: a, End: b}, Text: ins}
}

// genFieldPair17: two texts whose encoded arrays differ in exactly ONE of the five integers of
// one token (the label says which), wrapped in identical lines before and after, so that a
// delta computation that compares tokens only partially, or trims a common prefix / suffix,
// is exercised on every field.
func genFieldPair17(r *rand.Rand) (string, string, string) {
	w := func() string { return word17(r, feat{}) }
	var a, b []string
	var label string
	switch r.IntN(10) {
	case 0: // modifiers only: the directive above an indented sub-directive line is commented out
		com := pick(r, c17Com)
		a = []string{"commodity " + com, "    format 1,000.00 " + com}
		b = []string{";ommodity " + com, "    format 1,000.00 " + com}
		label = "mods.commented-commodity"
	case 1:
		acc := account17(r, feat{})
		sub := pick(r, []string{"    note " + w(), "    alias " + w(), "  " + w() + " " + w()})
		a = []string{"account " + acc, sub}
		b = []string{"; ccount " + acc, sub}
		label = "mods.commented-account"
	case 2: // modifiers only: same-length directive keyword
		name := strings.ToUpper(w()[:1]) + "x" + w()
		other := pick(r, []string{"include", "comment", "capture"})
		a = []string{other + " " + name}
		b = []string{"account " + name}
		label = "mods.keyword"
	case 3: // modifiers only, several lines below the directive
		acc := account17(r, feat{})
		a = []string{"account " + acc, "  " + w(), "  " + w() + " " + w()}
		b = []string{"include " + acc, "  " + w(), a[2]}
		b[1] = a[1]
		label = "mods.keyword-sublines"
	case 4: // deltaStart only: one more blank before the amount
		acc := account17(r, feat{})
		n := number17(r)
		a = []string{date17(r) + " " + w(), "    " + acc + "  " + n + " USD"}
		b = []string{a[0], "    " + acc + "   " + n + " USD"}
		label = "start"
	case 5: // deltaStart only, first token of a line (indentation)
		acc := account17(r, feat{})
		a = []string{date17(r) + " " + w(), "    " + acc}
		b = []string{a[0], "  " + acc}
		label = "start.indent"
	case 6: // length only: the last token of a line grows
		d := date17(r)
		p := w()
		a = []string{d + " " + p}
		b = []string{d + " " + p + w()}
		label = "length"
	case 7: // length only: comment text
		p := w()
		a = []string{"; " + p}
		b = []string{"; " + p + " " + w()}
		label = "length.comment"
	case 8: // type only: a one-character number becomes a one-character commodity
		acc := account17(r, feat{})
		a = []string{date17(r) + " " + w(), "    " + acc + "  " + strconv.Itoa(1+r.IntN(9))}
		b = []string{a[0], "    " + acc + "  " + pick(r, []string{"$", "X", "€"})}
		label = "type"
	default: // deltaLine only: a blank line in front
		acc := account17(r, feat{})
		a = []string{"account " + acc}
		b = []string{"", "account " + acc}
		label = "line"
	}
	var pre, post []string
	for i := r.IntN(3); i > 0; i-- {
		txn17(r, feat{}, &pre)
	}
	for i := r.IntN(3); i > 0; i-- {
		post = append(post, "")
		txn17(r, feat{tags: true}, &post)
	}
	if len(pre) > 0 {
		pre = append(pre, "")
	}
	join := func(mid []string) string {
		all := append(append(append([]string{}, pre...), mid...), post...)
		return strings.Join(all, "\n") + "\n"
	}
	return join(a), join(b), label
}

// diffCount17: in how many positions the full arrays of two texts differ ("len" if the lengths differ).
func diffCount17(a, b string) string {
	srv := server.NewServer()
	openDoc(srv, c17Probe, a)
	da := refFull(srv, c17Probe)
	openDoc(srv, c17Probe, b)
	db := refFull(srv, c17Probe)
	closeDoc(srv, c17Probe)
	if len(da) != len(db) {
		return "len"
	}
	n := 0
	for i := range da {
		if da[i] != db[i] {
			n++
		}
	}
	return strconv.Itoa(n)
}

func genHist17(c *Ctx) map[string]any {
	r := c.R
	srv := server.NewServer()
	base := isolate17(srv)
	nu := 1 + r.IntN(3)
	n := 3 + r.IntN(c.N(8, 38))
	cur := map[string]string{}
	open := map[string]bool{}
	lastID := map[string]string{}
	oldIDs := map[string][]string{}
	var allIDs []string
	counter := base
	steps, impl := []J{}, []any{}
	pair := map[string][2]string{} // documents opened from a single-field pair: both texts
	pairLabel := map[string]string{}
	pending := "" // a document whose text was just toggled: ask for a delta next
	for i := 0; i < n; i++ {
		u := c17URIs[r.IntN(nu)]
		if pending != "" {
			u = pending
		}
		op := histOp{u: u}
		x := r.IntN(40)
		if pending != "" {
			pending = ""
			if lastID[u] != "" && r.IntN(5) != 0 {
				x = 39 // delta
			}
		}
		_, paired := pair[u]
		switch {
		case !open[u] && x < 30, x == 0:
			op.k = "set"
			delete(pair, u)
			if r.IntN(3) == 0 {
				a, b, label := genFieldPair17(r)
				pair[u], pairLabel[u] = [2]string{a, b}, label
				op.text = a
				c.Count(fmt.Sprintf("pair.%s.differing-integers=%s", label, diffCount17(a, b)))
				c.Count("hist.open.pair")
			} else {
				op.text, _ = genText17(c, 3)
				c.Count("hist.open")
			}
		case paired && open[u] && x < 16:
			// toggle between the two texts of the pair: exactly one integer of one token changes
			op.k = "set"
			p := pair[u]
			if cur[u] == p[0] {
				op.text = p[1]
			} else {
				op.text = p[0]
			}
			pending = u
			c.Count("hist.toggle." + pairLabel[u])
		case x == 1 || x == 2:
			op.k = "close"
			c.Count("hist.close")
		case x < 12 && open[u]:
			op.k = "set"
			delete(pair, u)
			switch y := r.IntN(10); {
			case y == 0:
				op.text, _ = genText17(c, 3)
				c.Count("hist.replace")
			case y == 1:
				op.text = ""
				c.Count("hist.emptied")
			case y == 2:
				op.text = cur[u] // same text again: a delta with no edits
				c.Count("hist.same")
			default:
				op.change = genEdit17(c, cur[u])
				c.Count("hist.edit")
			}
		case x < 16 || (lastID[u] == "" && x < 26):
			op.k = "full"
			c.Count("hist.full")
		case x < 19:
			op.k = "range"
			op.lo, op.hi = genLineNo(r, cur[u]), genLineNo(r, cur[u])
			c.Count("hist.range")
		case lastID[u] == "" && x%4 != 0:
			op.k = "full"
			c.Count("hist.full")
		default:
			op.k = "delta"
			y := r.IntN(20)
			if x == 39 {
				y = 0
			}
			switch {
			case y < 9 && lastID[u] != "":
				op.prev = lastID[u]
				c.Count("hist.delta.current")
			case y < 15 && len(oldIDs[u]) > 0:
				op.prev = pick(r, oldIDs[u])
				c.Count("hist.delta.stale")
			case y < 17 && len(allIDs) > 0:
				op.prev = pick(r, allIDs) // possibly another document's id
				c.Count("hist.delta.anyid")
			default:
				op.prev = pick(r, []string{"", "0", "abc", strconv.FormatUint(counter+1, 10),
					strconv.FormatUint(counter+2, 10), "18446744073709551615", "01", " 1"})
				c.Count("hist.delta.unknown")
			}
		}
		res := applyOp(srv, &op)
		switch op.k {
		case "set":
			cur[u], open[u] = op.text, true
		case "close":
			delete(cur, u)
			open[u] = false
		}
		if m, ok := res.(J); ok {
			id, _ := m["id"].(string)
			if id != "" {
				if lastID[u] != "" {
					oldIDs[u] = append(oldIDs[u], lastID[u])
				}
				lastID[u] = id
				allIDs = append(allIDs, id)
				counter++
			}
			if _, isDelta := m["edits"]; isDelta {
				c.Count("hist.resp.delta")
			} else if op.k == "delta" {
				c.Count("hist.resp.full-for-delta")
			}
		}
		steps = append(steps, stepJ(op))
		impl = append(impl, res)
	}
	isolate17(srv)
	return map[string]any{"base": base, "steps": steps, "impl": impl}
}

func genC17(c *Ctx) {
	r := c.R
	c.Emit("c17.legend", legendCase())
	for i := 0; i < c.N(1200, 30000); i++ {
		text, label := genText17(c, c.N(5, 14))
		c.Count("tokens." + label)
		c.Emit("c17.tokens", tokensCase(text))
	}
	for i := 0; i < c.N(400, 10000); i++ {
		text, _ := genText17(c, c.N(5, 14))
		lo, hi := genLineNo(r, text), genLineNo(r, text)
		if r.IntN(4) != 0 && lo > hi {
			lo, hi = hi, lo
		}
		c.Emit("c17.range", rangeCase(text, lo, hi))
	}
	for i := 0; i < c.N(400, 8000); i++ {
		c.Emit("c17.hist", genHist17(c))
	}
}
