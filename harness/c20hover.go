package main

// C20 (server-level part): hover figures over the whole include tree.
//
// A scenario is a small workspace (1..4 files in a fresh directory, include chains / stars /
// diamonds / cycles / repeated directives, accounts, payees and tags shared across files,
// amounts in the notations of DESIGN 4.3, postings with and without amounts, costs), a mode
// (workspace root or none), the order in which the files are opened and optional didChange
// events.  The real Server runs in-process with a client stub; after every notification the
// harness waits for the publishDiagnostics it triggers.  Then Hover is asked on every
// occurrence the generator wrote (start, middle, last character), on the position just
// past it and on random positions, from every file.  The markdown is parsed back into figures.
//
// op c20.hover (one line per requesting file): see lean/HL/Driver/C20Hover.lean.

import (
	"context"
	"fmt"
	"math/rand/v2"
	"os"
	"path/filepath"
	"regexp"
	"sort"
	"strconv"
	"strings"
	"time"
	"unicode/utf16"

	"go.lsp.dev/protocol"

	"github.com/juev/hledger-lsp/internal/include"
	"github.com/juev/hledger-lsp/internal/server"
)

func init() {
	// registered from c02.go: genC20 runs the arithmetic ops and then genC20Hover
	replayers["c20.hover"] = func(c *Ctx, m map[string]any) map[string]any {
		scen, _ := m["scen"].(map[string]any)
		req := int(c20num(m["req"]))
		run := runHoverScenario(c, scen)
		defer run.close()
		return run.line(req, m["qs"].([]any), m["gt"])
	}
}

func c20num(v any) float64 {
	switch x := v.(type) {
	case float64:
		return x
	case int:
		return float64(x)
	}
	return 0
}

// ---------------------------------------------------------------- client stub

type hoverClient struct {
	protocol.Client
	pub chan protocol.DocumentURI
}

func (c *hoverClient) PublishDiagnostics(_ context.Context, p *protocol.PublishDiagnosticsParams) error {
	c.pub <- p.URI
	return nil
}
func (c *hoverClient) LogMessage(context.Context, *protocol.LogMessageParams) error { return nil }

// ---------------------------------------------------------------- running a scenario

type hoverRun struct {
	dir   string
	srv   *server.Server
	names []string
	uris  []protocol.DocumentURI
	scen  map[string]any
}

func (r *hoverRun) close() { os.RemoveAll(r.dir) }

func asInts(v any) []int {
	switch a := v.(type) {
	case []int:
		return a
	case []any:
		return toIntSlice(a)
	}
	return nil
}

func asMaps(v any) []map[string]any {
	switch a := v.(type) {
	case []map[string]any:
		return a
	case []any:
		out := make([]map[string]any, 0, len(a))
		for _, x := range a {
			if m, ok := x.(map[string]any); ok {
				out = append(out, m)
			}
		}
		return out
	}
	return nil
}

func runHoverScenario(c *Ctx, scen map[string]any) *hoverRun {
	os.Unsetenv("LEDGER_FILE")
	os.Unsetenv("HLEDGER_JOURNAL")
	base := c.Tmp
	if base == "" {
		base = os.TempDir()
	}
	dir, err := os.MkdirTemp(base, "c20h-")
	if err != nil {
		panic(err)
	}
	dir, _ = filepath.EvalSymlinks(dir)
	run := &hoverRun{dir: dir, scen: scen}
	files := asMaps(scen["files"])
	for _, f := range files {
		name, _ := f["name"].(string)
		text, _ := f["text"].(string)
		p := filepath.Join(dir, "w", name)
		os.MkdirAll(filepath.Dir(p), 0o755)
		if err := os.WriteFile(p, []byte(text), 0o644); err != nil {
			panic(err)
		}
		run.names = append(run.names, name)
		run.uris = append(run.uris, protocol.DocumentURI("file://"+p))
	}
	os.MkdirAll(filepath.Join(dir, "empty"), 0o755)
	ctx := context.Background()
	cl := &hoverClient{pub: make(chan protocol.DocumentURI, 16)}
	srv := server.NewServer()
	srv.SetClient(cl)
	run.srv = srv
	wait := func() {
		select {
		case <-cl.pub:
		case <-time.After(20 * time.Second):
			panic("c20.hover: no publishDiagnostics within 20 s")
		}
	}
	switch mode, _ := scen["mode"].(string); mode {
	case "rootURI":
		srv.Initialize(ctx, &protocol.InitializeParams{RootURI: protocol.DocumentURI("file://" + filepath.Join(dir, "w"))})
		srv.Initialized(ctx, &protocol.InitializedParams{})
	case "folders":
		srv.Initialize(ctx, &protocol.InitializeParams{WorkspaceFolders: []protocol.WorkspaceFolder{{URI: "file://" + filepath.Join(dir, "w"), Name: "w"}}})
		srv.Initialized(ctx, &protocol.InitializedParams{})
	case "emptyroot": // a workspace without any journal: Hover falls back to the per-URI resolved journal
		srv.Initialize(ctx, &protocol.InitializeParams{RootURI: protocol.DocumentURI("file://" + filepath.Join(dir, "empty"))})
		srv.Initialized(ctx, &protocol.InitializedParams{})
	default: // "none"
		srv.Initialize(ctx, &protocol.InitializeParams{})
		srv.Initialized(ctx, &protocol.InitializedParams{})
	}
	for _, i := range asInts(scen["open"]) {
		text, _ := files[i]["text"].(string)
		srv.DidOpen(ctx, &protocol.DidOpenTextDocumentParams{TextDocument: protocol.TextDocumentItem{URI: run.uris[i], Text: text, Version: 1}})
		wait()
	}
	for _, ev := range asMaps(scen["events"]) {
		i := int(c20num(ev["f"]))
		text, _ := ev["text"].(string)
		if k, _ := ev["k"].(string); k == "save" {
			// the editor writes the buffer to disk and says so
			if err := os.WriteFile(filepath.Join(dir, "w", run.names[i]), []byte(text), 0o644); err != nil {
				panic(err)
			}
			srv.DidSave(ctx, &protocol.DidSaveTextDocumentParams{TextDocument: protocol.TextDocumentIdentifier{URI: run.uris[i]}})
			continue
		}
		srv.DidChange(ctx, &protocol.DidChangeTextDocumentParams{
			TextDocument:   protocol.VersionedTextDocumentIdentifier{TextDocumentIdentifier: protocol.TextDocumentIdentifier{URI: run.uris[i]}, Version: 2},
			ContentChanges: []protocol.TextDocumentContentChangeEvent{{Text: text}},
		})
		wait()
	}
	return run
}

func (r *hoverRun) normPath(p string) string {
	w := filepath.Join(r.dir, "w")
	if strings.HasPrefix(p, w) {
		return "/W" + p[len(w):]
	}
	if strings.HasPrefix(p, r.dir) {
		return "/T" + p[len(r.dir):]
	}
	return p
}

func (r *hoverRun) resolvedJ(res *include.ResolvedJournal) any {
	if res == nil {
		return nil
	}
	out := J{"primary": nil}
	if res.Primary != nil {
		out["primary"] = journalJ(res.Primary)
	}
	keys := make([]string, 0, len(res.Files))
	for k := range res.Files {
		keys = append(keys, k)
	}
	sort.Strings(keys)
	files := []any{}
	for _, k := range keys {
		if res.Files[k] == nil {
			continue
		}
		files = append(files, []any{r.normPath(k), journalJ(res.Files[k])})
	}
	out["files"] = files
	order := []string{}
	for _, p := range res.FileOrder {
		order = append(order, r.normPath(p))
	}
	out["order"] = order
	return out
}

func (r *hoverRun) line(req int, qs []any, gt any) map[string]any {
	ctx := context.Background()
	uri := r.uris[req]
	doc, _ := r.srv.GetDocument(uri)
	docj, _ := hxParse(doc)
	var wsres, res any
	wsroot := ""
	if w := r.srv.Workspace(); w != nil {
		wsres = r.resolvedJ(w.GetResolved())
		wsroot = r.normPath(w.RootJournalPath())
	}
	dpath := r.normPath(strings.TrimPrefix(string(uri), "file://"))
	// the per-URI tree is what Hover uses without a workspace and, with one, from a journal
	// outside the root's include tree
	perURI := r.srv.GetResolved(uri)
	res = r.resolvedJ(perURI)
	// the trees of the buffers of the open documents it lists (coherence of the snapshot)
	bufs := []any{}
	if perURI != nil {
		for i, u := range r.uris {
			if text, ok := r.srv.GetDocument(u); ok && u != uri {
				p := strings.TrimPrefix(string(r.uris[i]), "file://")
				if _, listed := perURI.Files[p]; listed {
					bj, _ := hxParse(text)
					bufs = append(bufs, []any{r.normPath(p), journalJ(bj)})
				}
			}
		}
	}
	impl := make([]any, 0, len(qs))
	for _, q := range qs {
		qm := q.(map[string]any)
		p := asInts(qm["p"])
		h, err := r.srv.Hover(ctx, &protocol.HoverParams{TextDocumentPositionParams: protocol.TextDocumentPositionParams{
			TextDocument: protocol.TextDocumentIdentifier{URI: uri},
			Position:     protocol.Position{Line: uint32(p[0]), Character: uint32(p[1])}}})
		if err != nil {
			impl = append(impl, J{"k": "error", "raw": err.Error()})
			continue
		}
		impl = append(impl, parseHoverMarkdown(h))
	}
	// `wf`: the header-field invariant the payee theorem assumes of parser output (TxWF in
	// HL/Props/C20Hover.lean); the driver evaluates it on every tree of this line, so a parser
	// that stops guaranteeing it shows up as a correspondence break.
	return map[string]any{"scen": r.scen, "gt": gt, "req": req, "qs": qs, "docj": journalJ(docj), "doct": doc,
		"wsres": wsres, "wsroot": wsroot, "dpath": dpath, "res": res, "bufs": bufs,
		"impl": J{"figs": impl, "wf": true}}
}

// ---------------------------------------------------------------- markdown → figures

var (
	// the wording of the label in front of a count is presentation, not a figure: any label
	reCount = regexp.MustCompile(`^\*\*([^*:\n]+):\*\* (\d+)$`)
	reDate  = regexp.MustCompile(`^\*\*Date:\*\* (-?\d+)-(-?\d+)-(-?\d+)$`)
)

func countOf(s, label string) (int, bool) {
	m := reCount.FindStringSubmatch(s)
	_ = label
	if m == nil {
		return 0, false
	}
	n, err := strconv.Atoi(m[2])
	return n, err == nil
}

func numCom(s string) (string, string, bool) {
	i := strings.IndexByte(s, ' ')
	if i < 0 {
		return "", "", false
	}
	return s[:i], s[i+1:], true
}

func parseHoverMarkdown(h *protocol.Hover) any {
	if h == nil {
		return nil
	}
	v := h.Contents.Value
	bad := J{"k": "unparsed", "raw": v}
	rng := []int{-1, -1, -1, -1}
	if h.Range != nil {
		rng = []int{int(h.Range.Start.Line), int(h.Range.Start.Character), int(h.Range.End.Line), int(h.Range.End.Character)}
	}
	switch {
	case strings.HasPrefix(v, "**Account:** `"):
		parts := strings.Split(v, "\n\n")
		if len(parts) < 2 || len(parts) > 3 || !strings.HasSuffix(parts[0], "`") {
			return bad
		}
		name := parts[0][len("**Account:** `") : len(parts[0])-1]
		bal := []any{}
		if len(parts) == 3 {
			lines := strings.Split(parts[1], "\n")
			if lines[0] != "**Balance:**" {
				return bad
			}
			for _, l := range lines[1:] {
				if !strings.HasPrefix(l, "- ") {
					return bad
				}
				q, com, ok := numCom(l[2:])
				if !ok {
					return bad
				}
				bal = append(bal, []any{hx(com), q})
			}
		}
		n, ok := countOf(parts[len(parts)-1], "Postings")
		if !ok {
			return bad
		}
		return J{"k": "account", "name": hx(name), "bal": bal, "n": n, "r": rng}
	case strings.HasPrefix(v, "**Amount:** "):
		parts := strings.Split(v, "\n\n")
		q, com, ok := numCom(parts[0][len("**Amount:** "):])
		if !ok || len(parts) > 2 {
			return bad
		}
		out := J{"k": "amount", "q": q, "com": hx(com), "cost": nil, "r": rng}
		if len(parts) == 2 {
			var rest string
			total := false
			switch {
			case strings.HasPrefix(parts[1], "**Total cost:** @@ "):
				total, rest = true, parts[1][len("**Total cost:** @@ "):]
			case strings.HasPrefix(parts[1], "**Unit cost:** @ "):
				rest = parts[1][len("**Unit cost:** @ "):]
			default:
				return bad
			}
			cq, cc, ok := numCom(rest)
			if !ok {
				return bad
			}
			out["cost"] = J{"total": total, "q": cq, "com": hx(cc)}
		}
		return out
	case strings.HasPrefix(v, "**Payee:** "):
		i := strings.LastIndex(v, "\n\n")
		if i < 0 {
			return bad
		}
		n, ok := countOf(v[i+2:], "Transactions")
		if !ok {
			return bad
		}
		return J{"k": "payee", "name": hx(v[len("**Payee:** "):i]), "n": n, "r": rng}
	case strings.HasPrefix(v, "**Date:** "):
		parts := strings.Split(v, "\n\n")
		m := reDate.FindStringSubmatch(parts[0])
		if m == nil || len(parts) < 2 || len(parts) > 3 {
			return bad
		}
		payee := ""
		if len(parts) == 3 {
			if !strings.HasPrefix(parts[1], "**Payee:** ") {
				return bad
			}
			payee = parts[1][len("**Payee:** "):]
		}
		n, ok := countOf(parts[len(parts)-1], "Postings")
		if !ok {
			return bad
		}
		y, _ := strconv.Atoi(m[1])
		mo, _ := strconv.Atoi(m[2])
		d, _ := strconv.Atoi(m[3])
		return J{"k": "date", "y": y, "m": mo, "d": d, "payee": hx(payee), "n": n, "r": rng}
	case strings.HasPrefix(v, "**Tag:** `"):
		nl := strings.IndexByte(v, '\n')
		if nl < 0 || v[nl-1] != '`' {
			return bad
		}
		name := v[len("**Tag:** `") : nl-1]
		rest := v[nl+1:]
		if strings.HasPrefix(rest, "**Value:** ") {
			i := strings.LastIndex(rest, "\n\n")
			if i < 0 {
				return bad
			}
			n, ok := countOf(rest[i+2:], "Usage")
			if !ok {
				return bad
			}
			val := rest[len("**Value:** "):i]
			switch {
			case val == "*(empty)*":
				val = ""
			case len(val) >= 2 && val[0] == '`' && val[len(val)-1] == '`':
				val = val[1 : len(val)-1]
			default:
				return bad
			}
			return J{"k": "tagvalue", "name": hx(name), "value": hx(val), "n": n, "r": rng}
		}
		if !strings.HasPrefix(rest, "\n") {
			return bad
		}
		parts := strings.Split(rest[1:], "\n\n")
		n, ok := countOf(parts[0], "Usage")
		if !ok || len(parts) != 2 {
			return bad
		}
		vals := []any{}
		if parts[1] != "" {
			lines := strings.Split(strings.TrimSuffix(parts[1], "\n"), "\n")
			if lines[0] != "**Values:**" {
				return bad
			}
			for _, l := range lines[1:] {
				switch {
				case l == "- *(empty)*":
					vals = append(vals, "")
				case strings.HasPrefix(l, "- `") && strings.HasSuffix(l, "`") && len(l) >= 4:
					vals = append(vals, hx(l[3:len(l)-1]))
				default:
					return bad
				}
			}
		}
		return J{"k": "tag", "name": hx(name), "n": n, "values": vals, "r": rng}
	}
	return bad
}

// ---------------------------------------------------------------- generator

func u16len(s string) int { return len(utf16.Encode([]rune(s))) }

type hvOcc struct {
	line, s, e int
	exp        J
}

// hvFile accumulates the text of one file together with the occurrences written.
type hvFile struct {
	name  string
	incs  []int
	lines []string
	cur   strings.Builder
	occs  []hvOcc
	txs   []any
}

func (f *hvFile) w(s string) { f.cur.WriteString(s) }
func (f *hvFile) col() int  { return u16len(f.cur.String()) }
func (f *hvFile) nl() {
	f.lines = append(f.lines, f.cur.String())
	f.cur.Reset()
}
func (f *hvFile) occ(s string, exp J) {
	st := f.col()
	f.w(s)
	f.occs = append(f.occs, hvOcc{line: len(f.lines), s: st, e: f.col(), exp: exp})
}
func (f *hvFile) text() string { return strings.Join(f.lines, "\n") + "\n" }

type hvPrev struct {
	coef string // unsigned
	exp  int
	neg  bool
	com  string // commodity as written (with quotes), "" for none
	left bool
}

type hvPools struct {
	accounts, payees, tagNames, tagValues, dropNames []string
	lcomm, rcomm                                    []string
	prev                                            []hvPrev
}

// hvPlain re-prints an unsigned decimal coef*10^exp in plain notation (`1234.5`), sometimes with
// extra trailing zeros; never in the shape side condition A reads as a grouped integer.
func hvPlain(r *rand.Rand, coef string, exp int) string {
	if exp >= 0 {
		if coef == "0" {
			return "0"
		}
		return coef + strings.Repeat("0", exp)
	}
	k := -exp
	for len(coef) <= k {
		coef = "0" + coef
	}
	ip, fp := coef[:len(coef)-k], coef[len(coef)-k:]
	if r.IntN(3) == 0 {
		fp += strings.Repeat("0", 1+r.IntN(2))
	}
	if len(fp) == 3 && strings.Trim(ip, "0") != "" {
		fp += "0"
	}
	return ip + pick(r, []string{".", ","}) + fp
}

func newHvPools(r *rand.Rand) *hvPools {
	sub := func(all []string, n int) []string {
		p := r.Perm(len(all))
		out := []string{}
		for _, i := range p[:min(n, len(all))] {
			out = append(out, all[i])
		}
		return out
	}
	return &hvPools{
		accounts: sub([]string{"assets:bank", "assets:bank:checking", "assets:cash", "expenses:food", "expenses:my food",
			"Expenses:Food", "income:salary", "liabilities:card-1", "equity:opening_2024", "Активы:Счёт", "dépenses:café",
			"expenses:food & drink", "assets:o'neil.fund"}, 3+r.IntN(4)),
		payees: sub([]string{"Shop", "shop", "Grocery Store", "Café Ünï", "my shop 7", "Landlord", "Магазин", "Shop 2",
			"employer inc", "Shop😀"}, 2+r.IntN(4)),
		tagNames:  sub([]string{"k", "project", "Project", "t-1", "a_b", "trip", "x"}, 2+r.IntN(3)),
		tagValues: sub([]string{"", "v", "two words", "Alpha", "alpha", "x1", "2024", "é"}, 2+r.IntN(4)),
		dropNames: []string{"memo", "ref"},
		lcomm:     sub([]string{"$", "€", "£", "EUR", "USD", "\"A B\""}, 2+r.IntN(2)),
		rcomm:     sub([]string{"EUR", "USD", "eur", "AAPL", "hrs", "ЖЖ", "\"A B\"", "€", "BTC"}, 2+r.IntN(3)),
	}
}

func c20digits(r *rand.Rand, n int, leadNonZero bool) string {
	b := make([]byte, n)
	for i := range b {
		b[i] = byte('0' + r.IntN(10))
	}
	if leadNonZero && n > 0 && b[0] == '0' {
		b[0] = byte('1' + r.IntN(9))
	}
	return string(b)
}

func group3(s string, sep string) string {
	var parts []string
	for len(s) > 3 {
		parts = append([]string{s[len(s)-3:]}, parts...)
		s = s[:len(s)-3]
	}
	parts = append([]string{s}, parts...)
	return strings.Join(parts, sep)
}

// hvNumber writes an unsigned number in one of the notations of DESIGN 4.3 and returns its
// exact value as coefficient string and exponent.
func hvNumber(c *Ctx) (text, coef string, exp int) {
	r := c.R
	intLen := 1
	switch x := r.IntN(10); {
	case x < 4:
		intLen = 1 + r.IntN(3)
	case x < 8:
		intLen = 4 + r.IntN(6)
	default:
		intLen = 10 + r.IntN(6)
	}
	ip := c20digits(r, intLen, intLen > 1)
	fracLen := 0
	if r.IntN(5) >= 2 {
		fracLen = 1 + r.IntN(12)
		if r.IntN(3) == 0 {
			fracLen = []int{2, 2, 3, 12, 8}[r.IntN(5)]
		}
	}
	kind := r.IntN(12)
	e := 0
	build := func(fp string) string {
		switch {
		case kind <= 3: // plain
			c.Count("num.plain")
			if fp == "" {
				return ip
			}
			return ip + pick(r, []string{".", ","}) + fp
		case kind <= 5:
			c.Count("num.group,")
			if fp == "" {
				return group3(ip, ",")
			}
			return group3(ip, ",") + "." + fp
		case kind <= 7:
			c.Count("num.group.")
			if fp == "" {
				return group3(ip, ".")
			}
			return group3(ip, ".") + "," + fp
		case kind <= 9:
			c.Count("num.group_")
			if fp == "" {
				return group3(ip, " ")
			}
			return group3(ip, " ") + pick(r, []string{".", ","}) + fp
		case kind == 10:
			c.Count("num.trailingmark")
			if fp == "" {
				return ip + pick(r, []string{".", ","})
			}
			return ip + "." + fp
		default:
			c.Count("num.exp")
			lo := fracLen - 12
			e = lo + r.IntN(8)
			if r.IntN(10) == 0 {
				e = lo + r.IntN(30-lo+1)
			}
			es := strconv.Itoa(e)
			if e >= 0 && r.IntN(2) == 0 {
				es = "+" + es
			}
			m := ip
			if fp != "" {
				m += "." + fp
			}
			return m + pick(r, []string{"E", "e"}) + es
		}
	}
	ambiguous := func(t string) bool {
		// side condition A: exactly one mark, exactly three digits after it, non-zero integer
		// part — judged on the mantissa (the parser's normalizeNumber splits off the exponent)
		body := t
		if i := strings.IndexAny(body, "Ee"); i >= 0 {
			body = body[:i]
		}
		body = strings.ReplaceAll(body, " ", "")
		marks := strings.Count(body, ",") + strings.Count(body, ".")
		if marks != 1 {
			return false
		}
		i := strings.IndexAny(body, ",.")
		return len(body)-i-1 == 3 && strings.Trim(body[:i], "0") != ""
	}
	fp := c20digits(r, fracLen, false)
	text = build(fp)
	for tries := 0; ambiguous(text) && fracLen > 0; tries++ {
		fracLen = 4 + tries
		fp = c20digits(r, fracLen, false)
		e = 0
		text = build(fp)
	}
	coef = strings.TrimLeft(ip+fp, "0")
	if coef == "" {
		coef = "0"
	}
	return text, coef, e - fracLen
}

// hvAmount writes `[sign] lcomm [sp] [sign] number | [sign] number [sp] rcomm | [sign] number`.
// `followed`: a cost or an assertion comes after this amount.  A right-hand commodity that is
// not upper-case ASCII (`5 hrs @ 3 EUR`, `5 ЖЖ = 3`) then makes the parser fail (a C03 matter,
// see report); such amounts are only generated at the end of the posting.
func hvAmount(c *Ctx, pl *hvPools, followed bool) (text string, val J) {
	r := c.R
	if len(pl.prev) > 0 && r.IntN(5) == 0 {
		// the negation of an amount written earlier in this scenario, in plain notation:
		// sums that cancel to zero within a file and across files
		pv := pick(r, pl.prev)
		ok := !followed || pv.com == "" || pv.left || pv.com[0] == '"' || (pv.com[0] >= 'A' && pv.com[0] <= 'Z')
		if ok {
			c.Count("amt.negation-of-earlier")
			num := hvPlain(r, pv.coef, pv.exp)
			sign := "-"
			if pv.neg {
				sign = pick(r, []string{"", "+"})
			}
			coef := pv.coef
			if sign == "-" && coef != "0" {
				coef = "-" + coef
			}
			switch {
			case pv.com == "":
				text = sign + num
			case pv.left:
				text = pv.com + " " + sign + num
			default:
				text = sign + num + " " + pv.com
			}
			return text, J{"c": coef, "e": pv.exp, "com": hx(strings.Trim(pv.com, "\""))}
		}
	}
	num, coef, exp := hvNumber(c)
	sign := ""
	switch r.IntN(6) {
	case 0, 1:
		sign = "-"
	case 2:
		sign = "+"
	}
	if sign == "-" && coef != "0" {
		coef = "-" + coef
	}
	com := ""
	comTok, comLeft := "", false
	defer func() {
		if len(pl.prev) < 12 {
			pl.prev = append(pl.prev, hvPrev{coef: strings.TrimPrefix(coef, "-"), exp: exp, neg: sign == "-", com: comTok, left: comLeft})
		}
	}()
	switch r.IntN(5) {
	case 0:
		c.Count("amt.nocommodity")
		text = sign + num
	case 1, 2:
		c.Count("amt.left")
		lc := pick(r, pl.lcomm)
		comTok, comLeft = lc, true
		com = strings.Trim(lc, "\"")
		sp := ""
		if len(lc) > 1 && lc[0] != '"' && lc[0] < 0x80 || r.IntN(3) == 0 {
			sp = " "
		}
		// a sign in front of an alphabetic or quoted left commodity (`-USD 5`) is rejected by the
		// parser (a C03 matter, see report); here the sign then goes after the commodity
		symbol := lc[0] != '"' && !(lc[0] >= 'A' && lc[0] <= 'Z')
		if symbol && r.IntN(2) == 0 {
			text = sign + lc + sp + num
		} else {
			text = lc + sp + sign + num
		}
	default:
		c.Count("amt.right")
		rc := pick(r, pl.rcomm)
		if followed && !(rc[0] == '"' || rc[0] >= 'A' && rc[0] <= 'Z') {
			rc = pick(r, []string{"EUR", "USD", "AAPL", "BTC"})
		}
		comTok = rc
		com = strings.Trim(rc, "\"")
		sp := " "
		last := num[len(num)-1]
		if rc[0] != '"' && r.IntN(4) == 0 && !strings.ContainsAny(num, "Ee") && last >= '0' && last <= '9' {
			sp = ""
		}
		text = sign + num + sp + rc
	}
	return text, J{"c": coef, "e": exp, "com": hx(com)}
}

func hvTagsJ(tags [][2]string, dropped bool) []any {
	out := []any{}
	for _, t := range tags {
		out = append(out, []any{hx(t[0]), hx(t[1]), dropped})
	}
	return out
}

// hvComment writes `;` + optional free text + tags and records the tag occurrences.
func hvComment(c *Ctx, f *hvFile, pl *hvPools, names []string, dropped bool) [][2]string {
	r := c.R
	f.w(";")
	if r.IntN(3) > 0 {
		f.w(" ")
	}
	var tags [][2]string
	n := r.IntN(4)
	if n == 0 || r.IntN(4) == 0 {
		f.w(pick(r, []string{"note", "paid by card", "see receipt 12", "todo"}))
		if n > 0 {
			f.w(", ")
		}
	}
	for i := 0; i < n; i++ {
		name := pick(r, names)
		val := pick(r, pl.tagValues)
		if val == "é" && i != n-1 {
			val = "v"
		}
		f.occ(name, J{"k": "tag", "name": hx(name), "dropped": dropped})
		f.w(":")
		if val != "" {
			if r.IntN(4) == 0 {
				f.w(" ")
			}
			f.occ(val, J{"k": "tagvalue", "name": hx(name), "value": hx(val), "dropped": dropped})
		}
		tags = append(tags, [2]string{name, val})
		if i != n-1 {
			f.w(", ")
		}
	}
	return tags
}

func hvTransaction(c *Ctx, f *hvFile, pl *hvPools, withDropped bool) {
	r := c.R
	y, m, d := 2020+r.IntN(6), 1+r.IntN(12), 1+r.IntN(28)
	var date string
	switch r.IntN(4) {
	case 0:
		date = fmt.Sprintf("%d/%d/%d", y, m, d)
	case 1:
		date = fmt.Sprintf("%04d.%02d.%02d", y, m, d)
	default:
		date = fmt.Sprintf("%04d-%02d-%02d", y, m, d)
	}
	f.occ(date, J{"k": "date"})
	// `simple` (header is `date SP [status SP] payee`) only feeds the evidence counters: the
	// payee is located on the header line whatever stands in front of it (fix-payee-range.diff)
	simple := true
	if r.IntN(4) == 0 {
		f.w("=" + fmt.Sprintf("%04d-%02d-%02d", y, m, min(28, d+1)))
		simple = false
		c.Count("hdr.date2")
	}
	blank := func() {
		switch r.IntN(8) {
		case 0:
			f.w(strings.Repeat(" ", 2+r.IntN(5)))
			simple = false
			c.Count("hdr.wideblank")
		case 1:
			f.w(pick(r, []string{"\t", " \t", "\t ", "  \t  "}))
			simple = false
			c.Count("hdr.tab")
		default:
			f.w(" ")
		}
	}
	if r.IntN(3) == 0 {
		blank()
		f.w(pick(r, []string{"*", "!"}))
	}
	if r.IntN(3) == 0 {
		blank()
		f.w("(" + pick(r, []string{"12", "c-1", "INV 7", "№5"}) + ")")
		simple = false
		c.Count("hdr.code")
	}
	payee := ""
	if r.IntN(12) > 0 {
		blank()
		payee = pick(r, pl.payees)
		f.occ(payee, J{"k": "payee", "name": hx(payee), "simple": simple})
		if !simple {
			c.Count("hdr.payee-behind-lead")
		}
		if r.IntN(3) == 0 && payee != "Shop😀" {
			f.w(pick(r, []string{" | ", "|", " |", "| "}) + pick(r, []string{"weekly", "note 1", "Shop"}))
			c.Count("hdr.note")
		}
	}
	var txTags [][2]string
	if payee != "Shop😀" && r.IntN(3) == 0 {
		f.w(pick(r, []string{" ", "  ", ""}))
		txTags = hvComment(c, f, pl, pl.tagNames, false)
	}
	f.nl()
	tagsJ := hvTagsJ(txTags, false)
	txline := func() {
		f.w(pick(r, []string{"  ", "    ", "\t"}))
		names := pl.dropNames
		if r.IntN(2) == 0 {
			names = pl.tagNames
		}
		tagsJ = append(tagsJ, hvTagsJ(hvComment(c, f, pl, names, true), true)...)
		f.nl()
		c.Count("tx.commentline")
	}
	if withDropped && r.IntN(2) == 0 {
		txline()
	}
	np := 1 + r.IntN(4)
	elided := -1
	if r.IntN(3) > 0 {
		elided = r.IntN(np)
	}
	ps := []any{}
	for i := 0; i < np; i++ {
		f.w(pick(r, []string{"  ", "    ", " ", "\t", "        "}))
		if r.IntN(10) == 0 {
			f.w(pick(r, []string{"* ", "! "}))
		}
		acc := pick(r, pl.accounts)
		open, cl := "", ""
		switch r.IntN(12) {
		case 0:
			open, cl = "(", ")"
		case 1:
			open, cl = "[", "]"
		}
		f.w(open)
		f.occ(acc, J{"k": "account", "name": hx(acc)})
		f.w(cl)
		pj := J{"acc": hx(acc), "amt": nil, "cost": nil, "tags": []any{}}
		if i != elided {
			// gap: 2..6 blanks.  (A TAB between account and amount, which G allows, makes the
			// parser drop the rest of the transaction: a C03 matter, kept out of this generator.)
			f.w(pick(r, []string{"  ", "   ", "      ", "    "}))
			hasCost := r.IntN(4) == 0
			hasAssert := r.IntN(10) == 0
			at, av := hvAmount(c, pl, hasCost || hasAssert)
			exp := J{"k": "amount", "amt": av, "cost": nil}
			pj["amt"] = av
			st := f.col()
			f.w(at)
			en := f.col()
			if hasCost {
				total := r.IntN(2) == 0
				f.w(pick(r, []string{" ", "  "}))
				if total {
					f.w("@@")
				} else {
					f.w("@")
				}
				f.w(" ")
				ct, cv := hvAmount(c, pl, hasAssert)
				f.w(ct)
				cj := J{"total": total, "c": cv["c"], "e": cv["e"], "com": cv["com"]}
				exp["cost"] = cj
				pj["cost"] = cj
				c.Count("posting.cost")
			}
			if hasAssert {
				f.w(pick(r, []string{" = ", " == "}))
				bt, _ := hvAmount(c, pl, false)
				f.w(bt)
				c.Count("posting.assertion")
			}
			f.occs = append(f.occs, hvOcc{line: len(f.lines), s: st, e: en, exp: exp})
			c.Count("posting.amount")
		} else {
			c.Count("posting.noamount")
		}
		if r.IntN(5) == 0 {
			f.w(pick(r, []string{" ", "  "}))
			pj["tags"] = hvTagsJ(hvComment(c, f, pl, pl.tagNames, false), false)
		}
		f.nl()
		ps = append(ps, pj)
		if withDropped && r.IntN(4) == 0 {
			txline()
		}
	}
	f.txs = append(f.txs, J{"payee": hx(payee), "tags": tagsJ, "ps": ps})
}

func hvGenFile(c *Ctx, name string, incPaths []string, pl *hvPools, withDropped bool) *hvFile {
	r := c.R
	f := &hvFile{name: name}
	if r.IntN(4) == 0 {
		f.w("; journal " + name + ", k:v")
		f.nl()
	}
	ntx := r.IntN(4)
	if r.IntN(6) == 0 {
		ntx = 4 + r.IntN(3)
	}
	incAt := make([]int, len(incPaths))
	for i := range incPaths {
		incAt[i] = 0
		if r.IntN(3) == 0 {
			incAt[i] = r.IntN(ntx + 1)
		}
	}
	for t := 0; t <= ntx; t++ {
		for i, p := range incPaths {
			if incAt[i] == t {
				f.w("include " + p)
				f.nl()
			}
		}
		if t == ntx {
			break
		}
		if r.IntN(8) == 0 {
			f.w("account " + pick(r, pl.accounts))
			f.nl()
		}
		if len(f.lines) > 0 && r.IntN(5) > 0 {
			f.nl()
		}
		hvTransaction(c, f, pl, withDropped)
	}
	if len(f.lines) == 0 {
		f.w("; empty")
		f.nl()
	}
	return f
}

func hvQueries(c *Ctx, f *hvFile) []any {
	r := c.R
	qs := []any{}
	seen := map[[2]int]bool{}
	add := func(line, ch int, exp any) {
		k := [2]int{line, ch}
		if seen[k] || ch < 0 {
			return
		}
		seen[k] = true
		qs = append(qs, J{"p": []int{line, ch}, "exp": exp})
	}
	for _, o := range f.occs {
		for _, ch := range []int{o.s, (o.s + o.e) / 2, o.e - 1} {
			add(o.line, ch, o.exp)
		}
		c.Count("occ." + o.exp["k"].(string))
	}
	for _, o := range f.occs { // just past and just before an occurrence: no expectation
		add(o.line, o.e, nil)
		add(o.line, o.s-1, nil)
	}
	for i := 0; i < 6; i++ {
		line := r.IntN(len(f.lines) + 2)
		w := 4
		if line < len(f.lines) {
			w = u16len(f.lines[line]) + 3
		}
		add(line, r.IntN(w), nil)
	}
	return qs
}

// hvGraph picks the include edges among n files (adjacency by index; repeated entries are
// repeated directives).
func hvGraph(c *Ctx, n int, allowIntoRoot bool) [][]int {
	r := c.R
	adj := make([][]int, n)
	if n == 1 {
		c.Count("graph.single")
		return adj
	}
	switch k := r.IntN(10); {
	case k < 2:
		c.Count("graph.chain")
		for i := 0; i+1 < n; i++ {
			adj[i] = []int{i + 1}
		}
	case k < 4:
		c.Count("graph.star")
		for i := 1; i < n; i++ {
			adj[0] = append(adj[0], i)
		}
	case k < 5 && n == 4:
		c.Count("graph.diamond")
		adj[0], adj[1], adj[2] = []int{1, 2}, []int{3}, []int{3}
	case k < 7:
		c.Count("graph.tree")
		for i := 1; i < n; i++ {
			p := r.IntN(i)
			adj[p] = append(adj[p], i)
		}
	default:
		c.Count("graph.random")
		for i := 1; i < n; i++ { // keep everything reachable from 0, then add extra edges
			p := r.IntN(i)
			adj[p] = append(adj[p], i)
		}
		for k := r.IntN(3); k > 0; k-- {
			a, b := r.IntN(n), r.IntN(n)
			if a == b || (b == 0 && !allowIntoRoot) {
				continue
			}
			adj[a] = append(adj[a], b)
		}
	}
	if r.IntN(8) == 0 { // a directive written twice
		a := r.IntN(n)
		if len(adj[a]) > 0 {
			adj[a] = append(adj[a], adj[a][0])
			c.Count("graph.dupdirective")
		}
	}
	return adj
}

func relInclude(from, to string) string {
	rel, err := filepath.Rel(filepath.Dir("/W/"+from), "/W/"+to)
	if err != nil {
		return to
	}
	return rel
}

func indexOf(l []int, x int) int {
	for i, v := range l {
		if v == x {
			return i
		}
	}
	return 0
}

func genC20Hover(c *Ctx) {
	n := c.N(350, 4000)
	for s := 0; s < n; s++ {
		hvScenario(c)
	}
}

func hvScenario(c *Ctx) {
	r := c.R
	nf := 1 + r.IntN(4)
	ws := r.IntN(5) < 3
	mode := "none"
	names := make([]string, nf)
	base := []string{"a", "b", "c", "d"}
	for i := range names {
		names[i] = base[i] + pick(r, []string{".journal", ".journal", ".j", ".hledger"})
		if i > 0 && r.IntN(4) == 0 {
			names[i] = "sub/" + names[i]
		}
	}
	allowIntoRoot := true
	if ws {
		mode = pick(r, []string{"rootURI", "folders"})
		switch r.IntN(3) {
		case 0:
			names[0] = "main.journal"
			c.Count("ws.root.main")
		case 1:
			names[0] = ".hledger.journal"
			c.Count("ws.root.dot")
		default:
			names[0] = "a.journal"
			allowIntoRoot = false
			c.Count("ws.root.graph")
		}
	} else if r.IntN(10) == 0 {
		mode = "emptyroot"
	}
	c.Count("mode." + mode)
	c.Count(fmt.Sprintf("files.%d", nf))
	adj := hvGraph(c, nf, allowIntoRoot)
	if nf > 1 && r.IntN(5) == 0 { // an orphan: the last file is included by nobody
		for i := range adj {
			kept := adj[i][:0]
			for _, t := range adj[i] {
				if t != nf-1 {
					kept = append(kept, t)
				}
			}
			adj[i] = kept
		}
		if r.IntN(2) == 0 {
			// a second top-level journal with an include of its own (a file of the root's tree,
			// or the root itself where that does not change which file is the root)
			lo := 0
			if !allowIntoRoot {
				lo = 1
			}
			if nf-1 > lo {
				adj[nf-1] = append(adj[nf-1], lo+r.IntN(nf-1-lo))
				c.Count("graph.orphan.includes")
			}
		}
		if ws && !allowIntoRoot {
			names[nf-1] = "z" + filepath.Base(names[nf-1])
		}
		c.Count("graph.orphan")
	}
	pl := newHvPools(r)
	withDropped := r.IntN(7) == 0
	if withDropped {
		c.Count("scen.commentlines")
	}
	incPaths := make([][]string, nf)
	for i := range incPaths {
		incPaths[i] = []string{}
		for _, t := range adj[i] {
			p := relInclude(names[i], names[t])
			if r.IntN(6) == 0 && !strings.HasPrefix(p, "..") {
				p = "./" + p
			}
			incPaths[i] = append(incPaths[i], p)
		}
	}
	gen := func(i int) *hvFile { return hvGenFile(c, names[i], incPaths[i], pl, withDropped) }
	files := make([]*hvFile, nf)
	scenFiles := []any{}
	for i := range files {
		files[i] = gen(i)
		scenFiles = append(scenFiles, J{"name": names[i], "text": files[i].text()})
	}
	open := r.Perm(nf)
	events := []any{}
	if r.IntN(3) == 0 {
		i := r.IntN(nf)
		if ws {
			// new content, same include directives: the workspace's snapshot is updated in place
			files[i] = gen(i)
			events = append(events, J{"k": "change", "f": i, "text": files[i].text()})
			c.Count("event.change")
		} else {
			// same content again: publishDiagnostics re-resolves the includes with a warm cache
			events = append(events, J{"k": "change", "f": i, "text": files[i].text()})
			c.Count("event.republish")
		}
	}
	if ws && len(events) == 0 && len(adj[0]) > 0 && r.IntN(3) == 0 {
		// an unsaved edit in an included file, then its include line is cut from the root
		// journal and pasted back (both saved), then the included file is saved: in the end
		// buffers, disk and include tree agree, and the figures must be those of that state
		x := adj[0][r.IntN(len(adj[0]))]
		if x != 0 {
			rootText := files[0].text()
			var cut []string
			for _, l := range strings.Split(rootText, "\n") {
				if strings.HasPrefix(l, "include ") && strings.HasSuffix(l, incPaths[0][indexOf(adj[0], x)]) {
					continue
				}
				cut = append(cut, l)
			}
			cutText := strings.Join(cut, "\n")
			if cutText != rootText {
				files[x] = gen(x)
				y := files[x].text()
				events = append(events,
					J{"k": "change", "f": x, "text": y},
					J{"k": "change", "f": 0, "text": cutText}, J{"k": "save", "f": 0, "text": cutText},
					J{"k": "change", "f": 0, "text": rootText}, J{"k": "save", "f": 0, "text": rootText},
					J{"k": "save", "f": x, "text": y})
				c.Count("event.unsaved-cut-paste-save")
			}
		}
	}
	gtFiles := []any{}
	for i, f := range files {
		gtFiles = append(gtFiles, J{"path": "/W/" + names[i], "txs": append([]any{}, f.txs...)})
	}
	graph := make([][]int, nf)
	for i := range adj {
		graph[i] = append([]int{}, adj[i]...)
	}
	gt := J{"files": gtFiles, "graph": graph, "ws": ws, "root": 0}
	scen := J{"mode": mode, "files": scenFiles, "open": open, "events": events}
	run := runHoverScenario(c, scen)
	defer run.close()
	for i, f := range files {
		qs := hvQueries(c, f)
		out := run.line(i, qs, gt)
		for _, im := range out["impl"].(J)["figs"].([]any) {
			if im == nil {
				c.Count("impl.null")
			} else {
				c.Count("impl." + im.(J)["k"].(string))
			}
		}
		c.Emit("c20.hover", out)
	}
}
