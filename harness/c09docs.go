package main

// c09.docs: the real Server with a workspace root, driven by didOpen / didChange / didSave /
// didClose notifications; after every notification the view of Server.Workspace() is recorded (the same
// canonical view as C12's).  Tied to the model HL/Model/WsDocs.lean; the oracle demands that
// the workspace is, after every notification, the workspace of what the CLIENT sees (buffers
// over disk): opening a document with a text that differs from the file on disk included.

import (
	"context"
	"fmt"
	"math/rand/v2"
	"os"
	"path/filepath"

	"go.lsp.dev/protocol"
	"go.lsp.dev/uri"

	"github.com/juev/hledger-lsp/internal/server"
)

func init() {
	replayers["c09.docs"] = func(c *Ctx, m map[string]any) map[string]any {
		files := c12Texts(m["files"])
		var evs []c09DocEv
		for _, x := range m["events"].([]any) {
			em := x.(map[string]any)
			k, _ := em["k"].(string)
			n, _ := em["n"].(string)
			t, _ := em["t"].(string)
			evs = append(evs, c09DocEv{k, n, t})
		}
		return c09DocsRun(c, files, evs)
	}
}

type c09DocEv struct{ Kind, Name, Text string }

func c09DocsRun(c *Ctx, files []c12File, evs []c09DocEv) map[string]any {
	cfg := c12DetectCfg(c)
	_ = os.Unsetenv("LEDGER_FILE")
	_ = os.Unsetenv("HLEDGER_JOURNAL")
	dir := c12Dir(c)
	defer os.RemoveAll(dir)
	fj := []any{}
	for _, f := range files {
		c12Write(dir, f.Name, c12Real(dir, f.Text))
		fj = append(fj, map[string]any{"n": f.Name, "t": f.Text, "c": c12Contrib(dir, f.Name, f.Text)})
	}
	ctx := context.Background()
	srv := server.NewServer()
	cl := &c09Client{ch: make(chan protocol.DocumentURI, 64)}
	srv.SetClient(cl)
	if _, err := srv.Initialize(ctx, &protocol.InitializeParams{RootURI: uri.File(dir)}); err != nil { //nolint:staticcheck
		panic(err)
	}
	_ = srv.Initialized(ctx, &protocol.InitializedParams{})
	w := srv.Workspace()
	impl := map[string]any{"root": c12Rel(dir, w.RootJournalPath()), "init": c12View(dir, w)}
	open := map[string]string{}
	ej := []any{}
	steps := []any{}
	for _, e := range evs {
		abs := filepath.Join(dir, filepath.FromSlash(e.Name))
		u := uri.File(abs)
		text := c12Real(dir, e.Text)
		rec := map[string]any{"k": e.Kind, "n": e.Name, "t": e.Text, "c": c12Contrib(dir, e.Name, e.Text)}
		switch e.Kind {
		case "open":
			_ = srv.DidOpen(ctx, &protocol.DidOpenTextDocumentParams{
				TextDocument: protocol.TextDocumentItem{URI: u, Text: text, Version: 1}})
			cl.wait()
			open[e.Name] = text
		case "change":
			_, was := open[e.Name]
			_ = srv.DidChange(ctx, &protocol.DidChangeTextDocumentParams{
				TextDocument:   protocol.VersionedTextDocumentIdentifier{TextDocumentIdentifier: protocol.TextDocumentIdentifier{URI: u}, Version: 2},
				ContentChanges: []protocol.TextDocumentContentChangeEvent{{Text: text}}})
			if was {
				cl.wait()
				open[e.Name] = text
			}
		case "close":
			_ = srv.DidClose(ctx, &protocol.DidCloseTextDocumentParams{TextDocument: protocol.TextDocumentIdentifier{URI: u}})
			delete(open, e.Name)
		default: // save: the editor writes the buffer, then notifies
			if t, ok := open[e.Name]; ok {
				c12Write(dir, e.Name, t)
			}
			_ = srv.DidSave(ctx, &protocol.DidSaveTextDocumentParams{TextDocument: protocol.TextDocumentIdentifier{URI: u}})
		}
		ej = append(ej, rec)
		steps = append(steps, map[string]any{"view": c12View(dir, w), "order": c12Order(dir, w)})
		c.Count("docs.event." + e.Kind)
	}
	impl["steps"] = steps
	return map[string]any{"cfg": cfg, "limit": 50, "files": fj, "events": ej, "impl": impl}
}

// genC09Docs: directories of 2..4 files under a root chosen by name, histories of notifications
// that mostly keep every file's include list (the domain of workspace_follows_buffers); a file
// is opened with the text on disk or with another one.
func genC09Docs(c *Ctx) {
	r := c.R
	for i := 0; i < c.N(120, 2500); i++ {
		n := 2 + r.IntN(3)
		names := append([]string{"main.journal"}, []string{"a.journal", "b.journal", "sub/c.journal"}[:n-1]...)
		dir := c12FakeDir
		// a tree or a diamond below main; sometimes a file nobody includes
		targets := make([][]string, n)
		for j := 1; j < n; j++ {
			p := r.IntN(j)
			targets[p] = append(targets[p], names[j])
		}
		if n == 4 && r.IntN(4) == 0 {
			targets[1] = append(targets[1], names[3])
			targets[2] = append(targets[2], names[3])
		}
		if n > 2 && r.IntN(5) == 0 {
			// the last file becomes an orphan
			for j := range targets {
				kept := targets[j][:0]
				for _, t := range targets[j] {
					if t != names[n-1] {
						kept = append(kept, t)
					}
				}
				targets[j] = kept
			}
			c.Count("docs.orphan")
		}
		var files []c12File
		for j, nm := range names {
			files = append(files, c12File{Name: nm, Text: c12Journal(r, dir, nm, targets[j], 1+r.IntN(3))})
		}
		var evs []c09DocEv
		opened := map[int]bool{}
		ne := 1 + r.IntN(c.N(6, 10))
		for k := 0; k < ne; k++ {
			j := r.IntN(n)
			ts := targets[j]
			calm := true
			if r.IntN(12) == 0 {
				// outside the theorem's domain (correspondence only): the include list changes
				ts = c12Targets(r, names[j], names, 40)
				targets[j] = ts
				calm = false
				c.Count("docs.includes.changed")
			}
			text := c12Journal(r, dir, names[j], ts, r.IntN(4))
			switch {
			case !opened[j]:
				if calm && r.IntN(2) == 0 {
					text = files[j].Text // as on disk (unless saved since: then it is a differing text, fine)
					c.Count("docs.open.same")
				} else {
					c.Count("docs.open.diff")
				}
				evs = append(evs, c09DocEv{"open", names[j], text})
				opened[j] = true
			case r.IntN(4) == 0:
				evs = append(evs, c09DocEv{"save", names[j], ""})
			case r.IntN(5) == 0:
				// closed, with or without unsaved edits; it may be opened again later
				evs = append(evs, c09DocEv{"close", names[j], ""})
				opened[j] = false
			default:
				evs = append(evs, c09DocEv{"change", names[j], text})
			}
		}
		if r.IntN(6) == 0 {
			// notifications for documents that are not open
			j := r.IntN(n)
			if !opened[j] {
				evs = append(evs, c09DocEv{pick(r, []string{"change", "save"}), names[j], c12Journal(r, dir, names[j], targets[j], 1)})
			}
		}
		c.Count(fmt.Sprintf("docs.files=%d", n))
		c.Emit("c09.docs", c09DocsRun(c, files, evs))
	}
}

// genC09DocsToggle: an include line is cut from its parent, the file it named is edited and
// saved while it is outside the root's tree (the workspace ignores notifications for files it
// does not hold), and the line is pasted back: the workspace must then show the file as it is
// NOW, not as it was when it left the tree.  (Added after seed r5-C09, which remembered the
// syntax tree of files that drop out of the tree and reused it on their return.)
func genC09DocsToggle(c *Ctx) {
	r := c.R
	for i := 0; i < c.N(40, 800); i++ {
		n := 2 + r.IntN(3)
		names := append([]string{"main.journal"}, []string{"a.journal", "b.journal", "sub/c.journal"}[:n-1]...)
		dir := c12FakeDir
		targets := make([][]string, n)
		parent := make([]int, n)
		for j := 1; j < n; j++ {
			p := r.IntN(j)
			parent[j] = p
			targets[p] = append(targets[p], names[j])
		}
		var files []c12File
		for j, nm := range names {
			files = append(files, c12File{Name: nm, Text: c12Journal(r, dir, nm, targets[j], 1+r.IntN(3))})
		}
		x := 1 + r.IntN(n-1) // the file that leaves and returns
		p := parent[x]
		without := []string{}
		for _, t := range targets[p] {
			if t != names[x] {
				without = append(without, t)
			}
		}
		var evs []c09DocEv
		// sometimes the file is known to the server as an open, edited buffer before it leaves
		if r.IntN(2) == 0 {
			evs = append(evs, c09DocEv{"open", names[x], c12Journal(r, dir, names[x], targets[x], 1+r.IntN(3))})
			if r.IntN(2) == 0 {
				evs = append(evs, c09DocEv{"save", names[x], ""})
			}
			if r.IntN(2) == 0 {
				evs = append(evs, c09DocEv{"close", names[x], ""})
			}
		}
		evs = append(evs, c09DocEv{"open", names[p], files[p].Text})
		evs = append(evs, c09DocEv{"change", names[p], c12Journal(r, dir, names[p], without, r.IntN(3))})
		if r.IntN(2) == 0 {
			evs = append(evs, c09DocEv{"save", names[p], ""})
		}
		// outside the tree: edited and saved (open -> change -> save, or re-opened with a new text)
		opened := false
		for _, e := range evs {
			if e.Name == names[x] {
				opened = e.Kind != "close"
			}
		}
		if !opened {
			evs = append(evs, c09DocEv{"open", names[x], c12Journal(r, dir, names[x], targets[x], 1+r.IntN(3))})
		}
		for k := r.IntN(3); k >= 0; k-- {
			evs = append(evs, c09DocEv{"change", names[x], c12Journal(r, dir, names[x], targets[x], 1+r.IntN(3))})
		}
		evs = append(evs, c09DocEv{"save", names[x], ""})
		if r.IntN(2) == 0 {
			evs = append(evs, c09DocEv{"close", names[x], ""})
		}
		// the line comes back
		evs = append(evs, c09DocEv{"change", names[p], c12Journal(r, dir, names[p], targets[p], r.IntN(3))})
		if r.IntN(2) == 0 {
			evs = append(evs, c09DocEv{"save", names[p], ""})
		}
		if r.IntN(3) == 0 {
			evs = append(evs, c09DocEv{"change", names[x], c12Journal(r, dir, names[x], targets[x], 1+r.IntN(3))})
		}
		c.Count("docs.toggle")
		c.Emit("c09.docs", c09DocsRun(c, files, evs))
	}
}

var _ = rand.New
