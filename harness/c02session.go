package main

// Op c02.session (property C02 as the client sees it): ONE long-lived real Server, one open
// document that is edited several times; after every version the published balance diagnostics
// are collected from the client stub and judged, per transaction, against the exact rational
// ground truth of that version.  Versions are related on purpose: a transaction re-appears with
// the kinds of its postings toggled (ordinary / [bracketed] / (parenthesised)), as a later
// version of the document or as a sibling in the same journal, so that anything the server
// remembers from one analysis must not colour the next.

import (
	"context"
	"fmt"
	"strings"
	"time"

	"github.com/juev/hledger-lsp/internal/analyzer"
	"github.com/juev/hledger-lsp/internal/server"
	"go.lsp.dev/protocol"
)

// The server keeps ONE Analyzer for its whole life; the per-case ops do the same, so that
// anything an Analyzer remembers between two analyses meets the next case's oracle.
var theAnalyzer *analyzer.Analyzer

func longLivedAnalyzer() *analyzer.Analyzer {
	if theAnalyzer == nil {
		theAnalyzer = analyzer.New()
	}
	return theAnalyzer
}

func init() {
	replayers["c02.session"] = func(c *Ctx, m map[string]any) map[string]any {
		var texts []string
		vs, _ := m["vers"].([]any)
		for _, v := range vs {
			texts = append(texts, unhx(v.(map[string]any)["text"].(string)))
		}
		impl := c02SessionImpl(texts)
		out := map[string]any{}
		for k, v := range m {
			out[k] = v
		}
		out["impl"] = impl
		return out
	}
}

// c02Retoggle returns a twin of g: the kinds of some postings changed, everything else (accounts,
// amounts, notation, spacing, comments) byte for byte the same.
func c02Retoggle(c *Ctx, g genTx) genTx {
	r := c.R
	lines := strings.Split(g.text, "\n")
	ps := append([]tPosting{}, g.ps...)
	// posting i is the i-th indented line that is not a comment line
	var idx []int
	for li := 1; li < len(lines); li++ {
		t := strings.TrimLeft(lines[li], " \t")
		if t == "" || strings.HasPrefix(t, ";") {
			continue
		}
		idx = append(idx, li)
	}
	if len(idx) != len(ps) || len(ps) == 0 {
		return g
	}
	k := 1 + r.IntN(len(ps))
	for _, i := range r.Perm(len(ps))[:k] {
		nk := (ps[i].kind + 1 + r.IntN(2)) % 3
		line := lines[idx[i]]
		ind := len(line) - len(strings.TrimLeft(line, " \t"))
		rest := line[ind:]
		var form string
		switch ps[i].kind {
		case 1:
			form = "[" + ps[i].acct + "]"
		case 2:
			form = "(" + ps[i].acct + ")"
		default:
			form = ps[i].acct
		}
		if !strings.HasPrefix(rest, form) {
			return g
		}
		var nf string
		switch nk {
		case 1:
			nf = "[" + ps[i].acct + "]"
		case 2:
			nf = "(" + ps[i].acct + ")"
		default:
			nf = ps[i].acct
		}
		lines[idx[i]] = line[:ind] + nf + rest[len(form):]
		ps[i].kind = nk
	}
	c.Count("session.twin")
	return genTx{ps: ps, text: strings.Join(lines, "\n"), dom: inDomain(ps)}
}

func c02RenderJournal(c *Ctx, txs []genTx) string {
	var sb strings.Builder
	for i, g := range txs {
		sb.WriteString(g.text)
		if c.R.IntN(4) != 0 || i == len(txs)-1 {
			sb.WriteString("\n")
		}
	}
	return sb.String()
}

func c02SessionDiags(ds []protocol.Diagnostic) []J {
	out := []J{}
	for _, d := range ds {
		code, _ := d.Code.(string)
		if code != "UNBALANCED" && code != "MULTIPLE_INFERRED" {
			continue
		}
		out = append(out, J{"code": code, "line": int(d.Range.Start.Line) + 1, "sev": int(d.Severity) - 1, "msg": hx(d.Message)})
	}
	return out
}

// c02SessionImpl opens the first text on a fresh real server and sends every later text as a
// full-document change; returns the balance diagnostics published for each version.
func c02SessionImpl(texts []string) []any {
	srv := server.NewServer()
	cl := newStubClient()
	srv.SetClient(cl)
	ctx := context.Background()
	if _, err := srv.Initialize(ctx, &protocol.InitializeParams{}); err != nil {
		panic(err)
	}
	_ = srv.Initialized(ctx, &protocol.InitializedParams{})
	uri := protocol.DocumentURI("file:///hlverif-c02/session.journal")
	var out []any
	wait := func(n int) []protocol.Diagnostic {
		deadline := time.After(30 * time.Second)
		for {
			pubs := cl.published()
			if len(pubs) >= n {
				return pubs[n-1].Diagnostics
			}
			select {
			case <-cl.notify:
			case <-time.After(50 * time.Millisecond):
			case <-deadline:
				panic(fmt.Sprintf("c02.session: version %d: no publishDiagnostics within 30 s", n))
			}
		}
	}
	for i, t := range texts {
		if i == 0 {
			_ = srv.DidOpen(ctx, &protocol.DidOpenTextDocumentParams{TextDocument: protocol.TextDocumentItem{URI: uri, Text: t, Version: 1}})
		} else {
			_ = srv.DidChangeRaw(ctx, &server.DidChangeRawParams{
				TextDocument:   protocol.VersionedTextDocumentIdentifier{TextDocumentIdentifier: protocol.TextDocumentIdentifier{URI: uri}, Version: int32(i + 1)},
				ContentChanges: []server.ContentChange{{Text: t}}})
		}
		out = append(out, c02SessionDiags(wait(i+1)))
	}
	_ = srv.DidClose(ctx, &protocol.DidCloseTextDocumentParams{TextDocument: protocol.TextDocumentIdentifier{URI: uri}})
	return out
}

func genC02Sessions(c *Ctx) {
	r := c.R
	for i := 0; i < c.N(250, 8000); i++ {
		nv := 3 + r.IntN(c.N(4, 8))
		var cur []genTx
		var vers []any
		var texts []string
		for v := 0; v < nv; v++ {
			var next []genTx
			for try := 0; try < 20; try++ {
				next = nil
				switch x := r.IntN(10); {
				case len(cur) == 0 || x < 2:
					n := 1 + r.IntN(3)
					for k := 0; k < n; k++ {
						next = append(next, c02genTransaction(c, 0, fmt.Sprintf("2024-%02d-%02d", 1+r.IntN(12), 1+r.IntN(28))))
					}
				case x < 7:
					// the same journal with one transaction's posting kinds toggled
					next = append(next, cur...)
					k := r.IntN(len(next))
					next[k] = c02Retoggle(c, next[k])
				default:
					// a toggled twin of one transaction is added next to it
					next = append(next, cur...)
					k := r.IntN(len(next))
					if len(next) < 5 {
						next = append(next, c02Retoggle(c, next[k]))
					} else {
						next[k] = c02Retoggle(c, next[k])
					}
				}
				ok := true
				for _, g := range next {
					ok = ok && g.dom
				}
				if ok {
					break
				}
				next = nil
			}
			if next == nil {
				break
			}
			cur = next
			text := c02RenderJournal(c, cur)
			j, _ := hxParse(text)
			txs := []J{}
			for _, t := range j.Transactions {
				txs = append(txs, txJ(t))
			}
			truth := []any{}
			for _, g := range cur {
				truth = append(truth, truthJ(g.ps))
			}
			vers = append(vers, map[string]any{"text": hx(text), "txs": txs, "truth": normJ(truth), "dom": true})
			texts = append(texts, text)
		}
		if len(texts) < 2 {
			continue
		}
		c.Count(fmt.Sprintf("session.versions.%d", len(texts)))
		c.Emit("c02.session", map[string]any{"vers": vers, "impl": c02SessionImpl(texts)})
	}
}
