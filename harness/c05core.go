package main

// C04/C05, core grammar GCore (lean/HL/Spec/GCore.lean, GCoreLayout.lean): the stream behind the
// theorems HL.Props.C04.format_core, C04_preserved_core, C05_idempotent_core, C05_aligned_core.
// Random well-formed core journals are PRINTED BY THE LEAN PRINTER (op c03.gcore.print), formatted
// by the REAL server.formatText (parse, skip error lines, FormatDocumentWithOptions) under random
// options and with no commodity formats, the edits are applied (refApply), the result is parsed
// with the real parser, formatted and applied again.  The driver (op c05.gcore) compares both
// resulting texts with GCore.canon o j and judges C04/C05 on what the real code returned.

import (
	"math/rand/v2"

	"github.com/juev/hledger-lsp/internal/formatter"
	"github.com/juev/hledger-lsp/internal/server"
)

func init() {
	replayers["c05.gcore"] = func(c *Ctx, m map[string]any) map[string]any {
		currentProp = c.Prop
		o, _ := m["opts"].(map[string]any)
		opts := formatter.Options{IndentSize: jint(o["indent"]), AlignAmounts: jbool(o["align"]), MinAlignmentColumn: jint(o["mincol"])}
		return c05CoreCase(m["g"], unhx(m["text"].(string)), opts)
	}
}

func c05CoreCase(g any, text string, opts formatter.Options) map[string]any {
	edits := server.VerifFormatText(text, nil, opts)
	impl := J{"text": nil, "again": nil}
	out := map[string]any{"g": g, "text": hx(text), "prop": currentProp,
		"opts":  J{"indent": opts.IndentSize, "align": opts.AlignAmounts, "mincol": opts.MinAlignmentColumn},
		"edits": editsJ(edits), "impl": impl}
	doc2, ok := refApply(text, edits)
	if !ok {
		return out
	}
	impl["text"] = hx(doc2)
	j2, errs2 := hxParse(doc2)
	second := server.VerifFormatText(doc2, nil, opts)
	out["tree2"] = journalJ(j2)
	out["errs2"] = perrsJ(errs2)
	out["second"] = editsJ(second)
	if doc3, ok := refApply(doc2, second); ok {
		impl["again"] = hx(doc3)
	}
	return out
}

// genGCoreOptions: every shape of options the formatter accepts - indent sizes around zero
// (<= 0 means the default of four) and large ones, alignment on and off, minimum columns
// below, around and far above the natural alignment column.
func genGCoreOptions(c *Ctx, r *rand.Rand) formatter.Options {
	o := formatter.Options{IndentSize: 1 + r.IntN(8), AlignAmounts: r.IntN(4) != 0}
	switch r.IntN(8) {
	case 0:
		o.IndentSize = -r.IntN(3)
		c.Count("gcore.opts.indentDefault")
	case 1:
		o.IndentSize = 9 + r.IntN(24)
	}
	switch r.IntN(4) {
	case 0:
		o.MinAlignmentColumn = r.IntN(30)
	case 1:
		o.MinAlignmentColumn = 30 + r.IntN(70)
		c.Count("gcore.opts.minColLarge")
	case 2:
		o.MinAlignmentColumn = -r.IntN(5)
	}
	if o.AlignAmounts {
		c.Count("gcore.opts.align")
	} else {
		c.Count("gcore.opts.noAlign")
	}
	return o
}

func genC05Core(c *Ctx) {
	currentProp = c.Prop
	n := c.N(300, 10000)
	gs := make([]any, n)
	for i := range gs {
		gs[i] = genGCoreJournal(c, c.R)
	}
	texts := leanPrint(gs, nil)
	for i, g := range gs {
		c.Emit("c05.gcore", c05CoreCase(g, texts[i], genGCoreOptions(c, c.R)))
	}
}
