package main

// C18: undeclared-account / undeclared-commodity warnings.
//
// Ops
//   c18.analyze  one journal text + external declared sets -> the UNDECLARED_* diagnostics of the
//                real analyzer (Analyze / AnalyzeWithExternalDeclarations), with the tree of the
//                REAL parser as the model's input.
//   c18.server   a workspace of 1..3 files on disk, the current file opened in a REAL in-process
//                Server (Initialize with or without rootUri and with the three diagnostics
//                switches as initializationOptions, Initialized, DidOpen), the published
//                UNDECLARED_* diagnostics captured by a protocol.Client stub.
//   c18.lower    the runes on which the model's lower-casing of an account's first segment rests
//                (every non-ASCII rune that unicode.ToLower maps into ASCII).
//
// The layout of a workspace (which files form the include tree of the current file, which file
// is the workspace's root journal and which files it loads) is computed here from the
// generator's own include graph: it is ground truth of the generated case, not an output of the
// implementation.  Include paths are plain relative names in one flat directory.

import (
	"context"
	"fmt"
	"math/rand/v2"
	"os"
	"path/filepath"
	"sort"
	"strings"
	"sync"
	"time"
	"unicode"

	"go.lsp.dev/protocol"

	"github.com/juev/hledger-lsp/internal/analyzer"
	"github.com/juev/hledger-lsp/internal/ast"
	"github.com/juev/hledger-lsp/internal/server"
)

func init() {
	register("C18", genC18)
	replayers["c18.analyze"] = func(c *Ctx, m map[string]any) map[string]any {
		return c18AnalyzeCase(unhx(c18Str(m["text"])), c18StrList(m["extAcc"]), c18StrList(m["extCom"]))
	}
	replayers["c18.server"] = func(c *Ctx, m map[string]any) map[string]any {
		var ws c18WS
		fs, _ := m["files"].([]any)
		for _, f := range fs {
			fm := f.(map[string]any)
			ws.Files = append(ws.Files, c18File{Name: c18Str(fm["name"]), Text: unhx(c18Str(fm["text"]))})
		}
		es, _ := m["edges"].([]any)
		for _, e := range es {
			p := toIntSlice(e)
			ws.Edges = append(ws.Edges, [2]int{p[0], p[1]})
		}
		ws.Cur = int(m["cur"].(float64))
		set := toIntSlice(m["set"])
		return c18ServerCase(c, ws, m["hasRoot"].(bool), [3]bool{set[0] != 0, set[1] != 0, set[2] != 0})
	}
	replayers["c18.lower"] = func(c *Ctx, m map[string]any) map[string]any {
		return c18LowerProbes(c18StrList(m["probes"]), nil)
	}
	replayers["c18.rule"] = func(c *Ctx, m map[string]any) map[string]any {
		var txs [][]map[string]any
		ts, _ := m["txs"].([]any)
		for _, t := range ts {
			var ps []map[string]any
			for _, p := range t.([]any) {
				ps = append(ps, p.(map[string]any))
			}
			txs = append(txs, ps)
		}
		return c18RuleCase(c18StrList(m["declAcc"]), c18StrList(m["declCom"]), txs, c18StrList(m["extAcc"]), c18StrList(m["extCom"]))
	}
}

func c18Str(v any) string { s, _ := v.(string); return s }

// c18StrList decodes a JSON list of hex strings; nil stays nil (no external map at all).
func c18StrList(v any) []string {
	if v == nil {
		return nil
	}
	a, _ := v.([]any)
	out := []string{}
	for _, x := range a {
		out = append(out, unhx(c18Str(x)))
	}
	return out
}

func c18HexList(l []string) any {
	if l == nil {
		return nil
	}
	out := []string{}
	for _, s := range l {
		out = append(out, hx(s))
	}
	return out
}

// ---------------------------------------------------------------- implementation runners

type c18Diag struct {
	Code string
	R    []int
	Msg  string
	Sev  int
}

func c18SortDiags(ds []c18Diag) []J {
	sort.SliceStable(ds, func(i, j int) bool {
		a, b := ds[i], ds[j]
		for k := range a.R {
			if a.R[k] != b.R[k] {
				return a.R[k] < b.R[k]
			}
		}
		if a.Code != b.Code {
			return a.Code < b.Code
		}
		return hx(a.Msg) < hx(b.Msg)
	})
	out := []J{}
	for _, d := range ds {
		out = append(out, J{"code": d.Code, "r": d.R, "msg": hx(d.Msg), "sev": d.Sev})
	}
	return out
}

func c18IsUndeclared(code string) bool {
	return code == "UNDECLARED_ACCOUNT" || code == "UNDECLARED_COMMODITY"
}

func c18SetOf(l []string) map[string]bool {
	if l == nil {
		return nil
	}
	m := map[string]bool{}
	for _, s := range l {
		m[s] = true
	}
	return m
}

func c18AnalyzeCase(text string, extAcc, extCom []string) map[string]any {
	journal, _ := hxParse(text)
	a := longLivedAnalyzer()
	var res *analyzer.AnalysisResult
	if extAcc == nil && extCom == nil {
		res = a.Analyze(journal)
	} else {
		res = a.AnalyzeWithExternalDeclarations(journal, analyzer.ExternalDeclarations{
			Accounts: c18SetOf(extAcc), Commodities: c18SetOf(extCom)})
	}
	var ds []c18Diag
	for _, d := range res.Diagnostics {
		if c18IsUndeclared(d.Code) {
			ds = append(ds, c18Diag{d.Code, rngJ(d.Range), d.Message, int(d.Severity)})
		}
	}
	return map[string]any{"text": hx(text), "extAcc": c18HexList(extAcc), "extCom": c18HexList(extCom),
		"tree": journalJ(journal), "impl": c18SortDiags(ds)}
}

type c18Client struct {
	mu  sync.Mutex
	ch  chan *protocol.PublishDiagnosticsParams
	log []string
}

func (m *c18Client) Progress(context.Context, *protocol.ProgressParams) error { return nil }
func (m *c18Client) WorkDoneProgressCreate(context.Context, *protocol.WorkDoneProgressCreateParams) error {
	return nil
}
func (m *c18Client) LogMessage(_ context.Context, p *protocol.LogMessageParams) error {
	m.mu.Lock()
	m.log = append(m.log, p.Message)
	m.mu.Unlock()
	return nil
}
func (m *c18Client) PublishDiagnostics(_ context.Context, p *protocol.PublishDiagnosticsParams) error {
	cp := *p
	m.ch <- &cp
	return nil
}
func (m *c18Client) ShowMessage(context.Context, *protocol.ShowMessageParams) error { return nil }
func (m *c18Client) ShowMessageRequest(context.Context, *protocol.ShowMessageRequestParams) (*protocol.MessageActionItem, error) {
	return nil, nil
}
func (m *c18Client) Telemetry(context.Context, interface{}) error { return nil }
func (m *c18Client) RegisterCapability(context.Context, *protocol.RegistrationParams) error {
	return nil
}
func (m *c18Client) UnregisterCapability(context.Context, *protocol.UnregistrationParams) error {
	return nil
}
func (m *c18Client) ApplyEdit(context.Context, *protocol.ApplyWorkspaceEditParams) (bool, error) {
	return false, nil
}
func (m *c18Client) Configuration(context.Context, *protocol.ConfigurationParams) ([]interface{}, error) {
	return nil, nil
}
func (m *c18Client) WorkspaceFolders(context.Context) ([]protocol.WorkspaceFolder, error) {
	return nil, nil
}

type c18File struct{ Name, Text string }

// c18WS: files of one flat directory, include edges (i includes j; realised by `include <name>`
// lines inside Files[i].Text), index of the file the editor has open.
type c18WS struct {
	Files []c18File
	Edges [][2]int
	Cur   int
}

var c18Seq int

// c18RunServer writes the files under a fresh directory, drives a real Server and returns the
// published diagnostics of the current file.
func c18RunServer(c *Ctx, ws c18WS, hasRoot bool, set [3]bool) []protocol.Diagnostic {
	os.Unsetenv("LEDGER_FILE") // both would override the workspace's root journal
	os.Unsetenv("HLEDGER_JOURNAL")
	base := c.Tmp
	if base == "" {
		base = os.TempDir()
	}
	c18Seq++
	dir := filepath.Join(base, fmt.Sprintf("c18-%d-%d", os.Getpid(), c18Seq))
	if err := os.MkdirAll(dir, 0o755); err != nil {
		panic(err)
	}
	defer os.RemoveAll(dir)
	for _, f := range ws.Files {
		if err := os.WriteFile(filepath.Join(dir, f.Name), []byte(f.Text), 0o644); err != nil {
			panic(err)
		}
	}
	srv := server.NewServer()
	cl := &c18Client{ch: make(chan *protocol.PublishDiagnosticsParams, 4)}
	srv.SetClient(cl)
	ctx := context.Background()
	params := &protocol.InitializeParams{
		InitializationOptions: map[string]any{"diagnostics": map[string]any{
			"undeclaredAccounts": set[0], "undeclaredCommodities": set[1], "unbalancedTransactions": set[2]}},
	}
	if hasRoot {
		params.RootURI = protocol.DocumentURI("file://" + dir) //nolint:staticcheck
	}
	if _, err := srv.Initialize(ctx, params); err != nil {
		panic(err)
	}
	if err := srv.Initialized(ctx, &protocol.InitializedParams{}); err != nil {
		panic(err)
	}
	cur := ws.Files[ws.Cur]
	uri := protocol.DocumentURI("file://" + filepath.Join(dir, cur.Name))
	if err := srv.DidOpen(ctx, &protocol.DidOpenTextDocumentParams{
		TextDocument: protocol.TextDocumentItem{URI: uri, Text: cur.Text, Version: 1}}); err != nil {
		panic(err)
	}
	select {
	case p := <-cl.ch:
		if p.URI != uri {
			panic("c18: diagnostics published for another uri: " + string(p.URI))
		}
		return p.Diagnostics
	case <-time.After(20 * time.Second):
		panic("c18: no publishDiagnostics within 20 s")
	}
}

var c18JournalExt = map[string]bool{".journal": true, ".j": true, ".hledger": true, ".ledger": true}

// c18Reach: files reachable from i by one or more include edges (i itself only via a cycle is
// NOT reported: the loader never loads a visited file again).
func c18Reach(n int, edges [][2]int, i int) []int {
	seen := map[int]bool{i: true}
	queue := []int{i}
	var out []int
	for len(queue) > 0 {
		x := queue[0]
		queue = queue[1:]
		for _, e := range edges {
			if e[0] == x && !seen[e[1]] {
				seen[e[1]] = true
				out = append(out, e[1])
				queue = append(queue, e[1])
			}
		}
	}
	sort.Ints(out)
	if out == nil {
		out = []int{}
	}
	return out
}

// c18Root: the documented choice of the workspace's root journal (main.journal, then
// .hledger.journal, then the first name in byte order among the journal files no journal file
// includes, then the first journal file); -1 when the directory holds no journal file.
func c18Root(ws c18WS) int {
	idx := map[string]int{}
	var names []string
	for i, f := range ws.Files {
		idx[f.Name] = i
		if c18JournalExt[filepath.Ext(f.Name)] {
			names = append(names, f.Name)
		}
	}
	if i, ok := idx["main.journal"]; ok {
		return i
	}
	if i, ok := idx[".hledger.journal"]; ok {
		return i
	}
	if len(names) == 0 {
		return -1
	}
	sort.Strings(names)
	included := map[int]bool{}
	for _, e := range ws.Edges {
		if c18JournalExt[filepath.Ext(ws.Files[e[0]].Name)] {
			included[e[1]] = true
		}
	}
	for _, n := range names {
		if !included[idx[n]] {
			return idx[n]
		}
	}
	return idx[names[0]]
}

func c18ServerCase(c *Ctx, ws c18WS, hasRoot bool, set [3]bool) map[string]any {
	pub := c18RunServer(c, ws, hasRoot, set)
	var ds []c18Diag
	for _, d := range pub {
		code, _ := d.Code.(string)
		if c18IsUndeclared(code) {
			ds = append(ds, c18Diag{code, []int{int(d.Range.Start.Line), int(d.Range.Start.Character),
				int(d.Range.End.Line), int(d.Range.End.Character)}, d.Message, int(d.Severity)})
		}
	}
	files := []J{}
	for _, f := range ws.Files {
		j, _ := hxParse(f.Text)
		files = append(files, J{"name": f.Name, "text": hx(f.Text), "tree": journalJ(j)})
	}
	edges := [][]int{}
	for _, e := range ws.Edges {
		edges = append(edges, []int{e[0], e[1]})
	}
	var wsTree any // null: the server has no workspace view (no rootUri, or no root journal found)
	root := -1
	if hasRoot {
		root = c18Root(ws)
		if root >= 0 {
			l := append([]int{root}, c18Reach(len(ws.Files), ws.Edges, root)...)
			wsTree = l
		}
	}
	b := func(x bool) int {
		if x {
			return 1
		}
		return 0
	}
	return map[string]any{"files": files, "edges": edges, "cur": ws.Cur, "hasRoot": hasRoot,
		"set":     []int{b(set[0]), b(set[1]), b(set[2])},
		"curTree": c18Reach(len(ws.Files), ws.Edges, ws.Cur), "wsTree": wsTree, "root": root,
		"impl": c18SortDiags(ds)}
}

// c18CategoryIndex: which of the six standard categories `isAccountDeclared` finds for the
// name (0..5 in the order assets, liabilities, equity, expenses, revenues, income), or 6.
// Computed with the same library calls as the implementation (strings.ToLower, strings.Index).
func c18CategoryIndex(name string) int {
	lower := strings.ToLower(name)
	seg := lower
	if i := strings.Index(lower, ":"); i >= 0 {
		seg = lower[:i]
	}
	for i, w := range c18Cats {
		if seg == w {
			return i
		}
	}
	return 6
}

var c18LowerAlphabet = []string{"a", "s", "e", "t", "A", "S", "E", "T", "i", "I", "İ", "ı", "n", "N", "c", "C", "o", "O", "m", "M",
	"K", "k", "É", "é", ":", " ", "\xc4", "\xb0", "\xe2", "\x84", "\xaa", "\xff", "q", "Q", "u", "U", "y", "Y", "ǅ", "1"}

// c18LowerCase lists every non-ASCII rune whose unicode.ToLower is ASCII, and the category found
// for probe strings (fixed ones plus random strings over an adversarial alphabet, invalid UTF-8
// included): the facts the model's `goLower` rests on.
func c18LowerCase(c *Ctx) map[string]any {
	var rs []int
	for r := rune(0x80); r <= unicode.MaxRune; r++ {
		if l := unicode.ToLower(r); l < 0x80 {
			rs = append(rs, int(r), int(l))
		}
	}
	probes := []string{"ASSETS", "İncome", "LİABİLİTİES:x", "K", "\xc4", "\xe1\xc4\xb0", "Équity", "a:B", "ıncome", "ǅ",
		"income", "INCOME:", ":income", "Equity:x:y", "eQUİTY", "", ":", "revenues", "Expenses:a", "expenses "}
	for i := 0; i < c.N(400, 4000); i++ {
		var sb strings.Builder
		if c.R.IntN(2) == 0 {
			sb.WriteString(c18MixCase(c.R, c18Pick(c.R, c18Cats)))
		}
		for k := c.R.IntN(4); k > 0; k-- {
			sb.WriteString(c18Pick(c.R, c18LowerAlphabet))
		}
		if c.R.IntN(3) == 0 {
			sb.WriteString(c18MixCase(c.R, c18Pick(c.R, c18Cats)))
		}
		probes = append(probes, sb.String())
	}
	return c18LowerProbes(probes, rs)
}

func c18LowerProbes(probes []string, rs []int) map[string]any {
	if rs == nil {
		for r := rune(0x80); r <= unicode.MaxRune; r++ {
			if l := unicode.ToLower(r); l < 0x80 {
				rs = append(rs, int(r), int(l))
			}
		}
	}
	ps := []string{}
	cats := []int{}
	for _, p := range probes {
		ps = append(ps, hx(p))
		cats = append(cats, c18CategoryIndex(p))
	}
	return map[string]any{"probes": ps, "impl": J{"runes": rs, "cats": cats}}
}

// c18RuleCase builds a syntax tree by hand (no parser: account names and symbols are arbitrary
// byte strings) and runs the real analyzer on it.
type c18P struct{ Acc, Amt, Cost, Ba *string }

func c18RuleCase(declAcc, declCom []string, txs [][]map[string]any, extAcc, extCom []string) map[string]any {
	j := &ast.Journal{}
	line := 1
	pos := func(l, c int) ast.Position { return ast.Position{Line: l, Column: c, Offset: l*100 + c} }
	for _, a := range declAcc {
		j.Directives = append(j.Directives, ast.AccountDirective{Account: ast.Account{Name: a},
			Subdirs: map[string]string{}, Range: ast.Range{Start: pos(line, 1), End: pos(line+1, 1)}})
		line++
	}
	for _, s := range declCom {
		j.Directives = append(j.Directives, ast.CommodityDirective{Commodity: ast.Commodity{Symbol: s},
			Subdirs: map[string]string{}, Range: ast.Range{Start: pos(line, 1), End: pos(line+1, 1)}})
		line++
	}
	amt := func(v any, l, col int) *ast.Amount {
		if v == nil {
			return nil
		}
		sym := unhx(v.(string))
		return &ast.Amount{Commodity: ast.Commodity{Symbol: sym,
			Range: ast.Range{Start: pos(l, col), End: pos(l, col+len(sym))}}}
	}
	for _, ps := range txs {
		tx := ast.Transaction{Range: ast.Range{Start: pos(line, 1), End: pos(line+len(ps)+1, 1)}}
		line++
		for _, p := range ps {
			post := ast.Posting{Account: ast.Account{Name: unhx(p["acc"].(string))},
				Range: ast.Range{Start: pos(line, 5), End: pos(line, 60)}}
			post.Amount = amt(p["amt"], line, 20)
			if a := amt(p["cost"], line, 30); a != nil {
				post.Cost = &ast.Cost{Amount: *a}
			}
			if a := amt(p["ba"], line, 40); a != nil {
				post.BalanceAssertion = &ast.BalanceAssertion{Amount: *a}
			}
			tx.Postings = append(tx.Postings, post)
			line++
		}
		j.Transactions = append(j.Transactions, tx)
	}
	a := longLivedAnalyzer()
	var res *analyzer.AnalysisResult
	if extAcc == nil && extCom == nil {
		res = a.Analyze(j)
	} else {
		res = a.AnalyzeWithExternalDeclarations(j, analyzer.ExternalDeclarations{
			Accounts: c18SetOf(extAcc), Commodities: c18SetOf(extCom)})
	}
	var ds []c18Diag
	for _, d := range res.Diagnostics {
		if c18IsUndeclared(d.Code) {
			ds = append(ds, c18Diag{d.Code, rngJ(d.Range), d.Message, int(d.Severity)})
		}
	}
	return map[string]any{"declAcc": c18HexList(append([]string{}, declAcc...)), "declCom": c18HexList(append([]string{}, declCom...)),
		"txs": txs, "extAcc": c18HexList(extAcc), "extCom": c18HexList(extCom),
		"tree": journalJ(j), "impl": c18SortDiags(ds)}
}

var c18RuleAtoms = []string{"a", "b", "A", ":", ":", "ab", "a:b", "", "\xff", "é", "assets", "Assets", "İ", " ", "x"}

func c18RuleName(r *rand.Rand) string {
	var sb strings.Builder
	for k := r.IntN(5); k > 0; k-- {
		sb.WriteString(c18Pick(r, c18RuleAtoms))
	}
	return sb.String()
}

func genC18Rule(c *Ctx) map[string]any {
	r := c.R
	names := func(n int) []string {
		out := []string{}
		for ; n > 0; n-- {
			out = append(out, c18RuleName(r))
		}
		return out
	}
	declAcc, declCom := names(r.IntN(3)), names(r.IntN(3))
	var extAcc, extCom []string
	if r.IntN(3) != 0 {
		extAcc, extCom = names(r.IntN(3)), names(r.IntN(3))
	}
	pool := append(append(append([]string{}, declAcc...), extAcc...), names(2)...)
	spool := append(append(append([]string{}, declCom...), extCom...), names(2)...)
	var txs [][]map[string]any
	for t := 1 + r.IntN(2); t > 0; t-- {
		var ps []map[string]any
		for k := 1 + r.IntN(4); k > 0; k-- {
			acc := c18Pick(r, pool)
			switch r.IntN(4) {
			case 0:
				acc += ":" + c18RuleName(r)
			case 1:
				acc += c18RuleName(r)
			}
			p := map[string]any{"acc": hx(acc), "amt": nil, "cost": nil, "ba": nil}
			for _, k := range []string{"amt", "cost", "ba"} {
				if r.IntN(2) == 0 {
					p[k] = hx(c18Pick(r, spool))
				}
			}
			ps = append(ps, p)
		}
		txs = append(txs, ps)
	}
	return c18RuleCase(declAcc, declCom, txs, extAcc, extCom)
}

// ---------------------------------------------------------------- generators

func c18Pick[T any](r *rand.Rand, l []T) T { return l[r.IntN(len(l))] }

var c18DeclPool = []string{"foo", "foo:bar", "Bank:Checking", "assets:cash", "капитал:счет", "a b:c d",
	"x:y:z", "Expenses", "misc", "Foo", "savings:2024", "lia:x"}
var c18Segs = []string{"x", "sub acct", "Y2", "ж", "bar", "cash", "a-b_c", "o'neil"}
var c18Cats = []string{"assets", "liabilities", "equity", "expenses", "revenues", "income"}
var c18Near = []string{"asset", "assetss", "expense", "income2", "in come", "ıncome", "revenue", "equit",
	"liability", "xassets", "Équity", "assets1", "incomé"}
var c18Free = []string{"zz:q", "мир:труд", "wallet:x", "tmp:a:b", "Unknown:Thing", "q:r"}
var c18Coms = []string{"USD", "EUR", "$", "€", "BTC", "руб", "hrs", "£", "CHF", "\"AAPL 2\"", "₽"}

func c18MixCase(r *rand.Rand, w string) string {
	var sb strings.Builder
	for _, ch := range w {
		switch {
		case ch == 'i' && r.IntN(12) == 0:
			sb.WriteRune('İ') // U+0130: unicode.ToLower gives 'i'
		case r.IntN(2) == 0:
			sb.WriteRune(unicode.ToUpper(ch))
		default:
			sb.WriteRune(ch)
		}
	}
	return sb.String()
}

// c18Account draws a posting account relative to the names some file of the case declares.
// Posting accounts always have at least two segments (grammar G; the parser rejects a posting
// whose account has no colon), declared names may have one.
func c18Account(c *Ctx, declared []string) string {
	r := c.R
	k := r.IntN(12)
	if len(declared) == 0 && k < 6 {
		k = 6 + r.IntN(6)
	}
	switch {
	case k < 2:
		var multi []string
		for _, d := range declared {
			if strings.Contains(d, ":") {
				multi = append(multi, d)
			}
		}
		if len(multi) > 0 {
			c.Count("acct.exact")
			return c18Pick(r, multi)
		}
		fallthrough
	case k < 4:
		c.Count("acct.sub")
		a := c18Pick(r, declared) + ":" + c18Pick(r, c18Segs)
		if r.IntN(4) == 0 {
			a += ":" + c18Pick(r, c18Segs)
		}
		return a
	case k < 6:
		c.Count("acct.similar")
		d := c18Pick(r, declared)
		switch r.IntN(6) {
		case 0:
			return d + "bar:" + c18Pick(r, c18Segs)
		case 1:
			if strings.Contains(d, ":") {
				return d + "x"
			}
			return d + "x:" + c18Pick(r, c18Segs)
		case 2:
			if len(d) > 1 && d[len(d)-1] < 0x80 && d[len(d)-2] != ':' && d[len(d)-2] != ' ' {
				return d[:len(d)-1] + ":" + c18Pick(r, c18Segs)
			}
			return d + "y:z"
		case 3:
			return strings.ToUpper(d) + ":" + c18Pick(r, c18Segs)
		case 4:
			return "pre:" + d
		default:
			return d + " 2:" + c18Pick(r, c18Segs)
		}
	case k < 8:
		c.Count("acct.category")
		return c18MixCase(r, c18Pick(r, c18Cats)) + ":" + c18Pick(r, c18Segs)
	case k < 10:
		c.Count("acct.nearCategory")
		return c18Pick(r, c18Near) + ":" + c18Pick(r, c18Segs)
	default:
		c.Count("acct.free")
		return c18Pick(r, c18Free)
	}
}

func c18Number(r *rand.Rand) string {
	return c18Pick(r, []string{"10", "-3.50", "1,000.00", "2", "0.5", "-7", "100", "42.10"})
}

func c18IsSign(s string) bool  { return s == "$" || s == "€" || s == "£" || s == "₽" }
func c18IsLower(s string) bool { return s == "hrs" || s == "руб" }

// c18Amount writes one amount.  Lower-case and Cyrillic commodity words are only written on the
// right and only when nothing follows on the line (the parser rejects `10 hrs @ ...`; that is
// C03's business), upper-case codes may stand on either side, signs usually on the left.
func c18Amount(r *rand.Rand, coms []string, last bool) string {
	if r.IntN(9) == 0 {
		return c18Number(r) // no commodity
	}
	s := c18Pick(r, coms)
	for i := 0; c18IsLower(s) && !last; i++ {
		s = c18Pick(r, coms)
		if i > 8 {
			s = "USD"
		}
	}
	switch {
	case c18IsSign(s):
		if r.IntN(5) != 0 {
			return s + c18Number(r)
		}
	case c18IsLower(s):
	case r.IntN(6) == 0:
		return s + " " + c18Number(r)
	}
	return c18Number(r) + " " + s
}

// c18Journal writes one file: declarations, include lines, transactions.
func c18Journal(c *Ctx, declAcc, declCom, includes, allDeclared, coms []string, ntx int) string {
	r := c.R
	var sb strings.Builder
	var heads []string
	for _, a := range declAcc {
		l := "account " + a
		if r.IntN(5) == 0 {
			l += "  ; type: A"
		}
		heads = append(heads, l)
	}
	for _, s := range declCom {
		switch r.IntN(4) {
		case 0:
			if c18IsSign(s) {
				heads = append(heads, "commodity "+s+"1,000.00")
			} else {
				heads = append(heads, "commodity 1,000.00 "+s)
			}
		case 1:
			heads = append(heads, "commodity "+s+"\n  format 1.000,00 "+s)
		default:
			heads = append(heads, "commodity "+s)
		}
	}
	for _, p := range includes {
		heads = append(heads, "include "+p)
	}
	r.Shuffle(len(heads), func(i, j int) { heads[i], heads[j] = heads[j], heads[i] })
	if r.IntN(4) == 0 {
		heads = append([]string{"; generated for C18"}, heads...)
	}
	for _, h := range heads {
		sb.WriteString(h + "\n")
	}
	if len(heads) > 0 {
		sb.WriteString("\n")
	}
	for t := 0; t < ntx; t++ {
		fmt.Fprintf(&sb, "2024-%02d-%02d %s\n", 1+r.IntN(12), 1+r.IntN(28),
			c18Pick(r, []string{"* shop", "grocer | food", "! (12) rent", "payee", "обед"}))
		np := 2 + r.IntN(3)
		// a transaction repeats commodities: draw from a small sub-pool
		sub := []string{c18Pick(r, coms), c18Pick(r, coms)}
		if r.IntN(3) == 0 {
			sub = append(sub, c18Pick(r, coms))
		}
		for p := 0; p < np; p++ {
			acct := c18Account(c, allDeclared)
			switch r.IntN(10) {
			case 0:
				acct = "(" + acct + ")"
			case 1:
				acct = "[" + acct + "]"
			}
			line := "    " + acct
			if p < np-1 || r.IntN(3) == 0 {
				hasCost, hasAssert := r.IntN(3) == 0, r.IntN(4) == 0
				line += "  " + c18Amount(r, sub, !hasCost && !hasAssert)
				c.Count("use.amount")
				if hasCost {
					line += " " + c18Pick(r, []string{"@", "@@"}) + " " + c18Amount(r, sub, !hasAssert)
					c.Count("use.cost")
				}
				if hasAssert {
					line += " " + c18Pick(r, []string{"=", "=="}) + " " + c18Amount(r, sub, true)
					c.Count("use.assertion")
				}
			} else if r.IntN(4) == 0 {
				line += "  = " + c18Amount(r, sub, true)
				c.Count("use.assertionOnly")
			}
			if r.IntN(8) == 0 {
				line += "  ; note"
			}
			sb.WriteString(line + "\n")
		}
		sb.WriteString("\n")
	}
	return sb.String()
}

var c18Names = []string{"main.journal", ".hledger.journal", "a.journal", "b.journal", "c.journal", "2024.journal",
	"x.j", "y.hledger", "z.ledger", "decl.dat", "accounts.txt"}

// c18Workspace draws 1..3 files, an include graph, declarations placed in the current file, an
// included file, a workspace-only file, or nowhere.
func c18Workspace(c *Ctx) c18WS {
	r := c.R
	n := 1 + r.IntN(3)
	perm := r.Perm(len(c18Names))
	var ws c18WS
	names := make([]string, n)
	for i := 0; i < n; i++ {
		names[i] = c18Names[perm[i]]
		if r.IntN(3) == 0 && i == 0 {
			names[i] = "main.journal"
		}
	}
	// no duplicate names
	seenN := map[string]bool{}
	for i := range names {
		for seenN[names[i]] {
			names[i] = c18Pick(r, c18Names)
		}
		seenN[names[i]] = true
	}
	ws.Cur = r.IntN(n)
	// include graph: mostly forests / chains, sometimes arbitrary (cycles allowed)
	switch g := r.IntN(10); {
	case n == 1:
	case g < 2: // no includes at all: siblings
	case g < 8: // random DAG along a random order
		ord := r.Perm(n)
		for a := 0; a < n; a++ {
			for b := a + 1; b < n; b++ {
				if r.IntN(3) != 0 {
					ws.Edges = append(ws.Edges, [2]int{ord[a], ord[b]})
				}
			}
		}
	default: // arbitrary edges
		for a := 0; a < n; a++ {
			for b := 0; b < n; b++ {
				if a != b && r.IntN(3) == 0 {
					ws.Edges = append(ws.Edges, [2]int{a, b})
				}
			}
		}
	}
	if len(ws.Edges) > 0 && r.IntN(2) == 0 { // prefer a current file that includes something
		ws.Cur = ws.Edges[r.IntN(len(ws.Edges))][0]
	}
	// declarations: a universe for the case, each name placed in one file or nowhere
	mode := r.IntN(8) // 0: nothing declared anywhere
	var allAcc, allCom []string
	declAcc := make([][]string, n)
	declCom := make([][]string, n)
	if mode != 0 {
		na, nc := r.IntN(4), r.IntN(3)
		if mode == 1 {
			nc = 0
		}
		if mode == 2 {
			na = 0
		}
		one := -1
		if mode >= 5 { // all declarations in one file
			one = r.IntN(n)
		}
		for i := 0; i < na; i++ {
			a := c18Pick(r, c18DeclPool)
			f := one
			if f < 0 {
				f = r.IntN(n)
			}
			allAcc = append(allAcc, a)
			declAcc[f] = append(declAcc[f], a)
		}
		for i := 0; i < nc; i++ {
			s := c18Pick(r, c18Coms)
			f := one
			if f < 0 {
				f = r.IntN(n)
			}
			allCom = append(allCom, s)
			declCom[f] = append(declCom[f], s)
		}
	}
	coms := []string{c18Pick(r, c18Coms), c18Pick(r, c18Coms), c18Pick(r, c18Coms)}
	coms = append(coms, allCom...)
	for i := 0; i < n; i++ {
		var incs []string
		for _, e := range ws.Edges {
			if e[0] == i {
				incs = append(incs, names[e[1]])
			}
		}
		if r.IntN(25) == 0 {
			incs = append(incs, "missing.journal") // dangling include: an error diagnostic without code
		}
		ntx := r.IntN(3)
		if i == ws.Cur {
			ntx = 1 + r.IntN(3)
		}
		ws.Files = append(ws.Files, c18File{Name: names[i],
			Text: c18Journal(c, declAcc[i], declCom[i], incs, allAcc, coms, ntx)})
	}
	// where do the declarations live, seen from the current file?
	reach := map[int]bool{}
	for _, j := range c18Reach(n, ws.Edges, ws.Cur) {
		reach[j] = true
	}
	any := false
	for i := 0; i < n; i++ {
		if len(declAcc[i])+len(declCom[i]) == 0 {
			continue
		}
		any = true
		switch {
		case i == ws.Cur:
			c.Count("decl.inCurrent")
		case reach[i]:
			c.Count("decl.inIncluded")
		default:
			c.Count("decl.inSiblingOrParent")
		}
	}
	if !any {
		c.Count("decl.nowhere")
	}
	return ws
}

func genC18(c *Ctx) {
	os.Unsetenv("LEDGER_FILE")
	os.Unsetenv("HLEDGER_JOURNAL")
	r := c.R
	c.Emit("c18.lower", c18LowerCase(c))
	for i := 0; i < c.N(1500, 30000); i++ {
		c.Emit("c18.rule", genC18Rule(c))
	}
	// per-journal rule
	for i := 0; i < c.N(2500, 40000); i++ {
		var own, ext []string
		for k := r.IntN(4); k > 0; k-- {
			own = append(own, c18Pick(r, c18DeclPool))
		}
		for k := r.IntN(3); k > 0; k-- {
			ext = append(ext, c18Pick(r, c18DeclPool))
		}
		var ownC, extC []string
		for k := r.IntN(3); k > 0; k-- {
			ownC = append(ownC, c18Pick(r, c18Coms))
		}
		for k := r.IntN(3); k > 0; k-- {
			extC = append(extC, c18Pick(r, c18Coms))
		}
		all := append(append([]string{}, own...), ext...)
		if r.IntN(3) == 0 { // names nobody declares in this case, to draw accounts from
			all = append(all, c18Pick(r, c18DeclPool))
		}
		coms := append([]string{c18Pick(r, c18Coms), c18Pick(r, c18Coms)}, append(ownC, extC...)...)
		text := c18Journal(c, own, ownC, nil, all, coms, 1+r.IntN(3))
		if _, errs := hxParse(text); len(errs) > 0 {
			c.Count("analyze.textWithParseError")
		}
		var ea, ec []string
		switch r.IntN(5) {
		case 0: // plain Analyze
			c.Count("analyze.noExternal")
		case 1: // empty non-nil maps
			ea, ec = []string{}, []string{}
			c.Count("analyze.emptyExternal")
		default:
			ea, ec = ext, extC
			if ea == nil {
				ea = []string{}
			}
			for j := range ec { // external symbols as the parser stores them (quotes stripped)
				ec[j] = strings.Trim(ec[j], "\"")
			}
			c.Count("analyze.external")
		}
		c.Emit("c18.analyze", c18AnalyzeCase(text, ea, ec))
	}
	// histories on one server (caches must not be observable)
	for i := 0; i < c.N(700, 12000); i++ {
		genC18Hist(c)
	}
	// server level
	for i := 0; i < c.N(350, 4000); i++ {
		ws := c18Workspace(c)
		c.Count(fmt.Sprintf("ws.files%d", len(ws.Files)))
		for _, f := range ws.Files {
			if _, errs := hxParse(f.Text); len(errs) > 0 {
				c.Count("ws.fileWithParseError")
			}
		}
		for _, hasRoot := range []bool{false, true} {
			for s := 0; s < 8; s++ {
				set := [3]bool{s&1 != 0, s&2 != 0, s&4 != 0}
				c.Emit("c18.server", c18ServerCase(c, ws, hasRoot, set))
			}
		}
	}
}
