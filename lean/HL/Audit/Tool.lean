import Lean
open Lean Elab Command

/-- `#audit HL.Props.C01` prints one JSON line per theorem declared in that namespace:
    its name, whether it is a counterexample / partial theorem (by name), and the axioms it
    depends on.  The orchestrator fails the proof step if any axiom is outside
    {propext, Classical.choice, Quot.sound} or if `sorryAx` appears. -/
elab "#audit " ns:ident : command => do
  let env ← getEnv
  let nsName := ns.getId
  let mut names : Array Name := #[]
  for (n, ci) in env.constants.toList do
    if (nsName.toString).isPrefixOf n.toString && !n.isInternal then
      match ci with
      | .thmInfo _ =>
        let last := n.getString!
        if !(last.startsWith "eq_" || last.startsWith "match_" || last.startsWith "proof_"
             || last.startsWith "_" || last == "sizeOf_spec" || last == "inj" || last == "injEq"
             || last == "ofNat_ctorIdx" || last == "noConfusion") then
          names := names.push n
      | _ => pure ()
  let sorted := names.qsort (fun a b => a.toString < b.toString)
  for n in sorted do
    let axs ← liftCoreM (Lean.collectAxioms n)
    let axs := axs.qsort (fun a b => a.toString < b.toString)
    let j := Json.mkObj [("theorem", n.toString), ("axioms", Json.arr (axs.map fun a => Json.str a.toString))]
    IO.println s!"AUDIT {j.compress}"
