/-
  Root selection: the model's `findRootJournal` (with `buildIncludeGraph`'s reverse graph)
  selects the root the specification's `rootOf` describes.
-/
import HL.Lemmas.Init
namespace HL.Lemmas.Root
open HL.Index HL.Workspace HL.Lemmas.AList HL.Lemmas.WsInv HL.Lemmas.Init HL.Spec.Rebuild

theorem mem_rev_inner (f : String) (l : List String) (w : WS) (q x : String) :
    x ∈ (l.foldl (fun (w : WS) inc =>
        { w with incG := w.incG.set f (w.incG.getD f [] ++ [inc])
                 revG := w.revG.set inc (w.revG.getD inc [] ++ [f]) }) w).revG.getD q [] ↔
      (x ∈ w.revG.getD q [] ∨ (x = f ∧ q ∈ l)) := by
  induction l generalizing w with
  | nil => simp
  | cons a l ih =>
    simp only [List.foldl_cons]
    rw [ih]
    simp only [getD_set, List.mem_cons]
    by_cases e : a = q
    · subst e
      simp only [if_true, List.mem_append, List.mem_singleton, true_or, and_true]
      constructor
      · rintro ((h | h) | h)
        · exact Or.inl h
        · exact Or.inr h
        · exact Or.inr h.1
      · rintro (h | h)
        · exact Or.inl (Or.inl h)
        · exact Or.inl (Or.inr h)
    · have e' : ¬ q = a := fun h => e h.symm
      simp [e, e']

theorem mem_rev_build (fs : FS) : ∀ (files : List String) (w : WS) (q x : String),
    x ∈ (buildIncludeGraph fs files w).revG.getD q [] ↔
      (x ∈ w.revG.getD q [] ∨ (x ∈ files ∧ ∃ c, fs.get x = some c ∧ q ∈ c.incs)) := by
  intro files
  induction files with
  | nil => intro w q x; simp [buildIncludeGraph]
  | cons f r ih =>
    intro w q x
    have hstep : buildIncludeGraph fs (f :: r) w = buildIncludeGraph fs r
        (match fs.get f with
         | none => w
         | some c => c.incs.foldl (fun (w : WS) inc =>
            { w with incG := w.incG.set f (w.incG.getD f [] ++ [inc])
                     revG := w.revG.set inc (w.revG.getD inc [] ++ [f]) }) w) := rfl
    rw [hstep, ih]
    cases hg : fs.get f with
    | none =>
      simp only [List.mem_cons]
      constructor
      · rintro (h | ⟨h1, h2⟩)
        · exact Or.inl h
        · exact Or.inr ⟨Or.inr h1, h2⟩
      · rintro (h | ⟨h1 | h1, c, h2, h3⟩)
        · exact Or.inl h
        · subst h1; rw [hg] at h2; simp at h2
        · exact Or.inr ⟨h1, c, h2, h3⟩
    | some c =>
      simp only [mem_rev_inner, List.mem_cons]
      constructor
      · rintro ((h | ⟨h1, h2⟩) | ⟨h1, h2⟩)
        · exact Or.inl h
        · exact Or.inr ⟨Or.inl h1, c, h1 ▸ hg, h2⟩
        · exact Or.inr ⟨Or.inr h1, h2⟩
      · rintro (h | ⟨h1 | h1, c', h2, h3⟩)
        · exact Or.inl (Or.inl h)
        · subst h1
          rw [hg] at h2
          simp only [Option.some.injEq] at h2
          exact Or.inl (Or.inr ⟨rfl, h2 ▸ h3⟩)
        · exact Or.inr ⟨h1, c', h2, h3⟩

theorem sorted_filter (l : List String) (p : String → Bool) (h : l.Pairwise (· ≤ ·)) :
    isort (l.filter p) = l.filter p :=
  isort_eq_of_sorted _ _ (List.Perm.refl _) (List.Pairwise.filter _ h)

/-- the model's root selection is the specification's -/
theorem rootSel_eq_rootOf (fs : FS) (hn : fs.keys.Nodup) : rootSel fs = rootOf fs := by
  unfold rootSel findRootJournal rootOf
  by_cases h1 : (fs.get "main.journal").isSome
  · simp [h1]
  · by_cases h2 : (fs.get ".hledger.journal").isSome
    · simp [h1, h2]
    · simp only [h1, h2, Bool.false_eq_true, if_false]
      unfold findRootByIncludeGraph journalFiles
      have hcand : ∀ f, ((buildIncludeGraph fs (isort fs.keys) {}).revG.getD f []).isEmpty =
          !(fs.any fun e => f ∈ e.2.incs) := by
        intro f
        rw [Bool.eq_iff_iff]
        simp only [List.isEmpty_iff, Bool.not_eq_true', List.any_eq_false, decide_eq_true_eq]
        constructor
        · intro hnil e he hf
          have : e.1 ∈ (buildIncludeGraph fs (isort fs.keys) {}).revG.getD f [] :=
            (mem_rev_build fs _ _ f e.1).mpr (Or.inr ⟨(mem_isort _ _).mpr (List.mem_map.mpr ⟨e, he, rfl⟩),
              e.2, mem_get_of_nodup fs e.1 e.2 hn he, hf⟩)
          rw [hnil] at this; simp at this
        · intro hno
          apply List.eq_nil_iff_forall_not_mem.mpr
          intro x hx
          rcases (mem_rev_build fs _ _ f x).mp hx with h | ⟨_, c, hc, hf⟩
          · simp [AList.getD] at h
          · exact hno (x, c) (get_mem fs x c hc) hf
      cases hf : isort fs.keys with
      | nil => simp
      | cons f0 rest =>
        simp only
        have hs : (f0 :: rest).Pairwise (· ≤ ·) := hf ▸ isort_sorted fs.keys
        rw [sorted_filter _ _ hs]
        have heq : List.filter (fun f => ((buildIncludeGraph fs (f0 :: rest) {}).revG.getD f []).isEmpty) (f0 :: rest)
            = List.filter (fun f => !(fs.any fun e => f ∈ e.2.incs)) (f0 :: rest) := by
          apply List.filter_congr
          intro x _
          rw [← hf]; exact hcand x
        rw [heq]
        cases List.filter (fun f => !(fs.any fun e => f ∈ e.2.incs)) (f0 :: rest) with
        | nil => simp
        | cons c cs => simp

end HL.Lemmas.Root
