import HL.Lemmas.LexExt
import HL.Lemmas.LexTrim
/-!
  Lines: no scan function other than `scanNewline` consumes a line feed, and `scanNewline`
  consumes exactly one (`next_step`).  So every LF byte becomes exactly one Newline token, the
  line counter is 1 + the number of line feeds consumed, and what lies between two tokens is
  blanks only.
-/
namespace HL.Lex
open HL HL.Utf8 HL.Spec.LexSpec

local notation "LF" => (0x0A : UInt8)

/-- `z'` is reached from `z` by consuming bytes none of which is a line feed; same line. -/
def AdvNL (z z' : Z) : Prop :=
  ∃ pre, z.after = pre ++ z'.after ∧ z'.before = pre.reverse ++ z.before ∧ LF ∉ pre ∧ z'.line = z.line

theorem AdvNL.refl (z : Z) : AdvNL z z := ⟨[], by simp, by simp, by simp, rfl⟩

theorem AdvNL.trans {a b c : Z} (h1 : AdvNL a b) (h2 : AdvNL b c) : AdvNL a c := by
  obtain ⟨p, h1a, h1b, h1c, h1d⟩ := h1
  obtain ⟨q, h2a, h2b, h2c, h2d⟩ := h2
  exact ⟨p ++ q, by simp [h1a, h2a], by simp [h1b, h2b], by simp [h1c, h2c], by rw [h2d, h1d]⟩

theorem AdvNL.congr {a b b' : Z} (h : AdvNL a b) (hb : b'.before = b.before) (ha : b'.after = b.after)
    (hl : b'.line = b.line) : AdvNL a b' := by
  obtain ⟨p, h1, h2, h3, h4⟩ := h
  exact ⟨p, by rw [ha]; exact h1, by rw [hb]; exact h2, h3, by rw [hl]; exact h4⟩

theorem bump_nl {z : Z} {b : UInt8} {t : Bytes} (hz : z.after = b :: t) (hb : b ≠ LF) :
    AdvNL z (z.bump (decodeRune (b :: t)).2) :=
  ⟨z.after.take (decodeRune (b :: t)).2, by simp [Z.bump], by simp [Z.bump],
    by rw [hz]; exact decodeRune_take_noLF b t hb, rfl⟩

theorem advance_nl {z : Z} (hp : peek z ≠ LF) : AdvNL z (advance z) := by
  unfold advance
  split
  · exact AdvNL.refl z
  · rename_i b t hz
    exact bump_nl hz (by simpa [peek, hz] using hp)

theorem advWhileF_nl (p : UInt8 → Bool) (hp : p LF = false) (n : Nat) (z : Z) :
    AdvNL z (advWhileF p n z) := by
  induction n generalizing z with
  | zero => exact AdvNL.refl z
  | succ n ih =>
    unfold advWhileF
    split
    · exact AdvNL.refl z
    · rename_i b t hz
      split
      · rename_i hpb
        have hc : peek z ≠ LF := by
          intro e
          simp [peek, hz] at e
          rw [e, hp] at hpb
          exact absurd hpb (by simp)
        exact (advance_nl hc).trans (ih _)
      · exact AdvNL.refl z

theorem advWhile_nl (p : UInt8 → Bool) (hp : p LF = false) (z : Z) : AdvNL z (advWhile p z) :=
  advWhileF_nl p hp _ z

theorem advLineF_nl (p : UInt8 → Bool) (n : Nat) (z : Z) : AdvNL z (advLineF p n z) := by
  induction n generalizing z with
  | zero => exact AdvNL.refl z
  | succ n ih =>
    unfold advLineF
    split
    · exact AdvNL.refl z
    · rename_i b t hz
      split
      · rename_i hpb
        have hc : peek z ≠ LF := by
          simp only [Bool.and_eq_true, Bool.not_eq_true'] at hpb
          simpa [peek, hz] using atEol_ne_lf hpb.2
        exact (advance_nl hc).trans (ih _)
      · exact AdvNL.refl z

theorem advLine_nl (p : UInt8 → Bool) (z : Z) : AdvNL z (advLine p z) := advLineF_nl p _ z

theorem advIf_nl (p : UInt8 → Bool) (hp : p LF = false) (z : Z) : AdvNL z (advIf p z) := by
  unfold advIf
  split
  · exact AdvNL.refl z
  · rename_i b t hz
    split
    · rename_i hpb
      have hc : peek z ≠ LF := by
        intro e
        simp [peek, hz] at e
        rw [e, hp] at hpb
        exact absurd hpb (by simp)
      exact advance_nl hc
    · exact AdvNL.refl z

theorem scanAccountF_nl (n : Nat) (z l : Z) : AdvNL z (scanAccountF n z l).1 := by
  induction n generalizing z l with
  | zero => exact AdvNL.refl z
  | succ n ih =>
    unfold scanAccountF
    split
    · exact AdvNL.refl z
    · rename_i b t hz
      by_cases hb : b = LF
      · subst hb
        simp only [decodeRune_lf]
        simp [isAccountTerminator]
        exact AdvNL.refl z
      · have hbump := bump_nl hz hb
        simp only []
        split
        · split
          · exact AdvNL.refl z
          · exact hbump.trans (ih _ _)
        · split
          · exact AdvNL.refl z
          · exact hbump.trans (ih _ _)

/-- the state at `lastNonSpace` is reached without a line feed too -/
theorem scanAccountF_nl_last (n : Nat) (z0 z l : Z) (hl : AdvNL z0 l) (hz : AdvNL z0 z) :
    AdvNL z0 (scanAccountF n z l).2 := by
  induction n generalizing z l with
  | zero => exact hl
  | succ n ih =>
    unfold scanAccountF
    split
    · exact hl
    · rename_i b t hzz
      by_cases hb : b = LF
      · subst hb
        simp only [decodeRune_lf]
        simp [isAccountTerminator]
        exact hl
      · have hbump := hz.trans (bump_nl hzz hb)
        simp only []
        split
        · split
          · exact hl
          · exact ih _ _ hl hbump
        · split
          · exact hl
          · exact ih _ _ hbump hbump

theorem scanNumberF_nl (n : Nat) (z : Z) (hd : Bool) : AdvNL z (scanNumberF n z hd) := by
  induction n generalizing z hd with
  | zero => exact AdvNL.refl z
  | succ n ih =>
    unfold scanNumberF
    split
    · exact AdvNL.refl z
    · rename_i ch rest hz
      by_cases hc : ch = LF
      · subst hc
        simp [isDigit]
        exact AdvNL.refl z
      · have ha : AdvNL z (advance z) := advance_nl (by simpa [peek, hz] using hc)
        have hi := advIf_nl isSign (by decide) (advance z)
        repeat' split
        all_goals first
          | exact AdvNL.refl z
          | exact ha.trans (ih _ _)
          | exact (ha.trans hi).trans (ih _ _)

/-! ### tokens that start where the lexer stands and stay on the line -/

/-- the bytes a scan consumed behind the End of its token -/
def gapBehind (r : Token × Z) : Bytes := (r.2.before.take (r.2.before.length - r.1.stop.off)).reverse

/-- What a scan may consume behind the End of its token: behind an account name one blank
    (`scanAccount` steps over a single blank and then meets a terminator or the end of the
    input), behind a text a run of white space (the value is trimmed and the token ends with
    it), otherwise nothing — the token ends where the lexer stands. -/
def TailOk (ty : TokType) (tl : Bytes) : Prop :=
  if ty = .text then wsOnly tl = true
  else if ty = .account then tl = [] ∨ tl = [0x20]
  else tl = []

/-- Where a token that is not a Newline token ends: on its line, at or behind its start, at or
    before the position the lexer is left in, with only `TailOk` bytes between; every token but
    an account or a text token ends exactly where the lexer is left (line, column, offset). -/
structure TokStop (r : Token × Z) : Prop where
  line : r.1.stop.line = r.1.pos.line
  ge : r.1.pos.off ≤ r.1.stop.off
  le : r.1.stop.off ≤ r.2.before.length
  tail : TailOk r.1.ty (gapBehind r)
  eq : r.1.ty ≠ .account → r.1.ty ≠ .text → r.1.stop = r.2.position

structure NL (z : Z) (r : Token × Z) : Prop where
  adv : AdvNL z r.2
  pos : r.1.pos = z.position
  ty : r.1.ty ≠ .newline
  stop : TokStop r

theorem tailOk_nil (ty : TokType) : TailOk ty [] := by
  unfold TailOk
  split
  · exact wsOnly_nil
  · split
    · exact Or.inl rfl
    · rfl

theorem AdvNL.adv {z e : Z} (h : AdvNL z e) : Adv z e := by
  obtain ⟨p, h1, h2, _, _⟩ := h
  exact ⟨p, h1, h2⟩

theorem mkTok_nl {z e : Z} (ty : TokType) (v : Bytes) (he : AdvNL z e) (hty : ty ≠ .newline) :
    NL z (mkTok ty v z e) := by
  obtain ⟨_, _, _, _, hl⟩ := id he
  refine ⟨he, rfl, hty, hl, he.adv.before_le, Nat.le_refl _, ?_, fun _ _ => rfl⟩
  simp only [gapBehind, mkTok, Z.position, Nat.sub_self, List.take_zero, List.reverse_nil]
  exact tailOk_nil ty

theorem scanDate_nl (z : Z) : NL z (scanDate z) :=
  mkTok_nl _ _ (advWhile_nl _ (by decide) z) (by decide)
theorem scanIndent_nl (z : Z) : NL z (scanIndent z) :=
  mkTok_nl _ _ (advLine_nl _ z) (by decide)
/-- the bytes between a position `p` inside `scanned = between z e` and `e` -/
theorem take_before_drop {z e : Z} (h : Adv z e) (k : Nat) :
    (e.before.take (e.before.length - (z.before.length + k))).reverse = (between z e).drop k := by
  have hle := h.before_le
  simp only [between]
  rw [List.drop_reverse, List.length_take, List.take_take]
  congr 2
  omega

theorem scanText_nl (z : Z) : NL z (scanText z) := by
  have ha := advLine_nl (fun ch => !(ch == 0x3B || ch == 0x7C)) z
  have hb := textStop_bounds ha.adv
  obtain ⟨_, _, _, _, hl⟩ := id ha
  refine ⟨ha, rfl, (by simp [scanText, mkTokAt]), ?_, hb.1, hb.2.1, ?_, fun _ h => absurd rfl h⟩
  · simp only [scanText, mkTokAt, textStop, Z.position]
    split
    · exact hl
    · rfl
  · simp only [scanText, mkTokAt, gapBehind, TailOk, if_true]
    generalize advLine (fun ch => !(ch == 0x3B || ch == 0x7C)) z = e at ha hb ⊢
    unfold textStop
    simp only []
    split
    · simp [Z.position, wsOnly_nil]
    · obtain ⟨tl, h1, h2, _⟩ := trimRightFunc_spec (between z e)
      simp only []
      rw [take_before_drop ha.adv]
      have : (between z e).drop (trimRightFunc (between z e)).length = tl := by
        conv => lhs; arg 2; rw [h1]
        rw [List.drop_left]
      rw [this]
      exact h2
theorem scanStatus_nl {z : Z} (hp : peek z ≠ LF) : NL z (scanStatus z) :=
  mkTok_nl _ _ (advance_nl hp) (by decide)
theorem scanSign_nl {z : Z} (hp : peek z ≠ LF) : NL z (scanSign z) :=
  mkTok_nl _ _ (advance_nl hp) (by decide)
theorem scanCode_nl {z : Z} (hp : peek z ≠ LF) : NL z (scanCode z) :=
  mkTok_nl _ _ (((advance_nl hp).trans (advLine_nl _ _)).trans (advIf_nl _ (by decide) _)) (by decide)
theorem scanQuotedCommodity_nl {z : Z} (hp : peek z ≠ LF) : NL z (scanQuotedCommodity z) :=
  mkTok_nl _ _ (((advance_nl hp).trans (advLine_nl _ _)).trans (advIf_nl _ (by decide) _)) (by decide)
theorem scanComment_nl {z : Z} (hp : peek z ≠ LF) : NL z (scanComment z) :=
  mkTok_nl _ _ ((advance_nl hp).trans (advLine_nl _ _)) (by decide)

theorem advance_nl_of_headIs {z : Z} {c : UInt8} (hc : c ≠ LF) (h : headIs c z.after = true) :
    AdvNL z (advance z) := by
  apply advance_nl
  cases hz : z.after with
  | nil => simp [hz, headIs] at h
  | cons b t =>
    simp only [hz, headIs, beq_iff_eq] at h
    simp [peek, hz, h, hc]

theorem scanAt_nl {z : Z} (hp : peek z ≠ LF) : NL z (scanAt z) := by
  unfold scanAt
  simp only []
  split
  · rename_i h
    exact mkTok_nl _ _ ((advance_nl hp).trans (advance_nl_of_headIs (by decide) h)) (by decide)
  · exact mkTok_nl _ _ (advance_nl hp) (by decide)

theorem scanEquals_nl {z : Z} (hp : peek z ≠ LF) : NL z (scanEquals z) := by
  unfold scanEquals
  simp only []
  split
  · rename_i h
    exact mkTok_nl _ _ ((advance_nl hp).trans (advance_nl_of_headIs (by decide) h)) (by decide)
  · exact mkTok_nl _ _ (advance_nl hp) (by decide)

theorem scanCurrencySymbol_nl {z : Z} {b : UInt8} {t : Bytes} (hz : z.after = b :: t) (hb : b ≠ LF) :
    NL z (scanCurrencySymbol z) := by
  unfold scanCurrencySymbol
  rw [hz]
  exact mkTok_nl _ _ (bump_nl hz hb) (by decide)

theorem scanNumber_nl (z : Z) : NL z (scanNumber z) :=
  mkTok_nl _ _ (scanNumberF_nl _ z false) (by decide)

theorem scanAccount_nl (z : Z) : NL z (scanAccount z) := by
  have ha := scanAccountF_nl z.after.length z z
  have hadv := scanAccountF_adv z.after.length z z (Adv.refl z)
  have htl := scanAccountF_tail z.after.length z z [] (by simp) (Or.inl rfl)
  obtain ⟨_, _, _, _, hl⟩ := id ha
  obtain ⟨pl, _, hpl, hnl, hll⟩ := scanAccountF_nl_last z.after.length z z z (AdvNL.refl z) (AdvNL.refl z)
  refine ⟨ha, rfl, (by simp [scanAccount, mkTokAt]), hll, hadv.2.1.before_le, hadv.2.2.before_le, ?_,
    fun h _ => absurd rfl h⟩
  simp only [scanAccount, mkTokAt, gapBehind, TailOk, Z.position]
  rw [if_neg (by decide), if_pos trivial]
  exact htl

theorem scanDirectiveOrAccount_nl (z : Z) : NL z (scanDirectiveOrAccount z) := by
  unfold scanDirectiveOrAccount
  simp only []
  split
  · exact mkTok_nl _ _ (advWhile_nl _ (by decide) z) (by decide)
  · split
    · exact scanAccount_nl z
    · exact scanText_nl z

theorem scanCommodityOrText_nl (C : Classes) (z : Z) : NL z (scanCommodityOrText C z) := by
  unfold scanCommodityOrText
  simp only []
  have h1 := advWhile_nl isLetter (by decide) z
  split
  · exact mkTok_nl _ _ h1 (by decide)
  · split
    · exact mkTok_nl _ _ (h1.trans (advWhile_nl _ (by decide) _)) (by decide)
    · exact scanText_nl z

/-! ### one call of `Next`, classified -/

theorem advance_ascii {z : Z} {b : UInt8} {t : Bytes} (hz : z.after = b :: t) (hb : b < 0x80) :
    advance z = { z with before := b :: z.before, after := t, col := z.col + 1 } := by
  unfold advance
  simp [hz, decodeRune, hb, Z.bump]

theorem isBlank_lt {b : UInt8} (h : isBlank b = true) : b < 0x80 := by
  simp only [isBlank, Bool.or_eq_true, beq_iff_eq] at h
  rcases h with rfl | rfl <;> decide

/-- `skipSpaces` consumes blanks and tabs only. -/
theorem advWhileF_spaces (n : Nat) (z : Z) :
    ∃ sp, (∀ c ∈ sp, isBlank c = true) ∧ z.after = sp ++ (advWhileF isBlank n z).after ∧
      (advWhileF isBlank n z).before = sp.reverse ++ z.before ∧
      (advWhileF isBlank n z).line = z.line := by
  induction n generalizing z with
  | zero => exact ⟨[], by simp, by simp [advWhileF], by simp [advWhileF], rfl⟩
  | succ n ih =>
    unfold advWhileF
    split
    · rename_i hz
      exact ⟨[], by simp, by simp, by simp, rfl⟩
    · rename_i b t hz
      split
      · rename_i hb
        rw [advance_ascii hz (isBlank_lt hb)]
        obtain ⟨sp, h1, h2, h3, h4⟩ := ih ({ z with before := b :: z.before, after := t, col := z.col + 1 })
        refine ⟨b :: sp, ?_, ?_, ?_, h4⟩
        · intro c hc
          rcases List.mem_cons.mp hc with rfl | hc
          · exact hb
          · exact h1 c hc
        · rw [hz]
          simp only [List.cons_append]
          congr 1
        · rw [h3]; simp
      · exact ⟨[], by simp, by simp, by simp, rfl⟩

theorem skipSpaces_spec (z : Z) :
    ∃ sp, (∀ c ∈ sp, isBlank c = true) ∧ z.after = sp ++ (skipSpaces z).after ∧
      (skipSpaces z).before = sp.reverse ++ z.before ∧ (skipSpaces z).line = z.line :=
  advWhileF_spaces _ z

/-- What one call of `Next` does: it skips blanks `sp` and then either
    * `tok`: returns a token that starts right behind the blanks/tabs and covers `pre`, which
      contains no line feed (the EOF token at the end of input is the case `pre = []`), or
    * `newline`: consumes exactly one line end — a line feed, or a carriage return and the
      line feed behind it (`cr = [CR]`) —, returns the Newline token for it (which starts at
      the carriage return if there is one) and moves to column 1 of the next line. -/
inductive Step (z : Z) (r : Token × Z) : Prop
  | tok (sp pre : Bytes) (hsp : ∀ c ∈ sp, isBlank c = true) (hpre : LF ∉ pre)
      (hafter : z.after = sp ++ pre ++ r.2.after)
      (hbefore : r.2.before = pre.reverse ++ sp.reverse ++ z.before)
      (hline : r.2.line = z.line) (hty : r.1.ty ≠ .newline)
      (hpl : r.1.pos.line = z.line) (hpo : r.1.pos.off = z.before.length + sp.length)
      (hstop : TokStop r) : Step z r
  | newline (sp cr : Bytes) (hsp : ∀ c ∈ sp, isBlank c = true) (hcr : cr = [] ∨ cr = [0x0D])
      (hafter : z.after = sp ++ cr ++ LF :: r.2.after)
      (hbefore : r.2.before = LF :: cr.reverse ++ sp.reverse ++ z.before)
      (hline : r.2.line = z.line + 1) (hcol : r.2.col = 1) (hstart : r.2.atStart = true)
      (hty : r.1.ty = .newline) (hpl : r.1.pos.line = z.line)
      (hpo : r.1.pos.off = z.before.length + sp.length) (hstop : r.1.stop = r.2.position) : Step z r

/-- a token that starts at `z` itself -/
theorem Step.of_nl {z : Z} {r : Token × Z} (h : NL z r) : Step z r := by
  obtain ⟨pre, h1, h2, h3, h4⟩ := h.adv
  exact Step.tok [] pre (by simp) h3 (by simpa using h1) (by simpa using h2) h4 h.ty
    (by rw [h.pos]; rfl) (by rw [h.pos]; simp [Z.position]) h.stop

/-- prefix blanks skipped before the step proper -/
theorem Step.skip {z0 z : Z} {r : Token × Z} (sp : Bytes) (hsp : ∀ c ∈ sp, isBlank c = true)
    (ha : z0.after = sp ++ z.after) (hb : z.before = sp.reverse ++ z0.before) (hl : z.line = z0.line)
    (h : Step z r) (hz : ∀ c t, z.after = c :: t → isBlank c ≠ true) : Step z0 r := by
  cases h with
  | tok sp' pre hsp' hpre hafter hbefore hline hty hpl hpo hstop =>
    -- behind `skipSpaces` no further blanks are skipped
    cases sp' with
    | nil =>
      refine Step.tok sp pre hsp hpre ?_ ?_ (by rw [hline, hl]) hty (by rw [hpl, hl]) ?_ hstop
      · rw [ha, hafter]; simp
      · rw [hbefore, hb]; simp
      · rw [hpo, hb]; simp; omega
    | cons c t =>
      have hc : isBlank c = true := hsp' c (by simp)
      exact absurd hc (hz c (t ++ (pre ++ r.2.after)) (by rw [hafter]; simp))
  | newline sp' cr hsp' hcr hafter hbefore hline hcol hstart hty hpl hpo hstop =>
    cases sp' with
    | nil =>
      refine Step.newline sp cr hsp hcr ?_ ?_ (by rw [hline, hl]) hcol hstart hty (by rw [hpl, hl]) ?_ hstop
      · rw [ha, hafter]; simp
      · rw [hbefore, hb]; simp
      · rw [hpo, hb]; simp; omega
    | cons d t =>
      have hd : isBlank d = true := hsp' d (by simp)
      exact absurd hd (hz d (t ++ cr ++ LF :: r.2.after) (by rw [hafter]; simp))

theorem punct_nl (ty : TokType) (v : Bytes) {z : Z} (hp : peek z ≠ LF) (hty : ty ≠ .newline) :
    NL z (punct ty v z) :=
  mkTok_nl _ _ (advance_nl hp) hty

theorem scanNewline_step {z : Z} (he : atEol z.after = true) : Step z (scanNewline z) := by
  unfold scanNewline
  simp only []
  rcases atEol_cases he with ⟨t, hz⟩ | ⟨t, hz⟩
  · have h0 : advIf (· == 0x0D) z = z := by simp [advIf, hz]
    rw [h0, advance_ascii hz (by decide)]
    exact Step.newline [] [] (by simp) (Or.inl rfl) (by simpa [mkTok] using hz) (by simp [mkTok]) rfl rfl rfl
      rfl rfl (by simp [mkTok, Z.position]) rfl
  · have h0 : advIf (· == 0x0D) z = { z with before := 0x0D :: z.before, after := LF :: t, col := z.col + 1 } := by
      simp only [advIf, hz, beq_self_eq_true, if_true]
      exact advance_ascii hz (by decide)
    rw [h0, advance_ascii (z := { z with before := 0x0D :: z.before, after := LF :: t, col := z.col + 1 }) rfl
      (by decide)]
    exact Step.newline [] [0x0D] (by simp) (Or.inr rfl) (by simpa [mkTok] using hz) (by simp [mkTok]) rfl rfl
      rfl rfl rfl (by simp [mkTok, Z.position]) rfl

theorem step_ite {c : Prop} [Decidable c] {z : Z} {a b : Token × Z}
    (ha : c → Step z a) (hb : ¬c → Step z b) : Step z (if c then a else b) := by
  split
  · exact ha ‹_›
  · exact hb ‹_›

theorem Step.congr {z z' : Z} {r : Token × Z} (ha : z'.after = z.after) (hb : z'.before = z.before)
    (hl : z'.line = z.line) (h : Step z r) : Step z' r := by
  cases h with
  | tok sp pre hsp hpre hafter hbefore hline hty hpl hpo hstop =>
    exact Step.tok sp pre hsp hpre (by rw [ha]; exact hafter) (by rw [hb]; exact hbefore)
      (by rw [hl]; exact hline) hty (by rw [hl]; exact hpl) (by rw [hb]; exact hpo) hstop
  | newline sp cr hsp hcr hafter hbefore hline hcol hstart hty hpl hpo hstop =>
    exact Step.newline sp cr hsp hcr (by rw [ha]; exact hafter) (by rw [hb]; exact hbefore)
      (by rw [hl]; exact hline) hcol hstart hty (by rw [hl]; exact hpl) (by rw [hb]; exact hpo) hstop

theorem nl_ite {c : Prop} [Decidable c] {z : Z} {a b : Token × Z}
    (ha : c → NL z a) (hb : ¬c → NL z b) : NL z (if c then a else b) := by
  split
  · exact ha ‹_›
  · exact hb ‹_›

/-- where the lexer does not stand at a line end (and input is left), `scanInLineAt` returns a
    token that starts right there, stays on the line and is not a Newline token -/
theorem scanInLineAt_nl (C : Classes) {z : Z} {ch : UInt8} {t : Bytes} (hz : z.after = ch :: t)
    (c1 : ¬ atEol (ch :: t) = true) : NL z (scanInLineAt C z) := by
  unfold scanInLineAt
  simp only [hz]
  rw [if_neg c1]
  have hc : ch ≠ LF := atEol_ne_lf (by simpa using c1)
  have hp : peek z ≠ LF := by simpa [peek, hz] using hc
  refine nl_ite (fun _ => scanComment_nl hp) fun _ => ?_
  refine nl_ite (fun _ => nl_ite (fun _ => punct_nl _ _ hp (by decide)) fun _ => scanCode_nl hp) fun _ => ?_
  refine nl_ite (fun _ => punct_nl _ _ hp (by decide)) fun _ => ?_
  refine nl_ite (fun _ => punct_nl _ _ hp (by decide)) fun _ => ?_
  refine nl_ite (fun _ => punct_nl _ _ hp (by decide)) fun _ => ?_
  refine nl_ite (fun _ => punct_nl _ _ hp (by decide)) fun _ => ?_
  refine nl_ite (fun _ => scanAt_nl hp) fun _ => ?_
  refine nl_ite (fun _ => scanEquals_nl hp) fun _ => ?_
  refine nl_ite (fun _ => scanStatus_nl hp) fun _ => ?_
  refine nl_ite (fun _ => scanCurrencySymbol_nl hz hc) fun _ => ?_
  refine nl_ite (fun _ => scanQuotedCommodity_nl hp) fun _ => ?_
  refine nl_ite (fun _ => nl_ite (fun _ => scanSign_nl hp) fun _ => scanText_nl z) fun _ => ?_
  refine nl_ite (fun _ => nl_ite (fun _ => scanDate_nl z) fun _ => scanNumber_nl z) fun _ => ?_
  refine nl_ite (fun _ => nl_ite (fun _ => scanAccount_nl z) fun _ => scanCommodityOrText_nl C z) fun _ => ?_
  exact scanText_nl z

theorem scanInLineAt_step (C : Classes) (z : Z) : Step z (scanInLineAt C z) := by
  cases hz : z.after with
  | nil =>
    unfold scanInLineAt
    rw [hz]
    exact Step.of_nl (mkTok_nl _ _ (AdvNL.refl z) (by decide))
  | cons ch t =>
    by_cases c1 : atEol (ch :: t) = true
    · unfold scanInLineAt
      simp only [hz, c1, if_true]
      exact scanNewline_step (by rw [hz]; exact c1)
    · exact Step.of_nl (scanInLineAt_nl C hz c1)

theorem scanInLine_step (C : Classes) (z0 : Z) : Step z0 (scanInLine C z0) := by
  unfold scanInLine
  obtain ⟨sp, h1, h2, h3, h4⟩ := skipSpaces_spec z0
  refine Step.skip sp h1 h2 h3 h4 (scanInLineAt_step C _) ?_
  intro c t hct
  have := advWhile_stop isBlank z0 c t hct
  simp [this]

theorem scanLineStartAt_step (C : Classes) (z : Z) : Step z (scanLineStartAt C z) := by
  unfold scanLineStartAt
  simp only []
  refine step_ite (fun h => ?_) fun _ => ?_
  · have hp : peek z ≠ LF := by
      have : peek z = 0x3B := by simpa using h
      rw [this]; decide
    exact Step.of_nl (scanComment_nl hp)
  refine step_ite (fun _ => Step.of_nl (scanIndent_nl z)) fun _ => ?_
  refine step_ite (fun _ => Step.of_nl (scanDate_nl z)) fun _ => ?_
  refine step_ite (fun _ => Step.of_nl (scanDirectiveOrAccount_nl z)) fun _ => ?_
  exact scanInLine_step C z

theorem scanLineStart_step (C : Classes) (z0 : Z) : Step z0 (scanLineStart C z0) := by
  unfold scanLineStart
  exact Step.congr (z := ({ z0 with atStart := false } : Z)) rfl rfl rfl (scanLineStartAt_step C _)

/-- Every call of `Next` is one of the three kinds of `Step`. -/
theorem next_step (C : Classes) (z : Z) : Step z (next C z) := by
  unfold next
  split
  · exact Step.of_nl (mkTok_nl _ _ (AdvNL.refl z) (by decide))
  · exact step_ite (fun _ => scanLineStart_step C z) fun _ => scanInLine_step C z

end HL.Lex

namespace HL.Lex
/-- every token but an account or a text token ends where the lexer stands afterwards (line,
    column and offset) -/
theorem next_stop (C : Classes) (z : Z) (h1 : (next C z).1.ty ≠ .account) (h2 : (next C z).1.ty ≠ .text) :
    (next C z).1.stop = (next C z).2.position := by
  cases next_step C z with
  | tok sp pre hsp hpre hafter hbefore hline hty hpl hpo hstop => exact hstop.eq h1 h2
  | newline sp cr hsp hcr hafter hbefore hline hcol hstart hty hpl hpo hstop => exact hstop

/-- an account token and a text token end on their line, at or behind their start, at or before
    the position the lexer stands at afterwards; what lies between is `TailOk` -/
theorem next_tokStop (C : Classes) (z : Z) (h : (next C z).1.ty ≠ .newline) : TokStop (next C z) := by
  cases next_step C z with
  | tok sp pre hsp hpre hafter hbefore hline hty hpl hpo hstop => exact hstop
  | newline sp cr hsp hcr hafter hbefore hline hcol hstart hty hpl hpo hstop => exact absurd hty h
end HL.Lex
