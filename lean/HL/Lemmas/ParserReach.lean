import HL.Lemmas.Parser
/-
  One reachability lemma per parse function (see HL/Lemmas/Parser.lean for `Reach`, `ReachL`, `RC`).
  Lemmas are stated in "prefix-composed" form: from a base state `a` we reached `st`, hence we
  reach the state after running the function on `st`.
-/
namespace HL.Parser
open HL HL.Ast

variable {σ : Type} (E : Env σ)

/-! ### line-internal functions -/

theorem parseComment_reachL {a st : PState σ} (h0 : ReachL E a st) (h : st.current.ty = .comment) :
    ReachL E a (parseComment E st).2 := by
  unfold parseComment
  exact ReachL.adv E h0 (by simp [h]) (by simp [h])

theorem parseDate_reachL {a st : PState σ} (h0 : ReachL E a st) : ReachL E a (parseDate E st).2 := by
  unfold parseDate
  grind [ReachL.adv, ReachL.err, ReachL.advErrAt]

theorem parseStatus_reachL {a st : PState σ} (h0 : ReachL E a st) : ReachL E a (parseStatus E st).2 := by
  unfold parseStatus
  grind [ReachL.adv]

theorem amountLeadSign_reachL {a st : PState σ} (h0 : ReachL E a st) : ReachL E a (amountLeadSign E st).2 := by
  unfold amountLeadSign
  grind [ReachL.adv]

theorem amountLeftCommodity_reachL (sg sb) {a st : PState σ} (h0 : ReachL E a st) :
    ReachL E a (amountLeftCommodity E sg sb st).2 := by
  unfold amountLeftCommodity
  grind [ReachL.adv]

theorem amountSecondSign_reachL (sg) {a st : PState σ} (h0 : ReachL E a st) :
    ReachL E a (amountSecondSign E sg st).2 := by
  unfold amountSecondSign
  grind [ReachL.adv]

theorem amountRightCommodity_reachL (c) (stop : Pos) {a st : PState σ} (h0 : ReachL E a st) :
    ReachL E a (amountRightCommodity E c stop st).2 := by
  unfold amountRightCommodity
  grind [ReachL.adv]

theorem amountNumber_reachL (p sg c sb) {a st : PState σ} (h0 : ReachL E a st) :
    ReachL E a (amountNumber E p sg c sb st).2 := by
  unfold amountNumber
  grind [ReachL.adv, ReachL.err, amountRightCommodity_reachL]

theorem parseAmount_reachL {a st : PState σ} (h0 : ReachL E a st) : ReachL E a (parseAmount E st).2 := by
  unfold parseAmount
  grind [amountLeadSign_reachL, amountLeftCommodity_reachL, amountSecondSign_reachL, amountNumber_reachL]

theorem parseCost_reachL {a st : PState σ} (h0 : ReachL E a st)
    (h : st.current.ty = .at ∨ st.current.ty = .atAt) : ReachL E a (parseCost E st).2 := by
  unfold parseCost
  have h1 : ReachL E a (advance E st) := ReachL.adv E h0 (by grind) (by grind)
  have := parseAmount_reachL E h1
  grind

theorem parseBalanceAssertion_reachL {a st : PState σ} (h0 : ReachL E a st)
    (h : st.current.ty = .equals ∨ st.current.ty = .doubleEquals) :
    ReachL E a (parseBalanceAssertion E st).2 := by
  unfold parseBalanceAssertion
  have h1 : ReachL E a (advance E st) := ReachL.adv E h0 (by grind) (by grind)
  have := parseAmount_reachL E h1
  grind

theorem postingOpen_reachL {a st : PState σ} (h0 : ReachL E a st) : ReachL E a (postingOpen E st).2 := by
  unfold postingOpen
  grind [ReachL.adv, parseStatus_reachL]

/-- The closing token `postingOpen` asks for is a bracket (or nothing). -/
def ClosingOk (cl : Option TokType) : Prop := cl = none ∨ cl = some .rbracket ∨ cl = some .rparen

theorem postingOpen_closing (st : PState σ) : ClosingOk (postingOpen E st).1.2.2 := by
  unfold postingOpen ClosingOk
  grind

theorem lineComment_reachL {a st : PState σ} (h0 : ReachL E a st) : ReachL E a (lineComment E st).2 := by
  unfold lineComment
  grind [ReachL.adv]

theorem postingClosing_reachL {cl} (hc : ClosingOk cl) {a st : PState σ} (h0 : ReachL E a st) :
    ReachL E a (postingClosing E cl st) := by
  unfold postingClosing
  unfold ClosingOk at hc
  grind [ReachL.adv]

theorem postingAmount_reachL {a st : PState σ} (h0 : ReachL E a st) : ReachL E a (postingAmount E st).2 := by
  unfold postingAmount
  grind [parseAmount_reachL]

theorem postingCost_reachL {a st : PState σ} (h0 : ReachL E a st) : ReachL E a (postingCost E st).2 := by
  unfold postingCost
  grind [parseCost_reachL]

theorem postingAssertion_reachL {a st : PState σ} (h0 : ReachL E a st) : ReachL E a (postingAssertion E st).2 := by
  unfold postingAssertion
  grind [parseBalanceAssertion_reachL]

theorem postingTail_reachL {cl} (hc : ClosingOk cl) {a st : PState σ} (h0 : ReachL E a st) :
    ReachL E a (postingTail E cl st).2 := by
  unfold postingTail
  have h1 := postingClosing_reachL E hc h0
  have h2 := postingAmount_reachL E h1
  have h3 := postingCost_reachL E h2
  have h4 := postingAssertion_reachL E h3
  exact lineComment_reachL E h4

theorem txDescription_reachL {a st : PState σ} (h0 : ReachL E a st) : ReachL E a (txDescription E st).2 := by
  unfold txDescription
  grind [ReachL.adv]

theorem txDate2_reachL {a st : PState σ} (h0 : ReachL E a st) : ReachL E a (txDate2 E st).2 := by
  unfold txDate2
  grind [ReachL.adv, parseDate_reachL]

theorem txStatus_reachL {a st : PState σ} (h0 : ReachL E a st) : ReachL E a (txStatus E st).2 := by
  unfold txStatus
  grind [parseStatus_reachL]

theorem txCode_reachL {a st : PState σ} (h0 : ReachL E a st) : ReachL E a (txCode E st).2 := by
  unfold txCode
  grind [ReachL.adv]

theorem txComment_reachL {a st : PState σ} (h0 : ReachL E a st) : ReachL E a (txComment E st).2 := by
  unfold txComment
  grind [parseComment_reachL]

theorem accountNameRest_reachL (nm) {a st : PState σ} (h0 : ReachL E a st) :
    ReachL E a (accountNameRest E nm st).2 := by
  unfold accountNameRest
  grind [ReachL.adv]

theorem commodityInline_reachL {a st : PState σ} (h0 : ReachL E a st) : ReachL E a (commodityInline E st).2 := by
  unfold commodityInline
  grind [ReachL.adv]

theorem isLineEnd_false {t : Token} (h : ¬ isLineEnd t = true) : t.ty ≠ .newline ∧ t.ty ≠ .eof := by
  unfold isLineEnd at h; simp at h; exact h

theorem skipLoopF_reachL (n : Nat) {a st : PState σ} (h0 : ReachL E a st) : ReachL E a (skipLoopF E n st) := by
  induction n generalizing st with
  | zero => exact h0
  | succ n ih =>
    unfold skipLoopF
    split
    · exact h0
    · rename_i h
      have := isLineEnd_false h
      exact ih (ReachL.adv E h0 this.2 this.1)

theorem skipUntilF_reachL (b : Bool) (n : Nat) {a st : PState σ} (h0 : ReachL E a st) :
    ReachL E a (skipUntilF E b n st) := by
  induction n generalizing st with
  | zero => exact h0
  | succ n ih =>
    unfold skipUntilF
    split
    · exact h0
    · rename_i h
      have := isLineEnd_false (t := st.current) (by grind)
      exact ih (ReachL.adv E h0 this.2 this.1)

theorem subValueF_reachL (n : Nat) {a st : PState σ} (acc : Bytes) (h0 : ReachL E a st) :
    ReachL E a (subValueF E n st acc).2 := by
  induction n generalizing st acc with
  | zero => exact h0
  | succ n ih =>
    unfold subValueF
    split
    · exact h0
    · rename_i h
      have := isLineEnd_false (t := st.current) (by grind)
      exact ih _ (ReachL.adv E h0 this.2 this.1)

theorem includePathF_reachL (n : Nat) {a st : PState σ} (acc : Bytes) (h0 : ReachL E a st) :
    ReachL E a (includePathF E n st acc).2 := by
  induction n generalizing st acc with
  | zero => exact h0
  | succ n ih =>
    unfold includePathF
    split
    · exact h0
    · rename_i h
      have := isLineEnd_false (t := st.current) (by grind)
      exact ih _ (ReachL.adv E h0 this.2 this.1)

/-! ### functions that may cross a line end -/

theorem RC.line' {a b : PState σ} (h : RC E a 0 b) {c : PState σ}
    (hl : ∀ {x : PState σ}, ReachL E x b → ReachL E x c) : RC E a 0 c :=
  RC.line E h (hl (ReachL.refl E b))

theorem skipToNextLine_RC {a st : PState σ} (h0 : RC E a 0 st) :
    RC E a 1 (skipToNextLine E st) := by
  unfold skipToNextLine
  have h2 : RC E a 0 (skipLoopF E (fuelOf E st) st) := RC.line' E h0 (skipLoopF_reachL E _)
  simp only
  split
  · rename_i h; exact RC.advNL E h2 h
  · exact RC.mono E h2 (by omega)

theorem parseComment_RC {a st : PState σ} (h0 : RC E a 0 st) (h : st.current.ty = .comment) :
    RC E a 0 (parseComment E st).2 := RC.line' E h0 (fun hx => parseComment_reachL E hx h)
theorem parseDate_RC {a st : PState σ} (h0 : RC E a 0 st) :
    RC E a 0 (parseDate E st).2 := RC.line' E h0 (parseDate_reachL E)
theorem parseStatus_RC {a st : PState σ} (h0 : RC E a 0 st) :
    RC E a 0 (parseStatus E st).2 := RC.line' E h0 (parseStatus_reachL E)
theorem parseAmount_RC {a st : PState σ} (h0 : RC E a 0 st) :
    RC E a 0 (parseAmount E st).2 := RC.line' E h0 (parseAmount_reachL E)
theorem parseCost_RC {a st : PState σ} (h0 : RC E a 0 st)
    (h : st.current.ty = .at ∨ st.current.ty = .atAt) :
    RC E a 0 (parseCost E st).2 := RC.line' E h0 (fun hx => parseCost_reachL E hx h)
theorem parseBalanceAssertion_RC {a st : PState σ} (h0 : RC E a 0 st)
    (h : st.current.ty = .equals ∨ st.current.ty = .doubleEquals) :
    RC E a 0 (parseBalanceAssertion E st).2 := RC.line' E h0 (fun hx => parseBalanceAssertion_reachL E hx h)
theorem skipUntilF_RC (b n) {a st : PState σ} (h0 : RC E a 0 st) :
    RC E a 0 (skipUntilF E b n st) := RC.line' E h0 (skipUntilF_reachL E b n)
theorem subValueF_RC (n acc) {a st : PState σ} (h0 : RC E a 0 st) :
    RC E a 0 (subValueF E n st acc).2 := RC.line' E h0 (subValueF_reachL E n acc)
theorem includePathF_RC (n acc) {a st : PState σ} (h0 : RC E a 0 st) :
    RC E a 0 (includePathF E n st acc).2 := RC.line' E h0 (includePathF_reachL E n acc)

grind_pattern RC.mono => RC E a tl b, RC E a tl' b
grind_pattern RC.advOther => RC E a 0 st, advance E st
grind_pattern RC.advNL => RC E a tl st, advance E st
grind_pattern RC.advIndent => RC E a tl st, advance E st
grind_pattern RC.err => RC E a 0 st, error st msg
grind_pattern skipToNextLine_RC => RC E a 0 st, skipToNextLine E st
grind_pattern parseComment_RC => RC E a 0 st, parseComment E st
grind_pattern parseDate_RC => RC E a 0 st, parseDate E st
grind_pattern parseStatus_RC => RC E a 0 st, parseStatus E st
grind_pattern parseAmount_RC => RC E a 0 st, parseAmount E st
grind_pattern parseCost_RC => RC E a 0 st, parseCost E st
grind_pattern parseBalanceAssertion_RC => RC E a 0 st, parseBalanceAssertion E st
grind_pattern skipUntilF_RC => RC E a 0 st, skipUntilF E b n st
grind_pattern subValueF_RC => RC E a 0 st, subValueF E n st acc
grind_pattern includePathF_RC => RC E a 0 st, includePathF E n st acc

theorem postingOpen_RC {a st : PState σ} (h0 : RC E a 0 st) :
    RC E a 0 (postingOpen E st).2 := RC.line' E h0 (postingOpen_reachL E)
theorem postingTail_RC {cl} (hc : ClosingOk cl) {a st : PState σ} (h0 : RC E a 0 st) :
    RC E a 0 (postingTail E cl st).2 := RC.line' E h0 (postingTail_reachL E hc)
theorem txDescription_RC {a st : PState σ} (h0 : RC E a 0 st) :
    RC E a 0 (txDescription E st).2 := RC.line' E h0 (txDescription_reachL E)
theorem txDate2_RC {a st : PState σ} (h0 : RC E a 0 st) : RC E a 0 (txDate2 E st).2 := RC.line' E h0 (txDate2_reachL E)
theorem txStatus_RC {a st : PState σ} (h0 : RC E a 0 st) : RC E a 0 (txStatus E st).2 := RC.line' E h0 (txStatus_reachL E)
theorem txCode_RC {a st : PState σ} (h0 : RC E a 0 st) : RC E a 0 (txCode E st).2 := RC.line' E h0 (txCode_reachL E)
theorem txComment_RC {a st : PState σ} (h0 : RC E a 0 st) : RC E a 0 (txComment E st).2 := RC.line' E h0 (txComment_reachL E)
theorem accountNameRest_RC (nm) {a st : PState σ} (h0 : RC E a 0 st) :
    RC E a 0 (accountNameRest E nm st).2 := RC.line' E h0 (accountNameRest_reachL E nm)
theorem lineComment_RC {a st : PState σ} (h0 : RC E a 0 st) : RC E a 0 (lineComment E st).2 := RC.line' E h0 (lineComment_reachL E)
grind_pattern txDate2_RC => RC E a 0 st, txDate2 E st
grind_pattern txStatus_RC => RC E a 0 st, txStatus E st
grind_pattern txCode_RC => RC E a 0 st, txCode E st
grind_pattern txComment_RC => RC E a 0 st, txComment E st
grind_pattern accountNameRest_RC => RC E a 0 st, accountNameRest E nm st
grind_pattern lineComment_RC => RC E a 0 st, lineComment E st
theorem commodityInline_RC {a st : PState σ} (h0 : RC E a 0 st) :
    RC E a 0 (commodityInline E st).2 := RC.line' E h0 (commodityInline_reachL E)
grind_pattern commodityInline_RC => RC E a 0 st, commodityInline E st
grind_pattern postingOpen_RC => RC E a 0 st, postingOpen E st
grind_pattern postingTail_RC => RC E a 0 st, postingTail E cl st
grind_pattern txDescription_RC => RC E a 0 st, txDescription E st

theorem parsePosting_RC {a st : PState σ} {tl} (h0 : RC E a tl st) (h : st.current.ty = .indent) :
    RC E a 1 (parsePosting E st).2 := by
  unfold parsePosting
  have := postingOpen_closing E (advance E st)
  grind (splits := 20)

grind_pattern parsePosting_RC => RC E a tl st, parsePosting E st

/-- The same, seen from the state after the Indent has been consumed (used for progress). -/
theorem parsePosting_RC' {a st : PState σ} (h1 : RC E a 0 (advance E st)) (h : st.current.ty = .indent) :
    RC E a 1 (parsePosting E st).2 := by
  unfold parsePosting
  have := postingOpen_closing E (advance E st)
  grind (splits := 20)

theorem postingsF_RC (n : Nat) {a st : PState σ} {tl} (h0 : RC E a tl st) (h1 : tl ≤ 1) :
    RC E a 1 (postingsF E n st).2 := by
  induction n generalizing st tl with
  | zero => unfold postingsF; exact RC.mono E h0 h1
  | succ n ih =>
    unfold postingsF
    split
    · exact RC.mono E h0 h1
    · rename_i h
      have hi : st.current.ty = .indent := by simpa using h
      have hp := parsePosting_RC E h0 hi
      simp only
      split
      · rename_i hnl
        exact ih (RC.advNL E hp hnl) (by omega)
      · exact ih hp (by omega)

theorem txHeader_RC {a st : PState σ} (h0 : RC E a 0 st) : RC E a 1 (txHeader E st).2 := by
  unfold txHeader
  grind (splits := 20)

theorem parseTransaction_RC {a st : PState σ} (h0 : RC E a 0 st) : RC E a 1 (parseTransaction E st).2 := by
  unfold parseTransaction
  have hd := parseDate_RC E h0
  split
  · rename_i heq; rw [heq] at hd
    exact skipToNextLine_RC E hd
  · rename_i heq; rw [heq] at hd
    simp only
    exact postingsF_RC E _ (txHeader_RC E hd) (by omega)

theorem parseSubdirectivesF_RC (n : Nat) {a st : PState σ} {tl} (m) (h0 : RC E a tl st) (h1 : tl ≤ 1) :
    RC E a 1 (parseSubdirectivesF E n st m).2 := by
  induction n generalizing st tl m with
  | zero => unfold parseSubdirectivesF; exact RC.mono E h0 h1
  | succ n ih =>
    unfold parseSubdirectivesF
    split
    · exact RC.mono E h0 h1
    · rename_i h
      have hnl : st.current.ty = .newline := by simpa using h
      have hA := RC.advNL E h0 hnl
      simp only
      split
      · exact hA
      · rename_i h2
        have hi : (advance E st).current.ty = .indent := by simpa using h2
        have hB := RC.advIndent E hA hi
        split
        · rename_i hc
          exact ih _ (RC.advOther E hB (by simp [hc]) (by simp [hc])) (by omega)
        · split
          · exact ih _ hB (by omega)
          · split
            · rename_i ht
              exact ih _ (RC.advOther E hB (by simp [ht]) (by simp [ht])) (by omega)
            · split
              · rename_i hdv
                have hC := RC.advOther E hB (by simp [hdv]) (by simp [hdv])
                exact ih _ (subValueF_RC E _ _ hC) (by omega)
              · exact ih _ (skipToNextLine_RC E hB) (by omega)

theorem parseSubdirectives_RC {a st : PState σ} (h0 : RC E a 0 st) :
    RC E a 1 (parseSubdirectives E st).2 := parseSubdirectivesF_RC E _ _ h0 (by omega)

grind_pattern parseSubdirectives_RC => RC E a 0 st, parseSubdirectives E st

theorem parseAccountDirective_RC (p) {a st : PState σ} (h0 : RC E a 0 st) :
    RC E a 1 (parseAccountDirective E p st).2 := by
  unfold parseAccountDirective
  grind (splits := 20)

theorem parseCommodityDirective_RC (p) {a st : PState σ} (h0 : RC E a 0 st) :
    RC E a 1 (parseCommodityDirective E p st).2 := by
  unfold parseCommodityDirective
  grind (splits := 20)

theorem parseIncludeDirective_RC (p) {a st : PState σ} (h0 : RC E a 0 st) :
    RC E a 1 (parseIncludeDirective E p st).2 := by
  unfold parseIncludeDirective
  grind (splits := 20)

theorem parsePriceDirective_RC (p) {a st : PState σ} (h0 : RC E a 0 st) :
    RC E a 1 (parsePriceDirective E p st).2 := by
  unfold parsePriceDirective
  grind (splits := 20)

theorem parseDefaultCommodityDirective_RC (p) {a st : PState σ} (h0 : RC E a 0 st) :
    RC E a 1 (parseDefaultCommodityDirective E p st).2 := by
  unfold parseDefaultCommodityDirective
  grind (splits := 20)

theorem parseYearDirective_RC (p) {a st : PState σ} (h0 : RC E a 0 st) :
    RC E a 1 (parseYearDirective E p st).2 := by
  unfold parseYearDirective
  have hy : ∀ y, RC E a 0 { st with defaultYear := y } := fun y => RC.year E h0 y
  grind (splits := 20)

theorem parseDirective_RC {a st : PState σ} (h0 : RC E a 0 st) (h : st.current.ty = .directive) :
    RC E a 1 (parseDirective E st).2 := by
  unfold parseDirective
  have h1 := RC.advOther E h0 (by simp [h]) (by simp [h])
  grind (splits := 20) [parseAccountDirective_RC, parseCommodityDirective_RC, parseIncludeDirective_RC,
    parsePriceDirective_RC, parseDefaultCommodityDirective_RC, parseYearDirective_RC]

theorem parseDirective_RC' {a st : PState σ} (h1 : RC E a 0 (advance E st)) :
    RC E a 1 (parseDirective E st).2 := by
  unfold parseDirective
  grind (splits := 20) [parseAccountDirective_RC, parseCommodityDirective_RC, parseIncludeDirective_RC,
    parsePriceDirective_RC, parseDefaultCommodityDirective_RC, parseYearDirective_RC]

theorem journalStep_RC (st : PState σ) : RC E st 1 (journalStep E st).2 := by
  have h0 := RC.refl E st
  unfold journalStep
  grind (splits := 20) [parseTransaction_RC, parseDirective_RC]

end HL.Parser
