import HL.Lemmas.LexLines
/-!
  What a token covers: for every scan function, every lexer state and every byte string, the
  bytes between the token's `Pos` and its `End` (`extOf`) are the token's lexeme — its value,
  with the delimiters the value leaves out (`;`, parentheses of a code, quotes of a commodity)
  and nothing else: no blank behind an account name, no white space behind a text
  (`Lexeme`, `next_lexeme`).  HL.Props.C06.token_end_is_lexeme_end is the stream-level statement.
-/
namespace HL.Lex
open HL HL.Utf8 HL.Spec.LexSpec

local notation "LF" => (0x0A : UInt8)
local notation "CR" => (0x0D : UInt8)

/-- the bytes between the `Pos` and the `End` of the token a scan returned, read off the
    consumed input of the state it left behind -/
def extOf (r : Token × Z) : Bytes :=
  ((r.2.before.drop (r.2.before.length - r.1.stop.off)).take (r.1.stop.off - r.1.pos.off)).reverse

/-- The lexeme of a text token: `scanned` (what `scanText` ran over) is the extent followed by a
    run of white space, the value is `strings.TrimSpace(scanned)`, the extent is what
    `strings.TrimRightFunc(scanned, unicode.IsSpace)` keeps — it is empty or ends with a rune that
    is not white space — unless nothing is kept (a text of white space only: the token keeps what
    was scanned). -/
def TextLexeme (val ext : Bytes) : Prop :=
  ∃ tail, wsOnly tail = true ∧ val = trimSpace (ext ++ tail) ∧
    ((ext = trimRightFunc (ext ++ tail) ∧ ext ≠ []) ∨ (trimRightFunc (ext ++ tail) = [] ∧ tail = []))

/-- **What the bytes between `Pos` and `End` are, by token type** (`val` the token's value). -/
def Lexeme (ty : TokType) (val ext : Bytes) : Prop :=
  match ty with
  | .comment => ext = 0x3B :: val
  | .code => ext = 0x28 :: val ∨ ext = 0x28 :: (val ++ [0x29])
  | .commodity => ext = val ∨ ext = 0x22 :: val ∨ ext = 0x22 :: (val ++ [0x22])
  | .newline => val = [LF] ∧ (ext = [LF] ∨ ext = [CR, LF])
  | .text => TextLexeme val ext
  | _ => ext = val

theorem extOf_mkTok (ty : TokType) (v : Bytes) (s e : Z) : extOf (mkTok ty v s e) = between s e := by
  simp [extOf, mkTok, Z.position, between]

/-- the extent of a token that ends at the position of a state `l` between `s` and `e` -/
theorem extOf_mkTokAt_state (ty : TokType) (v : Bytes) {s l e : Z} (h : Adv l e) :
    extOf (mkTokAt ty v s l.position e) = between s l := by
  obtain ⟨p, _, hb⟩ := h
  simp only [extOf, mkTokAt, Z.position, between, hb]
  have : (p.reverse ++ l.before).length - l.before.length = p.reverse.length := by simp
  rw [this, List.drop_left]

theorem between_trans {a b c : Z} (h1 : Adv a b) (h2 : Adv b c) : between a c = between a b ++ between b c := by
  obtain ⟨p, _, hp⟩ := h1
  obtain ⟨q, _, hq⟩ := h2
  have e1 : between a b = p := between_eq_of_before hp
  have e2 : between b c = q := between_eq_of_before hq
  have e3 : between a c = p ++ q := between_eq_of_before (by rw [hq, hp]; simp)
  rw [e1, e2, e3]

theorem between_self (z : Z) : between z z = [] := by simp [between]

/-- one ASCII byte consumed -/
theorem between_advance_ascii {z : Z} {c : UInt8} {t : Bytes} (hz : z.after = c :: t) (hc : c < 0x80) :
    between z (advance z) = [c] := by
  rw [advance_ascii hz hc]
  simp [between]

theorem encodeRune_ascii (c : UInt8) (hc : c < 0x80) : encodeRune c.toNat = [c] := by
  have h : c.toNat ≤ 0x7F := by
    have : c.toNat < 0x80 := by simpa [UInt8.lt_iff_toNat_lt] using hc
    omega
  simp [encodeRune, h]

/-! ### every scan function -/

theorem scanDate_lexeme (z : Z) : Lexeme (scanDate z).1.ty (scanDate z).1.val (extOf (scanDate z)) := by
  simp only [scanDate, extOf_mkTok]
  rfl

theorem scanNumber_lexeme (z : Z) : Lexeme (scanNumber z).1.ty (scanNumber z).1.val (extOf (scanNumber z)) := by
  simp only [scanNumber, extOf_mkTok]
  rfl

theorem scanIndent_lexeme (z : Z) : Lexeme (scanIndent z).1.ty (scanIndent z).1.val (extOf (scanIndent z)) := by
  simp only [scanIndent, extOf_mkTok]
  rfl

theorem scanAccount_lexeme (z : Z) :
    Lexeme (scanAccount z).1.ty (scanAccount z).1.val (extOf (scanAccount z)) := by
  have hadv := scanAccountF_adv z.after.length z z (Adv.refl z)
  show Lexeme .account _ (extOf (mkTokAt .account _ z (scanAccountF z.after.length z z).2.position
    (scanAccountF z.after.length z z).1))
  rw [extOf_mkTokAt_state _ _ hadv.2.2]
  rfl

theorem scanStatus_lexeme {z : Z} {c : UInt8} {t : Bytes} (hz : z.after = c :: t) (hc : c < 0x80) :
    Lexeme (scanStatus z).1.ty (scanStatus z).1.val (extOf (scanStatus z)) := by
  simp only [scanStatus, extOf_mkTok, between_advance_ascii hz hc]
  show [c] = encodeRune (peek z).toNat
  simp [peek, hz, encodeRune_ascii c hc]

theorem scanSign_lexeme {z : Z} {c : UInt8} {t : Bytes} (hz : z.after = c :: t) (hc : c < 0x80) :
    Lexeme (scanSign z).1.ty (scanSign z).1.val (extOf (scanSign z)) := by
  simp only [scanSign, extOf_mkTok, between_advance_ascii hz hc]
  show [c] = encodeRune (peek z).toNat
  simp [peek, hz, encodeRune_ascii c hc]

theorem punct_lexeme (ty : TokType) {z : Z} {c : UInt8} {t : Bytes} (hz : z.after = c :: t) (hc : c < 0x80)
    (hty : ty ≠ .comment ∧ ty ≠ .code ∧ ty ≠ .commodity ∧ ty ≠ .newline ∧ ty ≠ .text) :
    Lexeme (punct ty [c] z).1.ty (punct ty [c] z).1.val (extOf (punct ty [c] z)) := by
  simp only [punct, extOf_mkTok, between_advance_ascii hz hc]
  show Lexeme ty [c] [c]
  unfold Lexeme
  split <;> simp_all

theorem headIs_cons {c : UInt8} {a : Bytes} (h : headIs c a = true) : ∃ t, a = c :: t := by
  cases a with
  | nil => simp [headIs] at h
  | cons x t => simp only [headIs, beq_iff_eq] at h; exact ⟨t, by rw [h]⟩

theorem scanAt_lexeme {z : Z} {t : Bytes} (hz : z.after = 0x40 :: t) :
    Lexeme (scanAt z).1.ty (scanAt z).1.val (extOf (scanAt z)) := by
  have h1 := between_advance_ascii hz (by decide)
  unfold scanAt
  simp only []
  split
  · rename_i h
    obtain ⟨t2, ht2⟩ := headIs_cons h
    rw [extOf_mkTok, between_trans (Adv.advance z) (Adv.advance _), h1, between_advance_ascii ht2 (by decide)]
    rfl
  · rw [extOf_mkTok, h1]; rfl

theorem scanEquals_lexeme {z : Z} {t : Bytes} (hz : z.after = 0x3D :: t) :
    Lexeme (scanEquals z).1.ty (scanEquals z).1.val (extOf (scanEquals z)) := by
  have h1 := between_advance_ascii hz (by decide)
  unfold scanEquals
  simp only []
  split
  · rename_i h
    obtain ⟨t2, ht2⟩ := headIs_cons h
    rw [extOf_mkTok, between_trans (Adv.advance z) (Adv.advance _), h1, between_advance_ascii ht2 (by decide)]
    rfl
  · rw [extOf_mkTok, h1]; rfl

theorem scanComment_lexeme {z : Z} {t : Bytes} (hz : z.after = 0x3B :: t) :
    Lexeme (scanComment z).1.ty (scanComment z).1.val (extOf (scanComment z)) := by
  simp only [scanComment, extOf_mkTok]
  rw [between_trans (Adv.advance z) (advLine_adv _ _), between_advance_ascii hz (by decide)]
  rfl

/-- behind `advIf (· == c)`: nothing, or the byte `c` -/
theorem between_advIf (c : UInt8) (hc : c < 0x80) (z : Z) :
    between z (advIf (· == c) z) = [] ∨ between z (advIf (· == c) z) = [c] := by
  unfold advIf
  split
  · exact Or.inl (between_self z)
  · rename_i x t hz
    split
    · rename_i hx
      have : x = c := by simpa using hx
      subst this
      exact Or.inr (between_advance_ascii hz hc)
    · exact Or.inl (between_self z)

theorem scanCode_lexeme {z : Z} {t : Bytes} (hz : z.after = 0x28 :: t) :
    Lexeme (scanCode z).1.ty (scanCode z).1.val (extOf (scanCode z)) := by
  simp only [scanCode, extOf_mkTok]
  have h1 := Adv.advance z
  have h2 := advLine_adv (fun c => c != 0x29) (advance z)
  have h3 := advIf_adv (· == 0x29) (advLine (fun c => c != 0x29) (advance z))
  rw [between_trans h1 (h2.trans h3), between_trans h2 h3, between_advance_ascii hz (by decide)]
  show Lexeme .code _ _
  rcases between_advIf 0x29 (by decide) (advLine (fun c => c != 0x29) (advance z)) with h | h
  · rw [h]; left; simp [mkTok]
  · rw [h]; right; simp [mkTok]

theorem scanQuotedCommodity_lexeme {z : Z} {t : Bytes} (hz : z.after = 0x22 :: t) :
    Lexeme (scanQuotedCommodity z).1.ty (scanQuotedCommodity z).1.val (extOf (scanQuotedCommodity z)) := by
  simp only [scanQuotedCommodity, extOf_mkTok]
  have h1 := Adv.advance z
  have h2 := advLine_adv (fun c => c != 0x22) (advance z)
  have h3 := advIf_adv (· == 0x22) (advLine (fun c => c != 0x22) (advance z))
  rw [between_trans h1 (h2.trans h3), between_trans h2 h3, between_advance_ascii hz (by decide)]
  show Lexeme .commodity _ _
  rcases between_advIf 0x22 (by decide) (advLine (fun c => c != 0x22) (advance z)) with h | h
  · rw [h]; right; left; simp [mkTok]
  · rw [h]; right; right; simp [mkTok]

/-- the extent of a text token: what `TrimRightFunc` keeps of the scanned text, or, when that is
    nothing, the scanned text -/
theorem extOf_scanText (z : Z) :
    extOf (scanText z) =
      if trimRightFunc (between z (advLine (fun ch => !(ch == 0x3B || ch == 0x7C)) z)) = []
      then between z (advLine (fun ch => !(ch == 0x3B || ch == 0x7C)) z)
      else trimRightFunc (between z (advLine (fun ch => !(ch == 0x3B || ch == 0x7C)) z)) := by
  have ha := advLine_adv (fun ch => !(ch == 0x3B || ch == 0x7C)) z
  simp only [scanText]
  generalize advLine (fun ch => !(ch == 0x3B || ch == 0x7C)) z = e at ha ⊢
  have hle := ha.before_le
  have hlen := between_length hle
  by_cases hl : trimRightFunc (between z e) = []
  · have hstop : textStop z e = e.position := by simp [textStop, hl]
    rw [hstop, if_pos hl]
    exact extOf_mkTok _ _ z e
  · obtain ⟨tl, h1, h2, _⟩ := trimRightFunc_spec (between z e)
    have hL := trimRightFunc_length_le (between z e)
    have hstop : textStop z e = ⟨z.line, z.col + (runes (trimRightFunc (between z e))).length,
        z.before.length + (trimRightFunc (between z e)).length⟩ := by simp [textStop, hl]
    rw [if_neg hl, hstop]
    simp only [extOf, mkTokAt, Z.position]
    generalize hLdef : (trimRightFunc (between z e)).length = L at *
    have e1 : z.before.length + L - z.before.length = L := by omega
    have e2 : e.before.length - (z.before.length + L) = (e.before.length - z.before.length) - L := by omega
    rw [e1, e2]
    generalize hn : e.before.length - z.before.length = n at *
    have hsplit : between z e = ((e.before.drop (n - L)).take L).reverse ++ (e.before.take (n - L)).reverse := by
      have : e.before.take n = e.before.take (n - L) ++ (e.before.drop (n - L)).take L := by
        have hnl : n = (n - L) + L := by omega
        conv => lhs; rw [hnl]
        exact List.take_add
      have hb : between z e = (e.before.take n).reverse := by rw [← hn]; rfl
      rw [hb, this, List.reverse_append]
    have hXl : ((e.before.drop (n - L)).take L).reverse.length = (trimRightFunc (between z e)).length := by
      rw [List.length_reverse, List.length_take, List.length_drop, hLdef]; omega
    have := List.append_inj (hsplit.symm.trans h1) hXl
    exact this.1

/-- the lexeme of a text token -/
theorem scanText_lexeme (z : Z) : Lexeme (scanText z).1.ty (scanText z).1.val (extOf (scanText z)) := by
  show TextLexeme _ _
  rw [extOf_scanText]
  have hv : (scanText z).1.val = trimSpace (between z (advLine (fun ch => !(ch == 0x3B || ch == 0x7C)) z)) := rfl
  rw [hv]
  generalize between z (advLine (fun ch => !(ch == 0x3B || ch == 0x7C)) z) = scanned
  by_cases hl : trimRightFunc scanned = []
  · rw [if_pos hl]
    exact ⟨[], wsOnly_nil, by simp, Or.inr ⟨by simpa using hl, rfl⟩⟩
  · rw [if_neg hl]
    obtain ⟨tl, h1, h2, _⟩ := trimRightFunc_spec scanned
    exact ⟨tl, h2, by rw [← h1], Or.inl ⟨by rw [← h1], hl⟩⟩

/-! ### currency symbols: the bytes of `$ € £ ¥ ₽ ₴` -/

theorem enc_24 : encodeRune 0x24 = [0x24] := by decide
theorem enc_A3 : encodeRune 0xA3 = [0xC2, 0xA3] := by decide
theorem enc_A5 : encodeRune 0xA5 = [0xC2, 0xA5] := by decide
theorem enc_20AC : encodeRune 0x20AC = [0xE2, 0x82, 0xAC] := by decide
theorem enc_20BD : encodeRune 0x20BD = [0xE2, 0x82, 0xBD] := by decide
theorem enc_20B4 : encodeRune 0x20B4 = [0xE2, 0x82, 0xB4] := by decide

theorem u8_eq_of_toNat {a : UInt8} {n : Nat} (hn : n < 256) (h : a.toNat = n) : a = UInt8.ofNat n := by
  apply UInt8.toNat_inj.mp
  rw [h, UInt8.toNat_ofNat']
  omega

theorem currency_bytes (b : UInt8) (t : Bytes) (h : isCurrencySymbol (decodeRune (b :: t)).1 = true) :
    (b :: t).take (decodeRune (b :: t)).2 = encodeRune (decodeRune (b :: t)).1 := by
  have g1 : 128 ≤ (acceptLo b).toNat := by
    have := acceptLo_ge b
    simpa [UInt8.le_iff_toNat_le] using this
  have g2 : (acceptHi b).toNat ≤ 191 := by
    unfold acceptHi; split
    · decide
    · split <;> decide
  have hlo : ∀ b1 : UInt8, (acceptLo b).toNat ≤ b1.toNat → (b.toNat = 224 → 160 ≤ b1.toNat) ∧ (b.toNat = 240 → 144 ≤ b1.toNat) := by
    intro b1 h1
    constructor
    · intro e
      have : b = 0xE0 := UInt8.toNat_inj.mp e
      subst this
      simpa [acceptLo] using h1
    · intro e
      have : b = 0xF0 := UInt8.toNat_inj.mp e
      subst this
      simpa [acceptLo] using h1
  simp only [isCurrencySymbol, Bool.or_eq_true, beq_iff_eq] at h
  generalize hd : decodeRune (b :: t) = d at h ⊢
  simp only [decodeRune] at hd
  repeat' split at hd
  all_goals subst hd
  all_goals simp only [runeError] at h
  all_goals try omega
  all_goals simp_all [isCont, UInt8.le_iff_toNat_le, UInt8.lt_iff_toNat_lt]
  all_goals (
    try (have hacc := hlo _ (‹(acceptLo b).toNat ≤ _ ∧ _ ≤ (acceptHi b).toNat›).1)
    rcases h with ((((h|h)|h)|h)|h)|h
    all_goals first
      | omega
      | (rw [h]
         simp only [enc_24, enc_A3, enc_A5, enc_20AC, enc_20BD, enc_20B4, List.cons.injEq, and_true]
         repeat' constructor
         all_goals (apply UInt8.toNat_inj.mp; simp; omega)))

theorem scanCurrencySymbol_lexeme {z : Z} {b : UInt8} {t : Bytes} (hz : z.after = b :: t)
    (hcur : isCurrencySymbol (peekRune z) = true) :
    Lexeme (scanCurrencySymbol z).1.ty (scanCurrencySymbol z).1.val (extOf (scanCurrencySymbol z)) := by
  have hr : peekRune z = (decodeRune (b :: t)).1 := by simp [peekRune, hz]
  rw [hr] at hcur
  have hbw : between z (z.bump (decodeRune (b :: t)).2) = (b :: t).take (decodeRune (b :: t)).2 :=
    between_eq_of_before (by simp [Z.bump, hz])
  unfold scanCurrencySymbol
  rw [hz]
  simp only [extOf_mkTok, hbw]
  exact Or.inl (currency_bytes b t hcur)

theorem scanNewline_lexeme {z : Z} (he : atEol z.after = true) :
    Lexeme (scanNewline z).1.ty (scanNewline z).1.val (extOf (scanNewline z)) := by
  unfold scanNewline
  simp only [extOf_mkTok]
  show _ = [LF] ∧ _
  refine ⟨rfl, ?_⟩
  rcases atEol_cases he with ⟨t, hz⟩ | ⟨t, hz⟩
  · have h0 : advIf (· == 0x0D) z = z := by simp [advIf, hz]
    rw [h0]
    left
    exact between_advance_ascii hz (by decide)
  · have h0 : advIf (· == 0x0D) z = advance z := by simp [advIf, hz]
    have h1 : (advance z).after = LF :: t := by rw [advance_ascii hz (by decide)]
    rw [h0]
    right
    have := between_trans (Adv.advance z) (Adv.advance (advance z))
    rw [between_advance_ascii hz (by decide), between_advance_ascii h1 (by decide)] at this
    exact this

theorem scanDirectiveOrAccount_lexeme (z : Z) :
    Lexeme (scanDirectiveOrAccount z).1.ty (scanDirectiveOrAccount z).1.val (extOf (scanDirectiveOrAccount z)) := by
  unfold scanDirectiveOrAccount
  simp only []
  split
  · rw [extOf_mkTok]; rfl
  · split
    · exact scanAccount_lexeme z
    · exact scanText_lexeme z

theorem scanCommodityOrText_lexeme (C : Classes) (z : Z) :
    Lexeme (scanCommodityOrText C z).1.ty (scanCommodityOrText C z).1.val (extOf (scanCommodityOrText C z)) := by
  unfold scanCommodityOrText
  simp only []
  split
  · rw [extOf_mkTok]; exact Or.inl rfl
  · split
    · rw [extOf_mkTok]; exact Or.inl rfl
    · exact scanText_lexeme z

/-! ### the dispatchers -/

/-- the lexeme statement for a result `r` -/
def LexemeOk (r : Token × Z) : Prop := Lexeme r.1.ty r.1.val (extOf r)

theorem lexemeOk_ite {c : Prop} [Decidable c] {a b : Token × Z}
    (ha : c → LexemeOk a) (hb : ¬c → LexemeOk b) : LexemeOk (if c then a else b) := by
  split
  · exact ha ‹_›
  · exact hb ‹_›

theorem eof_lexeme (z : Z) : LexemeOk (mkTok .eof [] z z) := by
  unfold LexemeOk
  rw [extOf_mkTok, between_self]
  rfl

theorem scanInLineAt_lexeme (C : Classes) (z : Z) : LexemeOk (scanInLineAt C z) := by
  unfold scanInLineAt
  cases hz : z.after with
  | nil => exact eof_lexeme z
  | cons ch t =>
    simp only []
    have beq : ∀ {k : UInt8}, (ch == k) = true → z.after = k :: t := fun h => by
      rw [hz]; simp only [beq_iff_eq] at h; rw [h]
    refine lexemeOk_ite (fun h => scanNewline_lexeme (by rw [hz]; exact h)) fun _ => ?_
    refine lexemeOk_ite (fun h => scanComment_lexeme (beq h)) fun _ => ?_
    refine lexemeOk_ite (fun h => lexemeOk_ite (fun _ => punct_lexeme _ (beq h) (by decide) (by decide))
      fun _ => scanCode_lexeme (beq h)) fun _ => ?_
    refine lexemeOk_ite (fun h => punct_lexeme _ (beq h) (by decide) (by decide)) fun _ => ?_
    refine lexemeOk_ite (fun h => punct_lexeme _ (beq h) (by decide) (by decide)) fun _ => ?_
    refine lexemeOk_ite (fun h => punct_lexeme _ (beq h) (by decide) (by decide)) fun _ => ?_
    refine lexemeOk_ite (fun h => punct_lexeme _ (beq h) (by decide) (by decide)) fun _ => ?_
    refine lexemeOk_ite (fun h => scanAt_lexeme (beq h)) fun _ => ?_
    refine lexemeOk_ite (fun h => scanEquals_lexeme (beq h)) fun _ => ?_
    refine lexemeOk_ite (fun h => scanStatus_lexeme hz (by
      simp only [Bool.or_eq_true, beq_iff_eq] at h
      rcases h with rfl | rfl <;> decide)) fun _ => ?_
    refine lexemeOk_ite (fun h => scanCurrencySymbol_lexeme hz h) fun _ => ?_
    refine lexemeOk_ite (fun h => scanQuotedCommodity_lexeme (beq h)) fun _ => ?_
    refine lexemeOk_ite (fun h => lexemeOk_ite (fun _ => scanSign_lexeme hz (by
      simp only [Bool.or_eq_true, beq_iff_eq] at h
      rcases h with rfl | rfl <;> decide)) fun _ => scanText_lexeme z) fun _ => ?_
    refine lexemeOk_ite (fun _ => lexemeOk_ite (fun _ => scanDate_lexeme z) fun _ => scanNumber_lexeme z) fun _ => ?_
    refine lexemeOk_ite (fun _ => lexemeOk_ite (fun _ => scanAccount_lexeme z)
      fun _ => scanCommodityOrText_lexeme C z) fun _ => ?_
    exact scanText_lexeme z

theorem scanLineStartAt_lexeme (C : Classes) (z : Z) : LexemeOk (scanLineStartAt C z) := by
  unfold scanLineStartAt
  simp only []
  refine lexemeOk_ite (fun h => ?_) fun _ => ?_
  · cases hz : z.after with
    | nil => simp [peek, hz] at h
    | cons c t =>
      have : c = 0x3B := by simpa [peek, hz] using h
      subst this
      exact scanComment_lexeme hz
  refine lexemeOk_ite (fun _ => scanIndent_lexeme z) fun _ => ?_
  refine lexemeOk_ite (fun _ => scanDate_lexeme z) fun _ => ?_
  refine lexemeOk_ite (fun _ => scanDirectiveOrAccount_lexeme z) fun _ => ?_
  exact scanInLineAt_lexeme C _

/-- **Every token `Next` returns covers exactly its lexeme**, for every state, every byte string
    and every classifier. -/
theorem next_lexeme (C : Classes) (z : Z) : LexemeOk (next C z) := by
  unfold next
  split
  · exact eof_lexeme z
  · exact lexemeOk_ite (fun _ => scanLineStartAt_lexeme C _) fun _ => scanInLineAt_lexeme C _

end HL.Lex
