/-
  `Initialize` on a fresh loader establishes the workspace invariant; a whole edit
  (didChange, disk write, didSave, with observations in between) preserves it.
-/
import HL.Lemmas.Update
namespace HL.Lemmas.Init
open HL.Index HL.Workspace HL.Lemmas.AList HL.Lemmas.ReachIdx HL.Lemmas.Edges HL.Lemmas.Index
open HL.Lemmas.WsInv HL.Lemmas.Refresh HL.Lemmas.Update HL.Lemmas.Load HL.Spec.Rebuild

/-! ### root selection -/

/-- the include graphs are empty when indexing starts: the repaired code resets them; the
    pinned code leaves the edges collected by `findRootByIncludeGraph`, which runs only if
    neither `main.journal` nor `.hledger.journal` exists. -/
def graphsClean (cfg : Cfg) (fs : FS) : Prop :=
  cfg.fixG = true ∨ (fs.get "main.journal").isSome ∨ (fs.get ".hledger.journal").isSome

/-- the root chosen by `findRootJournal` -/
def rootSel (fs : FS) : String := (findRootJournal fs {}).1

theorem rootSel_exists (fs : FS) (hne : fs ≠ []) : (fs.get (rootSel fs)).isSome := by
  unfold rootSel findRootJournal
  by_cases h1 : (fs.get "main.journal").isSome
  · simp [h1]
  · by_cases h2 : (fs.get ".hledger.journal").isSome
    · simp [h1, h2]
    · simp only [h1, h2, Bool.false_eq_true, if_false]
      unfold findRootByIncludeGraph journalFiles
      have hk : ∀ x, x ∈ isort fs.keys → (fs.get x).isSome := by
        intro x hx; exact (mem_keys_iff fs x).mp ((mem_isort _ _).mp hx)
      cases hf : isort fs.keys with
      | nil =>
        have : (isort fs.keys).length = fs.keys.length := (isort_perm fs.keys).length_eq
        rw [hf] at this
        cases fs with
        | nil => exact absurd rfl hne
        | cons a r => simp [AList.keys] at this
      | cons f0 rest =>
        simp only
        split
        · exact hk f0 (by rw [hf]; exact List.mem_cons_self)
        · rename_i c cs hc
          have : c ∈ isort (List.filter (fun f => (AList.getD (buildIncludeGraph fs (f0 :: rest) {}).revG f []).isEmpty) (f0 :: rest)) := by
            rw [hc]; exact List.mem_cons_self
          have := (List.mem_filter.mp ((mem_isort _ _).mp this)).1
          exact hk c (by rw [hf]; exact this)

theorem buildIncludeGraph_fields (fs : FS) : ∀ (files : List String) (w0 : WS),
    (buildIncludeGraph fs files w0).idx = w0.idx ∧
    (buildIncludeGraph fs files w0).cFormats = w0.cFormats ∧
    (buildIncludeGraph fs files w0).cComms = w0.cComms ∧
    (buildIncludeGraph fs files w0).cAccts = w0.cAccts := by
  intro files
  induction files with
  | nil => intro w0; exact ⟨rfl, rfl, rfl, rfl⟩
  | cons f r ih =>
    intro w0
    have hinner : ∀ (l : List String) (w1 : WS),
        (l.foldl (fun (w : WS) inc =>
          { w with incG := w.incG.set f (w.incG.getD f [] ++ [inc])
                   revG := w.revG.set inc (w.revG.getD inc [] ++ [f]) }) w1).idx = w1.idx ∧
        (l.foldl (fun (w : WS) inc =>
          { w with incG := w.incG.set f (w.incG.getD f [] ++ [inc])
                   revG := w.revG.set inc (w.revG.getD inc [] ++ [f]) }) w1).cFormats = w1.cFormats ∧
        (l.foldl (fun (w : WS) inc =>
          { w with incG := w.incG.set f (w.incG.getD f [] ++ [inc])
                   revG := w.revG.set inc (w.revG.getD inc [] ++ [f]) }) w1).cComms = w1.cComms ∧
        (l.foldl (fun (w : WS) inc =>
          { w with incG := w.incG.set f (w.incG.getD f [] ++ [inc])
                   revG := w.revG.set inc (w.revG.getD inc [] ++ [f]) }) w1).cAccts = w1.cAccts := by
      intro l
      induction l with
      | nil => intro w1; exact ⟨rfl, rfl, rfl, rfl⟩
      | cons a l ih2 =>
        intro w1
        simp only [List.foldl_cons]
        exact ih2 _
    have hstep : buildIncludeGraph fs (f :: r) w0 = buildIncludeGraph fs r
        (match fs.get f with
         | none => w0
         | some c => c.incs.foldl (fun (w : WS) inc =>
            { w with incG := w.incG.set f (w.incG.getD f [] ++ [inc])
                     revG := w.revG.set inc (w.revG.getD inc [] ++ [f]) }) w0) := rfl
    rw [hstep]
    cases hg : fs.get f with
    | none => exact ih w0
    | some c =>
      simp only
      obtain ⟨a1, a2, a3, a4⟩ := hinner c.incs w0
      obtain ⟨b1, b2, b3, b4⟩ := ih (c.incs.foldl (fun (w : WS) inc =>
            { w with incG := w.incG.set f (w.incG.getD f [] ++ [inc])
                     revG := w.revG.set inc (w.revG.getD inc [] ++ [f]) }) w0)
      exact ⟨b1.trans a1, b2.trans a2, b3.trans a3, b4.trans a4⟩

theorem findRootByIncludeGraph_snd (fs : FS) (w0 : WS) :
    (findRootByIncludeGraph fs w0).2 = w0 ∨
    (findRootByIncludeGraph fs w0).2 = buildIncludeGraph fs (journalFiles fs) w0 := by
  unfold findRootByIncludeGraph
  cases hj : journalFiles fs with
  | nil => exact Or.inl rfl
  | cons f0 rest =>
    simp only
    split <;> exact Or.inr rfl

theorem findRoot_fields (fs : FS) :
    (findRootJournal fs {}).2.idx = {} ∧ (findRootJournal fs {}).2.cFormats = none ∧
    (findRootJournal fs {}).2.cComms = none ∧ (findRootJournal fs {}).2.cAccts = none ∧
    (((fs.get "main.journal").isSome ∨ (fs.get ".hledger.journal").isSome) →
      (findRootJournal fs {}).2.incG = [] ∧ (findRootJournal fs {}).2.revG = []) := by
  unfold findRootJournal
  by_cases h1 : (fs.get "main.journal").isSome
  · simp [h1]
  · by_cases h2 : (fs.get ".hledger.journal").isSome
    · simp [h1, h2]
    · simp only [h1, h2, Bool.false_eq_true, if_false]
      rcases findRootByIncludeGraph_snd fs {} with h | h
      · rw [h]
        exact ⟨rfl, rfl, rfl, rfl, fun hn => by rcases hn with hn | hn <;> simp_all⟩
      · rw [h]
        obtain ⟨a1, a2, a3, a4⟩ := buildIncludeGraph_fields fs (journalFiles fs) {}
        exact ⟨a1, a2, a3, a4, fun hn => by rcases hn with hn | hn <;> simp_all⟩

/-! ### buildIndexFromResolvedLocked -/

/-- the loop body of `buildIndexFromResolvedLocked` -/
def addIdx (cfg : Cfg) (w : WS) (path : String) (c : Contrib) : WS := putFile cfg w path c []

structure BuildOk (cfg : Cfg) (fs : FS) (w w' : WS) (L : List String) : Prop where
  g : GInv cfg fs w' NoDead
  files : ∀ y, w'.idx.files.get y =
    if y ∈ L then (fs.get y).map (mkFileIdx y) else w.idx.files.get y
  other : w'.root = w.root ∧ w'.hasResolved = w.hasResolved ∧ w'.primary = w.primary ∧
    w'.rfiles = w.rfiles ∧ w'.order = w.order ∧ w'.cFormats = w.cFormats ∧
    w'.cComms = w.cComms ∧ w'.cAccts = w.cAccts

theorem buildAll (cfg : Cfg) (fs : FS) (hok : fsOk fs = true) (rf : AList Contrib)
    (hrf : ∀ x c, rf.get x = some c → fs.get x = some c) :
    ∀ (L : List String) (w : WS), GInv cfg fs w NoDead → L.Nodup →
      (∀ x ∈ L, w.idx.files.get x = none ∧ (rf.get x).isSome) →
      BuildOk cfg fs w (L.foldl (fun w path =>
        match rf.get path with
        | some c => addIdx cfg w path c
        | none => w) w) L := by
  intro L
  induction L with
  | nil =>
    intro w hg _ _
    exact ⟨hg, fun y => by simp, ⟨rfl, rfl, rfl, rfl, rfl, rfl, rfl, rfl⟩⟩
  | cons x L ih =>
    intro w hg hn hL
    rw [List.nodup_cons] at hn
    obtain ⟨hx1, hx2⟩ := hL x List.mem_cons_self
    obtain ⟨c, hc⟩ := Option.isSome_iff_exists.mp hx2
    have hfc := hrf x c hc
    obtain ⟨hxne, hcok⟩ := fsOk_get fs hok x c hfc
    simp only [List.foldl_cons, hc]
    have hput := putFile_ginv cfg fs fs w x c hg hxne hcok hfc (fun _ _ => rfl)
    rw [includesOf_none w x hx1] at hput
    have hfiles1 : ∀ y, (addIdx cfg w x c).idx.files.get y =
        if x = y then some (mkFileIdx x c) else w.idx.files.get y :=
      fun y => files_putFile cfg w x c [] hxne y
    have := ih (addIdx cfg w x c) hput hn.2 (by
      intro y hy
      have hne : ¬ x = y := fun e => hn.1 (e ▸ hy)
      rw [hfiles1 y]
      simp only [hne, if_false]
      exact hL y (List.mem_cons_of_mem _ hy))
    refine ⟨this.g, ?_, ?_⟩
    · intro y
      rw [this.files y, hfiles1 y]
      by_cases e1 : y ∈ L
      · simp [e1]
      · by_cases e2 : x = y
        · subst e2; simp [e1, hfc]
        · have : ¬ y = x := fun h => e2 h.symm
          simp [e1, e2, this]
    · obtain ⟨o1, o2, o3, o4, o5, o6, o7, o8⟩ := this.other
      obtain ⟨p1, p2, p3, p4, p5, p6, p7, p8⟩ := putFile_other cfg w x c []
      exact ⟨o1.trans p1, o2.trans p2, o3.trans p3, o4.trans p4, o5.trans p5, o6.trans p6,
        o7.trans p7, o8.trans p8⟩

theorem loadF_files_nodup (limit : Nat) (fs : FS) :
    ∀ (n : Nat) (todo : List (String × Nat)) (st : LoadSt), st.files.keys.Nodup →
      (loadF limit fs n todo st).files.keys.Nodup := by
  intro n
  induction n with
  | zero => intro todo st h; simpa [loadF] using h
  | succ n ih =>
    intro todo st h
    cases todo with
    | nil => simpa [loadF] using h
    | cons pd rest =>
      obtain ⟨p, d⟩ := pd
      unfold loadF
      split
      · exact ih _ _ h
      · split
        · exact ih _ _ h
        · split
          · exact ih _ _ h
          · exact ih _ _ (nodup_keys_set _ _ _ h)

theorem emptyWS_ginv (cfg : Cfg) (fs : FS) (root : String) (hr : Bool) (p : Option Contrib)
    (rf : AList Contrib) (o : List String) :
    GInv cfg fs ({ root := root, hasResolved := hr, primary := p, rfiles := rf, order := o } : WS) NoDead :=
  ⟨idxInv_empty cfg.fixT, fun p fi h => by simp at h,
   fun p => by simp [includesOf, AList.getD],
   fun q x => by simp [includesOf, AList.getD, NoDead]⟩

/-- `Initialize` establishes the invariant. -/
theorem init_ok (cfg : Cfg) (fs : FS) (hok : fsOk fs = true) (hne : fs ≠ [])
    (hclean : graphsClean cfg fs) (hlim : fs.length ≤ cfg.limit) :
    WInv cfg fs (init cfg fs) ∧ (init cfg fs).root = rootSel fs ∧ CachesNone (init cfg fs) := by
  have hrex := rootSel_exists fs hne
  obtain ⟨c, hc⟩ := Option.isSome_iff_exists.mp hrex
  obtain ⟨hrne, hcok⟩ := fsOk_get fs hok _ c hc
  obtain ⟨g1, g2, g3, g4, g5⟩ := findRoot_fields fs
  have hinit : init cfg fs = buildIndexFromResolved cfg
      { root := rootSel fs, hasResolved := true, primary := some c,
        rfiles := (load cfg.limit fs (rootSel fs) c).files,
        order := (load cfg.limit fs (rootSel fs) c).order } := by
    unfold init
    simp only
    have e0 : (findRootJournal fs {}).1 = rootSel fs := rfl
    rw [e0]
    simp only [hrne, if_false, hc]
    congr 1
    cases hf : cfg.fixG with
    | true =>
      simp only [if_true]
      rw [g1, g2, g3, g4]
    | false =>
      simp only [Bool.false_eq_true, if_false]
      have hnamed : (fs.get "main.journal").isSome ∨ (fs.get ".hledger.journal").isSome := by
        rcases hclean with h | h
        · rw [hf] at h; simp at h
        · exact h
      obtain ⟨g6, g7⟩ := g5 hnamed
      rw [g1, g2, g3, g4, g6, g7]
  rw [hinit]
  generalize hst : load cfg.limit fs (rootSel fs) c = st
  have hkeys : fs.keys.length ≤ cfg.limit := by simpa [AList.keys] using hlim
  obtain ⟨l1, l2⟩ := load_spec cfg.limit fs (rootSel fs) c hkeys hc
  rw [hst] at l1 l2
  have hstn : st.files.keys.Nodup := by
    rw [← hst]; exact loadF_files_nodup _ _ _ _ _ (by simp [AList.keys])
  -- the root is indexed first
  let w0 : WS := { root := rootSel fs, hasResolved := true, primary := some c,
                   rfiles := st.files, order := st.order }
  have hg0 : GInv cfg fs w0 NoDead := emptyWS_ginv cfg fs _ _ _ _ _
  have hput := putFile_ginv cfg fs fs w0 (rootSel fs) c hg0 hrne hcok hc (fun _ _ => rfl)
  have hinc0 : includesOf w0 (rootSel fs) = [] := by simp [includesOf, w0]
  rw [hinc0] at hput
  have hfiles1 : ∀ y, (putFile cfg w0 (rootSel fs) c []).idx.files.get y =
      if rootSel fs = y then some (mkFileIdx (rootSel fs) c) else none := by
    intro y
    rw [files_putFile cfg w0 _ c [] hrne y]
    simp [w0]
  have hrf : ∀ x c', st.files.get x = some c' → fs.get x = some c' := fun x c' h => ((l1 x c').mp h).2.2
  have hL : ∀ x ∈ isort st.files.keys,
      (putFile cfg w0 (rootSel fs) c []).idx.files.get x = none ∧ (st.files.get x).isSome := by
    intro x hx
    have hxk := (mem_isort _ _).mp hx
    have hsome := (mem_keys_iff _ _).mp hxk
    obtain ⟨c', hc'⟩ := Option.isSome_iff_exists.mp hsome
    have hne' := ((l1 x c').mp hc').2.1
    rw [hfiles1 x]
    simp [Ne.symm hne', hsome]
  have hb := buildAll cfg fs hok st.files hrf (isort st.files.keys) _ hput
    (isort_nodup _ hstn) hL
  have hbuild : buildIndexFromResolved cfg w0 =
      (isort st.files.keys).foldl (fun w path =>
        match st.files.get path with
        | some c => addIdx cfg w path c
        | none => w) (putFile cfg w0 (rootSel fs) c []) := by
    unfold buildIndexFromResolved
    simp only [w0]
    -- the loop reads `w.rfiles`, which the loop body never changes
    have hloop : ∀ (L : List String) (w : WS), w.rfiles = st.files →
        L.foldl (fun w path => match w.rfiles.get path with
          | some c => updateIncludeEdges { w with idx := setFileIndex cfg.fixT w.idx path (mkFileIdx path c) } path []
              (mkFileIdx path c).includes
          | none => w) w =
        L.foldl (fun w path => match st.files.get path with
          | some c => addIdx cfg w path c
          | none => w) w := by
      intro L
      induction L with
      | nil => intro w _; rfl
      | cons a L ih =>
        intro w hw
        simp only [List.foldl_cons]
        have hstep : (match w.rfiles.get a with
            | some c => updateIncludeEdges { w with idx := setFileIndex cfg.fixT w.idx a (mkFileIdx a c) } a []
                (mkFileIdx a c).includes
            | none => w) =
            (match st.files.get a with
            | some c => addIdx cfg w a c
            | none => w) := by
          obtain ⟨root, idx, incG, revG, hasResolved, primary, rfiles, order, cFormats, cComms, cAccts⟩ := w
          simp only at hw
          subst hw
          rfl
        rw [hstep]
        cases e : st.files.get a with
        | none => exact ih w hw
        | some ca => exact ih _ hw
    exact hloop _ _ rfl
  show WInv cfg fs (buildIndexFromResolved cfg w0) ∧ _
  rw [hbuild]
  generalize hwf : (isort st.files.keys).foldl _ (putFile cfg w0 (rootSel fs) c []) = wf at hb
  obtain ⟨o1, o2, o3, o4, o5, o6, o7, o8⟩ := hb.other
  obtain ⟨p1, p2, p3, p4, p5, p6, p7, p8⟩ := putFile_other cfg w0 (rootSel fs) c []
  have hroot : wf.root = rootSel fs := o1.trans p1
  have hfiles : ∀ y, wf.idx.files.get y =
      if y = rootSel fs then some (mkFileIdx y c)
      else (st.files.get y).map (mkFileIdx y) := by
    intro y
    rw [hb.files y, hfiles1 y]
    by_cases e1 : y ∈ isort st.files.keys
    · have hxk := (mem_isort _ _).mp e1
      obtain ⟨c', hc'⟩ := Option.isSome_iff_exists.mp ((mem_keys_iff _ _).mp hxk)
      have h3 := (l1 y c').mp hc'
      simp [e1, h3.2.1, hc', h3.2.2]
    · have : st.files.get y = none := by
        rw [get_eq_none_iff]; exact fun h => e1 ((mem_isort _ _).mpr h)
      by_cases e2 : rootSel fs = y
      · subst e2; simp [e1]
      · have : ¬ y = rootSel fs := fun h => e2 h.symm
        simp [e1, e2, this, *]
  have hnone : CachesNone wf := ⟨o6.trans p6, o7.trans p7, o8.trans p8⟩
  refine ⟨⟨⟨by rw [hroot]; exact hrne, ?_, hb.g, ⟨o2.trans p2, ?_, ?_, ?_⟩⟩, ?_, cacheOk_of_none wf hnone⟩, hroot, hnone⟩
  · rw [hroot, hfiles]; simp
  · rw [hroot, hc]; exact o3.trans p3
  · intro p
    rw [o4.trans p4, hroot, hfiles p]
    show st.files.get p = _
    by_cases e : p = rootSel fs
    · simp only [e, if_true]
      cases e2 : st.files.get (rootSel fs) with
      | none => rfl
      | some c' => exact absurd rfl ((l1 _ c').mp e2).2.1
    · simp only [e, if_false]
      cases e2 : st.files.get p with
      | none => simp
      | some c' => simp [((l1 p c').mp e2).2.2]
  · intro p
    rw [o5.trans p5, o4.trans p4]
    exact l2 p
  · intro p
    rw [hroot, hfiles p]
    by_cases e : p = rootSel fs
    · subst e
      simp only [if_true, Option.isSome_some, true_iff]
      exact ⟨.base, hrex⟩
    · simp only [e, if_false, Option.isSome_map]
      constructor
      · intro h
        obtain ⟨c', hc'⟩ := Option.isSome_iff_exists.mp h
        have := (l1 p c').mp hc'
        exact ⟨this.1, by rw [this.2.2]; rfl⟩
      · rintro ⟨h1, h2⟩
        obtain ⟨c', hc'⟩ := Option.isSome_iff_exists.mp h2
        rw [(l1 p c').mpr ⟨h1, e, hc'⟩]; rfl

/-! ### one edit -/

theorem step_ok (cfg : Cfg) (s : St) (u : Upd) (h : WInv cfg s.fs s.w) (hok : fsOk s.fs = true)
    (hp : u.path ≠ "") (hc : contribOk u.c = true) :
    WInv cfg (step cfg s u).fs (step cfg s u).w ∧ fsOk (step cfg s u).fs = true ∧
    (step cfg s u).w.root = s.w.root ∧ (step cfg s u).fs = s.fs.set u.path u.c := by
  have hok' := fsOk_set s.fs hok u.path u.c hp hc
  have hget : (s.fs.set u.path u.c).get u.path = some u.c := get_set_self _ _ _
  have hother : ∀ y, y ≠ u.path → (s.fs.set u.path u.c).get y = s.fs.get y :=
    fun y hy => get_set_ne _ _ _ _ (Ne.symm hy)
  obtain ⟨h1, r1⟩ := updateFile_ok cfg s.fs (s.fs.set u.path u.c) s.fs s.w u.path u.c h hok' hget
    hother (fun y hy => (hother y hy).symm)
  have h1' := observe_winv cfg _ _ h1
  obtain ⟨h2, r2⟩ := updateFile_ok cfg (s.fs.set u.path u.c) (s.fs.set u.path u.c)
    (s.fs.set u.path u.c) _ u.path u.c h1' hok' hget (fun _ _ => rfl) (fun _ _ => rfl)
  have h2' := observe_winv cfg _ _ h2
  refine ⟨h2', hok', ?_, rfl⟩
  show (observe _).2.root = _
  rw [observe_snd]
  show (updateFile cfg _ (observe _).2 u.path u.c).root = _
  rw [r2, observe_snd]
  exact r1

end HL.Lemmas.Init
