import HL.Model.Dec

/-! Exactness of the decimal model: every operation commutes with `toRat`. -/
namespace HL
namespace Dec

theorem ten_ne_zero : (10 : Rat) ≠ 0 := by decide
theorem ten_pos : (0 : Rat) < 10 := by decide

theorem pow10_pos (e : Int) : (0 : Rat) < (10 : Rat) ^ e := Rat.zpow_pos ten_pos
theorem pow10_ne_zero (e : Int) : (10 : Rat) ^ e ≠ 0 := by
  intro h
  have := pow10_pos e
  rw [h] at this
  exact Rat.lt_irrefl this

theorem intCast_pow10 (k : Nat) : (((10 : Int) ^ k : Int) : Rat) = (10 : Rat) ^ (k : Int) := by
  rw [Rat.intCast_pow, Rat.zpow_natCast]; rfl

theorem toRat_mk (c e : Int) : toRat ⟨c, e⟩ = (c : Rat) * (10 : Rat) ^ e := rfl

/-- scaling the coefficient up and the exponent down does not change the value. -/
theorem toRat_scale (c e : Int) (k : Nat) :
    toRat ⟨c * 10 ^ k, e - k⟩ = toRat ⟨c, e⟩ := by
  simp only [toRat_mk, Rat.intCast_mul, intCast_pow10]
  have : (10 : Rat) ^ e = (10 : Rat) ^ (k : Int) * (10 : Rat) ^ (e - k) := by
    rw [← Rat.zpow_add ten_ne_zero]; congr 1; omega
  rw [this, Rat.mul_assoc]

theorem rescale_toRat {d : Dec} {e : Int} (h : e ≤ d.exp) : toRat (rescale d e) = toRat d := by
  unfold rescale
  rw [if_neg (by omega)]
  have := toRat_scale d.coef d.exp (d.exp - e).toNat
  have he : d.exp - ((d.exp - e).toNat : Int) = e := by omega
  rw [he] at this
  exact this

theorem rescale_exp (d : Dec) (e : Int) : (rescale d e).exp = e := by
  unfold rescale; split <;> rfl

theorem rescalePair_spec (a b : Dec) :
    toRat (rescalePair a b).1 = toRat a ∧ toRat (rescalePair a b).2 = toRat b ∧
    (rescalePair a b).1.exp = (rescalePair a b).2.exp := by
  unfold rescalePair
  split
  · refine ⟨rfl, rescale_toRat (by omega), ?_⟩
    simp [rescale_exp]
  · split
    · refine ⟨rescale_toRat (by omega), rfl, ?_⟩
      simp [rescale_exp]
    · refine ⟨rfl, rfl, ?_⟩
      show a.exp = b.exp
      omega

theorem add_exact (a b : Dec) : toRat (add a b) = toRat a + toRat b := by
  obtain ⟨h1, h2, h3⟩ := rescalePair_spec a b
  rw [← h1, ← h2]
  simp only [add, toRat, Rat.intCast_add, h3]
  rw [Rat.add_mul]

theorem sub_exact (a b : Dec) : toRat (sub a b) = toRat a - toRat b := by
  obtain ⟨h1, h2, h3⟩ := rescalePair_spec a b
  rw [← h1, ← h2]
  simp only [sub, toRat, Rat.intCast_sub, h3]
  grind

theorem neg_exact (a : Dec) : toRat (neg a) = -toRat a := by
  simp only [neg, toRat, Rat.intCast_neg, Rat.neg_mul]

theorem toRat_zero : toRat zero = 0 := by
  simp [zero, toRat]

theorem toRat_zeroValue : toRat zeroValue = 0 := by
  simp [zeroValue, toRat]

theorem toRat_eq_zero_iff (a : Dec) : toRat a = 0 ↔ a.coef = 0 := by
  simp only [toRat, Rat.mul_eq_zero, Rat.intCast_eq_zero_iff]
  constructor
  · rintro (h | h)
    · exact h
    · exact absurd h (pow10_ne_zero _)
  · intro h; exact Or.inl h

theorem isZero_iff (a : Dec) : isZero a = true ↔ toRat a = 0 := by
  rw [toRat_eq_zero_iff]; simp [isZero]

theorem toRat_neg_iff (a : Dec) : toRat a < 0 ↔ a.coef < 0 := by
  simp only [toRat]
  rw [Rat.mul_neg_iff_of_pos_right (pow10_pos _)]
  exact Rat.intCast_neg_iff

theorem isNegative_iff (a : Dec) : isNegative a = true ↔ toRat a < 0 := by
  rw [toRat_neg_iff]; simp [isNegative]

theorem toRat_pos_iff (a : Dec) : 0 < toRat a ↔ 0 < a.coef := by
  simp only [toRat]
  rw [Rat.mul_pos_iff_of_pos_right (pow10_pos _)]
  exact Rat.intCast_pos

theorem isPositive_iff (a : Dec) : isPositive a = true ↔ 0 < toRat a := by
  rw [toRat_pos_iff]; simp [isPositive]

/-- `|x|` on rationals, written out. -/
def rabs (q : Rat) : Rat := if q < 0 then -q else q

theorem abs_exact (a : Dec) : toRat (abs a) = rabs (toRat a) := by
  unfold abs rabs
  by_cases h : isNegative a = true
  · have hc : a.coef < 0 := by simpa [isNegative] using h
    rw [if_pos h, if_pos ((isNegative_iff a).1 h)]
    have : (Int.ofNat a.coef.natAbs) = -a.coef := by
      simp only [Int.ofNat_eq_natCast]; omega
    rw [this]
    exact neg_exact a
  · rw [if_neg h, if_neg (fun hh => h ((isNegative_iff a).2 hh))]

theorem abs_nonneg (a : Dec) : 0 ≤ (abs a).coef := by
  unfold abs
  split
  · simp
  · rename_i h
    simp [isNegative] at h
    exact h

theorem mul_exact {a b m : Dec} (h : mul a b = some m) : toRat m = toRat a * toRat b := by
  unfold mul at h
  simp only at h
  split at h
  · cases h
  · cases h
    simp only [toRat, Rat.intCast_mul, Rat.zpow_add ten_ne_zero]
    grind

theorem mul_eq_none_iff (a b : Dec) :
    mul a b = none ↔ (a.exp + b.exp > int32Max ∨ a.exp + b.exp < int32Min) := by
  unfold mul
  simp only
  split <;> simp_all

theorem sign_exact (a : Dec) :
    sign a = if toRat a < 0 then -1 else if toRat a = 0 then 0 else 1 := by
  unfold sign
  simp only [toRat_neg_iff, toRat_eq_zero_iff]

theorem cmp_exact (a b : Dec) :
    cmp a b = if toRat a < toRat b then -1 else if toRat a = toRat b then 0 else 1 := by
  obtain ⟨h1, h2, h3⟩ := rescalePair_spec a b
  rw [← h1, ← h2]
  unfold cmp
  simp only [toRat, h3]
  have hp := pow10_pos (rescalePair a b).2.exp
  have hlt : ((rescalePair a b).1.coef : Rat) * (10 : Rat) ^ (rescalePair a b).2.exp <
      ((rescalePair a b).2.coef : Rat) * (10 : Rat) ^ (rescalePair a b).2.exp ↔
      (rescalePair a b).1.coef < (rescalePair a b).2.coef := by
    rw [← Rat.intCast_lt_intCast]
    constructor
    · intro h
      exact Rat.lt_of_mul_lt_mul_right h (Rat.le_of_lt hp)
    · intro h
      exact Rat.mul_lt_mul_of_pos_right h hp
  have heq : ((rescalePair a b).1.coef : Rat) * (10 : Rat) ^ (rescalePair a b).2.exp =
      ((rescalePair a b).2.coef : Rat) * (10 : Rat) ^ (rescalePair a b).2.exp ↔
      (rescalePair a b).1.coef = (rescalePair a b).2.coef := by
    constructor
    · intro h
      have h' := congrArg (· * ((10 : Rat) ^ (rescalePair a b).2.exp)⁻¹) h
      simp only [Rat.mul_assoc, Rat.mul_inv_cancel _ (pow10_ne_zero _), Rat.mul_one] at h'
      exact Rat.intCast_inj.1 h'
    · intro h; rw [h]
  simp only [hlt, heq]

theorem equal_iff (a b : Dec) : equal a b = true ↔ toRat a = toRat b := by
  unfold equal
  rw [cmp_exact]
  by_cases h1 : toRat a < toRat b
  · simp only [h1, if_true]
    constructor
    · intro h; exact absurd h (by decide)
    · intro h; rw [h] at h1; exact absurd h1 Rat.lt_irrefl
  · by_cases h2 : toRat a = toRat b
    · simp [h2]
    · simp [h1, h2]

end Dec
end HL
