/-
  Commodity formats.  `GetCommodityFormats` (repaired by fix-formats-path-order.diff) lets the
  last directive with a format win, reading the root journal and then the included files in
  path order: `formats_ok` — the result is that of a rebuild, whatever `resolved.FileOrder` is.
  The pinned getter read the files in the order of `resolved.FileOrder`; the lemmas about it are
  kept: if the member files other than the root do not disagree on any commodity's format the
  result does not depend on that order (`formats_order_indep`, `agree_of_noConflict`).
-/
import HL.Lemmas.View
namespace HL.Lemmas.Formats
open HL.Index HL.Workspace HL.Lemmas.AList HL.Lemmas.Index HL.Lemmas.WsInv HL.Lemmas.Update
open HL.Lemmas.View HL.Lemmas.Load HL.Spec.Rebuild

def fmtStep (m : AList String) (cd : CommDir) : AList String :=
  if cd.raw ≠ "" then m.set cd.sym cd.fmt else m

theorem formatsOf_eq (l : List CommDir) : formatsOf l = l.foldl fmtStep [] := rfl

theorem pinnedComputeFormats_eq (w : WS) : pinnedComputeFormats w = formatsOf (allCommDirs w) := rfl

theorem get_fmtStep (m : AList String) (cd : CommDir) (sym : String) :
    (fmtStep m cd).get sym = if cd.raw ≠ "" ∧ cd.sym = sym then some cd.fmt else m.get sym := by
  unfold fmtStep
  by_cases hr : cd.raw ≠ ""
  · rw [if_pos hr, get_set]
    by_cases hs : cd.sym = sym <;> simp [hr, hs]
  · rw [if_neg hr]
    have : ¬ (cd.raw ≠ "" ∧ cd.sym = sym) := fun h => hr h.1
    rw [if_neg this]

theorem get_foldl_fmt (l : List CommDir) (m : AList String) (sym : String) :
    (l.foldl fmtStep m).get sym =
      match (formatsOf l).get sym with
      | some v => some v
      | none => m.get sym := by
  induction l generalizing m with
  | nil => simp [formatsOf]
  | cons cd r ih =>
    rw [formatsOf_eq]
    simp only [List.foldl_cons]
    rw [ih (fmtStep m cd), ih (fmtStep [] cd)]
    cases (formatsOf r).get sym with
    | some v => rfl
    | none =>
      simp only [get_fmtStep]
      by_cases hc : cd.raw ≠ "" ∧ cd.sym = sym
      · simp [hc]
      · simp [hc]

theorem get_formatsOf_append (a b : List CommDir) (sym : String) :
    (formatsOf (a ++ b)).get sym =
      match (formatsOf b).get sym with
      | some v => some v
      | none => (formatsOf a).get sym := by
  rw [formatsOf_eq, List.foldl_append, get_foldl_fmt, ← formatsOf_eq]

theorem formatsOf_nodup (l : List CommDir) : (formatsOf l).keys.Nodup := by
  rw [formatsOf_eq]
  have : ∀ (m : AList String), m.keys.Nodup → (l.foldl fmtStep m).keys.Nodup := by
    induction l with
    | nil => intro m h; exact h
    | cons cd r ih =>
      intro m h
      simp only [List.foldl_cons]
      apply ih
      unfold fmtStep
      split
      · exact nodup_keys_set _ _ _ h
      · exact h
  exact this [] (by simp [AList.keys])

/-- the files of `ps` that give `sym` a format agree on it -/
def Agree (g : String → List CommDir) (ps : List String) (sym : String) : Prop :=
  ∀ p ∈ ps, ∀ q ∈ ps, ∀ v v', (formatsOf (g p)).get sym = some v →
    (formatsOf (g q)).get sym = some v' → v = v'

theorem get_formats_files (g : String → List CommDir) (sym : String) :
    ∀ (ps : List String), Agree g ps sym → ∀ v,
      ((formatsOf (ps.flatMap g)).get sym = some v ↔ ∃ p ∈ ps, (formatsOf (g p)).get sym = some v) := by
  intro ps
  induction ps with
  | nil => intro _ v; simp [formatsOf]
  | cons p rest ih =>
    intro hag v
    have hag' : Agree g rest sym := fun a ha b hb => hag a (List.mem_cons_of_mem _ ha) b (List.mem_cons_of_mem _ hb)
    rw [List.flatMap_cons, get_formatsOf_append]
    cases hr : (formatsOf (rest.flatMap g)).get sym with
    | some v' =>
      simp only
      obtain ⟨q, hq, hqv⟩ := (ih hag' v').mp hr
      constructor
      · intro h
        simp only [Option.some.injEq] at h
        subst h
        exact ⟨q, List.mem_cons_of_mem _ hq, hqv⟩
      · rintro ⟨q', hq', hq'v⟩
        rw [hag q' hq' q (List.mem_cons_of_mem _ hq) v v' hq'v hqv]
    | none =>
      simp only
      constructor
      · intro h; exact ⟨p, List.mem_cons_self, h⟩
      · rintro ⟨q, hq, hqv⟩
        rcases List.mem_cons.mp hq with e | e
        · exact e ▸ hqv
        · have := (ih hag' v).mpr ⟨q, e, hqv⟩
          rw [hr] at this; simp at this

theorem option_ext {α : Type} (a b : Option α) (h : ∀ v, a = some v ↔ b = some v) : a = b := by
  cases a with
  | none =>
    cases b with
    | none => rfl
    | some v => exact absurd ((h v).mpr rfl) (by simp)
  | some v => exact ((h v).mp rfl).symm

/-- two file orders with the same files give the same formats when the files agree -/
theorem formats_order_indep (root : List CommDir) (g : String → List CommDir)
    (ps qs : List String) (hmem : ∀ x, x ∈ ps ↔ x ∈ qs) (sym : String)
    (hag : Agree g ps sym) :
    (formatsOf (root ++ ps.flatMap g)).get sym = (formatsOf (root ++ qs.flatMap g)).get sym := by
  have hag' : Agree g qs sym := fun a ha b hb => hag a ((hmem a).mpr ha) b ((hmem b).mpr hb)
  rw [get_formatsOf_append, get_formatsOf_append]
  have : (formatsOf (ps.flatMap g)).get sym = (formatsOf (qs.flatMap g)).get sym := by
    apply option_ext
    intro v
    rw [get_formats_files g sym ps hag v, get_formats_files g sym qs hag' v]
    constructor
    · rintro ⟨p, hp, h⟩; exact ⟨p, (hmem p).mp hp, h⟩
    · rintro ⟨p, hp, h⟩; exact ⟨p, (hmem p).mpr hp, h⟩
  rw [this]

/-! ### the guard -/

def cdsAt (fs : FS) (p : String) : List CommDir :=
  match fs.get p with
  | some c => c.cds
  | none => []

theorem length_le_one_eq (l : List String) (h : (dedup l).length < 2) (a b : String)
    (ha : a ∈ l) (hb : b ∈ l) : a = b := by
  have ha' := (mem_dedup l a).mpr ha
  have hb' := (mem_dedup l b).mpr hb
  match hd : dedup l, ha', hb' with
  | [], ha', _ => simp at ha'
  | [x], ha', hb' =>
    simp only [List.mem_singleton] at ha' hb'
    rw [ha', hb']
  | x :: y :: r, _, _ => rw [hd] at h; simp only [List.length_cons] at h; omega

theorem agree_of_noConflict (fs : FS) (root : String) (h : formatConflict fs root = false)
    (ps : List String) (hps : ∀ p ∈ ps, p ∈ members fs root ∧ p ≠ root) (sym : String) :
    Agree (cdsAt fs) ps sym := by
  intro p hp q hq v v' hv hv'
  obtain ⟨hpm, hpr⟩ := hps p hp
  obtain ⟨hqm, hqr⟩ := hps q hq
  obtain ⟨cp, hcp⟩ := Option.isSome_iff_exists.mp ((mem_members fs root p).mp hpm).2
  obtain ⟨cq, hcq⟩ := Option.isSome_iff_exists.mp ((mem_members fs root q).mp hqm).2
  simp only [cdsAt, hcp] at hv
  simp only [cdsAt, hcq] at hv'
  simp only [formatConflict, List.any_eq_false, decide_eq_true_eq, Nat.not_le] at h
  have hcpm : cp ∈ List.filterMap fs.get (List.filter (fun x => decide (x ≠ root)) (members fs root)) :=
    List.mem_filterMap.mpr ⟨p, List.mem_filter.mpr ⟨hpm, by simpa using hpr⟩, hcp⟩
  have hcqm : cq ∈ List.filterMap fs.get (List.filter (fun x => decide (x ≠ root)) (members fs root)) :=
    List.mem_filterMap.mpr ⟨q, List.mem_filter.mpr ⟨hqm, by simpa using hqr⟩, hcq⟩
  have hsym : sym ∈ dedup ((List.filterMap fs.get (List.filter (fun x => decide (x ≠ root)) (members fs root))).flatMap
      fun c => (formatsOf c.cds).keys) := by
    rw [mem_dedup]
    exact List.mem_flatMap.mpr ⟨cp, hcpm, (mem_keys_iff _ _).mpr (by rw [hv]; rfl)⟩
  have := h sym hsym
  exact length_le_one_eq _ this v v'
    (List.mem_filterMap.mpr ⟨cp, hcpm, hv⟩) (List.mem_filterMap.mpr ⟨cq, hcqm, hv'⟩)

/-! ### the formats of the workspace and of a rebuild -/

theorem flatMap_congr' {α β : Type} (l : List α) (f g : α → List β) (h : ∀ x ∈ l, f x = g x) :
    l.flatMap f = l.flatMap g := by
  induction l with
  | nil => rfl
  | cons a r ih =>
    simp only [List.flatMap_cons]
    rw [h a List.mem_cons_self, ih (fun x hx => h x (List.mem_cons_of_mem _ hx))]

theorem allCommDirs_eq (cfg : Cfg) (fs : FS) (w : WS) (h : WInv cfg fs w) :
    allCommDirs w = cdsAt fs w.root ++ w.order.flatMap (cdsAt fs) := by
  unfold allCommDirs
  have hR := h.pinv.r
  congr 1
  · rw [hR.primary]; rfl
  · apply flatMap_congr'
    intro p hp
    have hs := (hR.order p).mp hp
    have hrf := hR.rfiles p
    by_cases e1 : p = w.root
    · rw [hrf] at hs; simp [e1] at hs
    · by_cases e2 : (w.idx.files.get p).isSome
      · simp only [e1, e2, if_false, if_true] at hrf
        simp only [cdsAt, hrf]
        try rfl
      · rw [hrf] at hs; simp [e1, e2] at hs

theorem mem_order (cfg : Cfg) (fs : FS) (w : WS) (h : WInv cfg fs w) (p : String) :
    p ∈ w.order ↔ (p ∈ members fs w.root ∧ p ≠ w.root) := by
  have hR := h.pinv.r
  rw [hR.order p, hR.rfiles p, mem_members]
  by_cases e1 : p = w.root
  · simp [e1]
  · simp only [e1, if_false, ne_eq, not_false_eq_true, and_true]
    by_cases e2 : (w.idx.files.get p).isSome
    · simp only [e2, if_true]
      have := (h.closed p).mp e2
      simp [this.1, this.2]
    · simp only [e2]
      constructor
      · intro h'; simp at h'
      · intro h'; exact absurd ((h.closed p).mpr h') e2

theorem mem_rfiles_keys (cfg : Cfg) (fs : FS) (w : WS) (h : WInv cfg fs w) (p : String) :
    p ∈ dedup w.rfiles.keys ↔ p ∈ (members fs w.root).filter (· ≠ w.root) := by
  rw [mem_dedup, mem_keys_iff, ← h.pinv.r.order p, mem_order cfg fs w h p, List.mem_filter]
  simp

/-- the directives `GetCommodityFormats` reads are those of the root and of the other member
    files of the directory, in path order -/
theorem pathCommDirs_eq (cfg : Cfg) (fs : FS) (w : WS) (h : WInv cfg fs w) :
    pathCommDirs w =
      cdsAt fs w.root ++ (isort ((members fs w.root).filter (· ≠ w.root))).flatMap (cdsAt fs) := by
  unfold pathCommDirs
  have hR := h.pinv.r
  have hs : isort (dedup w.rfiles.keys) = isort ((members fs w.root).filter (· ≠ w.root)) :=
    isort_ext _ _ (dedup_nodup _) ((members_nodup fs w.root).filter _) (mem_rfiles_keys cfg fs w h)
  rw [hs]
  congr 1
  · rw [hR.primary]; rfl
  · apply flatMap_congr'
    intro p hp
    rw [mem_isort, ← mem_rfiles_keys cfg fs w h p, mem_dedup, mem_keys_iff] at hp
    have hrf := hR.rfiles p
    by_cases e1 : p = w.root
    · rw [hrf] at hp; simp [e1] at hp
    · by_cases e2 : (w.idx.files.get p).isSome
      · simp only [e1, e2, if_false, if_true] at hrf
        simp only [cdsAt, hrf]
        try rfl
      · rw [hrf] at hp; simp [e1, e2] at hp

theorem computeFormats_eq' (w : WS) : computeFormats w = formatsOf (pathCommDirs w) := rfl

/-- the commodity formats of a workspace that satisfies the invariant for the directory `fs`
    are those of the specification (code repaired by fix-formats-path-order.diff: no guard) -/
theorem formats_ok (cfg : Cfg) (fs : FS) (w : WS) (h : WInv cfg fs w) :
    formatsOk (rebuildAt cfg.limit w.root fs) (observe w).1 = true := by
  rw [observe_fst]
  simp only [formatsOk, newF_eq cfg fs w h, Bool.and_eq_true, beq_iff_eq, List.all_eq_true]
  obtain ⟨cr, hcr⟩ := Option.isSome_iff_exists.mp ((h.closed w.root).mp h.pinv.rootIdx).2
  have hR : (rebuildAt cfg.limit w.root fs).formats = computeFormats w := by
    rw [computeFormats_eq', pathCommDirs_eq cfg fs w h]
    have e1 : cdsAt fs w.root = cr.cds := by simp [cdsAt, hcr]
    simp only [rebuildAt, formatOrder, hcr, List.flatMap_cons]
    rw [e1]
    rfl
  rw [hR]
  exact ⟨rfl, fun _ _ => rfl⟩

end HL.Lemmas.Formats
