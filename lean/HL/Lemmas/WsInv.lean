/-
  The workspace invariant and its preservation by the elementary steps of
  UpdateFile / refreshIncludeTreeLocked / buildIndexFromResolvedLocked:
  indexing one file (`putFile`), un-indexing one file (`dropFile`), recording it in the
  resolved journal.
-/
import HL.Lemmas.Index
import HL.Lemmas.Edges
import HL.Lemmas.Load
namespace HL.Lemmas.WsInv
open HL.Index HL.Workspace HL.Lemmas.AList HL.Lemmas.ReachIdx HL.Lemmas.Edges HL.Lemmas.Index
open HL.Spec.Rebuild

/-- include targets of an indexed file (`FileIndex.Includes`), none for other paths -/
def includesOf (w : WS) (p : String) : List String :=
  match w.idx.files.get p with
  | some fi => fi.includes
  | none => []

/-- no path is being removed -/
def NoDead : String → Prop := fun _ => False

/-- index, include graph and reverse graph are consistent with the directory `fs`.
    `D` holds of the paths whose reverse-graph entry has been deleted (used while a batch of
    unreachable files is being removed; `NoDead` otherwise). -/
structure GInv (cfg : Cfg) (fs : FS) (w : WS) (D : String → Prop) : Prop where
  idx : IdxInv cfg.fixT w.idx
  fresh : ∀ p fi, w.idx.files.get p = some fi → ∃ c, fs.get p = some c ∧ fi = mkFileIdx p c
  incOk : ∀ p, w.incG.getD p [] = includesOf w p
  revOk : ∀ q x, x ∈ w.revG.getD q [] ↔ (¬ D q ∧ q ∈ includesOf w x)

/-- the resolved journal holds the root as primary and exactly the other indexed files -/
structure RInv (fs : FS) (w : WS) : Prop where
  has : w.hasResolved = true
  primary : w.primary = fs.get w.root
  rfiles : ∀ p, w.rfiles.get p =
    if p = w.root then none else if (w.idx.files.get p).isSome then fs.get p else none
  order : ∀ p, p ∈ w.order ↔ (w.rfiles.get p).isSome

structure PInv (cfg : Cfg) (fs : FS) (w : WS) : Prop where
  root_ne : w.root ≠ ""
  rootIdx : (w.idx.files.get w.root).isSome
  g : GInv cfg fs w NoDead
  r : RInv fs w

def CachesNone (w : WS) : Prop := w.cFormats = none ∧ w.cComms = none ∧ w.cAccts = none

/-- a cached value is what the getter would compute now -/
def CacheOk (w : WS) : Prop :=
  (∀ f, w.cFormats = some f → f = computeFormats w) ∧
  (∀ f, w.cComms = some f → f = computeComms w) ∧
  (∀ f, w.cAccts = some f → f = computeAccts w)

/-- C12 `members_eq_reach`: the indexed files are the existing files reachable from the root -/
def Closed (fs : FS) (w : WS) : Prop :=
  ∀ p, (w.idx.files.get p).isSome ↔ (Reach fs w.root p ∧ (fs.get p).isSome)

/-! ### the directory -/

theorem fsOk_get (fs : FS) (h : fsOk fs = true) (p : String) (c : Contrib)
    (hg : fs.get p = some c) : p ≠ "" ∧ contribOk c = true := by
  simp only [fsOk, Bool.and_eq_true, decide_eq_true_eq, List.all_eq_true] at h
  have := h.2 (p, c) (get_mem fs p c hg)
  simpa using this

theorem fsOk_nodup (fs : FS) (h : fsOk fs = true) : fs.keys.Nodup := by
  simp only [fsOk, Bool.and_eq_true, decide_eq_true_eq] at h
  exact nodup_of_dedup_eq _ h.1

theorem mem_set_cases {α : Type} (m : AList α) (k : String) (v : α) (e : String × α)
    (h : e ∈ m.set k v) : e = (k, v) ∨ e ∈ m := by
  induction m with
  | nil => simp [AList.set] at h; exact Or.inl h
  | cons a r ih =>
    obtain ⟨a1, a2⟩ := a
    unfold AList.set at h
    by_cases e2 : a1 = k
    · simp only [e2, if_true, List.mem_cons] at h
      rcases h with h | h
      · exact Or.inl h
      · exact Or.inr (List.mem_cons_of_mem _ h)
    · simp only [e2, if_false, List.mem_cons] at h
      rcases h with h | h
      · exact Or.inr (h ▸ List.mem_cons_self)
      · rcases ih h with h | h
        · exact Or.inl h
        · exact Or.inr (List.mem_cons_of_mem _ h)

theorem fsOk_set (fs : FS) (h : fsOk fs = true) (p : String) (c : Contrib) (hp : p ≠ "")
    (hc : contribOk c = true) : fsOk (fs.set p c) = true := by
  have hn := fsOk_nodup fs h
  simp only [fsOk, Bool.and_eq_true, decide_eq_true_eq, List.all_eq_true] at h ⊢
  refine ⟨(dedup_eq_self _ (nodup_keys_set fs p c hn)).symm, ?_⟩
  intro e he
  rcases mem_set_cases fs p c e he with h1 | h1
  · subst h1; simp [hp, hc]
  · exact h.2 e h1

/-! ### includes of a file index -/

theorem includesOf_eq (w : WS) (p : String) (fi : FileIdx) (h : w.idx.files.get p = some fi) :
    includesOf w p = fi.includes := by simp [includesOf, h]

theorem includesOf_none (w : WS) (p : String) (h : w.idx.files.get p = none) :
    includesOf w p = [] := by simp [includesOf, h]

theorem mem_includesOf (cfg : Cfg) (fs : FS) (w : WS) (D : String → Prop) (h : GInv cfg fs w D)
    (u v : String) (hv : v ∈ includesOf w u) :
    ∃ c, w.idx.files.get u = some (mkFileIdx u c) ∧ fs.get u = some c ∧ v ∈ c.incs ∧ v ≠ u := by
  unfold includesOf at hv
  cases e : w.idx.files.get u with
  | none => simp [e] at hv
  | some fi =>
    simp only [e] at hv
    obtain ⟨c, hc, hfi⟩ := h.fresh u fi e
    subst hfi
    simp only [mkFileIdx] at hv
    have := (mem_resolveIncl u c.incs v).mp hv
    exact ⟨c, rfl, hc, this.1, this.2⟩

/-- reachability in the include graph of the index is reachability in the directory -/
theorem reachG_sound (cfg : Cfg) (fs : FS) (w : WS) (D : String → Prop) (h : GInv cfg fs w D)
    (x : String) (hx : ReachS (succG w.incG) w.root x) : Reach fs w.root x := by
  induction hx with
  | base => exact .base
  | @step u v _ hq ih =>
    simp only [succG, h.incOk u] at hq
    obtain ⟨c, _, hc, hv, _⟩ := mem_includesOf cfg fs w D h u v hq
    exact .step ih (by simp [succs, hc, hv])

/-! ### indexing one file -/

/-- `SetFileIndex(path, BuildFileIndex…)` followed by `updateIncludeEdgesLocked(path, old, new)` -/
def putFile (cfg : Cfg) (w : WS) (x : String) (c : Contrib) (old : List String) : WS :=
  updateIncludeEdges { w with idx := setFileIndex cfg.fixT w.idx x (mkFileIdx x c) } x old
    (mkFileIdx x c).includes

theorem files_putFile (cfg : Cfg) (w : WS) (x : String) (c : Contrib) (old : List String)
    (hx : x ≠ "") (y : String) :
    (putFile cfg w x c old).idx.files.get y =
      if x = y then some (mkFileIdx x c) else w.idx.files.get y := by
  show (setFileIndex cfg.fixT w.idx x (mkFileIdx x c)).files.get y = _
  exact get_files_setFileIndex _ _ _ _ hx y

theorem includesOf_putFile (cfg : Cfg) (w : WS) (x : String) (c : Contrib) (old : List String)
    (hx : x ≠ "") (y : String) :
    includesOf (putFile cfg w x c old) y =
      if x = y then (mkFileIdx x c).includes else includesOf w y := by
  unfold includesOf
  rw [files_putFile cfg w x c old hx y]
  by_cases e : x = y <;> simp [e]

theorem putFile_other (cfg : Cfg) (w : WS) (x : String) (c : Contrib) (old : List String) :
    (putFile cfg w x c old).root = w.root ∧ (putFile cfg w x c old).hasResolved = w.hasResolved ∧
    (putFile cfg w x c old).primary = w.primary ∧ (putFile cfg w x c old).rfiles = w.rfiles ∧
    (putFile cfg w x c old).order = w.order ∧ (putFile cfg w x c old).cFormats = w.cFormats ∧
    (putFile cfg w x c old).cComms = w.cComms ∧ (putFile cfg w x c old).cAccts = w.cAccts :=
  ⟨rfl, rfl, rfl, rfl, rfl, rfl, rfl, rfl⟩

theorem putFile_ginv (cfg : Cfg) (fs fs' : FS) (w : WS) (x : String) (c : Contrib)
    (h : GInv cfg fs w NoDead) (hx : x ≠ "") (hc : contribOk c = true)
    (hfs : fs'.get x = some c) (hfs' : ∀ y, y ≠ x → fs'.get y = fs.get y) :
    GInv cfg fs' (putFile cfg w x c (includesOf w x)) NoDead where
  idx := idxInv_setFileIndex cfg.fixT w.idx x c h.idx hc
  fresh := by
    intro p fi hg
    rw [files_putFile cfg w x c _ hx p] at hg
    by_cases e : x = p
    · subst e
      simp only [if_true, Option.some.injEq] at hg
      exact ⟨c, hfs, hg.symm⟩
    · simp only [e, if_false] at hg
      obtain ⟨c', h1, h2⟩ := h.fresh p fi hg
      exact ⟨c', by rw [hfs' p (fun h => e h.symm)]; exact h1, h2⟩
  incOk := by
    intro p
    rw [includesOf_putFile cfg w x c _ hx p]
    show (updateIncludeEdges _ x _ _).incG.getD p [] = _
    rw [incG_update]
    by_cases e : x = p
    · simp [e]
    · simp only [e, if_false]; exact h.incOk p
  revOk := by
    intro q a
    rw [includesOf_putFile cfg w x c _ hx a]
    show a ∈ (updateIncludeEdges _ x _ _).revG.getD q [] ↔ _
    rw [mem_rev_update]
    have hr := h.revOk q a
    simp only [NoDead, not_false_eq_true, true_and] at hr ⊢
    show (a ∈ w.revG.getD q [] ∧ ¬ (q ∈ includesOf w x ∧ a = x)) ∨
      (q ∈ (mkFileIdx x c).includes ∧ a = x) ↔ _
    rw [hr]
    by_cases e : x = a
    · subst e
      simp only [if_true, and_true]
      constructor
      · rintro (⟨h1, h2⟩ | h1)
        · exact absurd h1 h2
        · exact h1
      · intro h1; exact Or.inr h1
    · have e' : ¬ a = x := fun h => e h.symm
      simp [e, e']

/-! ### recording a file in the resolved journal -/

theorem updateResolved_fields (w : WS) (x : String) (c : Contrib) :
    (updateResolved w x c).root = w.root ∧ (updateResolved w x c).idx = w.idx ∧
    (updateResolved w x c).incG = w.incG ∧ (updateResolved w x c).revG = w.revG ∧
    (updateResolved w x c).hasResolved = true ∧
    (updateResolved w x c).cFormats = w.cFormats ∧ (updateResolved w x c).cComms = w.cComms ∧
    (updateResolved w x c).cAccts = w.cAccts := by
  unfold updateResolved
  by_cases h : x = w.root <;> simp [h]

theorem updateResolved_ginv (cfg : Cfg) (fs : FS) (w : WS) (D : String → Prop) (x : String)
    (c : Contrib) (h : GInv cfg fs w D) : GInv cfg fs (updateResolved w x c) D := by
  obtain ⟨_, h2, h3, h4, _⟩ := updateResolved_fields w x c
  have hinc : ∀ p, includesOf (updateResolved w x c) p = includesOf w p := by
    intro p; simp [includesOf, h2]
  exact
    { idx := h2 ▸ h.idx
      fresh := by rw [h2]; exact h.fresh
      incOk := by intro p; rw [h3, hinc]; exact h.incOk p
      revOk := by intro q a; rw [h4, hinc]; exact h.revOk q a }

/-- after `x` has been (re)indexed with content `c`: `updateResolvedLocked(x, journal)` -/
theorem updateResolved_rinv (fs fs' : FS) (w w1 : WS) (x : String) (c : Contrib)
    (hR : RInv fs w)
    (hroot : w1.root = w.root) (hres : w1.primary = w.primary ∧
      w1.rfiles = w.rfiles ∧ w1.order = w.order)
    (hfiles : ∀ y, w1.idx.files.get y = if x = y then some (mkFileIdx x c) else w.idx.files.get y)
    (hfs : fs'.get x = some c) (hfs' : ∀ y, y ≠ x → fs'.get y = fs.get y) :
    RInv fs' (updateResolved w1 x c) := by
  obtain ⟨hr2, hr3, hr4⟩ := hres
  unfold updateResolved
  by_cases hx : x = w1.root
  · -- the root: primary := journal
    simp only [hx, if_true]
    have hx' : x = w.root := hx.trans hroot
    refine ⟨rfl, ?_, ?_, ?_⟩
    · show some c = fs'.get w1.root
      rw [← hx, hfs]
    · intro p
      show w1.rfiles.get p = if p = w1.root then none else
        if (w1.idx.files.get p).isSome then fs'.get p else none
      rw [hr3, hfiles p, hR.rfiles p, hroot]
      by_cases e : p = w.root
      · simp [e]
      · have e2 : ¬ x = p := fun h => e (h ▸ hx')
        simp only [e, if_false, e2]
        rw [hfs' p (fun h => e2 h.symm)]
    · intro p
      show p ∈ w1.order ↔ (w1.rfiles.get p).isSome
      rw [hr4, hr3]
      exact hR.order p
  · simp only [hx, if_false]
    have hx' : x ≠ w.root := fun e => hx (e.trans hroot.symm)
    refine ⟨rfl, ?_, ?_, ?_⟩
    · show w1.primary = fs'.get w1.root
      rw [hr2, hR.primary, hroot, hfs' w.root (fun e => hx' e.symm)]
    · intro p
      show (w1.rfiles.set x c).get p = if p = w1.root then none else
        if (w1.idx.files.get p).isSome then fs'.get p else none
      rw [get_set, hr3, hfiles p, hroot]
      by_cases e : x = p
      · subst e; simp [hx', hfs]
      · simp only [e, if_false]
        rw [hR.rfiles p, hfs' p (fun h => e h.symm)]
    · intro p
      show p ∈ addString w1.order x ↔ ((w1.rfiles.set x c).get p).isSome
      rw [get_set, hr3, hr4]
      unfold addString
      by_cases e : x = p
      · subst e
        by_cases hm : x ∈ w.order <;> simp [hm]
      · simp only [e, if_false]
        rw [← hR.order p]
        have e' : ¬ p = x := fun h => e h.symm
        by_cases hm : x ∈ w.order <;> simp [hm, e']

end HL.Lemmas.WsInv
