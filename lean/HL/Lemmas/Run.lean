/-
  Histories: the invariant holds after `Initialize` and after every edit.
-/
import HL.Lemmas.View
namespace HL.Lemmas.Run
open HL.Index HL.Workspace HL.Lemmas.AList HL.Lemmas.WsInv HL.Lemmas.Update HL.Lemmas.Init
open HL.Spec.Rebuild

/-- every edit names a file and carries a well-formed contribution -/
def updsOk (us : List Upd) : Bool := us.all fun u => u.path ≠ "" && contribOk u.c

/-- the directory after the edits -/
def finalFs (fs : FS) (us : List Upd) : FS := us.foldl (fun fs u => fs.set u.path u.c) fs

structure RunOk (cfg : Cfg) (fs0 : FS) (root : String) (s : St) : Prop where
  inv : WInv cfg s.fs s.w
  ok : fsOk s.fs = true
  root : s.w.root = root

theorem foldl_step_ok (cfg : Cfg) (root : String) :
    ∀ (us : List Upd) (s : St), RunOk cfg s.fs root s → updsOk us = true →
      RunOk cfg s.fs root (us.foldl (step cfg) s) ∧ (us.foldl (step cfg) s).fs = finalFs s.fs us := by
  intro us
  induction us with
  | nil => intro s h _; exact ⟨h, rfl⟩
  | cons u us ih =>
    intro s h hus
    simp only [updsOk, List.all_cons, Bool.and_eq_true, decide_eq_true_eq] at hus
    obtain ⟨s1, s2, s3, s4⟩ := step_ok cfg s u h.inv h.ok hus.1.1 hus.1.2
    have := ih (step cfg s u) ⟨s1, s2, s3.trans h.root⟩ (by simpa [updsOk] using hus.2)
    simp only [List.foldl_cons, finalFs]
    refine ⟨⟨this.1.inv, this.1.ok, this.1.root⟩, ?_⟩
    rw [this.2, s4]; rfl

/-- after `Initialize` and any sequence of edits the workspace invariant holds for the
    directory as it then is, and the root is the one chosen at initialisation -/
theorem run_ok (cfg : Cfg) (fs : FS) (us : List Upd) (hok : fsOk fs = true)
    (hne : fs ≠ []) (hclean : graphsClean cfg fs) (hlim : fs.length ≤ cfg.limit)
    (hus : updsOk us = true) :
    WInv cfg (finalFs fs us) (run cfg fs us).w ∧ fsOk (finalFs fs us) = true ∧
    (run cfg fs us).w.root = rootSel fs ∧ (run cfg fs us).fs = finalFs fs us := by
  obtain ⟨i1, i2, _⟩ := init_ok cfg fs hok hne hclean hlim
  have hstart : RunOk cfg (start cfg fs).fs (rootSel fs) (start cfg fs) :=
    ⟨observe_winv cfg fs _ i1, hok, by
      show (observe (init cfg fs)).2.root = _
      rw [observe_snd]; exact i2⟩
  obtain ⟨r1, r2⟩ := foldl_step_ok cfg (rootSel fs) us (start cfg fs) hstart hus
  have hfs : (start cfg fs).fs = fs := rfl
  rw [hfs] at r2
  unfold run
  exact ⟨by have := r1.inv; rw [r2] at this; exact this, by have := r1.ok; rw [r2] at this; exact this,
    r1.root, r2⟩

/-- hypotheses shared by the theorems: a non-empty directory of well-formed contributions with
    distinct non-empty names, within the loader's depth limit; well-formed edits; and the
    include graphs are empty when indexing starts (`graphsClean`: the code repaired by
    fix-stale-include-graph.diff, or a root chosen by name). -/
structure Setting (cfg : Cfg) (fs : FS) (us : List Upd) : Prop where
  ok : fsOk fs = true
  nonempty : fs ≠ []
  limit : fs.length ≤ cfg.limit
  clean : graphsClean cfg fs
  upds : updsOk us = true

end HL.Lemmas.Run
