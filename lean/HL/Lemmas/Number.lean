/-
  Lemmas for C04's number clause: decimal digit strings, the grouping loop of FormatNumber,
  shopspring's Round on values that already fit.
-/
import HL.Spec.NumberRead
namespace HL.Lemmas.Number
open HL HL.Fmt HL.FmtText HL.NumberRead

def AllDigits (s : Bytes) : Prop := ∀ b ∈ s, isDigit b = true

theorem isDigit_iff (b : UInt8) : isDigit b = true ↔ 48 ≤ b.toNat ∧ b.toNat ≤ 57 := by
  simp only [isDigit, Bool.and_eq_true, decide_eq_true_eq, UInt8.le_iff_toNat_le]
  exact Iff.rfl

theorem digitByte (n : Nat) : isDigit (UInt8.ofNat (48 + n % 10)) = true ∧
    digitVal (UInt8.ofNat (48 + n % 10)) = n % 10 := by
  have h : (UInt8.ofNat (48 + n % 10)).toNat = 48 + n % 10 := by
    apply UInt8.toNat_ofNat_of_lt'
    show 48 + n % 10 < 256
    omega
  constructor
  · rw [isDigit_iff, h]; omega
  · unfold digitVal; rw [h]; omega

theorem foldl_digits (b : Bytes) (x : Nat) :
    b.foldl (fun a c => a * 10 + digitVal c) x = x * 10 ^ b.length + b.foldl (fun a c => a * 10 + digitVal c) 0 := by
  induction b generalizing x with
  | nil => simp
  | cons c b ih =>
    simp only [List.foldl_cons, List.length_cons]
    rw [ih (x * 10 + digitVal c), ih (0 * 10 + digitVal c)]
    simp only [Nat.zero_mul, Nat.zero_add, Nat.pow_succ]
    rw [Nat.add_mul, Nat.add_assoc]
    congr 1
    rw [Nat.mul_assoc, Nat.mul_comm 10]

theorem digitsVal_append (a b : Bytes) : digitsVal (a ++ b) = digitsVal a * 10 ^ b.length + digitsVal b := by
  unfold digitsVal
  rw [List.foldl_append, foldl_digits]

theorem digitsVal_singleton (c : UInt8) : digitsVal [c] = digitVal c := by simp [digitsVal]

theorem digitsAux_spec (f : Nat) : ∀ (n : Nat) (acc : Bytes), n < f →
    ∃ X, digitsAux f n acc = X ++ acc ∧ AllDigits X ∧ X ≠ [] ∧ digitsVal X = n := by
  induction f with
  | zero => intro n acc h; omega
  | succ f ih =>
    intro n acc h
    obtain ⟨hd1, hd2⟩ := digitByte n
    simp only [digitsAux]
    split
    · rename_i h0
      refine ⟨[UInt8.ofNat (48 + n % 10)], rfl, ?_, by simp, ?_⟩
      · intro b hb; simp only [List.mem_singleton] at hb; subst hb; exact hd1
      · rw [digitsVal_singleton, hd2]; omega
    · rename_i h0
      obtain ⟨X, hX, hall, _, hval⟩ := ih (n / 10) (UInt8.ofNat (48 + n % 10) :: acc) (by omega)
      refine ⟨X ++ [UInt8.ofNat (48 + n % 10)], by rw [hX]; simp, ?_, by simp, ?_⟩
      · intro b hb
        rcases List.mem_append.mp hb with hb | hb
        · exact hall b hb
        · simp only [List.mem_singleton] at hb; subst hb; exact hd1
      · rw [digitsVal_append, hval, digitsVal_singleton, hd2]
        simp only [List.length_singleton, Nat.pow_one]
        omega

theorem natStr_spec (n : Nat) : AllDigits (natStr n) ∧ natStr n ≠ [] ∧ digitsVal (natStr n) = n := by
  obtain ⟨X, hX, h1, h2, h3⟩ := digitsAux_spec (n + 1) n [] (by omega)
  unfold natStr
  rw [hX, List.append_nil]
  exact ⟨h1, h2, h3⟩

/-! ### Leading zeros -/

theorem digitsVal_zeros (m : Nat) : digitsVal (zeros m) = 0 := by
  induction m with
  | zero => rfl
  | succ m ih =>
    have : zeros (m + 1) = zeros m ++ [48] := by
      unfold zeros; rw [List.replicate_succ']
    rw [this, digitsVal_append, ih, digitsVal_singleton]; rfl

theorem digitsVal_zeros_append (m : Nat) (X : Bytes) : digitsVal (zeros m ++ X) = digitsVal X := by
  rw [digitsVal_append, digitsVal_zeros]; simp

theorem allDigits_zeros (m : Nat) : AllDigits (zeros m) := by
  intro b hb
  simp only [zeros, List.mem_replicate] at hb
  rw [hb.2]; decide

theorem AllDigits.append {a b : Bytes} (ha : AllDigits a) (hb : AllDigits b) : AllDigits (a ++ b) := by
  intro x hx
  rcases List.mem_append.mp hx with h | h
  · exact ha x h
  · exact hb x h

theorem AllDigits.take {a : Bytes} (ha : AllDigits a) (k : Nat) : AllDigits (a.take k) :=
  fun x hx => ha x (List.mem_of_mem_take hx)

theorem AllDigits.drop {a : Bytes} (ha : AllDigits a) (k : Nat) : AllDigits (a.drop k) :=
  fun x hx => ha x (List.mem_of_mem_drop hx)

theorem digit_ne (b : UInt8) (h : isDigit b = true) : b ≠ 46 ∧ b ≠ 44 ∧ b ≠ 45 ∧ b ≠ 32 := by
  rw [isDigit_iff] at h
  refine ⟨?_, ?_, ?_, ?_⟩ <;> (intro e; subst e; simp at h)

/-! ### The grouping loop -/

theorem groupLoop_spec (f : Nat) : ∀ (s : Bytes) (g : List Bytes),
    (groupLoop f s g).1 ++ (groupLoop f s g).2.flatten = s ++ g.flatten := by
  induction f with
  | zero => intro s g; rfl
  | succ f ih =>
    intro s g
    simp only [groupLoop]
    split
    · rw [ih]
      simp only [List.flatten_cons, ← List.append_assoc, List.take_append_drop]
    · rfl

theorem groupLoop_mem (f : Nat) : ∀ (s : Bytes) (g : List Bytes) (P : UInt8 → Prop),
    (∀ b ∈ s, P b) → (∀ x ∈ g, ∀ b ∈ x, P b) →
    (∀ b ∈ (groupLoop f s g).1, P b) ∧ (∀ x ∈ (groupLoop f s g).2, ∀ b ∈ x, P b) := by
  induction f with
  | zero => intro s g P hs hg; exact ⟨hs, hg⟩
  | succ f ih =>
    intro s g P hs hg
    simp only [groupLoop]
    split
    · apply ih
      · exact fun b hb => hs b (List.mem_of_mem_take hb)
      · intro x hx b hb
        rcases List.mem_cons.mp hx with rfl | hx
        · exact hs b (List.mem_of_mem_drop hb)
        · exact hg x hx b hb
    · exact ⟨hs, hg⟩

theorem filter_join (p : UInt8 → Bool) (sep : Bytes) (gs : List Bytes)
    (hsep : ∀ b ∈ sep, p b = false) (hg : ∀ g ∈ gs, ∀ b ∈ g, p b = true) :
    (join sep gs).filter p = gs.flatten := by
  induction gs with
  | nil => rfl
  | cons a rest ih =>
    have ha : a.filter p = a := List.filter_eq_self.mpr (hg a (by simp))
    cases rest with
    | nil => simp [join, ha]
    | cons b rest =>
      have hs : sep.filter p = [] := List.filter_eq_nil_iff.mpr (fun x hx => by simp [hsep x hx])
      have := ih (fun g hgm => hg g (by simp [hgm]))
      simp only [join, List.filter_append, ha, hs, this, List.flatten_cons, List.append_nil]

/-- Removing the fillers of the format from the grouped integer part gives the digits back. -/
theorem groupInt_filter (f : NumberFormat) (ip : Bytes) (hd : AllDigits ip)
    (hsep : f.sep = [] ∨ f.sep = [44] ∨ f.sep = [46] ∨ f.sep = [32]) :
    (groupInt ip f.sep).filter (fun b => !isFiller f b) = ip := by
  have keep : ∀ b, isDigit b = true → (!isFiller f b) = true := by
    intro b hb
    obtain ⟨h46, h44, _, h32⟩ := digit_ne b hb
    simp only [isFiller, Bool.not_eq_true', Bool.or_eq_false_iff, beq_eq_false_iff_ne, ne_eq]
    refine ⟨h32, ?_⟩
    rcases hsep with h | h | h | h <;> rw [h] <;> simp <;> (intro e; simp_all)
  have kill : ∀ b ∈ f.sep, (!isFiller f b) = false := by
    intro b hb
    rcases hsep with h | h | h | h <;> rw [h] at hb <;> simp at hb <;>
      (subst hb; simp [isFiller, h])
  unfold groupInt
  split
  · generalize hgl : groupLoop ip.length ip [] = r
    obtain ⟨rest, groups⟩ := r
    have hspec := groupLoop_spec ip.length ip []
    have hmem := groupLoop_mem ip.length ip [] (fun b => isDigit b = true) hd (by simp)
    rw [hgl] at hspec hmem
    simp only [List.flatten_nil, List.append_nil] at hspec
    simp only
    split
    · rw [filter_join _ _ _ kill]
      · simpa using hspec
      · intro g hg b hb
        rcases List.mem_cons.mp hg with rfl | hg
        · exact keep b (hmem.1 b hb)
        · exact keep b (hmem.2 g hg b hb)
    · rename_i hr
      have : rest = [] := by
        cases rest with
        | nil => rfl
        | cons x xs => simp at hr
      rw [filter_join _ _ _ kill]
      · rw [this] at hspec; simpa using hspec
      · intro g hg b hb; exact keep b (hmem.2 g hg b hb)
  · exact List.filter_eq_self.mpr (fun b hb => keep b (hd b hb))

/-! ### shopspring `Round` -/

theorem round_exp (d : Dec) (n : Int) : (round d n).exp = -n := by
  unfold round
  split
  · assumption
  · rfl

/-- Rounding to at least as many places as the value carries changes nothing:
    the coefficient is only scaled. -/
theorem round_exact (d : Dec) (n : Nat) (h : -(n : Int) ≤ d.exp) :
    (round d n).coef = d.coef * 10 ^ (d.exp + n).toNat := by
  unfold round
  split
  · rename_i he
    have : (d.exp + n).toNat = 0 := by omega
    rw [this]; simp
  · rename_i he
    have hne : ¬ d.exp = -(n : Int) - 1 := by omega
    have hgt : ¬ (-(n : Int) - 1 > d.exp) := by omega
    have hdiff : (-(n : Int) - 1 - d.exp).natAbs = (d.exp + n).toNat + 1 := by omega
    simp only [rescale, hne, if_false, hgt, hdiff]
    generalize hw : d.coef * 10 ^ (d.exp + n).toNat = w
    have hv : d.coef * 10 ^ ((d.exp + n).toNat + 1) = 10 * w := by
      rw [Int.pow_succ, ← Int.mul_assoc, hw, Int.mul_comm]
    rw [hv]
    by_cases hneg : w < 0
    · have h1 : (10 * w < 0) := by omega
      simp only [h1, if_true]
      have h2 : ((10 * w - 5) / 10 < 0) := by omega
      have h3 : ((10 * w - 5) % 10 != 0) = true := by
        simp only [bne_iff_ne, ne_eq]; omega
      simp only [h2, h3, decide_true, Bool.and_self, if_true]
      omega
    · have h1 : ¬ (10 * w < 0) := by omega
      simp only [h1, if_false]
      have h2 : ¬ ((10 * w + 5) / 10 < 0) := by omega
      simp only [h2, decide_false, Bool.false_and, Bool.false_eq_true, if_false]
      omega

/-! ### The strings of `Decimal.string` -/

def signOf (c : Int) : Bytes := if c < 0 then [45] else []

theorem intStr_eq (c : Int) : intStr c = signOf c ++ natStr c.natAbs := by
  unfold intStr signOf; split <;> simp

theorem decString_int (r : Dec) (t : Bool) (h : r.exp = 0) :
    decString r t = signOf r.coef ++ natStr r.coef.natAbs := by
  unfold decString
  rw [if_pos (by omega : r.exp ≥ 0)]
  simp only [rescale, h, if_true, intStr_eq]

theorem decString_fixed (r : Dec) (k : Nat) (hk : 0 < k) (h : r.exp = -(k : Int)) :
    ∃ ip fp, decString r false = signOf r.coef ++ ip ++ [46] ++ fp ∧ AllDigits ip ∧ ip ≠ [] ∧
      AllDigits fp ∧ fp.length = k ∧ digitsVal (ip ++ fp) = r.coef.natAbs := by
  obtain ⟨hD1, hD2, hD3⟩ := natStr_spec r.coef.natAbs
  unfold decString
  have h0 : ¬ r.exp ≥ 0 := by omega
  have hk' : (-r.exp).toNat = k := by omega
  simp only [h0, if_false, hk', Bool.false_eq_true]
  by_cases hlen : (natStr r.coef.natAbs).length > k
  · simp only [hlen, if_true]
    have hfl : ((natStr r.coef.natAbs).drop ((natStr r.coef.natAbs).length - k)).length = k := by
      rw [List.length_drop]; omega
    have hpos : ((natStr r.coef.natAbs).drop ((natStr r.coef.natAbs).length - k)).length > 0 := by omega
    simp only [hpos, if_true]
    refine ⟨(natStr r.coef.natAbs).take ((natStr r.coef.natAbs).length - k),
      (natStr r.coef.natAbs).drop ((natStr r.coef.natAbs).length - k), ?_, hD1.take _, ?_, hD1.drop _, hfl, ?_⟩
    · unfold signOf; split <;> simp
    · intro e
      have := congrArg List.length e
      rw [List.length_take] at this
      simp only [List.length_nil] at this
      omega
    · rw [List.take_append_drop]; exact hD3
  · simp only [hlen, if_false]
    have hfl : (zeros (k - (natStr r.coef.natAbs).length) ++ natStr r.coef.natAbs).length = k := by
      simp only [List.length_append, zeros, List.length_replicate]; omega
    have hpos : (zeros (k - (natStr r.coef.natAbs).length) ++ natStr r.coef.natAbs).length > 0 := by omega
    simp only [hpos, if_true]
    refine ⟨[48], zeros (k - (natStr r.coef.natAbs).length) ++ natStr r.coef.natAbs, ?_, ?_, by simp,
      (allDigits_zeros _).append hD1, hfl, ?_⟩
    · unfold signOf; split <;> simp
    · intro b hb; simp only [List.mem_singleton] at hb; subst hb; decide
    · have : ([48] : Bytes) = zeros 1 := rfl
      rw [this, digitsVal_zeros_append, digitsVal_zeros_append]; exact hD3

theorem takeWhile_append_all {α} (p : α → Bool) (l r : List α) (h : ∀ x ∈ l, p x = true) :
    (l ++ r).takeWhile p = l ++ r.takeWhile p := by
  induction l with
  | nil => rfl
  | cons a l ih =>
    simp only [List.cons_append, List.takeWhile_cons, h a (by simp), if_true]
    rw [ih (fun x hx => h x (by simp [hx]))]

theorem takeWhile_all {α} (p : α → Bool) (l : List α) (h : ∀ x ∈ l, p x = true) : l.takeWhile p = l := by
  have := takeWhile_append_all p l [] h
  simpa using this

theorem signOf_ne46 (c : Int) : ∀ x ∈ signOf c, (x != 46) = true := by
  intro x hx; unfold signOf at hx; split at hx <;> simp at hx; subst hx; decide

theorem digits_ne46 (l : Bytes) (h : AllDigits l) : ∀ x ∈ l, (x != 46) = true := by
  intro x hx; have := (digit_ne x (h x hx)).1; simpa using this

def pl (f : NumberFormat) : Nat := if f.hasDecimal then f.places else 0

/-- What `FormatNumber` writes: sign, grouped integer digits and, for a positive number of
    places, the decimal mark and exactly that many fraction digits, of the rounded value. -/
theorem formatNumber_shape (q : Dec) (f : NumberFormat) :
    ∃ ip fp, formatNumber q f = signOf (round q (pl f)).coef ++ groupInt ip f.sep ++
        (if pl f > 0 then encodeRune f.mark ++ fp else []) ∧
      AllDigits ip ∧ ip ≠ [] ∧ AllDigits fp ∧ fp.length = pl f ∧
      digitsVal (ip ++ fp) = (round q (pl f)).coef.natAbs := by
  -- the string handed to strings.Split
  have hstr : (if f.hasDecimal then stringFixed q f.places else decString (round q 0) true) =
      (if pl f > 0 then decString (round q (pl f)) false
       else signOf (round q (pl f)).coef ++ natStr (round q (pl f)).coef.natAbs) := by
    unfold pl stringFixed
    by_cases hd : f.hasDecimal = true
    · simp only [hd, if_true]
      by_cases hp : f.places > 0
      · simp only [hp, if_true]
      · have : f.places = 0 := by omega
        simp only [this, Nat.lt_irrefl, if_false]
        exact decString_int _ _ (by rw [round_exp]; rfl)
    · simp only [hd, Bool.false_eq_true, if_false, Nat.lt_irrefl]
      exact decString_int _ _ (by rw [round_exp]; rfl)
  unfold formatNumber
  rw [hstr]
  generalize hc : (round q (pl f)).coef = c
  have hneg : ∀ ip : Bytes, AllDigits ip → ip ≠ [] →
      ((signOf c ++ ip).head? == some 45) = decide (c < 0) ∧
      (if ((signOf c ++ ip).head? == some 45) = true then (signOf c ++ ip).drop 1 else signOf c ++ ip) = ip := by
    intro ip hip hne
    unfold signOf
    by_cases h : c < 0
    · simp [h]
    · simp only [h, if_false, List.nil_append, decide_false]
      cases ip with
      | nil => exact absurd rfl hne
      | cons x xs =>
        have := (digit_ne x (hip x (by simp))).2.2.1
        simp [this]
  by_cases hp : pl f > 0
  · obtain ⟨ip, fp, hs, h1, h2, h3, h4, h5⟩ :=
      decString_fixed (round q (pl f)) (pl f) hp (round_exp q (pl f))
    rw [hc] at hs h5
    simp only [hp, if_true]
    rw [hs]
    have htw : (signOf c ++ ip ++ [46] ++ fp).takeWhile (· != 46) = signOf c ++ ip := by
      rw [List.append_assoc, takeWhile_append_all _ _ _ (by
        intro x hx
        rcases List.mem_append.mp hx with h | h
        · exact signOf_ne46 c x h
        · exact digits_ne46 ip h1 x h)]
      simp
    have hdp : ((signOf c ++ ip ++ [46] ++ fp).drop ((signOf c ++ ip).length + 1)).takeWhile (· != 46) = fp := by
      have : signOf c ++ ip ++ [46] ++ fp = (signOf c ++ ip ++ [46]) ++ fp := by simp
      rw [this, List.drop_left' (by simp only [List.length_append, List.length_singleton])]
      exact takeWhile_all _ _ (digits_ne46 fp h3)
    simp only [htw, hdp]
    obtain ⟨hn1, hn2⟩ := hneg ip h1 h2
    simp only [hn2]
    have hdec : (f.hasDecimal && decide (f.places > 0)) = true := by
      unfold pl at hp
      by_cases hd : f.hasDecimal = true
      · simp only [hd, if_true] at hp; simp [hd, hp]
      · simp only [hd, Bool.false_eq_true, if_false, Nat.lt_irrefl] at hp
    refine ⟨ip, fp, ?_, h1, h2, h3, h4, h5⟩
    simp only [hdec, if_true, hn1]
    unfold signOf
    by_cases h : c < 0 <;> simp [h]
  · obtain ⟨hD1, hD2, hD3⟩ := natStr_spec c.natAbs
    simp only [hp, if_false]
    have hall : ∀ x ∈ signOf c ++ natStr c.natAbs, (x != 46) = true := by
      intro x hx
      rcases List.mem_append.mp hx with h | h
      · exact signOf_ne46 c x h
      · exact digits_ne46 _ hD1 x h
    have htw := takeWhile_all _ _ hall
    simp only [htw]
    obtain ⟨hn1, hn2⟩ := hneg _ hD1 hD2
    simp only [hn2]
    have hdec : (f.hasDecimal && decide (f.places > 0)) = false := by
      unfold pl at hp
      by_cases hd : f.hasDecimal = true
      · simp only [hd, if_true] at hp; simp [hd, hp]
      · simp [hd]
    have hpl : pl f = 0 := by omega
    refine ⟨natStr c.natAbs, [], ?_, hD1, hD2, (fun b hb => by cases hb), (by simp [hpl]), (by simpa using hD3)⟩
    simp only [hdec, Bool.false_eq_true, if_false, hn1, List.append_nil]
    unfold signOf
    by_cases h : c < 0 <;> simp [h]

/-! ### Reading the written number back -/

theorem encodeRune_mark (f : NumberFormat) (h : f.mark = 46 ∨ f.mark = 44) :
    encodeRune f.mark = [UInt8.ofNat f.mark] ∧ (UInt8.ofNat f.mark = 46 ∨ UInt8.ofNat f.mark = 44) := by
  rcases h with h | h <;> rw [h] <;> exact ⟨rfl, by decide⟩

/-- `readWith` after the fillers have been removed. -/
def readCore (m : UInt8) (s : Bytes) : Int × Nat :=
  let neg := s.head? == some 45
  let s := if neg then s.drop 1 else s
  let ip := s.takeWhile (· != m)
  let fp := s.drop (ip.length + 1)
  let c : Int := (digitsVal (ip ++ fp) : Nat)
  (if neg then -c else c, fp.length)

theorem readWith_eq (f : NumberFormat) (s : Bytes) :
    readWith f s = readCore (UInt8.ofNat f.mark) (s.filter (fun b => !isFiller f b)) := rfl

/-- Integer digits, then nothing or the mark and the fraction digits. -/
theorem split_at_mark (m : UInt8) (ip fp : Bytes) (hdm : ∀ x ∈ ip, (x != m) = true) (withMark : Bool) :
    let t := if withMark then m :: fp else []
    (ip ++ t).takeWhile (· != m) = ip ∧
      (ip ++ t).drop (ip.length + 1) = (if withMark then fp else []) := by
  intro t
  constructor
  · rw [takeWhile_append_all _ _ _ hdm]
    cases withMark <;> simp [t]
  · cases withMark
    · simp [t]
    · simp only [t, if_true]
      have : ip ++ m :: fp = (ip ++ [m]) ++ fp := by simp
      rw [this, List.drop_left' (by simp)]

theorem readCore_unsigned (m : UInt8) (ip fp : Bytes) (h1 : AllDigits ip) (h2 : ip ≠ [])
    (hdm : ∀ x ∈ ip, (x != m) = true) (withMark : Bool) (hfp : withMark = false → fp = []) :
    readCore m (ip ++ (if withMark then m :: fp else [])) = (((digitsVal (ip ++ fp) : Nat) : Int), fp.length) := by
  obtain ⟨e1, e2⟩ := split_at_mark m ip fp hdm withMark
  have hhead : ((ip ++ (if withMark then m :: fp else [])).head? == some 45) = false := by
    cases ip with
    | nil => exact absurd rfl h2
    | cons x xs =>
      have := (digit_ne x (h1 x (by simp))).2.2.1
      simp [this]
  unfold readCore
  simp only [hhead, Bool.false_eq_true, if_false, e1, e2]
  cases withMark
  · simp [hfp rfl]
  · simp

theorem readCore_negative (m : UInt8) (ip fp : Bytes)
    (hdm : ∀ x ∈ ip, (x != m) = true) (withMark : Bool) (hfp : withMark = false → fp = []) :
    readCore m (45 :: (ip ++ (if withMark then m :: fp else []))) =
      (-((digitsVal (ip ++ fp) : Nat) : Int), fp.length) := by
  obtain ⟨e1, e2⟩ := split_at_mark m ip fp hdm withMark
  unfold readCore
  simp only [List.head?_cons, beq_self_eq_true, if_true, List.drop_succ_cons, List.drop_zero, e1, e2]
  cases withMark
  · simp [hfp rfl]
  · simp

theorem read_shape (f : NumberFormat) (hwf : WellFormed f) (c : Int) (ip fp : Bytes) (k : Nat)
    (h1 : AllDigits ip) (h2 : ip ≠ []) (h3 : AllDigits fp) (h4 : fp.length = k)
    (h5 : digitsVal (ip ++ fp) = c.natAbs) :
    readWith f (signOf c ++ groupInt ip f.sep ++ (if k > 0 then encodeRune f.mark ++ fp else [])) = (c, k) := by
  obtain ⟨hmark, hsep, hne⟩ := hwf
  obtain ⟨henc, hm⟩ := encodeRune_mark f hmark
  rw [readWith_eq]
  generalize hmdef : UInt8.ofNat f.mark = m at *
  have keepDigit : ∀ b, isDigit b = true → (!isFiller f b) = true := by
    intro b hb
    obtain ⟨_, _, _, h32⟩ := digit_ne b hb
    have hb' := (isDigit_iff b).mp hb
    simp only [isFiller, Bool.not_eq_true', Bool.or_eq_false_iff, beq_eq_false_iff_ne, ne_eq]
    refine ⟨h32, ?_⟩
    rcases hsep with h | h | h | h <;> rw [h] <;> simp <;> (intro e; subst e; simp at hb')
  have keep45 : (!isFiller f 45) = true := by
    simp only [isFiller, Bool.not_eq_true', Bool.or_eq_false_iff, beq_eq_false_iff_ne, ne_eq]
    refine ⟨by decide, ?_⟩
    rcases hsep with h | h | h | h <;> rw [h] <;> decide
  have keepm : (!isFiller f m) = true := by
    simp only [isFiller, Bool.not_eq_true', Bool.or_eq_false_iff, beq_eq_false_iff_ne, ne_eq]
    refine ⟨by rcases hm with h | h <;> rw [h] <;> decide, hne⟩
  have fsign : (signOf c).filter (fun b => !isFiller f b) = signOf c := by
    apply List.filter_eq_self.mpr
    intro b hb; unfold signOf at hb; split at hb <;> simp at hb; subst hb; exact keep45
  have ffp : fp.filter (fun b => !isFiller f b) = fp :=
    List.filter_eq_self.mpr (fun b hb => keepDigit b (h3 b hb))
  have hdm : ∀ x ∈ ip, (x != m) = true := by
    intro x hx
    obtain ⟨a, b, _, _⟩ := digit_ne x (h1 x hx)
    rcases hm with h | h <;> rw [h] <;> simpa
  have ftail : (if k > 0 then encodeRune f.mark ++ fp else []).filter (fun b => !isFiller f b) =
      (if decide (k > 0) then m :: fp else []) := by
    by_cases hk : k > 0
    · simp only [hk, if_true, decide_true, henc, List.filter_append, ffp]
      simp [keepm]
    · simp [hk]
  have hfp0 : decide (k > 0) = false → fp = [] := by
    intro hk
    have : k = 0 := by simpa using hk
    cases fp with
    | nil => rfl
    | cons x xs => simp at h4; omega
  rw [List.filter_append, List.filter_append, fsign, groupInt_filter f ip h1 hsep, ftail, List.append_assoc]
  by_cases hc : c < 0
  · have : signOf c = [45] := by simp [signOf, hc]
    rw [this, List.singleton_append, readCore_negative m ip fp hdm _ hfp0, h5, h4]
    congr 1; omega
  · have : signOf c = [] := by simp [signOf, hc]
    rw [this, List.nil_append, readCore_unsigned m ip fp h1 h2 hdm _ hfp0, h5, h4]
    congr 1; omega

end HL.Lemmas.Number
