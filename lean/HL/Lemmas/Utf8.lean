import HL.Model.Utf8
/-! Width facts of `decodeRune` used by every progress / locality proof of the lexer. -/
namespace HL.Utf8

theorem decodeRune_nil : decodeRune [] = (runeError, 0) := rfl

/-- the width is 1, 2, 3 or 4 on non-empty input -/
theorem decodeRune_width_pos (b : UInt8) (t : Bytes) : 1 ≤ (decodeRune (b :: t)).2 := by
  simp only [decodeRune]
  repeat' split
  all_goals simp

theorem decodeRune_width_le4 (a : Bytes) : (decodeRune a).2 ≤ 4 := by
  unfold decodeRune
  repeat' split
  all_goals simp

theorem decodeRune_width_le_length (b : UInt8) (t : Bytes) :
    (decodeRune (b :: t)).2 ≤ (b :: t).length := by
  simp only [decodeRune]
  repeat' split
  all_goals simp

/-! ### locality: a line feed is never part of a multi-byte sequence -/

theorem acceptLo_ge (b0 : UInt8) : 0x80 ≤ acceptLo b0 := by
  unfold acceptLo; repeat' split
  all_goals decide

theorem acceptLo_not_le_lf (b0 : UInt8) : ¬ (acceptLo b0 ≤ 10) := by
  intro h
  exact absurd (UInt8.le_trans (acceptLo_ge b0) h) (by decide)

macro "dr_cases" : tactic => `(tactic|
  (simp only [decodeRune, List.cons_append, List.nil_append]
   repeat' split
   all_goals first
     | rfl
     | (simp_all [isCont, acceptLo_not_le_lf]; done)))

theorem decodeRune_append_of_lf (a b : Bytes) (h : (0x0A : UInt8) ∈ a) :
    decodeRune (a ++ b) = decodeRune a := by
  rcases a with _ | ⟨b0, _ | ⟨b1, _ | ⟨b2, _ | ⟨b3, t⟩⟩⟩⟩
  · simp at h
  · simp at h; subst h; simp [decodeRune]
  · simp at h
    rcases h with rfl | rfl
    · simp [decodeRune]
    · rcases b with _ | ⟨c0, _ | ⟨c1, b'⟩⟩ <;> dr_cases
  · simp at h
    rcases h with rfl | rfl | rfl
    · simp [decodeRune]
    · rcases b with _ | ⟨c0, b'⟩ <;> dr_cases
    · rcases b with _ | ⟨c0, b'⟩ <;> dr_cases
  · simp [decodeRune]

theorem decodeRune_take_noLF (b0 : UInt8) (t : Bytes) (h : b0 ≠ 0x0A) :
    (0x0A : UInt8) ∉ (b0 :: t).take (decodeRune (b0 :: t)).2 := by
  rcases t with _ | ⟨b1, _ | ⟨b2, _ | ⟨b3, t⟩⟩⟩
  all_goals
    simp only [decodeRune]
    repeat' split
  all_goals
    have h' : ¬ (10 : UInt8) = b0 := fun e => h e.symm
    simp_all [isCont]
  all_goals repeat' constructor
  all_goals
    intro e
    subst e
    simp_all [acceptLo_not_le_lf]

theorem acceptLo_not_le_cr (b0 : UInt8) : ¬ (acceptLo b0 ≤ 13) := by
  intro h
  exact absurd (UInt8.le_trans (acceptLo_ge b0) h) (by decide)

/-- a carriage return is never part of a multi-byte sequence either -/
theorem decodeRune_take_noCR (b0 : UInt8) (t : Bytes) (h : b0 ≠ 0x0D) :
    (0x0D : UInt8) ∉ (b0 :: t).take (decodeRune (b0 :: t)).2 := by
  rcases t with _ | ⟨b1, _ | ⟨b2, _ | ⟨b3, t⟩⟩⟩
  all_goals
    simp only [decodeRune]
    repeat' split
  all_goals
    have h' : ¬ (13 : UInt8) = b0 := fun e => h e.symm
    simp_all [isCont]
  all_goals repeat' constructor
  all_goals
    intro e
    subst e
    simp_all [acceptLo_not_le_cr]

/-! ### encode / decode round trip -/

theorem ofNat_lt (n : Nat) (k : UInt8) : (UInt8.ofNat n < k) ↔ n % 256 < k.toNat := by
  simp [UInt8.lt_iff_toNat_lt]
theorem ofNat_le (n : Nat) (k : UInt8) : (UInt8.ofNat n ≤ k) ↔ n % 256 ≤ k.toNat := by
  simp [UInt8.le_iff_toNat_le]
theorem le_ofNat (n : Nat) (k : UInt8) : (k ≤ UInt8.ofNat n) ↔ k.toNat ≤ n % 256 := by
  simp [UInt8.le_iff_toNat_le]
theorem ofNat_beq (n : Nat) (k : UInt8) : (UInt8.ofNat n == k) = decide (n % 256 = k.toNat) := by
  rw [Bool.eq_iff_iff]
  simp only [beq_iff_eq, decide_eq_true_eq]
  constructor
  · intro h; rw [← h]; simp
  · intro h; apply UInt8.toNat_inj.mp; simpa using h

theorem acceptLo_toNat (n : Nat) :
    (acceptLo (UInt8.ofNat n)).toNat = if n % 256 = 224 then 160 else if n % 256 = 240 then 144 else 128 := by
  unfold acceptLo
  simp only [ofNat_beq]
  repeat' split
  all_goals simp_all
theorem acceptHi_toNat (n : Nat) :
    (acceptHi (UInt8.ofNat n)).toNat = if n % 256 = 237 then 159 else if n % 256 = 244 then 143 else 191 := by
  unfold acceptHi
  simp only [ofNat_beq]
  repeat' split
  all_goals simp_all

theorem accept_ofNat (n m : Nat) :
    (acceptLo (UInt8.ofNat n) ≤ UInt8.ofNat m ∧ UInt8.ofNat m ≤ acceptHi (UInt8.ofNat n)) ↔
      ((if n % 256 = 224 then 160 else if n % 256 = 240 then 144 else 128) ≤ m % 256 ∧
        m % 256 ≤ (if n % 256 = 237 then 159 else if n % 256 = 244 then 143 else 191)) := by
  simp only [UInt8.le_iff_toNat_le, acceptLo_toNat, acceptHi_toNat, UInt8.toNat_ofNat']

/-- a Unicode scalar value: not a surrogate, at most U+10FFFF -/
def validRune (c : Nat) : Prop := c < 0xD800 ∨ (0xE000 ≤ c ∧ c ≤ 0x10FFFF)

theorem decodeRune_encodeRune3 (c : Nat) (r : Bytes) (h2 : 0x7FF < c) (h3 : c ≤ 0xFFFF)
    (hs : c < 0xD800 ∨ 0xDFFF < c) :
    decodeRune (UInt8.ofNat (224 + c / 4096) :: UInt8.ofNat (128 + c / 64 % 64) :: UInt8.ofNat (128 + c % 64) :: r)
      = (c, 3) := by
  have hacc := (accept_ofNat (224 + c / 4096) (128 + c / 64 % 64)).mpr (by
    repeat' split
    all_goals omega)
  simp only [decodeRune, isCont, ofNat_lt, ofNat_le, le_ofNat, UInt8.toNat_ofNat', Bool.and_eq_true,
    decide_eq_true_eq, hacc, and_self, if_true]
  have a1 : ¬ (224 + c / 4096) % 256 < (128 : UInt8).toNat := by simp; omega
  have a2 : ¬ (224 + c / 4096) % 256 < (194 : UInt8).toNat := by simp; omega
  have a3 : ¬ (224 + c / 4096) % 256 < (224 : UInt8).toNat := by simp; omega
  have a4 : (224 + c / 4096) % 256 < (240 : UInt8).toNat := by simp; omega
  have a5 : (128 : UInt8).toNat ≤ (128 + c % 64) % 256 ∧ (128 + c % 64) % 256 ≤ (191 : UInt8).toNat := by
    simp; omega
  simp only [a1, a2, a3, a4, a5, if_true, if_false, and_self]
  refine Prod.ext ?_ rfl
  simp only []
  omega

theorem decodeRune_encodeRune4 (c : Nat) (r : Bytes) (h3 : 0xFFFF < c) (h4 : c ≤ 0x10FFFF) :
    decodeRune (UInt8.ofNat (240 + c / 262144) :: UInt8.ofNat (128 + c / 4096 % 64) ::
      UInt8.ofNat (128 + c / 64 % 64) :: UInt8.ofNat (128 + c % 64) :: r) = (c, 4) := by
  have hacc := (accept_ofNat (240 + c / 262144) (128 + c / 4096 % 64)).mpr (by
    repeat' split
    all_goals omega)
  simp only [decodeRune, isCont, ofNat_lt, ofNat_le, le_ofNat, UInt8.toNat_ofNat', Bool.and_eq_true,
    decide_eq_true_eq, hacc, and_self, if_true]
  have a1 : ¬ (240 + c / 262144) % 256 < (128 : UInt8).toNat := by simp; omega
  have a2 : ¬ (240 + c / 262144) % 256 < (194 : UInt8).toNat := by simp; omega
  have a3 : ¬ (240 + c / 262144) % 256 < (224 : UInt8).toNat := by simp; omega
  have a4 : ¬ (240 + c / 262144) % 256 < (240 : UInt8).toNat := by simp; omega
  have a5 : (240 + c / 262144) % 256 < (245 : UInt8).toNat := by simp; omega
  have a6 : (128 : UInt8).toNat ≤ (128 + c / 64 % 64) % 256 ∧ (128 + c / 64 % 64) % 256 ≤ (191 : UInt8).toNat := by
    simp; omega
  have a7 : (128 : UInt8).toNat ≤ (128 + c % 64) % 256 ∧ (128 + c % 64) % 256 ≤ (191 : UInt8).toNat := by
    simp; omega
  simp only [a1, a2, a3, a4, a5, a6, a7, if_true, if_false, and_self]
  refine Prod.ext ?_ rfl
  simp only []
  omega

theorem encodeRune_3 (c : Nat) (h2 : 0x7FF < c) (h3 : c ≤ 0xFFFF) (hs : c < 0xD800 ∨ 0xDFFF < c) :
    encodeRune c = [UInt8.ofNat (0xE0 + c / 4096), UInt8.ofNat (0x80 + (c / 64) % 64), UInt8.ofNat (0x80 + c % 64)] := by
  unfold encodeRune
  rw [if_neg (by omega), if_neg (by omega), if_pos (by simp; omega)]

theorem encodeRune_4 (c : Nat) (h3 : 0xFFFF < c) (h4 : c ≤ 0x10FFFF) :
    encodeRune c = [UInt8.ofNat (0xF0 + c / 262144), UInt8.ofNat (0x80 + (c / 4096) % 64),
      UInt8.ofNat (0x80 + (c / 64) % 64), UInt8.ofNat (0x80 + c % 64)] := by
  unfold encodeRune
  rw [if_neg (by omega), if_neg (by omega), if_neg (by simp; omega), if_pos (by simp; omega)]

/-- `DecodeRuneInString(string(c) + r) = (c, RuneLen(c))` for every Unicode scalar value. -/
theorem decodeRune_encodeRune (c : Nat) (r : Bytes) (hv : validRune c) :
    decodeRune (encodeRune c ++ r) = (c, (encodeRune c).length) ∧ runeLen c = some (encodeRune c).length := by
  unfold validRune at hv
  by_cases h1 : c ≤ 0x7F
  · have h128 : ¬ 128 ≤ c := by omega
    have h256 : c % 256 = c := by omega
    have hlt : c < 128 := by omega
    simp [encodeRune, runeLen, h1, decodeRune, ofNat_lt, h256, hlt]
  by_cases h2 : c ≤ 0x7FF
  · simp only [encodeRune, runeLen, h1, h2, if_true, if_false, List.cons_append, List.nil_append, decodeRune, isCont,
      ofNat_lt, ofNat_le, le_ofNat, UInt8.toNat_ofNat', Bool.and_eq_true, decide_eq_true_eq, List.length_cons,
      List.length_nil]
    have a1 : ¬ (192 + c / 64) % 256 < (128 : UInt8).toNat := by simp; omega
    have a2 : ¬ (192 + c / 64) % 256 < (194 : UInt8).toNat := by simp; omega
    have a3 : (192 + c / 64) % 256 < (224 : UInt8).toNat := by simp; omega
    have a4 : (128 : UInt8).toNat ≤ (128 + c % 64) % 256 ∧ (128 + c % 64) % 256 ≤ (191 : UInt8).toNat := by
      simp; omega
    simp only [a1, a2, a3, a4, if_true, if_false, and_self, and_true]
    refine Prod.ext ?_ rfl
    simp only []
    omega
  by_cases h3 : c ≤ 0xFFFF
  · have hdec := decodeRune_encodeRune3 c r (by omega) h3 (by omega)
    rw [encodeRune_3 c (by omega) h3 (by omega)]
    refine ⟨hdec, ?_⟩
    unfold runeLen
    rw [if_neg h1, if_neg h2, if_neg (by simp; omega), if_pos h3]
    rfl
  · have hdec := decodeRune_encodeRune4 c r (by omega) (by omega)
    rw [encodeRune_4 c (by omega) (by omega)]
    refine ⟨hdec, ?_⟩
    unfold runeLen
    rw [if_neg h1, if_neg h2, if_neg (by simp; omega), if_neg h3, if_pos (by omega)]
    rfl


theorem decodeLastRuneRev_width_pos (b : UInt8) (t : Bytes) : 1 ≤ (decodeLastRuneRev (b :: t)).2 := by
  unfold decodeLastRuneRev
  simp only []
  split
  · simp
  · generalize hn : min (b :: t).length 5 = n
    generalize htail : ((b :: t).take 5).reverse = tail
    have hlen : tail.length = n := by rw [← htail, ← hn]; simp; omega
    have hn1 : 1 ≤ n := by rw [← hn]; simp; omega
    generalize hstart : (if (decide (2 ≤ n) && runeStart (tail.getD (n - 2) 0)) = true then n - 2
      else if (decide (3 ≤ n) && runeStart (tail.getD (n - 3) 0)) = true then n - 3
      else if (decide (4 ≤ n) && runeStart (tail.getD (n - 4) 0)) = true then n - 4
      else n - 5) = start
    have hlt : start < n := by
      rw [← hstart]
      repeat' split
      all_goals simp_all <;> omega
    split
    · simp
    · rename_i hne
      cases hd : tail.drop start with
      | nil =>
        have : (tail.drop start).length = 0 := by rw [hd]; rfl
        simp at this; omega
      | cons c u => exact decodeRune_width_pos c u


end HL.Utf8
