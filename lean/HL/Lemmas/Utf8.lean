import HL.Model.Utf8
/-! Width facts of `decodeRune` used by every progress / locality proof of the lexer. -/
namespace HL.Utf8

theorem decodeRune_nil : decodeRune [] = (runeError, 0) := rfl

/-- the width is 1, 2, 3 or 4 on non-empty input -/
theorem decodeRune_width_pos (b : UInt8) (t : Bytes) : 1 ≤ (decodeRune (b :: t)).2 := by
  simp only [decodeRune]
  repeat' split
  all_goals simp

theorem decodeRune_width_le4 (a : Bytes) : (decodeRune a).2 ≤ 4 := by
  unfold decodeRune
  repeat' split
  all_goals simp

theorem decodeRune_width_le_length (b : UInt8) (t : Bytes) :
    (decodeRune (b :: t)).2 ≤ (b :: t).length := by
  simp only [decodeRune]
  repeat' split
  all_goals simp

/-! ### locality: a line feed is never part of a multi-byte sequence -/

theorem acceptLo_ge (b0 : UInt8) : 0x80 ≤ acceptLo b0 := by
  unfold acceptLo; repeat' split
  all_goals decide

theorem acceptLo_not_le_lf (b0 : UInt8) : ¬ (acceptLo b0 ≤ 10) := by
  intro h
  exact absurd (UInt8.le_trans (acceptLo_ge b0) h) (by decide)

macro "dr_cases" : tactic => `(tactic|
  (simp only [decodeRune, List.cons_append, List.nil_append]
   repeat' split
   all_goals first
     | rfl
     | (simp_all [isCont, acceptLo_not_le_lf]; done)))

theorem decodeRune_append_of_lf (a b : Bytes) (h : (0x0A : UInt8) ∈ a) :
    decodeRune (a ++ b) = decodeRune a := by
  rcases a with _ | ⟨b0, _ | ⟨b1, _ | ⟨b2, _ | ⟨b3, t⟩⟩⟩⟩
  · simp at h
  · simp at h; subst h; simp [decodeRune]
  · simp at h
    rcases h with rfl | rfl
    · simp [decodeRune]
    · rcases b with _ | ⟨c0, _ | ⟨c1, b'⟩⟩ <;> dr_cases
  · simp at h
    rcases h with rfl | rfl | rfl
    · simp [decodeRune]
    · rcases b with _ | ⟨c0, b'⟩ <;> dr_cases
    · rcases b with _ | ⟨c0, b'⟩ <;> dr_cases
  · simp [decodeRune]

theorem decodeRune_take_noLF (b0 : UInt8) (t : Bytes) (h : b0 ≠ 0x0A) :
    (0x0A : UInt8) ∉ (b0 :: t).take (decodeRune (b0 :: t)).2 := by
  rcases t with _ | ⟨b1, _ | ⟨b2, _ | ⟨b3, t⟩⟩⟩
  all_goals
    simp only [decodeRune]
    repeat' split
  all_goals
    have h' : ¬ (10 : UInt8) = b0 := fun e => h e.symm
    simp_all [isCont]
  all_goals repeat' constructor
  all_goals
    intro e
    subst e
    simp_all [acceptLo_not_le_lf]

end HL.Utf8
